#!/bin/bash
# usage: seeded_take_j.sh <agent n> <prop> <checks...> : like seeded_take.sh for round j (worktree /tmp/wt-j-<n>, next free index of <prop>)
N=$1; P=$2; shift; shift
i=1; while [ -d /verif/seeded/$P-$i ]; do i=$((i+1)); done
S=/verif/seeded/$P-$i; W=/tmp/wt-j-$N
mkdir -p $S
cp $W/deliver/patch.diff $S/; cp $W/deliver/notes.md $S/ 2>/dev/null
for f in demo.c demo.cpp; do [ -f $W/deliver/$f ] && cp $W/deliver/$f $S/; done
echo "== $P-$i (agent j$N)"; /verif/tools/confirm_seeded.sh $S $SEED_CC 2>&1 | tail -4
git -C /repo worktree remove --force $W
[ $# -gt 0 ] && /verif/tools/try_seeded.sh $S/patch.diff "$@" 2>&1 | tail -12
