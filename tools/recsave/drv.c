#include <stdio.h>
#include <stdlib.h>
#include <string.h>
#include "yaep.h"
static const char *inp; static int pos;
static int rd (void **attr) { *attr = NULL; if (inp[pos] == 0) return -1; return inp[pos++]; }
static void serr (int e, int ei, void *ea, int si, void *sa, int ri, void *ra)
{ fprintf (stderr, "@@syntax error at %d ignore %d..%d\n", e, si, ri); }
int main (int argc, char **argv)
{
  struct grammar *g = yaep_create_grammar (); struct yaep_tree_node *root; int amb;
  if (yaep_parse_grammar (g, 1, argv[1]) != 0) { fprintf (stderr, "gerr %s\n", yaep_error_message (g)); return 2; }
  yaep_set_debug_level (g, 3);
  if (argc > 3) yaep_set_recovery_match (g, atoi (argv[3]));
  inp = argv[2]; pos = 0;
  fprintf (stderr, "@@toks_len %d\n", (int) strlen (inp) + 1);
  int r = yaep_parse (g, rd, serr, NULL, NULL, &root, &amb);
  fprintf (stderr, "@@result %d\n", r);
  return 0;
}
