import sys,re
# stderr of drv -> Lean #guard comparing model trace with printed Save/Restore/Set lines
def conv(lines, name, cap):
    out=[]; i=0
    recs=[]; cur=None
    for l in lines:
        l=l.rstrip('\n')
        if l.startswith('++Error recovery start'): cur=[]; recs.append(cur)
        elif l.startswith('++Error recovery end'):
            cur.append(l); cur=None
        elif cur is not None and l.strip(): cur.append(l)
    res=[]
    for ri,r in enumerate(recs):
        evs=[]; ops=[]; k=0; start=None; j=None; fresh=1000
        # initialisation
        while r[k].startswith('++++Save'):
            v=int(r[k].split('=')[1]); evs.append('.save %d'%v)
            if start is None: start=v
            k+=1
        m=re.match(r'\+\+\+\+Creating recovery state: original set=(\d+), tok=(\d+)',r[k]); j=int(m.group(1)); tok0=int(m.group(2)); k+=2
        nstart=len(evs)
        while k<len(r):
            l=r[k]
            if l.startswith('++++Pop'): ops.append('.pop')
            elif l.startswith('++++++Restore'): evs.append('.restore %d'%int(l.split('=')[1]))
            elif l.startswith('++++Set recovery state'):
                m=re.match(r'\+\+\+\+Set recovery state: set=(\d+), tok=(\d+)',l); evs.append('.setState %s %s'%m.groups())
            elif l.startswith('++++Advance back frontier'):
                m=re.match(r'.*old=(\d+), new=(\d+)',l); new=int(m.group(2))
                if r[k+1].startswith('++++Save') or r[k+1].startswith('++++Creating'):
                    ops.append('.advance %d 0 %d'%(new,tok0))
                    k+=1
                    while r[k].startswith('++++Save'):
                        evs.append('.save %d'%int(r[k].split('=')[1])); k+=1
                    k+=1  # Creating, Push
            elif l.startswith('++++Advance head frontier') or l.startswith('++++Found secondary'):
                m=re.match(r'.*tok=(\d+)',l); ops.append('.setTok %s'%m.group(1)); ops.append('.pushCur 0'); k+=2
            elif l.startswith('++Trying new set'): ops.append('.write %d (-1)'%fresh); fresh+=1
            elif l.startswith('++++++Matching'):
                t=int(l.split('=')[1].split()[0]); ops.append('.write %d %d'%(fresh,t)); fresh+=1
            elif l.startswith('++++Ignore') and 'best recovery now' in l:
                m=re.match(r'.*tok=(\d+)',r[k+1]); ops.append('.setTok %s'%m.group(1)); ops.append('.snapBest'); k+=1
            elif l.startswith('++Finishing'): ops.append('.finish')
            elif l.startswith('++Error recovery end'):
                m=re.match(r'.*curr token (\d+)=.*Current set=(\d+)',l); endtok,endset=m.groups()
            k+=1
        res.append((start,j,tok0,ops,evs,nstart,endtok,endset))
    for n,(start,j,tok0,ops,evs,nstart,endtok,endset) in enumerate(res):
        out.append('/-- %s, recovery %d: start_pl_curr=%d, first error set=%d, %d ops -/'%(name,n,start,j,len(ops)))
        out.append('def %s_%d_ops : List (Op Nat) := [%s]'%(name,n,', '.join(ops)))
        out.append('def %s_%d_evs : List Ev := [%s]'%(name,n,', '.join(evs)))
        out.append('#guard libCheck %d %d %d %d %s_%d_ops %s_%d_evs %s %s'%(cap,start,j,tok0,name,n,name,n,endset,endtok))
    return '\n'.join(out)
if __name__=='__main__':
    name=sys.argv[1]; cap=int(sys.argv[2])
    print(conv(sys.stdin.readlines(),name,cap))
