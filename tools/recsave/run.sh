#!/bin/sh
# Rebuilds lean/Yaep/Props/RecoverySaveLib.lean from the level-3 debug output of the library.
# usage: tools/recsave/run.sh   (needs bison, gcc; the library sources are read from $VERIF_REPO/src, default /repo/src;
# RECSAVE_OUT = file to write instead of the committed one: ./check C07 writes a fresh copy under .work and elaborates it)
set -e
ROOT=$(cd "$(dirname "$0")/../.." && pwd); W=${RECSAVE_WORK:-$ROOT/.work/recsave}; mkdir -p $W; cd $W
SRC=${VERIF_REPO:-/repo}/src
cp $ROOT/tools/recsave/drv.c $ROOT/tools/recsave/conv.py .
bison -o sgramm.c $SRC/sgramm.y 2>/dev/null
for f in yaep hashtab objstack vlobject allocate; do gcc -w -O0 -I$SRC -I. -c $SRC/$f.c; done
gcc -w -I$SRC -I. drv.c yaep.o hashtab.o objstack.o vlobject.o allocate.o -o drv
G="TERM; P : S | P S ; S : 'i' '=' E ';' | error ';' ; E : 'n' | E '+' 'n' ;"
G2="TERM; P : S | P S ; S : 'i' '=' E ';' | error ';' | '{' P '}' | '{' error '}' ; E : 'n' | E '+' 'n' | '(' E ')' | '(' error ')' ;"
G3="TERM; L : | L I ; I : 'a' 'b' 'c' | error 'c' | 'd' L 'e' | 'd' error ;"
F=$ROOT/lean/Yaep/Props/RecoverySaveLib.lean
sed -n '1,/^      && sf.cpl.take/p' $F > head.lean; echo >> head.lean
run() { ./drv "$@" 2>&1 | python3 conv.py "$NAME" 64 >> head.lean; echo >> head.lean; }
NAME=stm1 run "$G" "i=n;i=+n;i=n;"
NAME=stm2 run "$G" "i=n;i=n+n"
NAME=stm3 run "$G" "i=n;i=+n;i=n;i==n;i=n;"
NAME=stm4 run "$G" "i=n;i=+n;i=n;i==n;i=n;" 2
NAME=blk1 run "$G2" "{i=(n+;i=n;}i=n;"
NAME=blk2 run "$G2" "i=n;{i=n;i=(+n);i=n;n}i=;i=n;" 2
NAME=abc1 run "$G3" "abcdabaabcbce"
NAME=abc2 run "$G3" "ddabxabcabdeab" 1
echo "end Yaep.RS" >> head.lean
cp head.lean ${RECSAVE_OUT:-$F}
