#!/bin/bash
# usage: try_seeded.sh <patch> <prop> [more props...] : apply a seeded change to /repo, run the checks, undo
P=$1; shift
git -C /repo apply "$P" || exit 2
export VERIF_EVIDENCE_DIR=/tmp/verif-seeded-evidence
for c in "$@"; do VERIF_NOSHRINK=1 /verif/check $c 2>&1 | grep -v "^KNOWN" | cut -c1-260 | head -3; done
git -C /repo checkout -- .
