#!/bin/bash
# usage: confirm_seeded.sh <dir with patch.diff and demo.c|demo.cpp> [extra cc flags...]
# Confirms a seeded change in a scratch worktree of /repo (outside /repo and /verif):
#   unchanged tree: 120 baseline tests pass, demo exits 0
#   changed tree  : patch applies, compiles, 120 baseline tests pass, demo exits non-zero (or crashes)
# Prints one line "CONFIRM <ok|FAIL> ..." and removes the worktree.
set -u
D=$(readlink -f "$1"); shift
EXTRA="$*"
W=$(mktemp -d /var/tmp/yaep-confirm.XXXXXX)
trap 'git -C /repo worktree remove --force "$W" >/dev/null 2>&1; rm -rf "$W"' EXIT
rmdir "$W"
git -C /repo worktree add -q --detach "$W" HEAD || { echo "CONFIRM FAIL worktree"; exit 2; }

build_and_test () {   # $1 = build dir
  cmake -G Ninja -S "$W" -B "$1" -DCMAKE_BUILD_TYPE=RelWithDebInfo >"$1.cfg.log" 2>&1 || return 2
  cmake --build "$1" --target sgramm_c >"$1.b.log" 2>&1
  cmake --build "$1" --target yaep_static yaep++_static -j8 >>"$1.b.log" 2>&1 || return 3
  cmake --build "$1" -j8 -- -k 0 >>"$1.b.log" 2>&1 || cmake --build "$1" -j8 -- -k 0 >>"$1.b.log" 2>&1
  ctest --test-dir "$1" -j8 --timeout 900 --output-junit "$1/junit.xml" >"$1.t.log" 2>&1
  python3 - "$1/junit.xml" <<'PY'
import sys, json, xml.etree.ElementTree as ET
base = json.load(open('/root/.vp/BASELINE.json'))
want = set(x.split('::')[0] for x in base['stable_pass'])
passed = set()
for tc in ET.parse(sys.argv[1]).getroot().iter('testcase'):
    if tc.find('failure') is None and tc.find('error') is None and tc.get('status', 'run') not in ('fail', 'notrun'):
        passed.add(tc.get('name'))
miss = sorted(want - passed)
print('tests: %d of %d pass%s' % (len(want & passed), len(want), (' failing: ' + ' '.join(miss[:8])) if miss else ''))
sys.exit(1 if miss else 0)
PY
}

run_demo () {   # $1 = build dir, $2 = tag
  local lib libxx out
  lib=$(find "$1" -name 'libyaep.a' | head -1); libxx=$(find "$1" -name 'libyaep++.a' | head -1)
  out="$W/demo_$2"
  if [ -f "$D/demo.cpp" ]; then
    g++ -g -O0 $EXTRA -I"$W/src" "$D/demo.cpp" "$libxx" -o "$out" >"$out.cc.log" 2>&1 || { echo "demo compile failed"; tail -5 "$out.cc.log"; return 99; }
  else
    gcc -g -O0 $EXTRA -I"$W/src" "$D/demo.c" "$lib" -o "$out" >"$out.cc.log" 2>&1 || { echo "demo compile failed"; tail -5 "$out.cc.log"; return 99; }
  fi
  ( cd "$D" && timeout 120 "$out" >"$out.out" 2>&1 ); return $?
}

T0=$(build_and_test "$W/_b0"); R0=$?
run_demo "$W/_b0" base; DB=$?
git -C "$W" apply "$D/patch.diff" || { echo "CONFIRM FAIL patch does not apply"; exit 1; }
T1=$(build_and_test "$W/_b1"); R1=$?
run_demo "$W/_b1" mut; DM=$?
res=ok
[ $R0 -eq 0 ] && [ $R1 -eq 0 ] && [ $DB -eq 0 ] && [ $DM -ne 0 ] && [ $DM -ne 99 ] || res=FAIL
echo "CONFIRM $res base[$T0; demo rc=$DB] changed[$T1; demo rc=$DM]"
[ $res = ok ] || { tail -5 "$W/demo_mut.out" 2>/dev/null; tail -5 "$W/_b1.b.log" 2>/dev/null; }
[ $res = ok ]
