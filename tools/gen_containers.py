#!/usr/bin/env python3
"""gen_containers.py <seed> <ncases> [first_id] [--no-remove]  -- seeded generator of C19 container cases.

--no-remove drops the `h remove` lines of the hash table cases (used to show that the C++ table
agrees with the reference model as long as no deleted slot is reused).

All randomness comes from the seed.  Case kinds rotate hashtab / objstack / vlo.
The small simulations below (capacity of the vlo, room in the current objstack segment,
presumed contents of the table) only STEER the generator towards boundaries; nothing here is
an oracle -- the judge is the Lean model.
<= 400 ops per case.
"""
import random
import sys

MAXOPS = 400


def hexs(rng, n):
    if n == 0:
        return "-"
    return "".join("%02x" % rng.randrange(256) for _ in range(n))


# --------------------------------------------------------------------------- hash table ---
def gen_hashtab(rng, cid):
    out = ["case %s hashtab" % cid]
    style = rng.choice(["collide", "grow", "churn", "mixed", "tiny", "emptying"])
    modulus = rng.choice([1, 2, 3, 5, 7, 11, 13, 17, 31, 97, 1000003])
    if style == "grow":
        modulus = rng.choice([3, 7, 97, 1009, 1000003])
    size = rng.choice([0, 1, 2, 3, 4, 5, 6, 10, 11, 20, 50, 100, 300])
    if style in ("tiny", "collide", "churn"):
        size = rng.choice([0, 1, 2, 3, 5, 7, 10])
    out.append("h create %d %d" % (size, modulus))
    nops = rng.randrange(20, MAXOPS - 1)
    if style == "grow":
        nops = rng.randrange(250, MAXOPS - 1)
    # value pool: colliding values (multiples of the modulus plus a few residues), all >= 2
    if modulus < 1000:
        residues = [rng.randrange(modulus) for _ in range(rng.choice([1, 2, 3]))]
        pool = sorted({r + modulus * k for r in residues for k in range(0, 400)} - {0, 1})
    else:
        pool = list(range(2, 600))
    poolsize = {"collide": 12, "churn": 8, "tiny": 5, "grow": 380, "mixed": 60, "emptying": 40}[style]
    pool = pool[:max(3, poolsize)] if rng.random() < 0.7 else rng.sample(pool, min(len(pool), poolsize))
    present = set()          # presumed contents (steering only)
    recently_removed = []
    n = 1
    while n < nops:
        r = rng.random()
        if style == "grow" and r < 0.55:
            cand = [v for v in pool if v not in present]
            v = rng.choice(cand) if cand else rng.choice(pool)
            out.append("h insert %d" % v); present.add(v)
        elif r < 0.30:
            # re-insert something removed a moment ago (deleted slot reuse) or a fresh value
            if recently_removed and rng.random() < 0.6:
                v = recently_removed.pop(rng.randrange(len(recently_removed)))
            else:
                v = rng.choice(pool)
            out.append("h insert %d" % v); present.add(v)
        elif r < 0.50:
            if present and rng.random() < 0.8:
                v = rng.choice(sorted(present))
            else:
                v = rng.choice(pool)
            out.append("h remove %d" % v)
            if v in present:
                present.discard(v); recently_removed.append(v)
        elif r < 0.80:
            if rng.random() < 0.5 and present:
                v = rng.choice(sorted(present))
            elif recently_removed and rng.random() < 0.5:
                v = rng.choice(recently_removed)
            else:
                v = rng.choice(pool)
            out.append("h find %d" % v)
        elif r < 0.93:
            out.append("h size")
        elif r < (0.99 if style != "emptying" else 0.96):
            # burst: remove k present values and insert them (or colliding others) again
            k = rng.randrange(1, 6)
            vs = rng.sample(sorted(present), min(k, len(present))) if present else []
            for v in vs:
                out.append("h remove %d" % v); present.discard(v); n += 1
            for v in vs:
                w = v if rng.random() < 0.5 else rng.choice(pool)
                out.append("h insert %d" % w); present.add(w); n += 1
            out.append("h size")
        else:
            out.append("h empty"); present.clear(); recently_removed = []
        n += 1
    # final sweep: look every pool value up (bounded), and the size
    out = out[:MAXOPS - 40]
    for v in rng.sample(pool, min(len(pool), 30)):
        out.append("h find %d" % v)
    out.append("h size")
    out.append("end")
    return out


# ------------------------------------------------------------------------- object stack ---
class OsSim:
    """steering only: room left before os_boundary"""
    def __init__(self, initlen):
        self.init = initlen if initlen else 512
        self.start = 0; self.free = 0; self.bound = self.init

    def need(self, n):
        if self.free + n > self.bound:
            ln = self.free - self.start
            l = ln + n; l += l // 2 + 1
            l = max(l, 512)
            self.start = 0; self.free = ln; self.bound = l

    def add(self, n):
        self.need(n); self.free += n

    def finish(self):
        self.free = (self.free + 7) // 8 * 8; self.start = self.free

    def room(self):
        return max(0, self.bound - self.free)


def gen_objstack(rng, cid):
    out = ["case %s objstack" % cid]
    initlen = rng.choice([0, 1, 2, 3, 7, 8, 9, 15, 16, 17, 31, 64, 100, 255, 511, 512, 513, 1000])
    style = rng.choice(["small", "boundary", "big", "mixed", "emptying", "zero"])
    out.append("s create %d" % initlen)
    sim = OsSim(initlen)
    nops = rng.randrange(20, MAXOPS - 1)
    total_hex = 0
    n = 1
    while n < nops:
        r = rng.random()
        room = sim.room()
        if r < 0.40:
            if style == "small":
                ln = rng.choice([0, 1, 1, 2, 3, 4, 5, 7, 8, 9, 12, 16, 24])
            elif style == "big":
                ln = rng.choice([1, 8, 100, 300, 511, 512, 513, 600, 900, 1500, 2500])
            elif style == "zero":
                ln = rng.choice([0, 0, 0, 1, 2, 8])
            else:
                ln = rng.choice([0, 1, 2, 7, 8, 9, room, room + 1, max(0, room - 1), room + 8,
                                 max(0, room - 7), 64, 200, 520])
            if total_hex + ln > 60000:
                ln = ln % 17
            total_hex += ln
            if ln == 1 and rng.random() < 0.5:
                out.append("s addbyte %s" % hexs(rng, 1)); sim.add(1)
            else:
                out.append("s addbytes %s" % hexs(rng, ln)); sim.add(ln)
        elif r < 0.48:
            out.append("s addbyte %s" % hexs(rng, 1)); sim.add(1)
        elif r < 0.56:
            ln = rng.choice([0, 1, 3, 8, room, room + 1, 50, 700]) if style != "small" else rng.choice([0, 1, 2, 5, 9])
            out.append("s expand %d" % ln); sim.add(ln)
        elif r < 0.64:
            tl = sim.free - sim.start
            ln = rng.choice([0, 1, 2, tl, tl + 1, max(0, tl - 1), tl // 2, 1000000])
            out.append("s shorten %d" % ln)
            sim.free = sim.start if tl < ln else sim.free - ln
        elif r < 0.82:
            out.append("s finish"); sim.finish()
        elif r < 0.85:
            out.append("s nullify"); sim.free = sim.start
        elif r < 0.93:
            out.append("s top")
        elif r < (0.985 if style != "emptying" else 0.96):
            out.append("s check")
        else:
            out.append("s check"); out.append("s empty"); n += 1
            sim = OsSim(sim.init)
        n += 1
    out = out[:MAXOPS - 3]
    out.append("s top"); out.append("s check")
    out.append("end")
    return out


# --------------------------------------------------------------------------------- vlo ---
def gen_vlo(rng, cid):
    out = ["case %s vlo" % cid]
    initlen = rng.choice([0, 1, 2, 3, 4, 5, 8, 16, 100, 511, 512, 513])
    out.append("v create %d" % initlen)
    cap = initlen if initlen else 512
    ln = 0
    nops = rng.randrange(10, MAXOPS - 1)
    total_hex = 0

    def grow(k):
        nonlocal cap, ln
        if ln + k > cap:
            l = ln + k; cap = l + l // 2 + 1
        ln += k

    for _ in range(nops):
        r = rng.random()
        room = max(0, cap - ln)
        if r < 0.45:
            k = rng.choice([0, 1, 1, 2, 3, room, room + 1, max(0, room - 1), room + 2, 10, 100, 700])
            if total_hex + k > 60000:
                k = k % 13
            total_hex += k
            out.append("v add %s" % hexs(rng, k)); grow(k)
        elif r < 0.55:
            k = rng.choice([0, 1, 2, room, room + 1, 33, 600])
            out.append("v expand %d" % k); grow(k)
        elif r < 0.68:
            k = rng.choice([0, 1, 2, ln, ln + 1, max(0, ln - 1), ln // 2, 99999])
            out.append("v shorten %d" % k)
            ln = 0 if ln < k else ln - k
        elif r < 0.72:
            out.append("v nullify"); ln = 0
        elif r < 0.80:
            out.append("v tailor"); cap = ln if ln else 1
        else:
            out.append("v get")
    out = out[:MAXOPS - 2]
    out.append("v get")
    out.append("end")
    return out


def gen_cases(seed, ncases):
    rng = random.Random(seed)
    gens = [gen_hashtab, gen_objstack, gen_vlo]
    return [gens[i % 3](rng, "s%d_%d" % (seed, i)) for i in range(ncases)]


def main():
    if len(sys.argv) < 3:
        sys.stderr.write(__doc__)
        sys.exit(2)
    noremove = "--no-remove" in sys.argv
    argv = [a for a in sys.argv if a != "--no-remove"]
    seed = int(argv[1]); ncases = int(argv[2])
    first = int(argv[3]) if len(argv) > 3 else 0
    rng = random.Random(seed)
    gens = [gen_hashtab, gen_objstack, gen_vlo]
    for i in range(ncases):
        cid = "s%d_%d" % (seed, first + i)
        lines = gens[i % 3](rng, cid)
        if noremove:
            lines = [l for l in lines if not l.startswith("h remove")]
        assert len(lines) <= MAXOPS + 2, len(lines)
        sys.stdout.write("\n".join(lines) + "\n")


if __name__ == "__main__":
    main()
