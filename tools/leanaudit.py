#!/usr/bin/env python3
"""Audit of the Lean side, run by every check:
  * `lake build` of the Props modules the property rests on, with everything they import, and of the
    judges (re-elaborated when a source or the regenerated Generated.lean changed; the setup command
    builds the whole library),
  * grep for constructs that would weaken a proof,
  * `#print axioms` for every property theorem of the requested Props modules.
Results are cached on the hash of all Lean sources (the .olean files are what lake checks;
the cache only avoids re-running `#print axioms`)."""
import glob, hashlib, json, os, re, subprocess, sys
sys.path.insert(0, os.path.dirname(os.path.abspath(__file__)))
import build

LEAN = build.LEAN
ALLOWED_AXIOMS = {'propext', 'Classical.choice', 'Quot.sound'}
FORBIDDEN = re.compile(r'\b(sorry|admit|native_decide|bv_decide|implemented_by|unsafe)\b|^\s*axiom\s|maxHeartbeats\s+0')


def lean_sources():
    return sorted(glob.glob(os.path.join(LEAN, 'Yaep', '**', '*.lean'), recursive=True)) + \
        [os.path.join(LEAN, 'Yaep.lean'), os.path.join(LEAN, 'Main.lean'), os.path.join(LEAN, 'lakefile.toml')]


def strip_comments(text):
    # remove block comments (nested) and line comments
    out = []; depth = 0; i = 0
    while i < len(text):
        if text.startswith('/-', i):
            depth += 1; i += 2; continue
        if text.startswith('-/', i) and depth > 0:
            depth -= 1; i += 2; continue
        if depth == 0:
            if text.startswith('--', i):
                j = text.find('\n', i)
                i = len(text) if j < 0 else j
                continue
            out.append(text[i])
        elif text[i] == '\n':
            out.append('\n')
        i += 1
    return ''.join(out)


def theorems_of(module):
    """names of the theorems stated in Props/<module>.lean (namespace Yaep assumed)"""
    path = os.path.join(LEAN, 'Yaep', 'Props', module + '.lean')
    if not os.path.exists(path):
        return []
    text = strip_comments(open(path).read())
    ns = []
    names = []
    for line in text.split('\n'):
        m = re.match(r'\s*namespace\s+(\S+)', line)
        if m: ns.append(m.group(1)); continue
        m = re.match(r'\s*end\s+(\S+)', line)
        if m and ns and ns[-1] == m.group(1): ns.pop(); continue
        m = re.match(r'\s*(?:@\[[^\]]*\]\s*)?(?:protected\s+|private\s+)?theorem\s+(\S+)', line)
        if m:
            names.append('.'.join(ns + [m.group(1)]))
    return names


def audit(modules, recheck=False):
    """returns dict(ok, build_log, forbidden=[...], theorems={name: [axioms]}, bad=[names]);
    recheck: also run leanchecker (independent re-check of the compiled .olean) on every Props module"""
    res = dict(ok=True, forbidden=[], theorems={}, bad=[], build_ok=True, log='', rechecked=[], recheck_failed=[])
    try:
        build.build_lean(full=[m for m in modules if os.path.exists(os.path.join(LEAN, 'Yaep', 'Props', m + '.lean'))])
    except build.BuildError as e:
        res.update(ok=False, build_ok=False, log=e.log)
        return res
    srcs = lean_sources()
    for p in srcs:
        if not p.endswith('.lean'): continue
        text = strip_comments(open(p).read())
        for n, line in enumerate(text.split('\n'), 1):
            if FORBIDDEN.search(line):
                res['forbidden'].append('%s:%d: %s' % (os.path.relpath(p, LEAN), n, line.strip()[:80]))
    if res['forbidden']:
        res['ok'] = False
    h = hashlib.sha256()
    for p in srcs:
        h.update(open(p, 'rb').read())
    key = h.hexdigest()[:16] + '-' + '-'.join(sorted(modules))
    os.makedirs(build.WORK, exist_ok=True)
    cache = os.path.join(build.WORK, 'audit-' + hashlib.sha256(key.encode()).hexdigest()[:16] + '.json')
    if os.path.exists(cache):
        cached = json.load(open(cache))
        res['theorems'] = cached
    else:
        names = []
        for m in modules:
            names += theorems_of(m)
        scratch = os.path.join(build.WORK, 'audit-%d.lean' % os.getpid())
        with open(scratch, 'w') as f:
            for m in modules:
                if os.path.exists(os.path.join(LEAN, 'Yaep', 'Props', m + '.lean')): f.write('import Yaep.Props.%s\n' % m)
            for n in names:
                f.write('#print axioms %s\n' % n)
        p = subprocess.run(['lake', 'env', 'lean', scratch], cwd=LEAN, stdout=subprocess.PIPE, stderr=subprocess.STDOUT, text=True)
        os.unlink(scratch)
        out = p.stdout
        # "'Yaep.foo' depends on axioms: [propext, Quot.sound]" or "does not depend on any axioms"
        for n in names:
            m = re.search(r"'%s' depends on axioms: \[([^\]]*)\]" % re.escape(n), out, re.S)
            if m:
                res['theorems'][n] = [a.strip() for a in m.group(1).replace('\n', ' ').split(',') if a.strip()]
            elif re.search(r"'%s' does not depend on any axioms" % re.escape(n), out):
                res['theorems'][n] = []
            else:
                res['theorems'][n] = ['<not-found>']
        os.makedirs(build.WORK, exist_ok=True)
        json.dump(res['theorems'], open(cache, 'w'))
    if recheck:
        for m in modules:
            if not os.path.exists(os.path.join(LEAN, 'Yaep', 'Props', m + '.lean')): continue
            mark = os.path.join(build.WORK, 'leanchecker-%s-%s.ok' % (h.hexdigest()[:16], m))
            if not os.path.exists(mark):
                p = subprocess.run(['lake', 'env', 'leanchecker', 'Yaep.Props.' + m], cwd=LEAN, stdout=subprocess.PIPE, stderr=subprocess.STDOUT, text=True)
                if p.returncode != 0:
                    res['recheck_failed'].append('%s: %s' % (m, p.stdout[-500:])); continue
                open(mark, 'w').write('ok\n')
            res['rechecked'].append('Yaep.Props.' + m)
        if res['recheck_failed']:
            res['ok'] = False
    for n, ax in res['theorems'].items():
        if not set(ax) <= ALLOWED_AXIOMS:
            res['bad'].append(n)
    if res['bad']:
        res['ok'] = False
    return res


if __name__ == '__main__':
    r = audit(sys.argv[1:] or ['C01'])
    print(json.dumps({k: v for k, v in r.items() if k != 'log'}, indent=1))
    if not r['build_ok']: print(r['log'])
