#!/bin/bash
# Build /repo's current working tree with the hook guard OFF in a scratch build tree outside
# /repo, run the pinned test suite, and compare with BASELINE.json (120 stable tests).
set -u
REPO=${VERIF_REPO:-/repo}
B=$(mktemp -d /var/tmp/yaep-baseline.XXXXXX)
trap 'rm -rf "$B"' EXIT
cmake -G Ninja -S "$REPO" -B "$B" -DCMAKE_BUILD_TYPE=RelWithDebInfo >"$B/cfg.log" 2>&1 || { tail -20 "$B/cfg.log"; echo "BASELINE: configure failed"; exit 2; }
cmake --build "$B" --target sgramm_c >"$B/build0.log" 2>&1
cmake --build "$B" --target yaep_static yaep++_static -j16 >>"$B/build0.log" 2>&1 || { tail -30 "$B/build0.log"; echo "BASELINE: library build failed"; exit 2; }
# the repository's own build has ordering gaps (ansic-* link before the library exists):
# build twice, keep going; tests whose binaries are missing simply fail in ctest
cmake --build "$B" -j16 -- -k 0 >"$B/build.log" 2>&1 || cmake --build "$B" -j16 -- -k 0 >>"$B/build.log" 2>&1
ctest --test-dir "$B" -j8 --timeout 900 --output-junit "$B/junit.xml" >"$B/ctest.log" 2>&1
python3 - "$B/junit.xml" <<'PY'
import sys, json, xml.etree.ElementTree as ET
base = json.load(open('/root/.vp/BASELINE.json'))
want = set(x.split('::')[0] for x in base['stable_pass'])
root = ET.parse(sys.argv[1]).getroot()
passed = set()
for tc in root.iter('testcase'):
    ok = tc.find('failure') is None and tc.find('error') is None and tc.get('status', 'run') not in ('fail', 'notrun')
    if ok:
        passed.add(tc.get('name'))
missing = sorted(want - passed)
print('BASELINE: %d of %d stable tests pass' % (len(want & passed), len(want)))
if missing:
    print('BASELINE: failing:', ' '.join(missing[:20]))
    sys.exit(1)
PY
