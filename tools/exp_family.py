#!/usr/bin/env python3
"""experiment: tools/exp_family.py <structured kind> <focus> <count> [seed] -- cases of one structured family only"""
import sys, os, random
sys.path.insert(0, os.path.dirname(os.path.abspath(__file__)))
import gen, pipeline
from collections import Counter
kind, focus, count = sys.argv[1], sys.argv[2], int(sys.argv[3])
seed = int(sys.argv[4]) if len(sys.argv) > 4 else 1
orig = gen.gen_grammar
def forced(r, *a, **k):
    for _ in range(50):
        g = gen.gen_structured_grammar(r, True, kind=kind)
        if g is not None: return g
    return orig(r, *a, **k)
gen.gen_grammar = forced
cases = gen.gen_parse_cases(seed, count, focus, maxlen=8)
res = pipeline.run_cases(cases)
c = Counter((v.prop, v.kind, v.ok) for v in res.verdicts)
for k in sorted(c): print(k, c[k])
shown = Counter()
for v in res.verdicts:
    if not v.ok:
        shown[(v.prop, v.kind)] += 1
        if shown[(v.prop, v.kind)] <= 3: print(v)
print('wall %.1fs' % res.wall)
