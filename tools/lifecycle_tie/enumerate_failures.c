#include <stdio.h>
#include <stdlib.h>
#include "yaep.h"
static long live, allocs, fail_at = -1;
static int fail (void) { allocs++; if (fail_at > 0 && --fail_at == 0) { fail_at = -1; return 1; } return 0; }
void *vh_malloc (size_t n) { void *p; if (fail ()) return NULL; p = malloc (n); if (p) live++; return p; }
void *vh_calloc (size_t a, size_t b) { void *p; if (fail ()) return NULL; p = calloc (a, b); if (p) live++; return p; }
void *vh_realloc (void *q, size_t n) { void *p; if (fail ()) return NULL; p = realloc (q, n); if (!q && p) live++; return p; }
void vh_free (void *p) { if (p) live--; free (p); }
static const char *in; static int pos;
static int rd (void **a) { *a = NULL; return in[pos] ? in[pos++] : -1; }
static void se (int a, void *b, int c, void *d, int e, void *f) { (void)a;(void)b;(void)c;(void)d;(void)e;(void)f; }
int main (void)
{
  long k, base; int amb, rc; struct yaep_tree_node *root;
  /* create under every failure */
  for (k = 1; k < 40; k++)
    { struct grammar *g; long l0 = live; fail_at = k; g = yaep_create_grammar (); fail_at = -1;
      if (g != NULL) { printf ("create: %ld allocations; ok at k=%ld live=%ld\n", k - 1, k, live - l0); yaep_free_grammar (g); printf ("  after free live=%ld\n", live - l0); break; }
      printf ("create k=%ld NULL live=%ld\n", k, live - l0); }
  live = 0;
  for (k = 1; k < 80; k++)
    {
      struct grammar *g = yaep_create_grammar ();
      if (yaep_parse_grammar (g, 1, "S : 'a' S 'b' | ;") != 0) { printf ("descr: %s\n", yaep_error_message (g)); return 1; }
      base = live; in = "aabb"; pos = 0;
      fail_at = k; rc = yaep_parse (g, rd, se, NULL, NULL, &root, &amb); 
      if (fail_at == -1 && rc == 0) { printf ("parse k=%ld did not reach\n", k); }
      fail_at = -1;
      printf ("parse k=%ld rc=%d live_after_parse-base=%ld", k, rc, live - base);
      if (rc == 0 && root) yaep_free_tree (root, NULL, NULL);
      in = "aabb"; pos = 0; { long b2 = live; int rc2 = yaep_parse (g, rd, se, NULL, NULL, &root, &amb); if (rc2 == 0 && root) yaep_free_tree (root, NULL, NULL); printf (" second rc=%d delta=%ld", rc2, live - b2); }
      yaep_free_grammar (g);
      printf (" after_free live=%ld\n", live);
      if (rc == 0) break;
    }
  return 0;
}
