import os, shutil, subprocess, sys
base = '/tmp/lv-2/.scratch'
def edit(name, fn):
    d = os.path.join(base, 'repo_' + name)
    shutil.rmtree(d, ignore_errors=True)
    shutil.copytree('/repo/src', os.path.join(d, 'src'))
    p = os.path.join(d, 'src', 'yaep.c'); t = open(p).read(); t2 = fn(t)
    assert t2 != t, name
    open(p, 'w').write(t2)
    return d
def rep(a, b, count=1):
    def f(t):
        assert t.count(a) >= 1, a
        return t.replace(a, b, count)
    return f
END = "  pl_fin ();\n  yaep_parse_fin ();\n  tok_fin ();\n  return 0;"
edits = [
 ('H1_no_final_pl_fin', rep(END, "  yaep_parse_fin ();\n  tok_fin ();\n  return 0;")),
 ('H2_unguarded_tok_fin', rep("      if (tok_init_p)\n\ttok_fin ();", "      tok_fin ();")),
 ('H3_flag_before_init', rep("  tok_init ();\n  tok_init_p = TRUE;", "  tok_init_p = TRUE;\n  tok_init ();")),
 ('OK1_reordered_releases', rep(END, "  tok_fin ();\n  yaep_parse_fin ();\n  pl_fin ();\n  return 0;")),
 ('OK2_renamed_flag', lambda t: t.replace('tok_init_p', 'toks_ready_p')),
 ('OK3_renamed_local', lambda t: t.replace('saved_one_parse_p', 'saved_flag')),
 ('BASE', None),
]
for name, fn in edits:
    d = '/repo' if fn is None else edit(name, fn)
    env = dict(os.environ, VERIF_REPO=d)
    subprocess.run([sys.executable, '/tmp/lv-2/tools/extract_consts.py'], env=env, stdout=subprocess.DEVNULL, check=True)
    r = subprocess.run(['lake', 'build', 'Yaep.Props.Lifecycle', 'Yaep.Props.Generated'], cwd='/tmp/lv-2/lean', capture_output=True, text=True)
    errs = [l for l in r.stdout.splitlines() if l.startswith('error: Yaep/')]
    print(name, 'OBLIGATIONS HOLD' if r.returncode == 0 else 'OBLIGATIONS FAIL', '; '.join(e.split(': Tactic')[0].replace('error: ', '') for e in errs))
