#!/usr/bin/env python3
"""Experiment (not a check): line coverage of /repo/src/yaep.c + sgramm.y under the generated cases of
the quick tier.  Builds the harness with --coverage into .work/cov, runs every property's quick case
set in one process per shard (no fork), and prints the functions with unexecuted lines.
usage: tools/coverage.py [seed]"""
import os, sys, subprocess, shutil, re, glob
sys.path.insert(0, os.path.dirname(os.path.abspath(__file__)))
import build, props, pipeline
seed = int(sys.argv[1]) if len(sys.argv) > 1 else 1
cov = os.path.join(build.WORK, 'cov'); shutil.rmtree(cov, ignore_errors=True); os.makedirs(cov)
src = os.path.join(build.REPO, 'src')
subprocess.run(['bison', '-o', os.path.join(cov, 'sgramm.c'), os.path.join(src, 'sgramm.y')], check=True)
flags = ['-O0', '-g', '--coverage', '-DYAEP_VERIF', '-DNDEBUG', '-w', '-I' + src, '-I' + cov]
for f in ('yaep.c', 'allocate.c', 'hashtab.c', 'objstack.c', 'vlobject.c'):
    extra = build.ALLOC_RENAME if f == 'allocate.c' else []
    subprocess.run(['gcc'] + flags + extra + ['-c', os.path.join(src, f), '-o', os.path.join(cov, f + '.o')], check=True)
subprocess.run(['gcc'] + flags + ['-c', os.path.join(build.VERIF, 'harness', 'yh.c'), '-o', os.path.join(cov, 'yh.o')], check=True)
subprocess.run(['gcc', '--coverage', '-o', os.path.join(cov, 'yh')] + glob.glob(os.path.join(cov, '*.o')), check=True)
cases = []
for pid, P in props.PROPS.items():
    if P.get('kind') == 'containers' or 'gen' not in P: continue
    try: cases += P['gen'](seed, 'quick')
    except Exception as e: print('gen failed', pid, e)
cases = [c for c in cases if not any(l.startswith('case ') and (' perf' in l or ' long' in l or ' fault' in l) for l in c[:1])]
print('cases', len(cases))
n = 16
for i in range(n):
    with open(os.path.join(cov, 'in%d.txt' % i), 'w') as f:
        for c in cases[i::n]: f.write('\n'.join(c) + '\n')
procs = [subprocess.Popen([os.path.join(cov, 'yh'), '-n', '-t', '20', '-e', cov, os.path.join(cov, 'in%d.txt' % i)], stdout=subprocess.DEVNULL, stderr=subprocess.DEVNULL) for i in range(n)]
for p in procs: p.wait()
print('exit codes', [p.returncode for p in procs])

# report: unexecuted lines per function of yaep.c (gcov -f for the summary, the .gcov file for the lines)
os.chdir(cov)
subprocess.run(['gcov', '-o', cov, os.path.join(cov, 'yaep.c.o')], stdout=subprocess.DEVNULL, stderr=subprocess.DEVNULL)
for name in ('yaep.c.gcov', 'sgramm.y.gcov', 'sgramm.c.gcov'):
    path = os.path.join(cov, name)
    if not os.path.exists(path): continue
    miss = []; total = 0
    for l in open(path, errors='replace'):
        m = re.match(r'\s*([#=\-\d*]+):\s*(\d+):(.*)', l)
        if not m: continue
        cnt, ln, text = m.group(1), int(m.group(2)), m.group(3)
        if cnt.startswith('-'): continue
        total += 1
        if cnt.startswith('#') or cnt.startswith('='): miss.append((ln, text))
    print('%s: %d of %d executable lines never executed' % (name, len(miss), total))
    with open(os.path.join(cov, name + '.missed.txt'), 'w') as f:
        for ln, text in miss: f.write('%5d:%s\n' % (ln, text))
