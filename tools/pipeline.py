#!/usr/bin/env python3
"""Run cases through harness (real library, in-process) and the Lean judge, sharded over cores."""
import os, subprocess, sys, tempfile, shutil, time
from concurrent.futures import ThreadPoolExecutor
sys.path.insert(0, os.path.dirname(os.path.abspath(__file__)))
import build

JOBS = int(os.environ.get('VERIF_JOBS', '16'))


class Verdict:
    __slots__ = ('case', 'op', 'prop', 'kind', 'ok', 'detail')

    def __init__(self, case, op, prop, kind, ok, detail):
        self.case, self.op, self.prop, self.kind, self.ok, self.detail = case, op, prop, kind, ok, detail

    def __repr__(self):
        return 'V %s %s %s %s %s %s' % (self.case, self.op, self.prop, self.kind, 'ok' if self.ok else 'bad', self.detail)


class Result:
    def __init__(self):
        self.verdicts = []
        self.stats = {}      # case -> [stat strings]
        self.cases = {}      # case id -> list of case lines (input only)
        self.obs = {}        # case id -> list of all lines (input + observations)
        self.wall = 0.0


def split_cases(lines):
    cases = []; cur = None
    for l in lines:
        if l.startswith('case '):
            cur = [l]
        elif cur is not None:
            cur.append(l)
            if l == 'end':
                cases.append(cur); cur = None
    return cases


def run_shard(args):
    exe, judge, case_lines, workdir, idx, timeout, judge_args, stdin_mode = args[:8]
    extra_env = args[8] if len(args) > 8 else {}
    inp = os.path.join(workdir, 'in%d.txt' % idx)
    obs = os.path.join(workdir, 'obs%d.txt' % idx)
    ver = os.path.join(workdir, 'ver%d.txt' % idx)
    with open(inp, 'w') as f:
        for c in case_lines:
            f.write('\n'.join(c) + '\n')
    env = dict(os.environ, ASAN_OPTIONS='detect_leaks=0:abort_on_error=0:allocator_may_return_null=1:max_malloc_fill_size=4194304:malloc_fill_byte=190', UBSAN_OPTIONS='print_stacktrace=1')
    env.update(extra_env)
    with open(obs, 'w') as fo:
        if stdin_mode:
            with open(inp) as fi:
                subprocess.run([exe], stdin=fi, stdout=fo, stderr=subprocess.DEVNULL, env=env)
        else:
            subprocess.run([exe, '-t', str(timeout), '-e', workdir, inp], stdout=fo, stderr=subprocess.DEVNULL, env=env)
    # names may contain arbitrary bytes (character constants): keep the stream ASCII
    with open(obs, 'rb') as f:
        data = f.read()
    if any(b > 127 for b in data):
        with open(obs, 'wb') as f:
            f.write(bytes(b if b < 128 else 63 for b in data))
    with open(obs) as fi, open(ver, 'w') as fo:
        subprocess.run([judge] + judge_args, stdin=fi, stdout=fo, stderr=subprocess.DEVNULL)
    return obs, ver


def run_cases(cases, flavour='c', timeout=20, judge_args=None, keep_obs=True, harness_exe=None, kind='yaep'):
    """cases: list of lists of lines.  Returns Result."""
    t0 = time.time()
    extra_env = {}
    judge = build.build_lean()
    if kind == 'containers':
        exe = harness_exe or build.build_containers(flavour)
        judge = os.path.join(os.path.dirname(judge), 'containers_model')
    else:
        # `<flavour>-plain`: the same harness without sanitizers (gcc -O1): a read of uninitialised
        # stack memory keeps the pattern the harness fills the stack with (the frame layout of an
        # ASan build hides it)
        # `<flavour>-weak`: the same harness, every hash value reduced to its two lowest bits (hook
        # yaep_verif_hash_mask): all elements of a table collide, the equality functions decide alone
        if flavour.endswith('-weak'):
            extra_env = {'YH_HASH_MASK': '3'}; flavour = flavour[:-5]
        exe = harness_exe or (build.build_harness(flavour[:-6], sanitize=False) if flavour.endswith('-plain') else
                              build.build_harness(flavour[:-3], rename_default_alloc=True) if flavour.endswith('-fi') else build.build_harness(flavour))
    res = Result()
    workdir = tempfile.mkdtemp(prefix='run-', dir=build.WORK)
    try:
        nsh = max(1, min(JOBS, len(cases)))
        shards = [cases[i::nsh] for i in range(nsh)]
        jobs = [(exe, judge, sh, workdir, i, timeout, judge_args or [], kind == 'containers', extra_env) for i, sh in enumerate(shards)]
        with ThreadPoolExecutor(nsh) as ex:
            outs = list(ex.map(run_shard, jobs))
        for c in cases:
            res.cases[c[0].split()[1]] = c
        for obs, ver in outs:
            if keep_obs:
                with open(obs) as f:
                    for c in split_cases([l.rstrip('\n') for l in f]):
                        res.obs[c[0].split()[1]] = c
            with open(ver) as f:
                for l in f:
                    l = l.rstrip('\n')
                    if l.startswith('V '):
                        p = l.split(' ', 6)
                        if len(p) < 6: continue
                        res.verdicts.append(Verdict(p[1], p[2], p[3], p[4], p[5] == 'ok', p[6] if len(p) > 6 else ''))
                    elif l.startswith('S '):
                        p = l.split(' ', 2)
                        res.stats.setdefault(p[1], []).append(p[2] if len(p) > 2 else '')
    finally:
        shutil.rmtree(workdir, ignore_errors=True)
    res.wall = time.time() - t0
    return res


if __name__ == '__main__':
    lines = [l.rstrip('\n') for l in open(sys.argv[1])]
    flavour = sys.argv[2] if len(sys.argv) > 2 else 'c'
    r = run_cases(split_cases(lines), flavour)
    from collections import Counter
    c = Counter((v.prop, v.kind, v.ok) for v in r.verdicts)
    for k in sorted(c): print(k, c[k])
    shown = Counter()
    for v in r.verdicts:
        if not v.ok:
            key = (v.prop, v.kind, v.detail[:40])
            shown[(v.prop, v.kind)] += 1
            if shown[(v.prop, v.kind)] <= int(os.environ.get('SHOW', '4')): print(v)
    print('wall %.1fs' % r.wall)
