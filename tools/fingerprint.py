#!/usr/bin/env python3
"""Fingerprints of the functions of /repo/src (comments and white space stripped).  The committed
baseline (tools/fingerprints.json) is the tree the models were written and validated against; a
check that finds other fingerprints knows WHICH functions were changed and spends a larger case
budget (several seeds) on the correspondence — a changed tree is where a failing input has to be
found.  It never alarms by itself.
usage: fingerprint.py            print the functions that differ from the baseline
       fingerprint.py --update   rewrite the baseline from /repo's working tree"""
import hashlib, json, os, re, sys
sys.path.insert(0, os.path.dirname(os.path.abspath(__file__)))
import build
BASE = os.path.join(os.path.dirname(os.path.abspath(__file__)), 'fingerprints.json')
FILES = ['yaep.c', 'sgramm.y', 'hashtab.c', 'hashtab.cpp', 'hashtab.h', 'objstack.c', 'objstack.cpp', 'objstack.h',
         'vlobject.c', 'vlobject.cpp', 'vlobject.h', 'allocate.c', 'allocate.h', 'yaep.cpp', 'yaep.h']


def strip(text):
    text = re.sub(r'/\*.*?\*/', ' ', text, flags=re.S)
    text = re.sub(r'//[^\n]*', ' ', text)
    # the guarded instrumentation is not part of the library
    out = []; depth = 0; skip = 0
    for line in text.split('\n'):
        l = line.strip()
        if re.match(r'#\s*if', l):
            depth += 1
            if skip == 0 and re.match(r'#\s*ifdef\s+YAEP_VERIF\b', l): skip = depth
            if skip: continue
        elif re.match(r'#\s*endif', l):
            if skip and depth == skip: skip = 0; depth -= 1; continue
            depth -= 1
            if skip: continue
        elif skip and depth == skip and re.match(r'#\s*else', l):
            skip = -depth; continue      # the #else branch of an #ifdef YAEP_VERIF is library code
        if skip > 0: continue
        out.append(line)
    return '\n'.join(out)


def functions(text):
    """name -> normalised body, for definitions in GNU layout (name at line start) and C++ methods"""
    res = {}
    for m in re.finditer(r'^([A-Za-z_][\w:~]*) \([^;{}]*?\)\s*(?:const\s*)?\{', text, re.M | re.S):
        i = m.end(); depth = 1
        while i < len(text) and depth:
            depth += {'{': 1, '}': -1}.get(text[i], 0); i += 1
        name = m.group(1); k = 2
        while name in res: name = '%s#%d' % (m.group(1), k); k += 1
        res[name] = re.sub(r'\s+', ' ', text[m.start():i]).strip()
    return res


def current():
    fp = {}
    src = os.path.join(build.REPO, 'src')
    for f in FILES:
        p = os.path.join(src, f)
        if not os.path.exists(p):
            fp[f] = {'<file>': 'missing'}; continue
        text = strip(open(p, errors='replace').read())
        fns = functions(text)
        rest = text
        d = {n: hashlib.sha1(b.encode()).hexdigest()[:12] for n, b in fns.items()}
        # everything (macros, tables, declarations, the yacc rules) outside function bodies
        d['<file>'] = hashlib.sha1(re.sub(r'\s+', ' ', rest).encode()).hexdigest()[:12]
        fp[f] = d
    return fp


def changed():
    """['file:function', ...] that differ from the baseline ('<file>' = something outside the functions)"""
    if not os.path.exists(BASE): return []
    base = json.load(open(BASE)); cur = current(); out = []
    for f in sorted(set(base) | set(cur)):
        b, c = base.get(f, {}), cur.get(f, {})
        fns = [n for n in sorted(set(b) | set(c)) if n != '<file>' and b.get(n) != c.get(n)]
        if fns: out += ['%s:%s' % (f, n) for n in fns]
        elif b.get('<file>') != c.get('<file>'): out.append('%s:<outside functions>' % f)
    return out


if __name__ == '__main__':
    if '--update' in sys.argv:
        json.dump(current(), open(BASE, 'w'), indent=0, sort_keys=True); print('baseline written:', BASE)
    else:
        for x in changed(): print(x)
