"""Greedy structural shrinking of a failing case (ops, rules, terminals, tokens)."""
import re, sys, os
sys.path.insert(0, os.path.dirname(os.path.abspath(__file__)))
import pipeline


def renumber(lines):
    out = []; n = 0
    for l in lines:
        if l.startswith('op '):
            n += 1
            w = l.split(' ')
            w[1] = str(n)
            out.append(' '.join(w))
        else:
            out.append(l)
    return out


def fails(lines, props, flavour, kind):
    lines = renumber(lines)
    try:
        res = pipeline.run_cases([lines], flavour, kind=kind)
    except Exception:
        return False
    return any((v.prop in props) and not v.ok and v.kind == 'K' for v in res.verdicts)


def shrink(lines, props, flavour='c', kind='yaep', budget=120):
    lines = [l for l in lines if not l.startswith('o ') and not l.startswith('#')]
    if not fails(lines, props, flavour, kind):
        return renumber(lines), 0
    runs = [0]

    def test(c):
        if runs[0] >= budget: return False
        runs[0] += 1
        return fails(c, props, flavour, kind)
    # 1. whole lines: ops (last first), rules, terms
    for pat in (r'^op ', r'^rule ', r'^term ', r'^h |^s |^v '):
        i = len(lines) - 1
        while i >= 0:
            if re.match(pat, lines[i]):
                cand = lines[:i] + lines[i + 1:]
                if test(cand): lines = cand
            i -= 1
    # 2. tokens of parse ops
    for i in range(len(lines)):
        if lines[i].startswith('op ') and ' parse ' in lines[i] and ' rep ' not in lines[i]:
            w = lines[i].split(' ')
            k = len(w) - 1
            while k >= 7:
                cand = lines[:i] + [' '.join(w[:k] + w[k + 1:])] + lines[i + 1:]
                if test(cand):
                    lines = cand; w = lines[i].split(' ')
                k -= 1
    # 3. symbols of right-hand sides
    for i in range(len(lines)):
        if lines[i].startswith('rule '):
            w = lines[i].split(' ')
            try:
                k = int(w[4])
            except ValueError:
                continue
            for j in range(k - 1, -1, -1):
                if w[-1] != 'X' and '/' in w:
                    continue      # keep translations consistent: only rules without translation list
                cand_w = w[:4] + [str(k - 1)] + w[5:5 + j] + w[5 + j + 1:]
                cand = lines[:i] + [' '.join(cand_w)] + lines[i + 1:]
                if test(cand):
                    lines = cand; w = cand_w; k -= 1
    return renumber(lines), runs[0]
