#!/bin/bash
# usage: seeded_take.sh <prop> <n> <props to check...> : take the delivery of a sub-agent worktree /tmp/wt-d-<prop>,
# confirm it in a scratch worktree, drop the agent's worktree, run the given checks against it
P=$1; N=$2; shift; shift
S=/verif/seeded/$P-$N; W=/tmp/wt-${ROUND:-d}-$P
mkdir -p $S
if [ -d $W/deliver ]; then
  cp $W/deliver/patch.diff $S/; cp $W/deliver/notes.md $S/ 2>/dev/null
  for f in demo.c demo.cpp; do [ -f $W/deliver/$f ] && cp $W/deliver/$f $S/; done
fi
echo "== $P-$N"; /verif/tools/confirm_seeded.sh $S $SEED_CC 2>&1 | tail -4
[ -d $W ] && git -C /repo worktree remove --force $W
[ $# -gt 0 ] && /verif/tools/try_seeded.sh $S/patch.diff "$@" 2>&1 | tail -12
