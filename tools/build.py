#!/usr/bin/env python3
"""Build steps shared by all checks: the Lean project and the harnesses.

Everything is rebuilt from /repo's *current working tree*; outputs live under
/verif/.work/<kind>-<hash of all inputs>/ so that an unchanged tree costs nothing and a changed
tree never reuses a stale binary.  Old build directories are removed.
"""
import hashlib, os, subprocess, sys, shutil, glob, time, json
from concurrent.futures import ThreadPoolExecutor

VERIF = os.path.dirname(os.path.dirname(os.path.abspath(__file__)))
REPO = os.environ.get('VERIF_REPO', '/repo')
WORK = os.path.join(VERIF, '.work')
LEAN = os.path.join(VERIF, 'lean')
SAN = ['-fsanitize=address,undefined', '-fno-sanitize-recover=all']
BASE = ['-O1', '-g', '-DYAEP_VERIF', '-w']
ALLOC_RENAME = ['-Dmalloc=vh_malloc', '-Dcalloc=vh_calloc', '-Drealloc=vh_realloc', '-Dfree=vh_free']


class BuildError(Exception):
    def __init__(self, what, log):
        super().__init__(what)
        self.what = what
        self.log = log


def _hash_files(paths, extra=''):
    h = hashlib.sha256(extra.encode())
    for p in sorted(paths):
        h.update(p.encode())
        try:
            with open(p, 'rb') as f:
                h.update(f.read())
        except OSError:
            h.update(b'<missing>')
    return h.hexdigest()[:16]


def repo_sources():
    return sorted(glob.glob(os.path.join(REPO, 'src', '*.[chy]')) + glob.glob(os.path.join(REPO, 'src', '*.cpp')))


def _run(cmd, cwd=None):
    p = subprocess.run(cmd, cwd=cwd, stdout=subprocess.PIPE, stderr=subprocess.STDOUT, text=True)
    if p.returncode != 0:
        raise BuildError(' '.join(cmd[:3]) + ' ...', p.stdout[-4000:])
    return p.stdout


def _clean_old(prefix, keep):
    os.makedirs(WORK, exist_ok=True)
    for d in glob.glob(os.path.join(WORK, prefix + '-*')):
        if os.path.basename(d) != keep and time.time() - os.path.getmtime(d) > 600:
            shutil.rmtree(d, ignore_errors=True)


def build_harness(flavour='c', ndebug=True, sanitize=True, harness='yh', rename_default_alloc=False):
    """flavour: 'c' (libyaep) or 'cxx' (libyaep++).  Returns the path of the executable.
    rename_default_alloc: the malloc / free of the default tree allocator (parse_alloc_default in
    yaep.c) go through the counting, failing wrappers as well (fault injection only)"""
    hsrc = os.path.join(VERIF, 'harness', harness + '.c')
    flags = list(BASE) + (['-DNDEBUG'] if ndebug else []) + (SAN if sanitize else [])
    key = _hash_files(repo_sources() + [hsrc], flavour + ' '.join(flags) + ('fi' if rename_default_alloc else ''))
    name = '%s-%s%s-%s' % (harness, flavour, 'fi' if rename_default_alloc else '', key)
    out = os.path.join(WORK, name)
    exe = os.path.join(out, harness)
    if os.path.exists(exe):
        os.utime(out)
        return exe
    _clean_old('%s-%s' % (harness, flavour), name)
    tmp = out + '.tmp%d' % os.getpid()
    shutil.rmtree(tmp, ignore_errors=True)
    os.makedirs(tmp)
    src = os.path.join(REPO, 'src')
    _run(['bison', '-o', os.path.join(tmp, 'sgramm.c'), os.path.join(src, 'sgramm.y')])
    inc = ['-I' + src, '-I' + tmp]
    jobs = []
    if flavour == 'c':
        cc = 'gcc'
        units = [('yaep.c', ALLOC_RENAME[:1] + ALLOC_RENAME[3:] if rename_default_alloc else []), ('allocate.c', ALLOC_RENAME), ('hashtab.c', []), ('objstack.c', []), ('vlobject.c', [])]
        hflags = []
    else:
        cc = 'g++'
        units = [('yaep.cpp', []), ('allocate.c', ALLOC_RENAME), ('hashtab.cpp', []), ('objstack.cpp', []), ('vlobject.cpp', [])]
        hflags = ['-DYH_CXX', '-x', 'c++']
    for f, extra in units:
        comp = 'gcc' if f.endswith('.c') and flavour == 'cxx' and f == 'allocate.c' else cc
        jobs.append([comp] + flags + inc + extra + ['-c', os.path.join(src, f), '-o', os.path.join(tmp, f + '.o')])
    jobs.append([cc] + flags + inc + hflags + ['-c', hsrc, '-o', os.path.join(tmp, harness + '.o')])
    with ThreadPoolExecutor(8) as ex:
        list(ex.map(_run, jobs))
    objs = [os.path.join(tmp, f + '.o') for f, _ in units] + [os.path.join(tmp, harness + '.o')]
    _run([cc] + flags + ['-o', os.path.join(tmp, harness)] + objs)
    for o in objs:
        os.unlink(o)
    if os.path.exists(out):
        shutil.rmtree(tmp, ignore_errors=True)
    else:
        os.rename(tmp, out)
    return exe


def build_containers(flavour='c'):
    """container harness ch.c against the C or the C++ containers of /repo"""
    hsrc = os.path.join(VERIF, 'harness', 'ch.c')
    flags = ['-O1', '-g', '-DNDEBUG', '-w'] + SAN
    src = os.path.join(REPO, 'src')
    files = ['hashtab', 'objstack', 'vlobject']
    ext = '.c' if flavour == 'c' else '.cpp'
    inputs = [hsrc, os.path.join(src, 'allocate.c'), os.path.join(src, 'allocate.h')] + \
        [os.path.join(src, f + e) for f in files for e in (ext, '.h')]
    key = _hash_files(inputs, flavour + ' '.join(flags))
    name = 'ch-%s-%s' % (flavour, key)
    out = os.path.join(WORK, name)
    exe = os.path.join(out, 'ch')
    if os.path.exists(exe):
        os.utime(out)
        return exe
    _clean_old('ch-%s' % flavour, name)
    tmp = out + '.tmp%d' % os.getpid()
    shutil.rmtree(tmp, ignore_errors=True)
    os.makedirs(tmp)
    inc = ['-I' + src]
    _run(['gcc'] + flags + inc + ['-c', os.path.join(src, 'allocate.c'), '-o', os.path.join(tmp, 'allocate.o')])
    if flavour == 'c':
        _run(['gcc'] + flags + inc + [hsrc] + [os.path.join(src, f + '.c') for f in files] + [os.path.join(tmp, 'allocate.o'), '-o', os.path.join(tmp, 'ch')])
    else:
        _run(['g++'] + flags + inc + ['-DCH_CXX', '-x', 'c++', hsrc] + [os.path.join(src, f + '.cpp') for f in files] +
             ['-x', 'none', os.path.join(tmp, 'allocate.o'), '-o', os.path.join(tmp, 'ch')])
    os.unlink(os.path.join(tmp, 'allocate.o'))
    if os.path.exists(out):
        shutil.rmtree(tmp, ignore_errors=True)
    else:
        os.rename(tmp, out)
    return exe


def build_lean(full=False):
    """lake build (library + driver).  Returns path of the judge executable.
    First regenerates Yaep/Generated.lean from /repo's current sources (translator)."""
    import extract_consts
    try:
        extract_consts.regenerate()
    except Exception as e:
        raise BuildError('tools/extract_consts.py', 'constant extraction failed: %r' % e)
    exe = os.path.join(LEAN, '.lake', 'build', 'bin', 'yaep_model')
    if not full:
        # only the judges (models + drivers): they do not depend on the proofs, so the
        # correspondence can still look for a failing input when a proof obligation is broken
        p = subprocess.run(['lake', 'build', 'yaep_model', 'containers_model'], cwd=LEAN, stdout=subprocess.PIPE, stderr=subprocess.STDOUT, text=True)
        if p.returncode != 0:
            raise BuildError('lake build yaep_model', p.stdout[-6000:])
        return exe
    # full = True: the whole library; full = [modules]: the judges and these Props modules with
    # everything they import (a proof obligation that breaks in a module a property does not rest
    # on must not alarm that property)
    targets = [] if full is True else ['yaep_model', 'containers_model'] + ['Yaep.Props.' + m for m in full]
    p = subprocess.run(['lake', 'build'] + targets, cwd=LEAN, stdout=subprocess.PIPE, stderr=subprocess.STDOUT, text=True)
    if p.returncode != 0:
        raise BuildError('lake build ' + ' '.join(targets), p.stdout[-6000:])
    return exe


if __name__ == '__main__':
    what = sys.argv[1] if len(sys.argv) > 1 else 'all'
    try:
        if what in ('all', 'lean'):
            print(build_lean(full=True))
        if what in ('all', 'c'):
            print(build_harness('c'))
        if what in ('all', 'cxx'):
            print(build_harness('cxx'))
        if what in ('all', 'containers'):
            print(build_containers('c')); print(build_containers('cxx'))
    except BuildError as e:
        print('BUILD FAILED:', e.what)
        print(e.log)
        sys.exit(2)
