#!/usr/bin/env python3
"""Regenerates the table of seeded changes in DESIGN.md (section 10.5) from seeded/*/meta.json."""
import json, glob, os, re
V = os.path.dirname(os.path.dirname(os.path.abspath(__file__)))
rows = []
for d in sorted(glob.glob(os.path.join(V, 'seeded', '*', 'meta.json'))):
    m = json.load(open(d))
    rows.append('| %s | %s | %s | %s |' % (os.path.basename(os.path.dirname(d)), m['change'].replace('|', '/'), m['needs_to_manifest'].replace('|', '/'), m['check_result'].replace('|', '/')))
table = ['<!-- seeded-table-start -->', '| id | change | needs | result |', '|---|---|---|---|'] + rows + ['<!-- seeded-table-end -->']
p = os.path.join(V, 'DESIGN.md')
s = open(p).read()
if '<!-- seeded-table-start -->' in s:
    s = re.sub(r'<!-- seeded-table-start -->.*?<!-- seeded-table-end -->', lambda _: '\n'.join(table), s, flags=re.S)
else:
    i = s.index('| id | change | result |')
    j = s.index('\nMissed at first and what was strengthened')
    s = s[:i] + '\n'.join(table) + '\n' + s[j:]
open(p, 'w').write(s)
print(len(rows), 'seeded changes')
