#include <stdio.h>
#include <stdlib.h>
#include <string.h>
#include "yaep.h"

static const char *input;
static int ntok;
static int read_token (void **attr)
{
  *attr = NULL;
  if (input[ntok]) return input[ntok++];
  return -1;
}
static void syntax_error (int e, void *ea, int si, void *sia, int sr, void *sra)
{
  fprintf (stderr, "Syntax error on token %d\n", e);
}
static void *p_alloc (int n) { return malloc (n); }
static void p_free (void *m) { free (m); }

static const char *gram_a =
"TERM;\n"
"E : E '+' T # plus (0 2)\n | T # 0\n ;\n"
"T : T '*' F # mult (0 2)\n | F # 0\n ;\n"
"F : 'a' # 0\n | '(' E ')' # 1\n ;\n";
static const char *in_a = "a+a*(a+a)";

static const char *gram_b =
"TERM;\n"
"S : S S # c (0 1)\n | 'a' O # p (1)\n ;\n"
"O : 'b' # 0\n | # e\n ;\n";
static const char *in_b = "aabaa";

/* several nonterminals with identical rule shapes */
static const char *gram_c =
"TERM;\n"
"S : A B C D # s (0 1 2 3)\n | S ';' A # t (0 2)\n ;\n"
"A : 'x' A # a (1)\n | 'x' # 0\n ;\n"
"B : 'y' B # b (1)\n | 'y' # 0\n ;\n"
"C : 'z' C # c (1)\n | 'z' # 0\n ;\n"
"D : 'w' D # d (1)\n | 'w' # 0\n ;\n";
static const char *in_c = "xxyyzzww;xx";

/* a small statement language: many distinct set cores */
static const char *gram_d =
"TERM;\n"
"P : L # 0\n ;\n"
"L : S # 0\n | L ';' S # seq (0 2)\n ;\n"
"S : 'i' '=' E # asg (2)\n"
"  | 'f' C 't' S 'e' S # ife (1 3 5)\n"
"  | 'f' C 't' S # ift (1 3)\n"
"  | 'w' C 'd' S # whl (1 3)\n"
"  | '{' L '}' # 1\n ;\n"
"C : E '<' E # lt (0 2)\n | E # 0\n ;\n"
"E : E '+' T # plus (0 2)\n | T # 0\n ;\n"
"T : T '*' F # mult (0 2)\n | F # 0\n ;\n"
"F : 'i' # 0\n | 'n' # 0\n | '(' E ')' # 1\n ;\n";
static const char *in_d = "fi<ntfnti=n;wid{i=i+n*(i)}";

int main (int argc, char **argv)
{
  struct grammar *g;
  struct yaep_tree_node *root;
  int amb;
  const char *descr;
  char w = argc > 1 ? argv[1][0] : 'a';
  switch (w)
    {
    case 'a': descr = gram_a; input = in_a; break;
    case 'b': descr = gram_b; input = in_b; break;
    case 'c': descr = gram_c; input = in_c; break;
    default: descr = gram_d; input = in_d; break;
    }
  if (argc > 2) input = argv[2];
  if ((g = yaep_create_grammar ()) == NULL) exit (1);
  if (yaep_parse_grammar (g, 1, descr) != 0)
    { fprintf (stderr, "GRAMMAR ERROR %s\n", yaep_error_message (g)); exit (1); }
  yaep_set_debug_level (g, 1);
  if (yaep_parse (g, read_token, syntax_error, p_alloc, p_free, &root, &amb))
    { fprintf (stderr, "PARSE ERROR %s\n", yaep_error_message (g)); exit (1); }
  fprintf (stderr, "DONE ambiguous=%d root=%p ntok=%d\n", amb, (void *) root, ntok);
  yaep_free_grammar (g);
  return 0;
}
