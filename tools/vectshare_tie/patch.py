import re
s=open('yaep_instr.c').read()
def rep(old,new,count=1):
    global s
    assert s.count(old)>=1,(old)
    if count==1: assert s.count(old)==1,(old,s.count(old))
    s=s.replace(old,new)
rep("""  struct vect reduces;
};
""","""  struct vect reduces;
  int verif_id;
};
static int verif_cnt;
static struct core_symb_vect **verif_arr;
static int verif_cap;
""")
rep("""  n_reduce_vects = n_reduce_vect_len = 0;
}
""","""  n_reduce_vects = n_reduce_vect_len = 0;
  verif_cnt = 0;
  fprintf (stderr, "VS init %d\\n", symbs_ptr->n_terms + symbs_ptr->n_nonterms);
}
""")
rep("""#else
  return *core_symb_vect_addr_get (set_core, symb);
#endif
""","""#else
  {
    struct core_symb_vect *verif_r = *core_symb_vect_addr_get (set_core, symb);
    fprintf (stderr, "VS find %d %d %d\\n", set_core->num, symb->num,
	     verif_r == NULL ? -1 : verif_r->verif_id);
    return verif_r;
  }
#endif
""")
rep("""  n_core_symb_pairs++;
  return triple;
""","""  n_core_symb_pairs++;
  if (verif_cnt >= verif_cap)
    {
      verif_cap = verif_cap == 0 ? 1024 : 2 * verif_cap;
      verif_arr = realloc (verif_arr, verif_cap * sizeof (*verif_arr));
    }
  triple->verif_id = verif_cnt;
  verif_arr[verif_cnt++] = triple;
  fprintf (stderr, "VS new %d %d\\n", set_core->num, symb->num);
  return triple;
""")
rep("""  vect_new_add_el (&core_symb_vect->transitions, el);
""","""  fprintf (stderr, "VS addT %d %d\\n", core_symb_vect->verif_id, el);
  vect_new_add_el (&core_symb_vect->transitions, el);
""")
rep("""  vect_new_add_el (&core_symb_vect->reduces, el);
""","""  fprintf (stderr, "VS addR %d %d\\n", core_symb_vect->verif_id, el);
  vect_new_add_el (&core_symb_vect->reduces, el);
""")
rep("""  struct core_symb_vect **triple_ptr;

#ifndef __cplusplus
  for (triple_ptr = VLO_BEGIN (new_core_symb_vect_vlo);""","""  struct core_symb_vect **triple_ptr;

  fprintf (stderr, "VS stop\\n");
#ifndef __cplusplus
  for (triple_ptr = VLO_BEGIN (new_core_symb_vect_vlo);""")
rep("""core_symb_vect_fin (void)
{
""","""core_symb_vect_fin (void)
{
  {
    int vi, vj;
    fprintf (stderr, "VS stats %d %d %d %d %d %d\\n", n_core_symb_pairs,
	     n_core_symb_vect_len, n_transition_vects, n_transition_vect_len,
	     n_reduce_vects, n_reduce_vect_len);
    for (vi = 0; vi < verif_cnt; vi++)
      {
	struct core_symb_vect *t = verif_arr[vi];
	fprintf (stderr, "VS triple %d %d %d T %d", vi, t->set_core->num,
		 t->symb->num, t->transitions.len);
	for (vj = 0; vj < t->transitions.len; vj++)
	  fprintf (stderr, " %d", t->transitions.els[vj]);
	fprintf (stderr, " %p R %d", (void *) t->transitions.els, t->reduces.len);
	for (vj = 0; vj < t->reduces.len; vj++)
	  fprintf (stderr, " %d", t->reduces.els[vj]);
	fprintf (stderr, " %p\\n", (void *) t->reduces.els);
      }
  }
""")
open('yaep_instr.c','w').write(s)
