#!/usr/bin/env python3
import re, sys, os
D = os.path.dirname(os.path.abspath(__file__))
def wrap(items, per=20, indent="  "):
    if not items: return "[]"
    lines = [", ".join(items[i:i+per]) for i in range(0, len(items), per)]
    return "[\n" + indent + (",\n" + indent).join(lines) + "]"
def il(xs): return "[" + ", ".join(str(x) if x >= 0 else "(%d)" % x for x in xs) + "]"
def lint(x): return str(x) if x >= 0 else "(%d)" % x
out = ["import Yaep.Model.VectShare", "namespace Yaep.VS.Data"]
report = []
for k in "abcd":
    lines = open(os.path.join(D, "trace_%s.txt" % k)).read().splitlines()
    width = None; ops = []; finds = []; stats = None; dump = []
    lib = {}
    tcls = {}; rcls = {}
    nnew = 0; stopped_upto = 0; surprises = []
    news = {}  # (core,symb)->id
    maxcore = -1; maxnewcore = -1
    inits = 0; firstfind = 0
    for ln in lines:
        m = re.search(r"#pairs\(set core, symb\) = (\d+), their trans\+reduce vects length = (\d+)", ln)
        if m: lib['p'] = [int(m.group(1)), int(m.group(2))]
        m = re.search(r"#unique transition vectors = (\d+), their length = (\d+)", ln)
        if m: lib['t'] = [int(m.group(1)), int(m.group(2))]
        m = re.search(r"#unique reduce vectors = (\d+), their length = (\d+)", ln)
        if m: lib['r'] = [int(m.group(1)), int(m.group(2))]
        if not ln.startswith("VS "): continue
        f = ln.split()
        c = f[1]
        if c == "init":
            width = int(f[2]); inits += 1
            if ops: surprises.append("init after ops")
        elif c == "new":
            core, symb = int(f[2]), int(f[3])
            ops.append(".new %d %d" % (core, symb))
            if (core, symb) in news: surprises.append("duplicate new %d %d" % (core, symb))
            if symb >= width: surprises.append("symb >= width")
            if core > maxcore: surprises.append("core %d first touched by new" % core)
            if core > maxnewcore + 1: surprises.append("new core %d jumps from max %d" % (core, maxnewcore))
            news[(core, symb)] = nnew; nnew += 1
            maxcore = max(maxcore, core); maxnewcore = max(maxnewcore, core)
        elif c in ("addT", "addR"):
            t, el = int(f[2]), int(f[3])
            ops.append(".%s %d %s" % (c, t, lint(el)))
            if t < stopped_upto: surprises.append("%s to triple %d after its stop" % (c, t))
            if t >= nnew: surprises.append("add to unknown triple")
        elif c == "stop":
            ops.append(".allStop"); stopped_upto = nnew
        elif c == "find":
            core, symb, r = int(f[2]), int(f[3]), int(f[4])
            ops.append(".find %d %d" % (core, symb))
            finds.append("none" if r < 0 else "some %d" % r)
            exp = news.get((core, symb), -1)
            if exp != r: surprises.append("find %d %d returned %d, expected %d" % (core, symb, r, exp))
            if core > maxcore:
                firstfind += 1
                if core > maxcore + 1: surprises.append("find on core %d jumps over max touched core %d" % (core, maxcore))
            maxcore = max(maxcore, core)
        elif c == "stats":
            stats = [int(x) for x in f[2:8]]
        elif c == "triple":
            i, core, symb = int(f[2]), int(f[3]), int(f[4])
            assert f[5] == "T"; tl = int(f[6]); tels = [int(x) for x in f[7:7+tl]]; tp = f[7+tl]
            j = 8 + tl; assert f[j] == "R"; rl = int(f[j+1]); rels = [int(x) for x in f[j+2:j+2+rl]]; rp = f[j+2+rl]
            assert i == len(dump)
            def cls(p, d):
                if p in ("(nil)", "0x0", "0"): return 0
                if p not in d: d[p] = 1 + len(d)
                return d[p]
            dump.append((core, symb, tels, cls(tp, tcls), rels, cls(rp, rcls)))
    assert inits == 1 and stats is not None and len(dump) == nnew
    libstats = lib['p'] + lib['t'] + lib['r']
    assert libstats == stats, (k, libstats, stats)
    if stopped_upto != nnew: surprises.append("triples formed after the last stop")
    # independent recomputation of stats and sharing from the ops
    T = {}; R = {}
    for o in ops:
        g = o.replace("(", "").replace(")", "").split()
        if g[0] == ".addT": T.setdefault(int(g[1]), []).append(int(g[2]))
        if g[0] == ".addR": R.setdefault(int(g[1]), []).append(int(g[2]))
    ut = []; ur = []
    for i, (core, symb, tels, tc, rels, rc) in enumerate(dump):
        assert tels == T.get(i, []) and rels == R.get(i, []), (k, i)
        for els, c, u in ((tels, tc, ut), (rels, rc, ur)):
            if not els: assert c == 0, (k, i, "empty vector with non-NULL pointer")
            else:
                if els not in u: u.append(els)
                assert c == 1 + u.index(els), (k, i, "sharing class mismatch")
    my = [nnew, sum(len(v) for v in T.values()) + sum(len(v) for v in R.values()),
          len(ut), sum(map(len, ut)), len(ur), sum(map(len, ur))]
    assert my == stats, (k, my, stats)
    cross = sum(1 for cl in set(d[3] for d in dump if d[3]) if len(set(d[0] for d in dump if d[3] == cl)) > 1)
    crossr = sum(1 for cl in set(d[5] for d in dump if d[5]) if len(set(d[0] for d in dump if d[5] == cl)) > 1)
    report.append("%s: width=%d stats=%s ops=%d finds=%d triples=%d maxcore=%d cores first touched by a find=%d Tvects shared across cores=%d Rvects shared across cores=%d surprises=%s"
                  % (k, width, stats, len(ops), len(finds), nnew, maxcore, firstfind, cross, crossr, sorted(set(surprises)) or "none"))
    out.append("def width_%s : Nat := %d" % (k, width))
    out.append("def ops_%s : List Yaep.VS.Op := %s" % (k, wrap(ops)))
    out.append("-- expected results of the finds, in order of the `find` ops: triple id or none")
    out.append("def finds_%s : List (Option Nat) := %s" % (k, wrap(finds)))
    out.append("-- [n_core_symb_pairs, n_core_symb_vect_len, n_transition_vects, n_transition_vect_len, n_reduce_vects, n_reduce_vect_len]")
    out.append("def stats_%s : List Nat := %s" % (k, il(stats)))
    out.append("-- per triple in id order: (core, symb, transitions content, transitions pointer class, reduces content, reduces pointer class); pointer class 0 = NULL, otherwise 1 + order of first appearance of that address among transitions pointers (separately numbered for reduces pointers)")
    out.append("def dump_%s : List (Nat × Nat × List Int × Nat × List Int × Nat) := %s"
               % (k, wrap(["(%d, %d, %s, %d, %s, %d)" % (a, b, il(c), d, il(e), f) for a, b, c, d, e, f in dump], per=4)))
out.append("end Yaep.VS.Data")
open(os.path.join(D, "VectShareData.lean"), "w").write("\n".join(out) + "\n")
print("\n".join(report))
