"""Per-property configuration of the checks and the generic run loop."""
import glob, hashlib, os, random, re, sys
from collections import Counter
sys.path.insert(0, os.path.dirname(os.path.abspath(__file__)))
import gen, pipeline, build, gen_containers

VERIF = build.VERIF
CORPUS = os.path.join(VERIF, 'corpus')

COMMON_ASSUME = [
    'the hand-written Lean model is tied to the C code by sampled correspondence (seeded generation), not by proof',
    'Lean kernel; axioms propext, Classical.choice, Quot.sound; the Lean compiler for the native judge',
    'harness (yh.c), guarded hooks (YAEP_VERIF), gcc, ASan/UBSan, bison',
]


def parse_family(focus, quick_n, thorough_n, maxlen=7, inputs_per=3):
    def g(seed, tier):
        n = thorough_n if tier == 'thorough' else quick_n
        return gen.gen_parse_cases(seed, n, focus, maxlen=maxlen, inputs_per=inputs_per)
    return g


PROPS = {
    'C01': dict(level='proof', theorem_modules=['C01'], min_theorems=8, tags=['C01'], crash_counts=True,
                gen=parse_family('C01', 1500, 40000), flavours=['c'],
                rule='random grammars (1-5 nonterminals, nullable/recursive/ambiguous/error shapes) x sampled sentences, prefixes, mutations, random strings; every input parsed at lookahead 0,1,2 with random one_parse/cost and recovery on/off; non-trivial = distinct case text with at least one judged parse',
                assumptions=COMMON_ASSUME + ['accepts_iff_sentence is proved for lookahead level 0 (and soundness for every level); levels 1/2 are tied by the set-level correspondence and cross-level comparison']),
    'C02': dict(level='proof', theorem_modules=['C02'], min_theorems=8, tags=['C02'], crash_counts=True,
                gen=parse_family('C02', 1500, 40000), flavours=['c'],
                rule='random grammars with random translations (permuted, partial, nil-padded, pass-through, empty); sentences <= 7 tokens; one_parse=1 cost=0; tree compared with the enumerated translations of all derivations',
                assumptions=COMMON_ASSUME + ['depth bound of derivations (fuel (|N|+1)(n+2)) is not yet proved; enumeration capped at 3000 derivations per input']),
    'C03': dict(level='proof', theorem_modules=['C03', 'C02'], min_theorems=8, tags=['C03'], crash_counts=True,
                gen=parse_family('C03', 1500, 40000), flavours=['c'],
                rule='as C02 with one_parse=0: set of trees denoted by the DAG vs set of translations of all derivations',
                assumptions=COMMON_ASSUME),
    'C04': dict(level='proof', theorem_modules=['C04'], min_theorems=6, tags=['C04'], crash_counts=True,
                gen=parse_family('C04', 1500, 40000), flavours=['c'],
                rule='random grammars with costs 0-5 (ties included); sentences <= 7 tokens; cost flag on, one_parse in {0,1}, parse_free given or NULL; denoted set vs argmin of total cost over all translations, every cost field vs the additive law',
                assumptions=COMMON_ASSUME + ['prune theorems are about the Lean pruning model of a forest (Spec/Forest.lean); its tie to find_minimal_translation is the sampled comparison of results']),
    'C06': dict(level='proof', theorem_modules=['C01'], min_theorems=8, tags=['C06'], crash_counts=True,
                gen=parse_family('C06', 1500, 40000, maxlen=9), flavours=['c'],
                rule='grammars with and without error rules; non-sentences (mutated sentences, prefixes, random strings); recovery off (exact argument tuple) and on (well-formedness of every callback, strictly increasing error tokens, first error token = model)',
                assumptions=COMMON_ASSUME + ['firstError_iff_viable is proved for lookahead 0/1 under productivity of every nonterminal (strict grammars)']),
    'C07': dict(level='proof', theorem_modules=['C01', 'C02'], min_theorems=8, tags=['C07'], crash_counts=True,
                gen=parse_family('C07', 1500, 40000, maxlen=9), flavours=['c'],
                rule='grammars with 0..3 error rules, non-sentences <= 9 tokens, recovery_match 1..5, one/all parses, lookahead 0-2: return code, non-NULL tree, tree vs translations of the repaired input (read off the model parse list), ignored-token accounting, callbacks and final parse list vs the step-for-step recovery model',
                assumptions=COMMON_ASSUME + ['the recovery search (Model/Recovery.lean) is an executable model validated by correspondence; termination/minimality theorems about it are not yet proved (see DESIGN.md)']),
    'C09': dict(level='proof', theorem_modules=['C01'], min_theorems=8, tags=['C09'], crash_counts=True,
                gen=parse_family('C09', 1200, 30000), flavours=['c'],
                rule='each input parsed at lookahead -3,0,1,2,7 and at several debug levels with otherwise identical flags: all observables (rc, callbacks, ambiguity flag, denoted tree set with costs) must be identical; goto-cache self-check hook on every parse',
                assumptions=COMMON_ASSUME + ['verdict_indep_of_la01 / firstError_indep_of_la01 proved for levels 0/1; level 2 only through cross-level comparison']),
    'C05': dict(level='proof', theorem_modules=['C05'], min_theorems=4, tags=['C05'], crash_counts=True,
                gen=parse_family('C05', 1500, 40000), flavours=['c'],
                rule='ambiguity flag vs number of derivations / distinct translations, one_parse in {0,1}',
                assumptions=COMMON_ASSUME),
    'C10': dict(level='proof', theorem_modules=['C10'], min_theorems=6, tags=['C10'], crash_counts=True,
                gen=lambda seed, tier: gen.gen_def_cases(seed, 20000 if tier == 'thorough' else 2500), flavours=['c'],
                rule='random (mostly defective) terminal/rule lists through the callbacks, every defect class alone and in pairs, strict in {0,1}; return code vs model, symbol flags and rules vs model',
                assumptions=COMMON_ASSUME),
    'C11': dict(level='proof', theorem_modules=['C11', 'C10'], min_theorems=8, tags=['C11'], crash_counts=True,
                gen=lambda seed, tier: gen.gen_descr_cases(seed, 20000 if tier == 'thorough' else 2000), flavours=['c'],
                rule='descriptions printed from a random AST with random layout (whitespace, newlines, comments, optional semicolons, TERM sections anywhere, harmless redeclarations, explicit and implicit codes, char constants, all translation forms), 30% byte-mutated, 10% arbitrary bytes; return code, error line, terminals-with-codes and rules vs the Lean lexer/parser model; parses through the description-defined object and its callback-defined twin both judged against the model',
                assumptions=COMMON_ASSUME + ['a name declared both with and without a code is outside the property (the generator keeps redeclarations consistent)']),
    'C16': dict(level='proof', theorem_modules=['C01', 'C10', 'C15', 'C19'], min_theorems=8, crash_counts=True, compare_flavours=True,
                tags=['C01', 'C02', 'C05', 'C06', 'C07', 'C09', 'C10', 'C11', 'C13', 'C14', 'C15'],
                gen=lambda seed, tier: (gen.gen_parse_cases(seed, 4000 if tier == 'thorough' else 350, 'C01') +
                                        gen.gen_parse_cases(seed + 1, 4000 if tier == 'thorough' else 300, 'C07', maxlen=8) +
                                        gen.gen_history_cases(seed + 2, 3000 if tier == 'thorough' else 300) +
                                        gen.gen_descr_cases(seed + 3, 3000 if tier == 'thorough' else 300) +
                                        gen.gen_big_symbol_cases(seed + 4, 40 if tier == 'thorough' else 6)), flavours=['c', 'cxx'],
                rule='the case families of C01, C07, C14/C15 and C11 plus grammars with hundreds of symbols (C++ containers grow past their initial sizes) are run through libyaep and through class yaep (libyaep++); the two observation streams (return codes, messages, callbacks, flags, exported trees, free_tree traces, hook dumps) must be identical line by line, and both are judged against the same Lean model',
                assumptions=COMMON_ASSUME + ['no theorem of its own: the claim is that both implementations correspond to the same proved model']),
    'C12': dict(level='exploration', theorem_modules=['C01', 'C19'], min_theorems=4, tags=['C12'], crash_counts=True,
                gen=lambda seed, tier: (gen.gen_hostile_cases(seed, 30000 if tier == 'thorough' else 2500) +
                                        gen.gen_parse_cases(seed + 1, 6000 if tier == 'thorough' else 400, 'C07', maxlen=9) +
                                        gen.gen_parse_cases(seed + 2, 6000 if tier == 'thorough' else 400, 'C04') +
                                        gen.gen_history_cases(seed + 3, 4000 if tier == 'thorough' else 300) +
                                        gen.gen_descr_cases(seed + 4, 4000 if tier == 'thorough' else 300) +
                                        gen.gen_def_cases(seed + 5, 4000 if tier == 'thorough' else 300)), flavours=['c', 'cxx'],
                rule='hostile stream (arbitrary byte strings and mutated texts as descriptions, 150-1000 character symbol names in every error message, 70-260 terminals with dense/sparse/huge codes, arbitrary int token sequences incl. undeclared and negative codes, extreme setter values, all debug levels) plus samples of every other case family, on the C and the C++ build under ASan+UBSan with real frees and a 20 s watchdog per case; a sanitizer report, abort, non-zero exit or timeout is a violation; message length <= 200',
                assumptions=['partial by nature: absence of sanitizer reports on the explored inputs, not a proof of memory safety of the pointer code',
                             'Lean carries only the decision logic behind bounds (recovery index arithmetic is validated by the C06/C07 checks, containers by C19)'],
                technique='sanitizer-instrumented exploration driven by the same generators; Lean theorems only for the modelled index/bounds logic (partial)'),
    'C13': dict(level='proof', theorem_modules=['C13'], min_theorems=6, tags=['C13'], crash_counts=True,
                gen=lambda seed, tier: gen.gen_history_cases(seed, 4000 if tier == 'thorough' else 500) +
                                       gen.gen_parse_cases(seed + 7, 6000 if tier == 'thorough' else 500, 'C13'), flavours=['c'],
                rule='every caller-side parse_alloc / parse_free / termcb event of every parse is logged with block ids: frees must hit live blocks of the same parse exactly once, everything reachable from the root must lie in live blocks (walk before and after yaep_free_grammar under ASan with real frees), yaep_free_tree must release all blocks of the parse and call termcb once per TERM node; definitions are handed over as heap copies that are scribbled and freed right after the defining call',
                assumptions=COMMON_ASSUME + ['that the C pointer graph is the exported node table is observed, not proved; partial: memory effects are runtime truth (ASan)']),
    'C14': dict(level='proof', theorem_modules=['C14'], min_theorems=8, tags=['C14', 'C15', 'C01', 'C02', 'C05', 'C06', 'C07', 'C10', 'C13', 'C09'], crash_counts=True,
                gen=lambda seed, tier: gen.gen_history_cases(seed, 12000 if tier == 'thorough' else 1200), flavours=['c'],
                rule='random histories of <= 40 API calls over up to 3 live grammar objects (create, set, define good/defective, redefine, parse with sentences / non-sentences / invalid codes / NULL allocators, error queries, free_tree, free in any order); every return value, callback and tree is compared with the history-free model (a function of the object definition and settings only); library allocator accounting must be zero after all objects are freed',
                assumptions=COMMON_ASSUME + ['the model is history-free by construction (Model/Api.lean); any deviation of any call is therefore a history dependence']),
    'C15': dict(level='proof', theorem_modules=['C15'], min_theorems=10, tags=['C15'], crash_counts=True,
                gen=lambda seed, tier: gen.gen_history_cases(seed + 3, 12000 if tier == 'thorough' else 1200), flavours=['c'],
                rule='the same histories: yaep_error_code / message after every call, return codes of yaep_parse for invalid token codes (below, between and above the declared codes), undefined grammars, NULL allocator with non-NULL free; previous values returned by all setters incl. out-of-range lookahead levels',
                assumptions=COMMON_ASSUME),
    'C19': dict(level='proof', theorem_modules=['C19'], min_theorems=12, tags=['C19'], crash_counts=False, kind='containers',
                gen=lambda seed, tier: gen_containers.gen_cases(seed, 12000 if tier == 'thorough' else 1500), flavours=['c', 'cxx'],
                rule='random op sequences (<= 400 ops) on hash table (small moduli force collisions, sizes force several expansions, remove/re-insert reuse deleted slots, empty), object stack (sizes around segment boundaries, objects larger than a segment), VLO (growth boundaries); C and C++ builds; every query result vs the Lean model, table size/element count as deep tie',
                assumptions=COMMON_ASSUME[1:] + ['hash function and equality of the harness are `v % modulus` and identity; memcpy/realloc behave as specified',
                                                 'the models (HashTab/ObjStack/Vlo.lean) are hand-written; the refinement theorems are about them; tie = sampled op sequences']),
}


def corpus_cases(pid, sub=''):
    out = []
    for p in sorted(glob.glob(os.path.join(CORPUS, sub, '*.txt'))):
        lines = [l.rstrip('\n') for l in open(p) if not l.startswith('#')]
        out += pipeline.split_cases(lines)
    return out


def case_features(stats):
    feats = Counter()
    for s in stats:
        for tok in s.split():
            if '=' in tok:
                k, v = tok.split('=', 1)
                if k in ('sentence', 'la', 'one', 'cost', 'rec', 'rc', 'alt', 'modelRan'):
                    feats['%s=%s' % (k, v)] += 1
                if k == 'n':
                    feats['len=%s' % (v if v.isdigit() and int(v) < 8 else '8+')] += 1
                if k == 'derivations' and v.isdigit():
                    feats['derivations=%s' % ('1' if v == '1' else '2-4' if int(v) <= 4 else '5+')] += 1
        if s.startswith('trees skipped'): feats['trees-skipped'] += 1
        if s.startswith('recovery model gave up'): feats['recovery-gave-up'] += 1
    return feats


def run_property(pid, P, cases, tier, seed, replay=False):
    tags = set(P['tags'])
    if cases is None:
        cases = corpus_cases(pid, 'containers' if P.get('kind') == 'containers' else '') + P['gen'](seed, tier)
    failures = []
    cov = dict(evaluations=0, distinct_nontrivial=0, rule=P['rule'], samples=[], verdicts={}, features={})
    seen = set()
    feats = Counter()
    vcount = Counter()
    obs_by_flavour = {}

    def flt(l):
        # allocation counters legitimately differ between the C and the C++ containers
        if not l.startswith('o '): return True
        w = l.split()
        return not (len(w) > 2 and w[2] == 'lib') and not (len(w) > 1 and w[1] == 'end') and not l.startswith('o !')
    for flavour in P.get('flavours', ['c']):
        res = pipeline.run_cases(cases, flavour, kind=P.get('kind', 'yaep'))
        bycase = {}
        obs_by_flavour[flavour] = res.obs
        for v in res.verdicts:
            relevant = v.prop in tags or (P.get('crash_counts') and v.prop == 'C12')
            if not relevant: continue
            vcount['%s %s %s' % (v.prop, v.kind, 'ok' if v.ok else 'bad')] += 1
            bycase.setdefault(v.case, []).append(v)
            if not v.ok:
                failures.append(dict(prop=v.prop, kind=v.kind, case=v.case, op=v.op, detail=v.detail,
                                     context=res.stats.get(v.case, []),
                                     replay_lines=res.obs.get(v.case, res.cases.get(v.case, []))))
        for cid, vs in bycase.items():
            h = hashlib.sha1('\n'.join(res.cases.get(cid, [cid])[1:]).encode()).hexdigest()
            if any(v.prop in tags for v in vs) and h not in seen:
                seen.add(h)
        for cid, st in res.stats.items():
            feats.update(case_features(st))
        cov['evaluations'] += len(cases)
        if not cov['samples'] and cases:
            cov['samples'] = [cases[min(len(cases) - 1, 7)]]
    if P.get('compare_flavours') and len(obs_by_flavour) == 2:
        (fa, oa), (fb, ob) = list(obs_by_flavour.items())
        ndiff = 0; ncmp = 0
        for cid, la in oa.items():
            lb = ob.get(cid)
            if lb is None: continue
            ncmp += 1
            fa_l = [l for l in la if flt(l)]; fb_l = [l for l in lb if flt(l)]
            if fa_l != fb_l:
                ndiff += 1
                k = next((i for i in range(min(len(fa_l), len(fb_l))) if fa_l[i] != fb_l[i]), min(len(fa_l), len(fb_l)))
                failures.append(dict(prop=pid, kind='K', case=cid, op='0',
                                     detail='C and C++ observations differ at line %d: %s: %r || %s: %r' % (
                                         k, fa, fa_l[k] if k < len(fa_l) else '<end>', fb, fb_l[k] if k < len(fb_l) else '<end>'),
                                     context=[], replay_lines=la + ['# ---- ' + fb] + lb))
        vcount['%s K C-vs-C++ compared' % pid] = ncmp
        vcount['%s K C-vs-C++ differ' % pid] = ndiff
    cov['distinct_nontrivial'] = len(seen)
    cov['verdicts'] = dict(vcount)
    cov['features'] = dict(feats)
    cov['flavours'] = P.get('flavours', ['c'])
    # deep-tie only failures: search for a failing input with a larger budget
    note = ''
    if failures and not any(f['kind'] == 'K' for f in failures) and not replay:
        extra = []
        for s2 in range(3):
            extra += P['gen'](seed * 1000 + 17 + s2, tier)
        res = pipeline.run_cases(extra, P.get('flavours', ['c'])[0], kind=P.get('kind', 'yaep'))
        found = [v for v in res.verdicts if (v.prop in tags or v.prop == 'C12') and not v.ok and v.kind == 'K']
        note = 'searched %d more cases' % len(extra)
        for v in found[:3]:
            failures.append(dict(prop=v.prop, kind=v.kind, case=v.case, op=v.op, detail=v.detail, context=res.stats.get(v.case, []),
                                 replay_lines=res.obs.get(v.case, [])))
    return dict(coverage=cov, failures=failures, search_note=note)
