"""Per-property configuration of the checks and the generic run loop."""
import glob, hashlib, os, random, re, sys
from collections import Counter
sys.path.insert(0, os.path.dirname(os.path.abspath(__file__)))
import gen, pipeline, build, gen_containers

VERIF = build.VERIF
CORPUS = os.path.join(VERIF, 'corpus')

COMMON_ASSUME = [
    'the hand-written Lean model is tied to the C code by sampled correspondence (seeded generation), not by proof',
    'Lean kernel; axioms propext, Classical.choice, Quot.sound; the Lean compiler for the native judge',
    'harness (yh.c), guarded hooks (YAEP_VERIF), gcc, ASan/UBSan, bison',
]


def parse_family(focus, quick_n, thorough_n, maxlen=7, inputs_per=3):
    def g(seed, tier):
        n = thorough_n if tier == 'thorough' else quick_n
        return gen.gen_parse_cases(seed, n, focus, maxlen=maxlen, inputs_per=inputs_per)
    return g


PROPS = {
    'C01': dict(level='proof', theorem_modules=['C01', 'C09Lookahead', 'Accepted', 'BuildSet'], min_theorems=22, tags=['C01'], crash_counts=True,
                gen=lambda seed, tier: parse_family('C01', 3000, 40000)(seed, tier) + gen.gen_prefix_parse_cases(seed + 11, 400 if tier == 'thorough' else 40), flavours=['c', 'c-weak'],
                rule='random grammars (1-5 nonterminals, nullable/recursive/ambiguous/error shapes) x sampled sentences, prefixes, mutations, random strings; every input parsed at lookahead 0,1,2 with random one_parse/cost and recovery on/off; non-trivial = distinct case text with at least one judged parse',
                assumptions=COMMON_ASSUME + ['accepts_iff_sentence is proved for the level-0/1 model and accepts2_iff_sentence for the level-2 model, for every grammar readGrammar accepts (Props/Accepted.lean); recovery-on runs of non-sentences are judged by the recovery model; the set construction of build_new_set / expand_new_start_set / set_insert (start, derived and initial situations, cores shared by start situations) is modelled step for step at levels 0/1 (Model/BuildSet.lean) and proved to compute the abstract sets (buildPLC_eq_buildPL, acceptsC_iff_sentence); the tie compares the situations of every set with multiplicity, their order is only counted']),
    'C02': dict(level='proof', theorem_modules=['C02', 'Accepted', 'MakeParse', 'MakeParseSound', 'BuildSet', 'LaIndep2'], min_theorems=30, tags=['C02'], crash_counts=True,
                gen=parse_family('C02', 3000, 40000), flavours=['c', 'c-weak'],
                rule='random grammars with random translations (permuted, partial, nil-padded, pass-through, empty); sentences <= 7 tokens; one_parse=1 cost=0; tree compared with the enumerated translations of all derivations',
                assumptions=COMMON_ASSUME + ['enumeration capped at 3000 derivations per input and 9 tokens (depth_bound: the enumerator is complete for every accepted grammar)', 'C02 is a theorem about the step-for-step models: for every grammar readGrammar accepts and every sentence, the model of make_parse in one-parse mode, run on the parse list of the model of build_pl (levels 0/1), ends within an explicit fuel bound with a table without ALT node that denotes exactly the translation of a derivation of the input, TERM nodes carrying code and position of their tokens (accepted_makeParse_one, makeParse_one_sound, makeParse_one_total, makeParse_one_terms); the two step models are tied to the C code on every parse (identical exports)']),
    'C03': dict(level='proof', theorem_modules=['C03', 'C02', 'MakeParse', 'MakeParseSound', 'MakeParseTotal', 'HeapWf', 'MakeParseComplete', 'ExactCost', 'CompleteLa2'], min_theorems=30, tags=['C03'], crash_counts=True,
                gen=lambda seed, tier: parse_family('C03', 3000, 40000)(seed, tier) + capacity_cases(seed, ('L-amb', 'L-deep')), flavours=['c', 'c-weak'],
                rule='as C02 with one_parse=0: set of trees denoted by the DAG vs set of translations of all derivations',
                assumptions=COMMON_ASSUME + ['the sound half of C03 is a theorem about the step model of make_parse (makeParse_all_sound: every tree the all-parses forest denotes is the translation of a derivation of the input, for every accepted grammar and input); the all-parses run always ends with a well-formed acyclic forest (makeParse_all_total with the explicit fuel mpAllFuel, makeParse_heap_wf, makeParse_all_not_cyclic; the fuel is exponential and must be: known finding D31; polynomial when no pass-through rule derives itself: makeParse_all_total_poly); the complete half is a theorem for event-free runs (makeParse_all_complete_eventfree: reuse = 0 and origins = 0, the two counters of the mpev hook line, imply that every translation is denoted) and false otherwise (known finding D9, makeParse_forest_incomplete: the two events are exactly D9a / D9b); it is judged per run, with full force on event-free runs and with the attribution rule of known_findings.txt on runs with an event']),
    'C04': dict(level='proof', theorem_modules=['C04', 'PruneC', 'HeapWf', 'MakeParseTotal', 'RecoveredCost', 'ExactCost'], min_theorems=30, tags=['C04'], crash_counts=True,
                gen=lambda seed, tier: parse_family('C04', 3000, 40000)(seed, tier) + capacity_cases(seed, ('L-amb', 'L-deep')), flavours=['c', 'c-weak'],
                rule='random grammars with costs 0-5 (ties included); sentences <= 7 tokens; cost flag on, one_parse in {0,1}, parse_free given or NULL; denoted set vs argmin of total cost over all translations, every cost field vs the additive law',
                assumptions=COMMON_ASSUME + ['prune theorems are about the Lean pruning model of a forest (Spec/Forest.lean); find_minimal_translation itself (prune_to_minimal with the sign of the cost field as visited flag and the memo table of alternative chains, traverse_pruned_translation, the freeing loop) is modelled step for step on the heap of the make_parse model (Model/PruneC.lean) and proved to denote exactly prune of the unfolded forest, to restore every cost field, and to free exactly the cells that became unreachable, each once (pruneC_denote, pruneC_minimal_all/one, pruneC_costs_restored, pruneC_frees, pruneC_memo_sound) under the heap well-formedness WfHeap, which is proved for every heap the make_parse model builds on the parse list of an accepted input (makeParse_heap_wf; acyclicity from a rank by span length and unit steps); accepted_cost_parse composes the chain for every accepted grammar and sentence: every tree of the forest is a translation, the pruned result denotes exactly the minimal-cost trees of the forest make_parse built (not of all translations: D9) with accumulated cost fields, and the freed cells are exactly those that became unreachable, each once; accepted_cost_parse_total removes the last hypothesis (the all-parses run of the make_parse model always ends: makeParse_all_total); the tie runs both models on the dumped parse list and compares the exported forest and the number of freed blocks']),
    'C06': dict(level='proof', theorem_modules=['C06', 'C01', 'RecoveryAccepted'], min_theorems=12, tags=['C06'], crash_counts=True,
                gen=parse_family('C06', 3000, 40000, maxlen=9), flavours=['c'],
                rule='grammars with and without error rules; non-sentences (mutated sentences, prefixes, random strings); recovery off (exact argument tuple) and on (well-formedness of every callback, strictly increasing error tokens, first error token = model)',
                assumptions=COMMON_ASSUME + ['firstError_iff_viable / firstError2_iff_viable need every nonterminal productive (strict grammars); callback theorems hold for every accepted grammar and input from the explicit fuel recoveryFuel on (Props/RecoveryAccepted: accepted_calls_wf, accepted_first_call)']),
    'C07': dict(level='proof', theorem_modules=['C07', 'C06', 'C02', 'RecoveredParse', 'RecoveryAccepted', 'RecoveredCost', 'RecoveredRelease', 'ExactCost', 'RecoverySave'], min_theorems=12, tags=['C07'], crash_counts=True,
                gen=lambda seed, tier: parse_family('C07', 3000, 40000, maxlen=9)(seed, tier) + [c for c in long_c09_cases(seed, 'quick') if 'farback' in c[0]], flavours=['c', 'c-weak'],
                rule='grammars with 0..3 error rules, non-sentences <= 9 tokens, recovery_match 1..5, one/all parses, lookahead 0-2: return code, non-NULL tree, tree vs translations of the repaired input (read off the model parse list), ignored-token accounting, callbacks and final parse list vs the step-for-step recovery model',
                assumptions=COMMON_ASSUME + ['the recovery search is proved to finish within recoveryFuel (exponential in the input length, finding D28) and recovered_parse_one / recovered_parse_all take that fuel; theorems with the hypothesis r.ok hold for any smaller fuel on which the search happened to finish', 'after a recovery the all-parses forest is sound but may be incomplete (finding D9), as without recovery']),
    'C08': dict(level='proof', theorem_modules=['C08', 'C06', 'RecoveryAccepted'], min_theorems=4, tags=['C08'], crash_counts=True,
                gen=parse_family('C08', 3000, 40000, maxlen=9), flavours=['c'],
                rule='grammars with error rules, non-sentences <= 9 tokens, recovery_match 1..5, lookahead 0-2: the number of tokens the first callback reports ignored vs the minimum over all simple recoveries (back position with `. error` x forward skip) computed by brute force from the statement over the model sets',
                assumptions=COMMON_ASSUME + ['recover_minimal is proved for the recovery model; accepted_recover_minimal removes the hypothesis r.ok for every accepted grammar from the explicit fuel recoveryFuel on; the oracle simpleRecoveryCosts is the property statement itself']),
    'C09': dict(level='proof', theorem_modules=['C09', 'C09Lookahead', 'C01', 'BuildSet2', 'LaIndep', 'LaIndep2', 'CompleteLa2'], min_theorems=12, tags=['C09'], crash_counts=True,
                gen=lambda seed, tier: parse_family('C09', 2400, 30000)(seed, tier) + long_c09_cases(seed, tier) +
                                       gen.gen_parse_cases(seed + 5, 3000 if tier == 'thorough' else 500, 'C09', maxlen=9, kind='recov-cache', force=dict(rec=1)) +
                                       gen.gen_parse_cases(seed + 6, 1500 if tier == 'thorough' else 150, 'C09', maxlen=9, kind='stmt-list'), flavours=['c', 'c-weak'],
                rule='each input parsed at lookahead -3,0,1,2,7 and at several debug levels with otherwise identical flags: all observables (rc, callbacks, ambiguity flag, denoted tree set with costs) must be identical; goto-cache self-check hook on every parse',
                assumptions=COMMON_ASSUME + ['verdict_indep_of_la012 / firstError_indep_of_la012 cover all three levels (level 2: accepts2_iff_sentence); the level-2 set construction of the C code (contexts, the in-place context fixpoint of expand_new_start_set) is modelled step for step (Model/BuildSet2.lean) and proved to compute the level-2 set model (buildPLC2_eq_buildPL2, ctxLoop_least_fixpoint, ctxLoop_order_irrelevant, acceptsC_indep_of_la012)']),
    'C05': dict(level='proof', theorem_modules=['C05', 'MakeParseSound', 'MakeParseFlag'], min_theorems=24, tags=['C05'], crash_counts=True,
                gen=parse_family('C05', 3000, 40000), flavours=['c', 'c-weak'],
                rule='ambiguity flag vs number of derivations / distinct translations, one_parse in {0,1}',
                assumptions=COMMON_ASSUME + ['C05 is a theorem about the step models in both modes (Props/MakeParseFlag.lean): the flag is set only if the input has two different derivations (makeParse_one_amb_sound, makeParse_all_amb_sound: no hypothesis on duplicates in the sets -- an item held twice by a set of the build_pl model has two different derivations, dup_two_kids), and two derivations with different translations force it (makeParse_one_amb_complete, makeParse_all_amb_complete; accepted_amb_flag for every accepted grammar and user tokens); an input containing the code of `error` itself is outside these theorems (the example errTokGrammar shows the flag can stay off there) and outside the property (declared terminal codes of the user)']),
    'C10': dict(level='proof', theorem_modules=['C10', 'Generated', 'AnalysisC'], min_theorems=24, tags=['C10'], crash_counts=True,
                gen=lambda seed, tier: gen.gen_def_cases(seed, 20000 if tier == 'thorough' else 2500), flavours=['c', 'c-weak'],
                rule='random (mostly defective) terminal/rule lists through the callbacks, every defect class alone and in pairs, strict in {0,1}; return code vs model, symbol flags and rules vs model',
                assumptions=COMMON_ASSUME + ['the three analysis loops of the C code (set_empty_access_derives, create_first_follow_sets, set_loop_p: pass structure, visiting order, change flags, breaks, in-place updates) are modelled step for step (Model/AnalysisC.lean) and proved to compute the abstract analysis (emptyAccessDerives_eq, firstFollowC_eq, loopC_eq, checkGrammarC_eq_built, readGrammar_eq_C); the flags they leave are compared with the library per definition']),
    'C11': dict(level='proof', theorem_modules=['C11', 'C11Yacc', 'C10', 'Generated'], min_theorems=8, tags=['C11', 'C01', 'C02', 'C03', 'C04', 'C05'], crash_counts=True,
                gen=lambda seed, tier: gen.gen_descr_cases(seed, 20000 if tier == 'thorough' else 2000) + gen.gen_descr_sweep_cases(seed + 9, tier), flavours=['c'],
                rule='descriptions printed from a random AST with random layout (whitespace, newlines, comments, optional semicolons, TERM sections anywhere, redeclarations with and without the code, explicit and implicit codes, char constants, all translation forms), 30% byte-mutated, 10% arbitrary bytes; return code, error line, terminals-with-codes and rules vs the Lean lexer/parser model; parses through the description-defined object and its callback-defined twin both judged against the model',
                assumptions=COMMON_ASSUME + ['the acceptance of a token sequence by the bison-generated parser is the language of the productions of sgramm.y (bison reports no conflict; bison is trusted)']),
    'C16': dict(level='proof', theorem_modules=['C16', 'C01', 'C10', 'C15', 'C19', 'Generated'], min_theorems=8, crash_counts=True, compare_flavours=True,
                tags=['C01', 'C02', 'C05', 'C06', 'C07', 'C09', 'C10', 'C11', 'C13', 'C14', 'C15'],
                gen=lambda seed, tier: (gen.gen_parse_cases(seed, 4000 if tier == 'thorough' else 350, 'C01') +
                                        gen.gen_parse_cases(seed + 1, 4000 if tier == 'thorough' else 300, 'C07', maxlen=8) +
                                        gen.gen_history_cases(seed + 2, 3000 if tier == 'thorough' else 300) +
                                        gen.gen_descr_cases(seed + 3, 3000 if tier == 'thorough' else 300) +
                                        gen.gen_big_symbol_cases(seed + 4, 40 if tier == 'thorough' else 6) +
                                        gen.gen_name_length_cases(seed + 5, 1500 if tier == 'thorough' else 250) +
                                        capacity_cases(seed + 6)), flavours=['c', 'cxx'],
                rule='the case families of C01, C07, C14/C15 and C11 plus grammars with hundreds of symbols (C++ containers grow past their initial sizes) are run through libyaep and through class yaep (libyaep++); the two observation streams (return codes, messages, callbacks, flags, exported trees, free_tree traces, hook dumps) must be identical line by line, and both are judged against the same Lean model',
                assumptions=COMMON_ASSUME + ['cxx_methods_forward is about the method bodies the translator extracts from yaep.cpp (regex-based, checked for one statement per method); that yaep.cpp includes yaep.c compiled as C++ and uses the C++ containers is covered by the stream comparison, not by a theorem']),
    'C12': dict(level='exploration', theorem_modules=['C01', 'C19', 'CodeTable', 'TermSet', 'SitTable', 'MakeParseTotal', 'RecoverySave', 'VectShare'], min_theorems=4, tags=['C12'], crash_counts=True,
                gen=lambda seed, tier: (gen.gen_hostile_cases(seed, 30000 if tier == 'thorough' else 2500) +
                                        gen.gen_parse_cases(seed + 1, 6000 if tier == 'thorough' else 400, 'C07', maxlen=9) +
                                        gen.gen_parse_cases(seed + 2, 6000 if tier == 'thorough' else 400, 'C04') +
                                        gen.gen_history_cases(seed + 3, 4000 if tier == 'thorough' else 300) +
                                        gen.gen_descr_cases(seed + 4, 4000 if tier == 'thorough' else 300) + gen.gen_descr_sweep_cases(seed + 9, tier) +
                                        gen.gen_def_cases(seed + 5, 4000 if tier == 'thorough' else 300) +
                                        long_c09_cases(seed + 6, 'quick')), flavours=['c', 'cxx', 'c-plain'],
                rule='hostile stream (arbitrary byte strings and mutated texts as descriptions, 150-1000 character symbol names in every error message, 70-260 terminals with dense/sparse/huge codes, arbitrary int token sequences incl. undeclared and negative codes, extreme setter values, all debug levels) plus samples of every other case family, on the C and the C++ build under ASan+UBSan with real frees and a 20 s watchdog per case; a sanitizer report, abort, non-zero exit or timeout is a violation; message length <= 200',
                assumptions=['partial by nature: absence of sanitizer reports on the explored inputs, not a proof of memory safety of the pointer code',
                             'Lean carries only the decision logic behind bounds (recovery index arithmetic is validated by the C06/C07 checks, containers by C19)'],
                technique='sanitizer-instrumented exploration driven by the same generators; Lean theorems only for the modelled index/bounds logic (partial)'),
    'C13': dict(level='proof', theorem_modules=['C13', 'PruneC', 'HeapWf', 'NoGarbage', 'RecoveredRelease'], min_theorems=24, tags=['C13'], crash_counts=True,
                gen=lambda seed, tier: gen.gen_history_cases(seed, 4000 if tier == 'thorough' else 1000) +
                                       gen.gen_parse_cases(seed + 7, 6000 if tier == 'thorough' else 1500, 'C13'), flavours=['c', 'c-weak'],
                rule='every caller-side parse_alloc / parse_free / termcb event of every parse is logged with block ids: frees must hit live blocks of the same parse exactly once, everything reachable from the root must lie in live blocks (walk before and after yaep_free_grammar under ASan with real frees), yaep_free_tree must release all blocks of the parse and call termcb once per TERM node; definitions are handed over as heap copies that are scribbled and freed right after the defining call',
                assumptions=COMMON_ASSUME + ['that the C pointer graph is the exported node table is observed, not proved; partial: memory effects are runtime truth (ASan)']),
    'C14': dict(level='proof', theorem_modules=['C14', 'SitTable', 'Lifecycle'], min_theorems=8, tags=['C14', 'C15', 'C01', 'C02', 'C05', 'C06', 'C07', 'C10', 'C13', 'C09'], crash_counts=True,
                gen=lambda seed, tier: gen.gen_history_cases(seed, 12000 if tier == 'thorough' else 2400), flavours=['c', 'c-weak'],
                rule='random histories of <= 40 API calls over up to 3 live grammar objects (create, set, define good/defective, redefine, parse with sentences / non-sentences / invalid codes / NULL allocators, error queries, free_tree, free in any order); every return value, callback and tree is compared with the history-free model (a function of the object definition and settings only); library allocator accounting must be zero after all objects are freed',
                assumptions=COMMON_ASSUME + ['the model is history-free by construction (Model/Api.lean); any deviation of any call is therefore a history dependence']),
    'C15': dict(level='proof', theorem_modules=['C15', 'Generated', 'CodeTable'], min_theorems=12, tags=['C15'], crash_counts=True,
                gen=lambda seed, tier: gen.gen_history_cases(seed + 3, 12000 if tier == 'thorough' else 2400), flavours=['c'],
                rule='the same histories: yaep_error_code / message after every call, return codes of yaep_parse for invalid token codes (below, between and above the declared codes), undefined grammars, NULL allocator with non-NULL free; previous values returned by all setters incl. out-of-range lookahead levels',
                assumptions=COMMON_ASSUME),
    'C17': dict(level='fault_enumeration', theorem_modules=['C14', 'C17', 'Lifecycle'], min_theorems=4, tags=['C17', 'C12', 'C15', 'C14', 'C13'], crash_counts=True, runner=None,
                flavours=['c', 'cxx', 'c-fi'],
                rule='scenarios (callback-defined and description-defined grammars, parse with and without error recovery, all parses with cost pruning, dynamic lookahead, a second live object): the fault-free run counts the library allocations of yaep_create_grammar / the definition / yaep_parse; then for every k (thorough: all k; quick: a strided sample incl. the first and last 10) the k-th allocation of that call fails: expected NULL resp. YAEP_NO_MEMORY with error code 1, no sanitizer report, yaep_free_grammar succeeds, the other object still parses as the model says; non-trivial = a variant in which the injected failure actually fired',
                assumptions=['malloc/calloc/realloc/free of allocate.c are replaced by counting, failing wrappers (no source hook); operator new of the C++ containers is not injected',
                             'which blocks the longjmp unwinding leaks is not judged (leaks are reported as statistics only); partial: memory effects are runtime truth (ASan)',
                             'Lean: Model/ApiFault.lean (the API state machine under a single failing allocation: NULL / YAEP_NO_MEMORY, a failed definition leaves the object undefined, a failed parse changes nothing but the error code) with Props/C17.lean: fault_result, fault_local, fault_errcode, fault_define_undefined, fault_parse_keeps, fault_settings_kept, fault_then_free, fault_then_redefine, fault_bystander_run; the judge applies objStepFault to every injected failure'],
                technique='exhaustive single-fault enumeration over allocation indices, judged by the Lean API model'),
    'C18': dict(level='exploration', theorem_modules=['C18', 'BuildSet', 'BuildSet2', 'C18Etf', 'VectShare'], min_theorems=18, tags=['C18'], crash_counts=True, runner=None, flavours=['c'],
                rule='left-recursive list, E/T/F arithmetic and the 200-rule ANSI C grammar of test41.c on the tokens of test/test.i (the repo lexer ansic.l), input lengths 1k..16k/32k (thorough: ..512k) doubling, lookahead 0,1,2: bytes requested from the allocator during yaep_parse, hash searches, unique situations / set cores / distance vectors / sets / triples must grow by at most a calibrated factor per doubling (bytes 2.6, searches 3.5, ...), at most 4 hash collisions per search, never more unique sets than tokens, goto-cache hits do not shrink; the same counters after make_parse in the all-parses and cost configurations; on random grammars and short inputs the numbers of unique set cores, distance vectors and sets equal those of the step-for-step Lean model of set_insert (identical sets are found again, not rebuilt); non-trivial = a (family, lookahead, n -> 2n) pair with both measurements',
                assumptions=['measured, not proved: hash distribution, allocator behaviour and wall time are outside any model; thresholds calibrated on the unchanged tree with head-room',
                             'hash collisions are judged per search (<= 4 collisions per search + 1000): their growth at small sizes is table warm-up, not superlinear work'],
                technique='machine-independent work counters (guarded hook + allocator wrapper) at doubling input sizes (partial: runtime behaviour)'),
    'C19': dict(level='proof', theorem_modules=['C19'], min_theorems=12, tags=['C19'], crash_counts=False, kind='containers',
                gen=lambda seed, tier: gen_containers.gen_cases(seed, 12000 if tier == 'thorough' else 1500), flavours=['c', 'cxx'],
                rule='random op sequences (<= 400 ops) on hash table (small moduli force collisions, sizes force several expansions, remove/re-insert reuse deleted slots, empty), object stack (sizes around segment boundaries, objects larger than a segment), VLO (growth boundaries); C and C++ builds; every query result vs the Lean model, table size/element count as deep tie',
                assumptions=COMMON_ASSUME[1:] + ['hash function and equality of the harness are `v % modulus` and identity; memcpy/realloc behave as specified',
                                                 'the models (HashTab/ObjStack/Vlo.lean) are hand-written; the refinement theorems are about them; tie = sampled op sequences']),
}


def fault_scenarios(seed, tier):
    """scenarios for C17: (case lines without the trailing frees); object 1 is the bystander"""
    r = random.Random(seed)
    scen = []
    fixed = gen.Grammar([('a', 97), ('plus', 43)],
                        [('E', 'add', 1, ['E', 'plus', 'T'], [0, 2]), ('E', None, 0, ['T'], [0]), ('T', None, 0, ['a'], [0]),
                         ('E', 'err', 0, ['error'], [])], True)
    amb = gen.Grammar([('a', 97)], [('S', 'p', 2, ['S', 'S'], [0, 1]), ('S', 'q', 1, ['a'], [0])], True)
    texts = [b"TERM NUM = 300 ID;\nS : S '+' T # add (0 2) | T # 0 ;\nT : NUM # 0 | ID # 0 | '(' S ')' # 1 | error # e 2 ;",
             b"E : E E # p (0 1) | 'a' # 0 ;"]
    plans = [
        (fixed, None, [97, 43, 97], dict(rec=1)),
        (fixed, None, [97, 43, 43, 97, 97], dict(rec=1, match=2)),          # with error recovery
        (amb, None, [97, 97, 97, 97], dict(one=0, cost=1, rec=0)),          # all parses + cost pruning
        (amb, None, [97, 97, 97], dict(la=2, one=0, rec=0)),
        (amb, None, [97, 97, 97], dict(one=1, cost=1, rec=0)),              # one parse + cost: all parses built internally
        (None, texts[0], [300, 43, 256], dict(rec=1)),
        (None, texts[1], [97, 97, 97], dict(one=0, rec=0)),
    ]
    # hundreds of terminals: the grammar-lifetime hash tables and vectors grow while the
    # definition is read (a failure in the middle of a growth step must leave them usable)
    nbig = 400
    bt = [('t%d' % j, 1000 + 3 * j) for j in range(nbig)]
    big = gen.Grammar(bt, [('S', 'l', 1, ['S', 'I'], [0, 1]), ('S', None, 0, ['I'], [0])] +
                      [('I', 'i%d' % j, 1, [bt[(37 * j) % nbig][0], bt[(91 * j + 5) % nbig][0]], [0, 1]) for j in range(12)], True)
    plans.append((big, None, [bt[0][1], bt[5][1], bt[37][1], bt[96][1]], dict(rec=0)))
    # hundreds of situations: the per-parse vectors indexed by situation number grow during the parse
    nalt = 130
    many = gen.Grammar([('a', 97)], [('S', None, 0, ['X%d' % j], [0]) for j in range(nalt)] + [('X%d' % j, 'x', 1, ['a'], [0]) for j in range(nalt)], True)
    plans.append((many, None, [97], dict(rec=0)))
    # a long input with abstract nodes everywhere: make_parse requests memory (segments of its state stack)
    # long after the first nodes of the tree exist
    plans.append((fixed, None, [97] + [43, 97] * 40, dict(rec=0)))
    plans.append((amb, None, [97] * 14, dict(one=0, rec=0)))
    nrand = 10 if tier == 'thorough' else 2
    for _ in range(nrand):
        g = gen.gen_grammar(r, err_prob=0.4)
        ins = gen.gen_inputs(r, g, 1, 7)[0]
        plans.append((g, None, [g.code(t) for t in ins], dict(rec=r.choice([0, 1]), one=r.choice([0, 1]), cost=r.choice([0, 1]), la=r.choice([0, 1, 2]))))
    # the default tree allocator (parse_alloc == NULL): its requests are internal requests too
    plans.append((amb, None, [97, 97, 97], dict(one=0, rec=0, alloc='null')))
    plans.append((fixed, None, [97, 43, 97], dict(rec=1, alloc='null')))
    for idx, (g, text, toks, cfg) in enumerate(plans):
        lines = ['case F%d-%d fault' % (seed, idx)]
        if g is not None: lines += g.text(0)
        else:
            lines += fixed.text(0)
            lines.append('text 0 %s' % text.hex())
        # the bystander of description scenarios is defined through a description too (second
        # yaep_parse_grammar call of the process is the one that fails)
        ops = ['create 1', 'def 1 0' if g is not None else 'descr 1 0 1', 'create 0']
        ops.append('def 0 0' if g is not None else 'descr 0 0 1')
        for k, v in cfg.items():
            if k != 'alloc': ops.append('set 0 %s %d' % (k, v))
        al = cfg.get('alloc', 'user')
        ops.append('parse 0 %s %s 0 %s' % (al, al, ' '.join(map(str, toks))))
        scen.append((lines, ops))
    return scen


def run_c17(pid, P, tier, seed):
    """fail the k-th internal allocation of create / define / parse for every k (exhaustive in k
    in the thorough tier, strided sample in the quick tier)"""
    scen = fault_scenarios(seed, tier)
    failures = []; cov = dict(evaluations=0, distinct_nontrivial=0, rule=P['rule'], samples=[], verdicts={}, scenarios=[])
    vcount = Counter()
    for flavour in P.get('flavours', ['c']):
        # 1. fault-free runs: allocations per op
        base = []
        # flavour `c-fi`: the malloc of parse_alloc_default fails too; only the scenarios that use it
        scen_f = [(l, o) for l, o in scen if any(' null null ' in x for x in o)] if flavour.endswith('-fi') else \
                 [(l, o) for l, o in scen if not any(' null null ' in x for x in o)]
        for lines, ops in scen_f:
            c = list(lines) + ['op %d %s' % (i + 1, o) for i, o in enumerate(ops)] + ['op %d free 0' % (len(ops) + 1), 'op %d free 1' % (len(ops) + 2), 'end']
            base.append(c)
        res = pipeline.run_cases(base, flavour)
        variants = []
        for (lines, ops), c in zip(scen_f, base):
            cid = c[0].split()[1]
            obs = res.obs.get(cid, [])
            allocs = {}
            for l in obs:
                w = l.split()
                if len(w) > 3 and w[0] == 'o' and w[2] == 'lib':
                    kvs = dict(x.split('=') for x in w[3:] if '=' in x)
                    allocs[int(w[1])] = int(kvs.get('allocs', 0))
            prev = 0; per = {}
            for i in range(1, len(ops) + 1):
                a = allocs.get(i, prev); per[i] = a - prev; prev = a
            info = dict(case=cid, flavour=flavour, ops={})
            tl = [l for l in lines if l.startswith('term ')]
            bystander_tok = tl[0].split()[2] if tl else '97'
            for i, o in enumerate(ops, 1):
                kind = o.split()[0]
                if kind not in ('create', 'def', 'descr', 'parse') or o.split()[1] != '0': continue
                if kind == 'create' and flavour == 'cxx': continue      # a C++ constructor cannot return NULL
                n = per[i]
                ks = list(range(1, n + 1))
                if tier != 'thorough' and n > 1000:
                    stride = max(1, n // 300)
                    ks = sorted(set(ks[::stride] + ks[:10] + ks[-10:]))
                info['ops'][o.split()[0]] = dict(allocations=n, injected=len(ks))
                for k in ks:
                    v = list(lines)
                    v[0] = 'case %s-%s%d-k%d fault' % (cid, kind, i, k)
                    vo = ops[:i - 1] + ['failat 0 %d' % k, ops[i - 1]]
                    if kind != 'create' or True:
                        vo += ['err 0'] if kind != 'create' else []
                    if (k % 3 == 2 or os.environ.get('VERIF_C17_REPARSE')) and kind == 'parse':
                        # the object stays defined after a failed parse: parse again, twice
                        vo += [ops[i - 1], ops[i - 1], 'err 0']
                        # ... and release their trees: every block must be one of that parse (C13)
                        nslot = sum(1 for x in ops[:i] if x.split()[0] == 'parse' and x.split()[1] == '0')
                        vo += ['freetree 0 %d 1' % (nslot + 1), 'freetree 0 %d 1' % nslot]
                    elif k % 2 == 0 and kind != 'create':
                        # the same object is defined again and used: it must behave like a fresh one
                        redo = [x for x in ops if x.split()[0] in ('def', 'descr', 'parse') and x.split()[1] == '0']
                        vo += redo + ['err 0']
                        # read every setting back: a failed call must not have changed any
                        vo += ['set 0 %s %d' % (kk, vv) for kk, vv in (('one', 1), ('cost', 0), ('la', 1), ('rec', 1), ('match', 3), ('debug', 0))]
                    vo += ['free 0', 'set 1 rec 0', 'parse 1 user user 0 %s' % bystander_tok, 'err 1', 'free 1']
                    v += ['op %d %s' % (j + 1, x) for j, x in enumerate(vo)] + ['end']
                    variants.append(v)
            cov['scenarios'].append(info)
        res2 = pipeline.run_cases(variants, flavour)
        cov['evaluations'] += len(variants)
        if not cov['samples'] and variants: cov['samples'] = [variants[len(variants) // 2]]
        fired_cases = set()
        for v in res2.verdicts:
            if v.prop == 'C14' and not v.ok:
                vcount['%s leaked-after-failure cases (not judged)' % flavour] += 1
                continue
            if v.prop == 'C17' or v.prop == 'C12' or (v.prop in ('C15', 'C14', 'C10', 'C01', 'C13') and v.kind == 'K'):
                vcount['%s %s %s %s' % (flavour, v.prop, v.kind, 'ok' if v.ok else 'bad')] += 1
                if v.prop == 'C17' and 'under allocation failure' in v.detail: fired_cases.add(v.case)
                if not v.ok:
                    failures.append(dict(prop=v.prop, kind='K', case=v.case, op=v.op, detail='[%s] %s' % (flavour, v.detail),
                                         context=res2.stats.get(v.case, []), replay_lines=res2.obs.get(v.case, [])))
        cov['distinct_nontrivial'] += len(fired_cases)
        vcount['%s injected failures that fired' % flavour] = len(fired_cases)
    cov['verdicts'] = dict(vcount)
    cov['flavours'] = P.get('flavours', ['c'])
    return dict(coverage=cov, failures=failures, search_note='')


PERF_DESCR = {
    'llist': "L : L ',' 'x' # l (0 2) | 'x' # 0 ;",
    'etf': "E : E '+' T # p (0 2) | T # 0 ; T : T '*' F # m (0 2) | F # 0 ; F : 'a' # 0 | '(' E ')' # 1 ;",
}


def perf_tokens(fam, n):
    if fam == 'llist': return '120 rep %d 2 44 120' % (n // 2)
    return 'rep %d 8 97 43 97 42 40 97 41 43 97' % (n // 8)


def perf_cases(tier, las=(0, 1, 2), hook=8, with_rec=False):
    import ansic
    sizes = [1000, 2000, 4000, 8000, 16000] + ([32000, 64000, 128000, 256000, 512000] if tier == 'thorough' else [])
    cases = []
    for fam, d in PERF_DESCR.items():
        for n in sizes:
            for la in las:
                cases.append(['case P-%s-%d-%d perf' % (fam, n, la), 'notree', 'quietev', 'text 0 %s' % d.encode().hex(),
                              'op 1 create 0', 'op 2 descr 0 0 1', 'op 3 set 0 rec 0', 'op 4 set 0 la %d' % la,
                              'op 5 parse 0 user user %d %s' % (hook, perf_tokens(fam, n)), 'op 6 free 0', 'end'])
            # building all parses / the minimal-cost parse uses further tables (parse states, visited nodes)
            if n <= 64000 and not with_rec:
                for cfgname, key in (('all', 'one 0'), ('cost', 'cost 1')):
                    cases.append(['case P-%s.%s-%d-1 perf' % (fam, cfgname, n), 'notree', 'quietev', 'text 0 %s' % d.encode().hex(),
                                  'op 1 create 0', 'op 2 descr 0 0 1', 'op 3 set 0 %s' % key, 'op 4 set 0 rec 0',
                                  'op 5 parse 0 user user %d %s' % (hook, perf_tokens(fam, n)), 'op 6 free 0', 'end'])
    if tier != 'thorough' and not with_rec:
        # growth policies of the containers show only on long inputs: one family, one level
        for n in (32000, 64000, 128000, 256000):
            cases.append(['case P-llist.long-%d-1 perf' % n, 'notree', 'quietev', 'text 0 %s' % PERF_DESCR['llist'].encode().hex(),
                          'op 1 create 0', 'op 2 descr 0 0 1', 'op 3 set 0 rec 0', 'op 4 set 0 la 1',
                          'op 5 parse 0 user user %d %s' % (hook, perf_tokens('llist', n)), 'op 6 free 0', 'end'])
    d = ansic.description(); t = ansic.tokens()
    asizes = [1000, 2000, 4000, 8000, 16000, 32000] + ([64000, 128000, 256000, 512000] if tier == 'thorough' else [])
    for n in asizes:
        toks = (t * (n // len(t) + 1))[:n] if n > len(t) else t[:n]
        for la in las:
            cases.append(['case P-ansic-%d-%d perf' % (n, la), 'notree', 'quietev', 'text 0 %s' % d.encode().hex(),
                          'op 1 create 0', 'op 2 descr 0 0 1', 'op 3 set 0 rec 0', 'op 4 set 0 la %d' % la,
                          'op 5 parse 0 user user %d %s' % (hook, ' '.join(map(str, toks))), 'op 6 free 0', 'end'])
    return cases


def perf_rows(res):
    rows = {}
    for cid, obs in res.obs.items():
        m = {}; prevbytes = 0
        for l in obs:
            w = l.split()
            if l.startswith('o 4 lib'): prevbytes = int(dict(x.split('=') for x in w[3:]).get('bytes', 0))
            elif l.startswith('o 5 cntp'): m.update({'p' + k: int(v) for k, v in (x.split('=') for x in w[3:])})
            elif l.startswith('o 5 cnt'): m.update({k: int(v) for k, v in (x.split('=') for x in w[3:])})
            elif l.startswith('o 5 lib'): m['bytes'] = int(dict(x.split('=') for x in w[3:]).get('bytes', 0)) - prevbytes
            elif l.startswith('o 5 parse'): m['rc'] = w[3]
            elif l.startswith('o crash'): m['crash'] = l
        rows[cid] = m
    return rows


# calibrated on the unchanged tree (max observed: bytes 2.15, searches 2.93, sits 1.4, cores 2.1, sets 2.0)
PERF_LIMITS = dict(bytes=2.6, searches=3.5, psearches=3.5, sits=1.7, cores=2.6, sets=2.2, dists=2.2, triples=2.2)


def run_c18(pid, P, tier, seed):
    cases = perf_cases(tier)
    failures = []; vcount = Counter()
    cov = dict(evaluations=0, distinct_nontrivial=0, rule=P['rule'], samples=[], verdicts={}, measurements={})
    for flavour in P.get('flavours', ['c']):
        res = pipeline.run_cases(cases, flavour, timeout=600)
        rows = perf_rows(res)
        cov['evaluations'] += len(cases)
        groups = {}
        for cid, m in rows.items():
            _, fam, n, la = cid.split('-')
            groups.setdefault((fam, int(la)), {})[int(n)] = m
            if 'crash' in m or m.get('rc') != 'rc=0' or 'toks' not in m:
                failures.append(dict(prop=pid, kind='K', case=cid, op='5', detail='[%s] parse failed: %s' % (flavour, m), context=[], replay_lines=res.obs.get(cid, [])[:12]))
        for (fam, la), byn in sorted(groups.items()):
            ns = sorted(byn)
            cov['measurements']['%s/%s/la%d' % (flavour, fam, la)] = {str(n): {k: byn[n].get(k) for k in ('bytes', 'searches', 'collisions', 'psearches', 'pcollisions', 'sits', 'cores', 'sets', 'gotos')} for n in ns}
            for a, b in zip(ns, ns[1:]):
                if b != 2 * a or 'toks' not in byn[a] or 'toks' not in byn[b]: continue
                cov['distinct_nontrivial'] += 1
                for metric, lim in PERF_LIMITS.items():
                    x, y = byn[a].get(metric, 0), byn[b].get(metric, 0)
                    ok = y <= lim * x + 64
                    vcount['%s %s' % (metric, 'ok' if ok else 'bad')] += 1
                    if not ok:
                        failures.append(dict(prop=pid, kind='K', case='P-%s-%d-%d' % (fam, b, la), op='5',
                                             detail='[%s] %s grows by %.2f when the input doubles (%d -> %d tokens: %d -> %d), limit %.1f' % (flavour, metric, y / max(1, x), a, b, x, y, lim),
                                             context=[], replay_lines=res.obs.get('P-%s-%d-%d' % (fam, b, la), [])[:12]))
                # hash collisions: on the unchanged tree the number of collisions per search settles
                # around 1 (max 1.6 up to 512k tokens; the steep growth at small n is warm-up of tables
                # sized for the input), so work in collisions is linear iff collisions <= c * searches
                for n_, (ks, kc) in [(n_, kk) for n_ in (a, b) for kk in (('searches', 'collisions'), ('psearches', 'pcollisions'))]:
                    # (p...: the same counters after the tree has been built)
                    x, y = byn[n_].get(ks, 0), byn[n_].get(kc, 0)
                    ok = y <= 4 * x + 1000
                    vcount['collisions-per-search %s' % ('ok' if ok else 'bad')] += 1
                    if not ok:
                        failures.append(dict(prop=pid, kind='K', case='P-%s-%d-%d' % (fam, n_, la), op='5',
                                             detail='[%s] %d hash collisions for %d searches at %d tokens (more than 4 per search)' % (flavour, y, x, n_),
                                             context=[], replay_lines=res.obs.get('P-%s-%d-%d' % (fam, n_, la), [])[:12]))
                # identical sets are found again rather than rebuilt: never more sets than tokens, cache hits do not shrink
                if byn[b].get('sets', 0) > byn[b].get('toks', 0) + 2:
                    failures.append(dict(prop=pid, kind='K', case='P-%s-%d-%d' % (fam, b, la), op='5', detail='[%s] more unique sets than tokens: %s' % (flavour, byn[b]), context=[], replay_lines=[]))
                if fam == 'ansic' and byn[b].get('gotos', 0) < byn[a].get('gotos', 0):
                    failures.append(dict(prop=pid, kind='K', case='P-%s-%d-%d' % (fam, b, la), op='5', detail='[%s] goto cache hits shrink with longer input: %s -> %s' % (flavour, byn[a].get('gotos'), byn[b].get('gotos')), context=[], replay_lines=[]))
        if not cov['samples']: cov['samples'] = [[l[:200] for l in cases[0]]]
        # identical sets are found again rather than rebuilt: the numbers of unique cores, distance
        # vectors and sets equal those of the Lean model of set_insert (Model/BuildSet.lean)
        pc = gen.gen_parse_cases(seed + 11, 3000 if tier == 'thorough' else 300, 'C01')
        res = pipeline.run_cases(pc, flavour)
        cov['evaluations'] += len(pc)
        for v in res.verdicts:
            if v.prop != 'C18': continue
            vcount['unique cores/vectors/sets = model %s' % ('ok' if v.ok else 'bad')] += 1
            if not v.ok:
                failures.append(dict(prop=pid, kind='D', case=v.case, op=v.op, detail='[%s] %s' % (flavour, v.detail), context=[], replay_lines=res.obs.get(v.case, [])))
    cov['verdicts'] = dict(vcount)
    cov['flavours'] = P.get('flavours', ['c'])
    return dict(coverage=cov, failures=failures, search_note='')



def recsave_tie():
    """C07, deep tie of Model/RecoverySave.lean (lazy save / restore of the parser list during error
    recovery): the library built from the current tree runs 8 recovering parses at debug level 3; the
    Save / Restore / Set-recovery-state lines it prints must be exactly the events the Lean model
    produces for the same operation sequence, and the sequence must satisfy the proved `protocol`
    (tools/recsave: the trace becomes `#guard`s, elaborated here).  Returns a list of D failures."""
    import subprocess
    out = os.path.join(build.WORK, 'recsave', 'RecoverySaveLibNow.lean')
    env = dict(os.environ, RECSAVE_OUT=out, VERIF_REPO=build.REPO)
    fail = lambda d: [dict(prop='C07', kind='D', case='recsave', op='0', detail=d, context=[], replay_lines=[])]
    p = subprocess.run(['sh', os.path.join(build.VERIF, 'tools', 'recsave', 'run.sh')], env=env, capture_output=True, text=True)
    if p.returncode != 0 or not os.path.exists(out):
        return fail('recovery trace of the library could not be produced: ' + (p.stdout + p.stderr)[-600:])
    n = open(out).read().count('#guard')
    if n < 12:
        return fail('only %d recoveries found in the debug trace of the library (12 expected)' % n)
    q = subprocess.run(['lake', 'env', 'lean', out], cwd=build.LEAN, capture_output=True, text=True)
    if q.returncode != 0:
        return fail('save / restore events of the library differ from Model/RecoverySave.lean (or the protocol is violated): ' + (q.stdout + q.stderr)[-1200:])
    return []

def long_c09_cases(seed, tier):
    """long inputs with many repeated fragments (ANSI C on real C code, E/T/F), with and without
    syntax errors, each parsed at all lookahead levels and two debug levels on one object"""
    import ansic
    r = random.Random(seed)
    d = ansic.description(); t = ansic.tokens()
    cases = []
    sizes = [1500, 6000] + ([30000, 75000] if tier == 'thorough' else [])
    for n in sizes:
        for variant in ('clean', 'errors'):
            start = r.randrange(0, max(1, len(t) - n)) if n < len(t) else 0
            toks = list(t[:n])
            if variant == 'errors':
                for _ in range(3):
                    k = r.randrange(len(toks)); toks[k] = r.choice([59, 1000, 125, 40])
            c = ['case L-ansic-%d-%s long' % (n, variant), 'notree', 'quietev', 'text 0 %s' % d.encode().hex(), 'op 1 create 0', 'op 2 descr 0 0 1']
            k = 2
            for rec in ((0, 1) if variant == 'errors' and n <= 6000 else (0,)):
                for la, dbg in ((0, 0), (1, 0), (2, 0), (1, 1)):
                    for what, v in (('rec', rec), ('la', la), ('debug', dbg)):
                        k += 1; c.append('op %d set 0 %s %d' % (k, what, v))
                    k += 1; c.append('op %d parse 0 user user 12 %s' % (k, ' '.join(map(str, toks))))
            # dynamic-lookahead contexts are numbered per grammar and survive between parses, the
            # situation tables are rebuilt per parse: other inputs ask for them in another order
            for sl in (slice(n // 3, n // 3 + 400), slice(0, 200), slice(len(t) - 700, len(t) - 300), slice(5, 300)):
                for what, v in (('rec', 0), ('la', 2), ('debug', 0)):
                    k += 1; c.append('op %d set 0 %s %d' % (k, what, v))
                k += 1; c.append('op %d parse 0 user user 12 %s' % (k, ' '.join(map(str, t[sl]))))
            c += ['op %d free 0' % (k + 1), 'end']
            cases.append(c)
    for n in ([4000, 16000] + ([128000] if tier == 'thorough' else [])):
        c = ['case L-etf-%d long' % n, 'notree', 'quietev', 'text 0 %s' % PERF_DESCR['etf'].encode().hex(), 'op 1 create 0', 'op 2 descr 0 0 1', 'op 3 set 0 rec 0']
        k = 3
        for la in (0, 1, 2, 7):
            k += 1; c.append('op %d set 0 la %d' % (k, la))
            k += 1; c.append('op %d parse 0 user user 12 %s' % (k, perf_tokens('etf', n)))
        c += ['op %d free 0' % (k + 1), 'end']
        cases.append(c)
    # input lengths at the growth boundaries of the token array (10000 tokens, then factor 1.5): the append
    # that makes the array move is that of the last token or of the end marker
    c = ['case L-cap long', 'notree', 'quietev', 'text 0 %s' % "S : S 'a' # A (0 1) | # - ;".encode().hex(), 'op 1 create 0', 'op 2 descr 0 0 1', 'op 3 set 0 rec 0']
    k = 3
    for n in [9999, 10000, 10001, 15000, 15001, 22503] + ([33756, 50635] if tier == 'thorough' else []):
        k += 1; c.append('op %d set 0 la %d' % (k, r.choice([0, 1, 2])))
        k += 1; c.append('op %d parse 0 user user 12 rep %d 1 97' % (k, n))
    c += ['op %d free 0' % (k + 1), 'end']
    cases.append(c)
    # a recovery that walks the back frontier over more than 512 parser-list sets in many steps (the saved
    # original tail grows and moves): `error` is predicted before every statement, the closing ';' never comes
    fb = "P : P S # p (0 1) | # - ; S : 'x' ';' # s | error ';' # e ;"
    c = ['case L-farback long', 'notree', 'quietev', 'text 0 %s' % fb.encode().hex(), 'op 1 create 0', 'op 2 descr 0 0 1', 'op 3 set 0 rec 1']
    k = 3
    for n, la in ((300, 1), (520, 0), (700, 1), (1100, 2)):
        k += 1; c.append('op %d set 0 la %d' % (k, la))
        k += 1; c.append('op %d parse 0 user user 12 rep %d 2 120 59 120 120' % (k, n))
    c += ['op %d free 0' % (k + 1), 'end']
    cases.append(c)
    # deep right recursion and deep nesting: the parse-state stack of make_parse (10000 bytes at first) and the
    # recursion of the tree walkers go 1500-3000 levels down
    dd = "L : 'x' L # c (0 1) | 'x' # 0 | '(' L ')' # p (1) ;"
    c = ['case L-deep long', 'quietev', 'text 0 %s' % dd.encode().hex(), 'op 1 create 0', 'op 2 descr 0 0 1', 'op 3 set 0 rec 0']
    k = 3
    for toks, la, one, cost in (('rep 1500 1 120', 1, 1, 0), ('rep 1300 1 40 120 rep 1300 1 41', 0, 1, 0), ('rep 2600 1 120', 2, 0, 1)):
        for what, v in (('la', la), ('one', one), ('cost', cost)):
            k += 1; c.append('op %d set 0 %s %d' % (k, what, v))
        k += 1; c.append('op %d parse 0 user user 12 %s' % (k, toks))
    c += ['op %d free 0' % (k + 1), 'end']
    cases.append(c)
    # one nonterminal occurrence with more than 64 / 128 different origins (all parses, cost flag): the vector of
    # origin states of make_parse outgrows its first block while the candidates loop is running
    c = ['case L-amb long', 'notree', 'quietev', 'text 0 %s' % "S : S S # n (0 1) | 'a' # 0 ;".encode().hex(), 'op 1 create 0', 'op 2 descr 0 0 1', 'op 3 set 0 rec 0']
    k = 3
    for n, one, cost in ((66, 0, 0), (67, 0, 0), (80, 1, 1), (100, 0, 0)):
        for what, v in (('one', one), ('cost', cost)):
            k += 1; c.append('op %d set 0 %s %d' % (k, what, v))
        k += 1; c.append('op %d parse 0 user user 12 rep %d 1 97' % (k, n))
    c += ['op %d free 0' % (k + 1), 'end']
    cases.append(c)
    # more than 1000 recovery states pending at once (recovery_match larger than the input): the stack of
    # recovery states grows past 32 KiB and is popped down again
    rs = "P : # - | P S # p (0 1) ; S : 'a' ';' # s | error ';' # e ;"
    c = ['case L-recstack long', 'notree', 'quietev', 'text 0 %s' % rs.encode().hex(), 'op 1 create 0', 'op 2 descr 0 0 1', 'op 3 set 0 rec 1']
    k = 3
    for n, la in ((1100, 1), (1500, 0)):
        k += 1; c.append('op %d set 0 la %d' % (k, la))
        k += 1; c.append('op %d set 0 match %d' % (k, 2 * n + 10))
        k += 1; c.append('op %d parse 0 user user 12 97 97 59 rep %d 2 97 59' % (k, n))
    c += ['op %d free 0' % (k + 1), 'end']
    cases.append(c)
    return cases


def capacity_cases(seed, names=('L-cap', 'L-farback', 'L-deep', 'L-amb', 'L-recstack')):
    """the directed cases of long_c09_cases that take a container of the parser past a capacity"""
    return [c for c in long_c09_cases(seed, 'quick') if c[0].split()[1] in names]


def corpus_cases(pid, sub=''):
    out = []
    for p in sorted(glob.glob(os.path.join(CORPUS, sub, '*.txt'))):
        # `only-<pid>-*.txt`: expensive cases that run for that property only
        b = os.path.basename(p)
        if b.startswith('only-') and not b.startswith('only-%s-' % pid): continue
        lines = [l.rstrip('\n') for l in open(p) if not l.startswith('#')]
        out += pipeline.split_cases(lines)
    return out


def case_features(stats):
    feats = Counter()
    for s in stats:
        for tok in s.split():
            if '=' in tok:
                k, v = tok.split('=', 1)
                if k in ('sentence', 'la', 'one', 'cost', 'rec', 'rc', 'alt', 'modelRan'):
                    feats['%s=%s' % (k, v)] += 1
                if k == 'n':
                    feats['len=%s' % (v if v.isdigit() and int(v) < 8 else '8+')] += 1
                if k == 'derivations' and v.isdigit():
                    feats['derivations=%s' % ('1' if v == '1' else '2-4' if int(v) <= 4 else '5+')] += 1
        if s.startswith('trees skipped'): feats['trees-skipped'] += 1
        if s.startswith('setorder'): feats['step-model-' + s.replace(' ', '-')] += 1
        if s.startswith('recovery model gave up'): feats['recovery-gave-up'] += 1
    return feats


def run_property(pid, P, cases, tier, seed, replay=False, boost=1):
    if P.get('runner') and cases is None:
        return P['runner'](pid, P, tier, seed)
    tags = set(P['tags'])
    if cases is None:
        cases = corpus_cases(pid, 'containers' if P.get('kind') == 'containers' else '') + P['gen'](seed, tier)
        # a source tree that differs from the one the models were validated against: more seeds
        for extra in range(1, boost):
            more = P['gen'](seed + 7919 * extra, tier)
            have = set(c[0].split()[1] for c in cases)
            cases += [c for c in more if c[0].split()[1] not in have]
    failures = []
    cov = dict(evaluations=0, distinct_nontrivial=0, rule=P['rule'], samples=[], verdicts={}, features={})
    seen = set()
    feats = Counter()
    vcount = Counter()
    obs_by_flavour = {}

    def flt(l):
        # allocation counters legitimately differ between the C and the C++ containers
        if not l.startswith('o '): return True
        w = l.split()
        return not (len(w) > 2 and w[2] == 'lib') and not (len(w) > 1 and w[1] == 'end') and not l.startswith('o !')
    for flavour in P.get('flavours', ['c']):
        fcases = cases
        if flavour.endswith('-weak'):
            # all hash values collide: every lookup is a linear search, so only the small cases (the
            # judge runs the full model on them) take part
            # (a case whose plain run was already big - exponential forests, finding D31 - would need more
            # than 2^31 probes: the size of its plain observation stream is the measure)
            plain = obs_by_flavour.get(flavour[:-5], {})
            fcases = [c for c in cases if c[0].split()[-1] not in ('long', 'perf', 'hostile') and sum(len(l) for l in c) < 20000
                      and len(plain.get(c[0].split()[1], [])) < 5000]
        res = pipeline.run_cases(fcases, flavour, kind=P.get('kind', 'yaep'))
        bycase = {}
        obs_by_flavour[flavour] = res.obs
        for v in res.verdicts:
            relevant = v.prop in tags or (P.get('crash_counts') and v.prop == 'C12')
            if not relevant: continue
            vcount['%s %s %s' % (v.prop, v.kind, 'ok' if v.ok else 'bad')] += 1
            bycase.setdefault(v.case, []).append(v)
            if not v.ok:
                failures.append(dict(prop=v.prop, kind=v.kind, case=v.case, op=v.op, detail=v.detail,
                                     context=res.stats.get(v.case, []),
                                     replay_lines=res.obs.get(v.case, res.cases.get(v.case, []))))
        for cid, vs in bycase.items():
            h = hashlib.sha1('\n'.join(res.cases.get(cid, [cid])[1:]).encode()).hexdigest()
            if any(v.prop in tags for v in vs) and h not in seen:
                seen.add(h)
        for cid, st in res.stats.items():
            feats.update(case_features(st))
        cov['evaluations'] += len(fcases)
        if not cov['samples'] and cases:
            # one corpus case (past failure, runs first) and two generated ones
            cov['samples'] = [cases[0], cases[len(cases) // 2], cases[-1]] if len(cases) > 2 else list(cases)
    if P.get('compare_flavours') and len(obs_by_flavour) == 2:
        (fa, oa), (fb, ob) = list(obs_by_flavour.items())
        ndiff = 0; ncmp = 0
        for cid, la in oa.items():
            lb = ob.get(cid)
            if lb is None: continue
            ncmp += 1
            strip = lambda l: ' '.join(w for w in l.split(' ') if not w.startswith(('searches=', 'collisions=')))
            fa_l = [strip(l) for l in la if flt(l)]; fb_l = [strip(l) for l in lb if flt(l)]
            if fa_l != fb_l:
                ndiff += 1
                k = next((i for i in range(min(len(fa_l), len(fb_l))) if fa_l[i] != fb_l[i]), min(len(fa_l), len(fb_l)))
                failures.append(dict(prop=pid, kind='K', case=cid, op='0',
                                     detail='C and C++ observations differ at line %d: %s: %r || %s: %r' % (
                                         k, fa, fa_l[k] if k < len(fa_l) else '<end>', fb, fb_l[k] if k < len(fb_l) else '<end>'),
                                     context=[], replay_lines=la + ['# ---- ' + fb] + lb))
        vcount['%s K C-vs-C++ compared' % pid] = ncmp
        vcount['%s K C-vs-C++ differ' % pid] = ndiff
    cov['distinct_nontrivial'] = len(seen)
    cov['verdicts'] = dict(vcount)
    cov['features'] = dict(feats)
    cov['flavours'] = P.get('flavours', ['c'])
    # deep-tie only failures: search for a failing input with a larger budget
    note = ''
    if failures and not any(f['kind'] == 'K' for f in failures) and not replay:
        extra = []
        for s2 in range(3):
            extra += P['gen'](seed * 1000 + 17 + s2, tier)
        res = pipeline.run_cases(extra, P.get('flavours', ['c'])[0], kind=P.get('kind', 'yaep'))
        found = [v for v in res.verdicts if (v.prop in tags or v.prop == 'C12') and not v.ok and v.kind == 'K']
        note = 'searched %d more cases' % len(extra)
        for v in found[:3]:
            failures.append(dict(prop=v.prop, kind=v.kind, case=v.case, op=v.op, detail=v.detail, context=res.stats.get(v.case, []),
                                 replay_lines=res.obs.get(v.case, [])))
    return dict(coverage=cov, failures=failures, search_note=note)

PROPS['C17']['runner'] = run_c17
PROPS['C18']['runner'] = run_c18
