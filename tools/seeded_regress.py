#!/usr/bin/env python3
"""Re-run every seeded change of /verif/seeded against the checks that are recorded as catching
it (meta.json: check_result "caught by ./check Cxx").  Applies the patch to /repo, runs the
checks with their evidence redirected, undoes the patch.  Exit 1 if a change is no longer caught.
usage: seeded_regress.py [id...]"""
import json, os, re, subprocess, sys
HERE = os.path.dirname(os.path.dirname(os.path.abspath(__file__)))
REPO = os.environ.get('VERIF_REPO', '/repo')
env = dict(os.environ, VERIF_NOSHRINK='1', VERIF_EVIDENCE_DIR='/tmp/verif-seeded-evidence')
args = sys.argv[1:]
seeds = ['1']
if args and args[0].startswith('--seeds='):
    seeds = args.pop(0).split('=', 1)[1].split(',')
ids = args or sorted(os.listdir(os.path.join(HERE, 'seeded')))
bad = []
if subprocess.run(['git', '-C', REPO, 'status', '--porcelain', '--untracked-files=no'], stdout=subprocess.PIPE, text=True).stdout.strip():
    print('working tree of %s is not clean' % REPO); sys.exit(2)
for i in ids:
    d = os.path.join(HERE, 'seeded', i)
    meta = json.load(open(os.path.join(d, 'meta.json')))
    props = re.findall(r'caught by \./check (C\d\d)', meta.get('check_result', '')) or [meta['property']]
    patch = os.path.join(d, 'patch.diff')
    if subprocess.run(['git', '-C', REPO, 'apply', '--check', patch]).returncode != 0:
        print('%-7s STALE (patch does not apply)' % i); bad.append(i); continue
    subprocess.run(['git', '-C', REPO, 'apply', patch], check=True)
    try:
        res = []
        for p in dict.fromkeys(props):
          for sd in seeds:
            out = subprocess.run([os.path.join(HERE, 'check'), p, '--seed', sd], env=env, stdout=subprocess.PIPE, stderr=subprocess.STDOUT, text=True).stdout
            m = re.search(r'^VIOLATION.*$', out, re.M)
            n = re.search(r'in (\d+) cases\)', out)
            res.append((p + '@' + sd, bool(m), ('%s cases; ' % n.group(1) if n else '') + ((re.search(r'^  case.*$', out, re.M) or re.search(r'^  .*$', out, re.M) or [''])[0] if m else '')))
    finally:
        subprocess.run(['git', '-C', REPO, 'checkout', '--', '.'], check=True)
    ok = all(c for _, c, _ in res) if len(seeds) > 1 else any(c for _, c, _ in res)
    print('%-7s %s  %s' % (i, 'caught' if ok else 'MISSED', '; '.join('%s:%s%s' % (p, 'V' if c else 'ok', (' ' + t.strip()[:90]) if c else '') for p, c, t in res)), flush=True)
    if not ok: bad.append(i)
print('not caught:', bad)
sys.exit(1 if bad else 0)
