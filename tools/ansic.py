#!/usr/bin/env python3
"""The ANSI C grammar shipped with the tests (description string of test/C/test41.c) and the
token codes of test/test.i obtained with the repo's own flex lexer (test/ansic.l)."""
import os, re, subprocess, sys, hashlib
sys.path.insert(0, os.path.dirname(os.path.abspath(__file__)))
import build

DUMPER = r'''
#include <stdio.h>
int column = 0; int line = 1;
#include "ansic.c"
int main (int argc, char **argv)
{
  int c;
  yyin = fopen (argv[1], "r");
  if (!yyin) return 2;
  yyout = fopen ("/dev/null", "w");
  while ((c = yylex ()) > 0) printf ("%d\n", c);
  return 0;
}
'''


def description():
    src = open(os.path.join(build.REPO, 'test', 'C', 'test41.c')).read()
    i = src.index('static const char *description =')
    j = src.index(';\n', i)
    body = src[i:j]
    parts = re.findall(r'"((?:[^"\\]|\\.)*)"', body)
    text = ''.join(parts)
    text = text.replace('\\n', '\n').replace('\\t', '\t').replace('\\"', '"').replace("\\'", "'").replace('\\\\', '\\')
    return text


def tokens():
    tdir = os.path.join(build.REPO, 'test')
    srcs = [os.path.join(tdir, 'ansic.l'), os.path.join(tdir, 'ansic.h'), os.path.join(tdir, 'test.i')]
    key = build._hash_files(srcs, 'ansic-tokens')
    out = os.path.join(build.WORK, 'ansic-%s' % key)
    tokfile = os.path.join(out, 'tokens.txt')
    if not os.path.exists(tokfile):
        os.makedirs(out, exist_ok=True)
        build._run(['flex', '-o', os.path.join(out, 'ansic.c'), srcs[0]])
        open(os.path.join(out, 'dump.c'), 'w').write(DUMPER)
        build._run(['gcc', '-w', '-O1', '-I' + tdir, '-I' + out, '-o', os.path.join(out, 'dump'), os.path.join(out, 'dump.c')])
        p = subprocess.run([os.path.join(out, 'dump'), srcs[2]], stdout=subprocess.PIPE, text=True)
        open(tokfile, 'w').write(p.stdout)
    return [int(x) for x in open(tokfile).read().split()]


if __name__ == '__main__':
    d = description(); t = tokens()
    print(len(d), 'bytes of description;', len(t), 'tokens; first', t[:20])
