#!/usr/bin/env python3
"""Seeded case generation (DESIGN.md 4.4).  Every random choice comes from one
random.Random(seed); a case file replays exactly.

The Python port of the definition checks below (`py_check`) is used ONLY to steer generation
towards mostly-valid grammars; it is never used as an oracle (the Lean model is).
"""
import os, random, re, sys

NIL = 2 ** 31 - 1


def py_check(terms, rules, strict):
    symt = {}
    codes = set()
    for name, code in terms:
        if code < 0: return 6
        if name in symt: return 5
        if code in codes: return 7
        symt[name] = 't'; codes.add(code)
    if 'error' in symt: return 4
    symt['error'] = 't'
    start = None; R = []
    for (lhs, anode, cost, rhs, tr) in rules:
        if lhs in ('$S', '$eof') or any(x in ('$S', '$eof') for x in rhs): return 4
        if lhs not in symt: symt[lhs] = 'n'
        elif symt[lhs] == 't': return 9
        if anode is None and tr is not None and len(tr) >= 2: return 10
        if anode is not None and cost < 0: return 11
        if start is None:
            start = lhs
            symt['$S'] = 'n'; symt['$eof'] = 't'
            R.append(('$S', [lhs, '$eof']))
        for s in rhs:
            if s not in symt: symt[s] = 'n'
        R.append((lhs, list(rhs)))
        if tr is not None:
            seen = set()
            for el in tr:
                if el >= len(rhs):
                    if el != NIL: return 12
                elif el in seen: return 13
                else: seen.add(el)
    if start is None: return 8
    if not any(l == start and r[:1] == ['error'] for l, r in R): R.append(('$S', ['error', '$eof']))
    nts = [s for s, v in symt.items() if v == 'n']
    empty = set(); deriv = set(s for s, v in symt.items() if v == 't'); access = {'$S'}
    ch = True
    while ch:
        ch = False
        for l, r in R:
            if l in access:
                for s in r:
                    if s not in access: access.add(s); ch = True
            if l not in empty and all(s in empty for s in r): empty.add(l); ch = True
            if l not in deriv and all(s in deriv for s in r): deriv.add(l); ch = True
    if strict:
        for n in nts:
            if n not in deriv: return 15
            if n not in access: return 14
    elif start not in deriv: return 15
    edges = {n: set() for n in nts}
    for l, r in R:
        for i, s in enumerate(r):
            if symt[s] == 'n' and all(x in empty for j, x in enumerate(r) if j != i): edges[l].add(s)
    alive = set(b for l in edges for b in edges[l])
    ch = True
    while ch:
        ch = False
        for n in list(alive):
            if not (edges[n] & alive): alive.discard(n); ch = True
    if alive: return 16
    return 0


class Grammar:
    def __init__(self, terms, rules, strict):
        self.terms = terms      # [(name, code)]
        self.rules = rules      # [(lhs, anode|None, cost, rhs[], transl|None)]
        self.strict = strict

    def text(self, gid=0):
        out = ['gram %d %d' % (gid, 1 if self.strict else 0)]
        for n, c in self.terms:
            out.append('term %s %d' % (n, c))
        for (lhs, anode, cost, rhs, tr) in self.rules:
            trs = 'X' if tr is None else ('%d %s' % (len(tr), ' '.join('N' if e == NIL else str(e) for e in tr))).strip()
            out.append(('rule %s %s %d %d %s / %s' % (lhs, anode or '-', cost, len(rhs), ' '.join(rhs), trs)).replace('  ', ' '))
        out.append('endgram')
        return out

    def nts(self):
        tn = set(n for n, _ in self.terms) | {'error'}
        seen = []
        for (lhs, _, _, rhs, _) in self.rules:
            for s in [lhs] + list(rhs):
                if s not in tn and s not in seen: seen.append(s)
        return seen

    def code(self, name):
        for n, c in self.terms:
            if n == name: return c
        return None


CODE_STYLES = ['dense', 'dense', 'ascii', 'gaps', 'sparse']


def gen_terms(r, k, style=None):
    style = style or r.choice(CODE_STYLES)
    names = ['a', 'b', 'c', 'd', 'e', 'f', 'g', 'h'][:k]
    if style == 'dense': codes = list(range(0, k)) if r.random() < 0.3 else list(range(97, 97 + k))
    elif style == 'ascii': codes = [ord(n) for n in names]
    elif style == 'gaps': codes = sorted(r.sample(range(1, 40), k))
    else: codes = sorted(r.sample([3, 300, 20000, 70000, 1000000, 5, 17, 4242] + ([2147483647, 2147483646] if r.random() < 0.2 else []), k))
    return list(zip(names, codes))


def gen_transl(r, n, names, lhs):
    """returns (anode, cost, transl)"""
    x = r.random()
    if x < 0.55:
        idx = list(range(n)); r.shuffle(idx); idx = idx[:r.randint(0, n)]
        sl = list(idx)
        for _ in range(r.choice([0, 0, 1, 2])):
            sl.insert(r.randint(0, len(sl)), NIL)
        return ('@empty' if r.random() < 0.03 else next(names) + lhs.lower(), r.choice([0, 1, 1, 2, 3, 5]), sl)
    if x < 0.8 and n > 0:
        return (None, 0, [r.randrange(n)])
    if x < 0.88:
        return (None, 0, [])
    if x < 0.93:
        return (None, 0, [NIL])
    return (None, 0, None)


CLASSIC = [
    # (rules 'lhs : alt | alt ;; lhs : ...', terminals) -- the shapes of the shipped tests and of textbooks
    ("E : E + T | T ;; T : T * F | F ;; F : a | ( E )", "a+*()"),
    ("E : E + E | E * E | a | ( E )", "a+*()"),
    ("E : T R ;; R : + T R | ;; T : F Q ;; Q : * F Q | ;; F : a | ( E )", "a+*()"),
    ("P : P S | S ;; S : a = E ; | error ; | { P } ;; E : E + a | a", "a=;+{}"),
    ("P : S P | ;; S : a ; | error ; | { P }", "a;{}"),
    ("S : i E t S | i E t S e S | a ;; E : b", "ietab"),
    ("S : a S b | ", "ab"),
    ("S : a S a | b S b | a | b | ", "ab"),
    ("S : S S | ( S ) | ", "()"),
    ("L : L , x | x", "x,"),
    ("L : x , L | x", "x,"),
    ("S : A B ;; A : a A | ;; B : b B | b", "ab"),
    ("S : A S | a ;; A : | a", "a"),
    ("S : ( S ) | a | error", "()a"),
    ("D : T V ; | D T V ; ;; T : i | c | T * ;; V : x | V , x | V [ n ] | error", "ic*x,[n];"),
    ("S : x A A ;; A : | a | a A", "xa"),
]


# nested `error` alternatives: several recoveries compete (different back positions, costs one
# token apart, an earlier recovery's error set behind a later error)
CLASSIC_ERR = [
    ("S : ( X ) ;; X : a Y | error d x e ;; Y : b c | error e", "()adxebc"),
    ("S : a M | error q ;; M : b N | error p ;; N : c d | error r", "abcdqpr"),
    ("S : a b c d e | error b c d e", "abcde"),
    ("P : P S | S ;; S : i ( E ) S | a ; | error ; | error ) ;; E : a | E + a | error", "i()a;+"),
    ("S : B e | error e ;; B : b B | c | error c", "bce"),
    ("S : L ;; L : L I | I ;; I : a b c | a error c | error c | ( L )", "abc()"),
]


def gen_classic_grammar(r, with_transl=True, err=False):
    spec, ts = r.choice(CLASSIC_ERR if err else CLASSIC)
    tn = {}
    terms = []
    for i, ch in enumerate(ts):
        name = ch if ch.isalnum() else {'+': 'plus', '*': 'star', '(': 'lp', ')': 'rp', '=': 'eq', ';': 'semi', '{': 'lb', '}': 'rb',
                                        ',': 'comma', '[': 'lsq', ']': 'rsq'}[ch]
        tn[ch] = name
        terms.append((name, ord(ch) if r.random() < 0.7 else 300 + 7 * i))
    names = iter('pqrstuvwxyz' * 6)
    rules = []
    for part in spec.split(' ;; '):
        part = part.strip()
        if not part: continue
        lhs, rhs_all = part.split(' : ', 1) if ' : ' in part else (part.rstrip(' :').strip(), '')
        for alt in rhs_all.split('|'):
            syms = alt.split()
            rhs = []
            for x in syms:
                if x == 'error': rhs.append('error')
                elif x in tn: rhs.append(tn[x])
                else: rhs.append(x)
            if with_transl: an, cost, tr = gen_transl(r, len(rhs), names, lhs)
            else: an, cost, tr = None, 0, None
            rules.append((lhs.strip(), an, cost, rhs, tr))
    for st in (True, False):
        if py_check(terms, rules, st) == 0: return Grammar(terms, rules, st)
    return None


def gen_structured_grammar(r, with_transl=True, kind=None):
    """grammar families whose analysis / forest has a particular structure that random rules
    rarely produce"""
    names = iter('pqrstuvwxyz' * 6)
    if kind == 'err-alts':
        return gen_err_alts(r)
    kind = kind or r.choice(['follow-chain', 'follow-chain', 'shared-alts', 'shared-alts', 'first-chain', 'nullable-prefix', 'nullable-prefix',
                     'stmt-list', 'stmt-list', 'twice', 'twice', 'recov-race', 'recov-race', 'core-share', 'core-share', 'recov-nest', 'recov-nest', 'passthru-split', 'passthru-split', 'nullable-tail', 'nullable-tail', 'recov-embed', 'null-chain', 'null-chain', 'recov-cache'])
    inputs_fn = None
    tn = ['a', 'b', 'c', 'd', 'e']
    terms = gen_terms(r, 5)
    rules = []
    if kind in ('follow-chain', 'first-chain'):
        # FOLLOW(C) must receive FIRST of a nonterminal whose FIRST set converges slowly
        # (unit chain), through a rule `X : A B` with C at the end of A; symbol numbering varies
        k = r.randint(2, 4)
        chain = ['B'] + ['D%d' % i for i in range(k)]
        body = [('S', ['A', 'd', 'X']), ('X', ['A', 'B']), ('A', ['a', 'C']), ('C', ['c'])]
        links = [(x, [y]) for x, y in zip(chain, chain[1:])] + [(chain[-1], ['b'])]
        if r.random() < 0.5: links = links[::-1]
        if kind == 'first-chain': body[1] = ('X', ['B', 'A'])
        if r.random() < 0.4: body.append(('C', []))
        if r.random() < 0.3: body.append(('A', ['a']))
        order = r.random()
        rules = body + links if order < 0.4 else links + body if order < 0.7 else body[:2] + links + body[2:]
        if rules[0][0] != 'S': rules = [x for x in rules if x[0] == 'S'] + [x for x in rules if x[0] != 'S']
    elif kind == 'stmt-list':
        # a list of statements of several kinds that share a middle constituent and differ in the
        # first token and in the length of the tail: the same (set, token, lookahead) recurs with
        # different origins of a few start situations (goto sets reused from a cache must be
        # recomputed here), and the same core is reached with different distance vectors
        terms = gen_terms(r, 7)
        p, q, c1, c2, x, z, sep = [n for n, _ in terms]
        rules = [('S', ['L']), ('L', ['E', sep, 'L']), ('L', []), ('E', [p, 'M', x]), ('E', [q, 'M', x, z]), ('M', [c1, c2])]
        if r.random() < 0.4: rules.append(('E', [p, 'M', z]))
        if r.random() < 0.3: rules.append(('M', [c1]))
        if r.random() < 0.3: rules += [('M', ['N', c2, c2]), ('N', [c1])]
        if r.random() < 0.3: rules[1] = ('L', ['L', 'E', sep])
        if r.random() < 0.3: rules.append(('E', ['error']))
        if r.random() < 0.4:
            # the shared constituent ends in a nullable nonterminal: a start situation with the dot
            # before it completes too (empty tail), so its origin set matters for a cached goto set
            rules[5] = ('M', [c1, c2, 'B']); rules += [('B', []), ('B', [z])]
        stm = [rh for l, rh in rules if l == 'E' and rh != ['error']]
        mid = [rh for l, rh in rules if l == 'M']
        def expand(rh, r):
            out = []
            for y in rh:
                if y == 'M': out += expand(r.choice(mid), r)
                elif y == 'N': out.append(c1)
                elif y == 'B': out += r.choice([[], [], [z]])
                else: out.append(y)
            return out
        def inputs_fn(r, tn):
            toks = []
            for _ in range(r.randint(3, 7)): toks += expand(r.choice(stm), r) + [sep]
            return mutate(r, toks, tn) if r.random() < 0.3 else toks
    elif kind == 'recov-race':
        # two recoveries compete: the inner `error` rule needs p tokens skipped, the outer one m
        # list elements backed over; p - m in {-1, 0, 1, 2}: the cheaper one must win whatever
        # the order in which the search meets them
        terms = gen_terms(r, 8)
        lp, rp, a, b, c, d, e, f = [n for n, _ in terms]
        m = r.randint(1, 2); w = [d, e, f, d][:r.randint(3, 4)]
        pskip = max(1, min(len(w) - 1, m + r.choice([-1, 0, 1, 1, 2])))
        rules = [('S', [lp, 'X', rp]), ('X', [a] * m + ['Y']), ('X', ['error'] + w), ('Y', [b, c]), ('Y', ['error'] + w[pskip:])]
        if r.random() < 0.3: rules.append(('Y', [b, 'error']))
        if r.random() < 0.3: rules[0] = ('S', [lp, 'X', rp, 'S']); rules.append(('S', []))
        base = [lp] + [a] * m + w + [rp]
        def inputs_fn(r, tn, base=base):
            t = list(base)
            if r.random() < 0.3: t = t + t if rules[0][1][-1] == 'S' else t
            return mutate(r, t, tn) if r.random() < 0.25 else t
    elif kind == 'recov-nest':
        # nested `error` contexts behind the error token, far from the start of the input: the
        # nearest one recovers early but expensively (forward skipping), one further back is
        # cheaper, set 0 is the most expensive; the search must try every pushed state
        terms = gen_terms(r, 8)
        hh, t0, t1, t2, u0, u1, u2, d = [n for n, _ in terms]
        depth = r.randint(2, 3); npre = r.randint(0, 5)
        ts = [t0, t1, t2][:depth]; us = [u0, u1, u2][:depth]; ks = [r.randint(1, 3) for _ in range(depth)]
        rules = [('S', [hh] * npre + ['L0'])]
        for i in range(depth):
            inner = 'L%d' % (i + 1) if i + 1 < depth else 'D'
            rules += [('L%d' % i, [ts[i], inner, us[i]]), ('L%d' % i, [ts[i], 'error'] + [us[i]] * ks[i])]
        rules.append(('D', [d]))
        if r.random() < 0.3: rules.append(('D', []))
        def inputs_fn(r, tn):
            t = [hh] * npre + ts[:r.randint(1, depth)]
            if r.random() < 0.3: t.append(d)
            for _ in range(r.randint(1, 3)):
                i = r.randrange(depth); t += [us[i]] * r.choice([ks[i], ks[i], 1, ks[i] + 1])
            return t[:16]
    elif kind == 'passthru-split':
        # an abstract node whose child at index >= 1 is a pass-through nonterminal (`P : E # 0`)
        # derived by an abstract-node rule with a split ambiguity (`E : E + E`): the copies made
        # for other origins must land in the right slot of the node above the pass-through rule
        terms = gen_terms(r, 5)
        x, a, plus, y, q = [n for n, _ in terms]
        npass = r.randint(1, 2)
        chain = ['P%d' % i for i in range(npass)] + ['E']
        kids = r.choice([['X', 'P0'], ['X', 'P0'], ['X', 'X', 'P0'], ['X', 'P0', 'Y'], ['P0', 'X', 'P0']])
        rules = [('S', 's', r.choice([0, 1]), kids, list(range(len(kids)))),
                 ('X', 'big', r.choice([0, 1, 5, 10]), [x], [0]), ('Y', None, 0, [y], [0]), ('Y', None, 0, [], None)]
        for u, v in zip(chain, chain[1:]): rules.append((u, None, 0, [v], [0]))
        rules += [('E', 'plus', r.choice([0, 1, 2]), ['E', plus, 'E'], r.choice([[0, 2], [0, 2], [2, 0], [0, 1, 2]])), ('E', None, 0, [a], [0])]
        if r.random() < 0.3: rules.append(('E', 'neg', r.choice([0, 1]), [q, 'E'], [1]))
        if r.random() < 0.3: rules.append(('X', 'big2', r.choice([0, 3]), [x, x], [0, 1]))
        used = set(sy for _, _, _, rh, _ in rules for sy in rh) | {'S'}
        rules = [rl for rl in rules if rl[0] in used]
        st = r.random() < 0.6
        if py_check(terms, rules, st) != 0: return None
        g = Grammar(terms, rules, st)
        def pt_inputs(r, tn, kids=kids):
            t = []
            for kname in kids:
                if kname == 'X': t += [x]
                elif kname == 'Y': t += r.choice([[y], []])
                else:
                    n = r.randint(1, 4); e = [a]
                    for _ in range(n - 1): e += [plus, a]
                    t += e
            return mutate(r, t, tn) if r.random() < 0.1 else t
        g.inputs_fn = pt_inputs
        return g
    elif kind == 'recov-embed':
        # self-embedding with `error`: opening brackets give several consecutive identical sets
        # that all contain `. error`; the best recovery goes back over some of them
        terms = gen_terms(r, 4)
        lp, rp, a, b = [n for n, _ in terms]
        rules = [('S', [lp, 'S', rp]), ('S', [a]), ('S', ['error'])]
        if r.random() < 0.3: rules.append(('S', [a, b]))
        if r.random() < 0.3: rules[0] = ('S', [lp, 'S', rp, rp])
        if r.random() < 0.3: rules.append(('S', [lp, 'S', b]))
        def inputs_fn(r, tn):
            d = r.randint(1, 5)
            t = [lp] * d + r.choice([[a], [a, a], [a, b], [], [b]]) + [rp] * r.randint(0, d + 1)
            return t[:14]
    elif kind == 'null-chain':
        # nullability has to travel up a chain of nonterminals that each also have a deriving
        # alternative (so that becoming nullable is the only change of a late fixpoint pass);
        # written top-down, bottom-up or shuffled; the sentence needs the top of the chain to vanish
        k = r.randint(3, 5)
        ch = ['X%d' % i for i in range(k)]
        t = tn[:3]
        rules = [('S', r.choice([[ch[0], t[0]], [ch[0]], [t[0], ch[0], t[1]], [ch[0], ch[0], t[0]]]))]
        links = []
        for i, x in enumerate(ch):
            links.append((x, [r.choice(t)]))
            nxt = [ch[i + 1]] if i + 1 < k else []
            links.append((x, nxt if r.random() < 0.7 or not nxt else nxt + nxt))
        o = r.random()
        if o < 0.3: links = links[::-1]
        elif o < 0.5: r.shuffle(links)
        rules += links
        top = rules[0][1]
        def inputs_fn(r, tn, top=top):
            w = [x for x in top if not x.startswith('X')]
            return w if r.random() < 0.6 else mutate(r, w + [r.choice(tn)], tn)
    elif kind == 'recov-cache':
        # statements that share a middle constituent and differ in head and tail; a statement with
        # the wrong tail is a syntax error whose recovery goes back a few sets and re-grows the
        # list to its old length; the same statements repeated afterwards reach the same
        # (set, token, lookahead) triples as before the error (goto sets cached before a
        # recovery must not be reused on the rewritten list)
        terms = gen_terms(r, 8)
        a, b, z, c, d, x, y, sep = [n for n, _ in terms]
        rules = [('P', ['P', sep, 'L']), ('P', ['L']), ('L', ['L', 'S']), ('L', ['S']), ('L', ['error']),
                 ('S', [a, 'A']), ('S', [b, 'B']), ('S', [z]), ('A', ['R', c]), ('B', ['R', d]), ('R', [x, y])]
        if r.random() < 0.3: rules.append(('R', [x, y, y]))
        if r.random() < 0.3: rules[4] = ('L', ['error', sep])
        if r.random() < 0.3: rules.append(('S', ['error', c]))
        good = [[a, x, y, c], [b, x, y, d], [z]]
        bad = [[b, x, y, c], [a, x, y, d], [a, x, c], [b, y, d]]
        def inputs_fn(r, tn):
            t = []
            for _ in range(r.randint(0, 2)): t += r.choice(good)
            t += r.choice(bad)
            rep = r.choice(good[:2])
            for _ in range(r.randint(1, 3)): t += rep if r.random() < 0.8 else r.choice(good)
            return t[:16]
    elif kind == 'core-share':
        # one set core (same start situations in the same order) reached with different distance
        # vectors: `A : X . E F b` and `A : X E . F b` (E, F nullable) stand in one set first with
        # equal origins, later as two instances of A with different origins; the non-start part
        # of the core (derived situations with their parents) is computed once and shared
        terms = gen_terms(r, 8)
        k, x, gg, a, b, z, f, h = [n for n, _ in terms]
        kalts = [[k], [k, x, gg], [a, b], [b, x, gg]]
        if r.random() < 0.3: kalts.append([h])
        rules = [('S', ['A', 'R']), ('R', ['A']), ('R', [a, 'A', z]), ('A', ['X', 'E', 'F', b]), ('X', ['K', x])] + \
                [('K', al) for al in kalts] + [('E', []), ('E', ['G', x]), ('G', [gg]), ('F', []), ('F', [f])]
        if r.random() < 0.3: rules[3] = ('A', ['X', 'E', 'F', 'F', b])
        if r.random() < 0.3: rules.append(('R', ['R', h]))
        if r.random() < 0.3: rules[0] = ('S', ['A', 'R', 'R'])
        def a_form(r, crit=None):
            ka = kalts[crit] if crit is not None else r.choice(kalts)
            e = [gg, x] if (crit == 2 or (crit is None and r.random() < 0.5)) else []
            ff = [f] if (crit is None and r.random() < 0.3) else []
            return ka + [x] + e + ff + [b]
        def inputs_fn(r, tn):
            crit = r.random() < 0.5
            t = a_form(r, 1 if crit else None)
            for _ in range(2 if rules[0][1] == ['A', 'R', 'R'] else 1):
                t += a_form(r, 2 if crit else None) if r.random() < 0.6 else [a] + a_form(r) + [z]
            return mutate(r, t, tn) if r.random() < 0.15 else t
    elif kind == 'twice':
        # the same constituent occurs twice in one sentence, predicted from different contexts:
        # the second occurrence must get the completions of its own context
        terms = gen_terms(r, 5)
        a, b, c, d, e = [n for n, _ in terms]
        tails = [[c], [c], [c, d]]
        rules = [('S', ['P', 'Q']), ('P', ['X']), ('Q', ['X']), ('Q', ['Y']), ('X', ['B'] + tails[0]), ('Y', ['B'] + r.choice(tails)), ('B', [a, b])]
        if r.random() < 0.4: rules.append(('P', ['Y']))
        if r.random() < 0.4: rules[0] = ('S', ['P', 'Q', 'Q'])
        if r.random() < 0.3: rules.append(('B', [a]))
        if r.random() < 0.3: rules += [('Q', ['Z', e]), ('Z', ['B', c])]
        if r.random() < 0.3: rules[1:1] = [('S', ['S', e, 'P'])]
    elif kind == 'nullable-tail':
        # two derivations that use the same rule `A : a N` with different origins: the tail N is
        # empty in one (the situation is a non-start one, derived through the nullable tail) and
        # non-empty in the other (a start situation)
        a, b = tn[0], tn[1]
        rules = [('S', ['B', 'A']), ('B', [a]), ('B', [a, a]), ('A', [a, 'N']), ('N', []), ('N', [a])]
        if r.random() < 0.3: rules[0] = ('S', ['B', 'A', b])
        if r.random() < 0.3: rules[3] = ('A', [a, 'N', 'N'])
        if r.random() < 0.3: rules.append(('B', [a, a, a]))
        if r.random() < 0.3: rules.append(('N', ['M'])); rules.append(('M', []))
        if r.random() < 0.3: rules.append(('A', ['B', 'N']))
        if r.random() < 0.2: rules[0] = ('S', ['B', 'A', 'A'])
        def inputs_fn(r, tn, a=a, b=b, rules=rules):
            t = [a] * r.randint(2, 6)
            if b in rules[0][1]: t.append(b)
            return t
    elif kind == 'nullable-prefix':
        # a rule with a nullable prefix before a nonterminal, reached twice in one set: as a
        # situation with an older origin and as a freshly predicted one (`A : N . C`)
        rules = [('S', ['P', 'A']), ('S', ['Q', 'A', 'e']), ('P', ['a', 'b']), ('Q', ['a']), ('A', ['N', 'C']),
                 ('N', ['b']), ('N', []), ('C', ['c']), ('C', ['b', 'c'])]
        if r.random() < 0.4: rules.append(('C', ['N', 'c']))
        if r.random() < 0.3: rules[0] = ('S', ['P', 'A', 'A'])
        if r.random() < 0.3: r.shuffle(rules); rules = [x for x in rules if x[0] == 'S'] + [x for x in rules if x[0] != 'S']
    else:
        # `S : B C D` with an ambiguous B/C border (copied abstract nodes) and an ambiguous D whose
        # alternatives have different costs: alternative lists shared by node copies
        costs = [r.choice([0, 1, 2, 5]) for _ in range(3)]
        rules = [('S', ['B', 'C', 'D']), ('B', ['a']), ('B', ['a', 'a']), ('C', ['a']), ('C', ['a', 'a']),
                 ('D', ['d']), ('D', ['d']), ('D', ['d'])]
        if r.random() < 0.5: rules += [('C', [])]
        if r.random() < 0.3: rules[0] = ('S', ['B', 'C', 'D', 'D'])
    out = []
    dcount = 0
    for l, rh in rules:
        if with_transl and kind == 'shared-alts':
            if l == 'D':
                an, cost, tr = ('d%d' % dcount, [r.choice([0, 1, 2, 5]) for _ in range(1)][0], [0]); dcount += 1
            elif l == 'S': an, cost, tr = ('s', r.choice([0, 1]), list(range(len(rh))))
            else: an, cost, tr = (next(names) + l.lower(), r.choice([0, 1, 3]), list(range(len(rh))))
        elif with_transl: an, cost, tr = gen_transl(r, len(rh), names, l)
        else: an, cost, tr = None, 0, None
        out.append((l, an, cost, rh, tr))
    st = r.random() < 0.6
    g = None
    if py_check(terms, out, st) == 0: g = Grammar(terms, out, st)
    elif py_check(terms, out, False) == 0: g = Grammar(terms, out, False)
    if g is not None and inputs_fn is not None: g.inputs_fn = inputs_fn
    if g is not None and kind == 'twice':
        def long_fn(r, tn, g=g):
            t = Sampler(g, r).sentence(14) or []
            return mutate(r, t, tn) if r.random() < 0.25 else t
        g.inputs_fn = long_fn
    return g


def gen_err_alts(r):
    """a broken statement can be translated in several ways of different cost, with and without
    the error node as a child: under the cost flag the pruning decides whether the (single)
    error node stays reachable"""
    terms = gen_terms(r, 4)
    a, semi, b, c = [n for n, _ in terms]
    cs = lambda: r.choice([0, 1, 1, 2, 5])
    tr_err = lambda: r.choice([[0], [0], [], [NIL]])
    rules = [('S', 'prog', cs(), ['L'], [0]), ('L', 'list', cs(), ['L', 'X', semi], [0, 1]), ('L', None, 0, [], None),
             ('X', None, 0, [a], [0]), ('X', 'bad', cs(), ['error'], tr_err()), ('X', None, 0, ['Y'], [0]),
             ('Y', 'skipped', cs(), ['error'], tr_err())]
    if r.random() < 0.4: rules.append(('X', 'pair', cs(), [a, b], [0, 1]))
    if r.random() < 0.3: rules.append(('X', 'tail', cs(), ['error', c], r.choice([[0, 1], [1], []])))
    if r.random() < 0.3: rules.append(('Y', 'other', cs(), ['error', 'Z'], r.choice([[0], [1], [0, 1]]))); rules.append(('Z', None, 0, [], None))
    if r.random() < 0.3: rules[1] = ('L', 'list', rules[1][2], ['X', semi, 'L'], [0, 2])
    if py_check(terms, rules, True) != 0: return None
    g = Grammar(terms, rules, True)
    tn = [n for n, _ in terms]
    def inputs_fn(r, tn=tn):
        toks = []
        for _ in range(r.randint(1, 4)):
            toks += r.choice([[a], [a], [b], [c, c], [], [a, b], [b, a]]) + [semi]
        return toks
    g.inputs_fn = lambda r, tn: inputs_fn(r)
    return g


def transform_grammar(r, g, with_transl=True):
    """derive a grammar by a few local transformations that compose the features random rules
    rarely combine: nullable symbols anywhere in a rule (prefix, middle, tail, adjacent pairs),
    unit / pass-through chains around a symbol, duplicated rules with another translation or
    cost, self-embedding, `error` alternatives.  Returns the original grammar if the result is
    not accepted by the definition checks."""
    if getattr(g, 'inputs_fn', None) is not None or not g.rules or not g.terms: return g
    rules = [list(x) for x in g.rules]
    tn = [n for n, _ in g.terms]
    fresh = [0]
    def new_nt(prefix):
        fresh[0] += 1
        return '%s%d' % (prefix, fresh[0])
    def insert(rule, pos, sym, translate):
        lhs, an, cost, rhs, tr = rule
        rhs = rhs[:pos] + [sym] + rhs[pos:]
        if tr is not None:
            tr = [e if e == NIL or e < pos else e + 1 for e in tr]
            if translate and an is not None: tr.insert(r.randint(0, len(tr)), pos)
        rule[3], rule[4] = rhs, tr
    for _ in range(r.choice([1, 1, 2, 2, 3, 4])):
        k = r.choice(['nullable', 'nullable', 'nullable2', 'tail', 'unit', 'unit', 'dup', 'embed', 'erralt', 'prefix'])
        rule = r.choice(rules)
        if k in ('nullable', 'nullable2', 'tail', 'prefix'):
            n = new_nt('N')
            pos = len(rule[3]) if k == 'tail' else 0 if k == 'prefix' else r.randint(0, len(rule[3]))
            insert(rule, pos, n, r.random() < 0.6)
            if k == 'nullable2':
                n2 = new_nt('N'); insert(rule, pos, n2, r.random() < 0.5)
                rules.append([n2, None, 0, [], None]); rules.append([n2, 'z' + n2.lower(), r.choice([0, 1, 2]), [r.choice(tn)], [0]])
            y = r.random()
            if y < 0.5: rules.append([n, None, 0, [], None])
            elif y < 0.75: rules.append([n, 'e' + n.lower(), r.choice([0, 1, 3]), [], []])
            else:
                m = new_nt('M'); rules.append([n, None, 0, [m], [0]]); rules.append([m, None, 0, [], None])
            if r.random() < 0.8: rules.append([n, None, 0, [r.choice(tn)], [0]] if r.random() < 0.6 else [n, 'y' + n.lower(), r.choice([0, 1, 2]), [r.choice(tn)], [0]])
        elif k == 'unit' and rule[3]:
            pos = r.randrange(len(rule[3])); x = rule[3][pos]
            if x == 'error': continue
            u = new_nt('U'); rule[3] = rule[3][:pos] + [u] + rule[3][pos + 1:]
            if r.random() < 0.4:
                v = new_nt('U'); rules.append([u, None, 0, [v], [0]]); rules.append([v, None, 0, [x], [0]])
            elif r.random() < 0.5: rules.append([u, 'w' + u.lower(), r.choice([0, 1, 2]), [x], [0]])
            else: rules.append([u, None, 0, [x], [0]])
        elif k == 'dup':
            lhs, an, cost, rhs, tr = rule
            n = len(rhs); idx = list(range(n)); r.shuffle(idx)
            rules.append([lhs, 'd%d%s' % (len(rules), lhs.lower()), r.choice([0, 1, 2, 5]), list(rhs), idx[:r.randint(0, n)]])
        elif k == 'embed':
            a, b = r.choice(tn), r.choice(tn)
            rules.append([rule[0], 'm' + rule[0].lower(), r.choice([0, 1]), [a, rule[0], b], [1]] if r.random() < 0.5 else [rule[0], None, 0, [a, rule[0], b], [1]])
        elif k == 'erralt':
            tail = [r.choice(tn)] if r.random() < 0.6 else []
            rules.append([rule[0], 'x' + rule[0].lower(), r.choice([0, 1, 2]), ['error'] + tail, r.choice([[0], [], [NIL]])])
    if not with_transl: rules = [[l, None, 0, rh, None] for l, _, _, rh, _ in rules]
    out = [tuple(x) for x in rules]
    for st in ((g.strict, False) if g.strict else (False,)):
        if py_check(g.terms, out, st) == 0: return Grammar(g.terms, out, st)
    return g


def gen_grammar(r, nnt=None, nt_=None, err_prob=0.25, maxrules=3, strict=None, with_transl=True, tries=60):
    g = gen_grammar0(r, nnt, nt_, err_prob, maxrules, strict, with_transl, tries)
    if nnt is None and nt_ is None and strict is None and r.random() < 0.3:
        g = transform_grammar(r, g, with_transl)
    return g


def gen_grammar0(r, nnt=None, nt_=None, err_prob=0.25, maxrules=3, strict=None, with_transl=True, tries=60):
    if nnt is None and nt_ is None and strict is None:
        x = r.random()
        if err_prob >= 0.3 and with_transl and r.random() < 0.08:
            g = gen_err_alts(r)
            if g is not None: return g
        if err_prob >= 0.34 and r.random() < (0.12 if err_prob >= 0.5 else 0.06):
            g = gen_structured_grammar(r, with_transl, kind=r.choice(['recov-nest', 'recov-nest', 'recov-race', 'recov-embed', 'recov-cache']))
            if g is not None: return g
        if err_prob >= 0.5 and r.random() < 0.15:
            g = gen_classic_grammar(r, with_transl, err=True)
            if g is not None: return g
        g = gen_structured_grammar(r, with_transl) if x < 0.12 else gen_classic_grammar(r, with_transl) if x < 0.24 else None
        if g is not None: return g
    """a random grammar accepted by the definition checks (if possible within `tries`)"""
    for _ in range(tries):
        nts = ['S', 'A', 'B', 'C', 'D'][:nnt or r.choice([1, 2, 2, 3, 3, 4, 5])]
        terms = gen_terms(r, nt_ or r.choice([1, 2, 2, 3, 3, 4]))
        tn = [n for n, _ in terms]
        use_err = r.random() < err_prob
        names = iter('pqrstuvwxyz' * 6)
        rules = []
        shape = r.random()
        for nt in nts:
            for _ in range(r.randint(1, maxrules)):
                n = r.choice([0, 1, 1, 2, 2, 3, 3, 4])
                rhs = []
                for _ in range(n):
                    x = r.random()
                    if x < 0.45: rhs.append(r.choice(nts))
                    elif use_err and x < 0.55: rhs.append('error')
                    else: rhs.append(r.choice(tn))
                rules.append((nt, rhs))
        if shape < 0.12 and len(nts) >= 2:
            # prediction of a rule inside its own partially recognised instance, nullable prefix
            y = nts[1]; t = r.choice(tn)
            rules += [(nts[0], [y, y, t]), (y, []), (y, [t, nts[0]])]
        elif shape < 0.2:
            a = r.choice(nts)
            rules += [(a, [a, a]), (a, [r.choice(tn)])]           # highly ambiguous
        elif shape < 0.28 and len(nts) >= 2:
            a, b = nts[0], nts[1]
            rules += [(a, [b, a, r.choice(tn)]), (b, [])]          # hidden left recursion
        elif shape < 0.37 and len(nts) >= 3 and len(tn) >= 3:
            # chain of unit rules whose members occur in different right contexts: the dynamic
            # lookahead contexts have to travel through several situations of one set
            ch = nts[:]; r.shuffle(ch)
            ctxs = tn[:]; r.shuffle(ctxs)
            top = [(nts[0], [x, ctxs[i % len(ctxs)]]) for i, x in enumerate(ch) if x != nts[0]]
            r.shuffle(top)
            rules = top + [(nts[0], [tn[0]])] if r.random() < 0.5 else top
            links = [(y, [x]) for x, y in zip(ch, ch[1:]) if y != nts[0]]
            if r.random() < 0.5: links = links[::-1]
            rules += links + [(ch[0], [r.choice(tn)])] + [(x, [r.choice(tn)]) for x in ch[1:] if r.random() < 0.5]
        elif shape < 0.42 and len(nts) >= 3:
            # nullable chain: nullability has to travel through several nonterminals
            ch = nts[:]; r.shuffle(ch)
            for x, y in zip(ch, ch[1:]): rules.append((x, [y]))
            rules.append((ch[-1], []))
            rules.append((nts[0], [ch[0], r.choice(tn), ch[0]]))
        elif shape < 0.46:
            a = r.choice(nts); t = r.choice(tn)
            rules += [(a, [t]), (a, [t])]                          # identical right-hand sides
        seen = set(); out = []
        for l, rh in rules:
            k = (l, tuple(rh))
            if k in seen and r.random() < 0.8: continue
            seen.add(k)
            if with_transl: an, cost, tr = gen_transl(r, len(rh), names, l)
            else: an, cost, tr = None, 0, None
            out.append((l, an, cost, rh, tr))
        st = r.random() < 0.6 if strict is None else strict
        if py_check(terms, out, st) == 0:
            return Grammar(terms, out, st)
        if strict is None and py_check(terms, out, False) == 0:
            return Grammar(terms, out, False)
    # fallback: a fixed small grammar
    return Grammar([('a', 97), ('b', 98)], [('S', 'p', 1, ['S', 'a'], [0]), ('S', None, 0, ['b'], [0])], True)


class Sampler:
    """random sentences of a grammar by depth-bounded derivation"""

    def __init__(self, g, r):
        self.g = g; self.r = r
        self.tn = set(n for n, _ in g.terms)
        self.by = {}
        for (lhs, _, _, rhs, _) in g.rules:
            self.by.setdefault(lhs, []).append(rhs)
        # minimal derivation depth per nonterminal (error is not a user token: rules with it are unusable)
        INF = 10 ** 9
        self.depth = {}
        ch = True
        while ch:
            ch = False
            for lhs, alts in self.by.items():
                for rhs in alts:
                    d = 0
                    for s in rhs:
                        if s in self.tn: continue
                        d = max(d, self.depth.get(s, INF))
                    if d < INF and d + 1 < self.depth.get(lhs, INF):
                        self.depth[lhs] = d + 1; ch = True

    def rule_depth(self, rhs):
        d = 0
        for s in rhs:
            if s in self.tn: continue
            d = max(d, self.depth.get(s, 10 ** 9))
        return d

    def derive(self, sym, budget, out, maxlen):
        if len(out) > maxlen: return False
        if sym in self.tn:
            out.append(sym); return True
        alts = [a for a in self.by.get(sym, []) if self.rule_depth(a) < 10 ** 9]
        if not alts: return False
        ok = [a for a in alts if self.rule_depth(a) + 1 <= budget]
        if not ok:
            ok = [min(alts, key=self.rule_depth)]
        rhs = self.r.choice(ok)
        for s in rhs:
            if not self.derive(s, budget - 1, out, maxlen): return False
        return True

    def sentence(self, maxlen):
        start = self.g.rules[0][0]
        if start not in self.depth: return None
        for _ in range(8):
            out = []
            if self.derive(start, self.depth[start] + self.r.randint(0, 4), out, maxlen) and len(out) <= maxlen:
                return out
        return None


def mutate(r, toks, tn):
    toks = list(toks)
    k = r.random()
    if toks and k < 0.3: del toks[r.randrange(len(toks))]
    elif k < 0.55: toks.insert(r.randint(0, len(toks)), r.choice(tn))
    elif toks and k < 0.8: toks[r.randrange(len(toks))] = r.choice(tn)
    elif len(toks) >= 2:
        i = r.randrange(len(toks) - 1); toks[i], toks[i + 1] = toks[i + 1], toks[i]
    return toks


def gen_inputs(r, g, count, maxlen):
    """mix of sentences, prefixes, mutations, random strings (names of terminals)"""
    tn = [n for n, _ in g.terms]
    if not tn: return [[]]
    sm = Sampler(g, r)
    res = []
    fn = getattr(g, 'inputs_fn', None)
    for _ in range(count):
        if fn is not None and r.random() < 0.8:
            res.append(fn(r, tn)[:40]); continue
        x = r.random()
        s = sm.sentence(maxlen) if x < 0.75 else None
        if s is None:
            s = [r.choice(tn) for _ in range(r.randint(0, min(maxlen, 7)))] if tn else []
        elif x < 0.4: pass
        elif x < 0.5 and s: s = s[:r.randint(0, len(s))]
        elif x < 0.75: s = mutate(r, s, tn)
        res.append(s[:maxlen])
    if r.random() < 0.15: res.append([])
    return res


def parse_case(r, cid, g, inputs, configs, selfcheck=7, tail_ops=True, alloc='user', free='user', kind='parse'):
    """one grammar object, each input parsed under each configuration."""
    lines = ['case %s %s' % (cid, kind)] + g.text(0)
    n = [0]
    def op(s):
        n[0] += 1; lines.append('op %d %s' % (n[0], s))
    op('create 0'); op('def 0 0')
    cur = dict(la=1, one=1, cost=0, rec=1, match=3, debug=0)
    for toks in inputs:
        codes = ' '.join(str(g.code(t)) for t in toks)
        for cfg in configs:
            for k in ('la', 'one', 'cost', 'rec', 'match', 'debug'):
                if k in cfg and cfg[k] != cur[k]:
                    op('set 0 %s %d' % (k, cfg[k])); cur[k] = cfg[k]
            op(('parse 0 %s %s %d %s' % (cfg.get('alloc', alloc), cfg.get('free', free), selfcheck | 8, codes)).strip())
    if tail_ops:
        op('free 0')
    lines.append('end')
    return lines


def cfg_sweep(r, focus):
    """configurations for one input, by property focus"""
    one = r.choice([0, 1]); cost = r.choice([0, 0, 1])
    if focus == 'C01':
        return [dict(la=la, one=r.choice([0, 1]), cost=r.choice([0, 1]), rec=0) for la in (0, 1, 2)] + \
               [dict(la=r.choice([0, 1, 2]), one=one, cost=cost, rec=1)]
    if focus == 'C02':
        return [dict(la=la, one=1, cost=0, rec=0) for la in r.sample([0, 1, 2], 2)] + [dict(la=r.choice([0, 1, 2]), one=1, cost=1, rec=0)]
    if focus == 'C03':
        return [dict(la=la, one=0, cost=0, rec=0) for la in r.sample([0, 1, 2], 2)]
    if focus == 'C04':
        return [dict(la=r.choice([0, 1, 2]), one=o, cost=1, rec=0, free=f) for o in (0, 1) for f in r.sample(['user', 'null'], 1)] + \
               ([dict(la=r.choice([0, 1, 2]), one=r.choice([0, 1]), cost=1, rec=1, free=r.choice(['user', 'null']))] if r.random() < 0.4 else [])
    if focus == 'C05':
        return [dict(la=r.choice([0, 1, 2]), one=o, cost=r.choice([0, 1]), rec=0) for o in (0, 1)]
    if focus == 'C06':
        return [dict(la=la, one=1, cost=0, rec=0) for la in r.sample([0, 1, 2], 2)] + \
               [dict(la=r.choice([0, 1, 2]), one=1, cost=0, rec=1, match=m) for m in r.sample([1, 2, 3, 4, 5], 2)]
    if focus == 'C13':
        return [dict(la=r.choice([0, 1, 2]), one=r.choice([0, 1]), cost=r.choice([0, 1]), rec=r.choice([0, 1, 1]), free=r.choice(['user', 'user', 'null']),
                     alloc=r.choice(['user', 'user', 'user', 'null']))]
    if focus in ('C07', 'C08'):
        return [dict(la=r.choice([0, 1, 2]), one=r.choice([0, 1]), cost=r.choice([0, 0, 0, 1]), rec=1, match=m)
                for m in r.sample([1, 2, 3, 3, 4, 5], 3)]
    if focus == 'C09':
        rec = r.choice([0, 0, 1]); m = r.choice([1, 2, 3, 3])
        return [dict(la=la, one=one, cost=cost, rec=rec, match=m, debug=0) for la in (-3, 0, 1, 2, 7)] + \
               [dict(la=r.choice([0, 1, 2]), one=one, cost=cost, rec=rec, match=m, debug=d) for d in r.sample([1, 2, 3, 4, 5, 6, 7, -1], 3)]
    return [dict(la=r.choice([0, 1, 2]), one=one, cost=cost, rec=0)]


def gen_parse_cases(seed, count, focus='C01', maxlen=7, inputs_per=3, kind=None, force=None):
    """`kind`: only grammars of that structured family; `force`: settings fixed in every sweep"""
    r = random.Random(seed)
    cases = []
    for i in range(count):
        g = None
        if kind is not None:
            for _ in range(30):
                g = gen_structured_grammar(r, True, kind=kind)
                if g is not None: break
        if g is None:
            g = gen_grammar(r, err_prob=0.6 if focus in ('C06', 'C07', 'C08') else 0.35 if focus in ('C09', 'C13', 'C04') else 0.15)
        ins = gen_inputs(r, g, inputs_per, maxlen)
        # every input gets its own sweep
        lines = None
        allops = []
        c = ['case %s%s-%d-%d parse' % (focus, ('.' + kind) if kind else '', seed, i)] + g.text(0)
        n = 0
        def op(s):
            nonlocal n
            n += 1; c.append('op %d %s' % (n, s))
        op('create 0')
        cur = dict(la=1, one=1, cost=0, rec=1, match=3, debug=0)
        if r.random() < 0.2:
            # the lookahead level in force when the grammar is defined is not the one of the parses
            cur['la'] = r.choice([0, 0, 2]); op('set 0 la %d' % cur['la'])
        op('def 0 0')
        for toks in ins:
            codes = ' '.join(str(g.code(t)) for t in toks)
            for cfg in cfg_sweep(r, focus):
                if force: cfg = dict(cfg, **force)
                for k in ('la', 'one', 'cost', 'rec', 'match', 'debug'):
                    if k in cfg and cfg[k] != cur[k]:
                        op('set 0 %s %d' % (k, cfg[k]))
                        cur[k] = max(0, min(2, cfg[k])) if k == 'la' else cfg[k]
                op(('parse 0 %s %s 31 %s' % (cfg.get('alloc', 'user'), cfg.get('free', 'user'), codes)).strip())
        if focus == 'C13':
            nparse = len([l for l in c if l.startswith('op ') and l.split()[2] == 'parse'])
            slots = list(range(nparse)); r.shuffle(slots)
            cut = r.randint(0, nparse)
            for sl in slots[:cut]: op('freetree 0 %d 1' % sl)
            op('free 0')
            for sl in slots[cut:]: op('freetree 0 %d 1' % sl)
        else:
            op('free 0')
        c.append('end')
        cases.append(c)
    return cases


def gen_def_grammar(r):
    """random, mostly defective definition (every defect class alone and in pairs)"""
    tnames = ['a', 'b', 'c', 'error', '$eof', '$S', 'S', 'A']
    terms = []
    for _ in range(r.randint(0, 4)):
        nm = r.choice(tnames[:3]) if r.random() < 0.85 else r.choice(tnames)
        code = r.choice([97, 98, 99, 100, 5, 0, 300, 70000, 2147483647]) if r.random() < 0.9 else -r.randint(1, 3)
        terms.append((nm, code))
    if r.random() < 0.8:
        seen = set(); sc = set(); t2 = []
        for n, c in terms:
            if n in seen or c in sc or c < 0 or n in ('error', '$eof', '$S', 'S', 'A'): continue
            seen.add(n); sc.add(c); t2.append((n, c))
        terms = t2
    syms = ['S', 'A', 'B'] + [t[0] for t in terms] + (['error'] if r.random() < 0.3 else []) + \
           (['$S', '$eof'] if r.random() < 0.08 else []) + (['U'] if r.random() < 0.15 else [])
    rules = []
    for _ in range(r.randint(0, 6)):
        lhs = r.choice(['S', 'A', 'B']) if r.random() < 0.92 else r.choice(syms)
        rhs = [r.choice(syms) for _ in range(r.choice([0, 1, 1, 2, 2, 3]))]
        anode = 'n' if r.random() < 0.4 else None
        cost = r.randint(0, 3) if r.random() < 0.93 else -1
        if r.random() < 0.2: tr = None
        else:
            k = r.randint(0, 2) if anode is None else r.randint(0, 3)
            tr = []
            for _ in range(k):
                z = r.random()
                tr.append(NIL if z < 0.15 else r.randint(0, max(0, len(rhs))) if z < 0.25 else r.randint(0, max(0, len(rhs) - 1)))
            if anode is None and len(tr) > 1 and r.random() < 0.8: tr = tr[:1]
        rules.append((lhs, anode, cost, rhs, tr))
    if r.random() < 0.15:
        # names that only begin with (or are a prefix of) a reserved name are ordinary names
        pool = ['$Sum', '$Stmt', '$eofmark', '$eo', '$', 'errors', 'erro', 'Error', '$s', '$EOF', '$S1', 'error_']
        ren = {}
        for old in r.sample(['S', 'A', 'B', 'a', 'b', 'c'], r.randint(1, 3)): ren[old] = r.choice(pool)
        if len(set(ren.values())) == len(ren):
            terms = [(ren.get(n, n), c) for n, c in terms]
            rules = [(ren.get(l, l), an, co, [ren.get(x, x) for x in rh], tr) for l, an, co, rh, tr in rules]
    return Grammar(terms, rules, r.random() < 0.5)


def gen_chain_def(r):
    """definitions whose analysis needs several fixpoint passes: facts (nullable, productive,
    reachable, looping) must travel along a chain of nonterminals against or along the order in
    which the symbols are numbered; optionally a loop / defect that exists only through the
    fact at the far end of the chain"""
    k = r.randint(3, 7)
    names = ['N%d' % i for i in range(1, k + 1)]
    order = r.choice(['down', 'up', 'mixed'])
    terms = [('a', 97), ('b', 98)]
    rules = []
    kind = r.choice(['nullable', 'nullable', 'productive', 'reachable'])
    chain = []
    for i in range(k):
        nxt = names[i + 1] if i + 1 < k else None
        alts = []
        if kind == 'nullable':
            alts.append(['a'] if r.random() < 0.8 else ['a', 'b'])
            alts.append([nxt] if nxt else [])
            if nxt and r.random() < 0.3: alts.append([nxt, nxt])
        elif kind == 'productive':
            alts.append([nxt, 'a'] if nxt else (['a'] if r.random() < 0.7 else [names[i]]))
        else:
            alts.append(['a', nxt] if nxt else ['b'])
        for rhs in alts: chain.append((names[i], None, 0, rhs, None))
    if order == 'up': chain = chain[::-1]
    elif order == 'mixed': r.shuffle(chain)
    top = r.choice([
        [('S', None, 0, ['N1'], None), ('S', None, 0, ['S', 'N1'], None)],          # loop only if N1 is nullable
        [('S', None, 0, ['N1'], None), ('S', None, 0, ['N1', 'S', 'N1'], None)],
        [('S', None, 0, ['N1', 'a'], None)],
        [('S', None, 0, ['a', 'N1'], None), ('S', None, 0, ['N1', 'N1'], None)],
        [('S', None, 0, ['N1'], None), ('N%d' % k, None, 0, ['S'], None)],           # loop through the whole chain
    ])
    rules = top + chain if r.random() < 0.7 else top[:1] + chain + top[1:]
    if r.random() < 0.2: rules.append(('U', None, 0, ['a'], None))                    # unreachable
    return Grammar(terms, rules, r.random() < 0.5)


def gen_loop_def(r):
    """definitions around derivation loops (A =>+ A): a ring of nonterminals C1 -> ... -> Cn -> C1
    whose links stand among nullable (or, to break the loop, almost nullable) siblings at any
    position of the right-hand side; nullable helpers that themselves occur alone in other
    rules (flagged "may loop" by a decreasing fixpoint at first); escape alternatives; rule and
    therefore symbol order shuffled"""
    terms = [('a', 97), ('c', 99), ('d', 100)]
    m = r.randint(1, 3); n = r.randint(1, 4)
    E = ['E%d' % i for i in range(m)]; C = ['C%d' % i for i in range(n)]
    rules = []
    solid = r.randrange(m) if r.random() < 0.35 else -1        # this helper is not nullable after all
    for i, e in enumerate(E):
        if i == solid: rules.append((e, None, 0, ['a'], None))
        else:
            rules.append((e, None, 0, [], None))
            if r.random() < 0.3: rules.append((e, None, 0, [r.choice(E), r.choice(E)], None))
            if r.random() < 0.3: rules.append((e, None, 0, ['a'], None))
    close = r.random() < 0.75
    for i, c in enumerate(C):
        nxt = C[(i + 1) % n]
        pre = [r.choice(E) for _ in range(r.choice([0, 0, 1, 1, 2]))]
        post = [r.choice(E) for _ in range(r.choice([0, 0, 1, 2]))]
        if i + 1 < n or close: rules.append((c, None, 0, pre + [nxt] + post, None))
        if r.random() < 0.8: rules.append((c, None, 0, ['c'], None))
        if r.random() < 0.5: rules.append((c, None, 0, ['D', 'd'], None))
        if r.random() < 0.2: rules.append((c, None, 0, [r.choice(E), r.choice(C), 'a'], None))
    rules.append(('D', None, 0, [r.choice(E)], None))
    if r.random() < 0.5: rules.append(('D', None, 0, [r.choice(C), 'a'], None))
    if r.random() < 0.4: rules.append(('D', None, 0, [r.choice(E), r.choice(E)], None))
    r.shuffle(rules)
    start = ('S', None, 0, [r.choice(C)] + (['D'] if r.random() < 0.5 else []), None)
    if r.random() < 0.6: rules = [start] + rules
    else:
        k = r.randrange(len(rules)); c0 = rules[k]
        rules = [c0] + rules[:k] + rules[k + 1:] + [(c0[0], None, 0, ['S', 'a'], None), start]
    return Grammar(terms, rules, r.random() < 0.5)


def gen_access_def(r):
    """nonterminals that are reachable only through rule positions next to (before / after) a
    nonterminal deriving nothing, or only from rules of such a nonterminal; symbol numbering and
    rule order varied (the fixpoints of set_empty_access_derives visit symbols in numbering order)"""
    terms = [('a', 97), ('b', 98)]
    rules = [('S', ['a'])]
    pre = r.random() < 0.6          # X is numbered before N
    xs = ['X', 'Y'][:r.randint(1, 2)]
    body = [('S', r.choice([['N'] + xs, xs[:1] + ['N'] + xs[1:], ['N', 'a'] + xs, ['a', 'N'] + xs]))]
    body += [('N', r.choice([['N', 'a'], ['a', 'N'], ['N'], ['M', 'a']]))]
    if ('N', ['M', 'a']) in body: body.append(('M', ['N']))
    xr = [(x, r.choice([['b'], [], ['a', 'b'], ['Z']])) for x in xs]
    if any(rh == ['Z'] for _, rh in xr): xr.append(('Z', ['b']))
    if r.random() < 0.3: xr.append((xs[0], ['N', 'b']))
    rules = rules + (xr + body if pre else body + xr)
    if r.random() < 0.3: r.shuffle(rules)
    if r.random() < 0.2: rules.append(('U', ['a']))         # a really unreachable one as well
    out = [(l, None, 0, rh, None) for l, rh in rules]
    return Grammar(terms, out, r.random() < 0.8)


def gen_prefix_def(r):
    """symbol names that share a very long prefix and differ only at the end (or are prefixes of each
    other): whatever compares names must compare all of them"""
    k = r.choice([150, 197, 198, 199, 200, 201, 255, 256, 300, 1000])
    P = 'statement_list_' + 'x' * max(0, k - 15)
    n = r.choice([2, 3, 8, 40])
    nts = [P + '%d' % (10 + 13 * i) for i in range(n)]
    if r.random() < 0.3: nts[1] = P            # a proper prefix of the others
    tms = [(P + 't%d' % i, 300 + i) for i in range(n)] + [('c', 99)]
    rules = [('S', 's%d' % i, 1, [nts[i], tms[i][0]], [0, 1]) for i in range(n)] + \
            [(nts[i], 'n%d' % i, 1, ['c'] + [tms[(i + 1) % n][0]] * (i % 2), [0]) for i in range(n)]
    return Grammar(tms, rules, r.random() < 0.5)


def gen_prefix_parse_cases(seed, count):
    """parses through grammars whose symbol names share a very long prefix: a sentence of one
    alternative, the same tokens with the terminal of another alternative (a non-sentence)"""
    r = random.Random(seed)
    cases = []
    for i in range(count):
        g = gen_prefix_def(r)
        n = len(g.terms) - 1
        c = ['case PFX-%d-%d parse' % (seed, i)] + g.text(0) + ['op 1 create 0', 'op 2 def 0 0', 'op 3 set 0 rec 0']
        k = 3
        for la in (0, 1, 2):
            k += 1; c.append('op %d set 0 la %d' % (k, la))
            for j in r.sample(range(n), min(n, 3)):
                for tj in (j, (j + 1) % n):
                    toks = [99] + ([g.terms[(j + 1) % n][1]] if j % 2 else []) + [g.terms[tj][1]]
                    k += 1; c.append('op %d parse 0 user user 15 %s' % (k, ' '.join(map(str, toks))))
        c += ['op %d free 0' % (k + 1), 'end']
        cases.append(c)
    return cases


def gen_def_cases(seed, count):
    r = random.Random(seed)
    cases = []
    for i in range(count):
        z = r.random()
        g = gen_prefix_def(r) if z < 0.06 else gen_chain_def(r) if z < 0.22 else gen_loop_def(r) if z < 0.40 else gen_access_def(r) if z < 0.5 else gen_def_grammar(r)
        c = ['case C10-%d-%d def' % (seed, i)] + g.text(0)
        c += ['op 1 create 0', 'op 2 def 0 0', 'op 3 err 0', 'op 4 set 0 rec 0', 'op 5 parse 0 user user 1', 'op 6 err 0', 'op 7 free 0', 'end']
        cases.append(c)
    return cases


def bad_variant(r, g):
    """a defective variant of a good grammar (one defect injected)"""
    terms = list(g.terms); rules = [tuple(x) for x in g.rules]
    k = r.randrange(7)
    if k == 0 and terms: terms.append(terms[0])                                   # repeated terminal
    elif k == 1 and terms: terms.append(('zz', terms[0][1]))                      # repeated code
    elif k == 2: terms.append(('neg', -3))                                        # negative code
    elif k == 3: rules.append(('Q', None, 0, ['Q'], None))                        # loop / unproductive
    elif k == 4 and terms: rules.append((terms[0][0], None, 0, [], None))         # terminal as lhs
    elif k == 5: rules.append((rules[0][0], 'n', 1, [rules[0][0]], [0, 0]))       # repeated transl number
    else: rules = []                                                              # no rules
    return Grammar(terms, rules, True)


def gen_history_cases(seed, count, maxops=40):
    r = random.Random(seed)
    cases = []
    for i in range(count):
        pool = [gen_grammar(r, err_prob=0.2) for _ in range(2)]
        if r.random() < 0.15:
            # an object with more than 64 terminals next to small ones (terminal sets of different width)
            k = r.choice([66, 70, 130])
            bt = [('t%d' % j, 100 + j) for j in range(k)]
            hi = [bt[j][0] for j in r.sample(range(60, k), 3)]
            pool[r.randrange(2)] = Grammar(bt, [('S', 'l', 1, ['S', 'I'], [0, 1]), ('S', None, 0, ['I'], [0])] +
                                           [('I', 'i%d' % j, 1, [h, bt[r.randrange(k)][0]], [0, 1]) for j, h in enumerate(hi)] +
                                           [('I', None, 0, [hi[0]], [0])], True)
        if r.random() < 0.12:
            # many dynamic-lookahead contexts: one nonterminal predicted in k different right contexts;
            # the contexts are numbered per grammar and survive between parses, the situation tables
            # are per parse (a later, shorter input asks first for a high context number)
            k = r.randint(12, 26)
            ct = [('x%d' % j, 300 + 2 * j) for j in range(k)] + [('y%d' % j, 301 + 2 * j) for j in range(k)] + [('z', 7)]
            cg = Grammar(ct, [('S', None, 0, ['I'], [0]), ('S', 's', 1, ['S', 'I'], [0, 1])] +
                             [('I', 'i%d' % j, 1, ['x%d' % j, 'B', 'y%d' % j], [1]) for j in range(k)] + [('B', None, 0, ['z'], [0])], True)
            def ctx_inputs(r, tn, k=k):
                if r.random() < 0.4: js = list(range(k))
                elif r.random() < 0.5: js = [k - 1 - r.randrange(3)]
                else: js = [r.randrange(k) for _ in range(r.randint(1, 3))]
                return [t for j in js for t in ('x%d' % j, 'z', 'y%d' % j)]
            cg.inputs_fn = ctx_inputs
            cg.ctx_k = k
            pool[r.randrange(2)] = cg
        if r.random() < 0.12:
            # one rule with a very long right-hand side (an object-stack object that outgrows more than
            # one segment), next to ordinary rules; what matters is the redefinition that follows it
            n = r.choice([64, 65, 80, 130, 300])
            lt = [('a', 1), ('b', 2), ('c', 3)]
            lg = Grammar(lt, [('S', 'long', 1, ['a'] * n, [0, n - 1]), ('S', 'sb', 1, ['S', 'b'], [0, 1]), ('S', None, 0, ['B'], [0]),
                              ('B', 'b', 1, ['b', 'c'], [0, 1]), ('B', 'bb', 1, ['c', 'B', 'c'], [1])], True)
            def long_inputs(r, tn, n=n):
                x = r.random()
                return ['a'] * n + ['b'] * r.randint(0, 2) if x < 0.3 else ['a'] * r.randint(0, 5) if x < 0.4 else ['c'] * r.randint(0, 2) + ['b', 'c'] + ['c'] * r.randint(0, 2)
            lg.inputs_fn = long_inputs
            pool[r.randrange(2)] = lg
        pool += [bad_variant(r, pool[0]), gen_def_grammar(r)]
        lines = ['case H-%d-%d history' % (seed, i)]
        for gid, g in enumerate(pool): lines += g.text(gid)
        # descriptions: a good one and rejected ones (syntax error, invalid character, conflicting codes)
        dorder, _, _ = gen_descr_ast(r)
        dtext = render_descr(r, dorder)
        y = r.random()
        dbad = dtext[:r.randint(0, len(dtext))].encode('latin1') if y < 0.4 else inject_invalid(r, dtext) if y < 0.8 else b"TERM a = 1 a = 2; S : a;"
        lines.append('text 0 %s' % dtext.encode('latin1').hex())
        lines.append('text 1 %s' % dbad.hex())
        n = 0
        def op(s):
            nonlocal n
            n += 1; lines.append('op %d %s' % (n, s))
        alive = [False] * 3; defined = [None] * 3; nparse = [0] * 3; freed = [set() for _ in range(3)]
        inputs = {}
        for gid in (0, 1):
            inputs[gid] = gen_inputs(r, pool[gid], 4, 6) if getattr(pool[gid], 'inputs_fn', None) is None else \
                          [pool[gid].inputs_fn(r, [n_ for n_, _ in pool[gid].terms])[:330] for _ in range(6)]
        def set_burst(h, k):
            for key in r.sample(['la', 'one', 'cost', 'rec', 'match', 'debug'], k):
                v = {'la': r.choice([-2, 0, 1, 2, 5]), 'one': r.choice([0, 1, 1, 7]), 'cost': r.choice([0, 0, 1]), 'rec': r.choice([0, 1]),
                     'match': r.choice([1, 2, 3, 4, 3, 2, 0, -1, -7, 1000]), 'debug': r.choice([0, 0, 1, 2])}[key]
                op('set %d %s %d' % (h, key, v))
        for _ in range(r.randint(8, maxops)):
            h = r.randrange(3)
            if not alive[h]:
                op('create %d' % h); alive[h] = True; defined[h] = None; nparse[h] = 0; freed[h] = set()
                continue
            x = r.random()
            if x < 0.05:
                # (re)definition by a description; a rejected one leaves the object undefined
                tid = r.choice([0, 1, 1])
                op('descr %d %d %d' % (h, tid, r.randint(0, 1))); defined[h] = None
            elif x < 0.22:
                gid = r.choice([0, 0, 1, 1, 2, 3])
                op('def %d %d' % (h, gid)); defined[h] = gid
                kk = getattr(pool[gid], 'ctx_k', None) if gid < 2 else None
                if kk and r.random() < 0.7 and nparse[h] < 55:
                    # all contexts first, then an input that starts with a late one, on the same object
                    g = pool[gid]
                    op('set %d la 2' % h); op('set %d rec 0' % h)
                    longs = [t for j in range(kk) for t in ('x%d' % j, 'z', 'y%d' % j)]
                    for toks in (longs, longs if r.random() < 0.3 else ['x%d' % (kk - 1), 'z', 'y%d' % (kk - 1)], ['x%d' % (kk - 2), 'z', 'y%d' % (kk - 2)]):
                        op('parse %d user user 15 %s' % (h, ' '.join(str(g.code(t)) for t in toks))); nparse[h] += 1
            elif x < 0.40:
                # one setting, or a burst of several (conjunctions of flags; every setter also
                # reads the previous value back)
                set_burst(h, r.choice([1, 1, 1, 2, 3, 6]))
            elif x < 0.78:
                gid = defined[h] if defined[h] in (0, 1) else r.choice([0, 1])
                g = pool[gid]
                toks = r.choice(inputs[gid])
                codes = [g.code(t) for t in toks]
                y = r.random()
                if y < 0.12 and g.terms:
                    cs = sorted(c for _, c in g.terms)
                    bad = r.choice([cs[0] + 1 if len(cs) > 1 and cs[1] > cs[0] + 1 else cs[-1] + 1, cs[-1] + 5, max(0, cs[0] - 1) if cs[0] > 0 else cs[-1] + 2, 123456])
                    if bad not in cs and bad <= 2147483647: codes.insert(r.randint(0, len(codes)), bad)   # token codes are ints
                ak, fk = ('user', 'user')
                if y > 0.9: ak, fk = r.choice([('null', 'user'), ('null', 'null'), ('user', 'null')])
                if nparse[h] < 60:
                    op(('parse %d %s %s 15 %s' % (h, ak, fk, ' '.join(map(str, codes)))).strip()); nparse[h] += 1
                    # a parse must leave every setting as it was: read some of them back
                    if r.random() < 0.3: set_burst(h, r.choice([2, 3, 6]))
            elif x < 0.86:
                op('err %d' % h)
            elif x < 0.93 and nparse[h] > 0:
                slot = r.randrange(nparse[h])
                if slot not in freed[h]:
                    op('freetree %d %d 1' % (h, slot)); freed[h].add(slot)
            else:
                op('free %d' % h); alive[h] = False
        # trees outlive the grammar: free every object, then the remaining trees
        order = [h for h in range(3) if alive[h]]; r.shuffle(order)
        pending = []
        for h in order:
            for slot in range(nparse[h]):
                if slot not in freed[h]: pending.append((h, slot))
        r.shuffle(pending)
        cut = r.randint(0, len(pending))
        for (h, slot) in pending[:cut]: op('freetree %d %d 1' % (h, slot))
        for h in order: op('free %d' % h)
        for (h, slot) in pending[cut:]: op('freetree %d %d 1' % (h, slot))
        lines.append('end')
        cases.append(lines)
    return cases


WS = [' ', '  ', '\n', '\t', ' \n ', '/* c */', ' /* x\ny **/ ', '\n\n', '', '/*/ c */', '/**/', '/*//*/', '/***/', '/* / * */']


def gen_descr_ast(r):
    """an AST in the description syntax + the twin callback grammar it denotes"""
    nid = r.randint(0, 3); nch = r.randint(0, 3)
    if nid + nch == 0: nch = 1
    idterms = []
    used_codes = set()
    # explicit codes just above 255 in descending / scattered order next to implicit terminals:
    # the search for the next free implicit code has to skip them whatever their order
    crowded = r.random() < 0.15
    if crowded:
        nid = r.randint(3, 6)
        pool = r.sample(range(256, 256 + nid + 2), nid)
        if r.random() < 0.6: pool.sort(reverse=True)
    for i in range(nid):
        name = r.choice(['NUM', 'ID', 'tok', 'T_%d' % i, 'x%d' % i]) + ('' if i == 0 else str(i))
        if crowded:
            code = pool[i] if r.random() < 0.6 else None
            if code is not None: used_codes.add(code)
            idterms.append((name, code)); continue
        if r.random() < 0.5:
            code = r.choice([1, 7, 200, 256, 257, 300, 1000, 70000])
            while code in used_codes: code += 1
            used_codes.add(code)
        else: code = None
        idterms.append((name, code))
    chars = r.sample(list('abcxyz+*-()'), nch)
    chterms = ["'%s'" % c for c in chars]
    tn = [n for n, _ in idterms] + chterms
    use_err = r.random() < 0.2
    nts = ['S', 'A', 'B', 'Cc'][:r.randint(1, 4)]
    names = iter('pqrstuvw' * 8)
    rules = []      # (lhs, [alts]) alt = (rhs, transkind, anode, cost(None=default), tr)
    for nt in nts:
        alts = []
        for _ in range(r.randint(1, 3)):
            n = r.choice([0, 1, 1, 2, 2, 3])
            rhs = []
            for _ in range(n):
                x = r.random()
                if x < 0.4: rhs.append(r.choice(nts))
                elif use_err and x < 0.5: rhs.append('error')
                else: rhs.append(r.choice(tn))
            k = r.random()
            if k < 0.45:
                idx = list(range(n)); r.shuffle(idx); idx = idx[:r.randint(0, n)]
                tr = list(idx)
                if r.random() < 0.3: tr.insert(r.randint(0, len(tr)), NIL)
                cost = r.choice([None, None, 0, 2, 5])
                paren = True if tr else r.random() < 0.5
                alts.append((rhs, 'anode', next(names) + nt.lower(), cost, tr, paren))
            elif k < 0.65 and n > 0: alts.append((rhs, 'num', None, None, [r.randrange(n)], False))
            elif k < 0.75: alts.append((rhs, 'dash', None, None, [NIL], False))
            elif k < 0.85: alts.append((rhs, 'hash', None, None, [], False))
            else: alts.append((rhs, 'none', None, None, [], False))
        rules.append((nt, alts))
    # sections: TERM sections anywhere, redeclarations (consistent)
    sections = []
    decls = list(idterms)
    r.shuffle(decls)
    cut = r.randint(0, len(decls))
    first, second = decls[:cut], decls[cut:]
    if r.random() < 0.3 and idterms: second = second + [r.choice(idterms)]     # harmless redeclaration
    if r.random() < 0.3 and idterms:
        # the same terminal declared with and without its code, in either order and section
        nm, cd = r.choice(idterms)
        extra = (nm, None)
        if r.random() < 0.5: first = first[:] ; first.insert(r.randint(0, len(first)), extra)
        else: second = second[:]; second.insert(r.randint(0, len(second)), extra)
    order = [('terms', first)] + [('rule', x) for x in rules]
    if second or r.random() < 0.2: order.insert(r.randint(0, len(order)), ('terms', second))
    if not first and r.random() < 0.5: order = order[1:] if len(order) > 1 else order
    return order, idterms, chterms


def gen_big_descr_ast(r):
    """a description whose parts outgrow the initial sizes of the description reader's containers:
    dozens of declared terminals (some with very long names), dozens of rules, one rule with a
    right-hand side and a translation list of 64-200 elements"""
    T = r.choice([25, 60, 150]); N = r.choice([12, 40, 100]); L = r.choice([64, 65, 70, 200])
    used = set(); idterms = []
    for i in range(T):
        name = 'K%d' % i + ('q' * r.choice([90, 300]) if i % 23 == 5 else '')
        code = None
        if r.random() < 0.3:
            code = r.choice([300, 1000, 5000]) + i
            while code in used: code += 1
            used.add(code)
        idterms.append((name, code))
    tn = [n for n, _ in idterms]
    rules = []
    long_rhs = [tn[j % T] for j in range(L)]
    rules.append(('S', [(['N0'], 'num', None, None, [0], False),
                        (long_rhs, 'anode', 'big', r.choice([None, 3]), list(range(L)) if r.random() < 0.7 else list(range(L - 1, -1, -1)), True)]))
    for i in range(N):
        nxt = 'N%d' % (i + 1)
        alts = [([tn[i % T]], 'anode', 'l%d' % i, None, [0], True)]
        if i + 1 < N: alts.insert(0, ([tn[(i * 7 + 1) % T], nxt], 'anode', 'c%d' % i, r.choice([None, 0, 2]), [0, 1], True))
        if i % 9 == 4: alts.append((["'%s'" % 'abc'[i % 3], tn[i % T]], 'num', None, None, [1], False))
        rules.append(('N%d' % i, alts))
    cut = r.randint(0, T)
    order = [('terms', idterms[:cut])] + [('rule', x) for x in rules]
    order.insert(r.randint(1, len(order)), ('terms', idterms[cut:]))
    return order, idterms, []


def render_descr(r, order):
    def w(): return r.choice(WS) if r.random() < 0.5 else ' '
    out = []
    for kind, item in order:
        if kind == 'terms':
            out.append(w() + 'TERM' + ' ')
            for name, code in item:
                out.append(w() + name + ' ')
                if code is not None: out.append(w() + '=' + w() + str(code) + ' ')
            if r.random() < 0.6: out.append(w() + ';')
        else:
            lhs, alts = item
            out.append(w() + lhs + w() + ':')
            for ai, (rhs, kind2, anode, cost, tr, paren) in enumerate(alts):
                if ai: out.append(w() + '|')
                for sy in rhs: out.append(w() + sy + ' ')
                if kind2 == 'anode':
                    out.append(w() + '#' + w() + anode + ' ')
                    if cost is not None: out.append(w() + str(cost) + ' ')
                    if paren:
                        out.append(w() + '(')
                        for e in tr: out.append(w() + ('-' if e == NIL else str(e)) + ' ')
                        out.append(w() + ')')
                elif kind2 == 'num': out.append(w() + '#' + w() + str(tr[0]) + ' ')
                elif kind2 == 'dash': out.append(w() + '#' + w() + '-')
                elif kind2 == 'hash': out.append(w() + '#')
            if r.random() < 0.6: out.append(w() + ';')
    out.append(w())
    return ''.join(out)


def descr_twin(order):
    """the callback grammar the manual says the description denotes"""
    seen = []; codes = {}
    for kind, item in order:
        if kind == 'terms':
            for name, code in item:
                if name not in seen: seen.append(name)
                if code is not None: codes[name] = code
        else:
            for (rhs, *_rest) in item[1]:
                for sy in rhs:
                    if sy.startswith("'") and sy not in seen:
                        seen.append(sy); codes[sy] = ord(sy[1])
    used = set(codes.values()); nxt = 256; terms = []
    for name in seen:
        if name in codes: terms.append((name, codes[name]))
        else:
            while nxt in used: nxt += 1
            terms.append((name, nxt)); nxt += 1
    rules = []
    for kind, item in order:
        if kind != 'rule': continue
        lhs, alts = item
        for (rhs, kind2, anode, cost, tr, paren) in alts:
            rules.append((lhs, anode, (1 if cost is None else cost) if anode else 0, list(rhs), list(tr)))
    return terms, rules


def mutate_text(r, text):
    b = bytearray(text.encode('latin1'))
    for _ in range(r.randint(1, 3)):
        k = r.random()
        pos = r.randint(0, len(b))
        if k < 0.3 and b: del b[min(pos, len(b) - 1)]
        elif k < 0.6: b.insert(pos, r.choice(b"'#|;:=()-/*aT0 \n\x80\xff9E"))
        elif b: b[min(pos, len(b) - 1)] = r.choice(b"'#|;:=()-/*aT0 \n\x80\xff9E")
    return bytes(x for x in b if x != 0)


INVALID_BYTES = b"@$%,?!&~`^[]{}<>\\\"+._/"
def inject_invalid(r, text):
    """an otherwise well-formed description with one character outside the description alphabet"""
    b = bytearray(text.encode('latin1'))
    b.insert(r.randint(0, len(b)), r.choice(INVALID_BYTES))
    return bytes(b)


_YACC = None
def yacc_sentence(r):
    """a random sentence (as description text) of the yacc grammar CURRENTLY in /repo/src/sgramm.y,
    40 % of them with one token deleted / duplicated / swapped: the search stream for inputs on
    which the hand-written description parser model and the generated parser disagree"""
    global _YACC
    if _YACC is None:
        import extract_consts, build
        y = open(os.path.join(build.REPO, 'src', 'sgramm.y')).read()
        prods = extract_consts.yacc_productions(y)
        d = {}
        for l, rhs in prods: d.setdefault(l, []).append(rhs)
        m = re.search(r'^%start\s+(\w+)', y, re.M)
        _YACC = (d, m.group(1) if m else (prods[0][0] if prods else 'file'))
    d, start = _YACC
    out = []
    def expand(sym, depth):
        if len(out) > 60: return
        if sym not in d: out.append(sym); return
        alts = d[sym]
        if depth > 6:
            alts = sorted(alts, key=lambda a: (sum(1 for x in a if x in d), len(a)))[:max(1, len(alts) // 2)]
        for x in r.choice(alts): expand(x, depth + 1)
    expand(start, 0)
    if out and r.random() < 0.4:
        k = r.randrange(len(out)); m = r.random()
        if m < 0.4: del out[k]
        elif m < 0.7: out.insert(k, out[k])
        elif len(out) > 1:
            j = r.randrange(len(out)); out[k], out[j] = out[j], out[k]
    def lexeme(t):
        if t == 'IDENT': return r.choice(['a', 'b', 'x1', 'S', 'e_', 'error'])
        if t == 'SEM_IDENT': return r.choice(['S', 'a', 'n2']) + r.choice([':', ' :', '\n:'])
        if t == 'CHAR': return "'%s'" % r.choice('abc+*(')
        if t == 'NUMBER': return str(r.choice([0, 1, 2, 3, 7, 300]))
        if t == 'TERM': return 'TERM'
        if len(t) >= 3 and t[0] == "'" and t[-1] == "'": return t[1:-1]
        return t
    return ' '.join(lexeme(t) for t in out).encode('latin1', 'replace')


def gen_descr_cases(seed, count):
    r = random.Random(seed)
    cases = []
    for i in range(count):
        order, idterms, chterms = gen_big_descr_ast(r) if r.random() < 0.03 else gen_descr_ast(r)
        text = render_descr(r, order)
        strict = r.randint(0, 1)
        terms, rules = descr_twin(order)
        twin = Grammar(terms, rules, bool(strict))
        c = ['case C11-%d-%d descr' % (seed, i)] + twin.text(0)
        mode = r.random()
        if mode < 0.6:
            data = text.encode('latin1')
        elif mode < 0.72:
            data = mutate_text(r, text)
        elif mode < 0.8:
            data = inject_invalid(r, text)
        elif mode < 0.9:
            data = yacc_sentence(r)
        else:
            data = bytes(r.choice(b"TERM ;:|#'ab()-=/*\n 019\x80") for _ in range(r.randint(0, 40)))
        c.append('text 0 %s' % data.hex())
        n = 0
        def op(s):
            nonlocal n
            n += 1; c.append('op %d %s' % (n, s))
        if r.random() < 0.3:
            # a rejected description first (a truncated or damaged one, on another object): nothing
            # of it may leak into the next description (static state of the description parser)
            o2, _, _ = gen_descr_ast(r)
            t2 = render_descr(r, o2)
            y = r.random()
            bad = t2[:r.randint(0, len(t2))].encode('latin1') if y < 0.4 else mutate_text(r, t2) if y < 0.7 else inject_invalid(r, t2)
            c.append('text 1 %s' % bad.hex())
            op('create 2'); op('descr 2 1 %d' % r.randint(0, 1)); op('err 2')
            if r.random() < 0.5: op('free 2')
        op('create 0'); op('descr 0 0 %d' % strict); op('err 0')
        op('create 1'); op('def 1 0')
        if mode < 0.6 and py_check(terms, rules, bool(strict)) == 0:
            ins = gen_inputs(r, twin, 2, 6)
            one = r.choice([0, 0, 1]); cost = r.choice([0, 1])
            for h in (0, 1):
                op('set %d rec 0' % h)
                op('set %d one %d' % (h, one))
                if cost: op('set %d cost 1' % h)
            for toks in ins:
                codes = ' '.join(str(twin.code(t)) for t in toks)
                for h in (0, 1):
                    op(('parse %d user user 15 %s' % (h, codes)).strip())
        else:
            op('parse 0 user user 1')
        op('free 0'); op('free 1')
        c.append('end')
        cases.append(c)
    return cases


def gen_descr_sweep_cases(seed, tier='quick'):
    """growth boundaries of the description reader's containers, one case per size: the length of one
    alternative (right-hand side and translation list), the number of declared terminals, the number of
    rules - every value of a range, because the interesting ones (a segment or a VLO that is exactly
    full) depend on what precedes them"""
    r = random.Random(seed)
    cases = []
    def mk(cid, order, sentence):
        text = render_descr(r, order) if r.random() < 0.3 else render_plain(order)
        terms, rules = descr_twin(order)
        twin = Grammar(terms, rules, False)
        c = ['case %s descr' % cid] + twin.text(0) + ['text 0 %s' % text.encode('latin1').hex()]
        ops = ['create 0', 'descr 0 0 0', 'err 0', 'create 1', 'def 1 0']
        codes = ' '.join(str(twin.code(t)) for t in sentence)
        for h in (0, 1): ops += ['set %d rec 0' % h]
        for h in (0, 1): ops += [('parse %d user user 15 %s' % (h, codes)).strip()]
        ops += ['free 0', 'free 1']
        c += ['op %d %s' % (i + 1, o) for i, o in enumerate(ops)] + ['end']
        cases.append(c)
    top = 520 if tier == 'thorough' else 230
    for k in (0, 2):
        for n in range(1, top + 1):
            rhs = ['a' if j % 2 == 0 else 'b' for j in range(n)]
            rules = []
            if k:
                rules.append(('S', [(['R'], 'num', None, None, [0], False), (['b', 'b'], 'anode', 'bb', None, [0, 1], True)]))
                rules.append(('Q', [(['a'], 'num', None, None, [0], False)]))
            rules.append(('R', [(rhs, 'anode', 'Rec', None, list(range(n)), True)]))
            order = [('terms', [('a', None), ('b', None)])] + [('rule', x) for x in rules]
            mk('SWL-%d-%d' % (k, n), order, rhs)
    for t in range(1, 90 if tier != 'thorough' else 260):
        terms = [('T%d' % j, None if j % 3 else 400 + j) for j in range(t)]
        order = [('terms', terms), ('rule', ('S', [([terms[j][0] for j in range(0, t, max(1, t // 5))], 'anode', 's', None, [0], True)]))]
        mk('SWT-%d' % t, order, [terms[j][0] for j in range(0, t, max(1, t // 5))])
    for n in range(1, 70 if tier != 'thorough' else 200):
        rules = [('N%d' % j, [(['a', 'N%d' % (j + 1)], 'anode', 'c%d' % j, None, [0, 1], True)]) for j in range(n - 1)] + \
                [('N%d' % (n - 1), [(['b'], 'num', None, None, [0], False)])]
        order = [('terms', [('a', None), ('b', None)])] + [('rule', x) for x in rules]
        mk('SWR-%d' % n, order, ['a'] * (n - 1) + ['b'])
    return cases


def render_plain(order):
    """one fixed, minimal layout"""
    out = []
    for kind, item in order:
        if kind == 'terms':
            out.append('TERM ' + ' '.join(n if c is None else '%s = %d' % (n, c) for n, c in item) + ' ;')
        else:
            lhs, alts = item; parts = []
            for (rhs, kind2, anode, cost, tr, paren) in alts:
                t = ' '.join(rhs)
                if kind2 == 'anode':
                    t += ' # ' + anode + ('' if cost is None else ' %d' % cost) + (' ( ' + ' '.join('-' if e == NIL else str(e) for e in tr) + ' )' if paren else '')
                elif kind2 == 'num': t += ' # %d' % tr[0]
                elif kind2 == 'dash': t += ' # -'
                elif kind2 == 'hash': t += ' #'
                parts.append(t)
            out.append(lhs + ' : ' + ' | '.join(parts) + ' ;')
    return '\n'.join(out) + '\n'


def gen_big_symbol_cases(seed, count):
    """grammars with hundreds of terminals / nonterminals and 300-character names: the symbol
    hash tables, object stacks and VLOs of both implementations grow past their initial sizes"""
    r = random.Random(seed)
    cases = []
    for i in range(count):
        nt = r.choice([250, 400, 650]); nn = r.choice([120, 300])
        longn = 'L' * r.choice([10, 300])
        terms = [('t%d%s' % (k, longn if k % 50 == 0 else ''), 1000 + 2 * k) for k in range(nt)]
        rules = []
        for k in range(nn):
            lhs = 'N%d%s' % (k, longn if k % 60 == 0 else '')
            nxt = 'N%d%s' % (k + 1, longn if (k + 1) % 60 == 0 else '') if k + 1 < nn else None
            t = terms[r.randrange(nt)][0]
            rules.append((lhs, 'a%d' % k, 1, [t] + ([nxt] if nxt else []), [0] + ([1] if nxt else [])))
            if r.random() < 0.3: rules.append((lhs, None, 0, [terms[r.randrange(nt)][0]], [0]))
        g = Grammar(terms, rules, True)
        c = ['case BIG-%d-%d parse' % (seed, i)] + g.text(0)
        n = 0
        def op(s):
            nonlocal n
            n += 1; c.append('op %d %s' % (n, s))
        op('create 0'); op('def 0 0'); op('set 0 rec 0')
        sm = Sampler(g, r)
        for _ in range(2):
            sent = sm.sentence(nn + 2) or [terms[0][0]]
            op('parse 0 user user 13 %s' % ' '.join(str(g.code(t)) for t in sent))
        op('parse 0 user user 13 %d %d' % (terms[0][1], terms[1][1]))
        # redefinition of the same object after its containers have grown (they are emptied, not
        # recreated): a second, different grammar that again needs more than the first segments
        k2 = r.choice([150, 300])
        t2 = [('u%d' % j, 5 + 3 * j) for j in range(k2)]
        g2 = Grammar(t2, [('S', 's3', 1, [t2[-1][0], t2[k2 // 2][0], t2[0][0]], [0, 1, 2]),
                          ('S', 'long' + 'Z' * r.choice([5, 400]), 2, [t2[1][0]] * r.choice([2, 70]), [0])], True)
        c[1:1] = []
        gi = c.index('endgram') + 1
        c[gi:gi] = g2.text(1)
        op('def 0 1'); op('parse 0 user user 13 %d %d %d' % (t2[-1][1], t2[k2 // 2][1], t2[0][1]))
        op('def 0 0'); op('parse 0 user user 13 %d' % terms[0][1])
        op('free 0')
        c.append('end')
        cases.append(c)
    return cases


def gen_name_length_cases(seed, count):
    """small grammars whose symbol names have lengths around the segment arithmetic of the object
    stacks (a first object larger than a segment gives a segment of odd length; a later object
    then ends in its last partial word): name lengths swept, in the callbacks and in histories of
    one object"""
    r = random.Random(seed)
    cases = []
    for i in range(count):
        l1 = r.choice([r.randint(340, 360), r.randint(500, 530), r.randint(780, 830), r.randint(1000, 1100)])
        # a top object of l1 + c bytes gets a segment of 1.5 x that + 1 bytes: a second name of about
        # l1 / 2 - 55 characters ends in the last (partial) word of the segment (measured: 350 -> 120..126,
        # 520 -> 200..205, 803 -> 344..350; the constant depends on structure sizes, so the window is wide)
        l2 = max(1, r.choice([l1 // 2 - r.randint(40, 72), l1 // 2 - r.randint(40, 72), r.randint(300, 400), r.randint(1, 40)]))
        long1 = 'L' * l1; mid = 'M' * l2
        style = r.random()
        if style < 0.5:
            terms = [('a', 97), ('b', 98)]
            rules = [('S', 's', 1, [long1, mid], [0, 1]), (long1, 'l', 1, ['a'], [0]), (mid, 'm', 1, ['b'], [0])]
        else:
            terms = [(long1, 97), (mid, 98), ('c' * r.randint(1, 9), 99)]
            rules = [('S', 's', 1, [long1, mid, terms[2][0]], [0, 1, 2])]
        g = Grammar(terms, rules, True)
        c = ['case NAMES-%d-%d parse' % (seed, i)] + g.text(0)
        n = 0
        def op(s):
            nonlocal n
            n += 1; c.append('op %d %s' % (n, s))
        op('create 0'); op('def 0 0'); op('set 0 rec 0')
        op('parse 0 user user 13 97 98' + (' 99' if style >= 0.5 else ''))
        if r.random() < 0.5: op('def 0 0'); op('parse 0 user user 13 97 98' + (' 99' if style >= 0.5 else ''))
        op('free 0')
        c.append('end')
        cases.append(c)
    return cases


def gen_hostile_cases(seed, count):
    """inputs at the edge of the API preconditions: arbitrary bytes as descriptions, very long
    names, many symbols, sparse/dense codes, arbitrary ints as tokens, extreme setter values,
    all debug levels"""
    r = random.Random(seed)
    cases = []
    INTS = [0, 1, -1, 2, 3, 7, 100, 2 ** 31 - 1, -2 ** 31, 2 ** 30, -5]
    for i in range(count):
        kind = r.random()
        c = ['case HOST-%d-%d hostile' % (seed, i)]
        n = 0
        def op(s):
            nonlocal n
            n += 1; c.append('op %d %s' % (n, s))
        if kind < 0.35:
            # arbitrary / adversarial description text
            k = r.random()
            if k < 0.4:
                data = bytes(r.randrange(1, 256) for _ in range(r.randint(0, 60)))
            elif k < 0.7:
                alphabet = b"TERM ;:|#'ab()-=/*\n 019_Zz\x80\xff"
                data = bytes(r.choice(alphabet) for _ in range(r.randint(0, 80)))
            else:
                order, _, _ = gen_descr_ast(r)
                data = mutate_text(r, render_descr(r, order))
                if r.random() < 0.3: data += r.choice([b"'", b"/*", b"/", b"# 99999999999999999999", b"TERM x = 99999999999", b"'\x80'"])
                if r.random() < 0.25:
                    # long identifiers in the diagnostics of the description reader (fixed-size buffers)
                    nm = b'Q' * r.choice([98, 99, 100, 101, 150, 199, 200, 300, 1000])
                    data = r.choice([b"TERM " + nm + b" = 1 " + nm + b" = 2 ; S : " + nm + b" ;",
                                     b"TERM " + nm + b" ; " + nm + b" : 'a' ;",
                                     b"S : " + nm + b" ; " + nm + b" : " + nm + b" ;",
                                     b"TERM a = 1 " + nm + b" = 1 ; S : a ;"])
            c.append('text 0 %s' % data.hex())
            op('create 0'); op('set 0 debug %d' % r.choice([0, 0, 3, 6])); op('descr 0 0 %d' % r.randint(0, 1)); op('err 0')
            op('parse 0 user user 1 %s' % ' '.join(str(r.choice([0, 97, 256, 300])) for _ in range(r.randint(0, 3))))
            op('free 0')
        elif kind < 0.55:
            # long names / undefined nonterminals with long names (error message buffer)
            ln = r.choice([150, 199, 200, 201, 300, 1000])
            big = 'Q' * ln
            terms = [('a', 97), (big + 't', 98)] if r.random() < 0.5 else [('a', 97)]
            variants = [
                [('S', None, 0, [big], [0])],                                   # nonterminal that derives nothing
                [('S', None, 0, ['a'], [0]), (big, None, 0, ['a'], [0])],       # unreachable
                [('S', None, 0, [big], [0]), (big, None, 0, [big], [0])],       # loop
                [(big, 'n', -1, ['a'], [0])],                                   # negative cost
                [(big, 'n', 1, ['a'], [5])],                                    # bad translation number
                [(big, 'n', 1, ['a', 'a'], [0, 0])],
                [(big + 't', None, 0, ['a'], [0])] if len(terms) > 1 else [('a', None, 0, ['a'], [0])],   # terminal as lhs
                [(big, big, 1, ['a'], [0])],                                    # fine, long anode name
            ]
            g = Grammar(terms + ([(big + 't', 99)] if r.random() < 0.2 else []), r.choice(variants), r.random() < 0.7)
            c += g.text(0)
            op('create 0'); op('def 0 0'); op('err 0'); op('parse 0 user user 15 97'); op('free 0')
        elif kind < 0.8:
            # arbitrary int token sequences and extreme settings on a valid grammar
            g = gen_grammar(r, err_prob=0.3)
            c += g.text(0)
            op('create 0'); op('def 0 0')
            for _ in range(r.randint(1, 5)):
                op('set 0 %s %d' % (r.choice(['la', 'debug', 'one', 'cost', 'rec', 'match']), r.choice(INTS)))
            op('set 0 debug %d' % r.choice([0, 0, 1, 2, 3, 4, 5, 6, 7, -1]))
            codes = [c0 for _, c0 in g.terms]
            for _ in range(r.randint(1, 3)):
                toks = []
                for _ in range(r.randint(0, 9)):
                    x = r.random()
                    toks.append(r.choice(codes) if x < 0.8 or not codes else r.choice(INTS + [c0 + 1 for c0 in codes]))
                op(('parse 0 %s %s 15 %s' % (r.choice(['user', 'user', 'null']), r.choice(['user', 'user', 'null']), ' '.join(map(str, toks)))).strip())
            op('free 0')
        elif kind < 0.803:
            # more than a thousand dynamic-lookahead contexts on one object (the tables that number
            # them have to grow): X predicted in the context {ti} for every i
            k = r.choice([1030, 1100, 1300])
            terms = [('t%d' % j, 10 + j) for j in range(k)] + [('x', 5)]
            # (flat: `S : I S | I ; I : ti X ti` -- a chain of k nonterminals would cost the list-based
            # analysis of the judge k rounds)
            rules = [('S', None, 0, ['I', 'S'], None), ('S', None, 0, ['I'], None)] + \
                    [('I', None, 0, ['t%d' % j, 'X', 't%d' % j], None) for j in range(k)] + [('X', None, 0, ['x'], None)]
            g = Grammar(terms, rules, True)
            c += g.text(0)
            op('create 0'); op('def 0 0'); op('set 0 rec 0'); op('set 0 la 2')
            toks = [cd for j in range(k) for cd in (10 + j, 5, 10 + j)]
            op('parse 0 user user 0 %s' % ' '.join(map(str, toks)))
            op('set 0 la 1'); op('parse 0 user user 0 %s' % ' '.join(map(str, toks[:30])))
            op('free 0')
        else:
            # many symbols with sparse / dense codes
            k = r.choice([70, 130, 260])
            style = r.random()
            codes = list(range(k)) if style < 0.4 else [3 * j + 1 for j in range(k)] if style < 0.7 else sorted(r.sample(range(0, 2 ** 31 - 1), k))
            terms = [('t%d' % j, codes[j]) for j in range(k)]
            rules = [('S', None, 0, ['S', 't%d' % r.randrange(k)], None), ('S', None, 0, [], None)] + \
                    [('S', 'n%d' % j, 1, ['t%d' % r.randrange(k), 'S'], [1, 0]) for j in range(r.randint(0, 5))]
            g = Grammar(terms, rules, True)
            c += g.text(0)
            op('create 0'); op('def 0 0'); op('set 0 la %d' % r.choice([0, 1, 2]))
            toks = [r.choice(codes) for _ in range(r.randint(0, 12))] + ([r.choice(codes) + 1] if r.random() < 0.5 else [])
            op(('parse 0 user user 15 %s' % ' '.join(map(str, toks))).strip())
            op('parse 0 user user 15 %s' % ' '.join(map(str, toks[:3])))
            op('free 0')
        c.append('end')
        cases.append(c)
    return cases


if __name__ == '__main__':
    seed = int(sys.argv[1]); count = int(sys.argv[2]); focus = sys.argv[3] if len(sys.argv) > 3 else 'C01'
    for c in gen_parse_cases(seed, count, focus):
        print('\n'.join(c))
