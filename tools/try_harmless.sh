#!/bin/bash
# usage: try_harmless.sh <patch> [props...] : apply a behaviour-preserving change to /repo, run the quick checks
# (all 19 by default), undo.  Every check should stay green; a `no-failing-input-found` alarm is a broken tie.
P=$1; shift
PROPS=${@:-C01 C02 C03 C04 C05 C06 C07 C08 C09 C10 C11 C12 C13 C14 C15 C16 C17 C18 C19}
git -C /repo apply "$P" || exit 2
export VERIF_EVIDENCE_DIR=/tmp/verif-harmless-evidence
for c in $PROPS; do VERIF_NOSHRINK=1 /verif/check $c 2>&1 | grep -v "^KNOWN" | cut -c1-300 | head -4; done
git -C /repo checkout -- .
