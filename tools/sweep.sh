#!/bin/bash
# clean-tree sweep of all quick checks at several seeds (evidence redirected)
cd /verif
for sd in "$@"; do
  for p in C01 C02 C03 C04 C05 C06 C07 C08 C09 C10 C11 C12 C13 C14 C15 C16 C17 C18 C19; do
    VERIF_EVIDENCE_DIR=/tmp/verif-ev-sweep-$sd ./check $p --seed $sd 2>&1 | grep -v "^KNOWN" | head -3 | cut -c1-300 | sed "s/^/[seed $sd] /"
  done
done
echo SWEEP-DONE
