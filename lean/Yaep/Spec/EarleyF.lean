import Yaep.Model.Earley
/-!
# Declarative Earley items with a lookahead filter

`EarleyF g ok w j it`: item `it` belongs to Earley set `j` for the token string `w`, where
`ok j r d` is the lookahead filter applied to the items `(r, d)` created in set `j` by a
scan and by a completion whose completed item has an origin `k < j`.  Predictions and
completions with `k = j` are not filtered (this is what `build_new_set` does).
-/
namespace Yaep

/-- the token segment `w[i, j)` -/
def slice (w : List Nat) (i j : Nat) : List Nat := (w.drop i).take (j - i)

inductive EarleyF (g : Grammar) (ok : Nat → Nat → Nat → Bool) (w : List Nat) :
    Nat → Item → Prop where
  | init {r : Nat} {rl : Rule} : g.rules[r]? = some rl → rl.lhs = g.axiomN →
      EarleyF g ok w 0 ⟨r, 0, 0⟩
  | scan {j r d i a : Nat} : EarleyF g ok w j ⟨r, d, i⟩ → g.nextSym r d = some (Sym.t a) →
      w[j]? = some a → ok (j+1) r (d+1) = true → EarleyF g ok w (j+1) ⟨r, d+1, i⟩
  | predict {j r d i B r' : Nat} {rl' : Rule} : EarleyF g ok w j ⟨r, d, i⟩ →
      g.nextSym r d = some (Sym.n B) → g.rules[r']? = some rl' → rl'.lhs = B →
      EarleyF g ok w j ⟨r', 0, j⟩
  | complete {j k r d i r' : Nat} {rl' : Rule} : g.rules[r']? = some rl' →
      EarleyF g ok w j ⟨r', rl'.rhs.length, k⟩ → EarleyF g ok w k ⟨r, d, i⟩ →
      g.nextSym r d = some (Sym.n rl'.lhs) → (k < j → ok j r (d+1) = true) →
      EarleyF g ok w j ⟨r, d+1, i⟩

/-- the filter `parseLoop` uses for set `j` (`j ≥ 1`) when the whole token string (end marker
included) is `w'`: the lookahead token of set `j` is `w'[j]`. -/
def laFilter (g : Grammar) (an : Analysis) (la : Nat) (w' : List Nat) : Nat → Nat → Nat → Bool :=
  fun j r d => okItem g an la w'[j]? r d

/-- set `m` has an item with the terminal `w[m]` after the dot -/
def HasTransF (g : Grammar) (ok : Nat → Nat → Nat → Bool) (w : List Nat) (m : Nat) : Prop :=
  ∃ r d i a, EarleyF g ok w m ⟨r, d, i⟩ ∧ w[m]? = some a ∧ g.nextSym r d = some (Sym.t a)

end Yaep
