import Yaep.Generated
import Yaep.Model.Descr
/-!
# The language of a yacc grammar given as a production list

`Yaep.Generated.sgrammProds` is regenerated from `/repo/src/sgramm.y` on every run
(`tools/extract_consts.py`, semantic actions stripped).  `YDer P s w` is derivability in the
context-free grammar `P`: a symbol without productions is a token kind and derives itself.
bison reports no conflict for `sgramm.y`, so the generated LALR(1) parser accepts exactly this
language (bison is in the trusted base); the theorems of `Props/C11Yacc.lean` state that the
hand-written recursive-descent model `parseFile` accepts exactly the same token sequences.
-/
namespace Yaep

mutual
  inductive YDer (P : List (String × List String)) : String → List String → Prop
    | tok (s : String) : (∀ p ∈ P, p.1 ≠ s) → YDer P s [s]
    | prod (lhs : String) (rhs : List String) (w : List String) :
        (lhs, rhs) ∈ P → YDerSeq P rhs w → YDer P lhs w
  inductive YDerSeq (P : List (String × List String)) : List String → List String → Prop
    | nil : YDerSeq P [] []
    | cons (s : String) (ss : List String) (w1 w2 : List String) :
        YDer P s w1 → YDerSeq P ss w2 → YDerSeq P (s :: ss) (w1 ++ w2)
end

/-- the token kind `yylex` returns for a token of the model lexer (yacc spelling) -/
def tokKind : DTok → String
  | .ident _ => "IDENT"
  | .semIdent _ => "SEM_IDENT"
  | .chr _ => "CHAR"
  | .num _ => "NUMBER"
  | .term => "TERM"
  | .sym c => "'" ++ String.singleton c ++ "'"
  | .eof => "$end"

end Yaep
