import Yaep.Model.Tree
/-!
# Declarative side of C02–C05: what a derivation (parse tree) of a token list *is*

`PT.ValidAt g toks pt X i j` : `pt` is a derivation of `toks[i, j)` from the symbol `X` in
the grammar `g`.  Leaves record their token position, so validity is relative to `toks`.
Nothing here refers to the enumerator `derivSym`; the enumerator is proved sound and
complete against this definition in `Yaep/Props/C02.lean`.
-/
namespace Yaep

mutual
  /-- the terminal numbers at the leaves, left to right -/
  def PT.yield : PT → List Nat
    | .leaf a _ => [a]
    | .node _ kids => PT.yieldList kids
  def PT.yieldList : List PT → List Nat
    | [] => []
    | k :: ks => k.yield ++ PT.yieldList ks
end

mutual
  /-- nesting depth of rule applications: a leaf has depth 0, a node one more than the
  maximum of its children (1 for a node without children) -/
  def PT.depth : PT → Nat
    | .leaf _ _ => 0
    | .node _ kids => 1 + PT.depthList kids
  /-- maximum of the depths of a list of trees (0 for the empty list) -/
  def PT.depthList : List PT → Nat
    | [] => 0
    | k :: ks => max k.depth (PT.depthList ks)
end

mutual
  /-- `pt` derives `toks[i, j)` from `X` -/
  inductive PT.ValidAt (g : Grammar) (toks : List Nat) : PT → Sym → Nat → Nat → Prop where
    | leaf {a i : Nat} : toks[i]? = some a → PT.ValidAt g toks (.leaf a i) (.t a) i (i + 1)
    | node {r : Nat} {rl : Rule} {A : Nat} {kids : List PT} {i j : Nat} :
        g.rules[r]? = some rl → rl.lhs = A → PT.ValidListAt g toks kids rl.rhs i j →
        PT.ValidAt g toks (.node r kids) (.n A) i j
  /-- `kids` derive `toks[i, j)` from the symbol string `Xs`, on consecutive spans -/
  inductive PT.ValidListAt (g : Grammar) (toks : List Nat) :
      List PT → List Sym → Nat → Nat → Prop where
    | nil {i : Nat} : PT.ValidListAt g toks [] [] i i
    | cons {k : PT} {ks : List PT} {X : Sym} {Xs : List Sym} {i m j : Nat} :
        PT.ValidAt g toks k X i m → PT.ValidListAt g toks ks Xs m j →
        PT.ValidListAt g toks (k :: ks) (X :: Xs) i j
end

/-- `pt` is a derivation of the whole token list from the start symbol `$S` (`g.axiomN`) -/
def PT.IsDerivation (g : Grammar) (toks : List Nat) (pt : PT) : Prop :=
  PT.ValidAt g toks pt (.n g.axiomN) 0 toks.length

/-! ## vocabulary for the translation facts -/

/-- `p` is the first right-hand-side position whose translation goes to slot `s`
(the only one, if the slot is used once as `yaep_read_grammar` guarantees) -/
def FirstAt (order : List (Option Nat)) (s p : Nat) : Prop :=
  order[p]? = some (some s) ∧ ∀ q : Nat, q < p → order[q]? ≠ some (some s)

/-- `p` is the first right-hand-side position that has a translation at all -/
def FirstSome (order : List (Option Nat)) (p : Nat) : Prop :=
  (∃ s, order[p]? = some (some s)) ∧ ∀ q : Nat, q < p → ∀ s, order[q]? ≠ some (some s)

end Yaep
