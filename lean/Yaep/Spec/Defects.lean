import Yaep.Model.ReadGrammar
import Yaep.Spec.WellFormed
/-!
# The documented defects of a grammar description, stated on the raw input

`yaep_read_grammar` documents the following defects (error codes in parentheses):
negative (6), repeated (5: name, 7: code) or reserved terminal names/codes, use of the
reserved names `$S`, `$eof` and `error` as ordinary symbols (4), no rules (8), a terminal as
left-hand side (9), several translated symbols without abstract node (10), negative cost (11),
translation index out of range (12) or repeated (13), a nonterminal that can derive itself
(16), a start symbol (strict: any nonterminal) deriving no terminal string (15), and (strict
only) a nonterminal unreachable from the start symbol (14).

The structural defects (4 – 13) are predicates on the raw lists delivered by the
`read_terminal` / `read_rule` callbacks.  The semantic ones (14 – 16) are stated with
`Cyclic`, `Productive`, `Reachable` on the internal grammar `buildGrammar raw` (symbols
numbered in order of creation), which exists for every structurally correct description.
-/
namespace Yaep

/-! ## the internal grammar of a description (`readGrammar` without `check_grammar`) -/

/-- the symbol table and rule list built from the description -/
def buildRG (raw : RawGrammar) : Except ErrCode RG :=
  match readTerms raw.terms {} with
  | .error c => .error c
  | .ok s =>
    if (s.find TERM_ERROR_NAME).isSome then .error 4 else
    match readRules raw.rules
        { (s.addTerm TERM_ERROR_NAME (-2)).1 with errT := (s.addTerm TERM_ERROR_NAME (-2)).2 } with
    | .error c => .error c
    | .ok s' => if s'.startN.isNone then .error 8 else .ok s'

/-- append the implicit rule `$S : error $eof` and freeze the tables -/
def finishRG (s : RG) : Grammar :=
  RG.toGrammar
    { s with rules := s.rules ++ [{ lhs := s.axiomN, rhs := [.t s.errT, .t s.eofT], transLen := 0,
                                    order := [none, none] }] }

/-- the internal grammar, before `check_grammar` -/
def buildGrammar (raw : RawGrammar) : Except ErrCode Grammar :=
  match buildRG raw with
  | .error c => .error c
  | .ok s => .ok (finishRG s)

/-! ## structural correctness -/

def RawGrammar.termNames (raw : RawGrammar) : List String := raw.terms.map (·.1)
def RawGrammar.termCodes (raw : RawGrammar) : List Int := raw.terms.map (·.2)

/-- all the terminal names a rule can refer to: the declared ones and `error` -/
def RawGrammar.allTermNames (raw : RawGrammar) : List String :=
  raw.termNames ++ [TERM_ERROR_NAME]

/-- `$S` and `$eof` are reserved -/
def ReservedName (x : String) : Prop := x = AXIOM_NAME ∨ x = END_MARKER_NAME

/-- a rule without structural defect; `T` are the terminal names (including `error`) -/
structure RuleOK (T : List String) (rr : RawRule) : Prop where
  /-- (4) the left-hand side is not a reserved name -/
  lhsNotReserved : ¬ ReservedName rr.lhs
  /-- (4) no right-hand side symbol is a reserved name -/
  rhsNotReserved : ∀ x ∈ rr.rhs, ¬ ReservedName x
  /-- (9) the left-hand side is not a terminal -/
  lhsNotTerm : rr.lhs ∉ T
  /-- (10) without abstract node at most one symbol is translated -/
  fewTransl : rr.anode = none → ∀ tr, rr.transl = some tr → tr.length ≤ 1
  /-- (11) the cost of an abstract node is not negative -/
  costNonneg : rr.anode.isSome = true → 0 ≤ rr.cost
  /-- (12) every translation index is a right-hand side position or the `nil` marker -/
  translInRange : ∀ tr, rr.transl = some tr → ∀ el ∈ tr, el < rr.rhs.length ∨ el = NIL_TRANSL
  /-- (13) no right-hand side position is translated twice -/
  translNodup : ∀ tr, rr.transl = some tr → (tr.filter (· < rr.rhs.length)).Nodup

/-- a description without structural defect -/
structure StructOK (raw : RawGrammar) : Prop where
  /-- (6) no negative terminal code -/
  codesNonneg : ∀ t ∈ raw.terms, 0 ≤ t.2
  /-- (5) no repeated terminal name -/
  namesNodup : raw.termNames.Nodup
  /-- (7) no repeated terminal code -/
  codesNodup : raw.termCodes.Nodup
  /-- (4) no terminal is called `error` -/
  noErrorTerm : TERM_ERROR_NAME ∉ raw.termNames
  /-- (4) no terminal is called `$S` or `$eof` -/
  noReservedTerm : ∀ x ∈ raw.termNames, ¬ ReservedName x
  /-- (8) there is a rule -/
  hasRules : raw.rules ≠ []
  /-- (4, 9 – 13) every rule is structurally correct -/
  rulesOK : ∀ rr ∈ raw.rules, RuleOK raw.allTermNames rr

/-- the semantic conditions `check_grammar` tests -/
def SemOK (g : Grammar) (strict : Bool) : Prop :=
  ¬ Cyclic g ∧
    (if strict then ∀ A < g.nN, Productive g A ∧ Reachable g A else Productive g g.startN)

/-- a description none of the documented defects applies to -/
def NoDefect (raw : RawGrammar) : Prop :=
  StructOK raw ∧ ∀ g, buildGrammar raw = .ok g → SemOK g raw.strict

/-- the defect documented for an error code is present in the description -/
def DefectOfCode (raw : RawGrammar) : Nat → Prop
  | 4 => TERM_ERROR_NAME ∈ raw.termNames ∨
         (raw.rules ≠ [] ∧ ∃ x ∈ raw.termNames, ReservedName x) ∨
         ∃ rr ∈ raw.rules, ReservedName rr.lhs ∨ ∃ x ∈ rr.rhs, ReservedName x
  | 5 => ¬ raw.termNames.Nodup
  | 6 => ∃ t ∈ raw.terms, t.2 < 0
  | 7 => ¬ raw.termCodes.Nodup
  | 8 => raw.rules = []
  | 9 => ∃ rr ∈ raw.rules, rr.lhs ∈ raw.allTermNames
  | 10 => ∃ rr ∈ raw.rules, rr.anode = none ∧ ∃ tr, rr.transl = some tr ∧ 2 ≤ tr.length
  | 11 => ∃ rr ∈ raw.rules, rr.anode.isSome = true ∧ rr.cost < 0
  | 12 => ∃ rr ∈ raw.rules, ∃ tr, rr.transl = some tr ∧
            ∃ el ∈ tr, rr.rhs.length ≤ el ∧ el ≠ NIL_TRANSL
  | 13 => ∃ rr ∈ raw.rules, ∃ tr, rr.transl = some tr ∧ ¬ (tr.filter (· < rr.rhs.length)).Nodup
  | 14 => raw.strict = true ∧
            ∃ g, buildGrammar raw = .ok g ∧ ∃ A, A < g.nN ∧ ¬ Reachable g A
  | 15 => ∃ g, buildGrammar raw = .ok g ∧
            ∃ A, (if raw.strict then A < g.nN else A = g.startN) ∧ ¬ Productive g A
  | 16 => ∃ g, buildGrammar raw = .ok g ∧ Cyclic g
  | _ => False

end Yaep
