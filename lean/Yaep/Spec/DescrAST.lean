import Yaep.Model.Descr
/-!
# The documented YACC-like description syntax: abstract syntax, meaning, concrete texts

* `DescrAST`: what a description says (TERM sections and rules with alternatives and
  translations).
* `denoteDescr`: the grammar a description denotes, as the manual explains it; this is what
  `yaep_read_grammar` would be given.
* `render`: all the texts of a description -- the tokens in order, separated by arbitrary
  non-empty white space / comments (`Layout.sep`), optional `;` after each item
  (`Layout.semi`), optional white space before the `:` of a rule (`Layout.colonGap`).
-/
namespace Yaep

/-! ## abstract syntax -/

inductive RhsSym where
  | ident (s : String)
  | chr (c : UInt8)
deriving Repr, DecidableEq

/-- the translation part of an alternative: nothing, `#`, `# n`, `# -`,
`# name [cost] [( n - ... )]` (`args = none`: no parentheses; `none` inside: `-`) -/
inductive Trans where
  | none
  | hash
  | num (n : Nat)
  | dash
  | anode (name : String) (cost : Option Nat) (args : Option (List (Option Nat)))
deriving Repr, DecidableEq

structure Alt where
  rhs : List RhsSym
  trans : Trans
deriving Repr, DecidableEq

inductive DItem where
  | terms (decls : List (String × Option Nat))
  | rule (lhs : String) (alts : List Alt)
deriving Repr, DecidableEq

abbrev DescrAST := List DItem

/-! ## meaning -/

/-- the name of a right-hand-side symbol; a character constant is called `'c'` -/
def RhsSym.name : RhsSym → String
  | .ident s => s
  | .chr c => String.ofList ['\'', Char.ofNat c.toNat, '\'']

def Trans.anodeName : Trans → Option String
  | .anode a _ _ => some a
  | _ => Option.none

/-- the cost of an abstract node defaults to 1; without abstract node it is 0 -/
def Trans.cost : Trans → Int
  | .anode _ c _ => ((c.getD 1 : Nat) : Int)
  | _ => 0

/-- the translation list; `-` is the nil marker -/
def Trans.transl : Trans → List Nat
  | .none => []
  | .hash => []
  | .num n => [n]
  | .dash => [NIL_TRANSL]
  | .anode _ _ args => (args.getD []).map (·.getD NIL_TRANSL)

def Alt.toRaw (lhs : String) (a : Alt) : RawRule :=
  { lhs := lhs, rhs := a.rhs.map RhsSym.name, anode := a.trans.anodeName, cost := a.trans.cost,
    transl := some a.trans.transl }

/-- one rule per alternative -/
def DItem.rules : DItem → List RawRule
  | .terms _ => []
  | .rule lhs alts => alts.map (Alt.toRaw lhs)

/-- a character constant declares a terminal whose code is the character -/
def RhsSym.occ : RhsSym → Option (String × Option Nat)
  | .ident _ => Option.none
  | .chr c => some (RhsSym.name (.chr c), some c.toNat)

/-- the terminal occurrences of an item in text order: name and explicit code, if any -/
def DItem.occs : DItem → List (String × Option Nat)
  | .terms decls => decls
  | .rule _ alts => alts.flatMap fun a => a.rhs.filterMap RhsSym.occ

/-- one entry per name, at its first occurrence (`seen`: the names already entered) -/
def firstOccs : List (String × Option Nat) → List String → List (String × Option Nat)
  | [], _ => []
  | p :: rest, seen =>
    if seen.contains p.1 then firstOccs rest seen else p :: firstOccs rest (p.1 :: seen)

/-- the least code `≥ n` not in `used` (one of the `used.length + 1` candidates from `n` on
is free) -/
def leastFree (used : List Nat) (n : Nat) : Nat :=
  match (List.range (used.length + 1)).find? (fun i => !(used.contains (n + i))) with
  | some i => n + i
  | Option.none => n + used.length + 1

/-- explicit codes are kept; the others get the next free codes in order of appearance -/
def assignFree (used : List Nat) : List (String × Option Nat) → Nat → List (String × Int)
  | [], _ => []
  | (nm, some k) :: rest, next => (nm, (k : Int)) :: assignFree used rest next
  | (nm, Option.none) :: rest, next =>
    (nm, (leastFree used next : Int)) :: assignFree used rest (leastFree used next + 1)

/-- the terminal table of a list of occurrences: first occurrences, implicit codes from 256
upwards skipping the explicitly used ones -/
def termTable (occs : List (String × Option Nat)) : List (String × Int) :=
  assignFree ((firstOccs occs []).filterMap (·.2)) (firstOccs occs []) 256

/-- the grammar a description denotes -/
def denoteDescr (d : DescrAST) (strict : Bool) : RawGrammar :=
  { terms := termTable (d.flatMap DItem.occs), rules := d.flatMap DItem.rules, strict := strict }

/-! ## well-formedness -/

def MAX_INT : Nat := 2147483647

def idStartC (c : Char) : Bool :=
  decide (c.toNat < 128) && (isAlpha c.toNat.toUInt8 || c.toNat.toUInt8 == 95)

def idCharC (c : Char) : Bool := decide (c.toNat < 128) && isIdCh c.toNat.toUInt8

/-- `[A-Za-z_][A-Za-z0-9_]*`, not the keyword `TERM` -/
def wfIdent (s : String) : Bool :=
  (match s.toList with
    | [] => false
    | c :: cs => idStartC c && cs.all idCharC) && s != "TERM"

/-- a character constant is a non-NUL 7-bit byte -/
def wfRhsSym : RhsSym → Bool
  | .ident s => wfIdent s
  | .chr c => c != 0 && decide (c.toNat < 128)

def wfOptNum : Option Nat → Bool
  | Option.none => true
  | some n => decide (n ≤ MAX_INT)

def wfTrans : Trans → Bool
  | .num n => decide (n ≤ MAX_INT)
  | .anode a c args =>
    wfIdent a && wfOptNum c && (match args with
      | Option.none => true
      | some l => l.all wfOptNum)
  | _ => true

def wfAlt (a : Alt) : Bool := a.rhs.all wfRhsSym && wfTrans a.trans

def wfItem : DItem → Bool
  | .terms decls => decls.all fun p => wfIdent p.1 && wfOptNum p.2
  | .rule lhs alts => wfIdent lhs && !alts.isEmpty && alts.all wfAlt

/-- every occurrence of a name carries the same code, or none does -/
def consistentOccs (occs : List (String × Option Nat)) : Bool :=
  occs.all fun p => occs.all fun q => p.1 != q.1 || p.2 == q.2

def wfAST (d : DescrAST) : Bool :=
  !d.isEmpty && d.all wfItem && consistentOccs (d.flatMap DItem.occs)

/-- a description that follows the documented syntax -/
def WfAST (d : DescrAST) : Prop := wfAST d = true

instance (d : DescrAST) : Decidable (WfAST d) := by unfold WfAST; infer_instance

/-! ## concrete texts -/

def identBytes (s : String) : List UInt8 := s.toList.map fun c => c.toNat.toUInt8

/-- decimal digits, least significant first -/
def revDigits : Nat → Nat → List UInt8
  | 0, _ => []
  | f + 1, n => if n < 10 then [(48 + n).toUInt8] else (48 + n % 10).toUInt8 :: revDigits f (n / 10)

def decDigits (n : Nat) : List UInt8 := (revDigits (n + 1) n).reverse

def symbolChars : List Char := ['=', '#', '|', ';', '-', '(', ')']

/-- the text of a token; `gap` is the white space before the `:` of a rule -/
def tokBytes (gap : List UInt8) : DTok → List UInt8
  | .ident s => identBytes s
  | .semIdent s => identBytes s ++ gap ++ [58]
  | .chr c => [39, c, 39]
  | .num n => decDigits n
  | .term => [84, 69, 82, 77]
  | .sym c => [c.toNat.toUInt8]
  | .eof => []

/-- the freedom a text has: separators between the tokens (`sep 0` before the first one,
`sep (i+1)` after token `i`), the white space before each `:`, the optional semicolons -/
structure Layout where
  sep : Nat → List UInt8
  colonGap : Nat → List UInt8
  semi : Nat → Bool

def noClose : List UInt8 → Bool
  | [] => true
  | c :: rest => !(c == 42 && rest.head? == some 47) && noClose rest

/-- white space and comments `/* … */` (the body does not contain `*/`) -/
inductive Blank : List UInt8 → Prop where
  | nil : Blank []
  | ws {c : UInt8} {b : List UInt8} : isWs c = true → Blank b → Blank (c :: b)
  | comment {body b : List UInt8} : noClose body = true → Blank b →
      Blank (47 :: 42 :: (body ++ 42 :: 47 :: b))

def GoodSep (s : List UInt8) : Prop := Blank s ∧ s ≠ []

structure GoodLayout (ℓ : Layout) : Prop where
  sep : ∀ i, GoodSep (ℓ.sep i)
  colonGap : ∀ i, (ℓ.colonGap i).all isWs = true

/-- an argument of an abstract node: a position or `-` -/
def argTok : Option Nat → DTok
  | some k => .num k
  | Option.none => .sym '-'

def transToks : Trans → List DTok
  | .none => []
  | .hash => [.sym '#']
  | .num n => [.sym '#', .num n]
  | .dash => [.sym '#', .sym '-']
  | .anode a c args =>
    [.sym '#', .ident a] ++ (match c with | some k => [.num k] | Option.none => []) ++
      (match args with
        | some l => [.sym '('] ++ l.map argTok ++ [.sym ')']
        | Option.none => [])

def rhsSymTok : RhsSym → DTok
  | .ident s => .ident s
  | .chr c => .chr c

def altToks (a : Alt) : List DTok := a.rhs.map rhsSymTok ++ transToks a.trans

def altsToks : List Alt → List DTok
  | [] => []
  | [a] => altToks a
  | a :: rest => altToks a ++ [.sym '|'] ++ altsToks rest

def declToks : List (String × Option Nat) → List DTok
  | [] => []
  | (n, some k) :: rest => [.ident n, .sym '=', .num k] ++ declToks rest
  | (n, Option.none) :: rest => .ident n :: declToks rest

def itemToks : DItem → List DTok
  | .terms decls => .term :: declToks decls
  | .rule lhs alts => .semIdent lhs :: altsToks alts

/-- the tokens of a description (item `i` is followed by `;` iff `semi i`) -/
def itemsToks (semi : Nat → Bool) : Nat → DescrAST → List DTok
  | _, [] => []
  | i, it :: rest =>
    itemToks it ++ (if semi i then [.sym ';'] else []) ++ itemsToks semi (i + 1) rest

def tokensOf (d : DescrAST) (ℓ : Layout) : List DTok := itemsToks ℓ.semi 0 d

/-- token `i` of the list, its separator, the rest -/
def renderBody (ℓ : Layout) : Nat → List DTok → List UInt8
  | _, [] => []
  | i, t :: ts => tokBytes (ℓ.colonGap i) t ++ ℓ.sep (i + 1) ++ renderBody ℓ (i + 1) ts

/-- a text of the description -/
def render (d : DescrAST) (ℓ : Layout) : List UInt8 := ℓ.sep 0 ++ renderBody ℓ 0 (tokensOf d ℓ)

/-- what the parser collects: the terminal occurrences and the rules -/
def RhsSym.sterm : RhsSym → Option STerm
  | .ident _ => Option.none
  | .chr c => some ⟨charName c, charCode c⟩

def DItem.sterms : DItem → List STerm
  | .terms decls => decls.map fun p => ⟨p.1, match p.2 with | some k => (k : Int) | Option.none => -1⟩
  | .rule _ alts => alts.flatMap fun a => a.rhs.filterMap RhsSym.sterm

def accOf (d : DescrAST) : DescrAcc :=
  { sterms := d.flatMap DItem.sterms, srules := d.flatMap DItem.rules }

/-! ## a name declared both with and without a code

`consistentOccs` / `termTable` above describe the descriptions in which every occurrence of a
name carries the same code.  The manual's reading of a declaration without code is weaker: it
says nothing about the code.  The general meaning: the code of a terminal is the explicit code
of any of its occurrences (they must agree), wherever it stands; a terminal none of whose
occurrences has a code gets an implicit one. -/

/-- the explicit code of the name `n`: the code of the first occurrence of `n` that has one -/
def explicitCode (occs : List (String × Option Nat)) (n : String) : Option Nat :=
  occs.findSome? fun q => if q.1 == n then q.2 else Option.none

/-- one entry per name, at its first occurrence, with the explicit code of the name -/
def resolvedOccs (occs : List (String × Option Nat)) : List (String × Option Nat) :=
  (firstOccs occs []).map fun p => (p.1, explicitCode occs p.1)

/-- the terminal table of a list of occurrences in which a name may occur with and without code -/
def termTableMixed (occs : List (String × Option Nat)) : List (String × Int) :=
  assignFree ((resolvedOccs occs).filterMap (·.2)) (resolvedOccs occs) 256

def denoteDescrMixed (d : DescrAST) (strict : Bool) : RawGrammar :=
  { terms := termTableMixed (d.flatMap DItem.occs), rules := d.flatMap DItem.rules,
    strict := strict }

/-- no name has two different explicit codes -/
def explicitConsistentOccs (occs : List (String × Option Nat)) : Bool :=
  occs.all fun p => occs.all fun q => p.1 != q.1 || p.2.isNone || q.2.isNone || p.2 == q.2

def wfASTMixed (d : DescrAST) : Bool :=
  !d.isEmpty && d.all wfItem && explicitConsistentOccs (d.flatMap DItem.occs)

/-- a description that follows the documented syntax; a terminal may be declared with and
without its code -/
def WfASTMixed (d : DescrAST) : Prop := wfASTMixed d = true

instance (d : DescrAST) : Decidable (WfASTMixed d) := by unfold WfASTMixed; infer_instance

end Yaep
