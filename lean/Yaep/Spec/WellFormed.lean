import Yaep.Spec.Der
/-!
# Declarative well-formedness notions for grammars

These are the specifications against which the fixpoint computations of
`Yaep/Model/Analysis.lean` (`nullable`, `productive`, `reachable`, `loopSet`) are proved.
-/
namespace Yaep

/-- `A ⇒* ε` -/
def Nullable (g : Grammar) (A : Nat) : Prop := Der g [.n A] []

/-- `A` derives some terminal string -/
def Productive (g : Grammar) (A : Nat) : Prop := ∃ w, Der g [.n A] w

/-- some rule with left-hand side `A` mentions the nonterminal `B` in its right-hand side -/
def Occurs (g : Grammar) (A B : Nat) : Prop :=
  ∃ (r : Nat) (rl : Rule), g.rules[r]? = some rl ∧ rl.lhs = A ∧ Sym.n B ∈ rl.rhs

/-- reflexive-transitive closure of `Occurs` -/
inductive Reaches (g : Grammar) : Nat → Nat → Prop where
  | refl (A : Nat) : Reaches g A A
  | step {A B C : Nat} : Reaches g A B → Occurs g B C → Reaches g A C

/-- `B` is accessible from `$S` (`axiomN`) -/
def Reachable (g : Grammar) (B : Nat) : Prop := Reaches g g.axiomN B

/-- `A : α B β` is a rule and `α β ⇒* ε`: every symbol of the right-hand side other than
the chosen occurrence of `B` derives the empty string (so it is a nullable nonterminal) -/
def UnitStep (g : Grammar) (A B : Nat) : Prop :=
  ∃ (r : Nat) (rl : Rule) (i : Nat), g.rules[r]? = some rl ∧ rl.lhs = A ∧
    rl.rhs[i]? = some (.n B) ∧
    ∀ (j : Nat) (s : Sym), j ≠ i → rl.rhs[j]? = some s → Der g [s] []

/-- transitive closure (one or more steps) of a relation -/
inductive Plus {α : Type} (R : α → α → Prop) : α → α → Prop where
  | single {a b : α} : R a b → Plus R a b
  | cons {a b c : α} : R a b → Plus R b c → Plus R a c

/-- the grammar has a derivation `A ⇒⁺ A` -/
def Cyclic (g : Grammar) : Prop := ∃ A, Plus (UnitStep g) A A

/-- the symbol's number is below the size of the corresponding symbol table -/
def Sym.inRange (g : Grammar) : Sym → Bool
  | .t a => decide (a < g.nT)
  | .n A => decide (A < g.nN)

/-- every symbol number occurring in a rule is in range (a decidable side
condition) -/
def Grammar.symsInRange (g : Grammar) : Bool :=
  g.rules.all fun r => decide (r.lhs < g.nN) && r.rhs.all (Sym.inRange g)

end Yaep
