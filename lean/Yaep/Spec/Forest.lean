import Yaep.Model.Forest
/-!
# Declarative side of C03/C04: the parse forest as an inductive term

`Node` is the DAG of `NodeRec`s unfolded into a tree; `denote` is the set (list) of
translation trees it stands for, defined by structural recursion: an abstract node picks one
tree for every child (`prodAll`), an ALT node is the union (concatenation) of its
alternatives.  `prune` models the minimal-cost pruning the cost flag performs.
-/
namespace Yaep

/-- two lists of the same length related elementwise -/
inductive Pointwise {α β : Type} (R : α → β → Prop) : List α → List β → Prop where
  | nil : Pointwise R [] []
  | cons {a : α} {b : β} {l : List α} {m : List β} :
      R a b → Pointwise R l m → Pointwise R (a :: l) (b :: m)

/-- the parse forest rooted at a node, unfolded -/
inductive Node where
  | nil
  | err
  | term (code : Int) (attr : Int)
  | anode (name : String) (cost : Nat) (kids : List Node)
  | alt (alts : List Node)
deriving Repr, Inhabited

mutual
  /-- the translation trees a forest denotes -/
  def denote : Node → List Tree
    | .nil => [.nil]
    | .err => [.error]
    | .term c a => [.term c a]
    | .anode n c ks => (prodAll (denoteList ks)).map fun l => .anode n c l
    | .alt as => (denoteList as).flatten
  def denoteList : List Node → List (List Tree)
    | [] => []
    | n :: ns => denote n :: denoteList ns
end

/-- unfolding of the table entry `i`; `fuel > i` suffices for a well-formed table
(`tableWF`).  Bad entries, out-of-range indices and exhausted fuel become the empty ALT,
which denotes nothing. -/
def unfold (tab : Array NodeRec) : Nat → Nat → Node
  | 0, _ => .alt []
  | fuel + 1, i =>
    if i < tab.size then
      match tab.getD i .bad with
      | .nil => .nil
      | .err => .err
      | .term c a => .term c a
      | .anode n c ks => .anode n c (ks.map (unfold tab fuel))
      | .alt as => .alt (as.map (unfold tab fuel))
      | .bad => .alt []
    else .alt []

/-- the forest rooted at table entry `i` -/
def unfoldAt (tab : Array NodeRec) (i : Nat) : Node := unfold tab (i + 1) i

/-! ## pruning to minimal cost (C04) -/

/-- minimum of a list of numbers (0 for the empty list) -/
def minNat : List Nat → Nat
  | [] => 0
  | x :: xs => xs.foldl min x

/-- the alternatives an ALT node keeps: all those of minimal cost, or only the first one -/
def keepMin (all : Bool) (ps : List (Node × Nat)) : List Node :=
  let m := minNat (ps.map (·.2))
  let keep := (ps.filter fun p => p.2 == m).map (·.1)
  if all then keep else keep.take 1

mutual
  /-- bottom-up pruning: returns the pruned forest and the minimal total cost of the trees
  the input denotes.  The cost field of an abstract node becomes its own cost plus the
  minimal costs of its children; an ALT node keeps exactly its alternatives of minimal cost
  (`all = true`) or the first of them (`all = false`). -/
  def prune (all : Bool) : Node → Node × Nat
    | .nil => (.nil, 0)
    | .err => (.err, 0)
    | .term c a => (.term c a, 0)
    | .anode n c ks =>
      let ps := pruneList all ks
      let s := (ps.map (·.2)).sum
      (.anode n (c + s) (ps.map (·.1)), c + s)
    | .alt as =>
      let ps := pruneList all as
      (.alt (keepMin all ps), minNat (ps.map (·.2)))
  def pruneList (all : Bool) : List Node → List (Node × Nat)
    | [] => []
    | n :: ns => prune all n :: pruneList all ns
end

mutual
  /-- every ALT node of the forest has at least one alternative (so every subforest denotes
  at least one tree) -/
  def Node.total : Node → Bool
    | .anode _ _ ks => Node.totalList ks
    | .alt as => !as.isEmpty && Node.totalList as
    | _ => true
  def Node.totalList : List Node → Bool
    | [] => true
    | n :: ns => n.total && Node.totalList ns
end

/-- the `cost` field of the root (0 for nodes that have none) -/
def Tree.field : Tree → Nat
  | .anode _ c _ => c
  | _ => 0

/-- `t` has minimal total cost among `ts` -/
def IsMinCost (ts : List Tree) (t : Tree) : Prop :=
  t ∈ ts ∧ ∀ u ∈ ts, t.totalCost ≤ u.totalCost

/-- (reflexive) subtree relation on translation trees -/
inductive Tree.Sub : Tree → Tree → Prop where
  | refl (t : Tree) : Tree.Sub t t
  | kid {s k : Tree} {n : String} {c : Nat} {ks : List Tree} :
      k ∈ ks → Tree.Sub s k → Tree.Sub s (.anode n c ks)

end Yaep
