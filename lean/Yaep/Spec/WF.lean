import Yaep.Model.Basic
/-!
# Well-formedness of the internal grammar, as `yaep_read_grammar` guarantees it
-/
namespace Yaep

/-- * rule 0 is `$S : start $eof`;
* every other rule for `$S` is `$S : error $eof`;
* `$S` occurs in no right-hand side;
* `$eof` occurs only in the rules for `$S`;
* `error ≠ $eof`, `start ≠ $S`. -/
def Grammar.WF (g : Grammar) : Prop :=
  (g.rules[0]?.map fun r => (r.lhs, r.rhs)) = some (g.axiomN, [Sym.n g.startN, Sym.t g.eofT]) ∧
  (∀ i, (h : i < g.rules.length) → g.rules[i].lhs = g.axiomN →
      i = 0 ∨ g.rules[i].rhs = [Sym.t g.errT, Sym.t g.eofT]) ∧
  (∀ rl ∈ g.rules, Sym.n g.axiomN ∉ rl.rhs) ∧
  (∀ rl ∈ g.rules, Sym.t g.eofT ∈ rl.rhs → rl.lhs = g.axiomN) ∧
  g.errT ≠ g.eofT ∧ g.startN ≠ g.axiomN

instance (g : Grammar) : Decidable g.WF := by unfold Grammar.WF; infer_instance

end Yaep
