import Yaep.Model.FreeTree
/-!
# Declarative side of C13: which blocks a parse DAG consists of
-/
namespace Yaep

/-- the references of table entry `i` -/
def kidsOf (tab : Array NodeRec) (i : Nat) : List Nat := (tab.getD i .bad).children

/-- `k` is reachable from `i` in the DAG -/
inductive Reach (tab : Array NodeRec) : Nat → Nat → Prop where
  | refl (i : Nat) : Reach tab i i
  | step {i c k : Nat} : c ∈ kidsOf tab i → Reach tab c k → Reach tab i k

/-- the blocks of the DAG rooted at `root`, which `yaep_free_tree` has to release: the node
blocks and alternative cells of the reachable entries, and the name blocks of the reachable
abstract nodes (the empty name is a name like any other) -/
def BlockLive (tab : Array NodeRec) (root : Nat) : Block → Prop
  | .node k => Reach tab root k ∧ ∀ as, tab.getD k .bad ≠ .alt as
  | .cell k p => Reach tab root k ∧ ∃ as, tab.getD k .bad = .alt as ∧ p < as.length
  | .name s => ∃ k c ks, Reach tab root k ∧ tab.getD k .bad = .anode s c ks

/-- all blocks of the DAG, the name case spelled out (the same as `BlockLive`, which used
to exclude the empty name) -/
def BlockOf (tab : Array NodeRec) (root : Nat) : Block → Prop
  | .name s => ∃ k c ks, Reach tab root k ∧ tab.getD k .bad = .anode s c ks
  | b => BlockLive tab root b

/-- no abstract node has the empty name (true of every grammar written in the description
syntax, where names are identifiers) -/
def noEmptyName (tab : Array NodeRec) : Bool :=
  tab.toList.all fun r => match r with | .anode n _ _ => n != "" | _ => true

/-- the declarative allocation discipline: in every prefix of the trace and for every
block, #frees ≤ #allocs ≤ #frees + 1 -/
def Ev.allocs (id : Nat) (evs : List Ev) : Nat := evs.count (.alloc id)
def Ev.frees (id : Nat) (evs : List Ev) : Nat := evs.count (.free id)

def Disciplined (evs : List Ev) : Prop :=
  ∀ (n id : Nat), Ev.frees id (evs.take n) ≤ Ev.allocs id (evs.take n) ∧
    Ev.allocs id (evs.take n) ≤ Ev.frees id (evs.take n) + 1

end Yaep
