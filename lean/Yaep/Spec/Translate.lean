import Yaep.Model.Tree
/-!
# Vocabulary for the statements about the syntax-directed translation (C02)
-/
namespace Yaep

mutual
  /-- the TERM nodes of a translation, `(code, attribute)`, left to right in the TREE -/
  def Tree.terms : Tree → List (Int × Int)
    | .term c a => [(c, a)]
    | .anode _ _ ks => Tree.termsList ks
    | _ => []
  def Tree.termsList : List Tree → List (Int × Int)
    | [] => []
    | t :: ts => t.terms ++ Tree.termsList ts
end

/-- the translation part of a rule is well formed: one `order` entry per right-hand-side
symbol, slots below `transLen`, no slot used twice, and without abstract node at most one
translated position -/
def Rule.translWF (rl : Rule) : Bool :=
  rl.order.length == rl.rhs.length &&
  ((List.range rl.order.length).all fun p =>
    match rl.order.getD p none with
    | some s => decide (s < rl.transLen) &&
        (List.range rl.order.length).all fun q => q == p || rl.order.getD q none != some s
    | none => true) &&
  (rl.anode.isSome ||
    (List.range rl.order.length).all fun p => (List.range rl.order.length).all fun q =>
      !(rl.order.getD p none).isSome || !(rl.order.getD q none).isSome || p == q)

def Grammar.translWF (g : Grammar) : Bool := g.rules.all Rule.translWF

end Yaep
