import Yaep.Model.Basic
/-!
# Derivations

`Der g ss w`: the symbol string `ss` derives the terminal string `w` (leftmost, big-step).
Rules are referred to by NUMBER, as the items of the model do.
-/
namespace Yaep

inductive Der (g : Grammar) : List Sym → List Nat → Prop where
  | nil : Der g [] []
  | term {a : Nat} {ss : List Sym} {w : List Nat} : Der g ss w → Der g (Sym.t a :: ss) (a :: w)
  | nt {r : Nat} {rl : Rule} {ss : List Sym} {u v : List Nat} :
      g.rules[r]? = some rl → Der g rl.rhs u → Der g ss v → Der g (Sym.n rl.lhs :: ss) (u ++ v)

theorem Der.append {g : Grammar} {α β : List Sym} {u v : List Nat} (h1 : Der g α u)
    (h2 : Der g β v) : Der g (α ++ β) (u ++ v) := by
  induction h1 with
  | nil => simpa using h2
  | term _ ih => exact Der.term ih
  | nt hr h1 _ _ ih2 => rw [List.cons_append, List.append_assoc]; exact Der.nt hr h1 ih2

/-- `w` is a sentence of the user grammar: the start nonterminal derives it -/
def Sentence (g : Grammar) (w : List Nat) : Prop := Der g [Sym.n g.startN] w

end Yaep
