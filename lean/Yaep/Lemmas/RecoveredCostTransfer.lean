import Yaep.Lemmas.RecoveredCostMain
import Yaep.Lemmas.RecoveredCostPrune
/-!
# Transfer principle for the cost-flag pipeline after a recovery

`RC.final_prune_transfer`: `make_parse` (all parses) followed by `find_minimal_translation` on the
final list of a recovering parse, with the token numbers of the list, is the same pipeline on the
same sets with the token numbers `j - 1` of a list without recovery (the setting of
`CostParseSpec` / `accepted_cost_parse`), with the attribute of every TERM cell renamed by `fix pl`:
same root, same cost, same `parse_free` calls, same cleared flags; the trees denoted by the final
heap are the renamed trees.
-/
namespace Yaep.RC
open Yaep Yaep.MP Yaep.RP

section
variable {g : Grammar} {la : Nat} {full : List Nat} {pl : List PSet} {S : Array (Array Item)}

theorem final_prune_transfer (h : Final g la full pl) (hS : SameSets pl S) (hg : GrOK g)
    (hcyc : ¬ Cyclic g) (hsr : g.symsInRange = true) {fuel : Nat} {s' : St} {r : Nat}
    (hm : makeParseSt (mkCtx g S (tokNums pl) false) fuel = some s') (hb : s'.bad = false)
    (hres : s'.result = some r) :
    ∃ s0, makeParseSt (mkCtx g S (idToks pl.length) false) fuel = some s0 ∧ s0.bad = false ∧
      s0.result = some r ∧ PC.ofHeap s'.heap = rcH (fix pl) (PC.ofHeap s0.heap) ∧
      (∀ (fuel' : Nat) (one free : Bool) (nameBlk : Nat → Nat),
        PC.findMinimalTranslation fuel' (PC.ofHeap s'.heap) r one free nameBlk s'.nilUsed s'.errUsed =
          resLift (fix pl)
            (PC.findMinimalTranslation fuel' (PC.ofHeap s0.heap) r one free nameBlk s0.nilUsed s0.errUsed)) ∧
      (∀ (f : Nat), denote (PC.unfoldC (PC.ofHeap s'.heap) f r) =
          (denote (PC.unfoldC (PC.ofHeap s0.heap) f r)).map (Tree.mapAttr (fix pl))) ∧
      (∀ (fuel' f : Nat) (one free : Bool) (nameBlk : Nat → Nat),
        denote (PC.unfoldC
            (PC.findMinimalTranslation fuel' (PC.ofHeap s'.heap) r one free nameBlk s'.nilUsed s'.errUsed).heap f
            (PC.findMinimalTranslation fuel' (PC.ofHeap s'.heap) r one free nameBlk s'.nilUsed s'.errUsed).root) =
          (denote (PC.unfoldC
            (PC.findMinimalTranslation fuel' (PC.ofHeap s0.heap) r one free nameBlk s0.nilUsed s0.errUsed).heap f
            (PC.findMinimalTranslation fuel' (PC.ofHeap s0.heap) r one free nameBlk s0.nilUsed s0.errUsed).root)).map
            (Tree.mapAttr (fix pl))) := by
  obtain ⟨s0, h0, hb0, hres0, e1, _, e4, e5, _⟩ := final_state_all h hS hg hcyc hsr hm hb hres
  have eh : PC.ofHeap s'.heap = rcH (fix pl) (PC.ofHeap s0.heap) := by rw [e1, ofHeap_rlH]
  have key : ∀ (fuel' : Nat) (one free : Bool) (nameBlk : Nat → Nat),
      PC.findMinimalTranslation fuel' (PC.ofHeap s'.heap) r one free nameBlk s'.nilUsed s'.errUsed =
        resLift (fix pl)
          (PC.findMinimalTranslation fuel' (PC.ofHeap s0.heap) r one free nameBlk s0.nilUsed s0.errUsed) := by
    intro fuel' one free nameBlk
    rw [eh, e4, e5, findMinimalTranslation_rcH]
  refine ⟨s0, h0, hb0, hres0, eh, key, ?_, ?_⟩
  · intro f
    rw [eh, unfoldC_rcH, denote_rnNode]
  · intro fuel' f one free nameBlk
    rw [key]
    show denote (PC.unfoldC (rcH (fix pl) _) f _) = _
    rw [unfoldC_rcH, denote_rnNode]
    rfl

end

end Yaep.RC
