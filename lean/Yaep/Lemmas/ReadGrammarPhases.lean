import Yaep.Spec.Defects
/-!
# `readRules` / `readGrammar` as compositions of phases

The model functions are written in `do` notation.  Here each rule-processing phase is a
separate plain function and `readRules`, `readGrammar` are shown equal to their composition;
the invariant proofs in `Yaep/Lemmas/ReadGrammar.lean` work on the phases.
-/
namespace Yaep

def rrReserved (rr : RawRule) : Bool :=
  rr.lhs == AXIOM_NAME || rr.lhs == END_MARKER_NAME
    || rr.rhs.any (fun x => x == AXIOM_NAME || x == END_MARKER_NAME)
def rr10 (rr : RawRule) : Bool :=
  rr.anode.isNone && (match rr.transl with | some (_ :: _ :: _) => true | _ => false)
def rr11 (rr : RawRule) : Bool := rr.anode.isSome && decide (rr.cost < 0)

def lhsPhase (rr : RawRule) (s : RG) : Except ErrCode (RG × Nat) :=
  match s.find rr.lhs with
  | none => .ok (s.addNt rr.lhs)
  | some (.term _ _) => .error 9
  | some (.nonterm k) => .ok (s, k)

def startRule (ax lhsN eof : Nat) : Rule :=
  { lhs := ax, rhs := [.n lhsN, .t eof], transLen := 1, order := [some 0, none] }

def startPhase (s : RG) (lhsN : Nat) : Except ErrCode RG :=
  match s.startN with
  | some _ => .ok s
  | none =>
    if (s.find AXIOM_NAME).isSome then .error 4 else
    if ((s.addNt AXIOM_NAME).1.find END_MARKER_NAME).isSome then .error 4 else
    .ok { ((s.addNt AXIOM_NAME).1.addTerm END_MARKER_NAME (-1)).1 with
          startN := some lhsN, axiomN := (s.addNt AXIOM_NAME).2,
          eofT := ((s.addNt AXIOM_NAME).1.addTerm END_MARKER_NAME (-1)).2,
          rules := ((s.addNt AXIOM_NAME).1.addTerm END_MARKER_NAME (-1)).1.rules ++
            [startRule (s.addNt AXIOM_NAME).2 lhsN
              ((s.addNt AXIOM_NAME).1.addTerm END_MARKER_NAME (-1)).2] }

def translPhase (rr : RawRule) (n : Nat) : Except ErrCode (List (Option Nat) × Nat) :=
  match rr.transl with
  | none => .ok (List.replicate n none, 0)
  | some tr => readTransl n rr.anode.isSome tr 0 (List.replicate n none) 0

def mkRule (rr : RawRule) (lhsN : Nat) (rhs : List Sym) (order : List (Option Nat)) (tl : Nat) : Rule :=
  { lhs := lhsN, rhs := rhs, anode := rr.anode,
    cost := if rr.anode.isSome then rr.cost.toNat else 0, transLen := tl, order := order }

def ruleStep (rr : RawRule) (s : RG) : Except ErrCode RG :=
  if rrReserved rr then .error 4 else
  match lhsPhase rr s with
  | .error c => .error c
  | .ok p =>
    if rr10 rr then .error 10 else if rr11 rr then .error 11 else
    match startPhase p.1 p.2 with
    | .error c => .error c
    | .ok s2 =>
      match translPhase rr (readRhs rr.rhs s2 []).2.length with
      | .error c => .error c
      | .ok q =>
        .ok { (readRhs rr.rhs s2 []).1 with
              rules := (readRhs rr.rhs s2 []).1.rules ++
                [mkRule rr p.2 (readRhs rr.rhs s2 []).2 q.1 q.2] }

def lhsPhaseK {α : Type} (rr : RawRule) (s : RG) (k : RG × Nat → Except ErrCode α) : Except ErrCode α :=
  match s.find rr.lhs with
  | none => k (s.addNt rr.lhs)
  | some (.term _ _) => .error 9
  | some (.nonterm n) => k (s, n)

def startPhaseK {α : Type} (s : RG) (lhsN : Nat) (k : RG → Except ErrCode α) : Except ErrCode α :=
  match s.startN with
  | some _ => k s
  | none =>
    if (s.find AXIOM_NAME).isSome then .error 4 else
    if ((s.addNt AXIOM_NAME).1.find END_MARKER_NAME).isSome then .error 4 else
    k { ((s.addNt AXIOM_NAME).1.addTerm END_MARKER_NAME (-1)).1 with
          startN := some lhsN, axiomN := (s.addNt AXIOM_NAME).2,
          eofT := ((s.addNt AXIOM_NAME).1.addTerm END_MARKER_NAME (-1)).2,
          rules := ((s.addNt AXIOM_NAME).1.addTerm END_MARKER_NAME (-1)).1.rules ++
            [startRule (s.addNt AXIOM_NAME).2 lhsN
              ((s.addNt AXIOM_NAME).1.addTerm END_MARKER_NAME (-1)).2] }

def translPhaseK {α : Type} (rr : RawRule) (n : Nat) (k : List (Option Nat) × Nat → Except ErrCode α) :
    Except ErrCode α :=
  match rr.transl with
  | none => k (List.replicate n none, 0)
  | some tr =>
    match readTransl n rr.anode.isSome tr 0 (List.replicate n none) 0 with
    | .error c => .error c
    | .ok p => k p

def ruleStepK {α : Type} (rr : RawRule) (s : RG) (k : RG → Except ErrCode α) : Except ErrCode α :=
  if rrReserved rr then .error 4 else
  lhsPhaseK rr s fun p =>
    if rr10 rr then .error 10 else if rr11 rr then .error 11 else
    startPhaseK p.1 p.2 fun s2 =>
      translPhaseK rr (readRhs rr.rhs s2 []).2.length fun q =>
        k { (readRhs rr.rhs s2 []).1 with
              rules := (readRhs rr.rhs s2 []).1.rules ++
                [mkRule rr p.2 (readRhs rr.rhs s2 []).2 q.1 q.2] }

theorem readRules_consK (rr : RawRule) (rest : List RawRule) (s : RG) :
    readRules (rr :: rest) s = ruleStepK rr s (readRules rest) := by
  rw [readRules]
  unfold ruleStepK lhsPhaseK startPhaseK translPhaseK rrReserved rr10 rr11 mkRule startRule
  simp only [bind, Except.bind, pure, Except.pure, throw, throwThe, MonadExceptOf.throw]
  generalize (rr.anode.isNone && _) = c10
  generalize (rr.anode.isSome && _) = c11
  generalize (rr.lhs == AXIOM_NAME || _ || _) = c4
  cases c4 with
  | true => rfl
  | false =>
  cases c10 with
  | true =>
    simp only [if_true, Bool.false_eq_true, if_false]
    cases s.find rr.lhs with
    | none => rfl
    | some k => cases k <;> rfl
  | false =>
  cases c11 with
  | true =>
    simp only [if_true, Bool.false_eq_true, if_false]
    cases s.find rr.lhs with
    | none => rfl
    | some k => cases k <;> rfl
  | false =>
  simp only [Bool.false_eq_true, if_false]
  cases hf : s.find rr.lhs with
  | none =>
    simp only []
    cases hst : (s.addNt rr.lhs).fst.startN with
    | some st =>
      simp only []
      cases htr : rr.transl with
      | none => rfl
      | some tr => simp only []; cases readTransl _ _ tr 0 _ 0 <;> rfl
    | none =>
      simp only []
      split
      · rfl
      · split
        · rfl
        · cases htr : rr.transl with
          | none => rfl
          | some tr => simp only []; cases readTransl _ _ tr 0 _ 0 <;> rfl
  | some k =>
    cases k with
    | term c n => rfl
    | nonterm n =>
      simp only []
      cases hst : s.startN with
      | some st =>
        simp only []
        cases htr : rr.transl with
        | none => rfl
        | some tr => simp only []; cases readTransl _ _ tr 0 _ 0 <;> rfl
      | none =>
        simp only []
        split
        · rfl
        · split
          · rfl
          · cases htr : rr.transl with
            | none => rfl
            | some tr => simp only []; cases readTransl _ _ tr 0 _ 0 <;> rfl

theorem lhsPhaseK_eq {α : Type} (rr : RawRule) (s : RG) (k : RG × Nat → Except ErrCode α) :
    lhsPhaseK rr s k = match lhsPhase rr s with
      | .error c => .error c
      | .ok p => k p := by
  unfold lhsPhaseK lhsPhase
  cases s.find rr.lhs with
  | none => rfl
  | some e => cases e <;> rfl

theorem startPhaseK_eq {α : Type} (s : RG) (lhsN : Nat) (k : RG → Except ErrCode α) :
    startPhaseK s lhsN k = match startPhase s lhsN with
      | .error c => .error c
      | .ok s2 => k s2 := by
  unfold startPhaseK startPhase
  cases s.startN with
  | some st => rfl
  | none =>
    simp only []
    split
    · rfl
    · split <;> rfl

theorem translPhaseK_eq {α : Type} (rr : RawRule) (n : Nat)
    (k : List (Option Nat) × Nat → Except ErrCode α) :
    translPhaseK rr n k = match translPhase rr n with
      | .error c => .error c
      | .ok q => k q := by
  unfold translPhaseK translPhase
  cases rr.transl with
  | none => rfl
  | some tr => rfl

theorem ruleStepK_eq {α : Type} (rr : RawRule) (s : RG) (k : RG → Except ErrCode α) :
    ruleStepK rr s k = match ruleStep rr s with
      | .error c => .error c
      | .ok s' => k s' := by
  unfold ruleStepK ruleStep
  split
  · rfl
  · rw [lhsPhaseK_eq]
    cases lhsPhase rr s with
    | error c => rfl
    | ok p =>
      simp only []
      split
      · rfl
      · split
        · rfl
        · rw [startPhaseK_eq]
          cases startPhase p.1 p.2 with
          | error c => rfl
          | ok s2 =>
            simp only []
            rw [translPhaseK_eq]
            cases translPhase rr (readRhs rr.rhs s2 []).2.length <;> rfl

/-- one rule at a time -/
theorem readRules_cons (rr : RawRule) (rest : List RawRule) (s : RG) :
    readRules (rr :: rest) s =
      match ruleStep rr s with
      | .error c => .error c
      | .ok s' => readRules rest s' := by
  rw [readRules_consK, ruleStepK_eq]

theorem readRules_nil (s : RG) : readRules [] s = .ok s := rfl

/-- `readGrammar` is `buildGrammar` followed by `checkGrammar` -/
theorem readGrammar_eq (raw : RawGrammar) :
    readGrammar raw =
      match buildGrammar raw with
      | .error c => .error c
      | .ok g => if checkGrammar g raw.strict ≠ 0 then .error (checkGrammar g raw.strict) else .ok g := by
  unfold readGrammar buildGrammar buildRG finishRG
  simp only [bind, Except.bind, pure, Except.pure, throw, throwThe, MonadExceptOf.throw]
  cases readTerms raw.terms {} with
  | error c => rfl
  | ok s =>
    simp only []
    split
    · rfl
    · cases readRules raw.rules _ with
      | error c => rfl
      | ok s' =>
        simp only []
        split
        · rfl
        · simp only []

end Yaep
