import Yaep.Lemmas.RecoveredCostMain
import Yaep.Lemmas.NoGarbageMain
import Yaep.Lemmas.NoGarbageCost
import Yaep.Lemmas.NoGarbageCostMain
import Yaep.Lemmas.HeapWfOne
/-!
# C13 after an error recovery: the tree memory of `make_parse` on the final list of a recovering parse

The NoGarbage invariant `NG.NGInv` holds for the run of the model of `make_parse` on *any* parse
list (`NG.makeParseSt_inv`).  What the composition theorems `NG.released_of_inv`,
`NG.cost_partition`, `NG.cost_released` need in addition is that the final tree memory is a
`PC.WfHeap`.  After a recovery this comes from the reference run with the token numbers `j - 1`
(`RC.final_state_all` for all parses; `RNG.final_state_one` below for one parse — the state-level
renaming theorem `RC.makeParseSt_reTok` with the invariant `MP.Good` of the one-parse run):
`PC.WfHeap` does not look at the TERM attributes (`RC.wfHeap_rcH`).

* `RNG.final_reTokSt_one`, `RNG.final_state_one` — one-parse mode;
* `RNG.final_wf` — either mode: the tree memory of a finished, unflagged run on the final list is a
  `WfHeap`;
* `RNG.final_no_garbage`, `RNG.final_released`, `RNG.final_cost_cells`, `RNG.final_cost_released` —
  the NoGarbage statements on the final list;
* the ERROR node: `RNG.err_live_iff`, `RNG.err_released_iff`, `RNG.err_table`, `RNG.ErrOnce`;
  under the cost flag `RNG.cost_err_nil`, `RNG.cost_err_table`, `RNG.CostErrOnce`, `RNG.costErrOnce`.
-/
namespace Yaep.RNG
open Yaep Yaep.MP Yaep.RP

section
variable {g : Grammar} {la : Nat} {full : List Nat} {pl : List PSet} {S : Array (Array Item)}

/-! ## one-parse mode: the final machine state -/

/-- the state-level renaming theorem instantiated, one-parse mode (as `RP.Final.reTok_one`) -/
theorem final_reTokSt_one (h : Final g la full pl) (hS : SameSets pl S) (hg : GrOK g) (fuel : Nat) :
    (∀ s, makeParseSt (mkCtx g S (idToks pl.length) true) fuel = some s →
      ∃ s', makeParseSt (mkCtx g S (tokNums pl) true) fuel = some s' ∧
        s' = lift (fix pl) s s'.termNodes s.bad) ∧
    (makeParseSt (mkCtx g S (idToks pl.length) true) fuel = none →
      makeParseSt (mkCtx g S (tokNums pl) true) fuel = none) := by
  have hcc := ctxOKc hS h.plInv h.length
  have hc := hcc.toCtxOK
  apply RC.makeParseSt_reTok h.tokRel
    (fun s => Yaep.MP.Good g (okF g g.analysis la full pl) (word pl) s ∧ s.bad = false)
  · intro s0 hi
    exact ⟨init_inv hc hg hi, (init_props hi).1⟩
  · intro s ⟨hgood, hb⟩ hne
    cases hst : s.stack with
    | nil => exact absurd hst hne
    | cons sid rest =>
      obtain ⟨a1, a2, _⟩ := step_total hcc hg hgood hb hst
      exact ⟨a1, a2⟩
  · intro s ⟨hgood, _⟩
    apply termHyp_of_item (g := g) (ok := okF g g.analysis la full pl) (pl := pl)
      (fun r rl hr => hc.rule_eq hr) rfl h.termsOK
    intro sid rest hst hpos
    rcases hgood.main with ⟨he, _⟩ | ⟨frs, htop⟩
    · rw [hst] at he; cases he
    · rw [hst] at htop
      cases frs with
      | nil => simp [TopOK] at htop
      | cons fr frs =>
        simp only [TopOK] at htop
        obtain ⟨_, _, rl, _, t3, t4, _, t6, _⟩ := htop
        exact ⟨rl, t3, t4, t6 hpos⟩

/-- **the final machine state of the one-parse run on the final list**: a finished, unflagged run
with the token numbers of the list is the renamed final state of the run with the token numbers
`j - 1`; the heap of that reference run is a `WfHeap`, and so is the renamed heap -/
theorem final_state_one (h : Final g la full pl) (hS : SameSets pl S) (hg : GrOK g)
    (hcyc : ¬ Cyclic g) (hsr : g.symsInRange = true) {fuel : Nat} {s' : St} {r : Nat}
    (hm : makeParseSt (mkCtx g S (tokNums pl) true) fuel = some s') (hb : s'.bad = false)
    (hres : s'.result = some r) :
    ∃ s0, makeParseSt (mkCtx g S (idToks pl.length) true) fuel = some s0 ∧ s0.bad = false ∧
      s0.result = some r ∧ s'.heap = rlH (fix pl) s0.heap ∧ s'.amb = s0.amb ∧
      s'.nilUsed = s0.nilUsed ∧ s'.errUsed = s0.errUsed ∧
      ∃ rk hd, PC.WfHeap (PC.ofHeap s0.heap) rk hd ∧ PC.WfHeap (PC.ofHeap s'.heap) rk hd ∧
        r < (PC.ofHeap s'.heap).size ∧ hd r = r := by
  obtain ⟨t1, t2⟩ := final_reTokSt_one h hS hg fuel
  cases h0 : makeParseSt (mkCtx g S (idToks pl.length) true) fuel with
  | none => rw [t2 h0] at hm; cases hm
  | some s0 =>
    obtain ⟨s'', hm'', he⟩ := t1 s0 h0
    rw [hm] at hm''; injection hm'' with hm''; subst hm''
    obtain ⟨e1, e2, e3, e4, e5, e6⟩ := RC.lift_fields he
    have hb0 : s0.bad = false := by rw [← e6]; exact hb
    have hres0 : s0.result = some r := by rw [← e2]; exact hres
    have hcc := ctxOKc hS h.plInv h.length
    obtain ⟨Γ, wf, hr, hdr⟩ := makeParse_heap_wf_ctx1 hcc.toCtxOK hg hcyc hsr h0 hb0 hres0
    refine ⟨s0, rfl, hb0, hres0, e1, e3, e4, e5, _, _, wf, ?_, ?_, hdr⟩
    · rw [e1, RC.ofHeap_rlH]; exact RC.wfHeap_rcH wf
    · rw [e1, RC.ofHeap_rlH, RC.rcH_size]; exact hr

/-! ## either mode -/

/-- **the tree memory of `make_parse` on the final list of a recovering parse is a `WfHeap`**
(either mode; a finished run that did not flag undefined behaviour and has a result cell) -/
theorem final_wf (h : Final g la full pl) (hS : SameSets pl S) (hg : GrOK g)
    (hcyc : ¬ Cyclic g) (hsr : g.symsInRange = true) {one : Bool} {fuel : Nat} {s : St} {r : Nat}
    (hm : makeParseSt (mkCtx g S (tokNums pl) one) fuel = some s) (hb : s.bad = false)
    (hres : s.result = some r) :
    ∃ rk hd, PC.WfHeap (PC.ofHeap s.heap) rk hd ∧ r < (PC.ofHeap s.heap).size ∧ hd r = r := by
  cases one with
  | false =>
    obtain ⟨_, _, _, _, _, _, _, _, rk, hd, _, wf, hr, hdr⟩ := RC.final_state_all h hS hg hcyc hsr hm hb hres
    exact ⟨rk, hd, wf, hr, hdr⟩
  | true =>
    obtain ⟨_, _, _, _, _, _, _, _, rk, hd, _, wf, hr, hdr⟩ := final_state_one h hS hg hcyc hsr hm hb hres
    exact ⟨rk, hd, wf, hr, hdr⟩

/-- the NoGarbage invariant of the finished run (any parse list) -/
theorem final_inv (hg : GrOK g) {P : Array Int} {one : Bool} {fuel : Nat} {s : St}
    (hm : makeParseSt (mkCtx g S P one) fuel = some s) :
    NG.NGInv (mkCtx g S P one) s ∧ s.stack = [] :=
  NG.makeParseSt_inv (NG.cok_mkCtx hg.twf S P one) hm

/-- **no garbage on the final list**: the cells reachable from the result cell are exactly the
cells other than `rootId`, the unused NIL and the unused ERROR node -/
theorem final_no_garbage (h : Final g la full pl) (hS : SameSets pl S) (hg : GrOK g)
    (hcyc : ¬ Cyclic g) (hsr : g.symsInRange = true) {one : Bool} {fuel : Nat} {s : St} {r : Nat}
    (hm : makeParseSt (mkCtx g S (tokNums pl) one) fuel = some s) (hb : s.bad = false)
    (hres : s.result = some r) (i : Nat) :
    PC.Reach (PC.ofHeap s.heap) r i ↔
      i < s.heap.size ∧ i ≠ rootId ∧ (i = nilId → s.nilUsed = true) ∧
        (i = errId → s.errUsed = true) := by
  obtain ⟨rk, hd, wf, hr, _⟩ := final_wf h hS hg hcyc hsr hm hb hres
  obtain ⟨hi, hst⟩ := final_inv hg hm
  rw [NG.reach_iff_live hi hst hres wf hr i, NG.mem_liveCells]

/-- a finished, unflagged run on the final list has the outcome `.ok` (the exporter meets no
cycle), either mode -/
theorem final_ok_of_state (h : Final g la full pl) (hS : SameSets pl S) (hg : GrOK g)
    (hcyc : ¬ Cyclic g) (hsr : g.symsInRange = true) {one : Bool} {fuel : Nat} {s : St} {r : Nat}
    (hm : makeParseSt (mkCtx g S (tokNums pl) one) fuel = some s) (hb : s.bad = false)
    (hres : s.result = some r) :
    ∃ res, makeParse g S (tokNums pl) one fuel = .ok res ∧
      exportTable s.heap r = some (res.tab, res.root) ∧ res.allocs = allocSeq s ∧
      res.nilUsed = s.nilUsed ∧ res.errUsed = s.errUsed := by
  obtain ⟨rk, hd, wf, hr, _⟩ := final_wf h hS hg hcyc hsr hm hb hres
  obtain ⟨tab, root, hx⟩ := PC.exportTable_some wf hr
  rw [toHeap_ofHeap] at hx
  unfold makeParseSt at hm
  split at hm
  · cases hm
  · rename_i s00 hi
    simp only [makeParse, hi, hm, hb, hres, hx]
    exact ⟨_, rfl, rfl, rfl, rfl, rfl⟩

end

/-! ## the ERROR node -/

/-- the ERROR node is one of the live cells iff its `used` flag is set … -/
theorem err_live_iff (s : St) (hsz : 3 ≤ s.heap.size) : errId ∈ NG.liveCells s ↔ s.errUsed = true := by
  rw [NG.mem_liveCells]
  constructor
  · rintro ⟨_, _, _, h⟩; exact h rfl
  · intro h
    exact ⟨by unfold errId; omega, by decide, (fun e => by cases e), fun _ => h⟩

/-- … and handed back at the end of `make_parse` iff it is not -/
theorem err_handedBack_iff (s : St) : errId ∈ NG.handedBack s ↔ s.errUsed = false := by
  unfold NG.handedBack
  cases s.nilUsed <;> cases s.errUsed <;> simp [errId, nilId]

/-- the NIL node, the same -/
theorem nil_live_iff (s : St) (hsz : 3 ≤ s.heap.size) : nilId ∈ NG.liveCells s ↔ s.nilUsed = true := by
  rw [NG.mem_liveCells]
  constructor
  · rintro ⟨_, _, h, _⟩; exact h rfl
  · intro h
    exact ⟨by unfold nilId; omega, by decide, fun _ => h, (fun e => by cases e)⟩

theorem nil_handedBack_iff (s : St) : nilId ∈ NG.handedBack s ↔ s.nilUsed = false := by
  unfold NG.handedBack
  cases s.nilUsed <;> cases s.errUsed <;> simp [errId, nilId]

/-- **the ERROR node is released by `yaep_free_tree` exactly when it is used**: under
`NG.Released`, some node block that `free_tree` releases is the ERROR cell iff `errUsed`; and then
exactly one is (no two blocks released are the same cell) -/
theorem err_released_iff {c : Ctx} {s : St} {cells : List Nat} {tab : Array NodeRec} {root : Nat}
    (hsz : 3 ≤ s.heap.size) (hR : NG.Released c s cells tab root) :
    (∃ b ∈ freedBlocks (freeTree tab root), NG.isNameB b = false ∧
      NG.cellOf (PC.ofHeap s.heap) cells b = errId) ↔ s.errUsed = true := by
  rw [← err_live_iff s hsz, ← hR.cellsPerm.mem_iff]
  simp only [List.mem_map, List.mem_filter, Bool.not_eq_true']
  constructor
  · rintro ⟨b, hb, h1, h2⟩; exact ⟨b, ⟨hb, h1⟩, h2⟩
  · rintro ⟨b, ⟨hb, h1⟩, h2⟩; exact ⟨b, hb, h1, h2⟩

/-- no cell is released twice by `yaep_free_tree`: the map from the node / ALT blocks released to
the cells is injective (a consequence of `cellsPerm` and the absence of duplicates in `liveCells`) -/
theorem released_cells_nodup {c : Ctx} {s : St} {cells : List Nat} {tab : Array NodeRec} {root : Nat}
    (hR : NG.Released c s cells tab root) :
    (((freedBlocks (freeTree tab root)).filter fun b => !NG.isNameB b).map
      (NG.cellOf (PC.ofHeap s.heap) cells)).Nodup :=
  hR.cellsPerm.nodup_iff.2 (NG.liveCells_nodup s)

theorem inj_of_nodup_map {α β : Type} {f : α → β} : ∀ {l : List α}, (l.map f).Nodup →
    ∀ x ∈ l, ∀ y ∈ l, f x = f y → x = y
  | [], _, x, hx, _, _, _ => by cases hx
  | a :: l, h, x, hx, y, hy, e => by
    rw [List.map_cons, List.nodup_cons] at h
    rcases List.mem_cons.1 hx with rfl | hx' <;> rcases List.mem_cons.1 hy with rfl | hy'
    · rfl
    · exact absurd (List.mem_map.2 ⟨y, hy', e.symm⟩) h.1
    · exact absurd (List.mem_map.2 ⟨x, hx', e⟩) h.1
    · exact inj_of_nodup_map h.2 x hx' y hy' e

/-- distinct node / ALT blocks released by `yaep_free_tree` are distinct cells -/
theorem released_inj {c : Ctx} {s : St} {cells : List Nat} {tab : Array NodeRec} {root : Nat}
    (hR : NG.Released c s cells tab root) :
    ∀ b ∈ freedBlocks (freeTree tab root), ∀ b' ∈ freedBlocks (freeTree tab root),
      NG.isNameB b = false → NG.isNameB b' = false →
      NG.cellOf (PC.ofHeap s.heap) cells b = NG.cellOf (PC.ofHeap s.heap) cells b' → b = b' := by
  intro b hb b' hb' h1 h2 e
  refine inj_of_nodup_map (released_cells_nodup hR) b ?_ b' ?_ e
  · simp only [List.mem_filter, Bool.not_eq_true']; exact ⟨hb, h1⟩
  · simp only [List.mem_filter, Bool.not_eq_true']; exact ⟨hb', h2⟩

/-- **what happens to the ERROR node of a parse** (final machine state `s`, exported table
`(tab, root)`, `cells` mapping table indices to cells): it is released exactly once -/
structure ErrOnce (s : St) (cells : List Nat) (tab : Array NodeRec) (root : Nat) : Prop where
  /-- the tree handed to the caller contains an ERROR record iff the `used` flag is set -/
  table : (∃ k, k < tab.size ∧ tab.getD k .bad = .err) ↔ s.errUsed = true
  /-- `yaep_free_tree` releases the ERROR cell iff the flag is set … -/
  freed : (∃ b ∈ freedBlocks (freeTree tab root), NG.isNameB b = false ∧
    NG.cellOf (PC.ofHeap s.heap) cells b = errId) ↔ s.errUsed = true
  /-- … and then only once: two blocks released that are the ERROR cell are the same block -/
  once : ∀ b ∈ freedBlocks (freeTree tab root), ∀ b' ∈ freedBlocks (freeTree tab root),
    NG.isNameB b = false → NG.isNameB b' = false →
    NG.cellOf (PC.ofHeap s.heap) cells b = errId → NG.cellOf (PC.ofHeap s.heap) cells b' = errId → b = b'
  /-- `make_parse` hands it back before it returns iff the flag is off -/
  back : errId ∈ NG.handedBack s ↔ s.errUsed = false

theorem errOnce_of_released {c : Ctx} {s : St} {cells : List Nat} {tab : Array NodeRec} {root : Nat}
    (hsz : 3 ≤ s.heap.size) (hR : NG.Released c s cells tab root)
    (ht : (∃ k, k < tab.size ∧ tab.getD k .bad = .err) ↔ s.errUsed = true) :
    ErrOnce s cells tab root :=
  ⟨ht, err_released_iff hsz hR,
    fun b hb b' hb' h1 h2 e1 e2 => released_inj hR b hb b' hb' h1 h2 (e1.trans e2.symm),
    err_handedBack_iff s⟩

/-- **the ERROR node is in the tree handed to the caller iff its `used` flag is set**: the exported
table of a finished run has an `err` record iff `errUsed` (so the ERROR node is counted as one of
the blocks of the tree exactly when the tree refers to it, and handed back by `make_parse`
otherwise) -/
theorem err_table {c : Ctx} {s : St} {r : Nat} {rk hd : Nat → Nat} (hi : NG.NGInv c s)
    (hst : s.stack = []) (hres : s.result = some r) (wf : PC.WfHeap (PC.ofHeap s.heap) rk hd)
    (hr : r < (PC.ofHeap s.heap).size) (hdr : hd r = r) {tab : Array NodeRec} {root : Nat}
    (hx : exportTable s.heap r = some (tab, root)) :
    (∃ k, k < tab.size ∧ tab.getD k .bad = .err) ↔ s.errUsed = true := by
  have hx' : exportTable (PC.toHeap (PC.ofHeap s.heap)) r = some (tab, root) := by
    rw [toHeap_ofHeap]; exact hx
  obtain ⟨cells, b1, b2, b3, b4, b5, b6, b7, b8, b9, b10⟩ := NG.export_free_bij wf hr hdr hx'
  have hi' : NG.Inv c s.heap s.states [] s.nilUsed s.errUsed s.namedRules s.nameAfter := by
    have := hi; unfold NG.NGInv at this; rw [hst] at this; exact this
  have hk := hi'.hok
  have hsz := hk.size
  have hlive := NG.reach_iff_live hi hst hres wf hr
  constructor
  · rintro ⟨k, hkl, he⟩
    obtain ⟨⟨ids, e1, _, _⟩, hre⟩ := b3 k hkl
    rw [toHeap_ofHeap, he] at e1
    have hcell : s.heap.getD (cells.getD k 0) .nil = .err := by
      unfold cellRec at e1
      cases hc : s.heap.getD (cells.getD k 0) .nil <;> rw [hc] at e1 <;> simp at e1
    have hlt := ((hlive _).1 hre)
    rw [NG.mem_liveCells] at hlt
    have : cells.getD k 0 = errId := by
      apply NG.err_unique hk hlt.1
      unfold PC.isErrCell
      rw [cellAt_ofHeap, hcell]; rfl
    exact hlt.2.2.2 this
  · intro hu
    have hre : PC.Reach (PC.ofHeap s.heap) r errId := (hlive _).2 ((err_live_iff s hsz).2 hu)
    obtain ⟨b, hb, hnb, hc⟩ := (b6 errId).1 hre
    have hna : PC.isAlt (PC.ofHeap s.heap) errId = false := by
      unfold PC.isAlt; rw [cellAt_ofHeap, hk.cerr]; rfl
    cases b with
    | name nm => simp [NG.isNameB] at hnb
    | cell k p =>
      have := (b7 _ hb).2 k p rfl
      rw [hc, hna] at this; cases this
    | node k =>
      have hck : cells.getD k 0 = errId := hc
      have hkl : k < tab.size := by
        rcases Nat.lt_or_ge k tab.size with h1 | h1
        · exact h1
        · rw [List.getD_eq_getElem?_getD, List.getElem?_eq_none (by omega)] at hck
          cases hck
      refine ⟨k, hkl, ?_⟩
      obtain ⟨⟨ids, e1, _, _⟩, _⟩ := b3 k hkl
      rw [toHeap_ofHeap, hck] at e1
      rw [e1]
      unfold cellRec
      rw [hk.cerr]

/-! ## the cost flag -/

/-- a finished run has the three fixed cells (NIL, ERROR, the C-stack cell of `result`) -/
theorem size_of_inv {c : Ctx} {s : St} (hi : NG.NGInv c s) (hst : s.stack = []) : 3 ≤ s.heap.size := by
  have hi' : NG.Inv c s.heap s.states [] s.nilUsed s.errUsed s.namedRules s.nameAfter := by
    have := hi; unfold NG.NGInv at this; rw [hst] at this; exact this
  exact hi'.hok.size

/-- **the ERROR node (and the NIL node) under the cost flag**: `find_minimal_translation` never hands
the ERROR node to `parse_free` itself; the node stays in the pruned tree iff its `used` flag is
still set afterwards, and it is handed back at the end of `make_parse` iff the flag is off — either
because no translation used it or because the pruning discarded every alternative that contains
it.  So it is released exactly once: by `yaep_free_tree` (with the pruned tree) or at the end of
`make_parse`. -/
theorem cost_err_nil {c : Ctx} {s : St} {r : Nat} {rk hd : Nat → Nat} (hi : NG.NGInv c s)
    (hst : s.stack = []) (hres : s.result = some r) (wf : PC.WfHeap (PC.ofHeap s.heap) rk hd)
    (hr : r < (PC.ofHeap s.heap).size) (hdr : hd r = r) {fuel' : Nat} (hf : s.heap.size ≤ fuel')
    (onep : Bool) (nameBlk : Nat → Nat) {R : PC.Result}
    (hR : R = PC.findMinimalTranslation fuel' (PC.ofHeap s.heap) r onep true nameBlk s.nilUsed s.errUsed) :
    (PC.Mem.cell errId ∉ R.frees ∧ (PC.Reach R.heap R.root errId ↔ R.errUsed = true) ∧
      (errId ∈ NG.handedBackAfter R ↔ R.errUsed = false) ∧ (R.errUsed = true → s.errUsed = true)) ∧
    (PC.Mem.cell nilId ∉ R.frees ∧ (PC.Reach R.heap R.root nilId ↔ R.nilUsed = true) ∧
      (nilId ∈ NG.handedBackAfter R ↔ R.nilUsed = false) ∧ (R.nilUsed = true → s.nilUsed = true)) := by
  have hf' : (PC.ofHeap s.heap).size ≤ fuel' := by rw [size_ofHeap]; exact hf
  have hi' : NG.Inv c s.heap s.states [] s.nilUsed s.errUsed s.namedRules s.nameAfter := by
    have := hi; unfold NG.NGInv at this; rw [hst] at this; exact this
  have hk := hi'.hok
  have hsz := hk.size
  obtain ⟨_, g2, _⟩ := NG.cost_partition hi hst hres wf hr hdr hf onep nameBlk
  rw [← hR] at g2
  have F1 : ∀ q, PC.Mem.cell q ∈ R.frees → PC.isNE (PC.ofHeap s.heap) q = false := by
    intro q hq; rw [hR] at hq
    exact ((PC.pruneC_frees wf hr hdr hf' onep nameBlk _ _ q).1 hq).2.2
  have FN := PC.pruneC_nil_used wf hr hdr hf' onep nameBlk s.nilUsed s.errUsed
  have FE := PC.pruneC_err_used wf hr hdr hf' onep nameBlk s.nilUsed s.errUsed
  rw [← hR] at FN FE
  have hbe : errId ∈ NG.handedBackAfter R ↔ R.errUsed = false := by
    rw [NG.mem_handedBackAfter]
    constructor
    · rintro (⟨e, _⟩ | ⟨_, h⟩)
      · cases e
      · exact h
    · intro h; exact Or.inr ⟨rfl, h⟩
  have hbn : nilId ∈ NG.handedBackAfter R ↔ R.nilUsed = false := by
    rw [NG.mem_handedBackAfter]
    constructor
    · rintro (⟨_, h⟩ | ⟨e, _⟩)
      · exact h
      · cases e
    · intro h; exact Or.inl ⟨rfl, h⟩
  have hfe : PC.Mem.cell errId ∉ R.frees := by
    intro hq
    have := F1 _ hq
    unfold PC.isNE at this
    rw [NG.isErr_errId hk] at this
    simp at this
  have hfn : PC.Mem.cell nilId ∉ R.frees := by
    intro hq
    have := F1 _ hq
    unfold PC.isNE at this
    rw [NG.isNil_nilId hk] at this
    simp at this
  refine ⟨⟨hfe, ?_, hbe, fun h => (FE.1 h).1⟩, ⟨hfn, ?_, hbn, fun h => (FN.1 h).1⟩⟩
  · rcases g2 errId (by unfold errId; omega) (by decide) with ⟨a1, _, a3⟩ | ⟨_, a2, _⟩ | ⟨a1, _, a3⟩
    · refine ⟨fun _ => ?_, fun _ => a1⟩
      cases hq : R.errUsed with
      | true => rfl
      | false => exact absurd (hbe.2 hq) a3
    · exact absurd a2 hfe
    · refine ⟨fun h => absurd h a1, fun h => ?_⟩
      rw [hbe.1 a3] at h; cases h
  · rcases g2 nilId (by unfold nilId; omega) (by decide) with ⟨a1, _, a3⟩ | ⟨_, a2, _⟩ | ⟨a1, _, a3⟩
    · refine ⟨fun _ => ?_, fun _ => a1⟩
      cases hq : R.nilUsed with
      | true => rfl
      | false => exact absurd (hbn.2 hq) a3
    · exact absurd a2 hfn
    · refine ⟨fun h => absurd h a1, fun h => ?_⟩
      rw [hbn.1 a3] at h; cases h

/-- **the ERROR node is in the pruned tree handed to the caller iff its `used` flag is still set**:
the exported table of the tree `find_minimal_translation` returns has an `err` record iff
`R.errUsed` -/
theorem cost_err_table {c : Ctx} {s : St} {r : Nat} {rk hd : Nat → Nat} (hi : NG.NGInv c s)
    (hst : s.stack = []) (hres : s.result = some r) (wf : PC.WfHeap (PC.ofHeap s.heap) rk hd)
    (hr : r < (PC.ofHeap s.heap).size) (hdr : hd r = r) {fuel' : Nat} (hf : s.heap.size ≤ fuel')
    (onep : Bool) (nameBlk : Nat → Nat) {R : PC.Result}
    (hR : R = PC.findMinimalTranslation fuel' (PC.ofHeap s.heap) r onep true nameBlk s.nilUsed s.errUsed)
    {tab : Array NodeRec} {root : Nat}
    (hx : exportTable (PC.toHeap R.heap) R.root = some (tab, root)) :
    (∃ k, k < tab.size ∧ tab.getD k .bad = .err) ↔ R.errUsed = true := by
  have hf' : (PC.ofHeap s.heap).size ≤ fuel' := by rw [size_ofHeap]; exact hf
  have H := NG.finalHeap_of_fmt wf hr hdr hf' onep true nameBlk s.nilUsed s.errUsed
  obtain ⟨⟨_, herr, _, _⟩, _⟩ := cost_err_nil hi hst hres wf hr hdr hf onep nameBlk hR
  have hsub : ∀ z, PC.Reach R.heap R.root z → PC.Reach (PC.ofHeap s.heap) r z := by
    intro z hz; rw [hR] at hz
    exact NG.pruned_reach_sub wf hr hdr hf' onep nameBlk _ _ hz
  have hkind : ∀ z, PC.Reach (PC.ofHeap s.heap) r z →
      PC.kindOf R.heap z = PC.kindOf (PC.ofHeap s.heap) z := by
    intro z hz
    rw [hR, PC.fmt_heap]
    exact PC.kind_final wf hr hdr hf' onep true nameBlk (PC.coll_seen wf hr hdr hf' onep true hz)
  rw [← hR] at H
  obtain ⟨cells, b1, b2, b3, b4, b5, b6, b7, b8, b9, b10⟩ := H.export_free_bij hx
  have hi' : NG.Inv c s.heap s.states [] s.nilUsed s.errUsed s.namedRules s.nameAfter := by
    have := hi; unfold NG.NGInv at this; rw [hst] at this; exact this
  have hk := hi'.hok
  have hsz := hk.size
  have hlive := NG.reach_iff_live hi hst hres wf hr
  constructor
  · rintro ⟨k, hkl, he⟩
    obtain ⟨⟨ids, e1, _, _⟩, hre⟩ := b3 k hkl
    rw [he] at e1
    have hcell : PC.isErrCell R.heap (cells.getD k 0) = true := by
      unfold cellRec at e1
      rw [PC.toHeap_getD] at e1
      unfold PC.isErrCell
      cases hc : PC.cellAt R.heap (cells.getD k 0) <;> rw [hc] at e1 <;> simp [PC.toMNode] at e1
    have hold := hsub _ hre
    rw [PC.isErrCell_kind, hkind _ hold, ← PC.isErrCell_kind] at hcell
    have hlt := ((hlive _).1 hold)
    rw [NG.mem_liveCells] at hlt
    have : cells.getD k 0 = errId := NG.err_unique hk hlt.1 hcell
    rw [this] at hre
    exact herr.1 hre
  · intro hu
    have hre : PC.Reach R.heap R.root errId := herr.2 hu
    have hce : PC.cellAt R.heap errId = .err := by
      have h1 := hkind _ (hsub _ hre)
      have h2 : PC.kindOf (PC.ofHeap s.heap) errId = 1 := by
        unfold PC.kindOf; rw [cellAt_ofHeap, hk.cerr]; rfl
      rw [h2] at h1
      unfold PC.kindOf at h1
      cases hc : PC.cellAt R.heap errId <;> rw [hc] at h1 <;> simp at h1
    obtain ⟨b, hb, hnb, hc⟩ := (b6 errId).1 hre
    have hna : PC.isAlt R.heap errId = false := by
      unfold PC.isAlt; rw [hce]
    cases b with
    | name nm => simp [NG.isNameB] at hnb
    | cell k p =>
      have := (b7 _ hb).2 k p rfl
      rw [hc, hna] at this; cases this
    | node k =>
      have hck : cells.getD k 0 = errId := hc
      have hkl : k < tab.size := by
        rcases Nat.lt_or_ge k tab.size with h1 | h1
        · exact h1
        · rw [List.getD_eq_getElem?_getD, List.getElem?_eq_none (by omega)] at hck
          cases hck
      refine ⟨k, hkl, ?_⟩
      obtain ⟨⟨ids, e1, _, _⟩, _⟩ := b3 k hkl
      rw [hck] at e1
      rw [e1]
      unfold cellRec
      rw [PC.toHeap_getD, hce]
      rfl

/-- **what happens to the ERROR node under the cost flag** (`R` the result of
`find_minimal_translation` on the tree memory of the run `s`, `(tab, root)` the exported table of
the pruned tree): it is released exactly once — never by `find_minimal_translation` itself; by
`yaep_free_tree` when the pruned tree still contains it; at the end of `make_parse` otherwise (no
translation used it, or the pruning discarded every alternative that contains it and cleared its
`used` flag) -/
structure CostErrOnce (s : St) (R : PC.Result) (cells : List Nat) (tab : Array NodeRec)
    (root : Nat) : Prop where
  /-- `find_minimal_translation` does not hand the ERROR node to `parse_free` -/
  notFreed : PC.Mem.cell errId ∉ R.frees
  /-- the pruning can only clear the flag -/
  mono : R.errUsed = true → s.errUsed = true
  /-- the flag after the pruning says whether the pruned tree refers to the ERROR node -/
  reach : PC.Reach R.heap R.root errId ↔ R.errUsed = true
  /-- the pruned tree handed to the caller contains an ERROR record iff the flag is still set -/
  table : (∃ k, k < tab.size ∧ tab.getD k .bad = .err) ↔ R.errUsed = true
  /-- `yaep_free_tree` releases the ERROR cell iff the flag is still set … -/
  freed : (∃ b ∈ freedBlocks (freeTree tab root), NG.isNameB b = false ∧
    NG.cellOf R.heap cells b = errId) ↔ R.errUsed = true
  /-- … and then only once -/
  once : ∀ b ∈ freedBlocks (freeTree tab root), ∀ b' ∈ freedBlocks (freeTree tab root),
    NG.isNameB b = false → NG.isNameB b' = false →
    NG.cellOf R.heap cells b = errId → NG.cellOf R.heap cells b' = errId → b = b'
  /-- `make_parse` hands it back before it returns iff the flag is off after the pruning -/
  back : errId ∈ NG.handedBackAfter R ↔ R.errUsed = false

theorem costErrOnce {c : Ctx} {s : St} {r : Nat} {rk hd : Nat → Nat} (hi : NG.NGInv c s)
    (hst : s.stack = []) (hres : s.result = some r) (wf : PC.WfHeap (PC.ofHeap s.heap) rk hd)
    (hr : r < (PC.ofHeap s.heap).size) (hdr : hd r = r) {fuel' : Nat} (hf : s.heap.size ≤ fuel')
    (onep : Bool) (nameBlk : Nat → Nat) {R : PC.Result}
    (hR : R = PC.findMinimalTranslation fuel' (PC.ofHeap s.heap) r onep true nameBlk s.nilUsed s.errUsed)
    {tab : Array NodeRec} {root : Nat} {cells : List Nat}
    (hx : exportTable (PC.toHeap R.heap) R.root = some (tab, root))
    (hC : NG.CostReleased c s nameBlk R cells tab root) : CostErrOnce s R cells tab root := by
  obtain ⟨⟨e1, e2, e3, e4⟩, _⟩ := cost_err_nil hi hst hres wf hr hdr hf onep nameBlk hR
  have hsz := size_of_inv hi hst
  refine ⟨e1, e4, e2, cost_err_table hi hst hres wf hr hdr hf onep nameBlk hR hx, ?_,
    fun b hb b' hb' h1 h2 a1 a2 => hC.inj b hb b' hb' h1 h2 (a1.trans a2.symm), e3⟩
  rcases hC.cellsOnce errId (by unfold errId; omega) (by decide) with ⟨a1, _, a3⟩ | ⟨a1, a2, _⟩ | ⟨a1, _, a3⟩
  · refine ⟨fun _ => ?_, fun _ => a1⟩
    cases hq : R.errUsed with
    | true => rfl
    | false => exact absurd (e3.2 hq) a3
  · exact absurd a2 e1
  · refine ⟨fun h => absurd h a1, fun h => ?_⟩
    rw [e3.1 a3] at h; cases h

section
variable {g : Grammar} {la : Nat} {full : List Nat} {pl : List PSet} {S : Array (Array Item)}

/-- **the blocks of the parse and what `yaep_free_tree` releases, on the final list** -/
theorem final_released (h : Final g la full pl) (hS : SameSets pl S) (hg : GrOK g)
    (hcyc : ¬ Cyclic g) (hsr : g.symsInRange = true) {one : Bool} {fuel : Nat} {s : St} {r : Nat}
    (hm : makeParseSt (mkCtx g S (tokNums pl) one) fuel = some s) (hb : s.bad = false)
    (hres : s.result = some r) {tab : Array NodeRec} {root : Nat}
    (hx : exportTable s.heap r = some (tab, root)) :
    ∃ cells : List Nat, cells.length = tab.size ∧ cells.getD root 0 = r ∧
      (∀ id, id < tab.size → RepAt s.heap tab cells id) ∧
      NG.Released (mkCtx g S (tokNums pl) one) s cells tab root ∧ ErrOnce s cells tab root := by
  obtain ⟨rk, hd, wf, hr, hdr⟩ := final_wf h hS hg hcyc hsr hm hb hres
  obtain ⟨hi, hst⟩ := final_inv hg hm
  obtain ⟨cells, c1, c2, c3, c4⟩ := NG.released_of_inv hi hst hres wf hr hdr hx
  exact ⟨cells, c1, c2, c3, c4,
    errOnce_of_released (size_of_inv hi hst) c4 (err_table hi hst hres wf hr hdr hx)⟩

/-- **the cost flag on the final list, cells**: after `find_minimal_translation` every cell of the
tree memory other than `rootId` is exactly one of: reachable from the new root / freed by
`find_minimal_translation` / handed back at the end of `make_parse` -/
theorem final_cost_cells (h : Final g la full pl) (hS : SameSets pl S) (hg : GrOK g)
    (hcyc : ¬ Cyclic g) (hsr : g.symsInRange = true) {fuel : Nat} {s : St} {r : Nat}
    (hm : makeParseSt (mkCtx g S (tokNums pl) false) fuel = some s) (hb : s.bad = false)
    (hres : s.result = some r) {fuel' : Nat} (hf : s.heap.size ≤ fuel') (onep : Bool)
    (nameBlk : Nat → Nat) :
    (PC.findMinimalTranslation fuel' (PC.ofHeap s.heap) r onep true nameBlk s.nilUsed s.errUsed).frees.Nodup ∧
    (∀ i, i < s.heap.size → i ≠ rootId →
      (PC.Reach (PC.findMinimalTranslation fuel' (PC.ofHeap s.heap) r onep true nameBlk s.nilUsed s.errUsed).heap
          (PC.findMinimalTranslation fuel' (PC.ofHeap s.heap) r onep true nameBlk s.nilUsed s.errUsed).root i ∧
        PC.Mem.cell i ∉ (PC.findMinimalTranslation fuel' (PC.ofHeap s.heap) r onep true nameBlk s.nilUsed s.errUsed).frees ∧
        i ∉ NG.handedBackAfter (PC.findMinimalTranslation fuel' (PC.ofHeap s.heap) r onep true nameBlk s.nilUsed s.errUsed)) ∨
      (¬ PC.Reach (PC.findMinimalTranslation fuel' (PC.ofHeap s.heap) r onep true nameBlk s.nilUsed s.errUsed).heap
          (PC.findMinimalTranslation fuel' (PC.ofHeap s.heap) r onep true nameBlk s.nilUsed s.errUsed).root i ∧
        PC.Mem.cell i ∈ (PC.findMinimalTranslation fuel' (PC.ofHeap s.heap) r onep true nameBlk s.nilUsed s.errUsed).frees ∧
        i ∉ NG.handedBackAfter (PC.findMinimalTranslation fuel' (PC.ofHeap s.heap) r onep true nameBlk s.nilUsed s.errUsed)) ∨
      (¬ PC.Reach (PC.findMinimalTranslation fuel' (PC.ofHeap s.heap) r onep true nameBlk s.nilUsed s.errUsed).heap
          (PC.findMinimalTranslation fuel' (PC.ofHeap s.heap) r onep true nameBlk s.nilUsed s.errUsed).root i ∧
        PC.Mem.cell i ∉ (PC.findMinimalTranslation fuel' (PC.ofHeap s.heap) r onep true nameBlk s.nilUsed s.errUsed).frees ∧
        i ∈ NG.handedBackAfter (PC.findMinimalTranslation fuel' (PC.ofHeap s.heap) r onep true nameBlk s.nilUsed s.errUsed))) ∧
    (∀ i,
      (PC.Reach (PC.findMinimalTranslation fuel' (PC.ofHeap s.heap) r onep true nameBlk s.nilUsed s.errUsed).heap
          (PC.findMinimalTranslation fuel' (PC.ofHeap s.heap) r onep true nameBlk s.nilUsed s.errUsed).root i ∨
        PC.Mem.cell i ∈ (PC.findMinimalTranslation fuel' (PC.ofHeap s.heap) r onep true nameBlk s.nilUsed s.errUsed).frees ∨
        i ∈ NG.handedBackAfter (PC.findMinimalTranslation fuel' (PC.ofHeap s.heap) r onep true nameBlk s.nilUsed s.errUsed)) →
      i < s.heap.size ∧ i ≠ rootId) := by
  obtain ⟨rk, hd, wf, hr, hdr⟩ := final_wf h hS hg hcyc hsr hm hb hres
  obtain ⟨hi, hst⟩ := final_inv hg hm
  exact NG.cost_partition hi hst hres wf hr hdr hf onep nameBlk

/-- **the cost flag on the final list, `yaep_free_tree` on the pruned tree** -/
theorem final_cost_released (h : Final g la full pl) (hS : SameSets pl S) (hg : GrOK g)
    (hcyc : ¬ Cyclic g) (hsr : g.symsInRange = true) {fuel : Nat} {s : St} {r : Nat}
    (hm : makeParseSt (mkCtx g S (tokNums pl) false) fuel = some s) (hb : s.bad = false)
    (hres : s.result = some r) {fuel' : Nat} (hf : s.heap.size ≤ fuel') (onep : Bool)
    (nameBlk : Nat → Nat) :
    ∃ tab root cells,
      exportTable (PC.toHeap (PC.findMinimalTranslation fuel' (PC.ofHeap s.heap) r onep true nameBlk
        s.nilUsed s.errUsed).heap) (PC.findMinimalTranslation fuel' (PC.ofHeap s.heap) r onep true
        nameBlk s.nilUsed s.errUsed).root = some (tab, root) ∧
      cells.length = tab.size ∧
      cells.getD root 0 = (PC.findMinimalTranslation fuel' (PC.ofHeap s.heap) r onep true nameBlk
        s.nilUsed s.errUsed).root ∧
      (∀ id, id < tab.size → RepAt (PC.toHeap (PC.findMinimalTranslation fuel' (PC.ofHeap s.heap) r
        onep true nameBlk s.nilUsed s.errUsed).heap) tab cells id) ∧
      NG.CostReleased (mkCtx g S (tokNums pl) false) s nameBlk
        (PC.findMinimalTranslation fuel' (PC.ofHeap s.heap) r onep true nameBlk s.nilUsed s.errUsed)
        cells tab root ∧
      CostErrOnce s
        (PC.findMinimalTranslation fuel' (PC.ofHeap s.heap) r onep true nameBlk s.nilUsed s.errUsed)
        cells tab root := by
  obtain ⟨rk, hd, wf, hr, hdr⟩ := final_wf h hS hg hcyc hsr hm hb hres
  obtain ⟨hi, hst⟩ := final_inv hg hm
  obtain ⟨tab, root, cells, c1, c2, c3, c4, c5⟩ := NG.cost_released hi hst hres wf hr hdr hf onep nameBlk
  exact ⟨tab, root, cells, c1, c2, c3, c4, c5,
    costErrOnce hi hst hres wf hr hdr hf onep nameBlk rfl c1 c5⟩

/-- the ERROR / NIL node under the cost flag, on the final list (see `cost_err_nil`) -/
theorem final_cost_err_nil (h : Final g la full pl) (hS : SameSets pl S) (hg : GrOK g)
    (hcyc : ¬ Cyclic g) (hsr : g.symsInRange = true) {fuel : Nat} {s : St} {r : Nat}
    (hm : makeParseSt (mkCtx g S (tokNums pl) false) fuel = some s) (hb : s.bad = false)
    (hres : s.result = some r) {fuel' : Nat} (hf : s.heap.size ≤ fuel') (onep : Bool)
    (nameBlk : Nat → Nat) {R : PC.Result}
    (hR : R = PC.findMinimalTranslation fuel' (PC.ofHeap s.heap) r onep true nameBlk s.nilUsed s.errUsed) :
    (PC.Mem.cell errId ∉ R.frees ∧ (PC.Reach R.heap R.root errId ↔ R.errUsed = true) ∧
      (errId ∈ NG.handedBackAfter R ↔ R.errUsed = false) ∧ (R.errUsed = true → s.errUsed = true)) ∧
    (PC.Mem.cell nilId ∉ R.frees ∧ (PC.Reach R.heap R.root nilId ↔ R.nilUsed = true) ∧
      (nilId ∈ NG.handedBackAfter R ↔ R.nilUsed = false) ∧ (R.nilUsed = true → s.nilUsed = true)) := by
  obtain ⟨rk, hd, wf, hr, hdr⟩ := final_wf h hS hg hcyc hsr hm hb hres
  obtain ⟨hi, hst⟩ := final_inv hg hm
  exact cost_err_nil hi hst hres wf hr hdr hf onep nameBlk hR

/-- the exported table of the pruned tree has an `err` record iff the ERROR node is still used -/
theorem final_cost_err_table (h : Final g la full pl) (hS : SameSets pl S) (hg : GrOK g)
    (hcyc : ¬ Cyclic g) (hsr : g.symsInRange = true) {fuel : Nat} {s : St} {r : Nat}
    (hm : makeParseSt (mkCtx g S (tokNums pl) false) fuel = some s) (hb : s.bad = false)
    (hres : s.result = some r) {fuel' : Nat} (hf : s.heap.size ≤ fuel') (onep : Bool)
    (nameBlk : Nat → Nat) {R : PC.Result}
    (hR : R = PC.findMinimalTranslation fuel' (PC.ofHeap s.heap) r onep true nameBlk s.nilUsed s.errUsed)
    {tab : Array NodeRec} {root : Nat}
    (hx : exportTable (PC.toHeap R.heap) R.root = some (tab, root)) :
    (∃ k, k < tab.size ∧ tab.getD k .bad = .err) ↔ R.errUsed = true := by
  obtain ⟨rk, hd, wf, hr, hdr⟩ := final_wf h hS hg hcyc hsr hm hb hres
  obtain ⟨hi, hst⟩ := final_inv hg hm
  exact cost_err_table hi hst hres wf hr hdr hf onep nameBlk hR hx

/-- the exported table of the tree of `make_parse` has an `err` record iff the ERROR node is used
(either mode) -/
theorem final_err_table (h : Final g la full pl) (hS : SameSets pl S) (hg : GrOK g)
    (hcyc : ¬ Cyclic g) (hsr : g.symsInRange = true) {one : Bool} {fuel : Nat} {s : St} {r : Nat}
    (hm : makeParseSt (mkCtx g S (tokNums pl) one) fuel = some s) (hb : s.bad = false)
    (hres : s.result = some r) {tab : Array NodeRec} {root : Nat}
    (hx : exportTable s.heap r = some (tab, root)) :
    (∃ k, k < tab.size ∧ tab.getD k .bad = .err) ↔ s.errUsed = true := by
  obtain ⟨rk, hd, wf, hr, hdr⟩ := final_wf h hS hg hcyc hsr hm hb hres
  obtain ⟨hi, hst⟩ := final_inv hg hm
  exact err_table hi hst hres wf hr hdr hx

/-- the ERROR node (the NIL node) is reachable from the result cell iff its `used` flag is set -/
theorem final_err_nil_reach (h : Final g la full pl) (hS : SameSets pl S) (hg : GrOK g)
    (hcyc : ¬ Cyclic g) (hsr : g.symsInRange = true) {one : Bool} {fuel : Nat} {s : St} {r : Nat}
    (hm : makeParseSt (mkCtx g S (tokNums pl) one) fuel = some s) (hb : s.bad = false)
    (hres : s.result = some r) :
    (PC.Reach (PC.ofHeap s.heap) r errId ↔ s.errUsed = true) ∧
    (PC.Reach (PC.ofHeap s.heap) r nilId ↔ s.nilUsed = true) := by
  obtain ⟨rk, hd, wf, hr, _⟩ := final_wf h hS hg hcyc hsr hm hb hres
  obtain ⟨hi, hst⟩ := final_inv hg hm
  have hsz := size_of_inv hi hst
  rw [NG.reach_iff_live hi hst hres wf hr, NG.reach_iff_live hi hst hres wf hr]
  exact ⟨err_live_iff s hsz, nil_live_iff s hsz⟩

end

end Yaep.RNG
