import Yaep.Model.PruneC
import Yaep.Lemmas.Prune
import Yaep.Lemmas.MakeParse
/-!
# Basic facts for the model of `find_minimal_translation`: heap access, well-formed heaps,
ALT chains, the unfolded forest
-/
namespace Yaep.PC
open Yaep

/-! ## heap access -/

theorem cellAt_set! (h : Array Cell) (i j : Nat) (c : Cell) :
    cellAt (h.set! i c) j = if i = j ∧ i < h.size then c else cellAt h j :=
  MP.getD_set! h i j c .nil

theorem cellAt_set!_ne (h : Array Cell) {i j : Nat} (c : Cell) (hij : i ≠ j) :
    cellAt (h.set! i c) j = cellAt h j := by
  rw [cellAt_set!]; simp [hij]

theorem cellAt_set!_eq (h : Array Cell) {i : Nat} (c : Cell) (hi : i < h.size) :
    cellAt (h.set! i c) i = c := by
  rw [cellAt_set!]; simp [hi]

theorem size_set! (h : Array Cell) (i : Nat) (c : Cell) : (h.set! i c).size = h.size := by
  simp [Array.set!_eq_setIfInBounds]

def isAlt (h : Array Cell) (n : Nat) : Bool :=
  match cellAt h n with
  | .alt _ _ => true
  | _ => false

def isAnode (h : Array Cell) (n : Nat) : Bool :=
  match cellAt h n with
  | .anode _ _ _ => true
  | _ => false

@[simp] theorem size_setKid (h : Array Cell) (n i r : Nat) : (setKid h n i r).size = h.size := by
  unfold setKid; split <;> simp
@[simp] theorem size_setCost (h : Array Cell) (n : Nat) (c : Int) : (setCost h n c).size = h.size := by
  unfold setCost; split <;> simp
@[simp] theorem size_setAltNode (h : Array Cell) (n r : Nat) : (setAltNode h n r).size = h.size := by
  unfold setAltNode; split <;> simp
@[simp] theorem size_setAltNext (h : Array Cell) (n : Nat) (r : Option Nat) :
    (setAltNext h n r).size = h.size := by
  unfold setAltNext; split <;> simp

theorem cellAt_setKid_ne (h : Array Cell) {n j : Nat} (i r : Nat) (hne : n ≠ j) :
    cellAt (setKid h n i r) j = cellAt h j := by
  unfold setKid; split
  · exact cellAt_set!_ne _ _ hne
  · rfl
theorem cellAt_setCost_ne (h : Array Cell) {n j : Nat} (c : Int) (hne : n ≠ j) :
    cellAt (setCost h n c) j = cellAt h j := by
  unfold setCost; split
  · exact cellAt_set!_ne _ _ hne
  · rfl
theorem cellAt_setAltNode_ne (h : Array Cell) {n j : Nat} (r : Nat) (hne : n ≠ j) :
    cellAt (setAltNode h n r) j = cellAt h j := by
  unfold setAltNode; split
  · exact cellAt_set!_ne _ _ hne
  · rfl
theorem cellAt_setAltNext_ne (h : Array Cell) {n j : Nat} (r : Option Nat) (hne : n ≠ j) :
    cellAt (setAltNext h n r) j = cellAt h j := by
  unfold setAltNext; split
  · exact cellAt_set!_ne _ _ hne
  · rfl

theorem cellAt_setKid_eq {h : Array Cell} {n : Nat} {nm : String} {c : Int}
    {ks : Array (Option Nat)} (i r : Nat) (hn : n < h.size) (hc : cellAt h n = .anode nm c ks) :
    cellAt (setKid h n i r) n = .anode nm c (ks.set! i (some r)) := by
  simp only [setKid, hc]; exact cellAt_set!_eq _ _ hn
theorem cellAt_setCost_eq {h : Array Cell} {n : Nat} {nm : String} {c : Int}
    {ks : Array (Option Nat)} (c' : Int) (hn : n < h.size) (hc : cellAt h n = .anode nm c ks) :
    cellAt (setCost h n c') n = .anode nm c' ks := by
  simp only [setCost, hc]; exact cellAt_set!_eq _ _ hn
theorem cellAt_setAltNode_eq {h : Array Cell} {n : Nat} {nd : Nat} {nx : Option Nat}
    (r : Nat) (hn : n < h.size) (hc : cellAt h n = .alt nd nx) :
    cellAt (setAltNode h n r) n = .alt r nx := by
  simp only [setAltNode, hc]; exact cellAt_set!_eq _ _ hn
theorem cellAt_setAltNext_eq {h : Array Cell} {n : Nat} {nd : Nat} {nx : Option Nat}
    (r : Option Nat) (hn : n < h.size) (hc : cellAt h n = .alt nd nx) :
    cellAt (setAltNext h n r) n = .alt nd r := by
  simp only [setAltNext, hc]; exact cellAt_set!_eq _ _ hn

/-- a heap is determined by its size and its cells -/
theorem heap_ext {h h' : Array Cell} (hs : h.size = h'.size)
    (hc : ∀ i, i < h.size → cellAt h i = cellAt h' i) : h = h' := by
  apply Array.ext hs
  intro i h1 h2
  have := hc i h1
  simpa [cellAt, Array.getD_eq_getD_getElem?, h1, h2] using this

theorem setAltNode_self {h : Array Cell} {n nd : Nat} {nx : Option Nat}
    (hc : cellAt h n = .alt nd nx) : setAltNode h n nd = h := by
  apply heap_ext (by simp)
  intro i hi
  by_cases e : n = i
  · subst e; rw [cellAt_setAltNode_eq nd (by simpa using hi) hc, hc]
  · rw [cellAt_setAltNode_ne _ _ e]

/-! ## well-formed heaps -/

/-- `rk` is a rank (every reference goes to a cell of smaller rank), `hd` gives the head of
the chain an ALT cell belongs to.  Child slots refer only to heads; the alternative of an ALT
cell is never an ALT cell; the cost fields are not negative. -/
structure WfHeap (h : Array Cell) (rk hd : Nat → Nat) : Prop where
  rk_lt : ∀ i, i < h.size → rk i < h.size
  hd_self : ∀ i, i < h.size → isAlt h i = false → hd i = i
  anode : ∀ i nm c ks, i < h.size → cellAt h i = .anode nm c ks →
    0 ≤ c ∧ ∀ k ∈ kidsOf ks, k < h.size ∧ rk k < rk i ∧ hd k = k
  alt : ∀ i nd nx, i < h.size → cellAt h i = .alt nd nx →
    nd < h.size ∧ isAlt h nd = false ∧ rk nd < rk i ∧
      ∀ j, nx = some j → j < h.size ∧ isAlt h j = true ∧ rk j < rk i ∧ hd j = hd i

/-- the checker -/
def wfCellB (h : Array Cell) (rk hd : Nat → Nat) (i : Nat) : Bool :=
  decide (rk i < h.size) &&
  match cellAt h i with
  | .anode _ c ks =>
    decide (0 ≤ c) && decide (hd i = i) &&
      (kidsOf ks).all fun k => decide (k < h.size) && decide (rk k < rk i) && decide (hd k = k)
  | .alt nd nx =>
    decide (nd < h.size) && !isAlt h nd && decide (rk nd < rk i) &&
      match nx with
      | none => true
      | some j => decide (j < h.size) && isAlt h j && decide (rk j < rk i) && decide (hd j = hd i)
  | _ => decide (hd i = i)

def wfHeapB (h : Array Cell) (rk hd : Nat → Nat) : Bool :=
  (List.range h.size).all (wfCellB h rk hd)

theorem wfHeapB_sound {h : Array Cell} {rk hd : Nat → Nat} (hb : wfHeapB h rk hd = true) :
    WfHeap h rk hd := by
  have hc : ∀ i, i < h.size → wfCellB h rk hd i = true := by
    intro i hi
    simp only [wfHeapB, List.all_eq_true, List.mem_range] at hb
    exact hb i hi
  constructor
  · intro i hi
    have := hc i hi
    simp only [wfCellB, Bool.and_eq_true, decide_eq_true_eq] at this
    exact this.1
  · intro i hi ha
    have := hc i hi
    unfold wfCellB at this
    unfold isAlt at ha
    split at this
    · simp only [Bool.and_eq_true, decide_eq_true_eq] at this; exact this.2.1.2
    · rename_i e; rw [e] at ha; simp at ha
    · simp only [Bool.and_eq_true, decide_eq_true_eq] at this; exact this.2
  · intro i nm c ks hi hcell
    have := hc i hi
    unfold wfCellB at this
    rw [hcell] at this
    simp only [Bool.and_eq_true, decide_eq_true_eq, List.all_eq_true] at this
    exact ⟨this.2.1.1, fun k hk => by
      have := this.2.2 k hk
      exact ⟨this.1.1, this.1.2, this.2⟩⟩
  · intro i nd nx hi hcell
    have := hc i hi
    unfold wfCellB at this
    rw [hcell] at this
    simp only [Bool.and_eq_true, decide_eq_true_eq, Bool.not_eq_true'] at this
    refine ⟨this.2.1.1.1, this.2.1.1.2, this.2.1.2, ?_⟩
    intro j hj
    subst hj
    have h2 := this.2.2
    simp only [Bool.and_eq_true, decide_eq_true_eq] at h2
    exact ⟨h2.1.1.1, h2.1.1.2, h2.1.2, h2.2⟩

/-! ## ALT chains -/

/-- `l` is the list of cells of the chain that starts at cell `a` -/
inductive IsChain (h : Array Cell) : Nat → List Nat → Prop where
  | last {a nd : Nat} : cellAt h a = .alt nd none → IsChain h a [a]
  | cons {a nd j : Nat} {l : List Nat} : cellAt h a = .alt nd (some j) → IsChain h j l →
      IsChain h a (a :: l)

theorem chainCells_isChain {h : Array Cell} {rk hd : Nat → Nat} (wf : WfHeap h rk hd) :
    ∀ (fuel a : Nat), a < h.size → isAlt h a = true → rk a < fuel →
      IsChain h a (chainCells h fuel a) := by
  intro fuel
  induction fuel with
  | zero => intro a _ _ h0; omega
  | succ m ih =>
    intro a ha hal hr
    unfold chainCells
    unfold isAlt at hal
    split
    · rename_i nd nx e
      obtain ⟨-, -, -, hn⟩ := wf.alt a nd (some nx) ha e
      obtain ⟨h1, h2, h3, -⟩ := hn nx rfl
      exact .cons e (ih nx h1 h2 (by omega))
    · rename_i nd e
      exact .last e
    · rename_i e1 e2
      split at hal
      · rename_i nd nx e
        cases nx with
        | none => exact absurd e (e2 nd)
        | some j => exact absurd e (e1 nd j)
      · cases hal

theorem IsChain.head_eq {h : Array Cell} {a : Nat} {l : List Nat} (hc : IsChain h a l) :
    ∃ t, l = a :: t := by
  cases hc with
  | last _ => exact ⟨[], rfl⟩
  | cons _ _ => exact ⟨_, rfl⟩

theorem IsChain.head_alt {h : Array Cell} {a : Nat} {l : List Nat} (hc : IsChain h a l) :
    isAlt h a = true := by
  cases hc with
  | last e => simp [PC.isAlt, e]
  | cons e _ => simp [PC.isAlt, e]

/-- what well-formedness gives for the cells of a chain -/
theorem IsChain.props {h : Array Cell} {rk hd : Nat → Nat} (wf : WfHeap h rk hd) {a : Nat}
    {l : List Nat} (hc : IsChain h a l) (ha : a < h.size) :
    ∀ j ∈ l, j < h.size ∧ isAlt h j = true ∧ hd j = hd a ∧ rk j ≤ rk a := by
  induction hc with
  | last e =>
    intro j hj
    simp only [List.mem_singleton] at hj
    subst hj
    exact ⟨ha, by simp [PC.isAlt, e], rfl, Nat.le_refl _⟩
  | @cons a nd j l e hl ih =>
    obtain ⟨-, -, -, hn⟩ := wf.alt a nd (some j) ha e
    obtain ⟨h1, h2, h3, h4⟩ := hn j rfl
    intro x hx
    rcases List.mem_cons.1 hx with rfl | hx
    · exact ⟨ha, by simp [PC.isAlt, e], rfl, Nat.le_refl _⟩
    · obtain ⟨p1, p2, p3, p4⟩ := ih h1 x hx
      exact ⟨p1, p2, by rw [p3, h4], by omega⟩

/-- the cells after the first have strictly smaller rank -/
theorem IsChain.tail_rk {h : Array Cell} {rk hd : Nat → Nat} (wf : WfHeap h rk hd) {a : Nat}
    {t : List Nat} (hc : IsChain h a (a :: t)) (ha : a < h.size) : ∀ j ∈ t, rk j < rk a := by
  cases hc with
  | last e => intro j hj; cases hj
  | @cons _ nd j l e hl =>
    obtain ⟨-, -, -, hn⟩ := wf.alt a nd (some j) ha e
    obtain ⟨h1, h2, h3, h4⟩ := hn j rfl
    intro x hx
    have := (hl.props wf h1 x hx).2.2.2
    omega

theorem IsChain.nodup {h : Array Cell} {rk hd : Nat → Nat} (wf : WfHeap h rk hd) {a : Nat}
    {l : List Nat} (hc : IsChain h a l) (ha : a < h.size) : l.Nodup := by
  induction hc with
  | last e => simp
  | @cons a nd j l e hl ih =>
    obtain ⟨-, -, -, hn⟩ := wf.alt a nd (some j) ha e
    obtain ⟨h1, h2, h3, h4⟩ := hn j rfl
    refine List.nodup_cons.2 ⟨?_, ih h1⟩
    intro hmem
    have := (hl.props wf h1 a hmem).2.2.2
    omega

theorem IsChain.length_le {h : Array Cell} {rk hd : Nat → Nat} (wf : WfHeap h rk hd) {a : Nat}
    {l : List Nat} (hc : IsChain h a l) (ha : a < h.size) : l.length ≤ rk a + 1 := by
  induction hc with
  | last e => simp
  | @cons a nd j l e hl ih =>
    obtain ⟨-, -, -, hn⟩ := wf.alt a nd (some j) ha e
    obtain ⟨h1, h2, h3, h4⟩ := hn j rfl
    have := ih h1
    simp only [List.length_cons]
    omega

/-- the chain is determined by the heap -/
theorem IsChain.unique {h : Array Cell} {a : Nat} {l l' : List Nat} (hc : IsChain h a l)
    (hc' : IsChain h a l') : l = l' := by
  induction hc generalizing l' with
  | last e =>
    cases hc' with
    | last _ => rfl
    | cons e' _ => rw [e] at e'; cases e'
  | cons e _ ih =>
    cases hc' with
    | last e' => rw [e] at e'; cases e'
    | cons e' hl' =>
      rw [e] at e'
      cases e'
      rw [ih hl']

/-! ## children -/

theorem kidsOf_eq (ks : Array (Option Nat)) :
    kidsOf ks = (ks.toList.takeWhile Option.isSome).filterMap id := rfl

/-- the prefix of `some`s of a slot list -/
def somePrefix : List (Option Nat) → List Nat
  | some k :: r => k :: somePrefix r
  | _ => []

theorem kidsOf_somePrefix (ks : Array (Option Nat)) : kidsOf ks = somePrefix ks.toList := by
  rw [kidsOf_eq]
  generalize ks.toList = l
  induction l with
  | nil => rfl
  | cons x r ih =>
    cases x with
    | none => simp [somePrefix]
    | some k => simp [somePrefix, ih]

/-! ## the unfolded forest of a well-formed heap -/

theorem unfoldWith_indep (cv : Int → Nat) {h : Array Cell} {rk hd : Nat → Nat}
    (wf : WfHeap h rk hd) : ∀ (b k : Nat), rk k ≤ b → k < h.size → ∀ f f', rk k < f → rk k < f' →
      unfoldWith cv h f k = unfoldWith cv h f' k := by
  intro b
  induction b with
  | zero =>
    intro k hb hk f f' h1 h2
    obtain ⟨f, rfl⟩ : ∃ g, f = g + 1 := ⟨f - 1, by omega⟩
    obtain ⟨f', rfl⟩ : ∃ g, f' = g + 1 := ⟨f' - 1, by omega⟩
    unfold unfoldWith
    split
    · rfl
    · rfl
    · rfl
    · rename_i nm c ks e
      obtain ⟨-, hk'⟩ := wf.anode k nm c ks hk e
      have : kidsOf ks = [] := by
        cases hx : kidsOf ks with
        | nil => rfl
        | cons x r =>
          have := (hk' x (by rw [hx]; simp)).2.1
          omega
      simp [this]
    · rename_i nd nx e
      obtain ⟨-, -, h3, -⟩ := wf.alt k nd nx hk e
      omega
  | succ b ih =>
    intro k hb hk f f' h1 h2
    obtain ⟨f, rfl⟩ : ∃ g, f = g + 1 := ⟨f - 1, by omega⟩
    obtain ⟨f', rfl⟩ : ∃ g, f' = g + 1 := ⟨f' - 1, by omega⟩
    unfold unfoldWith
    split
    · rfl
    · rfl
    · rfl
    · rename_i nm c ks e
      obtain ⟨-, hk'⟩ := wf.anode k nm c ks hk e
      congr 1
      apply List.map_congr_left
      intro x hx
      obtain ⟨p1, p2, -⟩ := hk' x hx
      exact ih x (by omega) p1 f f' (by omega) (by omega)
    · rename_i nd nx e
      have hal : isAlt h k = true := by simp [isAlt, e]
      have hch := chainCells_isChain wf h.size k hk hal (wf.rk_lt k hk)
      congr 1
      apply List.map_congr_left
      intro x hx
      obtain ⟨j, hj, rfl⟩ := List.mem_map.1 hx
      obtain ⟨q1, q2, q3, q4⟩ := hch.props wf hk j hj
      unfold isAlt at q2
      split at q2
      · rename_i nd' nx' e'
        obtain ⟨r1, r2, r3, -⟩ := wf.alt j nd' nx' q1 e'
        have : altNode h j = nd' := by simp [altNode, e']
        rw [this]
        exact ih nd' (by omega) r1 f f' (by omega) (by omega)
      · cases q2

end Yaep.PC
