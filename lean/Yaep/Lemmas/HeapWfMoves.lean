import Yaep.Lemmas.HeapWfInv
/-!
# The heaps of the model of `make_parse` are well formed, part 4: the other primitive moves

A cell is allocated (`HInv.pushCell`), a state is pushed (`HInv.pushState`), the top state moves
its dot (`HInv.setTop`), the top state is popped (`HInv.pop`), the table grows
(`HInv.tableInsert`), the final `NULL → empty node` pass (`HInv.fillNil`).
-/
namespace Yaep.MP
open Yaep

theorem getKid_push_lt {h : Array MNode} {x : MNode} {a d : Nat} (ha : a < h.size) :
    getKid (h.push x) a d = getKid h a d := by
  unfold getKid; rw [getD_push_lt _ _ _ _ ha]

theorem getKid_ge {h : Array MNode} {a d : Nat} (ha : h.size ≤ a) : getKid h a d = none := by
  unfold getKid
  simp [Array.getD_eq_getD_getElem?, Array.getElem?_eq_none ha]

theorem getKid_lt {h : Array MNode} {a d k : Nat} (hk : getKid h a d = some k) : a < h.size := by
  rcases Nat.lt_or_ge a h.size with h1 | h1
  · exact h1
  · rw [getKid_ge h1] at hk; cases hk

section
variable {g : Grammar} {n : Nat} {h : Array MNode} {sts : Array PState} {stack : List Nat}
  {table : Array (List (Nat × Nat × Nat))} {Γ : Gh}

theorem Open.lt (hi : HInv g n h sts stack table Γ) {a d : Nat} (ho : Open g sts stack a d) :
    a < h.size := by
  rcases ho with ⟨rfl, _⟩ | ⟨sid, hm, h1, _⟩
  · exact hi.rootLt
  · exact (hi.sts sid hm).anLt a h1

/-- **a cell that is not an ALT cell is allocated**; its slots (a copy) hold only what closed slots
of old cells hold -/
theorem HInv.pushCell (hi : HInv g n h sts stack table Γ) (x : MNode) (r : Nat)
    (hw' : HW (h.push x) (Γ.newCell h.size r))
    (hkids : ∀ d k, getKid (h.push x) h.size d = some k →
      ∃ a, getKid h a d = some k ∧ ¬ Open g sts stack a d) :
    HInv g n (h.push x) sts stack table (Γ.newCell h.size r) := by
  have hr := hi.rootLt
  have hr' : 2 < h.size := hr
  have hA : ∀ k, k < h.size → isAlt (h.push x) k = isAlt h k := fun k hk => isAlt_push_lt hk
  refine ⟨hw', ?_, ?_, hi.rootSt, by simp; omega, hi.stLt, ?_, ?_, ?_⟩
  · rw [getD_push_lt _ _ _ _ (by show 0 < _; omega)]; exact hi.nil0
  · rw [getD_push_lt _ _ _ _ (by show 1 < _; omega)]; exact hi.err1
  · intro a2 d2 ho k hk hka a' d' hk'
    have ha2 := Open.lt hi ho
    rw [getKid_push_lt ha2] at hk
    have hklt := hi.hw.kid_lt hk
    rw [hA k hklt] at hka
    have ha' := getKid_lt hk'
    simp only [Array.size_push] at ha'
    by_cases hlt : a' < h.size
    · rw [getKid_push_lt hlt] at hk'
      exact hi.excl a2 d2 ho k hk hka a' d' hk'
    · have : a' = h.size := by omega
      subst this
      obtain ⟨a, e1, e2⟩ := hkids d' k hk'
      obtain ⟨rfl, rfl⟩ := hi.excl a2 d2 ho k hk hka a d' e1
      exact absurd ho e2
  · intro sid hm
    have hs := hi.sts sid hm
    exact hs.transfer (fun i hi' => (Γ.newCell_old r hi').1) rfl (by simp) (Nat.le_refl _) rfl rfl
      (fun x => x)
  · intro pl r' o node hmem
    obtain ⟨t1, t2, t3⟩ := hi.table pl r' o node hmem
    refine ⟨by simp; omega, by rw [hA node t1]; exact t2, ?_⟩
    intro rl hrl
    rw [(Γ.newCell_old r t1).1]; exact t3 rl hrl

/-- ghost data of a new state -/
def Gh.setHi (Γ : Gh) (sid e : Nat) : Gh := { Γ with shi := upd Γ.shi sid e }

/-- **a state is pushed** -/
theorem HInv.pushState (hi : HInv g n h sts stack table Γ) (t' : PState) (e : Nat)
    (hstk : ∀ x ∈ stack, x < sts.size)
    (hnew : SInv g n (Γ.setHi sts.size e) h.size (sts.push t') (sts.size :: stack) sts.size)
    (hex : ∀ a rl d, t'.anode = some a → g.rules[t'.rule]? = some rl →
      rl.order.getD t'.pos none = some d → ExclSlot h a d) :
    HInv g n h (sts.push t') (sts.size :: stack) table (Γ.setHi sts.size e) := by
  refine ⟨hi.hw, hi.nil0, hi.err1, ?_, hi.rootLt, by simp, ?_, ?_, hi.table⟩
  · rw [getD_push_lt _ _ _ _ hi.stLt]; exact hi.rootSt
  · intro a d ho
    rcases ho with h0 | ⟨sid, hm, h1, rl, h2, h3⟩
    · exact hi.excl a d (Or.inl h0)
    · rcases List.mem_cons.mp hm with rfl | hm'
      · rw [getD_push_eq] at h1 h2 h3
        exact hex a rl d h1 h2 h3
      · have hlt := hstk sid hm'
        rw [getD_push_lt _ _ _ _ hlt] at h1 h2 h3
        exact hi.excl a d (Or.inr ⟨sid, hm', h1, rl, h2, h3⟩)
  · intro sid hm
    rcases List.mem_cons.mp hm with rfl | hm'
    · exact hnew
    · have hs := hi.sts sid hm'
      have hlt := hs.lt
      have hp := hs.parLt
      exact hs.transfer (fun _ _ => rfl) (upd_ne _ _ (by omega)) (Nat.le_refl _) (by simp)
        (getD_push_lt _ _ _ _ hlt) (getD_push_lt _ _ _ _ (by omega))
        (fun x => List.mem_cons_of_mem _ x)

/-- **the top state moves its dot** (and its list index): `sts'` differs from `sts` in state `X` only -/
theorem HInv.setTop (hi : HInv g n h sts stack table Γ) {X : Nat} (hX : X ∈ stack)
    {sts' : Array PState} (t' : PState) (hsize : sts'.size = sts.size)
    (hsame : sts'.getD X default = t')
    (hne : ∀ y, y ≠ X → sts'.getD y default = sts.getD y default)
    (hnp : ∀ y ∈ stack, (sts.getD y default).parent ≠ X)
    (e1 : t'.parent = (sts.getD X default).parent) (e2 : t'.parentDisp = (sts.getD X default).parentDisp)
    (e3 : t'.anode = (sts.getD X default).anode) (e4 : t'.rule = (sts.getD X default).rule)
    (e5 : t'.orig = (sts.getD X default).orig)
    (hpl : t'.plInd ≤ Γ.shi X)
    (hsuf : t'.pos ≠ 0 → t'.plInd = Γ.shi X → ∀ rl, g.rules[t'.rule]? = some rl → ∀ j s,
      t'.pos ≤ j → rl.rhs[j]? = some s → Der g [s] [])
    (hex : ∀ a rl d, t'.anode = some a → g.rules[t'.rule]? = some rl →
      rl.order.getD t'.pos none = some d → ExclSlot h a d) :
    HInv g n h sts' stack table Γ := by
  have hsX := hi.sts X hX
  have hXlt := hsX.lt
  have hXpar := hsX.parLt
  refine ⟨hi.hw, hi.nil0, hi.err1, ?_, hi.rootLt, by rw [hsize]; exact hi.stLt, ?_, ?_, hi.table⟩
  · rw [hne 0 (by omega)]; exact hi.rootSt
  · intro a d ho
    rcases ho with h0 | ⟨sid, hm, h1, rl, h2, h3⟩
    · exact hi.excl a d (Or.inl h0)
    · by_cases hs : sid = X
      · subst hs
        rw [hsame] at h1 h2 h3
        exact hex a rl d h1 h2 h3
      · rw [hne sid hs] at h1 h2 h3
        exact hi.excl a d (Or.inr ⟨sid, hm, h1, rl, h2, h3⟩)
  · intro sid hm
    by_cases hs : sid = X
    · subst hs
      have hpar : sts'.getD t'.parent default = sts.getD t'.parent default := by
        rw [e1]; exact hne _ (by omega)
      have hpc : pcell sts' t' = pcell sts (sts.getD sid default) := by
        unfold pcell; rw [hpar, e1]
      have htc : tcell sts' t' = tcell sts (sts.getD sid default) := by
        unfold tcell; rw [hpc, e3]
      refine ⟨by rw [hsize]; exact hXlt, by rw [hsame, e1]; exact hXpar, ?_, by rw [hsame]; exact hpl,
        hsX.hiLe, by rw [hsame]; exact hsuf, ?_, ?_, by rw [hsame, e3]; exact hsX.anLt,
        by rw [hsame, hpc]; exact hsX.pcLt⟩
      · rw [hsame, e1, e2]
        rcases hsX.tgt with h1 | ⟨h1, rlP, h2, h3⟩
        · exact Or.inl h1
        · have := hne (sts.getD sid default).parent (by omega)
          exact Or.inr ⟨h1, rlP, by rw [this]; exact h2, by rw [this]; exact h3⟩
      · rw [hsame, htc, e4, e5]; exact hsX.tr
      · rw [hsame, hpc, e3]; exact hsX.pr
    · have hs' := hi.sts sid hm
      exact hs'.transfer (fun _ _ => rfl) rfl (Nat.le_refl _) (by rw [hsize]; exact Nat.le_refl _)
        (hne sid hs) (hne _ (hnp sid hm)) (fun x => x)

/-- **the top state is popped** -/
theorem HInv.pop (hi : HInv g n h sts stack table Γ) {X : Nat} {rest : List Nat}
    (hst : stack = X :: rest) (hnp : ∀ y ∈ rest, (sts.getD y default).parent ≠ X) :
    HInv g n h sts rest table Γ := by
  subst hst
  refine ⟨hi.hw, hi.nil0, hi.err1, hi.rootSt, hi.rootLt, hi.stLt, ?_, ?_, hi.table⟩
  · intro a d ho
    apply hi.excl a d
    exact ho.mono (fun sid hm => ⟨List.mem_cons_of_mem _ hm, rfl⟩)
  · intro sid hm
    have hs := hi.sts sid (List.mem_cons_of_mem _ hm)
    refine hs.transfer (fun _ _ => rfl) rfl (Nat.le_refl _) (Nat.le_refl _) rfl rfl ?_
    intro hp
    rcases List.mem_cons.mp hp with e | hp'
    · exact absurd e (hnp sid hm)
    · exact hp'

/-- **the table grows** -/
theorem HInv.tableInsert (hi : HInv g n h sts stack table Γ) {r o pl node : Nat}
    (hlt : node < h.size) (hna : isAlt h node = false)
    (hrho : ∀ rl, g.rules[r]? = some rl → Γ.rho node = rhoI g rl.lhs o pl + 1) :
    HInv g n h sts stack (tableInsert table r o pl node) Γ := by
  refine ⟨hi.hw, hi.nil0, hi.err1, hi.rootSt, hi.rootLt, hi.stLt, hi.excl, hi.sts, ?_⟩
  intro pl' r' o' node' hmem
  rcases mem_tableInsert hmem with hm | ⟨e, rfl⟩
  · exact hi.table pl' r' o' node' hm
  · injection e with e1 e2
    injection e2 with e2 e3
    subst e1; subst e2; subst e3
    exact ⟨hlt, hna, hrho⟩

/-- **the final `NULL → empty node` pass** over the children of a finished abstract node -/
theorem HInv.fillPass (hi : HInv g n h sts stack table Γ) {an : Nat} {nm : String} {c : Nat}
    {ks : Array (Option Nat)} (hc : h.getD an .nil = .anode nm c ks) (m : Nat) :
    HInv g n (fillNil h an m) sts stack table Γ := by
  have han : an < h.size := getD_lt_of_ne_nil (by rw [hc]; simp)
  obtain ⟨f1, f2, ks', f3, f4, f5⟩ := fillNil_spec hc han m
  have hr := hi.rootLt
  have hr' : 2 < h.size := hr
  have ha0 : an ≠ nilId := by intro e; rw [e, hi.nil0] at hc; cases hc
  have ha1 : an ≠ errId := by intro e; rw [e, hi.err1] at hc; cases hc
  have hA : ∀ k, isAlt (fillNil h an m) k = isAlt h k := by
    intro k
    by_cases hka : k = an
    · subst hka; exact isAlt_anode_congr hc f3
    · exact isAlt_congr (f2 k hka)
  have hn0 : isAlt h nilId = false := by unfold isAlt; rw [hi.nil0]
  -- an ALT cell in a slot was there before
  have hback : ∀ a d k, getKid (fillNil h an m) a d = some k → isAlt h k = true →
      getKid h a d = some k := by
    intro a d k hk hka
    by_cases haa : a = an
    · subst haa
      rw [getKid_of_cell f3, f5 d] at hk
      rw [getKid_of_cell hc]
      split at hk
      · injection hk with hk; subst hk; rw [hn0] at hka; cases hka
      · exact hk
    · unfold getKid at hk ⊢
      rw [f2 a haa] at hk; exact hk
  refine ⟨fillNil_hw hi.hw hi.nil0 (by omega) hc m, ?_, ?_, hi.rootSt, by rw [f1]; exact hi.rootLt,
    hi.stLt, ?_, ?_, ?_⟩
  · rw [f2 _ (Ne.symm ha0)]; exact hi.nil0
  · rw [f2 _ (Ne.symm ha1)]; exact hi.err1
  · intro a2 d2 ho k hk hka a' d' hk'
    rw [hA] at hka
    exact hi.excl a2 d2 ho k (hback a2 d2 k hk hka) hka a' d' (hback a' d' k hk' hka)
  · intro sid hm
    rw [f1]; exact hi.sts sid hm
  · intro pl r o node hmem
    rw [f1, hA]; exact hi.table pl r o node hmem

end

end Yaep.MP
