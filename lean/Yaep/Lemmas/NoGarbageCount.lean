import Yaep.Lemmas.NoGarbageInv
/-!
# No garbage, part 8: counting the requests of a parse

`allocSeq` has one request per cell other than the C-stack cell `rootId` and one name request per
rule in `namedRules`; the cells are the live cells plus the unused NIL / ERROR node handed back.
-/
namespace Yaep.NG
open Yaep MP

/-- the cells of the tree memory that are still allocated when `make_parse` returns -/
def liveCells (s : St) : List Nat :=
  (List.range s.heap.size).filter fun i =>
    i != rootId && (i != nilId || s.nilUsed) && (i != errId || s.errUsed)

/-- the cells `make_parse` hands back to `parse_free` before it returns, in order -/
def handedBack (s : St) : List Nat :=
  (if s.nilUsed then [] else [nilId]) ++ (if s.errUsed then [] else [errId])

theorem mem_liveCells {s : St} {i : Nat} :
    i ∈ liveCells s ↔ i < s.heap.size ∧ i ≠ rootId ∧ (i = nilId → s.nilUsed = true) ∧
      (i = errId → s.errUsed = true) := by
  unfold liveCells
  simp only [List.mem_filter, List.mem_range, Bool.and_eq_true, bne_iff_ne, ne_eq, Bool.or_eq_true]
  constructor
  · rintro ⟨h1, ⟨h2, h3⟩, h4⟩
    refine ⟨h1, h2, ?_, ?_⟩
    · intro e; rcases h3 with h3 | h3
      · exact absurd e h3
      · exact h3
    · intro e; rcases h4 with h4 | h4
      · exact absurd e h4
      · exact h4
  · rintro ⟨h1, h2, h3, h4⟩
    refine ⟨h1, ⟨h2, ?_⟩, ?_⟩
    · by_cases e : i = nilId
      · exact Or.inr (h3 e)
      · exact Or.inl e
    · by_cases e : i = errId
      · exact Or.inr (h4 e)
      · exact Or.inl e

theorem liveCells_nodup (s : St) : (liveCells s).Nodup :=
  List.Nodup.sublist List.filter_sublist List.nodup_range

theorem liveCells_length {s : St} (h3 : 3 ≤ s.heap.size) :
    (liveCells s).length + (handedBack s).length = s.heap.size - 1 := by
  obtain ⟨k, hk⟩ : ∃ k, s.heap.size = k + 3 := ⟨s.heap.size - 3, by omega⟩
  unfold liveCells handedBack
  rw [hk, List.range_eq_range']
  have e : List.range' 0 (k + 3) = 0 :: 1 :: 2 :: List.range' 3 k := by
    simp [List.range'_succ]
  rw [e]
  have htail : (List.range' 3 k).filter (fun i =>
      i != rootId && (i != nilId || s.nilUsed) && (i != errId || s.errUsed)) = List.range' 3 k := by
    rw [List.filter_eq_self]
    intro i hi
    rw [List.mem_range'_1] at hi
    simp only [Bool.and_eq_true, bne_iff_ne, ne_eq, Bool.or_eq_true, rootId, nilId, errId]
    refine ⟨⟨by omega, Or.inl (by omega)⟩, Or.inl (by omega)⟩
  simp only [List.filter_cons, htail]
  cases s.nilUsed <;> cases s.errUsed <;> simp [rootId, nilId, errId] <;> omega

theorem filter_lt_succ {l : List Nat} (hl : l.Nodup) (n : Nat) :
    (l.filter (fun i => decide (i < n + 1))).length =
      (l.filter (fun i => decide (i < n))).length + (if n ∈ l then 1 else 0) := by
  induction l with
  | nil => simp
  | cons x l ih =>
    have hx := List.nodup_cons.1 hl
    have ih' := ih hx.2
    simp only [List.filter_cons]
    by_cases h1 : x < n
    · have h2 : x < n + 1 := by omega
      have hne : ¬ n = x := by omega
      simp only [h1, h2, decide_true, if_true, List.length_cons, List.mem_cons, hne, false_or]
      omega
    · by_cases h2 : x = n
      · subst h2
        have hnot : x ∉ l := hx.1
        simp only [Nat.lt_irrefl, decide_false, Nat.lt_succ_self, decide_true, if_true,
          List.length_cons, List.mem_cons, true_or, Bool.false_eq_true, if_false]
        rw [ih']
        simp [hnot]
      · have h3 : ¬ x < n + 1 := by omega
        have hne : ¬ n = x := fun e => h2 e.symm
        simp only [h1, h3, decide_false, Bool.false_eq_true, if_false, List.mem_cons, hne, false_or]
        exact ih'

/-- the requests of the cell at address `i` -/
def cellReqs (s : St) (i : Nat) : List AllocReq :=
  if i == rootId then [] else
  match s.heap.getD i .nil with
  | .anode nm _ ks =>
    AllocReq.anode ks.size :: (if s.nameAfter.contains i then
      [AllocReq.name (if nm == "@empty" then 0 else nm.utf8ByteSize)] else [])
  | _ => [AllocReq.node]

theorem allocSeq_eq (s : St) : allocSeq s = (List.range s.heap.size).flatMap (cellReqs s) := rfl

theorem cellReqs_length {c : Ctx} {s : St} (hn : NOK c s.heap s.namedRules s.nameAfter) (i : Nat) :
    (cellReqs s i).length =
      (if i = rootId then 0 else 1) + (if i ∈ s.nameAfter then 1 else 0) := by
  have hna : ∀ i, i ∈ s.nameAfter → 3 ≤ i ∧ ∃ nm cst ks, s.heap.getD i .nil = .anode nm cst ks := by
    intro i hi
    have hlen := hn.len
    -- the partner of `i` in `namedRules`
    have : ∀ (l1 l2 : List Nat), l1.length = l2.length → i ∈ l2 → ∃ a, (a, i) ∈ l1.zip l2 := by
      intro l1
      induction l1 with
      | nil => intro l2 h hm; cases l2 <;> simp at h hm
      | cons a l1 ih =>
        intro l2 h hm
        cases l2 with
        | nil => simp at hm
        | cons b l2 =>
          simp only [List.length_cons, Nat.add_right_cancel_iff] at h
          rcases List.mem_cons.1 hm with e | e
          · exact ⟨a, by simp [e]⟩
          · obtain ⟨a', ha'⟩ := ih l2 h e
            exact ⟨a', by simp [ha']⟩
    obtain ⟨a, ha⟩ := this _ _ hlen hi
    obtain ⟨b1, _, nm, cst, ks, b3, _⟩ := hn.pair (a, i) ha
    exact ⟨b1, nm, cst, ks, b3⟩
  unfold cellReqs
  by_cases hr : i = rootId
  · subst hr
    have : rootId ∉ s.nameAfter := by
      intro hm
      have := (hna _ hm).1
      unfold rootId at this; omega
    simp [this]
  · have hr' : (i == rootId) = false := by simpa using hr
    simp only [hr', Bool.false_eq_true, if_false, hr]
    by_cases hm : i ∈ s.nameAfter
    · obtain ⟨_, nm, cst, ks, hc⟩ := hna i hm
      rw [hc]
      have : s.nameAfter.contains i = true := by simpa using hm
      simp [this, hm]
    · have : s.nameAfter.contains i = false := by simpa using hm
      simp only [hm, if_false]
      split
      · simp [hm]
      · rfl

/-- **the number of requests**: one per cell other than `rootId`, one per named rule -/
theorem allocSeq_length {c : Ctx} {s : St} (hn : NOK c s.heap s.namedRules s.nameAfter)
    (h3 : 3 ≤ s.heap.size) :
    (allocSeq s).length = (s.heap.size - 1) + s.namedRules.length := by
  have key : ∀ n, ((List.range n).flatMap (cellReqs s)).length =
      (n - (if rootId < n then 1 else 0)) +
        (s.nameAfter.filter (fun i => decide (i < n))).length := by
    intro n
    induction n with
    | zero =>
      have : s.nameAfter.filter (fun i => decide (i < 0)) = [] := by
        rw [List.filter_eq_nil_iff]; intro a _; simp
      rw [this]; rfl
    | succ n ih =>
      rw [List.range_succ, List.flatMap_append, List.length_append, ih]
      simp only [List.flatMap_cons, List.flatMap_nil, List.append_nil]
      rw [cellReqs_length hn n, filter_lt_succ hn.nand n]
      unfold rootId
      by_cases h2 : n = 2
      · subst h2; simp; omega
      · by_cases h1 : 2 < n
        · have : 2 < n + 1 := by omega
          simp only [h1, this, if_true, h2, if_false]
          omega
        · have : ¬ 2 < n + 1 := by omega
          simp only [h1, this, if_false, h2]
          omega
  rw [allocSeq_eq, key s.heap.size]
  have hall : s.nameAfter.filter (fun i => decide (i < s.heap.size)) = s.nameAfter := by
    rw [List.filter_eq_self]
    intro i hi
    simpa using hn.nalt i hi
  rw [hall, hn.len]
  have : rootId < s.heap.size := by unfold rootId; omega
  simp [this]

end Yaep.NG
