import Yaep.Lemmas.MakeParseFlagAllStep
import Yaep.Lemmas.MakeParseFlagSound
import Yaep.Lemmas.MakeParseAllMain
/-!
# The ambiguity flag, all parses, part 3: soundness

Heap-free invariant: every parse state on the stack has a *context* (`SCtx`): an injective map
that completes every derivation of the left-hand side of its rule on its span to a derivation of
the whole input, and derivations of the symbols after its dot.  In all-parses mode the stack is
not a path of one derivation (all candidates are pushed, copies of states are made for other
origins), but every state on it still lies on some derivation.  When a second entry of a reduce
vector passes the check loop, the two entries give two different derivations of the input.
-/
namespace Yaep.MP
open Yaep

/-- what the heap-free proofs need to know about the context (any mode) -/
structure CtxS (g : Grammar) (ok : Nat → Nat → Nat → Bool) (toks : List Nat) (c : Ctx) : Prop where
  rules : c.rules = g.rules.toArray
  axiomN : c.axiomN = g.axiomN
  size : c.sets.size = toks.length + 1
  sound : ∀ j i, i < (c.sets.getD j #[]).size →
    EarleyF g ok toks j ((c.sets.getD j #[]).getD i default)

theorem CtxOK.toS {g : Grammar} {ok : Nat → Nat → Nat → Bool} {toks : List Nat} {c : Ctx}
    (h : CtxOK g ok toks c) : CtxS g ok toks c := ⟨h.rules, h.axiomN, h.size, h.sound⟩

theorem CtxAll.toS {g : Grammar} {ok : Nat → Nat → Nat → Bool} {toks : List Nat} {c : Ctx}
    (h : CtxAll g ok toks c) : CtxS g ok toks c := ⟨h.rules, h.axiomN, h.size, h.sound⟩

theorem CtxS.rule_eq {g : Grammar} {ok : Nat → Nat → Nat → Bool} {toks : List Nat} {c : Ctx}
    (hc : CtxS g ok toks c) {r : Nat} {rl : Rule} (hr : g.rules[r]? = some rl) : c.rule r = rl := by
  unfold Ctx.rule
  rw [hc.rules, Array.getD_eq_getD_getElem?, List.getElem?_toArray, hr]; rfl

/-- `cand_facts` for any mode -/
theorem cand_facts_s {g : Grammar} {ok : Nat → Nat → Nat → Bool} {toks : List Nat} {c : Ctx}
    (hc : CtxS g ok toks c) {L : Loc} {pl i A : Nat}
    (hi : i ∈ reduces c (c.sets.getD pl #[]) A)
    (hf : checkFound c L ((c.sets.getD pl #[]).getD i default).origin = true) :
    ∃ sr so rl' kids, (c.sets.getD pl #[]).getD i default = ⟨sr, rl'.rhs.length, so⟩ ∧
      g.rules[sr]? = some rl' ∧ rl'.lhs = A ∧
      EarleyF g ok toks pl ⟨sr, rl'.rhs.length, so⟩ ∧
      PT.ValidListAt g toks kids rl'.rhs so pl ∧
      EarleyF g ok toks so ⟨L.rule, L.pos, L.orig⟩ := by
  obtain ⟨m1, m2, m3⟩ := mem_reduces hi
  have hE := hc.sound pl i m1
  obtain ⟨ci, c1, c2⟩ := checkFound_spec hf
  have hE2 := hc.sound _ ci c1
  rw [c2] at hE2
  generalize (c.sets.getD pl #[]).getD i default = sit at *
  obtain ⟨sr, sd, so⟩ := sit
  obtain ⟨rl', hr', _⟩ := hE.sound
  simp only at hr' m2 m3 hE2
  have hrule := hc.rule_eq hr'
  rw [hrule] at m2 m3
  subst m2
  obtain ⟨_, kids, hk⟩ := hE.complete_valid hr'
  exact ⟨sr, so, rl', kids, rfl, hr', m3, hE, hk, hE2⟩

/-- the context of a parse state, as a property of its rule, dot, origin and list index -/
def SCtx4 (g : Grammar) (ok : Nat → Nat → Nat → Bool) (toks : List Nat) (rule pos orig plInd : Nat) :
    Prop :=
  ∃ (rl : Rule) (fin : Nat) (C : PT → PT) (done : List PT), g.rules[rule]? = some rl ∧
    pos ≤ rl.rhs.length ∧
    (pos ≠ 0 → EarleyF g ok toks plInd ⟨rule, pos, orig⟩) ∧
    (∀ a b, C a = C b → a = b) ∧
    (∀ cpt, PT.ValidAt g toks cpt (.n rl.lhs) orig fin → PT.IsDerivation g toks (C cpt)) ∧
    PT.ValidListAt g toks done (rl.rhs.drop pos) (if pos = 0 then orig else plInd) fin

/-- the context of a parse state -/
def SCtx (g : Grammar) (ok : Nat → Nat → Nat → Bool) (toks : List Nat) (st : PState) : Prop :=
  SCtx4 g ok toks st.rule st.pos st.orig st.plInd

/-- two entries of the reduce vector of the nonterminal before the dot of a state with a context
pass the check loop: two derivations of the whole input -/
theorem two_ders_ctx {g : Grammar} {ok : Nat → Nat → Nat → Bool} {toks : List Nat} {c : Ctx} {s : St}
    (hc : CtxS g ok toks c) (hdup : DupOK g toks c) {sid A : Nat}
    (hctx : SCtx g ok toks (s.state sid)) (hpos : (s.state sid).pos ≠ 0)
    (hsym : (c.rule (s.state sid).rule).rhs.getD ((s.state sid).pos - 1) (.t 0) = .n A)
    {i1 i2 : Nat} (hne : i1 ≠ i2) (p1 : Passes c s sid A i1) (p2 : Passes c s sid A i2) :
    TwoDer g toks := by
  obtain ⟨rl, fin, C, done, t3, t4, _, hinj, hC, t7⟩ := hctx
  obtain ⟨m1, f1⟩ := p1
  obtain ⟨m2, f2⟩ := p2
  rw [if_neg hpos] at t7
  have hrule := hc.rule_eq t3
  rw [hrule] at hsym
  have hlt : (s.state sid).pos - 1 < rl.rhs.length := by omega
  have hX : rl.rhs[(s.state sid).pos - 1]? = some (.n A) := by
    rw [List.getD_eq_getElem?_getD, List.getElem?_eq_getElem hlt] at hsym
    rw [List.getElem?_eq_getElem hlt]
    simpa using hsym
  have hpp : (s.state sid).pos - 1 + 1 = (s.state sid).pos := by omega
  obtain ⟨sr1, so1, rl1, kids1, e1, hr1, hl1, hE1, hkl1, hP1⟩ := cand_facts_s hc m1 f1
  obtain ⟨sr2, so2, rl2, kids2, e2, hr2, hl2, hE2, hkl2, hP2⟩ := cand_facts_s hc m2 f2
  have hP1' : EarleyF g ok toks so1 ⟨(s.state sid).rule, (s.state sid).pos - 1, (s.state sid).orig⟩ := hP1
  have hP2' : EarleyF g ok toks so2 ⟨(s.state sid).rule, (s.state sid).pos - 1, (s.state sid).orig⟩ := hP2
  obtain ⟨pre1, hpre1⟩ := EarleyF.prefix_valid t3 hP1'
  obtain ⟨pre2, hpre2⟩ := EarleyF.prefix_valid t3 hP2'
  have hrhs : rl.rhs = rl.rhs.take ((s.state sid).pos - 1) ++
      (Sym.n A :: rl.rhs.drop (s.state sid).pos) := by
    have := drop_of_getElem? hX
    rw [hpp] at this
    rw [← this, List.take_append_drop]
  have hnode : ∀ {pre : List PT} {ptA : PT} {k : Nat},
      PT.ValidListAt g toks pre (rl.rhs.take ((s.state sid).pos - 1)) (s.state sid).orig k →
      PT.ValidAt g toks ptA (.n A) k (s.state sid).plInd →
      PT.IsDerivation g toks (C (.node (s.state sid).rule (pre ++ ptA :: done))) := by
    intro pre ptA k h1 h2
    apply hC
    refine .node t3 rfl ?_
    rw [hrhs]
    exact ValidListAt_append h1 (.cons h2 t7)
  obtain ⟨n1, _⟩ := mem_reduces m1
  obtain ⟨n2, _⟩ := mem_reduces m2
  by_cases hsame : (c.sets.getD (s.state sid).plInd #[]).getD i1 default =
      (c.sets.getD (s.state sid).plInd #[]).getD i2 default
  · obtain ⟨k1, k2, hk12, v1, v2⟩ := hdup (s.state sid).plInd i1 i2 rl1 hne n1 n2 hsame
      (by rw [e1]; exact hr1) (by rw [e1])
    rw [e1] at v1 v2
    simp only at v1 v2
    refine ⟨_, _, hnode hpre1 (.node hr1 hl1 v1), hnode hpre1 (.node hr1 hl1 v2), ?_⟩
    intro heq
    have h1 := hinj _ _ heq
    injection h1 with _ hlist
    have h2 := List.append_cancel_left hlist
    injection h2 with h3 _
    injection h3 with _ h4
    exact hk12 h4
  · refine ⟨_, _, hnode hpre1 (.node hr1 hl1 hkl1), hnode hpre2 (.node hr2 hl2 hkl2), ?_⟩
    intro heq
    have h1 := hinj _ _ heq
    injection h1 with _ hlist
    have hlen : pre1.length = pre2.length := by rw [hpre1.length_eq, hpre2.length_eq]
    obtain ⟨_, h2⟩ := List.append_inj hlist hlen
    injection h2 with h3 _
    have hpteq := h3
    injection h3 with h4 _
    have hso : so1 = so2 := by
      have a1 := (PT.ValidAt.node hr1 hl1 hkl1).span
      have a2 := (PT.ValidAt.node hr2 hl2 hkl2).span
      rw [hpteq] at a1
      omega
    subst h4; subst hso
    rw [hr1] at hr2; injection hr2 with hr2; subst hr2
    exact hsame (e1.trans e2.symm)

/-! ## the invariant -/

/-- every state on the stack has a context -/
def FlagSInv (g : Grammar) (ok : Nat → Nat → Nat → Bool) (toks : List Nat) (s : St) : Prop :=
  ∀ sid ∈ s.stack, sid < s.states.size ∧ SCtx g ok toks (s.state sid)

/-- the contexts of the child for a candidate and of the state that has moved its dot over the
nonterminal to the origin of the candidate -/
theorem sctx_cand {g : Grammar} {ok : Nat → Nat → Nat → Bool} {toks : List Nat} {c : Ctx} {s : St}
    (hc : CtxS g ok toks c) {sid A : Nat}
    (hctx : SCtx g ok toks (s.state sid)) (hpos : (s.state sid).pos ≠ 0)
    (hsym : (c.rule (s.state sid).rule).rhs.getD ((s.state sid).pos - 1) (.t 0) = .n A)
    {i : Nat} (hp : Passes c s sid A i) :
    SCtx4 g ok toks ((c.sets.getD (s.state sid).plInd #[]).getD i default).rule
      ((c.sets.getD (s.state sid).plInd #[]).getD i default).dot
      ((c.sets.getD (s.state sid).plInd #[]).getD i default).origin (s.state sid).plInd ∧
    SCtx4 g ok toks (s.state sid).rule ((s.state sid).pos - 1) (s.state sid).orig
      ((c.sets.getD (s.state sid).plInd #[]).getD i default).origin := by
  obtain ⟨rl, fin, C, done, t3, t4, _, hinj, hC, t7⟩ := hctx
  obtain ⟨m1, f1⟩ := hp
  rw [if_neg hpos] at t7
  have hrule := hc.rule_eq t3
  rw [hrule] at hsym
  have hlt : (s.state sid).pos - 1 < rl.rhs.length := by omega
  have hX : rl.rhs[(s.state sid).pos - 1]? = some (.n A) := by
    rw [List.getD_eq_getElem?_getD, List.getElem?_eq_getElem hlt] at hsym
    rw [List.getElem?_eq_getElem hlt]
    simpa using hsym
  have hpp : (s.state sid).pos - 1 + 1 = (s.state sid).pos := by omega
  obtain ⟨sr, so, rl', kids, e1, hr', hl', hE, hkl, hP⟩ := cand_facts_s hc m1 f1
  have hP' : EarleyF g ok toks so ⟨(s.state sid).rule, (s.state sid).pos - 1, (s.state sid).orig⟩ := hP
  obtain ⟨pre, hpre⟩ := EarleyF.prefix_valid t3 hP'
  have hrhs : rl.rhs = rl.rhs.take ((s.state sid).pos - 1) ++
      (Sym.n A :: rl.rhs.drop (s.state sid).pos) := by
    have := drop_of_getElem? hX
    rw [hpp] at this
    rw [← this, List.take_append_drop]
  rw [e1]
  simp only
  constructor
  · refine ⟨rl', (s.state sid).plInd, fun cpt => C (.node (s.state sid).rule (pre ++ cpt :: done)), [],
      hr', Nat.le_refl _, fun _ => hE, ?_, ?_, ?_⟩
    · intro a b hab
      have := hinj _ _ hab
      injection this with _ hk
      have := List.append_cancel_left hk
      injection this
    · intro cpt hv
      apply hC
      refine .node t3 rfl ?_
      rw [hrhs]
      rw [hl'] at hv
      exact ValidListAt_append hpre (.cons hv t7)
    · rw [List.drop_length]
      have : (if rl'.rhs.length = 0 then so else (s.state sid).plInd) = (s.state sid).plInd := by
        split
        · rename_i hz
          rw [hz] at hE
          exact hE.dot_zero
        · rfl
      rw [this]
      exact .nil
  · refine ⟨rl, fin, C, .node sr kids :: done, t3, by omega, fun _ => hP', hinj, hC, ?_⟩
    have hcur : (if (s.state sid).pos - 1 = 0 then (s.state sid).orig else so) = so := by
      split
      · rename_i hz
        rw [hz] at hP'
        exact hP'.dot_zero
      · rfl
    rw [hcur, drop_of_getElem? hX, hpp]
    exact .cons (.node hr' hl' hkl) t7

/-- **one iteration keeps the contexts** (any mode); the flag is only set when the input has two
derivations -/
theorem step_sinv {g : Grammar} {ok : Nat → Nat → Nat → Bool} {toks : List Nat} {c : Ctx} {s : St}
    (hc : CtxS g ok toks c) (hdup : DupOK g toks c) (h : FlagSInv g ok toks s) :
    ((step c s).bad = true ∨ FlagSInv g ok toks (step c s)) ∧
    ((step c s).amb = true → s.amb = true ∨ TwoDer g toks) := by
  cases hst : s.stack with
  | nil =>
    have : step c s = s := by unfold step; rw [hst]
    rw [this]; exact ⟨Or.inr h, Or.inl⟩
  | cons sid rest =>
    have hmem : sid ∈ s.stack := by rw [hst]; exact List.mem_cons_self
    obtain ⟨hlt, hctx⟩ := h sid hmem
    have hrest : ∀ y ∈ rest, y < s.states.size ∧ SCtx g ok toks (s.state y) :=
      fun y hy => h y (by rw [hst]; exact List.mem_cons_of_mem _ hy)
    by_cases hpos : (s.state sid).pos = 0
    · obtain ⟨e1, e2, e3⟩ := step_pop_shape (c := c) hst hpos
      refine ⟨Or.inr ?_, fun ha => Or.inl (by rw [← e3]; exact ha)⟩
      intro y hy
      rw [e2] at hy
      unfold St.state
      rw [e1]
      exact hrest y hy
    · have hctx' := hctx
      obtain ⟨rl, fin, C, done, t3, t4, t5, hinj, hC, t7⟩ := hctx'
      have hrule := hc.rule_eq t3
      have hltp : (s.state sid).pos - 1 < rl.rhs.length := by omega
      have hpp : (s.state sid).pos - 1 + 1 = (s.state sid).pos := by omega
      cases hX : rl.rhs[(s.state sid).pos - 1] with
      | t a =>
        have hX' : rl.rhs[(s.state sid).pos - 1]? = some (.t a) := by
          rw [List.getElem?_eq_getElem hltp, hX]
        have hsym : (c.rule (s.state sid).rule).rhs.getD ((s.state sid).pos - 1) (.t 0) = .t a := by
          rw [hrule]; exact getD_of_getElem? hX'
        obtain ⟨e1, e2, e3⟩ := step_term_shape hst hpos hsym
        refine ⟨Or.inr ?_, fun ha => Or.inl (by rw [← e3]; exact ha)⟩
        have hE := t5 hpos
        rw [← hpp] at hE
        obtain ⟨j0, hj0, hw, hE0⟩ := hE.term_inv t3 hX'
        rw [if_neg hpos] at t7
        intro y hy
        rw [e2, hst] at hy
        have hsz : (step c s).states.size = s.states.size := by rw [e1]; simp
        by_cases hys : y = sid
        · subst hys
          refine ⟨by rw [hsz]; exact hlt, ?_⟩
          have est : (step c s).state y =
              { s.state y with
                pos := (s.state y).pos - 1
                plInd := if (s.state y).pos - 1 != 0 then (s.state y).plInd - 1 else (s.state y).plInd } := by
            unfold St.state
            rw [e1, getD_set!, if_pos ⟨rfl, hlt⟩]
            rfl
          unfold SCtx
          rw [est]
          simp only
          refine ⟨rl, fin, C, .leaf a j0 :: done, t3, by omega, ?_, hinj, hC, ?_⟩
          · intro hp
            have hp' : ((s.state y).pos - 1 != 0) = true := by simpa using hp
            simp only [hp', if_true]
            rw [hj0]
            simpa using hE0
          · have hcur : (if (s.state y).pos - 1 = 0 then (s.state y).orig
                else if ((s.state y).pos - 1 != 0) = true then (s.state y).plInd - 1 else (s.state y).plInd) = j0 := by
              by_cases hz : (s.state y).pos - 1 = 0
              · rw [if_pos hz]
                rw [hz] at hE0
                exact hE0.dot_zero
              · rw [if_neg hz]
                have hp' : ((s.state y).pos - 1 != 0) = true := by simpa using hz
                simp only [hp', if_true]
                omega
            rw [hcur, drop_of_getElem? hX', hpp]
            refine .cons ?_ t7
            rw [hj0]
            exact .leaf hw
        · have hyr : y ∈ rest := by
            rcases List.mem_cons.mp hy with e | e
            · exact absurd e hys
            · exact e
          obtain ⟨b1, b2⟩ := hrest y hyr
          refine ⟨by rw [hsz]; exact b1, ?_⟩
          have : (step c s).state y = s.state y := by
            unfold St.state
            rw [e1, getD_set!, if_neg (fun hh => hys hh.1.symm)]
          rw [this]; exact b2
      | n A =>
        have hX' : rl.rhs[(s.state sid).pos - 1]? = some (.n A) := by
          rw [List.getElem?_eq_getElem hltp, hX]
        have hsym : (c.rule (s.state sid).rule).rhs.getD ((s.state sid).pos - 1) (.t 0) = .n A := by
          rw [hrule]; exact getD_of_getElem? hX'
        obtain ⟨⟨n, hshape, hbad⟩, hamb⟩ := step_nt_shape hst hpos hsym hlt
        constructor
        · by_cases hn : n = 0
          · exact Or.inl (hbad hn)
          · right
            obtain ⟨a1, a2, ⟨ids, a3, a3'⟩, a4, a5⟩ := hshape
            have hsz0 : (ntS0 s sid).states.size = s.states.size := by simp [ntS0]
            have horig : SCtx g ok toks ((step c s).state sid) := by
              rcases a4 with ⟨h0, _⟩ | ⟨_, i, hi, e⟩
              · exact absurd h0 hn
              · have e' : (step c s).state sid =
                    { s.state sid with
                      pos := (s.state sid).pos - 1
                      plInd := ((c.sets.getD (s.state sid).plInd #[]).getD i default).origin } := e
                unfold SCtx
                rw [e']
                exact (sctx_cand hc hctx hpos hsym hi).2
            intro y hy
            rw [a3] at hy
            rcases List.mem_append.mp hy with hy | hy
            · obtain ⟨b1, b2⟩ := a3' y hy
              refine ⟨b2, ?_⟩
              obtain ⟨i, hi, _, hnew⟩ := a5 y b1 b2
              obtain ⟨q1, q2⟩ := sctx_cand hc hctx hpos hsym hi
              unfold SCtx
              rcases hnew with ⟨n1, n2, n3, n4⟩ | ⟨n1, n2, n3, n4⟩
              · rw [n1, n2, n3, n4]; exact q1
              · rw [n1, n2, n3, n4]; exact q2
            · by_cases hys : y = sid
              · subst hys
                exact ⟨by omega, horig⟩
              · have hyr : y ∈ rest := by
                  rcases List.mem_cons.mp hy with e | e
                  · exact absurd e hys
                  · exact e
                obtain ⟨b1, b2⟩ := hrest y hyr
                refine ⟨by omega, ?_⟩
                have : (step c s).state y = s.state y := by
                  unfold St.state
                  rw [a2 y (by omega) hys]
                  show (s.states.set! sid _).getD y default = _
                  rw [getD_set!, if_neg (fun hh => hys hh.1.symm)]
                rw [this]; exact b2
        · intro ha
          rcases hamb.mp ha with h1 | ⟨i1, i2, hne, p1, p2⟩
          · exact Or.inl h1
          · exact Or.inr (two_ders_ctx hc hdup hctx hpos hsym hne p1 p2)

/-! ## the whole run -/

theorem step_bad_any {c : Ctx} {s : St} (hb : s.bad = true) : (step c s).bad = true := by
  cases hone : c.oneParse with
  | true => exact step_bad hone hb
  | false => exact step_bad_all hone hb

def AInvS (g : Grammar) (ok : Nat → Nat → Nat → Bool) (toks : List Nat) (s : St) : Prop :=
  s.bad = true ∨ (FlagSInv g ok toks s ∧ (s.amb = true → TwoDer g toks))

theorem step_ainvS {g : Grammar} {ok : Nat → Nat → Nat → Bool} {toks : List Nat} {c : Ctx} {s : St}
    (hc : CtxS g ok toks c) (hdup : DupOK g toks c) (h : AInvS g ok toks s) :
    AInvS g ok toks (step c s) := by
  rcases h with hb | ⟨hs, ha⟩
  · exact Or.inl (step_bad_any hb)
  · obtain ⟨h1, h2⟩ := step_sinv hc hdup hs
    rcases h1 with hb | hs'
    · exact Or.inl hb
    · refine Or.inr ⟨hs', fun hamb => ?_⟩
      rcases h2 hamb with h3 | h3
      · exact ha h3
      · exact h3

theorem run_ainvS {g : Grammar} {ok : Nat → Nat → Nat → Bool} {toks : List Nat} {c : Ctx}
    (hc : CtxS g ok toks c) (hdup : DupOK g toks c) :
    ∀ (fuel : Nat) (s s' : St), AInvS g ok toks s → run c fuel s = some s' → AInvS g ok toks s'
  | 0, s, s', hinv, hr => by
    unfold run at hr
    split at hr
    · injection hr with hr; rw [← hr]; exact hinv
    · cases hr
  | fuel + 1, s, s', hinv, hr => by
    unfold run at hr
    split at hr
    · injection hr with hr; rw [← hr]; exact hinv
    · exact run_ainvS hc hdup fuel _ _ (step_ainvS hc hdup hinv) hr

/-- the state before the loop has a context: the identity -/
theorem init_sinv {g : Grammar} {ok : Nat → Nat → Nat → Bool} {toks : List Nat} {c : Ctx}
    (hc : CtxS g ok toks c) {s0 : St} (hi : init c = some s0) : FlagSInv g ok toks s0 := by
  unfold init at hi
  simp only at hi
  split at hi
  · cases hi
  · rename_i sit hsit
    split at hi
    · cases hi
    · rename_i hcond
      injection hi with hi
      simp only [Bool.or_eq_true, bne_iff_ne, ne_eq, not_or, Decidable.not_not] at hcond
      obtain ⟨⟨ho, hlhs⟩, hdot⟩ := hcond
      have hpl : c.sets.size - 1 = toks.length := by rw [hc.size]; rfl
      rw [hpl] at hsit hi
      have h0lt : 0 < (c.sets.getD toks.length #[]).size := by
        rcases Nat.eq_zero_or_pos (c.sets.getD toks.length #[]).size with h | h
        · rw [Array.getElem?_eq_none (by omega)] at hsit; cases hsit
        · exact h
      have hsit' : (c.sets.getD toks.length #[]).getD 0 default = sit := by
        rw [Array.getD_eq_getD_getElem?, hsit]; rfl
      have hE := hc.sound toks.length 0 h0lt
      rw [hsit'] at hE
      obtain ⟨rl0, hr0, _⟩ := hE.sound
      have hrule := hc.rule_eq hr0
      rw [hrule] at hlhs hdot
      rw [hc.axiomN] at hlhs
      obtain ⟨sr, sd, so⟩ := sit
      simp only at ho hdot hr0 hlhs
      subst ho; subst hdot
      have hstk : s0.stack = [1] := by rw [← hi]
      have hst1 : s0.state 1 =
          { rule := sr, pos := rl0.rhs.length, orig := 0, plInd := toks.length, parent := 0,
            parentDisp := 0, anode := none } := by rw [← hi]; rfl
      have hsz : 1 < s0.states.size := by rw [← hi]; simp
      intro sid hsid
      rw [hstk] at hsid
      have : sid = 1 := by simpa using hsid
      subst this
      refine ⟨hsz, ?_⟩
      unfold SCtx
      rw [hst1]
      simp only
      refine ⟨rl0, toks.length, id, [], hr0, Nat.le_refl _, fun _ => hE, fun _ _ h => h, ?_, ?_⟩
      · intro cpt hv
        rw [hlhs] at hv
        exact hv
      · rw [List.drop_length]
        have : (if rl0.rhs.length = 0 then 0 else toks.length) = toks.length := by
          split
          · rename_i hz
            rw [hz] at hE
            exact hE.dot_zero
          · rfl
        rw [this]
        exact .nil

/-- **the ambiguity flag is sound, one parse or all parses**, over any parse list whose situations
are items of the Earley relation and whose repeated completed items stand for two derivations -/
theorem makeParse_amb_sound_ctx {g : Grammar} {ok : Nat → Nat → Nat → Bool} {toks : List Nat}
    {sets : Array (Array Item)} {plToks : Array Int} {one : Bool} {fuel : Nat} {res : Result}
    (hc : CtxS g ok toks (mkCtx g sets plToks one))
    (hdup : DupOK g toks (mkCtx g sets plToks one))
    (hm : makeParse g sets plToks one fuel = .ok res) (hamb : res.amb = true) :
    TwoDer g toks := by
  simp only [makeParse] at hm
  split at hm
  · cases hm
  · rename_i s0 hi
    split at hm
    · cases hm
    · rename_i s hr
      split at hm
      · cases hm
      · rename_i hb
        split at hm
        · cases hm
        · split at hm
          · cases hm
          · injection hm with hm
            subst hm
            have h0 : AInvS g ok toks s0 :=
              Or.inr ⟨init_sinv hc hi, fun h => by rw [init_amb hi] at h; cases h⟩
            rcases run_ainvS hc hdup fuel s0 s h0 hr with hbad | ⟨_, h⟩
            · rw [hbad] at hb; simp at hb
            · exact h hamb

end Yaep.MP
