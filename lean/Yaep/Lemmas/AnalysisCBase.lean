import Yaep.Model.AnalysisC
import Yaep.Lemmas.Saturate
/-!
# Generic lemmas for the step-for-step analysis model (`Yaep/Model/AnalysisC.lean`)

`doWhile`, in-place stores `upd`, folds with a change flag, counting measures.
-/
namespace Yaep.AC

/-! ## `upd` -/

section upd
variable {α β : Type} [DecidableEq α]

@[simp] theorem upd_same (f : α → β) (a : α) (v : β) : upd f a v a = v := by
  simp [upd]

theorem upd_other (f : α → β) {a x : α} (v : β) (h : x ≠ a) : upd f a v x = f x := by
  simp [upd, h]

theorem upd_apply (f : α → β) (a x : α) (v : β) : upd f a v x = if x = a then v else f x := rfl

/-- storing the value that is already there changes nothing -/
theorem upd_self (f : α → β) (a : α) : upd f a (f a) = f := by
  funext x
  by_cases h : x = a
  · subst h; simp
  · simp [upd, h]

theorem upd_eq_self (f : α → β) (a : α) (v : β) (h : f a = v) : upd f a v = f := by
  subst h; exact upd_self f a

/-- setting a flag: the new table is pointwise `≥` -/
theorem upd_true_ge (f : α → Bool) (a x : α) (h : f x = true) : upd f a true x = true := by
  by_cases hx : x = a
  · subst hx; simp
  · rw [upd_other _ _ hx]; exact h

theorem upd_true_iff (f : α → Bool) (a x : α) : upd f a true x = true ↔ x = a ∨ f x = true := by
  by_cases hx : x = a
  · subst hx; simp
  · rw [upd_other _ _ hx]; simp [hx]

end upd

/-! ## `doWhile` -/

section doWhile
variable {σ : Type}

theorem doWhile_succ (pass : σ → σ × Bool) (n : Nat) (s : σ) :
    doWhile pass (n + 1) s = if (pass s).2 then doWhile pass n (pass s).1 else some (pass s).1 := rfl

/-- the result of the loop is what a pass that raised no change flag returned -/
theorem doWhile_spec (pass : σ → σ × Bool) (Inv : σ → Prop)
    (hinv : ∀ s, Inv s → Inv (pass s).1) :
    ∀ (n : Nat) (s r : σ), Inv s → doWhile pass n s = some r →
      ∃ s0, Inv s0 ∧ (pass s0).1 = r ∧ (pass s0).2 = false := by
  intro n
  induction n with
  | zero => intro s r _ h; simp [doWhile] at h
  | succ n ih =>
    intro s r hs h
    rw [doWhile_succ] at h
    split at h
    · exact ih _ _ (hinv s hs) h
    · rename_i hc
      simp only [Option.some.injEq] at h
      exact ⟨s, hs, h, by simpa using hc⟩

/-- termination: a bounded measure that grows in every pass that raises the change flag -/
theorem doWhile_isSome (pass : σ → σ × Bool) (Inv : σ → Prop)
    (hinv : ∀ s, Inv s → Inv (pass s).1) (μ : σ → Nat) (B : Nat) (hB : ∀ s, Inv s → μ s ≤ B)
    (hprog : ∀ s, Inv s → (pass s).2 = true → μ s < μ (pass s).1) :
    ∀ (n : Nat) (s : σ), Inv s → B < μ s + n → (doWhile pass n s).isSome = true := by
  intro n
  induction n with
  | zero =>
    intro s hs h
    have := hB s hs
    omega
  | succ n ih =>
    intro s hs h
    rw [doWhile_succ]
    split
    · rename_i hc
      have := hprog s hs hc
      exact ih _ (hinv s hs) (by omega)
    · rfl

/-- more fuel does not change the result -/
theorem doWhile_mono (pass : σ → σ × Bool) :
    ∀ (n : Nat) (s r : σ) (k : Nat), doWhile pass n s = some r → doWhile pass (n + k) s = some r := by
  intro n
  induction n with
  | zero => intro s r k h; simp [doWhile] at h
  | succ n ih =>
    intro s r k h
    rw [show n + 1 + k = (n + k) + 1 by omega, doWhile_succ]
    rw [doWhile_succ] at h
    split
    · rename_i hc
      rw [if_pos hc] at h
      exact ih _ _ _ h
    · rename_i hc
      rw [if_neg hc] at h
      exact h

/-- the decreasing variant: a measure that shrinks in every pass that raises the flag -/
theorem doWhile_isSome_decr (pass : σ → σ × Bool) (μ : σ → Nat)
    (hprog : ∀ s, (pass s).2 = true → μ (pass s).1 < μ s) :
    ∀ (n : Nat) (s : σ), μ s < n → (doWhile pass n s).isSome = true := by
  intro n
  induction n with
  | zero => intro s h; omega
  | succ n ih =>
    intro s h
    rw [doWhile_succ]
    split
    · rename_i hc
      have := hprog s hc
      exact ih _ (by omega)
    · rfl

end doWhile

/-! ## folds -/

section folds
variable {σ ι : Type}

theorem foldl_inv (f : σ → ι → σ) (P : σ → Prop) (l : List ι)
    (h : ∀ s, ∀ x ∈ l, P s → P (f s x)) (s : σ) (hs : P s) : P (l.foldl f s) := by
  induction l generalizing s with
  | nil => exact hs
  | cons x xs ih =>
    simp only [List.foldl_cons]
    apply ih
    · intro s y hy; exact h s y (List.mem_cons_of_mem _ hy)
    · exact h s x List.mem_cons_self hs

/-- a reflexive transitive relation that holds for every step holds for the fold -/
theorem foldl_rel (f : σ → ι → σ) (R : σ → σ → Prop) (hrefl : ∀ s, R s s)
    (htrans : ∀ a b c, R a b → R b c → R a c) (l : List ι)
    (h : ∀ s, ∀ x ∈ l, R s (f s x)) (s : σ) : R s (l.foldl f s) := by
  induction l generalizing s with
  | nil => exact hrefl s
  | cons x xs ih =>
    simp only [List.foldl_cons]
    exact htrans _ _ _ (h s x List.mem_cons_self)
      (ih (fun s y hy => h s y (List.mem_cons_of_mem _ hy)) _)

/-- a fold whose change flag is still down at the end: the flag was down at the start, the
visible part `fl` of the state never changed, and every item was processed without effect
(`C x (fl s)`: the item is *closed* in that state) -/
theorem foldl_closed {φ : Type} (f : σ → ι → σ) (ch : σ → Bool) (fl : σ → φ) (C : ι → φ → Prop)
    (l : List ι)
    (hstep : ∀ s, ∀ x ∈ l, ch (f s x) = false → ch s = false ∧ fl (f s x) = fl s ∧ C x (fl s))
    (s : σ) (h : ch (l.foldl f s) = false) :
    ch s = false ∧ fl (l.foldl f s) = fl s ∧ ∀ x ∈ l, C x (fl s) := by
  induction l generalizing s with
  | nil => exact ⟨h, rfl, fun _ hx => by cases hx⟩
  | cons x xs ih =>
    simp only [List.foldl_cons] at h ⊢
    obtain ⟨h1, h2, h3⟩ := ih (fun s y hy => hstep s y (List.mem_cons_of_mem _ hy)) _ h
    obtain ⟨h4, h5, h6⟩ := hstep s x List.mem_cons_self h1
    refine ⟨h4, h2.trans h5, ?_⟩
    intro y hy
    rcases List.mem_cons.mp hy with rfl | hy
    · exact h6
    · rw [← h5]; exact h3 y hy

/-- progress of a fold: the measure never shrinks, and if the change flag goes up the measure
has grown -/
theorem foldl_progress (f : σ → ι → σ) (ch : σ → Bool) (μ : σ → Nat) (l : List ι)
    (hstep : ∀ s, ∀ x ∈ l, μ s ≤ μ (f s x) ∧ (ch (f s x) = true → ch s = true ∨ μ s < μ (f s x)))
    (s : σ) :
    μ s ≤ μ (l.foldl f s) ∧ (ch (l.foldl f s) = true → ch s = true ∨ μ s < μ (l.foldl f s)) := by
  induction l generalizing s with
  | nil => exact ⟨Nat.le_refl _, fun h => Or.inl h⟩
  | cons x xs ih =>
    simp only [List.foldl_cons]
    obtain ⟨h1, h2⟩ := ih (fun s y hy => hstep s y (List.mem_cons_of_mem _ hy)) (f s x)
    obtain ⟨h3, h4⟩ := hstep s x List.mem_cons_self
    refine ⟨Nat.le_trans h3 h1, ?_⟩
    intro hc
    rcases h2 hc with h | h
    · rcases h4 h with h | h
      · exact Or.inl h
      · exact Or.inr (by omega)
    · exact Or.inr (by omega)

end folds

/-! ## counting the set flags of a finite universe -/

section cnt
variable {α : Type}

/-- how many members of `U` have the flag -/
def cnt (U : List α) (f : α → Bool) : Nat := (U.filter f).length

theorem cnt_le_length (U : List α) (f : α → Bool) : cnt U f ≤ U.length :=
  List.length_filter_le _ _

theorem cnt_mono {U : List α} {f f' : α → Bool} (h : ∀ x ∈ U, f x = true → f' x = true) :
    cnt U f ≤ cnt U f' := by
  induction U with
  | nil => simp [cnt]
  | cons a U ih =>
    have ih' := ih (fun x hx => h x (List.mem_cons_of_mem _ hx))
    have ha := h a List.mem_cons_self
    unfold cnt at ih' ⊢
    simp only [List.filter_cons]
    cases hfa : f a
    · cases hfa' : f' a <;> simp <;> omega
    · simp [ha hfa]; omega

theorem cnt_lt {U : List α} {f f' : α → Bool} (h : ∀ x ∈ U, f x = true → f' x = true)
    {a : α} (ha : a ∈ U) (h1 : f a = false) (h2 : f' a = true) : cnt U f < cnt U f' := by
  induction U with
  | nil => cases ha
  | cons b U ih =>
    have hmono := cnt_mono (U := U) (fun x hx => h x (List.mem_cons_of_mem _ hx))
    unfold cnt at hmono ih ⊢
    simp only [List.filter_cons]
    rcases List.mem_cons.mp ha with rfl | ha'
    · simp [h1, h2]; omega
    · have ih' := ih (fun x hx => h x (List.mem_cons_of_mem _ hx)) ha'
      have hb := h b List.mem_cons_self
      cases hfb : f b
      · cases hfb' : f' b <;> simp <;> omega
      · simp [hb hfb]; omega

end cnt

/-! ## `rulesOf` -/

theorem mem_rulesOf {g : Grammar} {A : Nat} {r : Rule} :
    r ∈ rulesOf g A ↔ r ∈ g.rules ∧ r.lhs = A := by
  unfold rulesOf
  simp [List.mem_reverse, List.mem_filter]

end Yaep.AC
