import Yaep.Lemmas.MakeParseTotalPolyLoop
/-!
# A polynomial bound for the main loop of `make_parse` (all parses), part 3: one iteration

Potential `ppot = tabFree · K ^ pexpTop + Σ_stack K ^ pexp`: a state pushed for a new abstract
node is paid for by the key that enters `parse_state_tab`; a state pushed for a rule without
abstract node has a lower level than the state it is pushed for (no pass-through cycle); a copy has
the exponent of the original state after its dot has moved.
-/
namespace Yaep.MP
open Yaep

/-- the polynomial potential -/
noncomputable def ppot (g : Grammar) (n K : Nat) (s : St) : Nat :=
  tabFree g n s.table * K ^ pexpTop g + pot K (fun x => pexp g (s.state x)) s.stack

/-- what the polynomial argument needs to know about a machine state -/
structure PInv (g : Grammar) (n : Nat) (s : St) : Prop where
  sorted : s.stack.Pairwise (· > ·)
  lt : ∀ x ∈ s.stack, x < s.states.size
  rule : ∀ x ∈ s.stack, ∃ rl, g.rules[(s.state x).rule]? = some rl
  tsize : s.table.size = n + 1

theorem PInv.rest_lt {g : Grammar} {n : Nat} {s : St} (h : PInv g n s) {X : Nat} {rest : List Nat}
    (hst : s.stack = X :: rest) : ∀ y ∈ rest, y < X := by
  have := h.sorted
  rw [hst] at this
  exact (List.pairwise_cons.mp this).1

/-! ## the invariant between two candidates -/

/-- while the candidates of the nonterminal at `L.pos` of the top state `X` of `s` are tried (after at
least one): the new states above `X` and the keys that entered the table weigh at most `m · K ^ E'` -/
structure PLc (g : Grammar) (n K : Nat) (s : St) (X : Nat) (rest : List Nat) (L : Loc) (E' : Nat) (m : Nat)
    (sts : Array PState) (stack : List Nat) (tab : Array (List (Nat × Nat × Nat))) : Prop where
  shape : ∃ new, stack = new ++ X :: rest ∧
    tabFree g n tab * K ^ pexpTop g + pot K (fun y => pexp g (sts.getD y default)) new ≤
      tabFree g n s.table * K ^ pexpTop g + m * K ^ E'
  sorted : stack.Pairwise (· > ·)
  lt : ∀ y ∈ stack, y < sts.size
  rule : ∀ y ∈ stack, ∃ rl, g.rules[(sts.getD y default).rule]? = some rl
  size : s.states.size ≤ sts.size
  old : ∀ x, x < s.states.size → x ≠ X → sts.getD x default = s.states.getD x default
  top : (sts.getD X default).rule = L.rule ∧ (sts.getD X default).pos = L.pos
  tsize : tab.size = n + 1

section
variable {g : Grammar} {n K : Nat} {s : St} {X : Nat} {rest : List Nat} {L : Loc} {E' : Nat}

/-- a state of exponent at most `E'` is pushed -/
theorem PLc.pushLight {m : Nat} {sts : Array PState} {stack : List Nat}
    {tab : Array (List (Nat × Nat × Nat))} (hK : 1 ≤ K)
    (h : PLc g n K s X rest L E' m sts stack tab) (hX : X < s.states.size) {p : PState}
    (hr : ∃ rl, g.rules[p.rule]? = some rl) (he : pexp g p ≤ E') :
    PLc g n K s X rest L E' (m + 1) (sts.push p) (sts.size :: stack) tab := by
  obtain ⟨new, h1, h2⟩ := h.shape
  have hsz := h.size
  have hXlt : X < sts.size := by omega
  have hgX : (sts.push p).getD X default = sts.getD X default := getD_push_lt _ _ _ _ hXlt
  have hpot : pot K (fun y => pexp g ((sts.push p).getD y default)) new =
      pot K (fun y => pexp g (sts.getD y default)) new := by
    apply pot_congr
    intro y hy
    have hylt : y < sts.size := h.lt y (by rw [h1]; exact List.mem_append_left _ hy)
    simp only [getD_push_lt _ _ _ _ hylt]
  refine ⟨⟨sts.size :: new, by rw [h1]; rfl, ?_⟩, ?_, ?_, ?_, ?_, ?_, ?_, h.tsize⟩
  · simp only [pot]
    rw [getD_push_eq, hpot, Nat.add_mul, Nat.one_mul]
    have := Nat.pow_le_pow_right hK he
    omega
  · exact List.pairwise_cons.mpr ⟨fun y hy => h.lt y hy, h.sorted⟩
  · intro y hy
    rw [Array.size_push]
    rcases List.mem_cons.mp hy with rfl | hy
    · omega
    · have := h.lt y hy; omega
  · intro y hy
    rcases List.mem_cons.mp hy with rfl | hy
    · rw [getD_push_eq]; exact hr
    · rw [getD_push_lt _ _ _ _ (h.lt y hy)]; exact h.rule y hy
  · rw [Array.size_push]; omega
  · intro x hx hne
    rw [getD_push_lt _ _ _ _ (by omega)]; exact h.old x hx hne
  · rw [hgX]; exact h.top

/-- a state is pushed together with a new key of the table -/
theorem PLc.pushPaid {m : Nat} {sts : Array PState} {stack : List Nat}
    {tab tab' : Array (List (Nat × Nat × Nat))} (hK : 1 ≤ K)
    (h : PLc g n K s X rest L E' m sts stack tab) (hX : X < s.states.size) {p : PState}
    (hr : ∃ rl, g.rules[p.rule]? = some rl) (he : pexp g p ≤ pexpTop g)
    (hfree : tabFree g n tab' + 1 ≤ tabFree g n tab) (hsize : tab'.size = tab.size) :
    PLc g n K s X rest L E' m (sts.push p) (sts.size :: stack) tab' := by
  obtain ⟨new, h1, h2⟩ := h.shape
  have hsz := h.size
  have hXlt : X < sts.size := by omega
  have hgX : (sts.push p).getD X default = sts.getD X default := getD_push_lt _ _ _ _ hXlt
  have hpot : pot K (fun y => pexp g ((sts.push p).getD y default)) new =
      pot K (fun y => pexp g (sts.getD y default)) new := by
    apply pot_congr
    intro y hy
    have hylt : y < sts.size := h.lt y (by rw [h1]; exact List.mem_append_left _ hy)
    simp only [getD_push_lt _ _ _ _ hylt]
  refine ⟨⟨sts.size :: new, by rw [h1]; rfl, ?_⟩, ?_, ?_, ?_, ?_, ?_, ?_, by rw [hsize]; exact h.tsize⟩
  · simp only [pot]
    rw [getD_push_eq, hpot]
    have h3 := Nat.pow_le_pow_right hK he
    have h4 := Nat.mul_le_mul_right (K ^ pexpTop g) hfree
    rw [Nat.add_mul, Nat.one_mul] at h4
    omega
  · exact List.pairwise_cons.mpr ⟨fun y hy => h.lt y hy, h.sorted⟩
  · intro y hy
    rw [Array.size_push]
    rcases List.mem_cons.mp hy with rfl | hy
    · omega
    · have := h.lt y hy; omega
  · intro y hy
    rcases List.mem_cons.mp hy with rfl | hy
    · rw [getD_push_eq]; exact hr
    · rw [getD_push_lt _ _ _ _ (h.lt y hy)]; exact h.rule y hy
  · rw [Array.size_push]; omega
  · intro x hx hne
    rw [getD_push_lt _ _ _ _ (by omega)]; exact h.old x hx hne
  · rw [hgX]; exact h.top

theorem PLc.mono {m m' : Nat} {sts : Array PState} {stack : List Nat}
    {tab : Array (List (Nat × Nat × Nat))} (h : PLc g n K s X rest L E' m sts stack tab) (hm : m ≤ m') :
    PLc g n K s X rest L E' m' sts stack tab := by
  obtain ⟨new, h1, h2⟩ := h.shape
  refine ⟨⟨new, h1, ?_⟩, h.sorted, h.lt, h.rule, h.size, h.old, h.top, h.tsize⟩
  have := Nat.mul_le_mul_right (K ^ E') hm
  omega

end

/-! ## one candidate -/

section
variable {g : Grammar} {ok : Nat → Nat → Nat → Bool} {toks : List Nat} {c : Ctx}

/-- **one candidate** `(sr, k)` that passed the check loop keeps the invariant; it costs at most
`2 · K ^ E'` -/
theorem pl_cand (hc : CtxAll g ok toks c) (hpc : ¬ PassCyclic g) {K : Nat} (hK : 1 ≤ K) {s : St}
    (hinv : PInv g toks.length s) {X : Nat} {rest : List Nat} (hst : s.stack = X :: rest) {A : Nat}
    {rlX : Rule} (hr : g.rules[(s.state X).rule]? = some rlX) (hpos : (s.state X).pos ≠ 0)
    (hsym : rlX.rhs[(s.state X).pos - 1]? = some (.n A))
    {sr k : Nat} {rl' : Rule} (hr' : g.rules[sr]? = some rl') (hlhs : rl'.lhs = A)
    (hE : EarleyF g ok toks (s.state X).plInd ⟨sr, rl'.rhs.length, k⟩)
    {m : Nat} {os : List Nat} {s' : St}
    (hM : (m = 0 ∧ s' = ntS0 s X) ∨
      (m ≠ 0 ∧ PLc g toks.length K s X rest (ntLoc c s X A) (pexp g (s.state X) - 1) (2 * m) s'.states s'.stack
        s'.table)) :
    PLc g toks.length K s X rest (ntLoc c s X A) (pexp g (s.state X) - 1) (2 * (m + 1))
      (candidate c (ntLoc c s X A) ⟨sr, rl'.rhs.length, k⟩ m os s').1.states
      (candidate c (ntLoc c s X A) ⟨sr, rl'.rhs.length, k⟩ m os s').1.stack
      (candidate c (ntLoc c s X A) ⟨sr, rl'.rhs.length, k⟩ m os s').1.table := by
  have hXmem : X ∈ s.stack := by rw [hst]; simp
  have hXlt := hinv.lt X hXmem
  have hrule := hc.rule_eq hr
  have hrule' := hc.rule_eq hr'
  have hlen' : rl'.rhs.length ≤ g.maxRhs := le_maxRhs (List.mem_of_getElem? hr')
  -- the exponent of the top state before the step
  have hEx : pexp g (s.state X) - 1 = lvl g (s.state X).rule * (g.maxRhs + 1) + ((s.state X).pos - 1) := by
    unfold pexp; omega
  -- the state after `candPre`
  have h1 : PLc g toks.length K s X rest (ntLoc c s X A) (pexp g (s.state X) - 1) (2 * m)
      (candPre (ntLoc c s X A) ⟨sr, rl'.rhs.length, k⟩ m s').states
      (candPre (ntLoc c s X A) ⟨sr, rl'.rhs.length, k⟩ m s').stack s'.table := by
    rcases hM with ⟨h0, rfl⟩ | ⟨hn, hf⟩
    · subst h0
      rw [candPre_zero]
      obtain ⟨_, e2, e3, e4, e5, e6⟩ := advance_states (s := s) (k := k) hXlt (ntLoc c s X A) rfl
      simp only at e2 e3 e4 e5 e6
      have hfld : ((ntS0 s X).setState (ntLoc c s X A).origSid
          { (ntS0 s X).state (ntLoc c s X A).origSid with plInd := k }).states.getD X default =
          { s.state X with pos := (s.state X).pos - 1, plInd := k } := e5
      have etab : (ntS0 s X).table = s.table := rfl
      rw [e2, etab]
      refine ⟨⟨[], by rw [hst]; rfl, by simp [pot]⟩, hinv.sorted, ?_, ?_, Nat.le_of_eq e4.symm,
        fun x _ hne => e6 x hne, ?_, hinv.tsize⟩
      · intro y hy; rw [e4]; exact hinv.lt y hy
      · intro y hy
        by_cases hyX : y = X
        · subst hyX; rw [hfld]; exact ⟨rlX, hr⟩
        · rw [e6 y hyX]; exact hinv.rule y hy
      · rw [hfld]; exact ⟨rfl, rfl⟩
    · obtain ⟨_, p2, p3, _, _⟩ := candPre_untr_pos (L := ntLoc c s X A) (sit := ⟨sr, rl'.rhs.length, k⟩)
        (s := s') hn
      rw [p2, p3]; exact hf
  obtain ⟨sts1, stack1, hhead, htail⟩ := candidate_parts hc.all (ntLoc c s X A) ⟨sr, rl'.rhs.length, k⟩ m os s'
  have hXtop := h1.top
  -- the copy
  have h2 : PLc g toks.length K s X rest (ntLoc c s X A) (pexp g (s.state X) - 1) (2 * m + 1) sts1 stack1
      s'.table := by
    rcases hhead with ⟨e1, e2⟩ | ⟨_, p, ⟨p1, p2, _⟩, e1, e2⟩
    · rw [e1, e2]; exact h1.mono (by omega)
    · rw [e1, e2]
      have q1 : p.rule = (s.state X).rule := by rw [p1]; exact hXtop.1
      have q2 : p.pos = (s.state X).pos - 1 := by rw [p2]; exact hXtop.2
      apply h1.pushLight hK hXlt ⟨rlX, by rw [q1]; exact hr⟩
      rw [hEx]; unfold pexp; rw [q1, q2]; exact Nat.le_refl _
  -- the state for the rule of the candidate
  obtain ⟨_, _, _, hle1, _⟩ := hE.sound
  simp only at hle1
  have hplle := hE.le_length
  rcases htail with ⟨e1, e2, e3⟩ | ⟨q, ⟨q1, q2, _, _⟩, e1, e2, hcase⟩
  · rw [e1, e2, e3]; exact h2.mono (by omega)
  · rw [e1, e2]
    have q1' : q.rule = sr := q1
    have q2' : q.pos = rl'.rhs.length := q2
    rcases hcase with ⟨e3, hna, hdot, hdisp⟩ | ⟨nd, hfind, e3⟩
    · -- a rule without abstract node: lower level
      rw [e3]
      have hmono := (h2.pushLight hK hXlt (p := q) ⟨rl', by rw [q1']; exact hr'⟩ ?_).mono
        (show 2 * m + 1 + 1 ≤ 2 * (m + 1) by omega)
      · exact hmono
      · rw [hEx]; unfold pexp; rw [q1', q2']
        have hna' : rl'.anode = none := by rw [← hrule']; exact hna
        have hlv' : lvl g sr = passRank g sr := by
          unfold lvl; rw [hr']; simp [hna']
        have hlt : lvl g sr < lvl g (s.state X).rule := by
          rw [hlv']
          cases haX : rlX.anode with
          | some nm =>
            have : lvl g (s.state X).rule = g.rules.length + 1 := by
              unfold lvl; rw [hr]; simp [haX]
            rw [this]; have := passRank_le g sr; omega
          | none =>
            have hlvX : lvl g (s.state X).rule = passRank g (s.state X).rule := by
              unfold lvl; rw [hr]; simp [haX]
            rw [hlvX]
            have hdisp' : (rlX.order.getD ((s.state X).pos - 1) none).isSome = true := by
              have : (ntLoc c s X A).disp = rlX.order.getD ((s.state X).pos - 1) none := by
                simp only [ntLoc, hrule]
              rw [← this]; exact hdisp
            obtain ⟨d, hd⟩ := Option.isSome_iff_exists.mp hdisp'
            have hdot' : rl'.rhs.length ≠ 0 := hdot
            exact passRank_lt hpc (passStep_intro hr hr' haX hna' hdot' hd (by rw [hlhs]; exact hsym))
        have h5 : lvl g sr + 1 ≤ lvl g (s.state X).rule := hlt
        have h6 := Nat.mul_le_mul_right (g.maxRhs + 1) h5
        rw [Nat.add_mul] at h6
        omega
    · -- a new abstract node: paid by the table
      rw [e3]
      have hpl : (ntLoc c s X A).plInd = (s.state X).plInd := rfl
      have hfree := tabFree_insert (g := g) (n := toks.length) (t := s'.table) (r := sr) (o := k)
        (p := (s.state X).plInd) (nd := nd) (List.getElem?_eq_some_iff.mp hr').1 (by omega) hplle
        (by rw [h2.tsize]; omega) (by rw [← hpl]; exact hfind)
      have := (h2.pushPaid hK hXlt (p := q) (tab' := tableInsert s'.table sr k (s.state X).plInd nd)
        ⟨rl', by rw [q1']; exact hr'⟩ ?_ hfree (tableInsert_size _ _ _ _ _)).mono
        (show 2 * m + 1 ≤ 2 * (m + 1) by omega)
      · exact this
      · unfold pexp pexpTop; rw [q1', q2']
        have h5 := lvl_le g sr
        have h6 := Nat.mul_le_mul_right (g.maxRhs + 1) h5
        omega

end

end Yaep.MP
