import Yaep.Lemmas.LaIndep2Main
import Yaep.Lemmas.LaIndep2MP
import Yaep.Lemmas.LaIndepFinal
import Yaep.Lemmas.LaIndepL2
/-!
# Lookahead independence at level 2, list part 6: `SetsRelA` for the parse lists `make_parse` reads

`mask_of_setPair2`: the completed items of one nonterminal at level 2 are those of level 0 with occurrences
removed; `setsRelA_plSets2`: the relation between `plSets g 0 w` and `LI.plSets2 g w` (the level-2 list with the
contexts dropped) for the abstract level `lvl2` of the level-2 parse list.
-/
namespace Yaep.LI2
open Yaep Yaep.BS Yaep.LI

/-! ## the level-2 list as `make_parse` reads it -/

theorem plSets2_size (g : Grammar) (w : List Nat) : (plSets2 g w).size = (plC2 g w).length := by
  unfold plSets2 BS2.plItems; simp

theorem plSets2_getD_toList (g : Grammar) (w : List Nat) (j : Nat) (hj : j < (plC2 g w).length) :
    ((plSets2 g w).getD j #[]).toList = (((plC2 g w).getD j default).items j).map Item2.proj := by
  unfold plSets2 BS2.plItems
  simp [Array.getD_eq_getD_getElem?, hj]

theorem plSets2_getD_ge (g : Grammar) (w : List Nat) (j : Nat) (hj : (plC2 g w).length ≤ j) :
    (plSets2 g w).getD j #[] = #[] := by
  rw [Array.getD_eq_getD_getElem?, Array.getElem?_eq_none (by rw [plSets2_size]; exact hj)]
  rfl

/-! ## the mask -/

/-- the statement of `SetsRelA.mask` for the lists of items of the step models -/
def MaskStmt2 (g : Grammar) (w : List Nat) (j B : Nat) : Prop :=
  ∃ l : List (Item × Bool),
    l.map Prod.fst = (((plC g 0 w).getD j default).items j).filter (isRed g B) ∧
    (l.filter Prod.snd).map Prod.fst =
      ((((plC2 g w).getD j default).items j).map Item2.proj).filter (isRed g B) ∧
    ∀ x ∈ l, G2 g (w ++ [g.eofT]) (plA2 g w) j x.1 → x.2 = true

theorem F0_of_okT {g : Grammar} {w' : List Nat} {j : Nat} {it : Item} (h : EarleyF g okT w' j it) :
    F0 g w' j it :=
  h.congr_mono (fun _ _ => rfl) (fun _ _ _ _ _ => laFilter_zero _ _ _ _ _ _)

theorem mask_of_setPair2 {g : Grammar} {w : List Nat} (f0 : LvlFacts g w 0) (f2 : Lvl2Facts g w)
    {j : Nat} (hj1 : 1 ≤ j) (hj2 : j ≤ (w ++ [g.eofT]).length)
    {ns0 ns1 : List (Sit × Nat)} {I0 I1 : List Sit} (h : SetPair2 g w j ns0 ns1 I0 I1) (B : Nat) :
    MaskStmt2 g w j B := by
  have hjl0 : j < (plC g 0 w).length := by have := f0.len; omega
  have hjl2 : j < (plC2 g w).length := by have := f2.len; omega
  have hshape0 : Shape ((plC g 0 w).getD j default).core := (f0.plok.ok j hjl0).shape
  have hok2 := f2.plok.ok j hjl2
  have hitems2 := f2.plok.items j hjl2
  have hdet := f2.inv.det
  have hpairs1 : ∀ p ∈ ns1, 1 ≤ p.2 ∧ p.2 ≤ j := by
    intro p hp
    rw [h.rel] at hp
    exact (h.pairs p (List.mem_filter.mp hp).1).2
  have hpairs0 : ∀ p ∈ ns0, 1 ≤ p.2 ∧ p.2 ≤ j := fun p hp => (h.pairs p hp).2
  -- an item with origin `j` of either set is an initial situation
  have hinit0 : ∀ s : Sit, F0 g (w ++ [g.eofT]) j ⟨s.1, s.2, j⟩ → s ∈ I0 := by
    intro s hF
    have hm := (f0.items j hj2 _).mpr hF
    rw [items_eq_tg hshape0] at hm
    obtain ⟨q, hq, he⟩ := List.mem_map.mp hm
    exact init_of_origin h.e0 h.d0 hpairs0 hj1 hq he
  have hinit2 : ∀ s : Sit, F2 (plA2 g w) j ⟨s.1, s.2, j⟩ → s ∈ I1 := by
    intro s hF
    obtain ⟨c, hc⟩ := hF
    have hm := (hitems2 _).mpr hc
    have hm' : (⟨s.1, s.2, j⟩ : Item) ∈ (((plC2 g w).getD j default).items j).map Item2.proj :=
      List.mem_map.mpr ⟨_, hm, rfl⟩
    rw [items_projSet_eq_tg hok2] at hm'
    obtain ⟨q, hq, he⟩ := List.mem_map.mp hm'
    exact init_of_origin h.e1 h.d1 hpairs1 hj1 hq he
  have hF2 : ∀ s ∈ I1, F2 (plA2 g w) j ⟨s.1, s.2, j⟩ := by
    intro s hs
    have hm : toItem j (s, 0) ∈ (tg (projSet ((plC2 g w).getD j default))).map (toItem j) :=
      List.mem_map.mpr ⟨(s, 0), mem_tg_init h.e1 h.d1 hs, rfl⟩
    rw [← items_projSet_eq_tg hok2] at hm
    obtain ⟨it2, hit2, he⟩ := List.mem_map.mp hm
    have hA := (hitems2 _).mp hit2
    obtain ⟨r, d, o, c⟩ := it2
    unfold Item2.proj toItem at he
    simp only [Item.mk.injEq] at he
    obtain ⟨e1, e2, e3⟩ := he
    subst e1; subst e2
    refine ⟨c, ?_⟩
    have ho : o = j := by omega
    subst ho
    exact hA
  unfold MaskStmt2
  rw [items_eq_tg hshape0, items_projSet_eq_tg hok2]
  exact mask_of_relP (K := Kj g (plA2 g w) (w ++ [g.eofT])[j]? j) j B
    (G2 g (w ++ [g.eofT]) (plA2 g w) j) h.e0 h.d0 h.e1 h.d1 h.rel
    (by
      intro s hs
      exact hinit0 s (F2_sub_F0 f2.inv.sound (hF2 s hs)))
    (by
      intro p hp hC
      obtain ⟨c, hc, hok⟩ := hC
      have := cx_eq hdet hc
      unfold Kj
      unfold toItem at hok this
      simp only at hok this
      rw [this]; exact hok)
    (by
      intro p hp s' hs' _ hC
      obtain ⟨c, hc, hok⟩ := hC
      obtain ⟨rl, k, hr, hk, hs'eq⟩ := mem_chainOf.mp hs'
      have hrule : s'.1 = p.1.1 := by rw [hs'eq]
      have := cx_eq hdet hc
      unfold toItem at hok this
      simp only at hok this
      unfold Kj
      rw [← hrule, this, hrule]
      exact ok2_of_chain hs' hok)
    (by
      intro s _ _ hC
      exact hinit2 s (G2_F2 hC))

/-! ## the last set -/

/-- the last set is the same list of items at both levels -/
theorem last_items_eq2 {g : Grammar} (hwf : g.WF) (hsr : g.symsInRange = true) {w : List Nat}
    (f0 : LvlFacts g w 0) (f2 : Lvl2Facts g w) :
    ((plC g 0 w).getD (w ++ [g.eofT]).length default).items (w ++ [g.eofT]).length =
      (((plC2 g w).getD (w ++ [g.eofT]).length default).items (w ++ [g.eofT]).length).map Item2.proj := by
  have hpos : 1 ≤ (w ++ [g.eofT]).length := by simp
  obtain ⟨ns0, ns1, I0, I1, h⟩ := setPair2 hwf hsr f0 f2 hpos (Nat.le_refl _)
    (fun m hm => prel2_all hwf hsr f0 f2 m (by omega))
  have hnone : (w ++ [g.eofT])[(w ++ [g.eofT]).length]? = none := List.getElem?_eq_none (Nat.le_refl _)
  have hrel : ns1 = ns0 := by
    rw [h.rel]
    apply List.filter_eq_self.mpr
    intro p _
    unfold Kj
    rw [hnone]
    exact ok2_none g _ _ _
  have e1 := h.e1
  have d1 := h.d1
  rw [hrel] at e1 d1
  have hshape0 : Shape ((plC g 0 w).getD (w ++ [g.eofT]).length default).core :=
    (f0.plok.ok _ (by have := f0.len; omega)).shape
  have hok2 := f2.plok.ok (w ++ [g.eofT]).length (by have := f2.len; omega)
  rw [items_eq_tg hshape0, items_projSet_eq_tg hok2, tg_eq_of_same h.e0 h.d0 e1 d1]

theorem mask_all2 {g : Grammar} (hwf : g.WF) (hsr : g.symsInRange = true) {w : List Nat}
    (f0 : LvlFacts g w 0) (f2 : Lvl2Facts g w) (j B : Nat) (hj : j ≤ (w ++ [g.eofT]).length) :
    MaskStmt2 g w j B := by
  rcases Nat.eq_zero_or_pos j with h0 | hpos
  · subst h0
    unfold MaskStmt2
    have hshape0 : Shape ((plC g 0 w).getD 0 default).core :=
      (f0.plok.ok 0 (by have := f0.len; omega)).shape
    have hok2 := f2.plok.ok 0 (by have := f2.len; omega)
    rw [items_projSet_eq_tg hok2, ← head_tg_eq hwf hsr, ← items_eq_tg hshape0]
    refine ⟨((((plC g 0 w).getD 0 default).items 0).filter (isRed g B)).map fun it => (it, true),
      ?_, ?_, ?_⟩
    · rw [List.map_map]; exact List.map_id _
    · rw [List.filter_eq_self.mpr, List.map_map]
      · exact List.map_id _
      · intro x hx
        obtain ⟨it, _, rfl⟩ := List.mem_map.mp hx
        rfl
    · intro x hx _
      obtain ⟨it, _, rfl⟩ := List.mem_map.mp hx
      rfl
  · obtain ⟨ns0, ns1, I0, I1, h⟩ := setPair2 hwf hsr f0 f2 hpos hj
      (fun m hm => prel2_all hwf hsr f0 f2 m (by omega))
    exact mask_of_setPair2 f0 f2 hpos hj h B

/-- **the parse lists of levels 0 and 2 of an input accepted at both levels are related by `SetsRelA`** -/
theorem setsRelA_plSets2 {g : Grammar} (hwf : g.WF) (hsr : g.symsInRange = true) {w : List Nat}
    (hacc0 : (buildPLC g 0 w).1 = none) (hacc2 : (BS2.buildPLC2 g w).1 = none) :
    SetsRelA g (w ++ [g.eofT])
      (lvl2 hsr (lvl2Facts hwf hsr hacc2).inv (lvl2Facts hwf hsr hacc2).orig (lvl2Facts hwf hsr hacc2).lenA)
      (plSets g 0 w) (plSets2 g w) := by
  have f0 := lvlFacts hacc0
  have f2 := lvl2Facts hwf hsr hacc2
  have hl0 := f0.len
  have hl2 := f2.len
  refine ⟨by rw [MP.plSets_size]; exact hl0, by rw [plSets2_size]; exact hl2, ?_, ?_, ?_, ?_, ?_, ?_⟩
  · intro j it hit
    by_cases hj : j < (plC g 0 w).length
    · rw [plSets_getD_toList g 0 w j hj] at hit
      exact (f0.items j (by omega) it).mp hit
    · rw [plSets_getD_ge g 0 w j (by omega)] at hit
      cases hit
  · intro j it hF
    have hj := hF.le_length
    rw [plSets_getD_toList g 0 w j (by omega)]
    exact (f0.items j hj it).mpr hF
  · intro j it hit
    show F2 (plA2 g w) j it
    by_cases hj : j < (plC2 g w).length
    · rw [plSets2_getD_toList g w j hj] at hit
      obtain ⟨it2, hit2, rfl⟩ := List.mem_map.mp hit
      exact ⟨it2.ctx, (f2.plok.items j hj _).mp hit2⟩
    · rw [plSets2_getD_ge g w j (by omega)] at hit
      cases hit
  · intro j it hF
    obtain ⟨c, hc⟩ := (show F2 (plA2 g w) j it from hF)
    have hj : j < (plC2 g w).length := by
      have := mem_getD_lt hc
      rw [f2.lenA] at this
      omega
    rw [plSets2_getD_toList g w j hj]
    exact List.mem_map.mpr ⟨_, (f2.plok.items j hj _).mpr hc, rfl⟩
  · have e0 := plSets_getD_toList g 0 w (w ++ [g.eofT]).length (by omega)
    have e2 := plSets2_getD_toList g w (w ++ [g.eofT]).length (by omega)
    have := last_items_eq2 hwf hsr f0 f2
    rw [← e0, ← e2] at this
    have harr : (plSets g 0 w).getD (w ++ [g.eofT]).length #[] =
        (plSets2 g w).getD (w ++ [g.eofT]).length #[] := Array.ext' this
    rw [harr]
  · intro j B hj
    have := mask_all2 hwf hsr f0 f2 j B hj
    unfold MaskStmt2 at this
    rw [← plSets_getD_toList g 0 w j (by omega), ← plSets2_getD_toList g w j (by omega)] at this
    exact this

end Yaep.LI2
