import Yaep.Lemmas.CompleteDef
import Yaep.Lemmas.HeapWfOps
/-!
# Completeness of the all-parses forest of `make_parse`, part 2: the heap operations are `HMono`

One syntactic criterion (`SynExt`: cells are only added, a cell keeps its content except that a slot
of an abstract node may be filled or get a longer ALT chain) implies `HMono`; `push` of a cell that
is not an ALT cell, `place_translation`, the final NULL → NIL pass and the cell of `copy_anode` are
instances.

`hmono_place` needs that no slot of the heap holds a pointer outside the heap (`hkid`): without it
the field `HMono.inslot` is false (a slot that holds the dangling pointer `h.size` "refers to the
cell `h.size`, not an ALT cell" before, and to an ALT cell that `place_translation` pushed after).
-/
namespace Yaep.CP
open Yaep Yaep.MP

/-! ## small facts about cells -/

theorem getD_ge_nil {h : Array MNode} {m : Nat} (hm : h.size ≤ m) : h.getD m .nil = .nil := by
  simp [Array.getD_eq_getD_getElem?, Array.getElem?_eq_none hm]

theorem lt_of_alt {h : Array MNode} {m nd : Nat} {nx : Option Nat}
    (hc : h.getD m .nil = .alt nd nx) : m < h.size :=
  getD_lt_of_ne_nil (by rw [hc]; intro e; cases e)

theorem lt_of_anode {h : Array MNode} {m : Nat} {nm : String} {c : Nat} {ks : Array (Option Nat)}
    (hc : h.getD m .nil = .anode nm c ks) : m < h.size :=
  getD_lt_of_ne_nil (by rw [hc]; intro e; cases e)

theorem isAlt_congr {h h' : Array MNode} {k : Nat} (e : h'.getD k .nil = h.getD k .nil) :
    isAlt h' k = isAlt h k := by
  unfold isAlt; rw [e]

theorem isAlt_false_of_not_alt {h : Array MNode} {k : Nat}
    (hna : ∀ nd nx, h.getD k .nil ≠ .alt nd nx) : isAlt h k = false := by
  unfold isAlt
  split
  · rename_i nd nx e; exact absurd e (hna nd nx)
  · rfl

theorem alt_of_isAlt {h : Array MNode} {k : Nat} (hk : isAlt h k = true) :
    ∃ nd nx, h.getD k .nil = .alt nd nx := by
  unfold isAlt at hk
  split at hk
  · rename_i nd nx e; exact ⟨nd, nx, e⟩
  · cases hk

theorem isAlt_false_of_ge {h : Array MNode} {k : Nat} (hk : h.size ≤ k) : isAlt h k = false :=
  isAlt_false_of_not_alt (fun _ _ => by rw [getD_ge_nil hk]; intro e; cases e)

theorem getD_none_of_ge {ks : Array (Option Nat)} {i : Nat} (hi : ks.size ≤ i) :
    ks.getD i none = none := by
  simp [Array.getD_eq_getD_getElem?, Array.getElem?_eq_none hi]

/-- the start of a chain is an ALT cell -/
theorem InChain.isAlt {h : Array MNode} {m a : Nat} (hc : InChain h m a) : isAlt h m = true := by
  cases hc with
  | head e => exact isAlt_of_cell e
  | tail e _ => exact isAlt_of_cell e

/-- a pointer to an ALT cell denotes what an alternative of the chain denotes -/
theorem DenP.of_alt {h : Array MNode} {m : Nat} {t : Tree} (hd : DenP h m t)
    (ha : isAlt h m = true) : ∃ a, InChain h m a ∧ DenP h a t := by
  obtain ⟨nd, nx, e⟩ := alt_of_isAlt ha
  cases hd with
  | nil _ e' => rw [e] at e'; cases e'
  | err _ e' => rw [e] at e'; cases e'
  | term e' => rw [e] at e'; cases e'
  | anode kf _ e' _ _ _ => rw [e] at e'; cases e'
  | alt hc hd' => exact ⟨_, hc, hd'⟩

/-- an abstract node all of whose slots denote something denotes the node with these children -/
theorem DenP.of_slots {h : Array MNode} {m : Nat} {nm : String} {c : Nat} {ks : Array (Option Nat)}
    {ts : List Tree} (hroot : rootId < m) (hc : h.getD m .nil = .anode nm c ks)
    (hsz : ks.size = ts.length + 1)
    (hs : ∀ i, i < ts.length → DenSlot h (m, i) (ts.getD i .nil)) : DenP h m (.anode nm c ts) := by
  have key : ∀ i, i < ts.length →
      ks.getD i none = some ((ks.getD i none).getD 0) ∧
      DenP h ((ks.getD i none).getD 0) (ts.getD i .nil) := by
    intro i hi
    obtain ⟨k, hk, hd⟩ := hs i hi
    have hk' : ks.getD i none = some k := by
      rw [← getKid_of_cell hc i]; exact hk
    rw [hk']
    exact ⟨rfl, hd⟩
  exact .anode (fun i => (ks.getD i none).getD 0) hroot hc hsz (fun i hi => (key i hi).1)
    (fun i hi => (key i hi).2)

/-! ## the syntactic criterion -/

/-- `k'` is an ALT chain made of one new alternative put in front of what `k` stood for -/
def Pre (h' : Array MNode) (k' k : Nat) : Prop :=
  (isAlt h' k = true ∧ ∃ node, h'.getD k' .nil = .alt node (some k)) ∨
  (isAlt h' k = false ∧ ∃ node k'', h'.getD k' .nil = .alt node (some k'') ∧
    h'.getD k'' .nil = .alt k none)

theorem Pre.chain {h' : Array MNode} {k' k a : Nat} (hp : Pre h' k' k) (hc : InChain h' k a) :
    InChain h' k' a := by
  rcases hp with ⟨_, node, e⟩ | ⟨hf, _⟩
  · exact .tail e hc
  · rw [hc.isAlt] at hf; cases hf

theorem Pre.self {h' : Array MNode} {k' k : Nat} (hp : Pre h' k' k) (hf : isAlt h' k = false) :
    InChain h' k' k := by
  rcases hp with ⟨ht, _⟩ | ⟨_, node, k'', e1, e2⟩
  · rw [hf] at ht; cases ht
  · exact .tail e1 (.head e2)

theorem Pre.den {h' : Array MNode} {k' k : Nat} {t : Tree} (hp : Pre h' k' k) (hd : DenP h' k t) :
    DenP h' k' t := by
  cases hk : isAlt h' k with
  | true =>
    obtain ⟨a, hc, hd'⟩ := hd.of_alt hk
    exact .alt (hp.chain hc) hd'
  | false => exact .alt (hp.self hk) hd

/-- cells are only added; a cell keeps its content, except that a slot of an abstract node that was
NULL may be filled and a filled slot may get a longer chain; a cell a slot points to does not become
an ALT cell -/
structure SynExt (h h' : Array MNode) : Prop where
  size : h.size ≤ h'.size
  cell : ∀ m, m < h.size → h'.getD m .nil = h.getD m .nil ∨
    ∃ nm c ks ks', h.getD m .nil = .anode nm c ks ∧ h'.getD m .nil = .anode nm c ks' ∧
      ks'.size = ks.size ∧
      ∀ i k, ks.getD i none = some k → ∃ k', ks'.getD i none = some k' ∧ (k' = k ∨ Pre h' k' k)
  fresh : ∀ m nd m', h.size ≤ m → h'.getD m .nil = .alt nd (some m') →
    m' < m ∨ (m' = m + 1 ∧ ∃ nd', h'.getD (m + 1) .nil = .alt nd' none)
  keep : ∀ n i k, getKid h n i = some k → isAlt h k = false → isAlt h' k = false

namespace SynExt
variable {h h' : Array MNode}

theorem old_alt (he : SynExt h h') {m nd : Nat} {nx : Option Nat}
    (hc : h.getD m .nil = .alt nd nx) : h'.getD m .nil = .alt nd nx := by
  rcases he.cell m (lt_of_alt hc) with e | ⟨_, _, _, _, e, _⟩
  · rw [e, hc]
  · rw [hc] at e; cases e

theorem chain (he : SynExt h h') {m a : Nat} (hc : InChain h m a) : InChain h' m a := by
  induction hc with
  | head e => exact .head (he.old_alt e)
  | tail e _ ih => exact .tail (he.old_alt e) ih

theorem slot_step (he : SynExt h h') {n i k : Nat} (hk : getKid h n i = some k) :
    ∃ k', getKid h' n i = some k' ∧ (k' = k ∨ Pre h' k' k) := by
  obtain ⟨nm, c, ks, hc, hki⟩ := getKid_some_iff.1 hk
  rcases he.cell n (lt_of_anode hc) with e | ⟨nm1, c1, ks1, ks', e1, e2, _, hks⟩
  · refine ⟨k, ?_, Or.inl rfl⟩
    rw [getKid_of_cell (e.trans hc)]; exact hki
  · rw [hc] at e1
    injection e1 with a1 a2 a3
    subst a1; subst a2; subst a3
    obtain ⟨k', hk', hor⟩ := hks i k hki
    exact ⟨k', by rw [getKid_of_cell e2]; exact hk', hor⟩

theorem den (he : SynExt h h') {m : Nat} {t : Tree} (hd : DenP h m t) : DenP h' m t := by
  induction hd with
  | nil hm hc =>
    rcases he.cell _ hm with e | ⟨_, _, _, _, e, _⟩
    · exact .nil (Nat.lt_of_lt_of_le hm he.size) (by rw [e]; exact hc)
    · rw [hc] at e; cases e
  | err hm hc =>
    rcases he.cell _ hm with e | ⟨_, _, _, _, e, _⟩
    · exact .err (Nat.lt_of_lt_of_le hm he.size) (by rw [e]; exact hc)
    · rw [hc] at e; cases e
  | @term m c a hc =>
    have hm : m < h.size := getD_lt_of_ne_nil (by rw [hc]; intro e; cases e)
    rcases he.cell _ hm with e | ⟨_, _, _, _, e, _⟩
    · exact .term (by rw [e]; exact hc)
    · rw [hc] at e; cases e
  | @anode m nm c ks ts kf hroot hc hsz hk _ ih =>
    have hm : m < h.size := lt_of_anode hc
    have hslots : ∀ i, i < ts.length → DenSlot h' (m, i) (ts.getD i .nil) := by
      intro i hi
      have hki : getKid h m i = some (kf i) := by rw [getKid_of_cell hc]; exact hk i hi
      obtain ⟨k', hk', hor⟩ := he.slot_step hki
      refine ⟨k', hk', ?_⟩
      rcases hor with rfl | hp
      · exact ih i hi
      · exact hp.den (ih i hi)
    rcases he.cell _ hm with e | ⟨nm1, c1, ks1, ks', e1, e2, e3, _⟩
    · exact DenP.of_slots hroot (e.trans hc) hsz hslots
    · rw [hc] at e1
      injection e1 with a1 a2 a3
      subst a1; subst a2; subst a3
      exact DenP.of_slots hroot e2 (e3.trans hsz) hslots
  | alt hc _ ih => exact .alt (he.chain hc) ih

theorem hmono (he : SynExt h h') : HMono h h' := by
  refine ⟨he.size, fun _ _ hd => he.den hd, ?_, ?_, ?_, ?_, ?_⟩
  · rintro π t ⟨k, hk, hd⟩
    obtain ⟨k', hk', hor⟩ := he.slot_step hk
    refine ⟨k', hk', ?_⟩
    rcases hor with rfl | hp
    · exact he.den hd
    · exact hp.den (he.den hd)
  · rintro π a ⟨k, hk, hc⟩
    obtain ⟨k', hk', hor⟩ := he.slot_step hk
    refine ⟨k', hk', ?_⟩
    rcases hc with ⟨rfl, hf⟩ | hc
    · have hf' := he.keep _ _ _ hk hf
      rcases hor with rfl | hp
      · exact Or.inl ⟨rfl, hf'⟩
      · exact Or.inr (hp.self hf')
    · rcases hor with rfl | hp
      · exact Or.inr (he.chain hc)
      · exact Or.inr (hp.chain (he.chain hc))
  · intro n i hne
    cases hk : getKid h n i with
    | none => exact absurd hk hne
    | some k =>
      obtain ⟨k', hk', _⟩ := he.slot_step hk
      rw [hk']; intro e; cases e
  · intro m nm c ks hc
    rcases he.cell m (lt_of_anode hc) with e | ⟨nm1, c1, ks1, ks', e1, e2, e3, _⟩
    · exact ⟨ks, e.trans hc, rfl⟩
    · rw [hc] at e1
      injection e1 with a1 a2 a3
      subst a1; subst a2; subst a3
      exact ⟨ks', e2, e3⟩
  · intro hs m nd m' hc
    rcases Nat.lt_or_ge m h.size with hm | hm
    · rcases he.cell m hm with e | ⟨_, _, _, _, _, e, _⟩
      · rw [e] at hc
        rcases hs m nd m' hc with hlt | ⟨rfl, nd', e'⟩
        · exact Or.inl hlt
        · exact Or.inr ⟨rfl, nd', he.old_alt e'⟩
      · rw [hc] at e; cases e
    · exact he.fresh m nd m' hm hc

end SynExt

/-! ## `push` of a cell that is not an ALT cell -/

theorem synExt_push (h : Array MNode) (cell : MNode) (hna : ∀ nd nx, cell ≠ .alt nd nx) :
    SynExt h (h.push cell) := by
  refine ⟨by simp, fun m hm => Or.inl (getD_push_lt _ _ _ _ hm), ?_, ?_⟩
  · intro m nd m' hm hc
    rcases Nat.eq_or_lt_of_le hm with e | hlt
    · subst e
      rw [getD_push_eq] at hc
      exact absurd hc (hna _ _)
    · rw [getD_ge_nil (by simp; omega)] at hc; cases hc
  · intro n i k _ hf
    rcases Nat.lt_trichotomy k h.size with hlt | e | hgt
    · rw [isAlt_congr (getD_push_lt _ _ _ _ hlt)]; exact hf
    · subst e
      exact isAlt_false_of_not_alt (fun nd nx => by rw [getD_push_eq]; exact hna nd nx)
    · exact isAlt_false_of_ge (by simp; omega)

/-- pushing a cell that is not an ALT cell -/
theorem hmono_push (h : Array MNode) (cell : MNode) (hna : ∀ nd nx, cell ≠ .alt nd nx) :
    HMono h (h.push cell) :=
  (synExt_push h cell hna).hmono

/-! ## `place_translation` -/

/-- what `place_translation` does to the heap, by cases on the old content of the slot -/
structure PlaceDesc (h h' : Array MNode) (n i node : Nat) (nm : String) (c : Nat)
    (ks : Array (Option Nat)) (m' : Nat) : Prop where
  size : h.size ≤ h'.size
  cell : h'.getD n .nil = .anode nm c (ks.set! i (some m'))
  other : ∀ k, k < h.size → k ≠ n → h'.getD k .nil = h.getD k .nil
  cases : (ks.getD i none = none ∧ m' = node ∧ h'.size = h.size) ∨
    (∃ old, ks.getD i none = some old ∧ isAlt h old = true ∧ m' = h.size ∧
      h'.size = h.size + 1 ∧ h'.getD h.size .nil = .alt node (some old)) ∨
    (∃ old, ks.getD i none = some old ∧ isAlt h old = false ∧ m' = h.size ∧
      h'.size = h.size + 2 ∧ h'.getD h.size .nil = .alt node (some (h.size + 1)) ∧
      h'.getD (h.size + 1) .nil = .alt old none)

theorem place_desc {h : Array MNode} {n i node : Nat} {nm : String} {c : Nat}
    {ks : Array (Option Nat)} (hc : h.getD n .nil = .anode nm c ks) (hn : n < h.size) :
    ∃ m', PlaceDesc h (placeTranslation h (n, i) node) n i node nm c ks m' := by
  unfold placeTranslation
  rw [getKid_of_cell hc]
  cases hk : ks.getD i none with
  | none =>
    simp only
    exact ⟨node, by rw [setKid_size]; exact Nat.le_refl _, setKid_getD_same hc hn,
      fun k _ hk' => setKid_getD_ne hk', Or.inl ⟨hk, rfl, setKid_size _ _ _ _⟩⟩
  | some old =>
    simp only
    split
    · rename_i halt
      have hcp : (h.push (.alt node (some old))).getD n .nil = .anode nm c ks := by
        rw [getD_push_lt _ _ _ _ hn]; exact hc
      have hnp : n < (h.push (MNode.alt node (some old))).size := by simp; omega
      refine ⟨h.size, by rw [setKid_size]; simp, setKid_getD_same hcp hnp, ?_, Or.inr (Or.inl
        ⟨old, hk, halt, rfl, by rw [setKid_size]; simp, ?_⟩)⟩
      · intro k hk1 hk2
        rw [setKid_getD_ne hk2, getD_push_lt _ _ _ _ hk1]
      · rw [setKid_getD_ne (by omega), getD_push_eq]
    · rename_i halt
      have hcp : ((h.push (.alt node (some (h.size + 1)))).push (.alt old none)).getD n .nil =
          .anode nm c ks := by
        rw [getD_push_lt _ _ _ _ (by simp; omega), getD_push_lt _ _ _ _ hn]; exact hc
      have hnp : n < ((h.push (MNode.alt node (some (h.size + 1)))).push (.alt old none)).size := by
        simp; omega
      refine ⟨h.size, by rw [setKid_size]; simp; omega, setKid_getD_same hcp hnp, ?_, Or.inr (Or.inr
        ⟨old, hk, by simpa using halt, rfl, by rw [setKid_size]; simp, ?_, ?_⟩)⟩
      · intro k hk1 hk2
        rw [setKid_getD_ne hk2, getD_push_lt _ _ _ _ (by simp; omega), getD_push_lt _ _ _ _ hk1]
      · rw [setKid_getD_ne (by omega), getD_push_lt _ _ _ _ (by simp), getD_push_eq]
      · rw [setKid_getD_ne (by omega)]
        have := getD_push_eq (h.push (.alt node (some (h.size + 1)))) (.alt old none) MNode.nil
        simpa using this

theorem PlaceDesc.synExt {h h' : Array MNode} {n i node : Nat} {nm : String} {c : Nat}
    {ks : Array (Option Nat)} {m' : Nat} (hp : PlaceDesc h h' n i node nm c ks m')
    (hc : h.getD n .nil = .anode nm c ks) (hn : n < h.size)
    (hkid : ∀ n' i' k, getKid h n' i' = some k → k < h.size) : SynExt h h' := by
  -- a cell of the old heap that is not an ALT cell is not an ALT cell afterwards
  have hkeep : ∀ k, k < h.size → isAlt h k = false → isAlt h' k = false := by
    intro k hk hf
    by_cases hkn : k = n
    · subst hkn; exact isAlt_false_of_anode hp.cell
    · rw [isAlt_congr (hp.other k hk hkn)]; exact hf
  refine ⟨hp.size, ?_, ?_, fun n' i' k hk hf => hkeep k (hkid n' i' k hk) hf⟩
  · intro m hm
    by_cases hmn : m = n
    · subst hmn
      right
      refine ⟨nm, c, ks, _, hc, hp.cell, by simp, ?_⟩
      intro j k hjk
      rw [getD_set!]
      by_cases hij : i = j
      · subst hij
        have hi : i < ks.size := by
          rcases Nat.lt_or_ge i ks.size with h1 | h1
          · exact h1
          · rw [getD_none_of_ge h1] at hjk; cases hjk
        rw [if_pos ⟨rfl, hi⟩]
        refine ⟨m', rfl, Or.inr ?_⟩
        have hold : k < h.size := hkid m i k (by rw [getKid_of_cell hc]; exact hjk)
        rcases hp.cases with ⟨e, _⟩ | ⟨old, e, halt, rfl, _, ecell⟩ | ⟨old, e, halt, rfl, _, e1, e2⟩
        · rw [e] at hjk; cases hjk
        · rw [e] at hjk; injection hjk with hjk; subst hjk
          have hne : old ≠ m := by
            intro e'; subst e'
            rw [isAlt_false_of_anode hc] at halt; cases halt
          exact Or.inl ⟨by rw [isAlt_congr (hp.other old hold hne)]; exact halt, node, ecell⟩
        · rw [e] at hjk; injection hjk with hjk; subst hjk
          exact Or.inr ⟨hkeep old hold halt, node, h.size + 1, e1, e2⟩
      · rw [if_neg (fun hh => hij hh.1)]
        exact ⟨k, hjk, Or.inl rfl⟩
    · exact Or.inl (hp.other m hm hmn)
  · intro m nd m2 hm hcm
    have hlt : m < h'.size := lt_of_alt hcm
    rcases hp.cases with ⟨_, _, es⟩ | ⟨old, _, halt, _, es, ecell⟩ | ⟨old, _, _, _, es, e1, e2⟩
    · omega
    · have : m = h.size := by omega
      subst this
      rw [ecell] at hcm
      injection hcm with _ a2; injection a2 with a2; subst a2
      exact Or.inl (isAlt_lt halt)
    · rcases Nat.eq_or_lt_of_le hm with e | hlt'
      · subst e
        rw [e1] at hcm
        injection hcm with _ a2; injection a2 with a2; subst a2
        exact Or.inr ⟨rfl, old, e2⟩
      · have : m = h.size + 1 := by omega
        subst this
        rw [e2] at hcm; cases hcm

/-- `place_translation` into slot `i` of the abstract-node cell `n`.  `hkid`: no slot of the heap
holds a pointer outside the heap (without it the field `inslot` of `HMono` fails, see the example
below). -/
theorem hmono_place {h : Array MNode} {n i node : Nat} {nm : String} {c : Nat}
    {ks : Array (Option Nat)} (hc : h.getD n .nil = .anode nm c ks) (hn : n < h.size)
    (hi : i < ks.size) (hnode : node < h.size)
    (hkid : ∀ n' i' k, getKid h n' i' = some k → k < h.size) :
    HMono h (placeTranslation h (n, i) node) ∧
    (∀ t, DenP h node t → DenSlot (placeTranslation h (n, i) node) (n, i) t) ∧
    (isAlt h node = false → InSlot (placeTranslation h (n, i) node) (n, i) node) ∧
    (∀ n' i', n' < h.size → (n', i') ≠ (n, i) →
      getKid (placeTranslation h (n, i) node) n' i' = getKid h n' i') ∧
    (∀ k, k < h.size → k ≠ n → (placeTranslation h (n, i) node).getD k .nil = h.getD k .nil) ∧
    (∃ ks', (placeTranslation h (n, i) node).getD n .nil = .anode nm c ks' ∧ ks'.size = ks.size ∧
      ∀ j, j ≠ i → ks'.getD j none = ks.getD j none) ∧
    (∀ k, h.size ≤ k → k < (placeTranslation h (n, i) node).size →
      ∃ a b, (placeTranslation h (n, i) node).getD k .nil = .alt a b) := by
  obtain ⟨m', hp⟩ := place_desc (i := i) (node := node) hc hn
  generalize placeTranslation h (n, i) node = h' at hp ⊢
  have hmono : HMono h h' := (hp.synExt hc hn hkid).hmono
  have hslot : getKid h' n i = some m' := by
    rw [getKid_of_cell hp.cell, getD_set!, if_pos ⟨rfl, hi⟩]
  refine ⟨hmono, ?_, ?_, ?_, hp.other, ?_, ?_⟩
  · intro t hd
    have hd' := hmono.den _ _ hd
    refine ⟨m', hslot, ?_⟩
    rcases hp.cases with ⟨_, rfl, _⟩ | ⟨old, _, _, rfl, _, ecell⟩ | ⟨old, _, _, rfl, _, e1, _⟩
    · exact hd'
    · exact .alt (.head ecell) hd'
    · exact .alt (.head e1) hd'
  · intro hf
    refine ⟨m', hslot, ?_⟩
    rcases hp.cases with ⟨_, rfl, _⟩ | ⟨old, _, _, rfl, _, ecell⟩ | ⟨old, _, _, rfl, _, e1, _⟩
    · left
      refine ⟨rfl, ?_⟩
      by_cases hkn : m' = n
      · subst hkn; exact isAlt_false_of_anode hp.cell
      · rw [isAlt_congr (hp.other m' hnode hkn)]; exact hf
    · exact Or.inr (.head ecell)
    · exact Or.inr (.head e1)
  · intro n' i' hn' hne
    by_cases hnn : n' = n
    · subst hnn
      have hii : i ≠ i' := by
        intro e; subst e; exact hne rfl
      rw [getKid_of_cell hp.cell, getKid_of_cell hc, getD_set!, if_neg (fun hh => hii hh.1)]
    · unfold getKid
      rw [hp.other n' hn' hnn]
  · refine ⟨_, hp.cell, by simp, ?_⟩
    intro j hj
    rw [getD_set!, if_neg (fun hh => hj hh.1.symm)]
  · intro k hk1 hk2
    rcases hp.cases with ⟨_, _, es⟩ | ⟨old, _, _, _, es, ecell⟩ | ⟨old, _, _, _, es, e1, e2⟩
    · omega
    · have : k = h.size := by omega
      subst this
      exact ⟨_, _, ecell⟩
    · rcases Nat.eq_or_lt_of_le hk1 with e | hlt
      · subst e; exact ⟨_, _, e1⟩
      · have : k = h.size + 1 := by omega
        subst this
        exact ⟨_, _, e2⟩

/-- `hmono_place` is false without `hkid`: slot `(0, 1)` of this heap holds the dangling pointer
`1 = h.size`; before, "the slot refers to cell `1`, which is not an ALT cell" (`InSlot`), afterwards
cell `1` is the ALT cell `place_translation` pushed, whose chain consists of cell `0` only. -/
example : let h : Array MNode := #[.anode "a" 0 #[some 0, some 1]]
    h.getD 0 .nil = .anode "a" 0 #[some 0, some 1] ∧ 0 < h.size ∧
    0 < (#[some 0, some 1] : Array (Option Nat)).size ∧
    ¬ HMono h (placeTranslation h (0, 0) 0) := by
  intro h
  have e1 : (placeTranslation h (0, 0) 0).getD 1 .nil = .alt 0 (some 2) := by rfl
  have e2 : (placeTranslation h (0, 0) 0).getD 2 .nil = .alt 0 none := by rfl
  refine ⟨rfl, by decide, by decide, fun hm => ?_⟩
  have h1 : InSlot h (0, 1) 1 := ⟨1, by rfl, Or.inl ⟨rfl, by rfl⟩⟩
  obtain ⟨k, hk, hc⟩ := hm.inslot _ _ h1
  have hk' : k = 1 := by
    have : getKid (placeTranslation h (0, 0) 0) 0 1 = some 1 := by rfl
    simp only [this] at hk; injection hk with hk; exact hk.symm
  subst hk'
  rcases hc with ⟨_, hf⟩ | hc
  · have : isAlt (placeTranslation h (0, 0) 0) 1 = true := by rfl
    rw [this] at hf; cases hf
  · cases hc with
    | head e => rw [e1] at e; cases e
    | tail e hc2 =>
      rw [e1] at e; injection e with _ e; injection e with e; subst e
      cases hc2 with
      | head e => rw [e2] at e; cases e
      | tail e _ => rw [e2] at e; cases e

/-! ## the final NULL → NIL pass -/

/-- the final NULL → NIL pass over the first `n` slots of the abstract-node cell `an` -/
theorem hmono_fillNil {h : Array MNode} {an : Nat} {nm : String} {c : Nat} {ks : Array (Option Nat)}
    (hc : h.getD an .nil = .anode nm c ks) (han : an < h.size)
    (h0 : 0 < h.size) (hnil : h.getD nilId .nil = .nil) (n : Nat) :
    HMono h (fillNil h an n) ∧
    (∀ i, i < n → i < ks.size → ks.getD i none = none → DenSlot (fillNil h an n) (an, i) .nil) ∧
    (∃ ks', (fillNil h an n).getD an .nil = .anode nm c ks' ∧ ks'.size = ks.size) := by
  obtain ⟨hsz, hother, ks', hcell, hks, hget⟩ := fillNil_spec hc han n
  generalize fillNil h an n = h' at hsz hother hcell
  have hse : SynExt h h' := by
    refine ⟨by rw [hsz]; exact Nat.le_refl _, ?_, ?_, ?_⟩
    · intro m _
      by_cases hm : m = an
      · subst hm
        right
        refine ⟨nm, c, ks, ks', hc, hcell, hks, ?_⟩
        intro i k hik
        refine ⟨k, ?_, Or.inl rfl⟩
        rw [hget i, if_neg (fun hh => by rw [hik] at hh; cases hh.2.2)]
        exact hik
      · exact Or.inl (hother m hm)
    · intro m nd m' hm hcm
      have := lt_of_alt hcm
      omega
    · intro n' i' k _ hf
      by_cases hk : k = an
      · subst hk; exact isAlt_false_of_anode hcell
      · rw [isAlt_congr (hother k hk)]; exact hf
  refine ⟨hse.hmono, ?_, ks', hcell, hks⟩
  intro i hin hik hnone
  have hne : nilId ≠ an := by
    intro e; rw [e, hc] at hnil; cases hnil
  refine ⟨nilId, ?_, .nil (by rw [hsz]; exact h0) (by rw [hother nilId hne]; exact hnil)⟩
  show getKid h' an i = some nilId
  rw [getKid_of_cell hcell, hget i, if_pos ⟨hin, hik, hnone⟩]

/-! ## the cell of `copy_anode` -/

/-- the cell `copy_anode` allocates: the slots of the original except slot `disp` -/
theorem copy_slots {h : Array MNode} {a disp : Nat} {nm : String} {c : Nat} {ks : Array (Option Nat)}
    (hc : h.getD a .nil = .anode nm c ks) :
    (h.push (copyCell h a disp)).getD h.size .nil = .anode nm c (ks.set! disp none) ∧
    (∀ j t, j ≠ disp → DenSlot h (a, j) t → DenSlot (h.push (copyCell h a disp)) (h.size, j) t) ∧
    getKid (h.push (copyCell h a disp)) h.size disp = none := by
  have hcell : copyCell h a disp = .anode nm c (ks.set! disp none) := by
    unfold copyCell; rw [hc]
  have hnew : (h.push (copyCell h a disp)).getD h.size .nil = .anode nm c (ks.set! disp none) := by
    rw [getD_push_eq, hcell]
  have hmono : HMono h (h.push (copyCell h a disp)) :=
    hmono_push h _ (fun nd nx => by rw [hcell]; intro e; cases e)
  refine ⟨hnew, ?_, ?_⟩
  · rintro j t hj ⟨k, hk, hd⟩
    refine ⟨k, ?_, hmono.den _ _ hd⟩
    show getKid (h.push (copyCell h a disp)) h.size j = some k
    rw [getKid_of_cell hnew, getD_set!, if_neg (fun hh => hj hh.1.symm)]
    rw [← getKid_of_cell hc j]; exact hk
  · rw [getKid_of_cell hnew, getD_set!]
    split
    · rfl
    · rename_i hh
      exact getD_none_of_ge (Nat.le_of_not_lt (fun hlt => hh ⟨rfl, hlt⟩))

/-! ## `altChain` lists a whole chain -/

/-- a chain that obeys `AltShape` is completely listed by `altChain` with enough fuel -/
theorem inChain_altChain {h : Array MNode} (hs : AltShape h) :
    ∀ (m a fuel : Nat), InChain h m a → m + 2 ≤ fuel → a ∈ altChain h fuel (some m) := by
  intro m
  induction m using Nat.strongRecOn with
  | _ m ih =>
    intro a fuel hc hfuel
    obtain ⟨f, rfl⟩ : ∃ f, fuel = f + 1 := ⟨fuel - 1, by omega⟩
    cases hc with
    | head e =>
      unfold altChain
      rw [e]
      exact List.mem_cons_self
    | @tail _ node m' _ e hc' =>
      unfold altChain
      rw [e]
      apply List.mem_cons_of_mem
      rcases hs m node m' e with hlt | ⟨rfl, nd', e'⟩
      · exact ih m' hlt a f hc' (by omega)
      · obtain ⟨f', rfl⟩ : ∃ f', f = f' + 1 := ⟨f - 1, by omega⟩
        unfold altChain
        rw [e']
        cases hc' with
        | head e2 =>
          rw [e'] at e2
          injection e2 with a1 _
          subst a1
          exact List.mem_cons_self
        | tail e2 _ => rw [e'] at e2; cases e2

end Yaep.CP
