import Yaep.Lemmas.MakeParseAllPop
import Yaep.Lemmas.MakeParseAllFinal
import Yaep.Lemmas.MakeParseSoundDepth
/-!
# All-parses mode: the type of the place of a state
-/
namespace Yaep.MP
open Yaep

/-- a list of derivations exists if one exists for every position -/
theorem validList_exists {g : Grammar} {toks : List Nat} : ∀ (Xs : List Sym) (sp : Nat → Nat),
    (∀ q X, Xs[q]? = some X → ∃ pt, PT.ValidAt g toks pt X (sp q) (sp (q + 1))) →
    ∃ kids, PT.ValidListAt g toks kids Xs (sp 0) (sp Xs.length)
  | [], sp, _ => ⟨[], .nil⟩
  | X :: Xs, sp, h => by
    obtain ⟨pt, hpt⟩ := h 0 X rfl
    obtain ⟨kids, hk⟩ := validList_exists Xs (fun q => sp (q + 1))
      (fun q Y hq => h (q + 1) Y (by simpa using hq))
    exact ⟨pt :: kids, .cons hpt hk⟩

/-- a state without abstract node passes the translation of its translated symbol through: every
translation of that symbol (on its span) is a translation of the rule instance of the state -/
theorem StateOK.pass_sub {g : Grammar} {ok : Nat → Nat → Nat → Bool} {toks : List Nat} {G : Ghost}
    {h : Array MNode} {sts : Array PState} {stack : List Nat} {sid : Nat} {rl : Rule}
    (hwf : g.translWF = true) (hs : StateOK g ok toks G h sts stack sid rl)
    (han : rl.anode = none) {X : Sym} {d : Nat}
    (hX : rl.rhs[(sts.getD sid default).pos]? = some X)
    (hd : rl.order.getD (sts.getD sid default).pos none = some d) :
    ∀ t, Tr g toks X (G.ssp sid (sts.getD sid default).pos) (G.ssp sid ((sts.getD sid default).pos + 1)) t →
      Tr g toks (.n rl.lhs) (sts.getD sid default).orig (G.sfin sid) t := by
  intro t ⟨pt, hpt, htr⟩
  have hok := Grammar.translWF_rule hwf hs.hr
  have hd' := order_getD_eq_some.mp hd
  have hplt : (sts.getD sid default).pos < rl.rhs.length := (List.getElem?_eq_some_iff.mp hX).1
  -- the part before the dot
  have hpre : ∃ pre, PT.ValidListAt g toks pre (rl.rhs.take (sts.getD sid default).pos)
      (sts.getD sid default).orig (G.ssp sid (sts.getD sid default).pos) := by
    by_cases hp : (sts.getD sid default).pos = 0
    · rw [hp, hs.pos0 hp]; exact ⟨[], .nil⟩
    · obtain ⟨hE, hsp⟩ := hs.item hp
      rw [hsp]
      exact EarleyF.prefix_valid hs.hr hE
  obtain ⟨pre, hpre⟩ := hpre
  -- the part after the symbol: nothing is translated there
  have hsuf : ∃ suf, PT.ValidListAt g toks suf (rl.rhs.drop ((sts.getD sid default).pos + 1))
      (G.ssp sid ((sts.getD sid default).pos + 1)) (G.sfin sid) := by
    obtain ⟨suf, hv⟩ := validList_exists (g := g) (toks := toks)
      (rl.rhs.drop ((sts.getD sid default).pos + 1))
      (fun q => G.ssp sid ((sts.getD sid default).pos + 1 + q)) (by
        intro q Y hY
        rw [List.getElem?_drop] at hY
        have ho : rl.order.getD ((sts.getD sid default).pos + 1 + q) none = none := by
          cases hh : rl.order.getD ((sts.getD sid default).pos + 1 + q) none with
          | none => rfl
          | some d2 =>
            have := hok.single han _ _ _ _ (order_getD_eq_some.mp hh) hd'
            omega
        exact hs.untr _ Y (by omega) hY ho)
    refine ⟨suf, ?_⟩
    simp only [Nat.add_zero, List.length_drop] at hv
    have e : (sts.getD sid default).pos + 1 + (rl.rhs.length - ((sts.getD sid default).pos + 1)) =
        rl.rhs.length := by omega
    rw [e, hs.spFin] at hv
    exact hv
  obtain ⟨suf, hsuf⟩ := hsuf
  have hrhs : rl.rhs = rl.rhs.take (sts.getD sid default).pos ++
      (X :: rl.rhs.drop ((sts.getD sid default).pos + 1)) := by
    rw [← drop_of_getElem? hX, List.take_append_drop]
  have hkids : PT.ValidListAt g toks (pre ++ pt :: suf) rl.rhs (sts.getD sid default).orig (G.sfin sid) := by
    rw [hrhs]
    exact ValidListAt_append hpre (.cons hpt hsuf)
  refine ⟨.node (sts.getD sid default).rule (pre ++ pt :: suf), .node hs.hr rfl hkids, ?_⟩
  have hprelen : pre.length = (sts.getD sid default).pos := by
    rw [hpre.length_eq, List.length_take]; omega
  have hkp : (pre ++ pt :: suf)[(sts.getD sid default).pos]? = some pt := by
    rw [List.getElem?_append_right (by omega), hprelen, Nat.sub_self]; rfl
  rw [(translate_passthrough hwf hs.hr han _).1 _ d pt hd' hkp]
  exact htr

/-- the place of a state for the translated position `pos`, and its type -/
theorem StateOK.slot {g : Grammar} {ok : Nat → Nat → Nat → Bool} {toks : List Nat} {G : Ghost}
    {h : Array MNode} {sts : Array PState} {stack : List Nat} {sid : Nat} {rl : Rule}
    (hwf : g.translWF = true) (hs : StateOK g ok toks G h sts stack sid rl) (hmem : sid ∈ stack)
    (hroot : (sts.getD 0 default).anode = some rootId)
    {X : Sym} {d : Nat} (hX : rl.rhs[(sts.getD sid default).pos]? = some X)
    (hd : rl.order.getD (sts.getD sid default).pos none = some d) :
    ∃ T, SlotOf g toks G sts stack (placeOfSt sts (sts.getD sid default) d).1
        (placeOfSt sts (sts.getD sid default) d).2 T ∧
      ∀ t, Tr g toks X (G.ssp sid (sts.getD sid default).pos)
        (G.ssp sid ((sts.getD sid default).pos + 1)) t → T t := by
  have hc := hs.cell
  cases han : (sts.getD sid default).anode with
  | some a =>
    rw [han] at hc
    have hpl : placeOfSt sts (sts.getD sid default) d = (a, d) := by unfold placeOfSt; rw [han]
    rw [hpl]
    exact ⟨_, Or.inr ⟨sid, hmem, han, rl, _, X, hs.hr, Nat.le_refl _, hd, hX, rfl⟩, fun _ h => h⟩
  | none =>
    rw [han] at hc
    obtain ⟨pa, hpa⟩ := hs.pa
    have hpl : placeOfSt sts (sts.getD sid default) d = (pa, (sts.getD sid default).parentDisp) := by
      unfold placeOfSt; rw [han, hpa]; rfl
    rw [hpl]
    have hsub := hs.pass_sub hwf hc hX hd
    rcases hs.tgt with ⟨t1, t2, t3⟩ | ⟨t1, rlP, qP, Y, aP, t2, t3, t4, t5, t6, t7⟩
    · refine ⟨_, Or.inl ⟨?_, t2, rfl⟩, fun t ht => t3 t (hsub t ht)⟩
      rw [t1, hroot] at hpa; injection hpa with hpa; exact hpa.symm
    · rw [hpa] at t3; injection t3 with t3; subst t3
      exact ⟨_, Or.inr ⟨_, t1, hpa, rlP, qP, Y, t2, t5, t4, t6, rfl⟩, fun t ht => t7 t (hsub t ht)⟩

end Yaep.MP
