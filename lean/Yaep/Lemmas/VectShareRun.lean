import Yaep.Lemmas.VectShare
/-! # `core_symb_vect_new`, `vect_new_add_el`, `core_symb_vect_find` keep the invariant -/
namespace Yaep.VS

theorem Inv.congr {s s' : State} {c : Content} (hI : Inv s c) (h1 : s'.triples = s.triples) (h2 : s'.vlos = s.vlos)
    (h3 : s'.vloLen = s.vloLen) (h4 : s'.heap = s.heap) (h5 : ∀ w, s'.tab w = s.tab w)
    (h6 : ∀ w, s'.nVects w = s.nVects w) (h7 : ∀ w, s'.nVectsLen w = s.nVectsLen w)
    (h8 : s'.newTriples = s.newTriples) : Inv s' c := by
  refine ⟨⟨?_, ?_, by rw [h2, h3]; exact hI.vloLen_le, ?_, ?_, ?_, by rw [h1]; exact hI.fresh⟩, by rw [h8]; exact hI.newNodup, ?_, ?_⟩
  · intro ti T w hT
    rw [h1] at hT
    have V := hI.vec ti T w hT
    exact ⟨V.len, by rw [h2, h3]; exact V.forming, V.fin0, by rw [h4, h5, h1]; exact V.fin⟩
  · rw [h1]; exact hI.inj
  · intro w; rw [h5, h1]; exact hI.tabOk w
  · intro w; rw [h5]; exact hI.tabDistinct w
  · intro w; rw [h5, h6, h7]; exact hI.cnt w
  · rw [h8, h1]; exact hI.newForming
  · rw [h8, h1]; exact hI.formingNew

theorem find_inv {s s' : State} {c : Content} {core symb : Nat} {r : Option Nat} (hI : Inv s c)
    (h : find s core symb = .ok (s', r)) : Inv s' c := by
  unfold find at h
  simp only at h
  split at h
  · cases h
  · cases h
    exact hI.congr rfl rfl rfl rfl (fun w => by cases w <;> rfl) (fun w => by cases w <;> rfl)
      (fun w => by cases w <;> rfl) rfl

/-- `vlo_array_expand` on the list of vlos -/
def exV (V : List (List Int)) (n : Nat) : List (List Int) := if n ≥ V.length then V ++ [[]] else V.set n []

theorem exV_spec {V : List (List Int)} {n : Nat} (h : n ≤ V.length) :
    (exV V n)[n]? = some [] ∧ n + 1 ≤ (exV V n).length ∧ ∀ k, k < n → (exV V n)[k]? = V[k]? := by
  unfold exV
  split
  · have : n = V.length := by omega
    subst this
    refine ⟨by rw [List.getElem?_append_right (Nat.le_refl _)]; simp, by simp, ?_⟩
    intro k hk; rw [List.getElem?_append_left hk]
  · have hn : n < V.length := by omega
    refine ⟨by rw [List.getElem?_set_self hn], by rw [List.length_set]; omega, ?_⟩
    intro k hk; rw [List.getElem?_set_ne (by omega)]

def newTriple (core symb n : Nat) : Triple :=
  { core := core, symb := symb, tr := { intern := some n, len := 0, els := .scratch n },
    re := { intern := some (n + 1), len := 0, els := .scratch (n + 1) } }

theorem new_shape {s s' : State} {core symb ti : Nat} (h : new s core symb = .ok (s', ti)) :
    ti = s.triples.length ∧ s'.triples = s.triples ++ [newTriple core symb s.vloLen] ∧
    s'.vlos = exV (exV s.vlos s.vloLen) (s.vloLen + 1) ∧ s'.vloLen = s.vloLen + 2 ∧ s'.heap = s.heap ∧
    (∀ w, s'.tab w = s.tab w) ∧ (∀ w, s'.nVects w = s.nVects w) ∧ (∀ w, s'.nVectsLen w = s.nVectsLen w) ∧
    s'.newTriples = s.newTriples ++ [s.triples.length] := by
  unfold new at h
  simp only at h
  split at h
  · cases h
  · cases h
  · simp only [vloExpand] at h
    cases h
    exact ⟨rfl, rfl, rfl, rfl, rfl, fun w => by cases w <;> rfl, fun w => by cases w <;> rfl,
      fun w => by cases w <;> rfl, rfl⟩

theorem append_single_inv {l : List Triple} {X T' : Triple} {tj : Nat} (h : (l ++ [X])[tj]? = some T') :
    (tj < l.length ∧ l[tj]? = some T') ∨ (tj = l.length ∧ T' = X) := by
  by_cases hlt : tj < l.length
  · rw [List.getElem?_append_left hlt] at h; exact .inl ⟨hlt, h⟩
  · rw [List.getElem?_append_right (by omega)] at h
    have : tj - l.length = 0 := by
      cases hh : tj - l.length with
      | zero => rfl
      | succ m => rw [hh] at h; simp at h
    rw [this] at h
    simp at h
    exact .inr ⟨by omega, h.symm⟩

theorem append_fwd {l : List Triple} {X E : Triple} {e : Nat} (h : l[e]? = some E) : (l ++ [X])[e]? = some E := by
  rw [List.getElem?_append_left (List.getElem?_eq_some_iff.mp h).1]; exact h

theorem new_inv {s s' : State} {c : Content} {core symb ti : Nat} (hI : Inv s c)
    (h : new s core symb = .ok (s', ti)) : Inv s' c := by
  obtain ⟨_, h1, h2, h3, h4, h5, h6, h7, h8⟩ := new_shape h
  have e1 := exV_spec (V := s.vlos) (n := s.vloLen) hI.vloLen_le
  have e2 := exV_spec (V := exV s.vlos s.vloLen) (n := s.vloLen + 1) e1.2.1
  have vn : s'.vlos[s.vloLen]? = some [] := by rw [h2, e2.2.2 _ (by omega)]; exact e1.1
  have vn1 : s'.vlos[s.vloLen + 1]? = some [] := by rw [h2]; exact e2.1
  have vold : ∀ k, k < s.vloLen → s'.vlos[k]? = s.vlos[k]? := by
    intro k hk; rw [h2, e2.2.2 _ (by omega), e1.2.2 _ hk]
  have fr : ∀ w, c s.triples.length w = [] := fun w => hI.fresh _ w (Nat.le_refl _)
  have newForm : ∀ w, ∃ k, ((newTriple core symb s.vloLen).get w).intern = some k ∧ s.vloLen ≤ k ∧ k < s.vloLen + 2 ∧
      ((newTriple core symb s.vloLen).get w).els = .scratch k ∧ ((newTriple core symb s.vloLen).get w).len = 0 ∧
      s'.vlos[k]? = some [] ∧ (k = s.vloLen ↔ w = .tr) := by
    intro w; cases w
    · exact ⟨s.vloLen, rfl, Nat.le_refl _, by omega, rfl, rfl, vn, by simp⟩
    · exact ⟨s.vloLen + 1, rfl, by omega, by omega, rfl, rfl, vn1, by simp⟩
  have oldForm : ∀ (tj : Nat) (T : Triple) (w : Which) (k : Nat), s.triples[tj]? = some T → (T.get w).intern = some k → k < s.vloLen :=
    fun tj T w k hT hk => ((hI.vec tj T w hT).forming k hk).1
  refine ⟨⟨?_, ?_, by rw [h2, h3]; exact e2.2.1, ?_, ?_, ?_, ?_⟩, ?_, ?_, ?_⟩
  · intro tj T' w hT'
    rw [h1] at hT'
    rcases append_single_inv hT' with ⟨_, hT0⟩ | ⟨e, rfl⟩
    · have V := hI.vec tj T' w hT0
      refine ⟨V.len, ?_, V.fin0, ?_⟩
      · intro k hk
        obtain ⟨a, b, d⟩ := V.forming k hk
        exact ⟨by omega, b, by rw [vold k a]; exact d⟩
      · intro a b
        obtain ⟨j, e, E, a1, a2, a3, a4, a5, a6⟩ := V.fin a b
        exact ⟨j, e, E, a1, by rw [h4]; exact a2, by rw [h5]; exact a3, by rw [h1]; exact append_fwd a4, a5, a6⟩
    · subst e
      obtain ⟨k, a1, a2, a3, a4, a5, a6, _⟩ := newForm w
      refine ⟨by rw [a5, fr]; rfl, ?_, ?_, ?_⟩
      · intro k' hk'; rw [a1] at hk'; cases hk'
        exact ⟨by omega, a4, by rw [fr]; exact a6⟩
      · intro hn; rw [a1] at hn; cases hn
      · intro hn; rw [a1] at hn; cases hn
  · intro ta tb Ta Tb wa wb k ha hb ka kb
    rw [h1] at ha hb
    rcases append_single_inv ha with ⟨_, ha0⟩ | ⟨ea, rfl⟩ <;> rcases append_single_inv hb with ⟨_, hb0⟩ | ⟨eb, rfl⟩
    · exact hI.inj ta tb Ta Tb wa wb k ha0 hb0 ka kb
    · have := oldForm ta Ta wa k ha0 ka
      obtain ⟨k', a1, a2, _⟩ := newForm wb
      rw [a1] at kb; cases kb; omega
    · have := oldForm tb Tb wb k hb0 kb
      obtain ⟨k', a1, a2, _⟩ := newForm wa
      rw [a1] at ka; cases ka; omega
    · refine ⟨by omega, ?_⟩
      cases wa <;> cases wb <;> first | rfl | (simp [newTriple, Triple.get] at ka kb; omega)
  · intro w e he
    rw [h5] at he
    obtain ⟨E, a1, a2, a3⟩ := hI.tabOk w e he
    exact ⟨E, by rw [h1]; exact append_fwd a1, a2, a3⟩
  · intro w; rw [h5]; exact hI.tabDistinct w
  · intro w; rw [h5, h6, h7]; exact hI.cnt w
  · intro tj w hle
    rw [h1] at hle; simp at hle
    exact hI.fresh tj w (by omega)
  · rw [h8]
    refine List.nodup_append.mpr ⟨hI.newNodup, by simp, ?_⟩
    intro a ha b hb
    simp only [List.mem_singleton] at hb; subst hb
    intro e; subst e
    obtain ⟨T, _, _, hT, _⟩ := hI.newForming _ ha
    have := (List.getElem?_eq_some_iff.mp hT).1
    omega
  · intro tj htj
    rw [h8] at htj
    rcases List.mem_append.mp htj with hm | hm
    · obtain ⟨T, k1, k2, a1, a2, a3⟩ := hI.newForming tj hm
      exact ⟨T, k1, k2, by rw [h1]; exact append_fwd a1, a2, a3⟩
    · simp only [List.mem_singleton] at hm; subst hm
      exact ⟨newTriple core symb s.vloLen, s.vloLen, s.vloLen + 1, by rw [h1]; simp, rfl, rfl⟩
  · intro tj T w k hT hk
    rw [h1] at hT; rw [h8]
    rcases append_single_inv hT with ⟨_, hT0⟩ | ⟨e, _⟩
    · exact List.mem_append_left _ (hI.formingNew tj T w k hT0 hk)
    · exact List.mem_append_right _ (by simp [e])

theorem addEl_shape {s s' : State} {ti : Nat} {w : Which} {el : Int} (h : addEl s ti w el = .ok s') :
    ∃ T k a, s.triples[ti]? = some T ∧ (T.get w).intern = some k ∧ k < s.vloLen ∧ s.vlos[k]? = some a ∧
      s'.triples = s.triples.set ti (T.set w { intern := some k, len := (T.get w).len + 1, els := .scratch k }) ∧
      s'.vlos = s.vlos.set k (a ++ [el]) ∧ s'.vloLen = s.vloLen ∧ s'.heap = s.heap ∧
      (∀ w, s'.tab w = s.tab w) ∧ (∀ w, s'.nVects w = s.nVects w) ∧ (∀ w, s'.nVectsLen w = s.nVectsLen w) ∧
      s'.newTriples = s.newTriples := by
  unfold addEl at h
  split at h
  · cases h
  · rename_i T hT
    simp only at h
    split at h
    · cases h
    · rename_i k hk
      split at h
      · rename_i hlt
        split at h
        · cases h
        · rename_i a ha
          cases h
          exact ⟨T, k, a, hT, hk, hlt, ha, rfl, rfl, rfl, rfl, fun w => by cases w <;> rfl,
            fun w => by cases w <;> rfl, fun w => by cases w <;> rfl, rfl⟩
      · cases h

theorem addEl_inv {s s' : State} {c c' : Content} {ti : Nat} {w : Which} {el : Int} (hI : Inv s c)
    (h : addEl s ti w el = .ok s')
    (hc' : ∀ tj w', c' tj w' = if tj = ti ∧ w' = w then c tj w' ++ [el] else c tj w') : Inv s' c' := by
  obtain ⟨T, k, a, hT, hk, hlt, ha, h1, h2, h3, h4, h5, h6, h7, h8⟩ := addEl_shape h
  have V := hI.vec ti T w hT
  have ha' : a = c ti w := by
    have := (V.forming k hk).2.2; rw [ha] at this; exact Option.some.inj this
  subst ha'
  have hklen : k < s.vlos.length := (List.getElem?_eq_some_iff.mp ha).1
  have cold : ∀ tj w', ¬(tj = ti ∧ w' = w) → c' tj w' = c tj w' := by
    intro tj w' hn; rw [hc']; simp [hn]
  have cnew : c' ti w = c ti w ++ [el] := by rw [hc']; simp
  have tabfin : ∀ w' e, e ∈ s.tab w' → ¬(e = ti ∧ w' = w) := by
    rintro w' e he ⟨rfl, rfl⟩
    obtain ⟨E, a1, a2, _⟩ := hI.tabOk _ _ he
    rw [hT] at a1; cases a1; rw [hk] at a2; cases a2
  have old : ∀ (tj : Nat) (T' : Triple) (w' : Which), s'.triples[tj]? = some T' →
      (tj = ti ∧ w' = w ∧ T'.get w' = { intern := some k, len := (T.get w).len + 1, els := .scratch k }) ∨
      (¬(tj = ti ∧ w' = w) ∧ ∃ T0, s.triples[tj]? = some T0 ∧ T0.get w' = T'.get w') := by
    intro tj T' w' h
    rw [h1] at h
    rcases get_set_inv h with ⟨e1, e2⟩ | ⟨e1, e2⟩
    · subst e1 e2
      by_cases e3 : w' = w
      · left; subst e3; simp
      · right; exact ⟨fun x => e3 x.2, T, hT, by simp [e3]⟩
    · right; exact ⟨fun x => e1 x.1, T', e2, rfl⟩
  have keep : ∀ (w' : Which) (e : Nat) (E : Triple), e ∈ s.tab w' → s.triples[e]? = some E →
      ∃ E', s'.triples[e]? = some E' ∧ E'.get w' = E.get w' := by
    intro w' e E he hE
    refine ⟨_, by rw [h1]; exact get_set_fwd hE, ?_⟩
    by_cases e1 : e = ti
    · subst e1
      rw [hT] at hE; cases hE
      have : w' ≠ w := fun x => tabfin w' e he ⟨rfl, x⟩
      simp [this]
    · simp [e1]
  have vk : s'.vlos[k]? = some (c' ti w) := by rw [h2, List.getElem?_set_self hklen, cnew]
  have vother : ∀ k', k' ≠ k → s'.vlos[k']? = s.vlos[k']? := by
    intro k' hne; rw [h2, List.getElem?_set_ne (fun x => hne x.symm)]
  refine ⟨⟨?_, ?_, by rw [h2, h3, List.length_set]; exact hI.vloLen_le, ?_, ?_, ?_, ?_⟩, by rw [h8]; exact hI.newNodup, ?_, ?_⟩
  · intro tj T' w' hT'
    rcases old tj T' w' hT' with ⟨e1, e2, e3⟩ | ⟨hn, T0, h0, e0⟩
    · subst e1 e2; rw [e3]
      refine ⟨by simp [cnew, V.len], ?_, ?_, ?_⟩
      · intro k' hk'; cases hk'
        exact ⟨by rw [h3]; exact hlt, rfl, vk⟩
      · intro hn; cases hn
      · intro hn; cases hn
    · rw [← e0]
      have V0 := hI.vec tj T0 w' h0
      refine ⟨by rw [cold tj w' hn]; exact V0.len, ?_, V0.fin0, ?_⟩
      · intro k' hk'
        obtain ⟨a1, a2, a3⟩ := V0.forming k' hk'
        have : k' ≠ k := by
          rintro rfl
          have := hI.inj tj ti T0 T w' w k' h0 hT hk' hk
          exact hn this
        exact ⟨by rw [h3]; exact a1, a2, by rw [vother k' this, cold tj w' hn]; exact a3⟩
      · intro b1 b2
        obtain ⟨j, e, E, a1, a2, a3, a4, a5, a6⟩ := V0.fin b1 b2
        obtain ⟨E', d1, d2⟩ := keep w' e E a3 a4
        exact ⟨j, e, E', a1, by rw [h4, cold tj w' hn]; exact a2, by rw [h5]; exact a3, d1, by rw [d2]; exact a5,
          by rw [cold e w' (tabfin w' e a3), cold tj w' hn]; exact a6⟩
  · intro ta tb Ta Tb wa wb k' ha hb ka kb
    rcases old ta Ta wa ha with ⟨e1, e2, e3⟩ | ⟨hna, Ta0, ha0, ea0⟩ <;>
      rcases old tb Tb wb hb with ⟨f1, f2, f3⟩ | ⟨hnb, Tb0, hb0, eb0⟩
    · exact ⟨by rw [e1, f1], by rw [e2, f2]⟩
    · rw [e3] at ka; cases ka
      rw [← eb0] at kb
      have := hI.inj tb ti Tb0 T wb w k hb0 hT kb hk
      exact absurd this hnb
    · rw [f3] at kb; cases kb
      rw [← ea0] at ka
      have := hI.inj ta ti Ta0 T wa w k ha0 hT ka hk
      exact absurd this hna
    · exact hI.inj ta tb Ta0 Tb0 wa wb k' ha0 hb0 (by rw [ea0]; exact ka) (by rw [eb0]; exact kb)
  · intro w' e he
    rw [h5] at he
    obtain ⟨E, a1, a2, a3⟩ := hI.tabOk w' e he
    obtain ⟨E', d1, d2⟩ := keep w' e E he a1
    exact ⟨E', d1, by rw [d2]; exact a2, by rw [d2]; exact a3⟩
  · intro w'
    rw [h5]
    refine List.Pairwise.imp_of_mem ?_ (hI.tabDistinct w')
    intro x y hx hy hxy
    rw [cold x w' (tabfin w' x hx), cold y w' (tabfin w' y hy)]; exact hxy
  · intro w'
    rw [h5, h6, h7]
    have : (s.tab w').map (fun e => (c' e w').length) = (s.tab w').map (fun e => (c e w').length) :=
      List.map_congr_left (fun e he => by rw [cold e w' (tabfin w' e he)])
    rw [this]; exact hI.cnt w'
  · intro tj w' hle
    rw [h1, List.length_set] at hle
    have : ti < s.triples.length := (List.getElem?_eq_some_iff.mp hT).1
    rw [cold tj w' (fun x => by omega)]
    exact hI.fresh tj w' hle
  · intro tj htj
    rw [h8] at htj
    obtain ⟨T0, k1, k2, a1, a2, a3⟩ := hI.newForming tj htj
    have hs := get_set_fwd (ti := ti) (X := T.set w { intern := some k, len := (T.get w).len + 1, els := .scratch k }) a1
    rw [← h1] at hs
    by_cases e : tj = ti
    · subst e
      rw [hT] at a1; cases a1
      simp only [↓reduceIte] at hs
      cases w
      · exact ⟨_, k, k2, hs, by simp, by simpa using a3⟩
      · exact ⟨_, k1, k, hs, by simpa using a2, by simp⟩
    · simp only [e, ↓reduceIte] at hs
      exact ⟨T0, k1, k2, hs, a2, a3⟩
  · intro tj T' w' k' hT' hk'
    rw [h8]
    rcases old tj T' w' hT' with ⟨e1, _, _⟩ | ⟨_, T0, h0, e0⟩
    · subst e1; exact hI.formingNew tj T w k hT hk
    · exact hI.formingNew tj T0 w' k' h0 (by rw [e0]; exact hk')

theorem added_append_other (ops : List Op) (op : Op) (h1 : ∀ t el, op ≠ .addT t el) (h2 : ∀ t el, op ≠ .addR t el) :
    added (ops ++ [op]) = added ops := by
  funext t w
  cases op with
  | addT t' el => exact absurd rfl (h1 t' el)
  | addR t' el => exact absurd rfl (h2 t' el)
  | _ => simp [added, List.filterMap_append]

theorem step_inv {s s' : State} {ops : List Op} {op : Op} (hI : Inv s (added ops)) (h : step s op = .ok s') :
    Inv s' (added (ops ++ [op])) := by
  cases op with
  | new c y =>
    rw [added_append_other _ _ (by intro _ _ h; cases h) (by intro _ _ h; cases h)]
    simp only [step] at h
    split at h
    · cases h
    · rename_i r hr
      cases h
      exact new_inv (ti := r.2) hI hr
  | find c y =>
    rw [added_append_other _ _ (by intro _ _ h; cases h) (by intro _ _ h; cases h)]
    simp only [step] at h
    split at h
    · cases h
    · rename_i r hr
      cases h
      exact find_inv (r := r.2) hI hr
  | allStop =>
    rw [added_append_other _ _ (by intro _ _ h; cases h) (by intro _ _ h; cases h)]
    obtain ⟨s'', p, I, _⟩ := allStop_inv hI
    simp only [step] at h
    rw [p] at h; cases h
    exact I
  | addT t el =>
    refine addEl_inv hI h ?_
    intro tj w'
    cases w' <;> simp [added, List.filterMap_append] <;> split <;> simp_all <;> omega
  | addR t el =>
    refine addEl_inv hI h ?_
    intro tj w'
    cases w' <;> simp [added, List.filterMap_append] <;> split <;> simp_all <;> omega

theorem run_inv : ∀ (ops pre : List Op) (s s' : State), Inv s (added pre) → run s ops = .ok s' →
    Inv s' (added (pre ++ ops)) := by
  intro ops
  induction ops with
  | nil => intro pre s s' hI h; cases h; simpa using hI
  | cons op rest ih =>
    intro pre s s' hI h
    unfold run at h
    split at h
    · cases h
    · rename_i s1 h1
      have := ih (pre ++ [op]) s1 s' (step_inv hI h1) h
      simpa using this

end Yaep.VS
