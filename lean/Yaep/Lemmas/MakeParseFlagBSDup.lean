import Yaep.Lemmas.MakeParseFlagBSMult
/-!
# The ambiguity flag, part 10: when a set core holds an item twice

Every situation of an expanded core is a start situation, or is derived from a start situation
(its *root*) by moving the dot over nullable symbols, or is an initial situation.  Two different
indices that hold the same item (same situation, same origin) have two *different* roots
`(r, dA)`, `(r, dB)` with the same distance: two start situations of the same rule with the same
origin, the symbols between the smaller dot and the dot of the item being nullable
(`dup_witness`).  In the start set no item occurs twice (`set0_nodup`).
-/
namespace Yaep.BS
open Yaep

section Root
variable {g : Grammar} {an : Analysis} {num : Nat} {ns : NewStart} {c : Core}

/-- the root of a situation of an expanded core -/
theorem tag_root (hsp : ExpandSpec g an num (ns.map (·.1)) c) {i : Nat} {sit : Sit}
    (hs : c.sits[i]? = some sit) :
    (c.tagOf i = none ∧ c.nAllDists ≤ i) ∨
    ∃ p d' dist, c.tagOf i = some p ∧ ns[p]? = some ((sit.1, d'), dist) ∧
      (ns.map (·.2)).getD p 0 = dist ∧
      ((i < c.nStart ∧ p = i ∧ d' = sit.2) ∨
       (c.nStart ≤ i ∧ i < c.nAllDists ∧ c.parents[i - c.nStart]? = some p ∧ d' < sit.2 ∧
         ∃ rl, g.rules[sit.1]? = some rl ∧ sit.2 - d' - 1 < nullRun an.nl (rl.rhs.drop d'))) := by
  by_cases h1 : i < c.nStart
  · right
    obtain ⟨nd, hn, hdn⟩ := map_fst_get (hsp.start_get h1 hs)
    exact ⟨i, sit.2, nd, tagOf_lt_nStart h1, hn, hdn, Or.inl ⟨h1, rfl, rfl⟩⟩
  · by_cases h2 : i < c.nAllDists
    · right
      obtain ⟨p, hp⟩ := parents_get hsp.shape (Nat.le_of_not_lt h1) h2
      have hmem : (sit, p) ∈ c.derived :=
        mem_derived_iff.mpr ⟨i, Nat.le_of_not_lt h1, h2, hs, hp⟩
      obtain ⟨r, d, rl, k, hss, hrl, hk, hx⟩ := (hsp.derived _).mp hmem
      simp only at hss hx
      obtain ⟨nd, hn, hdn⟩ := map_fst_get hss
      have e1 : sit.1 = r := by rw [hx]
      have e2 : sit.2 = d + k + 1 := by rw [hx]
      refine ⟨p, d, nd, tagOf_mid (Nat.le_of_not_lt h1) h2 hp, by rw [e1]; exact hn, hdn,
        Or.inr ⟨Nat.le_of_not_lt h1, h2, hp, by omega, rl, by rw [e1]; exact hrl, ?_⟩⟩
      rw [e2, show d + k + 1 - d - 1 = k by omega]
      exact hk
    · left
      exact ⟨tagOf_ge_nAll hsp.shape (Nat.le_of_not_lt h2), Nat.le_of_not_lt h2⟩

theorem derived_get {c : Core} {i p : Nat} {sit : Sit} (h1 : c.nStart ≤ i) (h2 : i < c.nAllDists)
    (hs : c.sits[i]? = some sit) (hp : c.parents[i - c.nStart]? = some p) :
    c.derived[i - c.nStart]? = some (sit, p) := by
  unfold Core.derived
  rw [List.getElem?_zip_eq_some, List.getElem?_drop, List.getElem?_take]
  rw [show c.nStart + (i - c.nStart) = i by omega, if_pos h2]
  exact ⟨hs, hp⟩

theorem nodup_getElem?_inj {α : Type} {l : List α} (h : l.Nodup) {a b : Nat} {x : α}
    (ha : l[a]? = some x) (hb : l[b]? = some x) : a = b := by
  obtain ⟨la, ea⟩ := List.getElem?_eq_some_iff.mp ha
  obtain ⟨lb, eb⟩ := List.getElem?_eq_some_iff.mp hb
  exact (List.getElem_inj h).mp (ea.trans eb.symm)

/-- two indices with the same situation and the same root are equal -/
theorem same_root (hdn : c.derived.Nodup)
    {i1 i2 p d' : Nat} {sit : Sit}
    (hs1 : c.sits[i1]? = some sit) (hs2 : c.sits[i2]? = some sit)
    (k1 : (i1 < c.nStart ∧ p = i1 ∧ d' = sit.2) ∨
       (c.nStart ≤ i1 ∧ i1 < c.nAllDists ∧ c.parents[i1 - c.nStart]? = some p ∧ d' < sit.2 ∧
         ∃ rl, g.rules[sit.1]? = some rl ∧ sit.2 - d' - 1 < nullRun an.nl (rl.rhs.drop d')))
    (k2 : (i2 < c.nStart ∧ p = i2 ∧ d' = sit.2) ∨
       (c.nStart ≤ i2 ∧ i2 < c.nAllDists ∧ c.parents[i2 - c.nStart]? = some p ∧ d' < sit.2 ∧
         ∃ rl, g.rules[sit.1]? = some rl ∧ sit.2 - d' - 1 < nullRun an.nl (rl.rhs.drop d'))) :
    i1 = i2 := by
  rcases k1 with ⟨_, a2, a3⟩ | ⟨a1, a2, a3, a4, _⟩
  · rcases k2 with ⟨_, b2, _⟩ | ⟨_, _, _, b4, _⟩
    · omega
    · omega
  · rcases k2 with ⟨_, _, b3⟩ | ⟨b1, b2, b3, _, _⟩
    · omega
    · have e1 := derived_get a1 a2 hs1 a3
      have e2 := derived_get b1 b2 hs2 b3
      have := nodup_getElem?_inj hdn e1 e2
      omega

end Root

/-- **an item held twice**: at a list position `j ≥ 1` (all distances between 1 and `j`), two
different indices with the same item have two different roots with the same distance -/
theorem dup_witness {g : Grammar} {an : Analysis} {num j : Nat} {ns : NewStart} {cs : CSet}
    (hcore : cs.core = expandNewStartSet g an (Core.fresh num (ns.map (·.1))))
    (hd : cs.dists = ns.map (·.2)) (hnd : ns.Nodup)
    (hdist : ∀ p ∈ ns, 1 ≤ p.2 ∧ p.2 ≤ j)
    {i1 i2 : Nat} {sit1 sit2 : Sit} (h12 : i1 ≠ i2)
    (hs1 : cs.core.sits[i1]? = some sit1) (hs2 : cs.core.sits[i2]? = some sit2)
    (heq : (⟨sit1.1, sit1.2, j - dtag cs.dists (cs.core.tagOf i1)⟩ : Item) =
      ⟨sit2.1, sit2.2, j - dtag cs.dists (cs.core.tagOf i2)⟩) :
    ∃ dA dB dist rl, ((sit1.1, dA), dist) ∈ ns ∧ ((sit1.1, dB), dist) ∈ ns ∧ dA < dB ∧
      dB ≤ sit1.2 ∧ g.rules[sit1.1]? = some rl ∧ sit1.2 - dA ≤ nullRun an.nl (rl.rhs.drop dA) ∧
      j - dtag cs.dists (cs.core.tagOf i1) = j - dist := by
  have hsp : ExpandSpec g an num (ns.map (·.1)) cs.core := hcore ▸ expandNewStartSet_spec g an num _
  have hdn : cs.core.derived.Nodup := hcore ▸ expandNewStartSet_derived_nodup g an num _
  simp only [Item.mk.injEq] at heq
  obtain ⟨e1, e2, e3⟩ := heq
  have hsit : sit2 = sit1 := by
    obtain ⟨a, b⟩ := sit1; obtain ⟨a', b'⟩ := sit2
    simp only at e1 e2; rw [e1, e2]
  subst hsit
  rcases tag_root hsp hs1 with ⟨t1, n1⟩ | ⟨p1, d1, dist1, t1, r1, g1, k1⟩
  · rcases tag_root hsp hs2 with ⟨t2, n2⟩ | ⟨p2, d2, dist2, t2, r2, g2, k2⟩
    · -- two initial situations
      exfalso
      have m1 : cs.core.initPart[i1 - cs.core.nAllDists]? = some sit2 := by
        unfold Core.initPart
        rw [List.getElem?_drop, show cs.core.nAllDists + (i1 - cs.core.nAllDists) = i1 by omega]
        exact hs1
      have m2 : cs.core.initPart[i2 - cs.core.nAllDists]? = some sit2 := by
        unfold Core.initPart
        rw [List.getElem?_drop, show cs.core.nAllDists + (i2 - cs.core.nAllDists) = i2 by omega]
        exact hs2
      have := nodup_getElem?_inj hsp.nodup m1 m2
      omega
    · exfalso
      rw [t1, t2, hd] at e3
      simp only [dtag] at e3
      rw [g2] at e3
      have := hdist _ (List.mem_of_getElem? r2)
      simp only at this
      omega
  · rcases tag_root hsp hs2 with ⟨t2, n2⟩ | ⟨p2, d2, dist2, t2, r2, g2, k2⟩
    · exfalso
      rw [t1, t2, hd] at e3
      simp only [dtag] at e3
      rw [g1] at e3
      have := hdist _ (List.mem_of_getElem? r1)
      simp only at this
      omega
    · have hb1 := hdist _ (List.mem_of_getElem? r1)
      have hb2 := hdist _ (List.mem_of_getElem? r2)
      simp only at hb1 hb2
      have e3' : j - dist1 = j - dist2 := by
        rw [t1, t2, hd] at e3
        simp only [dtag] at e3
        rw [g1, g2] at e3
        exact e3
      have hdd : dist1 = dist2 := by
        clear e3
        omega
      subst hdd
      have horig : j - dtag cs.dists (cs.core.tagOf i1) = j - dist1 := by
        rw [t1, hd]; simp only [dtag]; rw [g1]
      have hne : d1 ≠ d2 := by
        intro hdeq
        subst hdeq
        have hpp : p1 = p2 := nodup_getElem?_inj hnd r1 r2
        subst hpp
        exact h12 (same_root (g := g) (an := an) hdn hs1 hs2 k1 k2)
      have m1 := List.mem_of_getElem? r1
      have m2 := List.mem_of_getElem? r2
      -- the smaller root is a derived one
      have small : ∀ {i p da db : Nat}, da < db → db ≤ sit2.2 →
          ((i < cs.core.nStart ∧ p = i ∧ da = sit2.2) ∨
           (cs.core.nStart ≤ i ∧ i < cs.core.nAllDists ∧ cs.core.parents[i - cs.core.nStart]? = some p ∧
             da < sit2.2 ∧ ∃ rl, g.rules[sit2.1]? = some rl ∧
               sit2.2 - da - 1 < nullRun an.nl (rl.rhs.drop da))) →
          ∃ rl, g.rules[sit2.1]? = some rl ∧ sit2.2 - da ≤ nullRun an.nl (rl.rhs.drop da) := by
        intro i p da db hlt hle hk
        rcases hk with ⟨_, _, a3⟩ | ⟨_, _, _, a4, rl, hrl, hrun⟩
        · omega
        · exact ⟨rl, hrl, by omega⟩
      have le1 : d1 ≤ sit2.2 := by
        rcases k1 with ⟨_, _, a3⟩ | ⟨_, _, _, a4, _⟩ <;> omega
      have le2 : d2 ≤ sit2.2 := by
        rcases k2 with ⟨_, _, a3⟩ | ⟨_, _, _, a4, _⟩ <;> omega
      rcases Nat.lt_or_gt_of_ne hne with hlt | hgt
      · obtain ⟨rl, hrl, hrun⟩ := small hlt le2 k1
        exact ⟨d1, d2, dist1, rl, m1, m2, hlt, le2, hrl, hrun, horig⟩
      · obtain ⟨rl, hrl, hrun⟩ := small hgt le1 k2
        exact ⟨d2, d1, dist1, rl, m2, m1, hgt, le1, hrl, hrun, horig⟩

/-- **the start set holds no situation twice** (well-formed grammar: the axiom is never
predicted) -/
theorem set0_nodup {g : Grammar} (hwf : g.WF) {an : Analysis} {num : Nat} {ns : NewStart} {cs : CSet}
    (hcore : cs.core = expandNewStartSet g an (Core.fresh num (ns.map (·.1))))
    (hnd : ns.Nodup) (h0 : Start0 g ns)
    {i1 i2 : Nat} {sit : Sit} (h12 : i1 ≠ i2)
    (hs1 : cs.core.sits[i1]? = some sit) (hs2 : cs.core.sits[i2]? = some sit) : False := by
  have hsp : ExpandSpec g an num (ns.map (·.1)) cs.core := hcore ▸ expandNewStartSet_spec g an num _
  have hdn : cs.core.derived.Nodup := hcore ▸ expandNewStartSet_derived_nodup g an num _
  -- initial situations are not situations of the axiom
  have hq : AllQ (fun r _ t => t = none → ∀ rl, g.rules[r]? = some rl → rl.lhs ≠ g.axiomN) cs.core := by
    rw [hcore]
    apply expandNewStartSet_allQ
    · intro r d t rl s hQ _ _ _; exact hQ
    · intro r d t B r' rl' _ hnx hr' hl _ rl'' hr''
      rw [hr'] at hr''; injection hr'' with hr''; subst hr''
      obtain ⟨rl0, hr0, hs0⟩ := nextSym_eq_some.mp hnx
      intro hax
      have hmem : Sym.n B ∈ rl0.rhs := List.mem_of_getElem? hs0
      rw [← hl, hax] at hmem
      exact hwf.2.2.1 rl0 (List.mem_of_getElem? hr0) hmem
    · intro i sit _ ht; cases ht
  have tagged_axiom : ∀ {i p d' dist : Nat}, ns[p]? = some ((sit.1, d'), dist) →
      ∃ rl, g.rules[sit.1]? = some rl ∧ rl.lhs = g.axiomN ∧ d' = 0 := by
    intro i p d' dist hr
    obtain ⟨_, hz, rl, hrl, hl⟩ := h0 _ (List.mem_of_getElem? hr)
    exact ⟨rl, hrl, hl, hz⟩
  rcases tag_root hsp hs1 with ⟨t1, n1⟩ | ⟨p1, d1, dist1, t1, r1, g1, k1⟩
  · rcases tag_root hsp hs2 with ⟨t2, n2⟩ | ⟨p2, d2, dist2, t2, r2, g2, k2⟩
    · have m1 : cs.core.initPart[i1 - cs.core.nAllDists]? = some sit := by
        unfold Core.initPart
        rw [List.getElem?_drop, show cs.core.nAllDists + (i1 - cs.core.nAllDists) = i1 by omega]
        exact hs1
      have m2 : cs.core.initPart[i2 - cs.core.nAllDists]? = some sit := by
        unfold Core.initPart
        rw [List.getElem?_drop, show cs.core.nAllDists + (i2 - cs.core.nAllDists) = i2 by omega]
        exact hs2
      have := nodup_getElem?_inj hsp.nodup m1 m2
      omega
    · obtain ⟨rl, hrl, hl, _⟩ := tagged_axiom (i := i2) r2
      have := hq.at_index hsp.shape hs1
      rw [t1] at this
      exact this rfl rl hrl hl
  · rcases tag_root hsp hs2 with ⟨t2, n2⟩ | ⟨p2, d2, dist2, t2, r2, g2, k2⟩
    · obtain ⟨rl, hrl, hl, _⟩ := tagged_axiom (i := i1) r1
      have := hq.at_index hsp.shape hs2
      rw [t2] at this
      exact this rfl rl hrl hl
    · obtain ⟨_, _, _, z1⟩ := tagged_axiom (i := i1) r1
      obtain ⟨_, _, _, z2⟩ := tagged_axiom (i := i2) r2
      subst z1; subst z2
      have hz1 := (h0 _ (List.mem_of_getElem? r1)).1
      have hz2 := (h0 _ (List.mem_of_getElem? r2)).1
      simp only at hz1 hz2
      subst hz1; subst hz2
      have hpp : p1 = p2 := nodup_getElem?_inj hnd r1 r2
      subst hpp
      exact h12 (same_root (g := g) (an := an) hdn hs1 hs2 k1 k2)

end Yaep.BS
