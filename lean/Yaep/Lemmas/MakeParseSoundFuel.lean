import Yaep.Lemmas.MakeParseSoundDepth
/-!
# Totality of the model of `make_parse`, part 3: the main loop terminates

A potential that every iteration decreases: a parse state at height `i` of the stack (the bottom
has height 1) with `pos` symbols left weighs `pos * (M + 2) ^ (D - i) + 1`, where `M` bounds the
length of the right-hand sides and `D` the height of the stack.
-/
namespace Yaep.MP
open Yaep

/-- the potential of a stack (top first) -/
def phi (M D : Nat) (sts : Array PState) : List Nat → Nat
  | [] => 0
  | sid :: rest => (sts.getD sid default).pos * (M + 2) ^ (D - (rest.length + 1)) + 1 + phi M D sts rest

theorem phi_congr {M D : Nat} {sts sts' : Array PState} : ∀ {l : List Nat},
    (∀ x ∈ l, sts'.getD x default = sts.getD x default) → phi M D sts' l = phi M D sts l
  | [], _ => rfl
  | x :: l, h => by
    simp only [phi]
    rw [h x (by simp), phi_congr (fun y hy => h y (by simp [hy]))]

theorem BelowOK.lt_sb {g : Grammar} {ok : Nat → Nat → Nat → Bool} {toks : List Nat} {h : Array MNode}
    {sts : Array PState} : ∀ {rest : List Nat} {frs : List Frame} {hi sb : Nat} {tgt : Nat × Nat}
    {A cLo cFin : Nat}, BelowOK g ok toks h sts rest frs hi sb tgt A cLo cFin → ∀ x ∈ rest, x < sb
  | [], _, _, _, _, _, _, _, _, x, hx => by cases hx
  | sid :: rest, [], hi, sb, tgt, A, cLo, cFin, hb, _, _ => by simp [BelowOK] at hb
  | sid :: rest, fr :: frs, hi, sb, tgt, A, cLo, cFin, hb, x, hx => by
    simp only [BelowOK] at hb
    obtain ⟨h1, _, rl, d, pa, _, _, _, _, _, _, _, hm⟩ := hb
    rcases List.mem_cons.mp hx with rfl | hx
    · exact h1
    · have hb' : ∃ hi' tgt' A' a b, BelowOK g ok toks h sts rest frs hi' sid tgt' A' a b := by
        split at hm
        · obtain ⟨_, _, _, _, _, m6⟩ := hm; exact ⟨_, _, _, _, _, m6⟩
        · obtain ⟨_, _, _, m4⟩ := hm; exact ⟨_, _, _, _, _, m4⟩
      obtain ⟨_, _, _, _, _, hb'⟩ := hb'
      have := BelowOK.lt_sb hb' x hx
      omega

theorem TopOK.rest_lt {g : Grammar} {ok : Nat → Nat → Nat → Bool} {toks : List Nat} {h : Array MNode}
    {sts : Array PState} {sid : Nat} {rest : List Nat} {frs : List Frame}
    (htop : TopOK g ok toks h sts (sid :: rest) frs) : ∀ x ∈ rest, x < sid := by
  cases frs with
  | nil => simp [TopOK] at htop
  | cons fr frs =>
    simp only [TopOK] at htop
    obtain ⟨_, _, rl, pa, _, _, _, _, _, _, tm⟩ := htop
    split at tm
    · obtain ⟨_, _, _, m4⟩ := tm; exact m4.lt_sb
    · obtain ⟨_, m4⟩ := tm; exact m4.lt_sb

theorem pow_pos' (M n : Nat) : 1 ≤ (M + 2) ^ n := Nat.pow_pos (by omega)

/-- every shape of step decreases the potential -/
theorem phi_decrease {g : Grammar} {s s' : St} {sid : Nat} {rest : List Nat} {D : Nat}
    (hsh : StepShape g s s' sid rest) (hst : s.stack = sid :: rest)
    (hlt : ∀ x ∈ rest, x < sid) (hD : s'.stack.length ≤ D) :
    phi g.maxRhs D s'.states s'.stack < phi g.maxRhs D s.states s.stack := by
  rw [hst]
  rcases hsh with ⟨h1, h2, _⟩ | ⟨st', h1, h2, h3⟩ | ⟨st', y, h1, h2, h3, h4, h5⟩
  · rw [h1, h2]
    simp only [phi]
    omega
  · rw [h1]
    simp only [phi]
    rw [h2.same, phi_congr (fun x hx => h2.other x (hlt x hx))]
    have hw := pow_pos' g.maxRhs (D - (rest.length + 1))
    have e : (s.states.getD sid default).pos = st'.pos + 1 := h3.symm
    rw [e, Nat.add_mul]
    omega
  · rw [h1] at hD ⊢
    simp only [phi, List.length_cons] at hD ⊢
    rw [h3.same, phi_congr (fun x hx => h3.other x (hlt x hx))]
    have e : (s.states.getD sid default).pos = st'.pos + 1 := h4.symm
    rw [e, Nat.add_mul]
    have hw := pow_pos' g.maxRhs (D - (rest.length + 1 + 1))
    have hexp : D - (rest.length + 1) = (D - (rest.length + 1 + 1)) + 1 := by omega
    rw [hexp, Nat.pow_succ]
    have hmul : (s'.states.getD y default).pos * (g.maxRhs + 2) ^ (D - (rest.length + 1 + 1)) ≤
        g.maxRhs * (g.maxRhs + 2) ^ (D - (rest.length + 1 + 1)) := Nat.mul_le_mul_right _ h5
    generalize (g.maxRhs + 2) ^ (D - (rest.length + 1 + 1)) = W at *
    have : W * (g.maxRhs + 2) = g.maxRhs * W + 2 * W := by rw [Nat.mul_add, Nat.mul_comm]; omega
    rw [Nat.one_mul, this]
    omega

/-- the bound on the height of the stack -/
def depthBound (g : Grammar) (n : Nat) : Nat := g.nN + (g.nN + 1) * n

theorem phi_pos {M D : Nat} {sts : Array PState} {x : Nat} {l : List Nat} : 1 ≤ phi M D sts (x :: l) := by
  simp only [phi]; omega

/-- with fuel at least the potential, the main loop ends in a good unflagged state -/
theorem run_total {g : Grammar} {ok : Nat → Nat → Nat → Bool} {toks : List Nat} {c : Ctx}
    (hcc : CtxOKc g ok toks c) (hg : GrOK g) (hcyc : ¬ Cyclic g) (hsr : g.symsInRange = true) :
    ∀ (fuel : Nat) (s : St), Good g ok toks s → s.bad = false →
      phi g.maxRhs (depthBound g toks.length) s.states s.stack ≤ fuel →
      ∃ s', run c fuel s = some s' ∧ s'.bad = false ∧ Good g ok toks s'
  | 0, s, hgood, hb, hphi => by
    cases hst : s.stack with
    | nil => exact ⟨s, by unfold run; simp [hst], hb, hgood⟩
    | cons x l => rw [hst] at hphi; have := phi_pos (M := g.maxRhs) (D := depthBound g toks.length) (sts := s.states) (x := x) (l := l); omega
  | fuel + 1, s, hgood, hb, hphi => by
    cases hst : s.stack with
    | nil => exact ⟨s, by unfold run; simp [hst], hb, hgood⟩
    | cons sid rest =>
      obtain ⟨a1, a2, a3⟩ := step_total hcc hg hgood hb hst
      have hlt : ∀ x ∈ rest, x < sid := by
        rcases hgood.main with ⟨he, _⟩ | ⟨frs, htop⟩
        · rw [hst] at he; cases he
        · rw [hst] at htop; exact htop.rest_lt
      have hD : (step c s).stack.length ≤ depthBound g toks.length := by
        rcases a1.main with ⟨he, _⟩ | ⟨frs, htop⟩
        · rw [he]; simp
        · exact htop.stack_le hcyc hsr
      have hdec := phi_decrease a3 hst hlt hD
      obtain ⟨s', r1, r2, r3⟩ := run_total hcc hg hcyc hsr fuel (step c s) a1 a2 (by omega)
      refine ⟨s', ?_, r2, r3⟩
      unfold run
      simp [hst]
      exact r1

/-! ## the last set: only the completed rules of the axiom -/

theorem EarleyF.last_set {g : Grammar} (hwf : g.WF) {ok : Nat → Nat → Nat → Bool} {w : List Nat}
    {j : Nat} {it : Item} (h : EarleyF g ok (w ++ [g.eofT]) j it) : j = w.length + 1 →
    ∃ rl, g.rules[it.rule]? = some rl ∧ rl.lhs = g.axiomN ∧ it.dot = rl.rhs.length ∧ it.origin = 0 := by
  induction h with
  | init _ _ => intro hj; omega
  | @scan j0 r d i a h hs hw hok _ =>
    intro hj
    have hj0 : j0 = w.length := by omega
    subst hj0
    have ha : a = g.eofT := by
      rw [List.getElem?_append_right (Nat.le_refl _), Nat.sub_self] at hw
      simpa using hw.symm
    subst ha
    obtain ⟨rl, hr, hs'⟩ := nextSym_eq_some.mp hs
    have hmem : rl ∈ g.rules := List.mem_of_getElem? hr
    have hax : rl.lhs = g.axiomN := hwf.2.2.2.1 rl hmem (List.mem_of_getElem? hs')
    have hi : i = 0 := h.axiom_origin hwf rl hr hax
    refine ⟨rl, hr, hax, ?_, hi⟩
    obtain ⟨hrlt, hrl⟩ := List.getElem?_eq_some_iff.mp hr
    have hcases := hwf.2.1 r hrlt (by rw [hrl]; exact hax)
    rw [hrl] at hcases
    rcases hcases with h0 | herrR
    · subst h0
      obtain ⟨r0, hr0, _, hrhs⟩ := hwf.rule0
      rw [hr] at hr0; injection hr0 with hr0; subst hr0
      rw [hrhs] at hs' ⊢
      match d, hs' with
      | 0, hs' => simp at hs'
      | 1, _ => rfl
      | d + 2, hs' => simp at hs'
    · rw [herrR] at hs' ⊢
      match d, hs' with
      | 0, hs' =>
        simp only [List.getElem?_cons_zero, Option.some.injEq, Sym.t.injEq] at hs'
        exact absurd hs' hwf.2.2.2.2.1
      | 1, _ => rfl
      | d + 2, hs' => simp at hs'
  | @predict j r d i B r' rl' _ hs _ _ ih =>
    intro hj
    obtain ⟨rl, hr, _, hdot, _⟩ := ih hj
    simp only at hr hdot
    obtain ⟨rl2, hr2, hs2⟩ := nextSym_eq_some.mp hs
    rw [hr] at hr2; injection hr2 with hr2; subst hr2
    rw [hdot, List.getElem?_eq_none (Nat.le_refl _)] at hs2
    cases hs2
  | @complete j k r d i r' rl' hr' _ _ hs _ ih1 _ =>
    intro hj
    obtain ⟨rl1, hr1, hax, _, _⟩ := ih1 hj
    simp only at hr1
    rw [hr'] at hr1; injection hr1 with hr1; subst hr1
    obtain ⟨rl2, hr2, hs2⟩ := nextSym_eq_some.mp hs
    rw [hax] at hs2
    exact absurd (List.mem_of_getElem? hs2) (hwf.2.2.1 rl2 (List.mem_of_getElem? hr2))

/-- `make_parse` does not return NULL: the first situation of the last set is a completed rule
of the axiom with origin 0 -/
theorem init_total {g : Grammar} (hwf : g.WF) {ok : Nat → Nat → Nat → Bool} {w : List Nat} {c : Ctx}
    (hcc : CtxOKc g ok (w ++ [g.eofT]) c)
    (hne : ∃ it, EarleyF g ok (w ++ [g.eofT]) (w.length + 1) it) : ∃ s0, init c = some s0 := by
  have hc := hcc.toCtxOK
  obtain ⟨it, hit⟩ := hne
  obtain ⟨i, hi, _⟩ := hcc.complete _ _ hit
  have hsz : c.sets.size - 1 = w.length + 1 := by rw [hc.size]; simp
  have h0lt : 0 < (c.sets.getD (w.length + 1) #[]).size := by omega
  have hE := hc.sound (w.length + 1) 0 h0lt
  obtain ⟨rl, hr, hax, hdot, horig⟩ := EarleyF.last_set hwf hE rfl
  have hrule := hc.rule_eq hr
  unfold init
  simp only [hsz]
  have hget : ∀ (S : Array Item), 0 < S.size → S[0]? = some (S.getD 0 default) := by
    intro S h
    rw [Array.getD_eq_getD_getElem?, Array.getElem?_eq_getElem h]; rfl
  rw [hget _ h0lt]
  simp only [hrule, horig, hax, hc.axiomN, hdot]
  simp

/-- fuel that suffices for an input of `n` tokens (end marker included) -/
def mpFuel (g : Grammar) (n : Nat) : Nat :=
  g.maxRhs * (g.maxRhs + 2) ^ (depthBound g n - 1) + 1

theorem init_props {c : Ctx} {s0 : St} (hi : init c = some s0) : s0.bad = false ∧ s0.stack = [1] := by
  unfold init at hi
  simp only at hi
  split at hi
  · cases hi
  · split at hi
    · cases hi
    · injection hi with hi; subst hi; exact ⟨rfl, rfl⟩

/-- **totality of `make_parse` in one-parse mode**, over any parse list whose sets are exactly the
Earley sets of a token list ending in the end marker, the last of them not empty -/
theorem makeParse_one_total_ctx {g : Grammar} (hwf : g.WF) {ok : Nat → Nat → Nat → Bool}
    {w : List Nat} {sets : Array (Array Item)} {plToks : Array Int}
    (hcc : CtxOKc g ok (w ++ [g.eofT]) (mkCtx g sets plToks true)) (hg : GrOK g)
    (hcyc : ¬ Cyclic g) (hsr : g.symsInRange = true)
    (hne : ∃ it, EarleyF g ok (w ++ [g.eofT]) (w.length + 1) it)
    {fuel : Nat} (hfuel : mpFuel g (w.length + 1) ≤ fuel) :
    ∃ res, makeParse g sets plToks true fuel = .ok res := by
  have hc := hcc.toCtxOK
  obtain ⟨s0, hi⟩ := init_total hwf hcc hne
  have hgood0 := init_inv hc hg hi
  obtain ⟨hb0, hst0⟩ := init_props hi
  have hphi : phi g.maxRhs (depthBound g (w ++ [g.eofT]).length) s0.states s0.stack ≤ fuel := by
    rcases hgood0.main with ⟨he, _⟩ | ⟨frs, htop⟩
    · rw [hst0] at he; cases he
    · rw [hst0] at htop ⊢
      cases frs with
      | nil => simp [TopOK] at htop
      | cons fr frs =>
        simp only [TopOK] at htop
        obtain ⟨_, _, rl, _, t3, t4, _⟩ := htop
        have hm : rl.rhs.length ≤ g.maxRhs := le_maxRhs (List.mem_of_getElem? t3)
        simp only [phi, List.length_nil, Nat.zero_add, Nat.add_zero]
        have hlen : (w ++ [g.eofT]).length = w.length + 1 := by simp
        rw [hlen]
        have := Nat.mul_le_mul_right ((g.maxRhs + 2) ^ (depthBound g (w.length + 1) - 1))
          (Nat.le_trans t4 hm)
        unfold mpFuel at hfuel
        omega
  obtain ⟨s, hr, hb, hgood⟩ := run_total hcc hg hcyc hsr fuel s0 hgood0 hb0 hphi
  obtain ⟨h0, h1, pt, cl, _, hk, hden⟩ := run_final hc hg hi hr hb
  obtain ⟨tab, root, hx, _, _⟩ := exportTable_den h0 h1 hden
  have hres : s.result = some cl := hk
  refine ⟨{ amb := s.amb, tab := tab, root := root, reuse := s.reuse, origins := s.origins,
            nilUsed := s.nilUsed, errUsed := s.errUsed, heapSize := s.heap.size,
            allocs := allocSeq s }, ?_⟩
  simp only [makeParse, hi, hr, hb, hres, hx]
  rfl

end Yaep.MP
