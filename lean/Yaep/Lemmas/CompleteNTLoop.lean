import Yaep.Lemmas.CompleteNTCand
/-!
# Completeness of the all-parses forest, part 12: the candidates of a translated nonterminal, one
by one (first candidate; further candidate attached to an existing sibling; further candidate with
a copy of the state)
-/
namespace Yaep.CP
open Yaep Yaep.MP

section
variable {g : Grammar} {ok : Nat → Nat → Nat → Bool} {toks : List Nat} {c : Ctx} {s : St}
  {X d pa A : Nat} {rest : List Nat}

/-- the state after the dot of `X` has moved over the nonterminal to the list index `k` -/
def advSt (s : St) (X k : Nat) : St :=
  s.setState X { s.state X with pos := (s.state X).pos - 1, plInd := k }

theorem advSt_eq (s : St) (X k : Nat) (hX : X < s.states.size) :
    (ntS0 s X).setState X { (ntS0 s X).state X with plInd := k } = advSt s X k := by
  have h0 := ntS0_state (s := s) hX
  rw [h0]
  unfold advSt ntS0 St.setState
  simp [Array.set!_eq_setIfInBounds]

theorem advSt_state_same (s : St) (X k : Nat) (hX : X < s.states.size) :
    (advSt s X k).state X = { s.state X with pos := (s.state X).pos - 1, plInd := k } :=
  state_setState_same _ hX

theorem advSt_state_ne (s : St) (X k : Nat) {y : Nat} (hy : X ≠ y) : (advSt s X k).state y = s.state y :=
  state_setState_ne _ hy

/-- the right context of a sibling: the state `X` with its dot moved back over `A` to `k` -/
theorem sib_rctx {rl : Rule} {γ : List Sym} (N : NT g toks s X rest rl A d pa γ) {k : Nat} {kid : PT}
    (hkid : PT.ValidAt g toks kid (.n A) k (s.state X).plInd)
    (hE2 : EarleyF g ok toks k ⟨(s.state X).rule, (s.state X).pos - 1, (s.state X).orig⟩)
    {st : PState} (h1 : st.rule = (s.state X).rule) (h2 : st.pos = (s.state X).pos - 1)
    (h3 : st.orig = (s.state X).orig) (h4 : st.plInd = k) : RCtx g toks st := by
  refine ⟨rl, γ, by rw [h1]; exact N.hr, N.hcov, ?_⟩
  have hc : cur st = k := by
    unfold cur
    split
    · rename_i h0
      rw [h2] at h0
      rw [h0] at hE2
      rw [h3]; exact hE2.dot_zero
    · exact h4
  rw [hc, h2]
  exact der_back N.hpos N.hsym hkid N.hder

/-- **the first candidate** -/
theorem lstep_zero (hc : CtxAll g ok toks c) (hg : GrOK g) (hsr : g.symsInRange = true)
    (hinv : CInv g ok toks s) {G : Ghost} (hgood : AGood g ok toks s G none)
    {rl : Rule} {γ : List Sym} (N : NT g toks s X rest rl A d pa γ)
    {i : Nat} {rem : List Nat}
    (hall : ∀ j ∈ reduces c (c.sets.getD (s.state X).plInd #[]) A,
      checkFound c (ntLoc c s X A) ((c.sets.getD (s.state X).plInd #[]).getD j default).origin = true →
      j ∈ i :: rem)
    {sr so : Nat} {rl' : Rule} {kids : List PT} (hr' : g.rules[sr]? = some rl') (hlhs : rl'.lhs = A)
    (hsit : (c.sets.getD (s.state X).plInd #[]).getD i default = ⟨sr, rl'.rhs.length, so⟩)
    (hE : EarleyF g ok toks (s.state X).plInd ⟨sr, rl'.rhs.length, so⟩)
    (hkid : PT.ValidAt g toks (.node sr kids) (.n A) so (s.state X).plInd)
    (hE2 : EarleyF g ok toks so ⟨(s.state X).rule, (s.state X).pos - 1, (s.state X).orig⟩)
    (hre : (candidate c (ntLoc c s X A) ⟨sr, rl'.rhs.length, so⟩ 0 [] (ntS0 s X)).1.reuse = s.reuse) :
    LInv g toks c s X d pa A rest rem
      (candidate c (ntLoc c s X A) ⟨sr, rl'.rhs.length, so⟩ 0 [] (ntS0 s X)).2
      (candidate c (ntLoc c s X A) ⟨sr, rl'.rhs.length, so⟩ 0 [] (ntS0 s X)).1 := by
  have hwf := hg.twf
  have hXmem : X ∈ s.stack := by rw [N.hst]; simp
  obtain ⟨hparX, hXlt⟩ := parent_lt hgood hXmem
  have hrule := hc.rule_eq N.hr
  have hLpa : (ntLoc c s X A).parentAnode = some pa := N.hpa
  have hLd : (ntLoc c s X A).disp = some d := by simp only [ntLoc, hrule]; exact N.hd
  rw [candidate_eq, hLpa, hLd] at hre ⊢
  simp only at hre ⊢
  rw [candPre_zero, candHead_zero] at hre ⊢
  have e1 : (ntS0 s X).setState (ntLoc c s X A).origSid
      { (ntS0 s X).state (ntLoc c s X A).origSid with plInd := (⟨sr, rl'.rhs.length, so⟩ : Item).origin } =
      advSt s X so := advSt_eq s X so hXlt
  rw [e1] at hre ⊢
  have hsame := advSt_state_same s X so hXlt
  have hne : ∀ y, y ≠ X → (advSt s X so).state y = s.state y := fun y hy => advSt_state_ne s X so (Ne.symm hy)
  have hparne : (s.state X).parent ≠ X := by omega
  have hsz : (advSt s X so).states.size = s.states.size := by simp [advSt]
  have htgX : tgt (advSt s X so) ((advSt s X so).state X) = tgt s (s.state X) := by
    rw [hsame]
    exact tgt_congr (by show ((advSt s X so).state (s.state X).parent).anode = _; rw [hne _ hparne])
  have hpe : (tgt s (s.state X)).1 = pa := by
    have := tgt_fst hgood hXmem
    rw [N.hpa] at this
    injection this with this
    exact this.symm
  -- the invariant before the candidate is attached
  have hl0 : LInv g toks c s X d pa A rest (i :: rem) [] (advSt s X so) := by
    refine ⟨⟨so, CExt.refl _⟩, ?_, fun j hj hp => Or.inl (hall j hj hp), ?_⟩
    · intro x hx
      rcases hx with rfl | hx
      · refine ⟨by rw [hsz]; exact hXlt, fun hn => by rw [hsame]; exact hn, fun a ha => ?_⟩
        exact ⟨a, by rw [hsame]; exact ha, fun j t _ h => h⟩
      · cases hx
    · intro x hx
      have hx' : x ∈ X :: rest := by rw [← N.hst]; exact hx
      rcases List.mem_cons.mp hx' with rfl | hx'
      · right
        refine ⟨sib_rctx N hkid hE2 (by rw [hsame]) (by rw [hsame]) (by rw [hsame]) (by rw [hsame]),
          fun a ha => ?_⟩
        rw [htgX]
        rw [hsame] at ha
        exact hinv.inpl x hXmem a ha
      · exact Or.inl hx'
  have hcur : CurOKc (advSt s X so) X pa d (ntLoc c s X A) := by
    obtain ⟨_, _, _, k3, _⟩ := hgood.root
    have hcell := placeOf_cell hwf hgood hXmem N.hr N.hd
    rw [hpe] at hcell
    refine ⟨k3, hgood.h0, (kidLt_of_good hgood : KidLt s.heap), ?_, hXmem, ?_, by rw [hsame]; rfl, ?_⟩
    · intro x hx
      have hx' : x ∈ s.stack := hx
      obtain ⟨p1, p2⟩ := parent_lt hgood hx'
      rw [hsz]
      by_cases hxX : x = X
      · subst hxX; rw [hsame]; exact ⟨by show (s.state x).parent < _; omega, p2⟩
      · rw [hne x hxX]; exact ⟨by omega, p2⟩
    · rw [hsame]
      show ((advSt s X so).state (s.state X).parent).anode = some pa
      rw [hne _ hparne]; exact N.hpa
    · have e : placeOf ((advSt s X so).state X) pa d = placeOf (s.state X) pa d := by
        rw [hsame]; rfl
      rw [e]; exact hcell
  generalize hres : candTail c (ntLoc c s X A) ⟨sr, rl'.rhs.length, so⟩ (pa, (ntLoc c s X A).parentDisp) d
    (advSt s X so, [], (ntLoc c s X A).origSid, ((advSt s X so).state (ntLoc c s X A).origSid).anode) = r at hre ⊢
  obtain ⟨s2, os2⟩ := r
  obtain ⟨h1, _, h3⟩ := hl0.attach hc hg hsr N hcur (Or.inl rfl) hr' hlhs hsit hE (by rw [hsame]) hres
    (by rw [hre]; rfl)
  simp only
  rw [h1]
  exact h3

/-- every sibling of `orig_states` as the head sees it is an old one -/
theorem headOs_sub {L : Loc} {n : Nat} {os : List Nat} : ∀ y ∈ os, y ∈ headOs L n os := by
  intro y hy
  unfold headOs
  split
  · exact List.mem_cons_of_mem _ hy
  · exact hy

/-- **a further candidate** -/
theorem lstep_pos (hc : CtxAll g ok toks c) (hg : GrOK g) (hsr : g.symsInRange = true)
    {rl : Rule} {γ : List Sym} (N : NT g toks s X rest rl A d pa γ)
    {G' : Ghost} {os : List Nat} {s' : St} {n : Nat} (hn : n ≠ 0)
    (hloop : LoopOK g ok toks (ntLoc c s X A) rl A d pa s' G' os)
    {i : Nat} {rem : List Nat} (hl : LInv g toks c s X d pa A rest (i :: rem) os s')
    {sr so : Nat} {rl' : Rule} {kids : List PT} (hr' : g.rules[sr]? = some rl') (hlhs : rl'.lhs = A)
    (hsit : (c.sets.getD (s.state X).plInd #[]).getD i default = ⟨sr, rl'.rhs.length, so⟩)
    (hE : EarleyF g ok toks (s.state X).plInd ⟨sr, rl'.rhs.length, so⟩)
    (hkid : PT.ValidAt g toks (.node sr kids) (.n A) so (s.state X).plInd)
    (hE2 : EarleyF g ok toks so ⟨(s.state X).rule, (s.state X).pos - 1, (s.state X).orig⟩)
    (hre : (candidate c (ntLoc c s X A) ⟨sr, rl'.rhs.length, so⟩ n os s').1.reuse = s'.reuse) :
    LInv g toks c s X d pa A rest rem
      (candidate c (ntLoc c s X A) ⟨sr, rl'.rhs.length, so⟩ n os s').2
      (candidate c (ntLoc c s X A) ⟨sr, rl'.rhs.length, so⟩ n os s').1 := by
  have hwf := hg.twf
  have hrule := hc.rule_eq N.hr
  have hLpa : (ntLoc c s X A).parentAnode = some pa := N.hpa
  have hLd : (ntLoc c s X A).disp = some d := by simp only [ntLoc, hrule]; exact N.hd
  rw [candidate_eq, hLpa, hLd] at hre ⊢
  simp only at hre ⊢
  rw [candPre_pos hn hLpa hLd] at hre ⊢
  have hstk := stk_of_good hloop.good
  obtain ⟨a1, a2, a3, a4, _, a6, _⟩ := hloop.sib (ntLoc c s X A).origSid (Or.inl rfl)
  have a1' : X ∈ s'.stack := a1
  have a2' : (s'.state X).rule = (s.state X).rule := a2
  have a3' : (s'.state X).pos = (s.state X).pos - 1 := a3
  have a4' : (s'.state X).orig = (s.state X).orig := a4
  have a6' : (s'.state X).parentDisp = (s.state X).parentDisp := a6
  have hpaX : (s'.state (s'.state X).parent).anode = some pa := hloop.hpa
  cases hf : (headOs (ntLoc c s X A) n os).find? (fun sid => (s'.state sid).plInd == so) with
  | some x =>
    rw [candHead_found (sit := ⟨sr, rl'.rhs.length, so⟩) hn hf] at hre ⊢
    have hxmem := mem_headOs (List.mem_of_find?_eq_some hf)
    have hxpl : (s'.state x).plInd = so := by
      have := List.find?_some hf
      simpa using this
    obtain ⟨b1, b2, _, _, b5, b6, _⟩ := hloop.sib x hxmem
    have hl' : LInv g toks c s X d pa A rest (i :: rem) (headOs (ntLoc c s X A) n os) s' :=
      hl.mono_os headOs_sub (fun y hy => by
        rcases mem_headOs hy with e | e
        · exact Or.inl e
        · exact Or.inr (Or.inl e)) hstk
    have hcur : CurOKc s' x pa d (ntLoc c s X A) :=
      curOKc_of_good hwf hloop.good b1
        (by show g.rules[(s'.states.getD x default).rule]? = some rl; rw [b2]; exact N.hr) N.hd
        (by show (s'.states.getD (s'.states.getD x default).parent default).anode = some pa
            rw [b5]; exact hloop.hpa) b6.symm
    generalize hres : candTail c (ntLoc c s X A) ⟨sr, rl'.rhs.length, so⟩ (pa, (ntLoc c s X A).parentDisp) d
      (s', headOs (ntLoc c s X A) n os, x, (s'.state x).anode) = r at hre ⊢
    obtain ⟨s2, os2⟩ := r
    obtain ⟨h1, _, h3⟩ := hl'.attach hc hg hsr N hcur
      (by rcases hxmem with e | e
          · exact Or.inl e
          · exact Or.inr (headOs_sub _ e)) hr' hlhs hsit hE hxpl hres hre
    simp only
    rw [h1]; exact h3
  | none =>
    obtain ⟨rl0, hX0⟩ := hloop.good.states _ a1
    have hrl : rl0 = rl := by
      have := hX0.hr; rw [a2, hloop.hr] at this; injection this with this; exact this.symm
    subst hrl
    have hE2' : EarleyF g ok toks so ⟨(s'.states.getD (ntLoc c s X A).origSid default).rule,
        (s'.states.getD (ntLoc c s X A).origSid default).pos,
        (s'.states.getD (ntLoc c s X A).origSid default).orig⟩ := by
      rw [a2, a3, a4]; exact hE2
    have hsym' : rl0.rhs[(s'.states.getD (ntLoc c s X A).origSid default).pos]? = some (.n A) := by
      rw [a3]; exact hloop.hsym
    have hd' : rl0.order.getD (s'.states.getD (ntLoc c s X A).origSid default).pos none = some d := by
      rw [a3]; exact hloop.hd
    have hXlt' : X < s'.states.size := (hstk X a1').2
    have hparlt' : (s'.state X).parent < s'.states.size := (hstk X a1').1
    have hrcY : ∀ an, RCtx g toks ({ s'.state X with plInd := so, anode := an } : PState) := fun an =>
      sib_rctx N hkid hE2 a2' a3' a4' rfl
    have hlX := hl.sibs X (Or.inl rfl)
    obtain ⟨nmP, cP, ksP, q1, q2, q3⟩ := tgt_cell hwf hloop.good a1'
    have htgX' : tgt s' (s'.state X) = (pa, (s'.state X).parentDisp) := by
      unfold tgt; rw [hpaX]; rfl
    rw [htgX'] at q1 q2 q3
    simp only at q1 q2 q3
    cases han : (s'.states.getD (ntLoc c s X A).origSid default).anode with
    | some a =>
      have han' : (s'.state X).anode = some a := han
      obtain ⟨n1, n2, n3, n4, n5, _, n7, n8, n9⟩ := candHead_copy_owner (L := ntLoc c s X A)
        (sit := ⟨sr, rl'.rhs.length, so⟩) (os := os) (s := s') (pp := (pa, (ntLoc c s X A).parentDisp))
        (disp := d) hn hf han
      have hcnt := (candHead_counts (ntLoc c s X A) ⟨sr, rl'.rhs.length, so⟩ n os s'
          (pa, (ntLoc c s X A).parentDisp) d).1
      generalize candHead (ntLoc c s X A) ⟨sr, rl'.rhs.length, so⟩ n os s'
        (pa, (ntLoc c s X A).parentDisp) d = r at *
      obtain ⟨s1, os1, cur1, an1⟩ := r
      simp only at n1 n2 n3 n4 n5 n7 n8 n9 hre hcnt ⊢
      subst n7; subst n8; subst n9
      rw [← a6] at n1
      obtain ⟨G1, g1, _, _, _⟩ := copy_owner_good hwf hloop.good a1 hX0 han hloop.hpa hsym' hd' hE2'
        (fun q d' hq ho => hloop.full a han q d' (by rw [← a3]; exact hq) ho) n1 n2 n3 n4 n5
      -- the tree memory
      obtain ⟨rlc, nm, ks, _, _, o3, _, o5, _, _⟩ := own_cell hloop.good a1' han'
      obtain ⟨cs1, cs2, _⟩ := copy_slots (disp := d) o5
      have hcc : copyCell s'.heap a d = .anode nm rlc.cost (ks.set! d none) := by
        unfold copyCell; rw [o5]
      have mp := hmono_push s'.heap (copyCell s'.heap a d) (fun nd nx => by rw [hcc]; intro e; cases e)
      have hk0 := kidLt_of_good hloop.good
      have hk1 : KidLt (s'.heap.push (copyCell s'.heap a d)) := by
        refine hk0.push _ (fun nm' c' ks' e j k hk => ?_)
        rw [hcc] at e; injection e with _ _ e; subst e
        rw [getD_set!] at hk
        split at hk
        · cases hk
        · exact hk0 a j k (by rw [getKid_of_cell o5]; exact hk)
      have q1' : (s'.heap.push (copyCell s'.heap a d)).getD pa .nil = .anode nmP cP ksP := by
        rw [getD_push_lt _ _ _ _ q2]; exact q1
      have n1' : s1.heap = placeTranslation (s'.heap.push (copyCell s'.heap a d))
          (pa, (s'.state X).parentDisp) s'.heap.size := n1
      obtain ⟨m1, _, m3, _, _, _, _⟩ := hmono_place (node := s'.heap.size) q1' (by simp; omega) q3
        (by simp) hk1
      rw [← n1'] at m1 m3
      have he1 : CExt s' s1 := ⟨mp.trans m1, fun y hy => state_push_lt n2 hy, by rw [n2]; simp,
        fun x hx => by rw [n3]; simp [hx]⟩
      have hY : s1.state s'.states.size = { s'.state X with plInd := so, anode := some s'.heap.size } :=
        state_push_eq n2
      have htgY : tgt s1 (s1.state s'.states.size) = (pa, (s'.state X).parentDisp) := by
        rw [hY]; unfold tgt; simp only
        rw [he1.sts _ hparlt', hpaX]; rfl
      have hnewY : NewOK g toks s1 s'.states.size := by
        refine ⟨by rw [hY]; exact hrcY _, fun a' ha' => ?_⟩
        rw [hY] at ha'
        have ha'' : some s'.heap.size = some a' := ha'
        injection ha'' with ha''; subst ha''
        rw [htgY]
        apply m3
        unfold isAlt; rw [getD_push_eq, hcc]
      have hrelY : AnodeRel s X d s1 s'.states.size := by
        refine ⟨fun hnone => ?_, fun a0 ha0 => ?_⟩
        · have := hlX.2.1 hnone
          rw [han'] at this; cases this
        · obtain ⟨ax, x1, x2⟩ := hlX.2.2 a0 ha0
          rw [han'] at x1; injection x1 with x1; subst x1
          refine ⟨s'.heap.size, by rw [hY], fun j t hj hden => ?_⟩
          exact m1.slot _ _ (cs2 j t hj (x2 j t hj hden))
      have hl1 : LInv g toks c s X d pa A rest (i :: rem)
          (s'.states.size :: headOs (ntLoc c s X A) n os) s1 := by
        have hb := hl.extend he1 hstk (fun x hx => by
          rw [n3] at hx
          rcases List.mem_cons.mp hx with rfl | hx
          · exact Or.inr hnewY
          · exact Or.inl hx)
        refine hb.mono_os (fun y hy => List.mem_cons_of_mem _ (headOs_sub y hy)) (fun y hy => ?_)
          (stk_of_good g1)
        rcases List.mem_cons.mp hy with rfl | hy
        · exact Or.inr (Or.inr ⟨by rw [n2]; simp, hrelY⟩)
        · rcases mem_headOs hy with e | e
          · exact Or.inl e
          · exact Or.inr (Or.inl e)
      have hcur : CurOKc s1 s'.states.size pa d (ntLoc c s X A) :=
        curOKc_of_good hwf g1 (by rw [n3]; simp) (by rw [hY]; rw [a2']; exact N.hr) N.hd
          (by rw [hY]; show (s1.state (s'.state X).parent).anode = some pa
              rw [he1.sts _ hparlt']; exact hpaX)
          (by rw [hY]; exact a6.symm)
      generalize hres : candTail c (ntLoc c s X A) ⟨sr, rl'.rhs.length, so⟩ (pa, (ntLoc c s X A).parentDisp) d
        (s1, s'.states.size :: headOs (ntLoc c s X A) n os, s'.states.size, some s'.heap.size) = r at hre ⊢
      obtain ⟨s2, os2⟩ := r
      have hres' : candTail c (ntLoc c s X A) ⟨sr, rl'.rhs.length, so⟩ (pa, (ntLoc c s X A).parentDisp) d
          (s1, s'.states.size :: headOs (ntLoc c s X A) n os, s'.states.size,
            (s1.state s'.states.size).anode) = (s2, os2) := by rw [hY]; exact hres
      have hre1 : s1.reuse = s'.reuse := hcnt
      obtain ⟨h1, _, h3⟩ := hl1.attach hc hg hsr N hcur (Or.inr List.mem_cons_self) hr' hlhs hsit hE
        (by rw [hY]) hres' (by rw [hre1]; exact hre)
      simp only
      rw [h1]; exact h3
    | none =>
      have han' : (s'.state X).anode = none := han
      obtain ⟨n1, n2, n3, n4, n5, _, n7, n8, n9⟩ := candHead_copy_pass (L := ntLoc c s X A)
        (sit := ⟨sr, rl'.rhs.length, so⟩) (os := os) (s := s') (pp := (pa, (ntLoc c s X A).parentDisp))
        (disp := d) hn hf han
      have hcnt := (candHead_counts (ntLoc c s X A) ⟨sr, rl'.rhs.length, so⟩ n os s'
          (pa, (ntLoc c s X A).parentDisp) d).1
      generalize candHead (ntLoc c s X A) ⟨sr, rl'.rhs.length, so⟩ n os s'
        (pa, (ntLoc c s X A).parentDisp) d = r at *
      obtain ⟨s1, os1, cur1, an1⟩ := r
      simp only at n1 n2 n3 n4 n5 n7 n8 n9 hre hcnt ⊢
      subst n7; subst n8; subst n9
      obtain ⟨g1, _⟩ := copy_pass_good hwf hloop.good hX0 han hloop.hpa hsym' hd' hE2' n1 n2 n3 n4 n5
      have he1 : CExt s' s1 := CExt.pushState n1 n2 n3
      have hY : s1.state s'.states.size = { s'.state X with plInd := so, anode := none } :=
        state_push_eq n2
      have hnewY : NewOK g toks s1 s'.states.size := by
        refine ⟨by rw [hY]; exact hrcY _, fun a' ha' => ?_⟩
        rw [hY] at ha'; cases ha'
      have hrelY : AnodeRel s X d s1 s'.states.size := by
        refine ⟨fun _ => by rw [hY], fun a0 ha0 => ?_⟩
        obtain ⟨ax, x1, _⟩ := hlX.2.2 a0 ha0
        rw [han'] at x1; cases x1
      have hl1 : LInv g toks c s X d pa A rest (i :: rem)
          (s'.states.size :: headOs (ntLoc c s X A) n os) s1 := by
        have hb := hl.extend he1 hstk (fun x hx => by
          rw [n3] at hx
          rcases List.mem_cons.mp hx with rfl | hx
          · exact Or.inr hnewY
          · exact Or.inl hx)
        refine hb.mono_os (fun y hy => List.mem_cons_of_mem _ (headOs_sub y hy)) (fun y hy => ?_)
          (stk_of_good g1)
        rcases List.mem_cons.mp hy with rfl | hy
        · exact Or.inr (Or.inr ⟨by rw [n2]; simp, hrelY⟩)
        · rcases mem_headOs hy with e | e
          · exact Or.inl e
          · exact Or.inr (Or.inl e)
      have hcur : CurOKc s1 s'.states.size pa d (ntLoc c s X A) :=
        curOKc_of_good hwf g1 (by rw [n3]; simp) (by rw [hY]; rw [a2']; exact N.hr) N.hd
          (by rw [hY]; show (s1.state (s'.state X).parent).anode = some pa
              rw [he1.sts _ hparlt']; exact hpaX)
          (by rw [hY]; exact a6.symm)
      generalize hres : candTail c (ntLoc c s X A) ⟨sr, rl'.rhs.length, so⟩ (pa, (ntLoc c s X A).parentDisp) d
        (s1, s'.states.size :: headOs (ntLoc c s X A) n os, s'.states.size, none) = r at hre ⊢
      obtain ⟨s2, os2⟩ := r
      have hres' : candTail c (ntLoc c s X A) ⟨sr, rl'.rhs.length, so⟩ (pa, (ntLoc c s X A).parentDisp) d
          (s1, s'.states.size :: headOs (ntLoc c s X A) n os, s'.states.size,
            (s1.state s'.states.size).anode) = (s2, os2) := by rw [hY]; exact hres
      have hre1 : s1.reuse = s'.reuse := hcnt
      obtain ⟨h1, _, h3⟩ := hl1.attach hc hg hsr N hcur (Or.inr List.mem_cons_self) hr' hlhs hsit hE
        (by rw [hY]) hres' (by rw [hre1]; exact hre)
      simp only
      rw [h1]; exact h3

end

end Yaep.CP
