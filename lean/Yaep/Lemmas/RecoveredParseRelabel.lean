import Yaep.Lemmas.MakeParseAllStep
/-!
# Renaming the token numbers `pl_toks` of a parse list commutes with `make_parse`

The model of `make_parse` reads `Ctx.plToks` in one place only (`stepTerm`: the attribute of a
new TERM node, and — all parses — the index into `term_node_array`).  So two runs on the same
sets that differ only in `plToks` go through the same states; the heaps differ by the renaming of
the attributes of the TERM cells.  This file proves that for everything below `stepTerm`: the
heap primitives, `place_translation`, `copy_anode`, the candidate loop.
-/
namespace Yaep.RP
open Yaep Yaep.MP

/-- rename the attribute of a TERM cell -/
def rlN (f : Int → Int) : MNode → MNode
  | .term cd a => .term cd (f a)
  | m => m

/-- rename the attributes of all TERM cells of a heap -/
def rlH (f : Int → Int) (h : Array MNode) : Array MNode := h.map (rlN f)

variable {f : Int → Int}

@[simp] theorem rlH_size (h : Array MNode) : (rlH f h).size = h.size := by unfold rlH; simp

theorem rlH_getD (h : Array MNode) (n : Nat) : (rlH f h).getD n .nil = rlN f (h.getD n .nil) := by
  unfold rlH
  rw [Array.getD_eq_getD_getElem?, Array.getD_eq_getD_getElem?, Array.getElem?_map]
  cases h[n]? <;> rfl

theorem rlH_push (h : Array MNode) (m : MNode) : rlH f (h.push m) = (rlH f h).push (rlN f m) := by
  unfold rlH; simp

theorem rlH_push_anode (h : Array MNode) (nm : String) (c : Nat) (ks : Array (Option Nat)) :
    (rlH f h).push (.anode nm c ks) = rlH f (h.push (.anode nm c ks)) := by
  rw [rlH_push]; rfl

theorem rlH_set! (h : Array MNode) (n : Nat) (m : MNode) :
    rlH f (h.set! n m) = (rlH f h).set! n (rlN f m) := by
  unfold rlH
  simp [Array.set!_eq_setIfInBounds, Array.map_setIfInBounds]

@[simp] theorem getKid_rl (h : Array MNode) (n i : Nat) : getKid (rlH f h) n i = getKid h n i := by
  unfold getKid
  rw [rlH_getD]
  cases h.getD n .nil <;> rfl

@[simp] theorem isAlt_rl (h : Array MNode) (n : Nat) : isAlt (rlH f h) n = isAlt h n := by
  unfold isAlt
  rw [rlH_getD]
  cases h.getD n .nil <;> rfl

theorem setKid_rl (h : Array MNode) (n i : Nat) (v : Option Nat) :
    setKid (rlH f h) n i v = rlH f (setKid h n i v) := by
  unfold setKid
  rw [rlH_getD]
  cases hc : h.getD n .nil <;> simp only [rlN] <;> try rfl
  rw [rlH_set!]; rfl

theorem placeTranslation_rl (h : Array MNode) (p : Nat × Nat) (node : Nat) :
    placeTranslation (rlH f h) p node = rlH f (placeTranslation h p node) := by
  unfold placeTranslation
  simp only [getKid_rl, isAlt_rl, rlH_size]
  cases getKid h p.1 p.2 with
  | none => simp only; rw [setKid_rl]
  | some old =>
    simp only
    split
    · rw [← setKid_rl, rlH_push]; rfl
    · rw [← setKid_rl, rlH_push, rlH_push]; rfl

theorem copyAnode_rl (h : Array MNode) (p : Nat × Nat) (a d : Nat) :
    copyAnode (rlH f h) p a d = (rlH f (copyAnode h p a d).1, (copyAnode h p a d).2) := by
  unfold copyAnode
  simp only [rlH_size, rlH_getD]
  rw [← placeTranslation_rl, rlH_push]
  congr 2
  cases h.getD a .nil <;> rfl


/-! ## machine states -/

/-- the machine state with renamed TERM attributes, another `term_node_array` and another
flag `bad` (neither is read below `stepTerm`) -/
def lift (f : Int → Int) (s : St) (tn : Array (Option Nat)) (b : Bool) : St :=
  { s with heap := rlH f s.heap, termNodes := tn, bad := b }

/-- the context with other token numbers -/
def reTok (c : Ctx) (P : Array Int) : Ctx := { c with plToks := P }

variable {tn : Array (Option Nat)} {b : Bool}

@[simp] theorem lift_state (s : St) (sid : Nat) : (lift f s tn b).state sid = s.state sid := rfl
@[simp] theorem lift_setState (s : St) (sid : Nat) (p : PState) :
    (lift f s tn b).setState sid p = lift f (s.setState sid p) tn b := rfl
@[simp] theorem lift_push (s : St) (p : PState) :
    (lift f s tn b).push p = (lift f (s.push p).1 tn b, (s.push p).2) := rfl
@[simp] theorem lift_place (s : St) (pl : Nat × Nat) (n : Nat) :
    (lift f s tn b).place pl n = lift f (s.place pl n) tn b := by
  unfold St.place lift
  simp only [placeTranslation_rl]

theorem candPre_lift (L : Loc) (sit : Item) (nCand : Nat) (s : St) :
    candPre L sit nCand (lift f s tn b) = lift f (candPre L sit nCand s) tn b := by
  unfold candPre
  simp only [lift_state]
  by_cases h1 : (nCand != 0 && !(L.parentAnode.isSome && L.disp.isSome) &&
      (s.state L.origSid).plInd != sit.origin) = true <;>
    by_cases h2 : (nCand == 0) = true <;> simp only [h1, h2, if_true, if_false] <;> rfl

theorem candHead_lift (L : Loc) (sit : Item) (nCand : Nat) (os : List Nat) (s : St)
    (pp : Nat × Nat) (disp : Nat) :
    candHead L sit nCand os (lift f s tn b) pp disp =
      (lift f (candHead L sit nCand os s pp disp).1 tn b, (candHead L sit nCand os s pp disp).2) := by
  unfold candHead
  simp only [lift_state]
  split
  · split
    · rfl
    · cases ha : (s.state L.origSid).anode with
      | none => rfl
      | some a =>
        simp only
        have : (lift f s tn b).heap = rlH f s.heap := rfl
        rw [this, copyAnode_rl]
        rfl
  · rfl

theorem candTail_lift (c : Ctx) (P : Array Int) (L : Loc) (sit : Item) (pp : Nat × Nat) (disp : Nat)
    (s : St) (y : List Nat × Nat × Option Nat) :
    candTail (reTok c P) L sit pp disp (lift f s tn b, y) =
      (lift f (candTail c L sit pp disp (s, y)).1 tn b, (candTail c L sit pp disp (s, y)).2) := by
  unfold candTail
  have hr : (reTok c P).rule sit.rule = c.rule sit.rule := rfl
  have ho : (reTok c P).oneParse = c.oneParse := rfl
  simp only [hr, ho, lift_state]
  cases (c.rule sit.rule).anode with
  | none =>
    simp only
    split
    · rfl
    · rw [lift_place]
  | some name =>
    simp only
    have ht : (lift f s tn b).table = s.table := rfl
    rw [ht]
    cases hfnd : (if c.oneParse = true then none else tableFind s.table sit.rule sit.origin L.plInd) with
    | none =>
      simp only
      have hh : (lift f s tn b).heap = rlH f s.heap := rfl
      have hn : (lift f s tn b).namedRules = s.namedRules := rfl
      simp only [hh, rlH_size]
      by_cases hc : s.namedRules.contains sit.rule = true
      · simp only [hc, if_true, St.place, St.push, lift, rlH_push_anode, placeTranslation_rl, rlH_size]
      · simp only [hc, Bool.false_eq_true, if_false, St.place, St.push, lift, rlH_push_anode,
          placeTranslation_rl, rlH_size]
    | some node => simp only [St.place, lift, placeTranslation_rl]


theorem candidate_lift (c : Ctx) (P : Array Int) (L : Loc) (sit : Item) (nCand : Nat) (os : List Nat)
    (s : St) :
    candidate (reTok c P) L sit nCand os (lift f s tn b) =
      (lift f (candidate c L sit nCand os s).1 tn b, (candidate c L sit nCand os s).2) := by
  rw [candidate_eq, candidate_eq]
  cases L.parentAnode <;> cases L.disp <;> simp only [candPre_lift]
  rw [candHead_lift]
  exact candTail_lift c P L sit _ _ _ _

theorem candLoop_lift (c : Ctx) (P : Array Int) (L : Loc) (set : Array Item) :
    ∀ (is : List Nat) (nCand : Nat) (os : List Nat) (s : St),
      candLoop (reTok c P) L set is nCand os (lift f s tn b) =
        (lift f (candLoop c L set is nCand os s).1 tn b, (candLoop c L set is nCand os s).2)
  | [], nCand, os, s => rfl
  | i :: rest, nCand, os, s => by
    unfold candLoop
    have hcf : ∀ o, checkFound (reTok c P) L o = checkFound c L o := fun _ => rfl
    have ho : (reTok c P).oneParse = c.oneParse := rfl
    simp only [hcf, ho]
    by_cases h1 : checkFound c L (set.getD i default).origin = true
    · simp only [h1, Bool.not_true, Bool.false_eq_true, if_false]
      by_cases h2 : (nCand != 0) = true
      · simp only [h2, if_true, Bool.true_and]
        by_cases h3 : c.oneParse = true
        · simp only [h3, if_true]; rfl
        · simp only [h3, if_false]
          have : ({ lift f s tn b with amb := true } : St) = lift f { s with amb := true } tn b := rfl
          rw [this, candidate_lift]
          exact candLoop_lift c P L set rest _ _ _
      · simp only [h2, Bool.false_eq_true, if_false, Bool.false_and]
        rw [candidate_lift]
        exact candLoop_lift c P L set rest _ _ _
    · simp only [h1, Bool.not_false, if_true]
      exact candLoop_lift c P L set rest _ _ _


/-! ## the candidate loop neither reads nor writes `term_node_array` and `bad` -/

theorem rlH_id (h : Array MNode) : rlH id h = h := by
  unfold rlH
  apply Array.ext
  · simp
  · intro i h1 h2
    rw [Array.getElem_map]
    cases h[i] <;> rfl

theorem lift_id_self (s : St) : lift id s s.termNodes s.bad = s := by
  unfold lift
  rw [rlH_id]

theorem candLoop_termNodes_bad (c : Ctx) (L : Loc) (set : Array Item) (is : List Nat) (nCand : Nat)
    (os : List Nat) (s : St) :
    (candLoop c L set is nCand os s).1.termNodes = s.termNodes ∧
    (candLoop c L set is nCand os s).1.bad = s.bad := by
  have h := candLoop_lift (f := id) (tn := s.termNodes) (b := s.bad) c c.plToks L set is nCand os s
  rw [lift_id_self] at h
  have hc : reTok c c.plToks = c := rfl
  rw [hc] at h
  rw [h]
  exact ⟨rfl, rfl⟩

end Yaep.RP
