import Yaep.Lemmas.Recovery
import Yaep.Lemmas.RecoveryTotal
import Yaep.Lemmas.MakeParseSoundEarley
/-!
# The final parse list of a recovering parse is an Earley parse list of the repaired input

`RP.word pl`: the *repaired input* read off a parse list — the terminal of every list element
after the first (`error` for the sets shifted on `error`).  `RP.okF`: the lookahead filter the
recovering `build_pl` loop has applied to list element `j` (none for an `error` shift, the
token after the shifted one — in the *original* input — for a token shift).  Main result:
`RP.plInv_of_runOk`: every set of a list satisfying `RunOk` (and the shape invariant `PLOk`)
is *exactly* the declarative filtered Earley set `EarleyF g (okF …) (word pl) j`.
-/
namespace Yaep.RP
open Yaep

/-- the repaired input: the terminals of the list elements `1, 2, …` -/
def word (pl : List PSet) : List Nat := (pl.drop 1).map fun s => s.term.getD 0

/-- the lookahead filter that was applied to the items of list element `j` -/
def okF (g : Grammar) (an : Analysis) (la : Nat) (full : List Nat) (pl : List PSet) :
    Nat → Nat → Nat → Bool := fun j r d =>
  match pl[j]? with
  | none => true
  | some s =>
    match s.tok with
    | none => true
    | some k => okItem g an la full[k + 1]? r d

theorem word_length (pl : List PSet) : (word pl).length = pl.length - 1 := by
  unfold word; simp

theorem word_append_singleton {pl : List PSet} (h : pl ≠ []) (s : PSet) :
    word (pl ++ [s]) = word pl ++ [s.term.getD 0] := by
  unfold word
  cases pl with
  | nil => exact absurd rfl h
  | cons a l => simp

theorem word_getElem? (pl : List PSet) (j : Nat) :
    (word pl)[j]? = (pl[j + 1]?).map fun s => s.term.getD 0 := by
  unfold word
  rw [List.getElem?_map, List.getElem?_drop, Nat.add_comm]

/-- the sets up to `j` depend only on the first `j` tokens and on the filters of the sets
`≤ j` -/
theorem earleyF_congr {g : Grammar} {ok1 ok2 : Nat → Nat → Nat → Bool} {w1 w2 : List Nat}
    {j : Nat} {it : Item} (h : EarleyF g ok1 w1 j it) :
    (∀ m, m < j → w1[m]? = w2[m]?) → (∀ m, m ≤ j → ok1 m = ok2 m) → EarleyF g ok2 w2 j it := by
  induction h with
  | init hr hl => intro _ _; exact EarleyF.init hr hl
  | @scan j r d i a _ hs hw hk ih =>
    intro hp ho
    refine EarleyF.scan (ih (fun m hm => hp m (Nat.lt_succ_of_lt hm))
      (fun m hm => ho m (Nat.le_succ_of_le hm))) hs ?_ ?_
    · rw [← hp j (Nat.lt_succ_self _)]; exact hw
    · rw [← ho (j + 1) (Nat.le_refl _)]; exact hk
  | predict _ hs hr hl ih => intro hp ho; exact EarleyF.predict (ih hp ho) hs hr hl
  | @complete j k r d i r' rl' hr' h1 _ hs hf ih1 ih2 =>
    intro hp ho
    obtain ⟨_, _, _, hle, _⟩ := h1.sound
    simp only at hle
    refine EarleyF.complete hr' (ih1 hp ho)
      (ih2 (fun m hm => hp m (Nat.lt_of_lt_of_le hm hle))
        (fun m hm => ho m (Nat.le_trans hm hle))) hs ?_
    intro hkj
    rw [← ho j (Nat.le_refl _)]; exact hf hkj

theorem psItems_length (pl : List PSet) : (psItems pl).length = pl.length := by
  unfold psItems; simp

theorem okF_append_left {g : Grammar} {an : Analysis} {la : Nat} {full : List Nat}
    {pl : List PSet} (s : PSet) {m : Nat} (hm : m < pl.length) :
    okF g an la full pl m = okF g an la full (pl ++ [s]) m := by
  funext r d
  unfold okF
  rw [List.getElem?_append_left hm]

/-- **the list is an Earley parse list of the repaired input**: under the run invariant of the
recovering loop and the shape invariant (every set after the first is an `error` set or a set
shifted on an input token), set `j` is exactly the declarative Earley set `j` of the repaired
input `word pl`, with the filter `okF`. -/
theorem plInv_of_runOk {g : Grammar} {an : Analysis} {la : Nat} {full : List Nat}
    {pl : List PSet} (h : RunOk g an la full pl) :
    (∀ s ∈ pl.drop 1, s.Ok g full) →
    PLInv g (okF g an la full pl) (word pl) (psItems pl) := by
  induction h with
  | init s0 h0 =>
    intro _
    have : psItems [s0] = [set0 g] := by unfold psItems; simp [h0]
    rw [this]
    exact PLInv_set0 _ _ _
  | @snoc pl s hpl hs ih =>
    intro hok
    have hne : pl ≠ [] := by
      obtain ⟨s0, rest, h0, _⟩ := hpl.head
      rw [h0]; exact List.cons_ne_nil _ _
    have hlen1 : 1 ≤ pl.length := by
      cases pl with
      | nil => exact absurd rfl hne
      | cons a l => simp
    have hdrop : (pl ++ [s]).drop 1 = pl.drop 1 ++ [s] := by
      rw [List.drop_append_of_le_length hlen1]
    have ih' := ih (fun x hx => hok x (by rw [hdrop]; exact List.mem_append_left _ hx))
    have hsok : s.Ok g full := hok s (by rw [hdrop]; exact List.mem_append_right _ (List.mem_singleton.mpr rfl))
    -- the old sets, seen with the new word and filter
    have hold : PLInv g (okF g an la full (pl ++ [s])) (word (pl ++ [s])) (psItems pl) := by
      intro k hk it
      rw [psItems_length] at hk
      rw [ih' k (by rw [psItems_length]; exact hk) it]
      have hw : ∀ m, m < k → (word pl)[m]? = (word (pl ++ [s]))[m]? := by
        intro m hm
        rw [word_append_singleton hne, List.getElem?_append_left (by rw [word_length]; omega)]
      have ho : ∀ m, m ≤ k → okF g an la full pl m = okF g an la full (pl ++ [s]) m :=
        fun m hm => okF_append_left s (by omega)
      constructor
      · intro hE; exact earleyF_congr hE hw ho
      · intro hE
        exact earleyF_congr hE (fun m hm => (hw m hm).symm) (fun m hm => (ho m hm).symm)
    rw [psItems_append]
    have hsingle : psItems [s] = [s.items] := rfl
    rw [hsingle]
    apply PLInv_snoc hold
    rw [psItems_length]
    obtain ⟨k, hk⟩ : ∃ k, pl.length = k + 1 := ⟨pl.length - 1, by omega⟩
    have hplen : (psItems pl).length = k + 1 := by rw [psItems_length, hk]
    have hwk : ∀ a, s.term = some a → (word (pl ++ [s]))[k]? = some a := by
      intro a ha
      rw [word_append_singleton hne, List.getElem?_append_right (by rw [word_length]; omega),
        word_length]
      have : k - (pl.length - 1) = 0 := by omega
      rw [this, ha]; rfl
    have hokk : okF g an la full (pl ++ [s]) (k + 1) = fun r d =>
        match s.tok with
        | none => true
        | some k' => okItem g an la full[k' + 1]? r d := by
      funext r d
      unfold okF
      rw [← hk, List.getElem?_append_right (Nat.le_refl _), Nat.sub_self]
      rfl
    rw [hk]
    rcases hs with ⟨htok, hitems⟩ | ⟨k', htok, _, hitems⟩
    · -- an `error` set
      rcases hsok with ⟨_, hterm⟩ | ⟨k2, _, h1, _, _⟩
      · have hf : (fun (_ _ : Nat) => true) = okF g an la full (pl ++ [s]) (k + 1) := by
          rw [hokk]; funext r d; rw [htok]
        intro it
        rw [hitems, hf]
        exact mem_nextSet_iff hplen hold (hwk _ hterm) it
      · rw [htok] at h1; cases h1
    · rcases hsok with ⟨h1, _⟩ | ⟨k2, t, h1, hterm, hft⟩
      · rw [htok] at h1; cases h1
      · rw [htok] at h1; injection h1 with h1; subst h1
        have hgd : full.getD k' 0 = t := by rw [List.getD_eq_getElem?_getD, hft]; rfl
        have hf : okItem g an la full[k' + 1]? = okF g an la full (pl ++ [s]) (k + 1) := by
          rw [hokk]; funext r d; rw [htok]
        intro it
        rw [hitems, hgd, hf]
        exact mem_nextSet_iff hplen hold (hwk _ hterm) it

end Yaep.RP
