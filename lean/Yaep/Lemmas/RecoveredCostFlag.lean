import Yaep.Lemmas.RecoveredParseFinal
import Yaep.Lemmas.RecoveredParseConsec
import Yaep.Lemmas.MakeParseFlagPL
import Yaep.Lemmas.MakeParseFlagSoundPL
import Yaep.Lemmas.MakeParseFlagAllSound
import Yaep.Lemmas.MakeParseFlagAllComplete
/-!
# The ambiguity flag of `make_parse` on the final list of a recovering parse

The hypotheses of the `_ctx` theorems about the flag (`Lemmas/MakeParseFlag*.lean`) for the final
list of a recovering parse:

* `RC.okDer_okF` — the lookahead filter the recovering loop applied (`RP.okF`) keeps every item
  that lies on a derivation of the *repaired* input: after a token set comes the set of the next
  input token (`RP.Consec`) — the filter used exactly that token — or an `error` set — and the
  filter keeps every item whose lookahead set contains `error`.
* `RC.rootUniq_of_word` — all derivations of the repaired input start with rule 0 unless the
  repaired input is `error $eof` (total loss), which the implicit rule `$S : error $eof` derives too.
* `RC.DupsOK`, `RC.dupsOK_of_nodup`, `RC.runOk_nodup` — what soundness needs of the multiplicities
  of the situations (`RP.SameSets` allows any): a completed situation held twice by a set stands for
  two derivations; vacuous when no set repeats a situation, as in the model's own list.
* `RC.final_amb_sound`, `RC.final_one_unamb`, `RC.final_all_unamb_one` — the flag theorems.
-/
namespace Yaep.RC
open Yaep Yaep.MP Yaep.RP

/-! ## the lookahead filter keeps the items of derivations of the repaired input -/

theorem consec_link_at : ∀ {l : List PSet} {m : Nat} {x y : PSet}, Consec l → l[m]? = some x →
    l[m + 1]? = some y → Link x y
  | [], _, _, _, _, h, _ => by cases h
  | [_], m, _, _, _, _, h => by simp at h
  | a :: b :: l, 0, x, y, hc, h1, h2 => by
    simp only [List.getElem?_cons_zero, Option.some.injEq] at h1
    simp only [List.getElem?_cons_succ, List.getElem?_cons_zero, Option.some.injEq] at h2
    subst h1; subst h2
    exact hc.1
  | a :: b :: l, m + 1, x, y, hc, h1, h2 => by
    rw [List.getElem?_cons_succ] at h1 h2
    exact consec_link_at hc.2 h1 h2

theorem okItem_succ (g : Grammar) (an : Analysis) (la : Nat) (nxt : Option Nat) (r d : Nat) :
    okItem g an (la + 1) nxt r d = okItem g an 1 nxt r d := by
  unfold okItem
  cases nxt <;> rfl

/-- **the filter of the recovering loop keeps every item on a derivation of the repaired
input** -/
theorem okDer_okF {g : Grammar} (hsr : g.symsInRange = true) {la : Nat} {full : List Nat}
    {pl : List PSet} (hok : ∀ s ∈ pl.drop 1, s.Ok g full) (hco : Consec pl)
    (hlast : ∀ s k, pl.getLast? = some s → s.tok = some k → full[k + 1]? = none) :
    OkDer g (okF g g.analysis la full pl) (word pl) := by
  intro r d m rl γ hr hd hcov
  unfold okF
  cases hx : pl[m]? with
  | none => rfl
  | some x =>
    simp only
    cases hk : x.tok with
    | none => rfl
    | some k =>
      simp only
      cases la with
      | zero => rfl
      | succ la =>
        rw [okItem_succ]
        cases ha : full[k + 1]? with
        | none => rfl
        | some a =>
          -- the level-1 test for the next terminal of the repaired input
          have h1 := laFilter_one_of_der (w := (word pl).drop m) (m := 0) (d := d) (γ := γ) hsr hr
            (by rw [List.drop_zero]; exact hd) hcov
          unfold laFilter at h1
          have e0 : ((word pl).drop m)[0]? = (word pl)[m]? := by
            rw [List.getElem?_drop, Nat.add_zero]
          rw [e0, word_getElem?] at h1
          cases hy : pl[m + 1]? with
          | none =>
            -- `x` is the last element: its token is the last token
            have hl : pl.getLast? = some x := by
              rw [List.getLast?_eq_getElem?]
              have h1' := (List.getElem?_eq_none_iff.mp hy)
              have h2' := (List.getElem?_eq_some_iff.mp hx).1
              have : pl.length - 1 = m := by omega
              rw [this]; exact hx
            rw [hlast x k hl hk] at ha; cases ha
          | some y =>
            rw [hy] at h1
            simp only [Option.map_some] at h1
            have hmem : y ∈ pl.drop 1 := by
              apply List.mem_of_getElem? (i := m)
              rw [List.getElem?_drop, Nat.add_comm]; exact hy
            rcases hok y hmem with ⟨_, hterm⟩ | ⟨k', t, hk', hterm, hft⟩
            · -- an `error` set follows
              rw [hterm] at h1
              simp only [Option.getD_some] at h1
              unfold okItem at h1 ⊢
              simp only [Bool.or_self] at h1
              simp only [h1, Bool.or_true]
            · -- the set of the next input token follows
              have hl := consec_link_at hco hx hy k' (k + 1) hk' (by unfold nextTok; rw [hk])
              subst hl
              rw [hft] at ha
              injection ha with ha
              subst ha
              rw [hterm] at h1
              exact h1

/-! ## the root rule -/

/-- a right-hand side of two terminals that spans the whole input -/
theorem valid_two_terms {g : Grammar} {toks : List Nat} {ks : List PT} {a b : Nat}
    (h : PT.ValidListAt g toks ks [Sym.t a, Sym.t b] 0 toks.length) : toks = [a, b] := by
  cases h with
  | cons h1 h2 =>
    cases h1 with
    | leaf hw0 =>
      cases h2 with
      | cons h3 h4 =>
        cases h3 with
        | leaf hw1 =>
          have hj := (MP.ValidListAt.nil_inv h4).2
          match toks, hw0, hw1, hj with
          | [x, y], hw0, hw1, _ =>
            simp only [List.getElem?_cons_zero, Option.some.injEq] at hw0
            simp only [Nat.zero_add, List.getElem?_cons_succ, List.getElem?_cons_zero,
              Option.some.injEq] at hw1
            rw [hw0, hw1]

/-- **all derivations of an input other than `error $eof` start with rule 0** (well-formed
grammar: the only other rule of the axiom is `$S : error $eof`) -/
theorem rootUniq_of_word {g : Grammar} (hwf : g.WF) {toks : List Nat}
    (hne : toks ≠ [g.errT, g.eofT]) : MP.RootUniq g toks := by
  have key : ∀ (r : Nat) (rl : Rule) (k : List PT), g.rules[r]? = some rl → rl.lhs = g.axiomN →
      PT.ValidListAt g toks k rl.rhs 0 toks.length → r = 0 := by
    intro r rl k hr hl hk
    obtain ⟨hlt, he⟩ := List.getElem?_eq_some_iff.mp hr
    rcases hwf.2.1 r hlt (by rw [he]; exact hl) with h0 | herr
    · exact h0
    · rw [he] at herr
      rw [herr] at hk
      exact absurd (valid_two_terms hk) hne
  intro r1 r2 rl1 rl2 k1 k2 h1 h2 l1 l2 v1 v2
  rw [key r1 rl1 k1 h1 l1 v1, key r2 rl2 k2 h2 l2 v2]

/-! ## multiplicities -/

/-- a completed situation held twice by a set of `S` stands for two derivations of the right-hand
side of its rule on its span (`MP.DupOK` for the sets `S`) -/
def DupsOK (g : Grammar) (toks : List Nat) (S : Array (Array Item)) : Prop :=
  ∀ (j i1 i2 : Nat) (rl : Rule), i1 ≠ i2 → i1 < (S.getD j #[]).size →
    i2 < (S.getD j #[]).size →
    (S.getD j #[]).getD i1 default = (S.getD j #[]).getD i2 default →
    g.rules[((S.getD j #[]).getD i1 default).rule]? = some rl →
    ((S.getD j #[]).getD i1 default).dot = rl.rhs.length →
    ∃ k1 k2, k1 ≠ k2 ∧
      PT.ValidListAt g toks k1 rl.rhs ((S.getD j #[]).getD i1 default).origin j ∧
      PT.ValidListAt g toks k2 rl.rhs ((S.getD j #[]).getD i1 default).origin j

theorem DupsOK.dupOK {g : Grammar} {toks : List Nat} {S : Array (Array Item)} (h : DupsOK g toks S)
    (P : Array Int) (one : Bool) : MP.DupOK g toks (mkCtx g S P one) := h

/-- no set repeats a situation: nothing to show -/
theorem dupsOK_of_nodup {g : Grammar} {toks : List Nat} {S : Array (Array Item)}
    (h : ∀ j, (S.getD j #[]).toList.Nodup) : DupsOK g toks S := by
  intro j i1 i2 rl hne h1 h2 heq _ _
  exfalso
  apply hne
  have hnd := h j
  generalize S.getD j #[] = A at h1 h2 heq hnd
  rw [Array.getD_eq_getD_getElem?, Array.getD_eq_getD_getElem?, Array.getElem?_eq_getElem h1,
    Array.getElem?_eq_getElem h2] at heq
  simp only [Option.getD_some] at heq
  have h1' : i1 < A.toList.length := by simpa using h1
  have h2' : i2 < A.toList.length := by simpa using h2
  exact (List.getElem_inj (h₀ := h1') (h₁ := h2') hnd).mp (by simpa using heq)

theorem closeSet_nodup (g : Grammar) (ok : Nat → Nat → Bool) (prev : List (List Item)) (j : Nat)
    (start : List Item) : (closeSet g ok prev j start).Nodup := by
  unfold closeSet
  exact saturate_nodup _ _ (addNew_nodup _ List.nodup_nil)

/-- the sets of a run of the (model) Earley construction repeat no situation -/
theorem runOk_nodup {g : Grammar} {an : Analysis} {la : Nat} {full : List Nat} {pl : List PSet}
    (h : RunOk g an la full pl) : ∀ s ∈ pl, s.items.Nodup := by
  induction h with
  | init s0 h0 =>
    intro s hs
    rw [List.mem_singleton] at hs
    subst hs
    rw [h0]; exact closeSet_nodup _ _ _ _ _
  | @snoc pl s _ hs ih =>
    intro x hx
    rw [List.mem_append, List.mem_singleton] at hx
    rcases hx with hx | rfl
    · exact ih x hx
    · rcases hs with ⟨_, hi⟩ | ⟨k, _, _, hi⟩ <;> (rw [hi]; exact closeSet_nodup _ _ _ _ _)

theorem sets_nodup {pl : List PSet} (h : ∀ s ∈ pl, s.items.Nodup) (j : Nat) :
    ((sets pl).getD j #[]).toList.Nodup := by
  unfold sets
  rw [Array.getD_eq_getD_getElem?, List.getElem?_toArray, List.getElem?_map]
  cases hs : pl[j]? with
  | none => simp
  | some s =>
    simp only [Option.map_some, Option.getD_some]
    exact h s (List.mem_of_getElem? hs)

/-! ## the flag theorems for a final list -/

section
variable {g : Grammar} {la : Nat} {full : List Nat} {pl : List PSet} {S : Array (Array Item)}

/-- the context of the heap-free soundness proof, with the token numbers of the list itself -/
theorem final_ctxS (h : Final g la full pl) (hS : SameSets pl S) (one : Bool) :
    CtxS g (okF g g.analysis la full pl) (word pl) (mkCtx g S (tokNums pl) one) := by
  have hcc := ctxOKc hS h.plInv h.length
  exact ⟨rfl, rfl, hcc.size, hcc.sound⟩

/-- **soundness of the flag after a recovery, either mode**: if the flag is set, the repaired
input has two different derivations — provided repeated completed situations of `S` stand for two
derivations -/
theorem final_amb_sound (h : Final g la full pl) (hS : SameSets pl S)
    (hdup : DupsOK g (word pl) S) {one : Bool} {fuel : Nat} {res : Result}
    (hm : makeParse g S (tokNums pl) one fuel = .ok res) (hamb : res.amb = true) :
    TwoDer g (word pl) :=
  makeParse_amb_sound_ctx (final_ctxS h hS one) (hdup.dupOK _ _) hm hamb

/-- the outcome `.ok` of the run with the token numbers of the list, seen through the renaming -/
theorem ok_of_outRl {f : Int → Int} {o : Outcome} {res : Result} (h : outRl f o = .ok res) :
    ∃ res0, o = .ok res0 ∧ res = resRl f res0 := by
  cases o with
  | ok res0 =>
    simp only [outRl, Outcome.ok.injEq] at h
    exact ⟨res0, rfl, h.symm⟩
  | noParse => cases h
  | outOfFuel => cases h
  | undefinedBehaviour => cases h
  | cyclic => cases h

/-- **a one-parse run after a recovery that leaves the flag off returns the (renamed) translation
of every derivation of the repaired input** -/
theorem final_one_unamb (h : Final g la full pl) (hS : SameSets pl S) (hg : GrOK g)
    (hsr : g.symsInRange = true) (hok : OkDer g (okF g g.analysis la full pl) (word pl))
    (hroot : RootUniq g (word pl)) {fuel : Nat} {res : Result}
    (hm : makeParse g S (tokNums pl) true fuel = .ok res) (hamb : res.amb = false)
    {pt0 : PT} (hpt0 : PT.IsDerivation g (word pl) pt0) :
    denote (unfoldAt res.tab res.root) = [(translate g pt0).mapAttr (fix pl)] ∧
    (denoteTab res.tab).getD res.root [] = [(translate g pt0).mapAttr (fix pl)] := by
  have hwf := makeParse_tableWF hm
  rw [h.reTok_one hS hg] at hm
  obtain ⟨res0, hm0, rfl⟩ := ok_of_outRl hm
  have hcc := ctxOKc hS h.plInv h.length
  obtain ⟨_, h2⟩ := makeParse_one_unamb_ctx hcc hg hsr hok hroot hm0 hamb hpt0
  have hd : (denoteTab (resRl (fix pl) res0).tab).getD (resRl (fix pl) res0).root [] =
      [(translate g pt0).mapAttr (fix pl)] := by
    show (denoteTab (res0.tab.map (rlRec (fix pl)))).getD res0.root [] = _
    rw [denoteTab_rl_getD, h2]; rfl
  refine ⟨?_, hd⟩
  unfold unfoldAt
  rw [← denoteTab_spec_getD hwf.1 hwf.2 (Nat.lt_succ_self _)]
  exact hd

/-- the un-renamed form: with the flag off all derivations of the repaired input have the same
translation -/
theorem final_one_unamb_eq (h : Final g la full pl) (hS : SameSets pl S) (hg : GrOK g)
    (hsr : g.symsInRange = true) (hok : OkDer g (okF g g.analysis la full pl) (word pl))
    (hroot : RootUniq g (word pl)) {fuel : Nat} {res : Result}
    (hm : makeParse g S (tokNums pl) true fuel = .ok res) (hamb : res.amb = false)
    {pt1 pt2 : PT} (h1 : PT.IsDerivation g (word pl) pt1) (h2 : PT.IsDerivation g (word pl) pt2) :
    translate g pt1 = translate g pt2 := by
  rw [h.reTok_one hS hg] at hm
  obtain ⟨res0, hm0, rfl⟩ := ok_of_outRl hm
  have hcc := ctxOKc hS h.plInv h.length
  have e1 := (makeParse_one_unamb_ctx hcc hg hsr hok hroot hm0 hamb h1).2
  have e2 := (makeParse_one_unamb_ctx hcc hg hsr hok hroot hm0 hamb h2).2
  rw [e1] at e2
  exact (List.cons.inj e2).1

/-- **all parses unflagged ⇒ one parse unflagged**, on the final list of a recovering parse -/
theorem final_all_unamb_one (h : Final g la full pl) (hS : SameSets pl S) (hg : GrOK g)
    (hcyc : ¬ Cyclic g) (hsr : g.symsInRange = true) {fuel fuel1 : Nat} {res res1 : Result}
    (hm : makeParse g S (tokNums pl) false fuel = .ok res) (hamb : res.amb = false)
    (hm1 : makeParse g S (tokNums pl) true fuel1 = .ok res1) : res1.amb = false := by
  rw [h.reTok_all hS hcyc hsr] at hm
  obtain ⟨res0, hm0, rfl⟩ := ok_of_outRl hm
  rw [h.reTok_one hS hg] at hm1
  obtain ⟨res10, hm10, rfl⟩ := ok_of_outRl hm1
  have hcc := ctxAllc hS h.plInv h.length
  show res10.amb = false
  exact all_unamb_one_unamb hcc.toCtxAll hg hm0 hamb hm10

end

/-! ## the final list of `parseWithRecovery` -/

/-- the filter of the recovering parse keeps the items of the derivations of the repaired input -/
theorem okDer_of_ok {g : Grammar} (hwf : g.WF) (hsr : g.symsInRange = true) {la rmatch : Nat}
    {w : List Nat} {sfuel : Nat} (hok : (parseWithRecovery g la rmatch w sfuel).ok = true) :
    OkDer g (okF g g.analysis la (w ++ [g.eofT]) (parseWithRecovery g la rmatch w sfuel).pl)
      (word (parseWithRecovery g la rmatch w sfuel).pl) := by
  apply okDer_okF hsr (final_of_ok hok).ok_drop (parseWithRecovery_consec hok)
  intro s k hl hk
  obtain ⟨s', _, _, hlast, _, htok, _⟩ := final_accepts hwf hok
  rw [hlast] at hl
  injection hl with hl
  subst hl
  rw [htok] at hk
  injection hk with hk
  subst hk
  apply List.getElem?_eq_none
  simp

/-- the model's own list repeats no situation -/
theorem dupsOK_sets {g : Grammar} {la rmatch : Nat} {w : List Nat} {sfuel : Nat}
    (hok : (parseWithRecovery g la rmatch w sfuel).ok = true) (toks : List Nat) :
    DupsOK g toks (sets (parseWithRecovery g la rmatch w sfuel).pl) :=
  dupsOK_of_nodup (sets_nodup (runOk_nodup (final_of_ok hok).run))

end Yaep.RC
