import Yaep.Lemmas.HeapWfMain
import Yaep.Lemmas.MakeParseAllPL
/-!
# Totality of the model of `make_parse` in all-parses mode, part 1: candidates, counting, potential

* `CtxAllc`: the sets of the parse list are exactly the Earley sets (all-parses context);
* `cand_exists_all`: the C assertion `n_candidates != 0`;
* `candLoop_count`: in all-parses mode the loop over the reduce vector counts every entry that
  passes the check loop (there is no `break`);
* `candidate_shape`: what one candidate does to the array of parse states and to the stack: it
  pushes at most a copy of the original state (for another origin) and at most one state for the
  rule of the candidate;
* `pot`: the potential of a stack: a state of exponent `e` weighs `K ^ e`.
-/
namespace Yaep.MP
open Yaep

/-- the sets of the parse list are exactly the Earley sets (all parses) -/
structure CtxAllc (g : Grammar) (ok : Nat → Nat → Nat → Bool) (toks : List Nat) (c : Ctx) : Prop
    extends CtxAll g ok toks c where
  complete : ∀ j it, EarleyF g ok toks j it →
    ∃ i, i < (c.sets.getD j #[]).size ∧ (c.sets.getD j #[]).getD i default = it

/-- a candidate exists: the C assertion `n_candidates != 0` (all parses) -/
theorem cand_exists_all {g : Grammar} {ok : Nat → Nat → Nat → Bool} {toks : List Nat} {c : Ctx}
    (hcc : CtxAllc g ok toks c) {s : St} {sid A : Nat} {rl : Rule}
    (hr : g.rules[(s.state sid).rule]? = some rl) (hpos : (s.state sid).pos ≠ 0)
    (hE : EarleyF g ok toks (s.state sid).plInd ⟨(s.state sid).rule, (s.state sid).pos, (s.state sid).orig⟩)
    (hX : rl.rhs[(s.state sid).pos - 1]? = some (.n A)) :
    ∃ i ∈ reduces c (c.sets.getD (s.state sid).plInd #[]) A,
      checkFound c (ntLoc c s sid A)
        ((c.sets.getD (s.state sid).plInd #[]).getD i default).origin = true := by
  have hpp : (s.state sid).pos - 1 + 1 = (s.state sid).pos := by omega
  rw [← hpp] at hE
  obtain ⟨r', rl', k, hr', hlhs, hE1, hE2⟩ := hE.nt_inv hr hX
  obtain ⟨i, hi1, hi2⟩ := hcc.complete _ _ hE1
  obtain ⟨ci, hc1, hc2⟩ := hcc.complete _ _ hE2
  have hrule := hcc.toCtxAll.rule_eq hr
  have hrule' := hcc.toCtxAll.rule_eq hr'
  refine ⟨i, ?_, ?_⟩
  · unfold reduces
    rw [List.mem_filter, List.mem_range]
    refine ⟨hi1, ?_⟩
    rw [hi2]
    simp [hrule', hlhs]
  · rw [hi2]
    unfold checkFound
    simp only [List.any_eq_true, Bool.and_eq_true, beq_iff_eq]
    refine ⟨ci, ?_, ?_⟩
    · unfold transitions
      rw [List.mem_filter, List.mem_range]
      refine ⟨hc1, ?_⟩
      rw [hc2]
      simp only [Ctx.after, ntLoc, hrule, hX, beq_self_eq_true]
    · rw [hc2]; simp [ntLoc]

/-! ## the number of candidates -/

/-- all parses: `n_candidates` counts the entries of the reduce vector that pass the check loop -/
theorem candLoop_count {c : Ctx} {L : Loc} {set : Array Item} (hall : c.oneParse = false) :
    ∀ (l : List Nat) (n : Nat) (os : List Nat) (s : St),
      (candLoop c L set l n os s).2 =
        n + (l.filter fun i => checkFound c L (set.getD i default).origin).length
  | [], n, os, s => by simp [candLoop]
  | i :: l, n, os, s => by
    unfold candLoop
    by_cases hf : checkFound c L (set.getD i default).origin = true
    · simp only [hf, hall, Bool.not_true, Bool.false_eq_true, if_false, Bool.and_false]
      rw [candLoop_count hall l]
      rw [List.filter_cons_of_pos (by simpa using hf)]
      simp only [List.length_cons]
      omega
    · simp only [hf, Bool.not_false, if_true]
      rw [candLoop_count hall l]
      rw [List.filter_cons_of_neg (by simpa using hf)]

theorem candLoop_count_le {c : Ctx} {L : Loc} {set : Array Item} (hall : c.oneParse = false)
    (l : List Nat) (os : List Nat) (s : St) : (candLoop c L set l 0 os s).2 ≤ l.length := by
  rw [candLoop_count hall, Nat.zero_add]
  exact List.length_filter_le _ _

theorem candLoop_count_pos {c : Ctx} {L : Loc} {set : Array Item} (hall : c.oneParse = false)
    {l : List Nat} (os : List Nat) (s : St) {i : Nat} (hi : i ∈ l)
    (hf : checkFound c L (set.getD i default).origin = true) : (candLoop c L set l 0 os s).2 ≠ 0 := by
  rw [candLoop_count hall, Nat.zero_add]
  have : i ∈ l.filter fun i => checkFound c L (set.getD i default).origin :=
    List.mem_filter.mpr ⟨hi, hf⟩
  intro h0
  rw [List.length_eq_zero_iff.mp h0] at this
  cases this

theorem reduces_length_le (c : Ctx) (set : Array Item) (A : Nat) : (reduces c set A).length ≤ set.size := by
  unfold reduces
  have := List.length_filter_le (fun i =>
    let it := set.getD i default
    let rl := c.rule it.rule
    it.dot == rl.rhs.length && rl.lhs == A) (List.range set.size)
  simpa using this

/-! ## what one candidate does to the states and the stack -/

/-- a copy of the original state for the origin of the candidate -/
def IsCopy (L : Loc) (sit : Item) (s : St) (p : PState) : Prop :=
  p.rule = (s.state L.origSid).rule ∧ p.pos = (s.state L.origSid).pos ∧
  p.orig = (s.state L.origSid).orig ∧ p.plInd = sit.origin ∧
  p.parent = (s.state L.origSid).parent ∧ p.parentDisp = (s.state L.origSid).parentDisp

/-- the state pushed for the rule of the candidate -/
def IsChild (L : Loc) (sit : Item) (p : PState) : Prop :=
  p.rule = sit.rule ∧ p.pos = sit.dot ∧ p.orig = sit.origin ∧ p.plInd = L.plInd

/-- the states and the stack after a move that pushed the states `ps` (in this order) -/
def Pushed (sts : Array PState) (stack : List Nat) (sts' : Array PState) (stack' : List Nat) :
    List PState → Prop
  | [] => sts' = sts ∧ stack' = stack
  | [p] => sts' = sts.push p ∧ stack' = sts.size :: stack
  | [p, q] => sts' = (sts.push p).push q ∧ stack' = (sts.size + 1) :: sts.size :: stack
  | _ => False

theorem candTail_shape {c : Ctx} (hall : c.oneParse = false) (L : Loc) (sit : Item) (pp : Nat × Nat)
    (disp : Nat) (s : St) (os : List Nat) (cur : Nat) (anode : Option Nat) :
    (Pushed s.states s.stack (candTail c L sit pp disp (s, os, cur, anode)).1.states
      (candTail c L sit pp disp (s, os, cur, anode)).1.stack []) ∨
    ∃ q, IsChild L sit q ∧ Pushed s.states s.stack (candTail c L sit pp disp (s, os, cur, anode)).1.states
      (candTail c L sit pp disp (s, os, cur, anode)).1.stack [q] := by
  cases hn : (c.rule sit.rule).anode with
  | some name =>
    cases hf : tableFind s.table sit.rule sit.origin L.plInd with
    | none =>
      obtain ⟨_, h2, h3, _⟩ := candTail_new (L := L) (pp := pp) (disp := disp) (os := os) (cur := cur)
        (anode := anode) hall hn hf
      exact Or.inr ⟨_, ⟨rfl, rfl, rfl, rfl⟩, h2, h3⟩
    | some node =>
      obtain ⟨_, h2, h3, _⟩ := candTail_reuse (L := L) (pp := pp) (disp := disp) (os := os) (cur := cur)
        (anode := anode) hall hn hf
      exact Or.inl ⟨h2, h3⟩
  | none =>
    by_cases hdot : sit.dot = 0
    · obtain ⟨_, h2, h3, _⟩ := candTail_nil (c := c) (L := L) (pp := pp) (disp := disp) (s := s) (os := os)
        (cur := cur) (anode := anode) hn hdot
      exact Or.inl ⟨h2, h3⟩
    · obtain ⟨_, h2, h3, _⟩ := candTail_pass (c := c) (L := L) (pp := pp) (disp := disp) (s := s) (os := os)
        (cur := cur) (anode := anode) hn hdot
      exact Or.inr ⟨_, ⟨rfl, rfl, rfl, rfl⟩, h2, h3⟩

theorem candHead_shape (L : Loc) (sit : Item) (n : Nat) (os : List Nat) (s : St) (pp : Nat × Nat)
    (disp : Nat) :
    (Pushed s.states s.stack (candHead L sit n os s pp disp).1.states
      (candHead L sit n os s pp disp).1.stack []) ∨
    (n ≠ 0 ∧ ∃ p, IsCopy L sit s p ∧ Pushed s.states s.stack (candHead L sit n os s pp disp).1.states
      (candHead L sit n os s pp disp).1.stack [p]) := by
  by_cases hn : n = 0
  · subst hn; rw [candHead_zero]; exact Or.inl ⟨rfl, rfl⟩
  · cases hf : (headOs L n os).find? (fun sid => (s.state sid).plInd == sit.origin) with
    | some x => rw [candHead_found hn hf]; exact Or.inl ⟨rfl, rfl⟩
    | none =>
      cases ha : (s.state L.origSid).anode with
      | some a =>
        obtain ⟨_, h2, h3, _⟩ := candHead_copy_owner (pp := pp) (disp := disp) hn hf ha
        exact Or.inr ⟨hn, { s.state L.origSid with plInd := sit.origin, anode := some s.heap.size },
          ⟨rfl, rfl, rfl, rfl, rfl, rfl⟩, h2, h3⟩
      | none =>
        obtain ⟨_, h2, h3, _⟩ := candHead_copy_pass (pp := pp) (disp := disp) hn hf ha
        exact Or.inr ⟨hn, { s.state L.origSid with plInd := sit.origin, anode := none },
          ⟨rfl, rfl, rfl, rfl, rfl, rfl⟩, h2, h3⟩

/-- **one candidate, all parses**: after `candPre` (which only touches the list index of the
original state, for the first candidate) at most a copy of the original state (never for the first
candidate) and at most one state for the rule of the candidate are pushed -/
theorem candidate_shape {c : Ctx} (hall : c.oneParse = false) (L : Loc) (sit : Item) (n : Nat)
    (os : List Nat) (s : St) :
    ∃ ps : List PState,
      Pushed (candPre L sit n s).states (candPre L sit n s).stack
        (candidate c L sit n os s).1.states (candidate c L sit n os s).1.stack ps ∧
      (ps = [] ∨ (∃ q, IsChild L sit q ∧ ps = [q]) ∨
        (n ≠ 0 ∧ ∃ p, IsCopy L sit (candPre L sit n s) p ∧
          (ps = [p] ∨ ∃ q, IsChild L sit q ∧ ps = [p, q]))) := by
  rw [candidate_eq]
  cases L.parentAnode with
  | none => exact ⟨[], ⟨rfl, rfl⟩, Or.inl rfl⟩
  | some pa =>
    cases L.disp with
    | none => exact ⟨[], ⟨rfl, rfl⟩, Or.inl rfl⟩
    | some d =>
      simp only
      have hh := candHead_shape L sit n os (candPre L sit n s) (pa, L.parentDisp) d
      generalize hr : candHead L sit n os (candPre L sit n s) (pa, L.parentDisp) d = r at hh
      obtain ⟨s1, os1, cur1, an1⟩ := r
      have ht := candTail_shape hall L sit (pa, L.parentDisp) d s1 os1 cur1 an1
      simp only at hh
      rcases hh with ⟨e1, e2⟩ | ⟨hn, p, hp, e1, e2⟩
      · rw [e1, e2] at ht
        rcases ht with ht | ⟨q, hq, ht⟩
        · exact ⟨[], ht, Or.inl rfl⟩
        · exact ⟨[q], ht, Or.inr (Or.inl ⟨q, hq, rfl⟩)⟩
      · rw [e1, e2] at ht
        rcases ht with ⟨t1, t2⟩ | ⟨q, hq, t1, t2⟩
        · exact ⟨[p], ⟨t1, t2⟩, Or.inr (Or.inr ⟨hn, p, hp, Or.inl rfl⟩)⟩
        · refine ⟨[p, q], ⟨t1, ?_⟩, Or.inr (Or.inr ⟨hn, p, hp, Or.inr ⟨q, hq, rfl⟩⟩)⟩
          rw [t2]; simp

/-! ## the potential -/

/-- the potential of a stack: a state of exponent `e x` weighs `K ^ e x` -/
def pot (K : Nat) (e : Nat → Nat) : List Nat → Nat
  | [] => 0
  | x :: l => K ^ e x + pot K e l

theorem pot_congr {K : Nat} {e e' : Nat → Nat} : ∀ {l : List Nat}, (∀ x ∈ l, e' x = e x) →
    pot K e' l = pot K e l
  | [], _ => rfl
  | x :: l, h => by
    simp only [pot]
    rw [h x (by simp), pot_congr (fun y hy => h y (by simp [hy]))]

theorem pot_append {K : Nat} {e : Nat → Nat} : ∀ (l1 l2 : List Nat),
    pot K e (l1 ++ l2) = pot K e l1 + pot K e l2
  | [], l2 => by simp [pot]
  | x :: l1, l2 => by simp only [List.cons_append, pot, pot_append l1 l2]; omega

/-- a stack of `m` states of exponent at most `E` weighs at most `m * K ^ E` -/
theorem pot_le {K : Nat} (hK : 1 ≤ K) {e : Nat → Nat} {E : Nat} : ∀ (l : List Nat),
    (∀ x ∈ l, e x ≤ E) → pot K e l ≤ l.length * K ^ E
  | [], _ => by simp [pot]
  | x :: l, h => by
    simp only [pot, List.length_cons]
    have h1 : K ^ e x ≤ K ^ E := Nat.pow_le_pow_right hK (h x (by simp))
    have h2 := pot_le hK l (fun y hy => h y (by simp [hy]))
    rw [Nat.add_mul]
    omega

end Yaep.MP
