import Yaep.Lemmas.MakeParseTotalPolyStep
/-!
# A polynomial bound for the main loop of `make_parse` (all parses), part 4: the main loop

`pstep`: one iteration keeps `PInv` and decreases the polynomial potential `ppot`; `prun`: with fuel at
least the potential the main loop does not run out of fuel; `pinit`; `mpPolyFuel`;
`run_poly_ctx`.
-/
namespace Yaep.MP
open Yaep

section
variable {g : Grammar} {ok : Nat → Nat → Nat → Bool} {toks : List Nat} {c : Ctx}

theorem getElem?_of_getD_ne {α : Type} {l : List α} {i : Nat} {d x : α} (h : l.getD i d = x) (hne : x ≠ d) :
    l[i]? = some x := by
  rw [List.getD_eq_getElem?_getD] at h
  cases hl : l[i]? with
  | none => rw [hl] at h; exact absurd h.symm hne
  | some y => rw [hl] at h; simp at h; rw [h]

/-- **a nonterminal before the dot** -/
theorem pstep_nt (hc : CtxAll g ok toks c) (hpc : ¬ PassCyclic g) {C : Nat}
    (hC : ∀ j, (c.sets.getD j #[]).size ≤ C) {s : St} (hinv : PInv g toks.length s) {X : Nat}
    {rest : List Nat} (hst : s.stack = X :: rest) {rlX : Rule} {A : Nat}
    (hr : g.rules[(s.state X).rule]? = some rlX) (hpos : (s.state X).pos ≠ 0)
    (hsym : rlX.rhs[(s.state X).pos - 1]? = some (.n A)) :
    PInv g toks.length (step c s) ∧
      ppot g toks.length (2 * C + 2) (step c s) < ppot g toks.length (2 * C + 2) s := by
  have hXmem : X ∈ s.stack := by rw [hst]; simp
  have hXlt := hinv.lt X hXmem
  have hrule := hc.rule_eq hr
  have hK : 1 ≤ 2 * C + 2 := by omega
  rw [step_nt' hst hpos (by rw [hrule]; exact getD_of_getElem? hsym)]
  obtain ⟨os', hM⟩ := candLoop_all (L := ntLoc c s X A) (set := c.sets.getD (s.state X).plInd #[]) hc.all
    (fun n _ s' => (n = 0 ∧ s' = ntS0 s X) ∨ (n ≠ 0 ∧ PLc g toks.length (2 * C + 2) s X rest (ntLoc c s X A)
        (pexp g (s.state X) - 1) (2 * n) s'.states s'.stack s'.table))
    (fun n os s' hn hm => by
      rcases hm with ⟨h0, _⟩ | ⟨_, hf⟩
      · exact absurd h0 hn
      · exact Or.inr ⟨hn, hf⟩)
    (reduces c (c.sets.getD (s.state X).plInd #[]) A)
    (fun i hi' n os s' hf hm => by
      obtain ⟨sr, so, rl', kids, hsit, hr', hlhs, hE, _, _⟩ := cand_facts_all hc hi' hf
      rw [hsit]
      exact Or.inr ⟨Nat.succ_ne_zero _, pl_cand hc hpc hK hinv hst hr hpos hsym hr' hlhs hE hm⟩)
    0 [] (ntS0 s X) (Or.inl ⟨rfl, rfl⟩)
  have hnle := candLoop_count_le (L := ntLoc c s X A) (set := c.sets.getD (s.state X).plInd #[]) hc.all
    (reduces c (c.sets.getD (s.state X).plInd #[]) A) [] (ntS0 s X)
  have hnC : (candLoop c (ntLoc c s X A) (c.sets.getD (s.state X).plInd #[])
      (reduces c (c.sets.getD (s.state X).plInd #[]) A) 0 [] (ntS0 s X)).2 ≤ C :=
    Nat.le_trans hnle (Nat.le_trans (reduces_length_le _ _ _) (hC _))
  generalize (candLoop c (ntLoc c s X A) (c.sets.getD (s.state X).plInd #[])
      (reduces c (c.sets.getD (s.state X).plInd #[]) A) 0 [] (ntS0 s X)) = r at hM hnC
  obtain ⟨sF, nF⟩ := r
  simp only at hM hnC ⊢
  -- both branches of the assertion have the same states, stack and table
  have key : ∀ s2 : St, s2.states = sF.states → s2.stack = sF.stack → s2.table = sF.table →
      PInv g toks.length s2 ∧ ppot g toks.length (2 * C + 2) s2 < ppot g toks.length (2 * C + 2) s := by
    intro s2 e1 e2 e3
    have hrestlt := hinv.rest_lt hst
    have hEpos : 1 ≤ pexp g (s.state X) := by unfold pexp; omega
    obtain ⟨E', hE'⟩ : ∃ E', pexp g (s.state X) = E' + 1 := ⟨_, (Nat.sub_add_cancel hEpos).symm⟩
    have hE'' : pexp g (s.state X) - 1 = E' := by omega
    have hW : 1 ≤ (2 * C + 2) ^ E' := Nat.pow_pos (by omega)
    have h5 : (2 * C + 2) ^ E' * (2 * C + 2) = (2 * C) * (2 * C + 2) ^ E' + 2 * (2 * C + 2) ^ E' := by
      rw [Nat.mul_comm, Nat.add_mul]
    rcases hM with ⟨h0, rfl⟩ | ⟨hn0, hf⟩
    · -- no candidate (the assertion fails): only the dot of the top state has moved
      have hsts : s2.states = s.states.set! X { s.state X with pos := (s.state X).pos - 1 } := e1
      have hstk : s2.stack = s.stack := e2
      have htab : s2.table = s.table := e3
      have hXget : s2.state X = { s.state X with pos := (s.state X).pos - 1 } := by
        show s2.states.getD X default = _
        rw [hsts, getD_set!, if_pos ⟨rfl, hXlt⟩]
      have hother : ∀ y, y ≠ X → s2.state y = s.state y := by
        intro y hy
        show s2.states.getD y default = s.states.getD y default
        rw [hsts, getD_set!, if_neg (fun hh => hy hh.1.symm)]
      refine ⟨⟨by rw [hstk]; exact hinv.sorted, ?_, ?_, by rw [htab]; exact hinv.tsize⟩, ?_⟩
      · intro y hy; rw [hstk] at hy; rw [hsts]; simpa using hinv.lt y hy
      · intro y hy; rw [hstk] at hy
        by_cases hyX : y = X
        · subst hyX; rw [hXget]; exact ⟨rlX, hr⟩
        · rw [hother y hyX]; exact hinv.rule y hy
      · unfold ppot
        rw [htab, hstk, hst]
        simp only [pot]
        have h3 : pot (2 * C + 2) (fun x => pexp g (s2.state x)) rest =
            pot (2 * C + 2) (fun x => pexp g (s.state x)) rest := by
          apply pot_congr
          intro y hy
          have := hrestlt y hy
          simp only [hother y (by omega)]
        have h4 : pexp g (s2.state X) = E' := by
          rw [hXget]; unfold pexp
          show lvl g (s.state X).rule * (g.maxRhs + 1) + ((s.state X).pos - 1) = E'
          unfold pexp at hE'; omega
        rw [h3, h4, hE', Nat.pow_succ, h5]
        generalize (2 * C + 2) ^ E' = W at *
        generalize (2 * C) * W = V at *
        omega
    · rw [hE''] at hf
      rw [← e1, ← e2, ← e3] at hf
      obtain ⟨new, hshape, hbound⟩ := hf.shape
      refine ⟨⟨hf.sorted, hf.lt, hf.rule, hf.tsize⟩, ?_⟩
      unfold ppot
      rw [hshape, hst, pot_append]
      simp only [pot]
      have h3 : pot (2 * C + 2) (fun x => pexp g (s2.state x)) rest =
          pot (2 * C + 2) (fun x => pexp g (s.state x)) rest := by
        apply pot_congr
        intro y hy
        have hyX := hrestlt y hy
        have hylt : y < s.states.size := by omega
        have e : s2.state y = s.state y := hf.old y hylt (by omega)
        simp only [e]
      have h4 : pexp g (s2.state X) = E' := by
        have e : s2.state X = s2.states.getD X default := rfl
        unfold pexp
        rw [e, hf.top.1, hf.top.2]
        show lvl g (s.state X).rule * (g.maxRhs + 1) + ((s.state X).pos - 1) = E'
        unfold pexp at hE'; omega
      have h6 : 2 * nF * (2 * C + 2) ^ E' ≤ (2 * C) * (2 * C + 2) ^ E' :=
        Nat.mul_le_mul_right _ (by omega)
      have hb' : tabFree g toks.length s2.table * (2 * C + 2) ^ pexpTop g +
          pot (2 * C + 2) (fun x => pexp g (s2.state x)) new ≤
          tabFree g toks.length s.table * (2 * C + 2) ^ pexpTop g + 2 * nF * (2 * C + 2) ^ E' := hbound
      rw [h3, h4, hE', Nat.pow_succ, h5]
      generalize (2 * C + 2) ^ E' = W at *
      generalize (2 * C) * W = V at *
      generalize tabFree g toks.length s2.table * (2 * C + 2) ^ pexpTop g = T2 at *
      generalize tabFree g toks.length s.table * (2 * C + 2) ^ pexpTop g = T1 at *
      generalize 2 * nF * W = Z at *
      omega
  split
  · exact key _ rfl rfl rfl
  · exact key _ rfl rfl rfl

/-! ## a terminal before the dot; pop -/

theorem stepTerm_table {sid : Nat} {st : PState} {pos : Nat} {disp : Option Nat} {a : Nat}
    {pa : Option Nat} {s : St} : (stepTerm c sid st pos disp a pa s).table = s.table := by
  unfold stepTerm
  cases pa with
  | none => rfl
  | some p =>
    cases disp with
    | none => rfl
    | some d =>
      simp only
      split
      · rfl
      · split <;> rfl

theorem pstep_term (hc : CtxAll g ok toks c) {K : Nat} (hK : 2 ≤ K) {s : St} (hinv : PInv g toks.length s)
    {X : Nat} {rest : List Nat} (hst : s.stack = X :: rest) {a : Nat} (hpos : (s.state X).pos ≠ 0)
    (hsym : (c.rule (s.state X).rule).rhs.getD ((s.state X).pos - 1) (.t 0) = .t a) :
    PInv g toks.length (step c s) ∧ ppot g toks.length K (step c s) < ppot g toks.length K s := by
  have hXmem : X ∈ s.stack := by rw [hst]; simp
  have hXlt := hinv.lt X hXmem
  rw [step_term hst hpos hsym]
  obtain ⟨e1, e2, _, _⟩ := stepTerm_proj_all (c := c) (sid := X) (st := s.state X)
    (pos := (s.state X).pos - 1) (disp := (c.rule (s.state X).rule).order.getD ((s.state X).pos - 1) none)
    (a := a) (pa := (s.state (s.state X).parent).anode) (s := s) hc.all
  have e3 := stepTerm_table (c := c) (sid := X) (st := s.state X)
    (pos := (s.state X).pos - 1) (disp := (c.rule (s.state X).rule).order.getD ((s.state X).pos - 1) none)
    (a := a) (pa := (s.state (s.state X).parent).anode) (s := s)
  generalize stepTerm c X (s.state X) ((s.state X).pos - 1)
    ((c.rule (s.state X).rule).order.getD ((s.state X).pos - 1) none) a
    (s.state (s.state X).parent).anode s = s' at e1 e2 e3
  have hXget : s'.state X = { s.state X with
      pos := (s.state X).pos - 1
      plInd := (if (s.state X).pos - 1 != 0 then (s.state X).plInd - 1 else (s.state X).plInd) } := by
    show s'.states.getD X default = _
    rw [e1, getD_set!, if_pos ⟨rfl, hXlt⟩]
  have hother : ∀ y, y ≠ X → s'.state y = s.state y := by
    intro y hy
    show s'.states.getD y default = s.states.getD y default
    rw [e1, getD_set!, if_neg (fun hh => hy hh.1.symm)]
  have hrestlt := hinv.rest_lt hst
  refine ⟨⟨by rw [e2]; exact hinv.sorted, ?_, ?_, by rw [e3]; exact hinv.tsize⟩, ?_⟩
  · intro y hy; rw [e2] at hy; rw [e1]; simpa using hinv.lt y hy
  · intro y hy; rw [e2] at hy
    by_cases hyX : y = X
    · subst hyX; rw [hXget]; exact hinv.rule y hy
    · rw [hother y hyX]; exact hinv.rule y hy
  · unfold ppot
    rw [e3, e2, hst]
    simp only [pot]
    have h3 : pot K (fun x => pexp g (s'.state x)) rest = pot K (fun x => pexp g (s.state x)) rest := by
      apply pot_congr
      intro y hy
      have := hrestlt y hy
      simp only [hother y (by omega)]
    have hexp : pexp g (s'.state X) + 1 = pexp g (s.state X) := by
      rw [hXget]; unfold pexp
      show lvl g (s.state X).rule * (g.maxRhs + 1) + ((s.state X).pos - 1) + 1 = _
      omega
    rw [h3, ← hexp, Nat.pow_succ]
    have hW : 1 ≤ K ^ pexp g (s'.state X) := Nat.pow_pos (by omega)
    have : K ^ pexp g (s'.state X) * 2 ≤ K ^ pexp g (s'.state X) * K := Nat.mul_le_mul_left _ hK
    omega

theorem step_pop_table {s : St} {X : Nat} {rest : List Nat} (hst : s.stack = X :: rest)
    (hpos : (s.state X).pos = 0) : (step c s).table = s.table := by
  cases han : (s.state X).anode with
  | some an =>
    rw [step_pop_some hst hpos han]
    exact (popFold_table an (List.range (c.rule (s.state X).rule).transLen) { s with stack := rest }).1
  | none =>
    cases hpa : (s.state (s.state X).parent).anode with
    | some pa =>
      rw [step_pop_none hst hpos han hpa]
      split <;> rfl
    | none =>
      unfold step
      simp only [hst, hpos, han, hpa]
      simp

theorem pstep_pop {K : Nat} (hK : 1 ≤ K) {n : Nat} {s : St} (hinv : PInv g n s) {X : Nat}
    {rest : List Nat} (hst : s.stack = X :: rest) (hpos : (s.state X).pos = 0) :
    PInv g n (step c s) ∧ ppot g n K (step c s) < ppot g n K s := by
  obtain ⟨e1, e2, _, _⟩ := step_pop_proj (c := c) hst hpos
  have e3 := step_pop_table (c := c) hst hpos
  have hsorted := hinv.sorted
  rw [hst] at hsorted
  have hst' : (step c s).state = s.state := by
    funext y; show (step c s).states.getD y default = s.states.getD y default; rw [e1]
  refine ⟨⟨by rw [e2]; exact (List.pairwise_cons.mp hsorted).2, ?_, ?_, by rw [e3]; exact hinv.tsize⟩, ?_⟩
  · intro y hy; rw [e2] at hy; rw [e1]
    exact hinv.lt y (by rw [hst]; exact List.mem_cons_of_mem _ hy)
  · intro y hy; rw [e2] at hy; rw [hst']
    exact hinv.rule y (by rw [hst]; exact List.mem_cons_of_mem _ hy)
  · unfold ppot
    rw [e3, e2, hst, hst']
    simp only [pot]
    have : 1 ≤ K ^ pexp g (s.state X) := Nat.pow_pos (by omega)
    omega

/-- **one iteration of the main loop** decreases the polynomial potential -/
theorem pstep (hc : CtxAll g ok toks c) (hpc : ¬ PassCyclic g) {C : Nat}
    (hC : ∀ j, (c.sets.getD j #[]).size ≤ C) {s : St} (hinv : PInv g toks.length s)
    (hne : s.stack ≠ []) :
    PInv g toks.length (step c s) ∧
      ppot g toks.length (2 * C + 2) (step c s) < ppot g toks.length (2 * C + 2) s := by
  cases hst : s.stack with
  | nil => exact absurd hst hne
  | cons X rest =>
    have hXmem : X ∈ s.stack := by rw [hst]; simp
    obtain ⟨rl, hr⟩ := hinv.rule X hXmem
    have hrule := hc.rule_eq hr
    by_cases hpos : (s.state X).pos = 0
    · exact pstep_pop (c := c) (by omega) hinv hst hpos
    · cases hY : (c.rule (s.state X).rule).rhs.getD ((s.state X).pos - 1) (.t 0) with
      | t a => exact pstep_term hc (by omega) hinv hst hpos hY
      | n A =>
        rw [hrule] at hY
        exact pstep_nt hc hpc hC hinv hst hr hpos (getElem?_of_getD_ne hY (by intro h; cases h))

theorem ppot_pos {n K : Nat} (hK : 1 ≤ K) {s : St} (hne : s.stack ≠ []) : 1 ≤ ppot g n K s := by
  unfold ppot
  cases hst : s.stack with
  | nil => exact absurd hst hne
  | cons x l =>
    simp only [pot]
    have : 1 ≤ K ^ pexp g (s.state x) := Nat.pow_pos (by omega)
    omega

/-- **with fuel at least the polynomial potential the main loop does not run out of fuel** -/
theorem prun (hc : CtxAll g ok toks c) (hpc : ¬ PassCyclic g) {C : Nat}
    (hC : ∀ j, (c.sets.getD j #[]).size ≤ C) :
    ∀ (fuel : Nat) (s : St), PInv g toks.length s → ppot g toks.length (2 * C + 2) s ≤ fuel →
      ∃ s', run c fuel s = some s'
  | 0, s, _, hpot => by
    cases hst : s.stack with
    | nil => exact ⟨s, by unfold run; simp [hst]⟩
    | cons x l =>
      have := ppot_pos (g := g) (n := toks.length) (K := 2 * C + 2) (by omega) (s := s) (by rw [hst]; simp)
      omega
  | fuel + 1, s, hinv, hpot => by
    cases hst : s.stack with
    | nil => exact ⟨s, by unfold run; simp [hst]⟩
    | cons x l =>
      obtain ⟨a1, a2⟩ := pstep hc hpc hC hinv (by rw [hst]; simp)
      obtain ⟨s', r1⟩ := prun hc hpc hC fuel (step c s) a1 (by omega)
      refine ⟨s', ?_⟩
      unfold run
      simp [hst]
      exact r1

/-- fuel that suffices when the grammar has no pass-through cycle: polynomial in `n` and `C` -/
def mpPolyFuelC (g : Grammar) (n C : Nat) : Nat :=
  (g.rules.length * ((n + 1) * (n + 1)) + 1) * (2 * C + 2) ^ pexpTop g

/-- the initial state -/
theorem pinit (hc : CtxAll g ok toks c) {s0 : St} (hi : init c = some s0) {K : Nat} (hK : 1 ≤ K) :
    PInv g toks.length s0 ∧ ppot g toks.length K s0 ≤
      (g.rules.length * ((toks.length + 1) * (toks.length + 1)) + 1) * K ^ pexpTop g := by
  obtain ⟨hinv, _, hst0⟩ := tinit hc hi
  obtain ⟨h1lt, hok⟩ := hinv.sts 1 (by rw [hst0]; simp)
  obtain ⟨rl, hr, hle, _⟩ := hok.rule
  have htab : s0.table.size = toks.length + 1 := by
    unfold init at hi
    simp only at hi
    split at hi
    · cases hi
    · split at hi
      · cases hi
      · injection hi with hi
        rw [← hi]
        show (Array.replicate c.sets.size ([] : List (Nat × Nat × Nat))).size = _
        rw [Array.size_replicate, hc.size]
  refine ⟨⟨hinv.sorted, fun x hx => (hinv.sts x hx).1, ?_, htab⟩, ?_⟩
  · intro x hx
    obtain ⟨rl', hr', _⟩ := (hinv.sts x hx).2.rule
    exact ⟨rl', hr'⟩
  · unfold ppot
    rw [hst0]
    simp only [pot, Nat.add_zero]
    have h1 := tabFree_le g toks.length s0.table
    have h2 := Nat.mul_le_mul_right (K ^ pexpTop g) h1
    have hm : rl.rhs.length ≤ g.maxRhs := le_maxRhs (List.mem_of_getElem? hr)
    have h3 : pexp g (s0.state 1) ≤ pexpTop g := by
      unfold pexp pexpTop
      have h5 := lvl_le g (s0.state 1).rule
      have h6 := Nat.mul_le_mul_right (g.maxRhs + 1) h5
      omega
    have h4 := Nat.pow_le_pow_right hK h3
    rw [Nat.add_mul, Nat.one_mul]
    omega

/-- **the main loop ends within polynomially many iterations** when no rule without abstract node
passes its translation up to itself: over any parse list whose sets contain only Earley items and have at
most `C` situations each -/
theorem run_poly_ctx (hc : CtxAll g ok toks c) (hpc : ¬ PassCyclic g) {C : Nat}
    (hC : ∀ j, (c.sets.getD j #[]).size ≤ C) {s0 : St} (hi : init c = some s0) {fuel : Nat}
    (hfuel : mpPolyFuelC g toks.length C ≤ fuel) : ∃ s, run c fuel s0 = some s := by
  obtain ⟨hinv, hpot⟩ := pinit hc hi (K := 2 * C + 2) (by omega)
  exact prun hc hpc hC fuel s0 hinv (Nat.le_trans hpot hfuel)

end

end Yaep.MP
