import Yaep.Lemmas.BuildSet2
/-!
# Helper lemmas for `Yaep/Model/BuildSet2.lean`, part 6: `build_start_set`, `build_new_set`,
the main loop of `build_pl` against `buildPL2`
-/
namespace Yaep.BS2
open Yaep

theorem buildNewSet_unfold (g : Grammar) (an : Analysis) (ok : Nat → Nat → List Nat → Bool)
    (tab : Tab2) (pl : List CSet2) (set : CSet2) (X : Sym) :
    buildNewSet g an ok tab pl set X =
      let st := newSetLoop2 g an ok pl (pl.length - 1) (newSetFuel pl)
        (newSetLoop1 ok set ((set.core.transOf X).getD []), false)
      let r := setInsert tab st.1
      let tab' : Tab2 := { r.1 with bad := r.1.bad || st.2 }
      if r.2.2 then
        (tab'.storeCore (expandNewStartSet g an r.2.1.core),
          { r.2.1 with core := expandNewStartSet g an r.2.1.core })
      else (tab', r.2.1) := rfl

theorem buildStartSet_unfold (g : Grammar) (an : Analysis) :
    buildStartSet g an =
      let ns := (BS.rulesOf g g.axiomN).foldl (fun ns r => addStartSit ns ⟨r, 0, []⟩ 0) setNewStart
      let r := setInsert {} ns
      (r.1.storeCore (expandNewStartSet g an r.2.1.core),
        { r.2.1 with core := expandNewStartSet g an r.2.1.core }) := rfl

theorem foldl_addStartSit (L : List Nat) (ns : NewStart2) :
    L.foldl (fun ns r => addStartSit ns ⟨r, 0, []⟩ 0) ns =
      ns ++ L.map fun r => ((⟨r, 0, []⟩ : Sit2), 0) := by
  induction L generalizing ns with
  | nil => simp
  | cons a L ih =>
    simp only [List.foldl_cons]
    rw [ih]
    simp [addStartSit]

theorem TabInv2_empty (g : Grammar) (an : Analysis) : TabInv2 g an {} :=
  ⟨rfl, fun i c h => by simp at h⟩

theorem TabInv2_congr {g : Grammar} {an : Analysis} {tab tab' : Tab2} (h : TabInv2 g an tab)
    (h1 : tab'.cores = tab.cores) (h2 : tab'.nCores = tab.nCores) : TabInv2 g an tab' :=
  ⟨by rw [h1, h2]; exact h.ncores, by rw [h1]; exact h.cores⟩

/-! ## a set made by `set_insert` and `expand_new_start_set` -/

theorem expanded_set_spec {g : Grammar} (hsr : g.symsInRange = true) {cs : CSet2} {num : Nat}
    {ns : NewStart2} {j : Nat} {start : List Item2} (hd : cs.dists = ns.map (·.2))
    (hc : cs.core = expandNewStartSet g g.analysis (Core2.fresh num (ns.map (·.1))))
    (hstart : ∀ x, x ∈ start ↔ ∃ p ∈ ns, x = itemOf j p)
    (hbnd : ∀ s ∈ start, ∀ a ∈ s.ctx, a < g.nT) (hle : ∀ p ∈ ns, p.2 ≤ j) :
    SetOK2 g j cs ∧ ∀ it, it ∈ cs.items j ↔ it ∈ expand2 g g.analysis start j := by
  have hb : ∀ s ∈ ns.map (·.1), ∀ a ∈ s.ctx, a < g.nT := by
    intro s hs a ha
    obtain ⟨p, hp, rfl⟩ := List.mem_map.mp hs
    exact hbnd _ ((hstart _).mpr ⟨p, hp, rfl⟩) a ha
  have hsp2 := (expandNewStartSet_spec2 hsr num (ns.map (·.1)) hb).1
  rw [← hc] at hsp2
  refine ⟨⟨⟨num, ns, hsp2, hd⟩, ?_⟩, items_iff_expand2 hsr hsp2 hd hstart hbnd⟩
  intro d hdm
  rw [hd] at hdm
  obtain ⟨p, hp, rfl⟩ := List.mem_map.mp hdm
  exact hle p hp

theorem expanded_set_spec' {g : Grammar} (hsr : g.symsInRange = true) {core : Core2}
    {dists : List Nat} {num : Nat}
    {ns : NewStart2} {j : Nat} {start : List Item2} (hd : dists = ns.map (·.2))
    (hc : core = expandNewStartSet g g.analysis (Core2.fresh num (ns.map (·.1))))
    (hstart : ∀ x, x ∈ start ↔ ∃ p ∈ ns, x = itemOf j p)
    (hbnd : ∀ s ∈ start, ∀ a ∈ s.ctx, a < g.nT) (hle : ∀ p ∈ ns, p.2 ≤ j) :
    SetOK2 g j ⟨core, dists⟩ ∧
      ∀ it, it ∈ (⟨core, dists⟩ : CSet2).items j ↔ it ∈ expand2 g g.analysis start j :=
  expanded_set_spec hsr (cs := ⟨core, dists⟩) hd hc hstart hbnd hle

/-! ## `build_start_set` -/

theorem buildStartSet_main {g : Grammar} (hsr : g.symsInRange = true) :
    TabInv2 g g.analysis (buildStartSet g g.analysis).1 ∧
    SetOK2 g 0 (buildStartSet g g.analysis).2 ∧
    ∀ it, it ∈ (buildStartSet g g.analysis).2.items 0 ↔
      it ∈ expand2 g g.analysis (start0 g) 0 := by
  rw [buildStartSet_unfold]
  dsimp only
  rw [foldl_addStartSit]
  simp only [setNewStart, List.nil_append]
  generalize hns : (BS.rulesOf g g.axiomN).map (fun r => (((⟨r, 0, []⟩ : Sit2), 0) : Sit2 × Nat)) = ns
  have hctx : ∀ p ∈ ns, p.1.ctx = [] ∧ p.2 = 0 := by
    intro p hp
    rw [← hns] at hp
    obtain ⟨r, _, rfl⟩ := List.mem_map.mp hp
    exact ⟨rfl, rfl⟩
  have hspec := insert_expand_spec (TabInv2_empty g g.analysis) ns
  obtain ⟨_, _, hcase⟩ := setInsert_spec {} ns
  rcases hcase with ⟨_, ⟨i, hi⟩, _⟩ | ⟨hnew, _, _, _⟩
  · simp at hi
  · dsimp only at hspec
    rw [hnew] at hspec
    simp only [if_true] at hspec
    obtain ⟨htab, hdists, num, hc⟩ := hspec
    refine ⟨htab, ?_⟩
    refine expanded_set_spec' hsr hdists hc ?_ ?_ ?_
    · intro x
      unfold start0
      rw [← hns]
      simp only [List.mem_map, BS.mem_rulesOf, ← mem_rulesFor]
      constructor
      · rintro ⟨r, hr, rfl⟩
        exact ⟨_, ⟨r, hr, rfl⟩, rfl⟩
      · rintro ⟨p, ⟨r, hr, rfl⟩, rfl⟩
        exact ⟨r, hr, rfl⟩
    · intro s hs a ha
      unfold start0 at hs
      obtain ⟨r, _, rfl⟩ := List.mem_map.mp hs
      cases ha
    · intro p hp
      rw [(hctx p hp).2]; exact Nat.le_refl _

/-! ## `build_new_set` -/

section NewSet
variable {g : Grammar} {w : List Nat} {plA : List (List Item2)} {pl : List CSet2} {k a : Nat}
  {nxt : Option Nat}

theorem buildNewSet_main (hsr : g.symsInRange = true) {tab : Tab2}
    (htab : TabInv2 g g.analysis tab) (h : PLOK2 g plA pl) (hinv : Yaep.Inv2 g w plA)
    (hlen : plA.length = k + 1) (hw : w[k]? = some a) :
    TabInv2 g g.analysis
      (buildNewSet g g.analysis (ok2 g g.analysis nxt) tab pl (pl.getLastD default) (Sym.t a)).1 ∧
    SetOK2 g pl.length
      (buildNewSet g g.analysis (ok2 g g.analysis nxt) tab pl (pl.getLastD default) (Sym.t a)).2 ∧
    ∀ it, it ∈ (buildNewSet g g.analysis (ok2 g g.analysis nxt) tab pl (pl.getLastD default)
        (Sym.t a)).2.items pl.length ↔ it ∈ nextSet2 g g.analysis nxt plA a := by
  have hspec := insert_expand_spec htab (newStarts g nxt pl a).1
  have hnsinv := (newStarts_inv (nxt := nxt) h hinv hlen hw).1
  have hitems := newStarts_items (nxt := nxt) h hinv hlen hw
  have hunf : buildNewSet g g.analysis (ok2 g g.analysis nxt) tab pl (pl.getLastD default) (Sym.t a) =
      let st := newStarts g nxt pl a
      let r := setInsert tab st.1
      let tab' : Tab2 := { r.1 with bad := r.1.bad || st.2 }
      if r.2.2 then
        (tab'.storeCore (expandNewStartSet g g.analysis r.2.1.core),
          { r.2.1 with core := expandNewStartSet g g.analysis r.2.1.core })
      else (tab', r.2.1) := rfl
  rw [hunf]
  dsimp only at hspec ⊢
  have hsb := startOf_bnd (nxt := nxt) (a := a) hinv.bnd
  have key : ∀ (core : Core2) (dists : List Nat) (num : Nat),
      dists = (newStarts g nxt pl a).1.map (·.2) →
      core = expandNewStartSet g g.analysis
        (Core2.fresh num ((newStarts g nxt pl a).1.map (·.1))) →
      SetOK2 g pl.length ⟨core, dists⟩ ∧
        ∀ it, it ∈ (⟨core, dists⟩ : CSet2).items pl.length ↔
          it ∈ nextSet2 g g.analysis nxt plA a := by
    intro core dists num hd hc
    rw [nextSet2_eq, ← h.len]
    refine expanded_set_spec' hsr hd hc hitems hsb ?_
    intro p hp
    exact (hnsinv.all p hp).2.1
  by_cases hnew : (setInsert tab (newStarts g nxt pl a).1).2.2 = true
  · rw [if_pos hnew] at hspec ⊢
    dsimp only at hspec ⊢
    obtain ⟨ht, hd, num, hc⟩ := hspec
    exact ⟨TabInv2_congr ht rfl rfl,
      key (expandNewStartSet g g.analysis (setInsert tab (newStarts g nxt pl a).1).2.1.core)
        (setInsert tab (newStarts g nxt pl a).1).2.1.dists num hd hc⟩
  · rw [if_neg hnew] at hspec ⊢
    dsimp only at hspec ⊢
    obtain ⟨ht, hd, num, hc⟩ := hspec
    exact ⟨TabInv2_congr ht rfl rfl,
      key (setInsert tab (newStarts g nxt pl a).1).2.1.core
        (setInsert tab (newStarts g nxt pl a).1).2.1.dists num hd hc⟩

end NewSet

/-! ## the parse list -/

theorem parseLoopC2_nil (g : Grammar) (an : Analysis) (tab : Tab2) (pl : List CSet2) (k : Nat) :
    parseLoopC2 g an [] tab pl k = (none, tab, pl) := rfl

theorem parseLoopC2_cons (g : Grammar) (an : Analysis) (a : Nat) (rest : List Nat) (tab : Tab2)
    (pl : List CSet2) (k : Nat) :
    parseLoopC2 g an (a :: rest) tab pl k =
      if (pl.getLastD default).core.find (Sym.t a) then
        parseLoopC2 g an rest
          (buildNewSet g an (ok2 g an rest.head?) tab pl (pl.getLastD default) (Sym.t a)).1
          (pl ++ [(buildNewSet g an (ok2 g an rest.head?) tab pl (pl.getLastD default)
            (Sym.t a)).2]) (k + 1)
      else (some k, tab, pl) := rfl

theorem buildPLC2_eq (g : Grammar) (w : List Nat) :
    buildPLC2 g w = parseLoopC2 g g.analysis (w ++ [g.eofT])
      (buildStartSet g g.analysis).1 [(buildStartSet g g.analysis).2] 0 := rfl

/-- `core_symb_vect_find (set->core, term) != NULL` iff the abstract set has a transition -/
theorem find_iff_hasTrans2 {g : Grammar} {plA : List (List Item2)} {pl : List CSet2}
    (h : PLOK2 g plA pl) {k : Nat} (hlen : plA.length = k + 1) (a : Nat) :
    (pl.getLastD default).core.find (Sym.t a) = hasTrans2 g (plA.getLastD []) a := by
  have hpl : pl.length = k + 1 := by rw [← h.len]; exact hlen
  have hk : k < pl.length := by omega
  rw [getLastD_eq_getD pl k _ hpl, getLastD_eq_getD plA k _ hlen]
  have hok := h.ok _ hk
  have hitems := h.items _ hk
  generalize pl.getD k default = set at hok hitems
  have htr := hok.transExact
  apply Bool.eq_iff_iff.mpr
  rw [hasTrans2_iff]
  unfold Core2.find
  simp only [Bool.or_false]
  constructor
  · intro hf
    cases ht : set.core.transOf (Sym.t a) with
    | none => rw [ht] at hf; cases hf
    | some l =>
      obtain ⟨num, ns, hc, _⟩ := hok.exp
      have hv := hc.spec.trans (Sym.t a)
      have e : set.core.proj.transOf (Sym.t a) = set.core.transOf (Sym.t a) := rfl
      rw [e, ht] at hv
      have hne : l ≠ [] := by
        intro hl
        unfold BS.vecOf at hv
        split at hv
        · cases hv
        · rename_i hne'
          injection hv with hv
          exact hne' (hv ▸ hl)
      obtain ⟨i, hi⟩ := List.exists_mem_of_ne_nil _ hne
      have hi' : i ∈ (set.core.transOf (Sym.t a)).getD [] := by rw [ht]; exact hi
      obtain ⟨hlt, hnx⟩ := (htr _ i).mp hi'
      exact ⟨_, (hitems _).mp (mem_items.mpr ⟨i, _, sitAt_get hlt, rfl⟩), hnx⟩
  · rintro ⟨p, hp, hnx⟩
    obtain ⟨i, sit, hs, rfl⟩ := mem_items.mp ((hitems p).mpr hp)
    have hsat := sitAt_of_get hs
    have : i ∈ (set.core.transOf (Sym.t a)).getD [] :=
      (htr _ i).mpr ⟨(List.getElem?_eq_some_iff.mp hs).1, by rw [hsat]; exact hnx⟩
    cases ht : set.core.transOf (Sym.t a) with
    | none => rw [ht] at this; cases this
    | some l => rfl

theorem PLOK2_snoc {g : Grammar} {plA : List (List Item2)} {pl : List CSet2} {sA : List Item2}
    {s : CSet2} (h : PLOK2 g plA pl) (hs : SetOK2 g pl.length s)
    (hi : ∀ it, it ∈ s.items pl.length ↔ it ∈ sA) : PLOK2 g (plA ++ [sA]) (pl ++ [s]) := by
  have hlen := h.len
  refine ⟨by simp [hlen], ?_, ?_⟩
  · intro k hk
    rw [List.length_append, List.length_singleton] at hk
    rw [List.getD_eq_getElem?_getD]
    rcases Nat.lt_or_ge k pl.length with hlt | hge
    · rw [List.getElem?_append_left hlt, ← List.getD_eq_getElem?_getD]
      exact h.ok k hlt
    · have : k = pl.length := by omega
      subst this
      rw [List.getElem?_append_right (Nat.le_refl _)]
      simpa using hs
  · intro k hk it
    rw [List.length_append, List.length_singleton] at hk
    rw [List.getD_eq_getElem?_getD, List.getD_eq_getElem?_getD]
    rcases Nat.lt_or_ge k pl.length with hlt | hge
    · rw [List.getElem?_append_left hlt, List.getElem?_append_left (by omega),
        ← List.getD_eq_getElem?_getD, ← List.getD_eq_getElem?_getD]
      exact h.items k hlt it
    · have : k = pl.length := by omega
      subst this
      rw [List.getElem?_append_right (Nat.le_refl _),
        List.getElem?_append_right (by omega)]
      simpa [hlen] using hi it

/-- the main loop: same error index, and the two parse lists stay related -/
theorem parseLoopC2_spec {g : Grammar} (hsr : g.symsInRange = true) (w' : List Nat) :
    ∀ (toks : List Nat) (tab : Tab2) (pl : List CSet2) (plA : List (List Item2)) (k : Nat),
      w'.drop k = toks → plA.length = k + 1 → TabInv2 g g.analysis tab → PLOK2 g plA pl →
      Yaep.Inv2 g w' plA →
      (parseLoopC2 g g.analysis toks tab pl k).1 = (parseLoop2 g g.analysis toks plA k).1 ∧
      TabInv2 g g.analysis (parseLoopC2 g g.analysis toks tab pl k).2.1 ∧
      PLOK2 g (parseLoop2 g g.analysis toks plA k).2 (parseLoopC2 g g.analysis toks tab pl k).2.2 := by
  intro toks
  induction toks with
  | nil => intro tab pl plA k _ _ ht h _; exact ⟨rfl, ht, h⟩
  | cons a rest ih =>
    intro tab pl plA k hdrop hlen ht h hinv
    obtain ⟨hw, hrest⟩ := drop_succ_of_drop_cons hdrop
    rw [parseLoopC2_cons]
    unfold parseLoop2
    rw [find_iff_hasTrans2 h hlen a]
    by_cases hT : hasTrans2 g (plA.getLastD []) a = true
    · rw [if_pos hT, if_pos hT]
      have hhead : rest.head? = w'[k + 1]? := by rw [← hrest, List.head?_drop]
      rw [hhead]
      obtain ⟨h1, h2, h3⟩ := buildNewSet_main (nxt := w'[k + 1]?) hsr ht h hinv hlen hw
      exact ih _ _ _ (k + 1) hrest (by rw [List.length_append, hlen]; rfl) h1
        (PLOK2_snoc h h2 h3) (hinv.step hsr hlen hw)
    · rw [if_neg hT, if_neg hT]
      exact ⟨rfl, ht, h⟩

theorem buildPLC2_spec {g : Grammar} (hwf : g.WF) (hsr : g.symsInRange = true) (w : List Nat) :
    (buildPLC2 g w).1 = (buildPL2 g w).1 ∧ TabInv2 g g.analysis (buildPLC2 g w).2.1 ∧
      PLOK2 g (buildPL2 g w).2 (buildPLC2 g w).2.2 := by
  rw [buildPLC2_eq]
  have hb : buildPL2 g w = parseLoop2 g g.analysis (w ++ [g.eofT])
      [expand2 g g.analysis (start0 g) 0] 0 := rfl
  rw [hb]
  obtain ⟨h1, h2, h3⟩ := buildStartSet_main hsr
  obtain ⟨hinv0, _⟩ := Inv2.init hwf hsr (w ++ [g.eofT])
  apply parseLoopC2_spec hsr (w ++ [g.eofT]) _ _ _ _ 0 rfl rfl h1 _ hinv0
  refine ⟨rfl, ?_, ?_⟩
  · intro k hk
    have : k = 0 := by simpa using hk
    subst this; simpa using h2
  · intro k hk it
    have : k = 0 := by simpa using hk
    subst this; simpa using h3 it

end Yaep.BS2
