import Yaep.Lemmas.MakeParseAllPush
/-!
# All-parses mode: the top state is popped
-/
namespace Yaep.MP
open Yaep

/-- facts about the top of the stack -/
theorem AGood.top_max {g : Grammar} {ok : Nat → Nat → Nat → Bool} {toks : List Nat} {s : St} {G : Ghost}
    {hole : Option (Nat × Nat)} (hgood : AGood g ok toks s G hole) {sid : Nat} {rest : List Nat}
    (hst : s.stack = sid :: rest) : ∀ x ∈ rest, x < sid := by
  have hs := hgood.sorted
  rw [hst] at hs
  exact (List.pairwise_cons.mp hs).1

/-- a state without abstract node is popped; what it owed is there -/
theorem AGood.popPass {g : Grammar} {ok : Nat → Nat → Nat → Bool} {toks : List Nat} {s s' : St}
    {G : Ghost} (hgood : AGood g ok toks s G none) {sid : Nat} {rest : List Nat}
    (hst : s.stack = sid :: rest) (han : (s.states.getD sid default).anode = none)
    (howe : ∀ pl, Owes g s.states sid pl → getKid s.heap pl.1 pl.2 ≠ none)
    (hh : s'.heap = s.heap) (hs : s'.states = s.states) (hk : s'.stack = rest)
    (ht : s'.table = s.table) (hn : s'.termNodes = s.termNodes) :
    AGood g ok toks s' G none := by
  have hmax := hgood.top_max hst
  have hsub : ∀ x ∈ rest, x ∈ s.stack := fun x hx => by rw [hst]; exact List.mem_cons_of_mem _ hx
  refine ⟨by rw [hh]; exact hgood.h0, by rw [hh]; exact hgood.h1, by rw [hh]; exact hgood.root,
    by rw [hs]; exact hgood.rootSt, ?_, ?_, ?_, ?_, ?_, ?_, by rw [ht, hh]; exact hgood.table,
    by rw [hn, hh]; exact hgood.terms⟩
  · rw [hk]; have := hgood.sorted; rw [hst] at this; exact (List.pairwise_cons.mp this).2
  · intro x hx; rw [hk] at hx; exact hgood.spos x (hsub x hx)
  · intro x hx
    rw [hk] at hx
    obtain ⟨rl, hsx⟩ := hgood.states x (hsub x hx)
    refine ⟨rl, ?_⟩
    rw [hh, hs, hk]
    refine hsx.frame (fun a ha => by have := hsx.cell; rw [ha] at this; exact this) rfl
      (Nat.le_refl _) rfl rfl rfl rfl (Nat.le_refl _) (fun _ _ => rfl) ?_
    intro hP
    rw [hst] at hP
    rcases List.mem_cons.mp hP with e | hP
    · have := hsx.parLt; have := hmax x hx; omega
    · exact hP
  · intro x hx y hy a
    rw [hk] at hx hy; rw [hs]
    exact hgood.noShare x (hsub x hx) y (hsub y hy) a
  · intro n hnlt hnroot hnan
    rw [hh] at hnlt hnan ⊢
    rw [hs, hk]
    rcases hgood.cells n hnlt hnroot hnan with ⟨hf, hno⟩ | ⟨z, hz, hza⟩
    · exact Or.inl ⟨hf, fun z hz => hno z (hsub z hz)⟩
    · rw [hst] at hz
      rcases List.mem_cons.mp hz with rfl | hz
      · rw [han] at hza; cases hza
      · exact Or.inr ⟨z, hz, hza⟩
  · intro x hx pl hproc _
    rw [hk] at hx; rw [hs] at hproc
    rw [hh, hs, hk]
    rcases hgood.nn x (hsub x hx) pl hproc (by simp) with h1 | ⟨z, hz, hxz, ho⟩
    · exact Or.inl h1
    · rw [hst] at hz
      rcases List.mem_cons.mp hz with rfl | hz
      · exact Or.inl (howe pl ho)
      · exact Or.inr ⟨z, hz, hxz, ho⟩

/-- a state with abstract node is popped after the NULL → NIL pass: its cell is finished -/
theorem AGood.popOwner {g : Grammar} {ok : Nat → Nat → Nat → Bool} {toks : List Nat} {s s' : St}
    {G : Ghost} (hwf : g.translWF = true) (hgood : AGood g ok toks s G none) {sid a : Nat}
    {rest : List Nat} {rl : Rule}
    (hst : s.stack = sid :: rest) (han : (s.states.getD sid default).anode = some a)
    (hr : g.rules[(s.states.getD sid default).rule]? = some rl)
    (hpos : (s.states.getD sid default).pos = 0)
    (hh : s'.heap = fillNil s.heap a rl.transLen) (hs : s'.states = s.states) (hk : s'.stack = rest)
    (ht : s'.table = s.table) (hn : s'.termNodes = s.termNodes) :
    AGood g ok toks s' G none := by
  have hmax := hgood.top_max hst
  have hsidmem : sid ∈ s.stack := by rw [hst]; simp
  have hsub : ∀ x ∈ rest, x ∈ s.stack := fun x hx => by rw [hst]; exact List.mem_cons_of_mem _ hx
  obtain ⟨rl0, hsid⟩ := hgood.states sid hsidmem
  have hrl : rl0 = rl := by have := hsid.hr; rw [hr] at this; injection this with this; exact this.symm
  subst hrl
  have hok := Grammar.translWF_rule hwf hr
  have hcell := hsid.cell
  rw [han] at hcell
  obtain ⟨c1, c2, c3, nm, ks, c4, c5, c6, c7⟩ := hcell
  obtain ⟨f1, f2, ks', f3, f4, f5⟩ := fillNil_spec c5 c1 rl0.transLen
  rw [← hh] at f1 f2 f3
  have hext : HeapExt s.heap s'.heap := by
    refine ⟨by rw [f1]; exact Nat.le_refl _, fun m hm => ?_⟩
    by_cases hma : m = a
    · subst hma; exact Or.inr ⟨nm, _, ks, ks', c5, f3⟩
    · exact Or.inl (f2 m hma)
  have hty : ∀ m, m < s.heap.size → G.ty m = G.ty m := fun _ _ => rfl
  have c2' : 2 < a := c2
  obtain ⟨rks, k1, k2, k3, k4⟩ := hgood.root
  have hkmono : ∀ pl : Nat × Nat, getKid s.heap pl.1 pl.2 ≠ none → getKid s'.heap pl.1 pl.2 ≠ none := by
    intro pl hpl
    by_cases hpa : pl.1 = a
    · rw [hpa] at hpl ⊢
      rw [getKid_of_cell c5] at hpl
      rw [getKid_of_cell f3, f5]
      split
      · simp
      · exact hpl
    · unfold getKid at hpl ⊢
      rw [f2 _ hpa]; exact hpl
  refine ⟨by rw [f2 _ (by show 0 ≠ a; omega)]; exact hgood.h0,
    by rw [f2 _ (by show 1 ≠ a; omega)]; exact hgood.h1,
    ⟨rks, by rw [f2 _ (by show 2 ≠ a; omega)]; exact k1, k2, by rw [f1]; exact k3,
      fun m hm => (k4 m hm).mono hext hty (fun _ h => h)⟩,
    by rw [hs]; exact hgood.rootSt, ?_, ?_, ?_, ?_, ?_, ?_, ?_, ?_⟩
  · rw [hk]; have := hgood.sorted; rw [hst] at this; exact (List.pairwise_cons.mp this).2
  · intro x hx; rw [hk] at hx; exact hgood.spos x (hsub x hx)
  · intro x hx
    rw [hk] at hx
    obtain ⟨rlx, hsx⟩ := hgood.states x (hsub x hx)
    refine ⟨rlx, ?_⟩
    rw [hs, hk]
    refine hsx.frame (fun b hb => ?_) rfl (Nat.le_refl _) rfl rfl rfl rfl (Nat.le_refl _)
      (fun _ _ => rfl) ?_
    · have hcx := hsx.cell; rw [hb] at hcx
      have hba : b ≠ a := by
        intro e; subst e
        have := hgood.noShare x (hsub x hx) sid hsidmem b hb han
        have := hmax x hx; omega
      exact hcx.frame hext hty (f2 b hba) rfl rfl
    · intro hP
      rw [hst] at hP
      rcases List.mem_cons.mp hP with e | hP
      · have := hsx.parLt; have := hmax x hx; omega
      · exact hP
  · intro x hx y hy b
    rw [hk] at hx hy; rw [hs]
    exact hgood.noShare x (hsub x hx) y (hsub y hy) b
  · -- the cells
    intro n hnlt hnroot hnan
    rw [hs, hk]
    rw [f1] at hnlt
    by_cases hna : n = a
    · subst hna
      left
      refine ⟨?_, ?_⟩
      · refine ⟨rl0, nm, ks', G.ssp sid, by rw [c3]; exact hr, c4, f3, by rw [f4, c6],
          by rw [c3]; exact hsid.pos0 hpos, by rw [c3]; exact hsid.spFin,
          fun q X hX ho => hsid.untr q X (by rw [hpos]; exact Nat.zero_le _) hX ho, ?_, ?_⟩
        · intro d hd
          rw [f5 d]
          by_cases hq : ∃ q, rl0.order.getD q none = some d
          · obtain ⟨q, hq⟩ := hq
            have hproc : Proc g s.states sid (n, d) :=
              ⟨rl0, q, d, hr, by rw [hpos]; exact Nat.zero_le _, hq, by unfold placeOfSt; rw [han]⟩
            rcases hgood.nn sid hsidmem (n, d) hproc (by simp) with h1 | ⟨z, hz, hxz, _⟩
            · simp only at h1
              rw [getKid_of_cell c5] at h1
              cases hkd : ks.getD d none with
              | none => exact absurd hkd h1
              | some m =>
                rw [if_neg (fun hh => by cases hh.2.2)]
                refine ⟨m, rfl, Or.inl ?_⟩
                obtain ⟨q', X, d1, d2, d3, d4⟩ := c7 d m hkd
                exact ⟨q', X, d2, d3, d4.mono hext hty (fun _ h => h)⟩
            · rw [hst] at hz
              rcases List.mem_cons.mp hz with rfl | hz
              · exact absurd hxz (Nat.lt_irrefl _)
              · have := hmax z hz; omega
          · have hq' : ∀ q, rl0.order.getD q none ≠ some d := fun q hh => hq ⟨q, hh⟩
            cases hkd : ks.getD d none with
            | none =>
              rw [if_pos ⟨hd, by omega, rfl⟩]
              exact ⟨nilId, rfl, Or.inr ⟨hq', rfl⟩⟩
            | some m =>
              obtain ⟨q', X, d1, d2, d3, d4⟩ := c7 d m hkd
              exact absurd d2 (hq' q')
        · rw [f5, if_neg (fun hh => Nat.lt_irrefl _ hh.1)]
          cases hkd : ks.getD rl0.transLen none with
          | none => rfl
          | some m =>
            obtain ⟨q', X, d1, d2, d3, d4⟩ := c7 _ m hkd
            exact absurd (hok.slot_lt _ _ (order_getD_eq_some.mp d2)) (Nat.lt_irrefl _)
      · intro z hz e
        have := hgood.noShare z (hsub z hz) sid hsidmem n e han
        have := hmax z hz; omega
    · rw [f2 n hna] at hnan
      rcases hgood.cells n hnlt hnroot hnan with ⟨hf, hno⟩ | ⟨z, hz, hza⟩
      · exact Or.inl ⟨hf.frame hnlt hext hty (f2 n hna), fun z hz => hno z (hsub z hz)⟩
      · rw [hst] at hz
        rcases List.mem_cons.mp hz with rfl | hz
        · rw [han] at hza; injection hza with hza; exact absurd hza.symm hna
        · exact Or.inr ⟨z, hz, hza⟩
  · intro x hx pl hproc _
    rw [hk] at hx; rw [hs] at hproc
    rw [hs, hk]
    rcases hgood.nn x (hsub x hx) pl hproc (by simp) with h1 | ⟨z, hz, hxz, ho⟩
    · exact Or.inl (hkmono pl h1)
    · rw [hst] at hz
      rcases List.mem_cons.mp hz with rfl | hz
      · rw [ho.1] at han; cases han
      · exact Or.inr ⟨z, hz, hxz, ho⟩
  · intro pl r o node hmem
    rw [ht] at hmem
    obtain ⟨t1, t2, ⟨nm1, c1', ks1, t3⟩, t4⟩ := hgood.table pl r o node hmem
    refine ⟨by rw [f1]; exact t1, t2, ?_, t4⟩
    by_cases hna : node = a
    · subst hna; exact ⟨nm, _, ks', f3⟩
    · exact ⟨nm1, c1', ks1, by rw [f2 node hna]; exact t3⟩
  · intro k node hmem
    rw [hn] at hmem
    obtain ⟨t1, a', t2, t3⟩ := hgood.terms k node hmem
    refine ⟨by rw [f1]; exact t1, a', t2, ?_⟩
    by_cases hna : node = a
    · subst hna; rw [c5] at t3; cases t3
    · rw [f2 node hna]; exact t3

end Yaep.MP
