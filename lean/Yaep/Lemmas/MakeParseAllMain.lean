import Yaep.Lemmas.MakeParseAllTerm
/-!
# All-parses mode: the main loop keeps the invariant; the result is sound
-/
namespace Yaep.MP
open Yaep

/-! ## the flag `bad` is never reset (all parses) -/

theorem stepTerm_bad_all {c : Ctx} {sid : Nat} {st : PState} {pos : Nat} {disp : Option Nat} {a : Nat}
    {pa : Option Nat} {s : St} (hall : c.oneParse = false) (hb : s.bad = true) :
    (stepTerm c sid st pos disp a pa s).bad = true := by
  unfold stepTerm
  cases pa <;> cases disp <;> simp [hall, hb]
  split
  · simp
  · split <;> simp

theorem candPre_bad (L : Loc) (sit : Item) (n : Nat) (s : St) : (candPre L sit n s).bad = s.bad := by
  unfold candPre
  simp only
  split <;> split <;> rfl

theorem candHead_bad (L : Loc) (sit : Item) (n : Nat) (os : List Nat) (s : St) (pp : Nat × Nat)
    (disp : Nat) : (candHead L sit n os s pp disp).1.bad = s.bad := by
  by_cases hn : n = 0
  · subst hn; rw [candHead_zero]
  · cases hf : (headOs L n os).find? (fun sid => (s.state sid).plInd == sit.origin) with
    | some x => rw [candHead_found hn hf]
    | none =>
      cases ha : (s.state L.origSid).anode with
      | some a => exact (candHead_copy_owner hn hf ha).2.2.2.2.2.1
      | none => exact (candHead_copy_pass hn hf ha).2.2.2.2.2.1

theorem candTail_bad {c : Ctx} (hall : c.oneParse = false) (L : Loc) (sit : Item) (pp : Nat × Nat)
    (disp : Nat) (s : St) (os : List Nat) (cur : Nat) (anode : Option Nat) :
    (candTail c L sit pp disp (s, os, cur, anode)).1.bad = s.bad := by
  cases hn : (c.rule sit.rule).anode with
  | some name =>
    cases hf : tableFind s.table sit.rule sit.origin L.plInd with
    | none => exact (candTail_new hall hn hf).2.2.2.2.2.1
    | some node => exact (candTail_reuse hall hn hf).2.2.2.2.2.1
  | none =>
    by_cases hdot : sit.dot = 0
    · exact (candTail_nil hn hdot).2.2.2.2.2.1
    · exact (candTail_pass hn hdot).2.2.2.2.2.1

theorem candidate_bad_all {c : Ctx} (hall : c.oneParse = false) (L : Loc) (sit : Item) (n : Nat)
    (os : List Nat) (s : St) : (candidate c L sit n os s).1.bad = s.bad := by
  rw [candidate_eq]
  cases L.parentAnode with
  | none => exact candPre_bad L sit n s
  | some pa =>
    cases L.disp with
    | none => exact candPre_bad L sit n s
    | some d =>
      simp only
      generalize hr : candHead L sit n os (candPre L sit n s) (pa, L.parentDisp) d = r
      obtain ⟨s1, os1, cur1, an1⟩ := r
      rw [candTail_bad hall]
      have := candHead_bad L sit n os (candPre L sit n s) (pa, L.parentDisp) d
      rw [hr] at this
      rw [this, candPre_bad]

theorem candLoop_bad_all {c : Ctx} (hall : c.oneParse = false) (L : Loc) (set : Array Item)
    (l : List Nat) (n : Nat) (os : List Nat) (s : St) (hb : s.bad = true) :
    (candLoop c L set l n os s).1.bad = true := by
  obtain ⟨os', hM⟩ := candLoop_all (c := c) (L := L) (set := set) hall
    (fun _ _ s' => s'.bad = true) (fun _ _ _ _ h => h) l
    (fun i _ n os s' _ hm => by rw [candidate_bad_all hall]; exact hm) n os s hb
  exact hM

theorem step_bad_all {c : Ctx} {s : St} (hall : c.oneParse = false) (hb : s.bad = true) :
    (step c s).bad = true := by
  unfold step
  split
  · exact hb
  · rename_i sid rest hst
    simp only
    split
    · split
      · split
        · split
          · exact hb
          · exact hb
        · exact hb
      · rename_i an han
        exact ((popFold_proj an _ _).2.2.2).trans hb
    · split
      · exact stepTerm_bad_all hall hb
      · rename_i A hA
        split
        · rfl
        · exact candLoop_bad_all hall _ _ _ _ _ _ hb

/-! ## the main loop -/

/-- the invariant of the main loop, all parses -/
def AInv (g : Grammar) (ok : Nat → Nat → Nat → Bool) (toks : List Nat) (s : St) : Prop :=
  s.bad = true ∨ ∃ G, AGood g ok toks s G none

theorem astep_inv {g : Grammar} {ok : Nat → Nat → Nat → Bool} {toks : List Nat} {c : Ctx} {s : St}
    (hc : CtxAll g ok toks c) (hg : GrOK g) (hinv : AInv g ok toks s) : AInv g ok toks (step c s) := by
  rcases hinv with hb | ⟨G, hgood⟩
  · exact Or.inl (step_bad_all hc.all hb)
  · cases hst : s.stack with
    | nil =>
      have : step c s = s := by unfold step; rw [hst]
      rw [this]; exact Or.inr ⟨G, hgood⟩
    | cons X rest =>
      have hXmem : X ∈ s.stack := by rw [hst]; simp
      obtain ⟨rl, hX⟩ := hgood.states X hXmem
      have hr : g.rules[(s.state X).rule]? = some rl := hX.hr
      by_cases hpos : (s.state X).pos = 0
      · exact Or.inr (astep_pop hc hg hgood hst hpos)
      · have hle : (s.state X).pos ≤ rl.rhs.length := hX.posLe
        have hlt : (s.state X).pos - 1 < rl.rhs.length := by omega
        cases hY : rl.rhs[(s.state X).pos - 1] with
        | t a =>
          exact Or.inr (astep_term hc hg.twf hgood hst hr hpos
            (by rw [List.getElem?_eq_getElem hlt, hY]))
        | n A =>
          rcases astep_nt hc hg.twf hgood hst hr hpos
            (by rw [List.getElem?_eq_getElem hlt, hY]) with hb | hgd
          · exact Or.inl hb
          · exact Or.inr hgd

theorem arun_inv {g : Grammar} {ok : Nat → Nat → Nat → Bool} {toks : List Nat} {c : Ctx}
    (hc : CtxAll g ok toks c) (hg : GrOK g) : ∀ (fuel : Nat) (s s' : St), AInv g ok toks s →
      run c fuel s = some s' → AInv g ok toks s'
  | 0, s, s', hinv, hr => by
    unfold run at hr
    split at hr
    · injection hr with hr; rw [← hr]; exact hinv
    · cases hr
  | fuel + 1, s, s', hinv, hr => by
    unfold run at hr
    split at hr
    · injection hr with hr; rw [← hr]; exact hinv
    · exact arun_inv hc hg fuel _ _ (astep_inv hc hg hinv) hr

theorem ainit_inv {g : Grammar} {ok : Nat → Nat → Nat → Bool} {toks : List Nat} {c : Ctx}
    (hc : CtxAll g ok toks c) (hg : GrOK g) {s0 : St} (hi : init c = some s0) :
    ∃ G, AGood g ok toks s0 G none := by
  unfold init at hi
  simp only at hi
  split at hi
  · cases hi
  · rename_i sit hsit
    split at hi
    · cases hi
    · rename_i hcond
      injection hi with hi
      simp only [Bool.or_eq_true, bne_iff_ne, ne_eq, not_or, Decidable.not_not] at hcond
      obtain ⟨⟨ho, hlhs⟩, hdot⟩ := hcond
      have hpl : c.sets.size - 1 = toks.length := by rw [hc.size]; rfl
      rw [hpl] at hsit hi
      have h0lt : 0 < (c.sets.getD toks.length #[]).size := by
        rcases Nat.eq_zero_or_pos (c.sets.getD toks.length #[]).size with h | h
        · rw [Array.getElem?_eq_none (by omega)] at hsit; cases hsit
        · exact h
      have hsit' : (c.sets.getD toks.length #[]).getD 0 default = sit := by
        rw [Array.getD_eq_getD_getElem?, hsit]; rfl
      have hE := hc.sound toks.length 0 h0lt
      rw [hsit'] at hE
      obtain ⟨rl0, hr0, _⟩ := hE.sound
      have hrule := hc.rule_eq hr0
      rw [hrule] at hlhs hdot
      rw [hc.axiomN] at hlhs
      obtain ⟨sr, sd, so⟩ := sit
      simp only at ho hdot hr0 hlhs
      subst ho; subst hdot
      have hok := Grammar.translWF_rule hg.twf hr0
      subst hi
      refine ⟨{ ty := fun _ => default, sfin := fun _ => toks.length, ssp := fun _ _ => toks.length }, ?_⟩
      refine ⟨rfl, rfl, ⟨#[none], rfl, rfl, by simp [rootId], fun m hm => by simp at hm⟩,
        ⟨rfl, by simp⟩, by simp, ?_, ?_, ?_, ?_, ?_, ?_, ?_⟩
      · intro sid hsid
        simp only [List.mem_singleton] at hsid
        subst hsid; exact Nat.one_pos
      · intro sid hsid
        simp only [List.mem_singleton] at hsid
        subst hsid
        refine ⟨rl0, by simp, by simp, hr0, by simp, ?_, ?_, rfl, ?_, ⟨rootId, rfl⟩, ?_, ?_⟩
        · intro _
          exact ⟨by simpa using hE, rfl⟩
        · intro h0
          have h0' : rl0.rhs.length = 0 := h0
          rw [h0'] at hE
          exact hE.dot_zero.symm
        · intro q X hq hX _
          have hq' : rl0.rhs.length ≤ q := hq
          have := (List.getElem?_eq_some_iff.mp hX).1
          omega
        · exact Or.inl ⟨rfl, rfl, by rw [hlhs]; exact fun _ h => h⟩
        · exact hg.axiomPass _ _ hr0 hlhs
      · intro x hx y hy a _ _
        simp only [List.mem_singleton] at hx hy
        rw [hx, hy]
      · intro n hn hroot ⟨nm, cc, ks, hcell⟩
        exfalso
        have hn3 : n < 3 := hn
        have hr2 : n ≠ 2 := hroot
        have : n = 0 ∨ n = 1 := by omega
        rcases this with rfl | rfl <;> simp [Array.getD_eq_getD_getElem?] at hcell
      · intro sid hsid pl hproc _
        simp only [List.mem_singleton] at hsid
        subst hsid
        obtain ⟨rlx, q, d, q1, q2, q3, _⟩ := hproc
        have q1' : g.rules[sr]? = some rlx := q1
        rw [hr0] at q1'; injection q1' with q1'; subst q1'
        have q2' : rl0.rhs.length ≤ q := q2
        rw [order_getD_none_of_le hok q2'] at q3; cases q3
      · intro pl r o node hm
        simp [Array.getD_eq_getD_getElem?, Array.getElem?_replicate] at hm
        split at hm <;> simp at hm
      · intro k node hm
        simp [Array.getD_eq_getD_getElem?, Array.getElem?_replicate] at hm
        split at hm <;> simp at hm

/-- **`make_parse`, all parses, is sound** over any parse list whose sets contain only items of the
Earley relation: every tree the returned table denotes is the translation of a derivation of the
whole input -/
theorem makeParse_all_sound_ctx {g : Grammar} {ok : Nat → Nat → Nat → Bool} {toks : List Nat}
    {sets : Array (Array Item)} {plToks : Array Int} {fuel : Nat} {res : Result}
    (hc : CtxAll g ok toks (mkCtx g sets plToks false)) (hg : GrOK g)
    (hm : makeParse g sets plToks false fuel = .ok res) :
    ∀ t ∈ (denoteTab res.tab).getD res.root [],
      ∃ pt, PT.IsDerivation g toks pt ∧ translate g pt = t := by
  simp only [makeParse] at hm
  split at hm
  · cases hm
  · rename_i s0 hi
    split at hm
    · cases hm
    · rename_i s hr
      split at hm
      · cases hm
      · rename_i hb
        split at hm
        · cases hm
        · rename_i r hres
          split at hm
          · cases hm
          · rename_i tab root hx
            injection hm with hm
            subst hm
            simp only
            obtain ⟨G0, hg0⟩ := ainit_inv hc hg hi
            rcases arun_inv hc hg fuel s0 s (Or.inr ⟨G0, hg0⟩) hr with hbad | ⟨G, hgood⟩
            · rw [hbad] at hb; simp at hb
            · exact final_all_sound hg.twf hgood (run_stack_empty _ fuel s0 s hr) hres hx

end Yaep.MP
