import Yaep.Lemmas.NoGarbageMain
import Yaep.Props.PruneC
/-!
# No garbage, part 10: the cost flag — `find_minimal_translation` on the heap of `make_parse`

Every cell `make_parse` allocated is, after `find_minimal_translation`, exactly one of: still in the
tree (reachable from the new root), handed to `parse_free` by `find_minimal_translation`, or the
unused NIL / ERROR node that `make_parse` hands back at its end.
-/
namespace Yaep.NG
open Yaep MP

section
variable {h0 : Array PC.Cell} {rk hd : Nat → Nat} (wf : PC.WfHeap h0 rk hd) {root fuel : Nat}
  (hr : root < h0.size) (hdr : hd root = root) (hf : h0.size ≤ fuel) (one : Bool)
  (nameBlk : Nat → Nat) (nu eu : Bool)
include wf hr hdr hf

/-- what is reachable from the new root was reachable from the old one -/
theorem pruned_reach_sub {z : Nat}
    (h : PC.Reach (PC.findMinimalTranslation fuel h0 root one true nameBlk nu eu).heap
      (PC.findMinimalTranslation fuel h0 root one true nameBlk nu eu).root z) : PC.Reach h0 root z := by
  rw [PC.fmt_heap, PC.fmt_root, (PC.pass1_facts wf hr hdr hf one true).2.1] at h
  have hs := PC.reach_new_seen wf hr hdr hf one true nameBlk h
  obtain ⟨p1, _, _, _, _, p6⟩ := PC.pass1_facts wf hr hdr hf one true
  exact p6 z (hs.coll wf p1 rfl)

end

/-- the cells `make_parse` hands back at its end, after `find_minimal_translation` has updated the
`used` flags -/
def handedBackAfter (R : PC.Result) : List Nat :=
  (if R.nilUsed then [] else [nilId]) ++ (if R.errUsed then [] else [errId])

theorem mem_handedBackAfter {R : PC.Result} {i : Nat} :
    i ∈ handedBackAfter R ↔ (i = nilId ∧ R.nilUsed = false) ∨ (i = errId ∧ R.errUsed = false) := by
  unfold handedBackAfter
  cases R.nilUsed <;> cases R.errUsed <;> simp

theorem nil_unique {h : Array MNode} (hk : HOK h) {q : Nat} (hq : q < h.size)
    (hn : PC.isNilCell (PC.ofHeap h) q = true) : q = nilId := by
  unfold PC.isNilCell at hn
  rw [cellAt_ofHeap] at hn
  rcases (by omega : q = 0 ∨ q = 1 ∨ q = 2 ∨ 3 ≤ q) with e | e | e | e
  · exact e
  · subst e; have := hk.cerr; unfold errId at this; rw [this] at hn; simp [PC.ofMNode] at hn
  · subst e
    obtain ⟨nm, cst, ks, c1, _⟩ := hk.croot
    unfold rootId at c1; rw [c1] at hn; simp [PC.ofMNode] at hn
  · have := (hk.leaf q e hq).1
    cases hc : h.getD q .nil <;> rw [hc] at hn <;> simp [PC.ofMNode] at hn
    exact absurd hc this

theorem err_unique {h : Array MNode} (hk : HOK h) {q : Nat} (hq : q < h.size)
    (hn : PC.isErrCell (PC.ofHeap h) q = true) : q = errId := by
  unfold PC.isErrCell at hn
  rw [cellAt_ofHeap] at hn
  rcases (by omega : q = 0 ∨ q = 1 ∨ q = 2 ∨ 3 ≤ q) with e | e | e | e
  · subst e; have := hk.cnil; unfold nilId at this; rw [this] at hn; simp [PC.ofMNode] at hn
  · exact e
  · subst e
    obtain ⟨nm, cst, ks, c1, _⟩ := hk.croot
    unfold rootId at c1; rw [c1] at hn; simp [PC.ofMNode] at hn
  · have := (hk.leaf q e hq).2
    cases hc : h.getD q .nil <;> rw [hc] at hn <;> simp [PC.ofMNode] at hn
    exact absurd hc this

theorem isNil_nilId {h : Array MNode} (hk : HOK h) : PC.isNilCell (PC.ofHeap h) nilId = true := by
  unfold PC.isNilCell; rw [cellAt_ofHeap, hk.cnil]; rfl

theorem isErr_errId {h : Array MNode} (hk : HOK h) : PC.isErrCell (PC.ofHeap h) errId = true := by
  unfold PC.isErrCell; rw [cellAt_ofHeap, hk.cerr]; rfl

/-- **the cost flag, cells**: after `find_minimal_translation` (with `parse_free`) every cell of the
tree memory of `make_parse` other than the C-stack cell `rootId` is exactly one of: reachable from
the new root; handed to `parse_free` by `find_minimal_translation` (exactly once: `R.frees.Nodup`);
the NIL / ERROR node handed back at the end of `make_parse`.  Nothing else is released. -/
theorem cost_partition {c : Ctx} {s : St} {r : Nat} {rk hd : Nat → Nat} (hi : NGInv c s)
    (hst : s.stack = []) (hres : s.result = some r) (wf : PC.WfHeap (PC.ofHeap s.heap) rk hd)
    (hr : r < (PC.ofHeap s.heap).size) (hdr : hd r = r) {fuel' : Nat} (hf : s.heap.size ≤ fuel')
    (onep : Bool) (nameBlk : Nat → Nat) :
    (PC.findMinimalTranslation fuel' (PC.ofHeap s.heap) r onep true nameBlk s.nilUsed s.errUsed).frees.Nodup ∧
    (∀ i, i < s.heap.size → i ≠ rootId →
      (PC.Reach (PC.findMinimalTranslation fuel' (PC.ofHeap s.heap) r onep true nameBlk s.nilUsed s.errUsed).heap
          (PC.findMinimalTranslation fuel' (PC.ofHeap s.heap) r onep true nameBlk s.nilUsed s.errUsed).root i ∧
        PC.Mem.cell i ∉ (PC.findMinimalTranslation fuel' (PC.ofHeap s.heap) r onep true nameBlk s.nilUsed s.errUsed).frees ∧
        i ∉ handedBackAfter (PC.findMinimalTranslation fuel' (PC.ofHeap s.heap) r onep true nameBlk s.nilUsed s.errUsed)) ∨
      (¬ PC.Reach (PC.findMinimalTranslation fuel' (PC.ofHeap s.heap) r onep true nameBlk s.nilUsed s.errUsed).heap
          (PC.findMinimalTranslation fuel' (PC.ofHeap s.heap) r onep true nameBlk s.nilUsed s.errUsed).root i ∧
        PC.Mem.cell i ∈ (PC.findMinimalTranslation fuel' (PC.ofHeap s.heap) r onep true nameBlk s.nilUsed s.errUsed).frees ∧
        i ∉ handedBackAfter (PC.findMinimalTranslation fuel' (PC.ofHeap s.heap) r onep true nameBlk s.nilUsed s.errUsed)) ∨
      (¬ PC.Reach (PC.findMinimalTranslation fuel' (PC.ofHeap s.heap) r onep true nameBlk s.nilUsed s.errUsed).heap
          (PC.findMinimalTranslation fuel' (PC.ofHeap s.heap) r onep true nameBlk s.nilUsed s.errUsed).root i ∧
        PC.Mem.cell i ∉ (PC.findMinimalTranslation fuel' (PC.ofHeap s.heap) r onep true nameBlk s.nilUsed s.errUsed).frees ∧
        i ∈ handedBackAfter (PC.findMinimalTranslation fuel' (PC.ofHeap s.heap) r onep true nameBlk s.nilUsed s.errUsed))) ∧
    (∀ i,
      (PC.Reach (PC.findMinimalTranslation fuel' (PC.ofHeap s.heap) r onep true nameBlk s.nilUsed s.errUsed).heap
          (PC.findMinimalTranslation fuel' (PC.ofHeap s.heap) r onep true nameBlk s.nilUsed s.errUsed).root i ∨
        PC.Mem.cell i ∈ (PC.findMinimalTranslation fuel' (PC.ofHeap s.heap) r onep true nameBlk s.nilUsed s.errUsed).frees ∨
        i ∈ handedBackAfter (PC.findMinimalTranslation fuel' (PC.ofHeap s.heap) r onep true nameBlk s.nilUsed s.errUsed)) →
      i < s.heap.size ∧ i ≠ rootId) := by
  have hf' : (PC.ofHeap s.heap).size ≤ fuel' := by rw [size_ofHeap]; exact hf
  generalize hR : PC.findMinimalTranslation fuel' (PC.ofHeap s.heap) r onep true nameBlk s.nilUsed
    s.errUsed = R
  have F1 : ∀ q, PC.Mem.cell q ∈ R.frees ↔ PC.Reach (PC.ofHeap s.heap) r q ∧
      ¬ PC.Reach R.heap R.root q ∧ PC.isNE (PC.ofHeap s.heap) q = false := by
    intro q; rw [← hR]; exact PC.pruneC_frees wf hr hdr hf' onep nameBlk _ _ q
  have F3 : ∀ z, PC.Reach R.heap R.root z → PC.Reach (PC.ofHeap s.heap) r z := by
    intro z hz; rw [← hR] at hz; exact pruned_reach_sub wf hr hdr hf' onep nameBlk _ _ hz
  have FN : R.nilUsed = true ↔ s.nilUsed = true ∧ ∀ q, PC.isNilCell (PC.ofHeap s.heap) q = true →
      PC.Reach (PC.ofHeap s.heap) r q → PC.Reach R.heap R.root q := by
    rw [← hR]; exact PC.pruneC_nil_used wf hr hdr hf' onep nameBlk _ _
  have FE : R.errUsed = true ↔ s.errUsed = true ∧ ∀ q, PC.isErrCell (PC.ofHeap s.heap) q = true →
      PC.Reach (PC.ofHeap s.heap) r q → PC.Reach R.heap R.root q := by
    rw [← hR]; exact PC.pruneC_err_used wf hr hdr hf' onep nameBlk _ _
  have hnd : R.frees.Nodup := by rw [← hR]; exact PC.pruneC_frees_nodup onep nameBlk _ _
  have hi' : Inv c s.heap s.states [] s.nilUsed s.errUsed s.namedRules s.nameAfter := by
    have := hi; unfold NGInv at this; rw [hst] at this; exact this
  have hk := hi'.hok
  have hsz := hk.size
  have hlive := reach_iff_live hi hst hres wf hr
  have hreach_lt : ∀ q, PC.Reach (PC.ofHeap s.heap) r q → q < s.heap.size := by
    intro q hq
    have := ((hlive q).1 hq)
    rw [mem_liveCells] at this
    exact this.1
  -- the flags after pruning
  have hnilT : PC.Reach R.heap R.root nilId → R.nilUsed = true := by
    intro hre
    have hold := F3 _ hre
    have hl := (hlive _).1 hold
    rw [mem_liveCells] at hl
    refine FN.2 ⟨hl.2.2.1 rfl, ?_⟩
    intro q hq hrq
    rw [nil_unique hk (hreach_lt q hrq) hq]; exact hre
  have herrT : PC.Reach R.heap R.root errId → R.errUsed = true := by
    intro hre
    have hold := F3 _ hre
    have hl := (hlive _).1 hold
    rw [mem_liveCells] at hl
    refine FE.2 ⟨hl.2.2.2 rfl, ?_⟩
    intro q hq hrq
    rw [err_unique hk (hreach_lt q hrq) hq]; exact hre
  have hnilF : ¬ PC.Reach R.heap R.root nilId → R.nilUsed = false := by
    intro hre
    cases hn : R.nilUsed with
    | false => rfl
    | true =>
      obtain ⟨h1, h2⟩ := FN.1 hn
      have : nilId ∈ liveCells s := by
        rw [mem_liveCells]
        exact ⟨by unfold nilId; omega, by decide, fun _ => h1, fun e => by cases e⟩
      exact absurd (h2 nilId (isNil_nilId hk) ((hlive _).2 this)) hre
  have herrF : ¬ PC.Reach R.heap R.root errId → R.errUsed = false := by
    intro hre
    cases hn : R.errUsed with
    | false => rfl
    | true =>
      obtain ⟨h1, h2⟩ := FE.1 hn
      have : errId ∈ liveCells s := by
        rw [mem_liveCells]
        exact ⟨by unfold errId; omega, by decide, (fun e => by cases e), fun _ => h1⟩
      exact absurd (h2 errId (isErr_errId hk) ((hlive _).2 this)) hre
  have hNE : ∀ q, q < s.heap.size → PC.isNE (PC.ofHeap s.heap) q = true → q = nilId ∨ q = errId := by
    intro q hq hne
    unfold PC.isNE at hne
    simp only [Bool.or_eq_true] at hne
    rcases hne with h1 | h1
    · exact Or.inl (nil_unique hk hq h1)
    · exact Or.inr (err_unique hk hq h1)
  have hNE' : ∀ q, q = nilId ∨ q = errId → PC.isNE (PC.ofHeap s.heap) q = true := by
    intro q hq
    unfold PC.isNE
    rcases hq with e | e
    · rw [e, isNil_nilId hk]; rfl
    · rw [e, isErr_errId hk]; simp
  refine ⟨hnd, ?_, ?_⟩
  · intro i hlt hne
    by_cases hre : PC.Reach R.heap R.root i
    · left
      refine ⟨hre, fun hfr => ((F1 i).1 hfr).2.1 hre, ?_⟩
      rw [mem_handedBackAfter]
      rintro (⟨e, h1⟩ | ⟨e, h1⟩)
      · subst e; rw [hnilT hre] at h1; cases h1
      · subst e; rw [herrT hre] at h1; cases h1
    · right
      by_cases hne' : PC.isNE (PC.ofHeap s.heap) i = true
      · right
        refine ⟨hre, (fun hfr => by rw [((F1 i).1 hfr).2.2] at hne'; cases hne'), ?_⟩
        rw [mem_handedBackAfter]
        rcases hNE i hlt hne' with e | e
        · subst e; exact Or.inl ⟨rfl, hnilF hre⟩
        · subst e; exact Or.inr ⟨rfl, herrF hre⟩
      · left
        have hne'' : PC.isNE (PC.ofHeap s.heap) i = false := by
          cases hq : PC.isNE (PC.ofHeap s.heap) i with
          | false => rfl
          | true => exact absurd hq hne'
        have hnot : ¬ (i = nilId ∨ i = errId) := fun e => hne' (hNE' i e)
        have hlv : i ∈ liveCells s := by
          rw [mem_liveCells]
          exact ⟨hlt, hne, fun e => absurd (Or.inl e) hnot, fun e => absurd (Or.inr e) hnot⟩
        refine ⟨hre, (F1 i).2 ⟨(hlive i).2 hlv, hre, hne''⟩, ?_⟩
        rw [mem_handedBackAfter]
        rintro (⟨e, _⟩ | ⟨e, _⟩)
        · exact hnot (Or.inl e)
        · exact hnot (Or.inr e)
  · intro i h
    rcases h with h | h | h
    · have := (hlive i).1 (F3 i h)
      rw [mem_liveCells] at this
      exact ⟨this.1, this.2.1⟩
    · have := (hlive i).1 ((F1 i).1 h).1
      rw [mem_liveCells] at this
      exact ⟨this.1, this.2.1⟩
    · rw [mem_handedBackAfter] at h
      rcases h with ⟨e, _⟩ | ⟨e, _⟩
      · subst e; exact ⟨by unfold nilId; omega, by decide⟩
      · subst e; exact ⟨by unfold errId; omega, by decide⟩

end Yaep.NG
