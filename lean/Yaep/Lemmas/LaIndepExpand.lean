import Yaep.Lemmas.LaIndepList
import Yaep.Lemmas.BuildSetNew
/-!
# Lookahead independence, part 3: the situations of a core as lists

`expand_new_start_set` as exact lists (the existing lemmas characterise membership only):

* first loop — `derivedPairs`: for every start situation, in order, the situations with the dot moved
  over `1, 2, …` nullable symbols (`expandLoop1_exact`; the duplicate test of
  `set_add_new_nonstart_sit` never fires);
* second loop — the initial situations are `iterI (newB …)` run to its end (`expandLoop2_iter`).
-/
namespace Yaep.LI
open Yaep Yaep.BS

/-! ## the first loop -/

/-- the situations derived from `sit`: the dot moved over `k + 1` nullable symbols -/
def chainOf (g : Grammar) (nl : List Nat) (sit : Sit) : List Sit :=
  match g.rules[sit.1]? with
  | none => []
  | some rl => (List.range (nullRun nl (rl.rhs.drop sit.2))).map fun k => (sit.1, sit.2 + k + 1)

/-- the derived non-start situations with their parents, in the order of the core -/
def derivedPairsN (g : Grammar) (nl : List Nat) (ss : List Sit) (n : Nat) : List (Sit × Nat) :=
  (List.range n).flatMap fun i => (chainOf g nl (ss.getD i default)).map fun s => (s, i)

def derivedPairs (g : Grammar) (nl : List Nat) (ss : List Sit) : List (Sit × Nat) :=
  derivedPairsN g nl ss ss.length

theorem addNonstartSit_exact {ss : List Sit} {c : Core} (h : L1Inv ss c) (sit : Sit) (p : Nat)
    (hnot : (sit, p) ∉ c.derived) :
    L1Inv ss (addNonstartSit c sit p) ∧
      (addNonstartSit c sit p).derived = c.derived ++ [(sit, p)] := by
  unfold addNonstartSit
  have hd : ¬ dupNonstart c sit p = true := by
    unfold dupNonstart
    rw [← h.derived_eq]
    simpa using hnot
  rw [if_neg hd]
  have hlen : (c.sits.drop c.nStart).length = c.parents.length := by
    rw [List.length_drop, h.len, h.nAll]; omega
  have hns : c.nStart ≤ c.sits.length := by rw [h.len, h.nAll]; omega
  have hI : L1Inv ss { c with sits := c.sits ++ [sit], nAllDists := c.nAllDists + 1,
                              parents := c.parents ++ [p] } := by
    refine ⟨h.nStart, ?_, ?_, ?_, h.trans, h.reduces⟩
    · simp only; rw [List.take_append_of_le_length hns]; exact h.start
    · simp only [List.length_append, List.length_singleton, h.len]
    · simp only [List.length_append, List.length_singleton, h.nAll]; omega
  refine ⟨hI, ?_⟩
  rw [hI.derived_eq, h.derived_eq]
  simp only
  rw [List.drop_append_of_le_length hns, List.zip_append hlen]
  simp

theorem addDerivedLoop_exact {ss : List Sit} (nl : List Nat) (r p : Nat) (rest : List Sym) (i : Nat)
    {c : Core} (h : L1Inv ss c)
    (hlow : ∀ x ∈ c.derived, x.2 = p → x.1.1 = r → x.1.2 ≤ i) :
    L1Inv ss (addDerivedLoop nl r p rest i c) ∧
    (addDerivedLoop nl r p rest i c).derived =
      c.derived ++ (List.range (nullRun nl rest)).map fun k => ((r, i + k + 1), p) := by
  induction rest generalizing i c with
  | nil => exact ⟨h, by simp [addDerivedLoop, nullRun]⟩
  | cons s rest ih =>
    unfold addDerivedLoop
    rw [nullRun_cons]
    by_cases hs : symNullable nl s = true
    · rw [if_pos hs, if_pos hs]
      have hnot : ((r, i + 1), p) ∉ c.derived := by
        intro hmem
        have := hlow _ hmem rfl rfl
        simp only at this
        omega
      obtain ⟨hI, hd⟩ := addNonstartSit_exact h (r, i + 1) p hnot
      have hlow' : ∀ x ∈ (addNonstartSit c (r, i + 1) p).derived, x.2 = p → x.1.1 = r →
          x.1.2 ≤ i + 1 := by
        intro x hx h1 h2
        rw [hd] at hx
        rcases List.mem_append.mp hx with hx | hx
        · have := hlow x hx h1 h2; omega
        · have : x = ((r, i + 1), p) := by simpa using hx
          subst this; exact Nat.le_refl _
      obtain ⟨hI', hd'⟩ := ih (i + 1) hI hlow'
      refine ⟨hI', ?_⟩
      rw [hd', hd, List.append_assoc, List.range_succ_eq_map]
      congr 1
      simp only [List.map_cons, List.map_map, List.singleton_append, Nat.add_zero]
      congr 1
      apply List.map_congr_left
      intro k _
      show ((r, i + 1 + k + 1), p) = ((r, i + (k + 1) + 1), p)
      rw [show i + 1 + k + 1 = i + (k + 1) + 1 by omega]
    · rw [if_neg hs, if_neg hs]
      exact ⟨h, by simp⟩

theorem addDerivedNonstartSits_exact {ss : List Sit} (g : Grammar) (an : Analysis) {c : Core}
    (h : L1Inv ss c) (sit : Sit) (p : Nat) (hnew : ∀ x ∈ c.derived, x.2 ≠ p) :
    L1Inv ss (addDerivedNonstartSits g an c sit p) ∧
    (addDerivedNonstartSits g an c sit p).derived =
      c.derived ++ (chainOf g an.nl sit).map fun s => (s, p) := by
  unfold addDerivedNonstartSits chainOf
  cases hr : g.rules[sit.1]? with
  | none => exact ⟨h, by simp⟩
  | some rl =>
    simp only
    obtain ⟨hI, hd⟩ := addDerivedLoop_exact an.nl sit.1 p (rl.rhs.drop sit.2) sit.2 h
      (fun x hx hp => absurd hp (hnew x hx))
    refine ⟨hI, ?_⟩
    rw [hd, List.map_map]
    rfl

theorem loop1N_exact {ss : List Sit} (g : Grammar) (an : Analysis) {c : Core} (h : L1Inv ss c)
    (hd : c.derived = []) (n : Nat) (hn : n ≤ ss.length) :
    L1Inv ss (loop1N g an c n) ∧ (loop1N g an c n).derived = derivedPairsN g an.nl ss n := by
  induction n with
  | zero => exact ⟨h, by rw [show loop1N g an c 0 = c from rfl, hd]; rfl⟩
  | succ n ih =>
    obtain ⟨hI, hder⟩ := ih (by omega)
    rw [loop1N_succ]
    generalize loop1N g an c n = c1 at hI hder
    have hnew : ∀ x ∈ c1.derived, x.2 ≠ n := by
      intro x hx
      rw [hder] at hx
      unfold derivedPairsN at hx
      obtain ⟨i, hi, hx⟩ := List.mem_flatMap.mp hx
      obtain ⟨s, _, rfl⟩ := List.mem_map.mp hx
      have := List.mem_range.mp hi
      simp only
      omega
    obtain ⟨hI', hd'⟩ := addDerivedNonstartSits_exact g an hI (c1.sits.getD n default) n hnew
    refine ⟨hI', ?_⟩
    have hget := hI.getD_start (i := n) (by omega)
    have hsame : c1.sits.getD n default = ss.getD n default := by
      rw [List.getD_eq_getElem?_getD (l := ss), hget]; rfl
    rw [hd', hder, hsame]
    unfold derivedPairsN
    rw [List.range_succ, List.flatMap_append]
    simp

theorem expandLoop1_exact (g : Grammar) (an : Analysis) (num : Nat) (ss : List Sit) :
    L1Inv ss (expandLoop1 g an (Core.fresh num ss)) ∧
    (expandLoop1 g an (Core.fresh num ss)).derived = derivedPairs g an.nl ss := by
  have h0 := L1Inv_fresh num ss
  have hd0 : (Core.fresh num ss).derived = [] := by simp [Core.derived, Core.fresh]
  have := loop1N_exact g an h0 hd0 ss.length (Nat.le_refl _)
  exact this

/-- the lists of a core after the first loop -/
theorem _root_.Yaep.BS.L1Inv.lists {ss : List Sit} {c : Core} (h : L1Inv ss c) :
    c.sits = ss ++ c.derived.map (·.1) ∧ c.parents = c.derived.map (·.2) ∧
      c.nAllDists = ss.length + c.derived.length := by
  have hlen : (c.sits.drop c.nStart).length = c.parents.length := by
    rw [List.length_drop, h.len, h.nAll]; omega
  rw [h.derived_eq]
  refine ⟨?_, ?_, ?_⟩
  · rw [List.map_fst_zip (Nat.le_of_eq hlen)]
    conv => lhs; rw [← List.take_append_drop c.nStart c.sits, h.start]
  · rw [List.map_snd_zip (Nat.le_of_eq hlen.symm)]
  · rw [List.length_zip, hlen, Nat.min_self, h.nAll, h.nStart]

/-! ## the second loop -/

/-- what round `i` of the second loop tries to add, as a function of the list of situations -/
def newB (g : Grammar) (an : Analysis) (nA : Nat) (L : List Sit) (i : Nat) : List Sit :=
  match nextOf g L i with
  | none => []
  | some symb =>
    (if filt g L i symb ≠ [] then []
     else match symb with
       | .n B => (rulesOf g B).map fun r => (r, 0)
       | .t _ => []) ++
    (if symNullable an.nl symb && decide (nA ≤ i) then
      [((L.getD i default).1, (L.getD i default).2 + 1)] else [])

theorem step2New_eq_newB {g : Grammar} {an : Analysis} {c1 : Core} {i : Nat} {I : List Sit}
    {T : List (Sym × List Nat)} (h : L2Inv g an c1 i I T) :
    step2New g an c1.nAllDists (c1.sits ++ I) T i = newB g an c1.nAllDists (c1.sits ++ I) i := by
  unfold step2New newB
  cases hnx : nextOf g (c1.sits ++ I) i with
  | none => rfl
  | some symb =>
    simp only
    congr 1
    rw [h.trans symb]
    unfold vecOf
    by_cases he : filt g (c1.sits ++ I) i symb = []
    · simp [he] <;> rfl
    · simp [he]

/-- the second loop computes the iteration `iterI (newB …)` up to its end -/
theorem expandLoop2_iter {ss : List Sit} (g : Grammar) (an : Analysis) {c1 : Core}
    (h1 : L1Inv ss c1) :
    ∃ I T, expandLoop2With addInitialSit g an (expandFuel g c1) c1 = mk2 c1 I T [] ∧
      L2Inv g an c1 (c1.sits ++ I).length I T ∧
      I = iterI (newB g an c1.nAllDists) c1.sits [] (c1.sits ++ I).length := by
  unfold expandLoop2With
  let Inv : Nat → Core → Prop := fun i c => ∃ I T, c = mk2 c1 I T [] ∧ L2Inv g an c1 i I T ∧
    I = iterI (newB g an c1.nAllDists) c1.sits [] i
  have hstep : ∀ i c, Inv i c → i < c.sits.length →
      Inv (i + 1) (expandStep2With addInitialSit g an c i) ∧
        i + 1 ≤ (expandStep2With addInitialSit g an c i).sits.length := by
    rintro i c ⟨I, T, rfl, hI, hit⟩ hi
    have hi' : i < (c1.sits ++ I).length := hi
    rw [expandStep2_mk2 h1]
    refine ⟨⟨_, _, rfl, L2Inv_step h1 hI hi', ?_⟩, ?_⟩
    · rw [iterI_succ, ← hit, if_pos hi', step2New_eq_newB hI]
    · obtain ⟨e, he⟩ := addNew_prefix I (step2New g an c1.nAllDists (c1.sits ++ I) T i)
      show i + 1 ≤ (c1.sits ++ addNew I _).length
      rw [he]
      simp only [List.length_append] at hi' ⊢
      omega
  have := scanLoop_inv (len := fun c : Core => c.sits.length)
    (step := expandStep2With addInitialSit g an) Inv (c1.nAllDists + sitBound g) hstep
    (by rintro i c ⟨I, T, rfl, hI, _⟩; exact hI.length_le h1)
    (expandFuel g c1) 0 c1 ⟨[], [], (mk2_self h1).symm, L2Inv_init g an c1, rfl⟩ (Nat.zero_le _)
    (by unfold expandFuel; omega)
  obtain ⟨I, T, he, hI, hit⟩ := this
  have e : (scanLoop (fun c : Core => c.sits.length) (expandStep2With addInitialSit g an)
    (expandFuel g c1) 0 c1).sits.length = (c1.sits ++ I).length := by rw [he]; rfl
  rw [e] at hI hit
  exact ⟨I, T, he, hI, hit⟩

/-! ## the whole core -/

/-- what `expand_new_start_set` makes of the start situations `ss`, as lists -/
structure ExpandLists (g : Grammar) (an : Analysis) (ss : List Sit) (c : Core) (I : List Sit) :
    Prop where
  sits : c.sits = ss ++ (derivedPairs g an.nl ss).map (·.1) ++ I
  parents : c.parents = (derivedPairs g an.nl ss).map (·.2)
  nStart : c.nStart = ss.length
  nAll : c.nAllDists = ss.length + (derivedPairs g an.nl ss).length
  nodup : I.Nodup
  iter : ∃ n, I = iterI (newB g an (ss.length + (derivedPairs g an.nl ss).length))
      (ss ++ (derivedPairs g an.nl ss).map (·.1)) [] n ∧
    n = (ss ++ (derivedPairs g an.nl ss).map (·.1) ++ I).length

theorem expandNewStartSet_lists (g : Grammar) (an : Analysis) (num : Nat) (ss : List Sit) :
    ∃ I, ExpandLists g an ss (expandNewStartSet g an (Core.fresh num ss)) I := by
  unfold expandNewStartSet expandNewStartSetWith
  obtain ⟨h1, hder⟩ := expandLoop1_exact g an num ss
  generalize expandLoop1 g an (Core.fresh num ss) = c1 at h1 hder
  obtain ⟨I, T, he, hI, hit⟩ := expandLoop2_iter g an h1
  dsimp only
  rw [he]
  obtain ⟨R, hR, _⟩ := loop3N_spec g c1 I T (c1.sits ++ I).length
  have e3 : expandLoop3 g (mk2 c1 I T []) = mk2 c1 I T R := hR
  rw [e3]
  obtain ⟨hs, hp, hn⟩ := h1.lists
  rw [hder] at hs hp hn
  refine ⟨I, ?_, ?_, h1.nStart, hn, hI.nodup, ⟨(c1.sits ++ I).length, ?_, ?_⟩⟩
  · show c1.sits ++ I = _
    rw [hs]
  · exact hp
  · rw [← hn, ← hs]; exact hit
  · rw [← hs]

end Yaep.LI
