import Yaep.Lemmas.LaIndepMPList
import Yaep.Lemmas.LaIndepMPKey
/-!
# Lookahead independence of `make_parse`: the same run on the unfiltered and on the level-1 parse list

`makeParse_eq_of_setsRel`: for two parse lists related by `SetsRel` (the unfiltered sets and the level-1 sets of
the same token string) the model of `make_parse` goes through literally the same machine states.  The invariant
`LInv`: every parse state on the stack whose dot is not at the start is a level-1 item that passes the level-1 test.
-/
namespace Yaep.LI
open Yaep Yaep.MP

/-- `(r, p, o)` at list index `j`, if its dot is not at the start, is a level-1 item that passes the level-1 test -/
def UseF (g : Grammar) (w' : List Nat) (r p o j : Nat) : Prop :=
  p ≠ 0 → ∃ rl, g.rules[r]? = some rl ∧ p ≤ rl.rhs.length ∧
    F1 g w' j ⟨r, p, o⟩ ∧ ok1 g w' j r p = true

/-- a parse state whose dot is not at the start is a level-1 item that passes the level-1 test -/
def Use (g : Grammar) (w' : List Nat) (st : PState) : Prop :=
  st.pos ≠ 0 → ∃ rl, g.rules[st.rule]? = some rl ∧ st.pos ≤ rl.rhs.length ∧
    F1 g w' st.plInd ⟨st.rule, st.pos, st.orig⟩ ∧ ok1 g w' st.plInd st.rule st.pos = true

def LInv (g : Grammar) (w' : List Nat) (s : St) : Prop :=
  ∀ sid ∈ s.stack, sid < s.states.size ∧ Use g w' (s.state sid)

theorem use_of_useF {g : Grammar} {w' : List Nat} {st : PState} {r p o j : Nat}
    (h : UseF g w' r p o j) (e1 : st.rule = r) (e2 : st.pos = p) (e3 : st.orig = o) (e4 : st.plInd = j) :
    Use g w' st := by
  unfold Use
  rw [e1, e2, e3, e4]
  exact h

theorem mk_rule_eq {g : Grammar} (sets : Array (Array Item)) (toks : Array Int) (one : Bool) {r : Nat}
    {rl : Rule} (hr : g.rules[r]? = some rl) : (mkCtx g sets toks one).rule r = rl := by
  rw [ctx_rule_eq (g := g) rfl, List.getD_eq_getElem?_getD, hr]
  rfl

theorem getElem?_of_getD_n {l : List Sym} {p A : Nat} (h : l.getD p (.t 0) = .n A) : l[p]? = some (.n A) := by
  rw [List.getD_eq_getElem?_getD] at h
  cases hl : l[p]? with
  | none => rw [hl] at h; cases h
  | some x => rw [hl] at h; exact congrArg some h

theorem getElem?_of_getD_t {l : List Sym} {p a : Nat} (hp : p < l.length) (h : l.getD p (.t 0) = .t a) :
    l[p]? = some (.t a) := by
  rw [List.getD_eq_getElem?_getD] at h
  cases hl : l[p]? with
  | none =>
    rw [List.getElem?_eq_none_iff] at hl
    omega
  | some x => rw [hl] at h; exact congrArg some h

section
variable {g : Grammar} {w' : List Nat} {sets0 sets1 : Array (Array Item)}

/-! ## the candidates that pass the check loop are the same -/

theorem pass_filter_eq (hsr : g.symsInRange = true) (h : SetsRel g w' sets0 sets1) (toks : Array Int)
    (one : Bool) {L : Loc} {rl : Rule} {j : Nat} (hr : g.rules[L.rule]? = some rl)
    (hs : rl.rhs[L.pos]? = some (.n L.A)) (hX : F1 g w' j ⟨L.rule, L.pos + 1, L.orig⟩)
    (hokX : ok1 g w' j L.rule (L.pos + 1) = true) :
    ((sets0.getD j #[]).toList.filter (isRed g L.A)).filter
        (fun it => checkFound (mkCtx g sets0 toks one) L it.origin) =
      ((sets1.getD j #[]).toList.filter (isRed g L.A)).filter
        (fun it => checkFound (mkCtx g sets1 toks one) L it.origin) := by
  obtain ⟨l, h1, h2, h3⟩ := h.mask j L.A hX.le_length
  rw [← h1, ← h2]
  apply filter_eq_of_mask
  intro x hx
  have hxm : x.1 ∈ (sets0.getD j #[]).toList.filter (isRed g L.A) := by
    rw [← h1]; exact List.mem_map.mpr ⟨x, hx, rfl⟩
  obtain ⟨hxm0, hred⟩ := List.mem_filter.mp hxm
  have hit : F0 g w' j x.1 := h.sound0 _ _ hxm0
  have hsym0 : ((mkCtx g sets0 toks one).rule L.rule).rhs[L.pos]? = some (.n L.A) := by
    rw [mk_rule_eq _ _ _ hr]; exact hs
  have hsym1 : ((mkCtx g sets1 toks one).rule L.rule).rhs[L.pos]? = some (.n L.A) := by
    rw [mk_rule_eq _ _ _ hr]; exact hs
  cases hp0 : checkFound (mkCtx g sets0 toks one) L x.1.origin with
  | true =>
    have hq0 : F0 g w' x.1.origin ⟨L.rule, L.pos, L.orig⟩ := h.sound0 _ _ (checkFound_iff.mp hp0).1
    obtain ⟨hq1, _, hit1, hokit⟩ := cand_level1 hsr hr hs hX hokX hit hred hq0
    have hm : x.2 = true := h3 x hx hit1 (fun _ => hokit)
    have hp1 : checkFound (mkCtx g sets1 toks one) L x.1.origin = true :=
      checkFound_iff.mpr ⟨h.complete1 _ _ hq1, hsym1⟩
    rw [hm, hp1]; rfl
  | false =>
    cases hp1 : checkFound (mkCtx g sets1 toks one) L x.1.origin with
    | false => simp
    | true =>
      have hq1 : F1 g w' x.1.origin ⟨L.rule, L.pos, L.orig⟩ := h.sound1 _ _ (checkFound_iff.mp hp1).1
      have : checkFound (mkCtx g sets0 toks one) L x.1.origin = true :=
        checkFound_iff.mpr ⟨h.complete0 _ _ (F1_sub_F0 hq1), hsym0⟩
      rw [hp0] at this; cases this

/-! ## one iteration of the main loop -/

/-- what `Use` of the top state with the dot not at the start gives -/
theorem use_top {s : St} {sid : Nat} (hu : Use g w' (s.state sid)) (hpos : (s.state sid).pos ≠ 0) :
    ∃ rl, g.rules[(s.state sid).rule]? = some rl ∧ (s.state sid).pos - 1 < rl.rhs.length ∧
      F1 g w' (s.state sid).plInd ⟨(s.state sid).rule, (s.state sid).pos - 1 + 1, (s.state sid).orig⟩ ∧
      ok1 g w' (s.state sid).plInd (s.state sid).rule ((s.state sid).pos - 1 + 1) = true := by
  obtain ⟨rl, hr, hle, hF, hok⟩ := hu hpos
  have hpp : (s.state sid).pos - 1 + 1 = (s.state sid).pos := by omega
  rw [hpp]
  exact ⟨rl, hr, by omega, hF, hok⟩

theorem step_eq (hsr : g.symsInRange = true) (h : SetsRel g w' sets0 sets1) (toks : Array Int) (one : Bool)
    {s : St} (hinv : LInv g w' s) :
    step (mkCtx g sets0 toks one) s = step (mkCtx g sets1 toks one) s := by
  cases hst : s.stack with
  | nil =>
    unfold step
    simp only [hst]
  | cons sid rest =>
    by_cases hpos : (s.state sid).pos = 0
    · unfold step
      simp only [hst, hpos, beq_self_eq_true, if_true]
      rfl
    · obtain ⟨_, hu⟩ := hinv sid (by rw [hst]; exact List.mem_cons_self)
      obtain ⟨rl, hr, hlt, hF, hok⟩ := use_top hu hpos
      have hr0 := mk_rule_eq sets0 toks one hr
      have hr1 := mk_rule_eq sets1 toks one hr
      cases hsym : rl.rhs.getD ((s.state sid).pos - 1) (.t 0) with
      | t a =>
        rw [step_term hst hpos (by rw [hr0]; exact hsym), step_term hst hpos (by rw [hr1]; exact hsym), hr0, hr1]
        rfl
      | n A =>
        rw [step_nt' hst hpos (by rw [hr0]; exact hsym), step_nt' hst hpos (by rw [hr1]; exact hsym)]
        have hL : ntLoc (mkCtx g sets0 toks one) s sid A = ntLoc (mkCtx g sets1 toks one) s sid A := by
          unfold ntLoc; rw [hr0, hr1]
        have key : candLoop (mkCtx g sets0 toks one) (ntLoc (mkCtx g sets0 toks one) s sid A)
              ((mkCtx g sets0 toks one).sets.getD (s.state sid).plInd #[])
              (reduces (mkCtx g sets0 toks one) ((mkCtx g sets0 toks one).sets.getD (s.state sid).plInd #[]) A)
              0 [] (ntS0 s sid) =
            candLoop (mkCtx g sets1 toks one) (ntLoc (mkCtx g sets1 toks one) s sid A)
              ((mkCtx g sets1 toks one).sets.getD (s.state sid).plInd #[])
              (reduces (mkCtx g sets1 toks one) ((mkCtx g sets1 toks one).sets.getD (s.state sid).plInd #[]) A)
              0 [] (ntS0 s sid) := by
          rw [hL, candLoop_eq_L, candLoop_eq_L, reduces_items (g := g) rfl, reduces_items (g := g) rfl,
            candLoopL_congr (c := mkCtx g sets0 toks one) (c' := mkCtx g sets1 toks one) rfl rfl]
          congr 1
          exact pass_filter_eq hsr h toks one (L := ntLoc (mkCtx g sets1 toks one) s sid A) hr
            (getElem?_of_getD_n hsym) hF hok
        rw [key]

/-! ## the invariant is kept (level-1 context) -/

/-- the candidate loop counts at least one candidate if a candidate passes the check loop -/
theorem candLoopL_snd_ne_zero (c : Ctx) (L : Loc) :
    ∀ (l : List Item) (n : Nat) (os : List Nat) (s : St), n ≠ 0 ∨ l ≠ [] → (candLoopL c L l n os s).2 ≠ 0
  | [], n, os, s, hn => by
    rcases hn with hn | hn
    · exact hn
    · exact absurd rfl hn
  | sit :: l, n, os, s, _ => by
    unfold candLoopL
    simp only
    split
    · rename_i hbr
      simp only [Bool.and_eq_true, bne_iff_ne, ne_eq] at hbr
      exact hbr.1
    · exact candLoopL_snd_ne_zero c L l (n + 1) _ _ (Or.inl (by omega))

/-- an entry of the reduce vector of the level-1 set that passes the check loop: the two kinds of states the
candidate loop creates for it satisfy `Use` -/
theorem passes_use (hsr : g.symsInRange = true) (h : SetsRel g w' sets0 sets1) (toks : Array Int) (one : Bool)
    {s : St} {sid A i : Nat} {rl : Rule} (hr : g.rules[(s.state sid).rule]? = some rl)
    (hs : rl.rhs[(s.state sid).pos - 1]? = some (.n A))
    (hF : F1 g w' (s.state sid).plInd ⟨(s.state sid).rule, (s.state sid).pos - 1 + 1, (s.state sid).orig⟩)
    (hok : ok1 g w' (s.state sid).plInd (s.state sid).rule ((s.state sid).pos - 1 + 1) = true)
    (hP : Passes (mkCtx g sets1 toks one) s sid A i) :
    UseF g w' (s.state sid).rule ((s.state sid).pos - 1) (s.state sid).orig
        (((mkCtx g sets1 toks one).sets.getD (s.state sid).plInd #[]).getD i default).origin ∧
      UseF g w' (((mkCtx g sets1 toks one).sets.getD (s.state sid).plInd #[]).getD i default).rule
        (((mkCtx g sets1 toks one).sets.getD (s.state sid).plInd #[]).getD i default).dot
        (((mkCtx g sets1 toks one).sets.getD (s.state sid).plInd #[]).getD i default).origin
        (s.state sid).plInd := by
  obtain ⟨hi, hcf⟩ := hP
  obtain ⟨hlt, hdot, hlhs⟩ := mem_reduces hi
  have hmem : ((mkCtx g sets1 toks one).sets.getD (s.state sid).plInd #[]).getD i default ∈
      ((mkCtx g sets1 toks one).sets.getD (s.state sid).plInd #[]).toList := by
    rw [getD_of_lt _ _ hlt]
    exact Array.getElem_mem_toList hlt
  generalize ((mkCtx g sets1 toks one).sets.getD (s.state sid).plInd #[]).getD i default = sit at hmem hdot hlhs hcf ⊢
  have hit1 : F1 g w' (s.state sid).plInd sit := h.sound1 _ _ hmem
  obtain ⟨rl', hr', hd', _, _⟩ := hit1.sound
  rw [mk_rule_eq _ _ _ hr'] at hdot hlhs
  have hred : isRed g A sit = true := (isRed_iff hr').mpr ⟨hdot, hlhs⟩
  have hq1 : F1 g w' sit.origin ⟨(s.state sid).rule, (s.state sid).pos - 1, (s.state sid).orig⟩ :=
    h.sound1 _ _ (checkFound_iff.mp hcf).1
  obtain ⟨_, hokq, _, hokit⟩ := cand_level1 hsr hr hs hF hok (F1_sub_F0 hit1) hred (F1_sub_F0 hq1)
  have hposq := (List.getElem?_eq_some_iff.mp hs).1
  constructor
  · intro _
    exact ⟨rl, hr, by omega, hq1, hokq⟩
  · intro _
    exact ⟨rl', hr', hd', hit1, hokit⟩

theorem step_linv (hsr : g.symsInRange = true) (h : SetsRel g w' sets0 sets1) (toks : Array Int) (one : Bool)
    {s : St} (hinv : LInv g w' s) : LInv g w' (step (mkCtx g sets1 toks one) s) := by
  cases hst : s.stack with
  | nil =>
    have : step (mkCtx g sets1 toks one) s = s := by
      unfold step
      simp only [hst]
    rw [this]; exact hinv
  | cons sid rest =>
    obtain ⟨hsid, hu⟩ := hinv sid (by rw [hst]; exact List.mem_cons_self)
    by_cases hpos : (s.state sid).pos = 0
    · obtain ⟨e1, e2, _⟩ := step_pop_shape (c := mkCtx g sets1 toks one) hst hpos
      intro x hx
      rw [e2] at hx
      unfold St.state
      rw [e1]
      exact hinv x (by rw [hst]; exact List.mem_cons_of_mem _ hx)
    · obtain ⟨rl, hr, hlt, hF, hok⟩ := use_top hu hpos
      have hr1 := mk_rule_eq sets1 toks one hr
      cases hsym : rl.rhs.getD ((s.state sid).pos - 1) (.t 0) with
      | t a =>
        obtain ⟨e1, e2, _⟩ := step_term_shape (c := mkCtx g sets1 toks one) hst hpos (by rw [hr1]; exact hsym)
        intro x hx
        rw [e2] at hx
        obtain ⟨hxlt, hxu⟩ := hinv x hx
        unfold St.state
        rw [e1, getD_set!]
        refine ⟨by simpa using hxlt, ?_⟩
        by_cases hc : sid = x ∧ sid < s.states.size
        · rw [if_pos hc]
          obtain ⟨h0, hok0⟩ := term_level1 hr (getElem?_of_getD_t hlt hsym) hF
          by_cases hp : (s.state sid).pos - 1 = 0
          · intro hp0; exact absurd hp hp0
          · have hne : ((s.state sid).pos - 1 != 0) = true := by simpa using hp
            refine use_of_useF (r := (s.state sid).rule) (p := (s.state sid).pos - 1) (o := (s.state sid).orig)
              (j := (s.state sid).plInd - 1) ?_ rfl rfl rfl (by simp only [hne, if_true])
            intro _
            exact ⟨rl, hr, by omega, h0, hok0⟩
        · rw [if_neg hc]; exact hxu
      | n A =>
        have hsym1 : ((mkCtx g sets1 toks one).rule (s.state sid).rule).rhs.getD ((s.state sid).pos - 1) (.t 0) =
            .n A := by rw [hr1]; exact hsym
        have hs := getElem?_of_getD_n hsym
        rw [step_nt' hst hpos hsym1]
        -- the shape of the states after the loop
        have h0 : CandShape (ntLoc (mkCtx g sets1 toks one) s sid A)
            ((mkCtx g sets1 toks one).sets.getD (s.state sid).plInd #[])
            (Passes (mkCtx g sets1 toks one) s sid A)
            { s.state sid with pos := (s.state sid).pos - 1 } (ntS0 s sid).states (sid :: rest) (ntS0 s sid) 0 := by
          refine ⟨Nat.le_refl _, fun _ _ _ => rfl, ⟨[], by show s.stack = _; rw [hst]; rfl, fun _ h => by cases h⟩,
            Or.inl ⟨rfl, ?_⟩, fun y h1 h2 => by omega⟩
          exact state_setState_same _ hsid
        have hsz : (ntLoc (mkCtx g sets1 toks one) s sid A).origSid < (ntS0 s sid).states.size := by
          show sid < (s.states.set! sid _).size
          simpa using hsid
        have hshape := candLoop_shape (c := mkCtx g sets1 toks one) hsz
          (reduces (mkCtx g sets1 toks one) ((mkCtx g sets1 toks one).sets.getD (s.state sid).plInd #[]) A) 0 []
          (ntS0 s sid) (fun i hi hf => ⟨hi, hf⟩) h0
        -- there is a candidate
        have hne : (candLoop (mkCtx g sets1 toks one) (ntLoc (mkCtx g sets1 toks one) s sid A)
            ((mkCtx g sets1 toks one).sets.getD (s.state sid).plInd #[])
            (reduces (mkCtx g sets1 toks one) ((mkCtx g sets1 toks one).sets.getD (s.state sid).plInd #[]) A) 0 []
            (ntS0 s sid)).2 ≠ 0 := by
          rw [candLoop_eq_L, reduces_items (g := g) rfl]
          apply candLoopL_snd_ne_zero
          right
          obtain ⟨r', rl', k, hr', hlhs, hE1, hE2⟩ := hF.nt_inv hr hs
          apply List.ne_nil_of_mem (a := ⟨r', rl'.rhs.length, k⟩)
          refine List.mem_filter.mpr ⟨List.mem_filter.mpr ⟨h.complete1 _ _ hE1, ?_⟩, ?_⟩
          · exact (isRed_iff (it := ⟨r', rl'.rhs.length, k⟩) hr').mpr ⟨rfl, hlhs⟩
          · refine checkFound_iff.mpr ⟨h.complete1 _ _ hE2, ?_⟩
            show ((mkCtx g sets1 toks one).rule (s.state sid).rule).rhs[(s.state sid).pos - 1]? = some (.n A)
            rw [hr1]; exact hs
        have hne' : ((candLoop (mkCtx g sets1 toks one) (ntLoc (mkCtx g sets1 toks one) s sid A)
            ((mkCtx g sets1 toks one).sets.getD (s.state sid).plInd #[])
            (reduces (mkCtx g sets1 toks one) ((mkCtx g sets1 toks one).sets.getD (s.state sid).plInd #[]) A) 0 []
            (ntS0 s sid)).2 == 0) = false := by simpa using hne
        rw [hne']
        simp only [Bool.false_eq_true, if_false]
        generalize candLoop (mkCtx g sets1 toks one) (ntLoc (mkCtx g sets1 toks one) s sid A)
            ((mkCtx g sets1 toks one).sets.getD (s.state sid).plInd #[])
            (reduces (mkCtx g sets1 toks one) ((mkCtx g sets1 toks one).sets.getD (s.state sid).plInd #[]) A) 0 []
            (ntS0 s sid) = r at hshape hne
        obtain ⟨a1, a2, ⟨ids, a3, a3'⟩, a4, a5⟩ := hshape
        have hsz0 : (ntS0 s sid).states.size = s.states.size := by
          show (s.states.set! sid _).size = _
          simp
        rw [hsz0] at a1 a2 a3' a5
        have huse := fun i hP => passes_use hsr h toks one (s := s) (sid := sid) (A := A) (i := i) hr hs hF hok hP
        -- the original state
        have horig : Use g w' (r.1.state sid) := by
          rcases a4 with ⟨a4, _⟩ | ⟨_, i, hP, e⟩
          · exact absurd a4 hne
          · have e' : r.1.state sid = { ({ s.state sid with pos := (s.state sid).pos - 1 } : PState) with
                plInd := ((sets1.getD (s.state sid).plInd #[]).getD i default).origin } := e
            rw [e']
            exact use_of_useF (huse i hP).1 rfl rfl rfl rfl
        intro x hx
        rw [a3] at hx
        rcases List.mem_append.mp hx with hx | hx
        · obtain ⟨hx1, hx2⟩ := a3' x hx
          refine ⟨hx2, ?_⟩
          obtain ⟨i, hP, _, hnew⟩ := a5 x hx1 hx2
          rcases hnew with ⟨p1, p2, p3, p4⟩ | ⟨p1, p2, p3, p4⟩
          · exact use_of_useF (huse i hP).2 p1 p2 p3 p4
          · exact use_of_useF (huse i hP).1 p1 p2 p3 p4
        · obtain ⟨hxlt, hxu⟩ := hinv x (by rw [hst]; exact hx)
          refine ⟨by omega, ?_⟩
          by_cases hxs : x = sid
          · rw [hxs]; exact horig
          · have e : r.1.state x = s.state x := by
              unfold St.state
              rw [a2 x hxlt hxs]
              show (s.states.set! sid _).getD x default = _
              rw [getD_set!, if_neg (fun hh => hxs hh.1.symm)]
            rw [e]; exact hxu

/-! ## the initial state -/

theorem init_eq (h : SetsRel g w' sets0 sets1) (toks : Array Int) (one : Bool) :
    init (mkCtx g sets0 toks one) = init (mkCtx g sets1 toks one) := by
  unfold init
  simp only [mkCtx, Ctx.rule, h.size0, h.size1, Nat.add_sub_cancel, h.first]

theorem init_linv (h : SetsRel g w' sets0 sets1) (toks : Array Int) (one : Bool) {s0 : St}
    (hi : init (mkCtx g sets1 toks one) = some s0) : LInv g w' s0 := by
  unfold init at hi
  simp only [mkCtx, h.size1, Nat.add_sub_cancel] at hi
  split at hi
  · cases hi
  · rename_i sit hsit
    split at hi
    · cases hi
    · rename_i hcond
      injection hi with hi
      subst hi
      simp only [Bool.or_eq_true, bne_iff_ne, ne_eq, not_or, Decidable.not_not] at hcond
      obtain ⟨⟨ho, _⟩, _⟩ := hcond
      have hmem : sit ∈ (sets1.getD w'.length #[]).toList := by
        have := Array.getElem?_eq_some_iff.mp hsit
        obtain ⟨hlt, he⟩ := this
        rw [← he]
        exact Array.getElem_mem_toList hlt
      have hF : F1 g w' w'.length sit := h.sound1 _ _ hmem
      obtain ⟨rl, hr, hd, _, _⟩ := hF.sound
      intro x hx
      have hx1 : x = 1 := by simpa using hx
      subst hx1
      refine ⟨by simp, ?_⟩
      refine use_of_useF (r := sit.rule) (p := sit.dot) (o := 0) (j := w'.length) ?_ rfl rfl rfl rfl
      intro _
      refine ⟨rl, hr, hd, ?_, ok1_none (by simp) _ _⟩
      rw [← ho]
      exact hF

/-! ## the run -/

theorem run_eq (hsr : g.symsInRange = true) (h : SetsRel g w' sets0 sets1) (toks : Array Int) (one : Bool) :
    ∀ (fuel : Nat) (s : St), LInv g w' s →
      run (mkCtx g sets0 toks one) fuel s = run (mkCtx g sets1 toks one) fuel s
  | 0, _, _ => rfl
  | fuel + 1, s, hinv => by
    unfold run
    split
    · rfl
    · rw [step_eq hsr h toks one hinv]
      exact run_eq hsr h toks one fuel _ (step_linv hsr h toks one hinv)

end

/-- **`make_parse` does the same on the unfiltered and on the level-1 parse list** -/
theorem makeParse_eq_of_setsRel {g : Grammar} (hsr : g.symsInRange = true) {w' : List Nat}
    {sets0 sets1 : Array (Array Item)} (h : SetsRel g w' sets0 sets1) (toks : Array Int) (one : Bool) (fuel : Nat) :
    MP.makeParse g sets0 toks one fuel = MP.makeParse g sets1 toks one fuel := by
  unfold makeParse
  simp only
  rw [init_eq h toks one]
  cases hi : init (mkCtx g sets1 toks one) with
  | none => rfl
  | some s0 =>
    simp only
    rw [run_eq hsr h toks one fuel s0 (init_linv h toks one hi)]

end Yaep.LI
