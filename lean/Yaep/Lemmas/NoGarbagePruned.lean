import Yaep.Lemmas.NoGarbageCost
/-!
# No garbage, part 11: the tree `find_minimal_translation` leaves behind is a well-formed heap

The final heap of the model of `find_minimal_translation` is not a `WfHeap` (freed cells keep their
flags and stale links), but its part reachable from the new root is: with the cells that are not
reachable masked out (`mask`), the heap satisfies `PC.WfHeap` for a new rank (the relinked chains run
against the old rank) and new chain heads.  The exporter and `free_tree` only look at reachable
cells, so `export_free_bij` applies to the pruned tree.
-/
namespace Yaep.NG
open Yaep MP

/-! ## a rank from a lexicographic key, compressed below the size by counting -/

/-- the number of cells with a smaller key -/
def crk (key : Nat → Nat × Nat) (N i : Nat) : Nat :=
  ((List.range N).filter fun u => keyLt (key u) (key i)).length

theorem crk_lt_size (key : Nat → Nat × Nat) {N i : Nat} (hi : i < N) : crk key N i < N := by
  have := filter_length_lt (l := List.range N)
    (p := fun u => keyLt (key u) (key i)) (q := fun _ => true)
    (fun _ _ _ => rfl) (List.mem_range.mpr hi) rfl (keyLt_irrefl _)
  have e : (List.range N).filter (fun _ => true) = List.range N :=
    List.filter_eq_self.mpr (fun _ _ => rfl)
  rw [e, List.length_range] at this
  exact this

theorem crk_lt (key : Nat → Nat × Nat) {N u v : Nat} (hu : u < N)
    (hlt : keyLt (key u) (key v) = true) : crk key N u < crk key N v := by
  unfold crk
  apply filter_length_lt (y := u)
  · intro x _ hx
    exact keyLt_trans hx hlt
  · exact List.mem_range.mpr hu
  · exact hlt
  · exact keyLt_irrefl _

/-! ## linked lists of ALT cells -/

theorem linked_get {h : Array PC.Cell} : ∀ (K : List Nat) (p : Nat), PC.Linked h K → p < K.length →
    ∃ nd, PC.cellAt h (K.getD p 0) = .alt nd K[p + 1]?
  | [], p, _, hp => by simp at hp
  | [j], 0, hl, _ => by
    obtain ⟨nd, e⟩ := hl
    exact ⟨nd, by simpa using e⟩
  | [j], p + 1, _, hp => by simp at hp
  | j :: j' :: r, 0, hl, _ => by
    obtain ⟨⟨nd, e⟩, _⟩ := hl
    exact ⟨nd, by simpa using e⟩
  | j :: j' :: r, p + 1, hl, hp => by
    obtain ⟨nd, e⟩ := linked_get (j' :: r) p hl.2 (by simpa using hp)
    exact ⟨nd, by simpa using e⟩

/-! ## what is known about the heap after the two passes -/

/-- the facts about the first pass (`s`, invariant `PC.Inv`) and the second pass (final heap `Hf`,
new root `x0`) that the analysis of the final heap uses -/
structure FinalHeap (h0 : Array PC.Cell) (rk hd : Nat → Nat) (one free : Bool) (s : PC.PSt)
    (Hf : Array PC.Cell) (x0 : Nat) : Prop where
  wf : PC.WfHeap h0 rk hd
  inv : PC.Inv h0 rk hd one free (fun _ => False) s
  size : Hf.size = s.heap.size
  cells : ∀ i, PC.cellAt Hf i = PC.cellAt s.heap i ∨ ∃ nm c ks, c < 0 ∧
    PC.cellAt s.heap i = .anode nm c ks ∧ PC.cellAt Hf i = .anode nm (-c - 1) ks
  done : ∀ z, PC.Reach s.heap x0 z → ∀ nm c ks, PC.cellAt s.heap z = .anode nm c ks →
    c < 0 ∧ PC.cellAt Hf z = .anode nm (-c - 1) ks
  root : ∃ k, k < h0.size ∧ hd k = k ∧ PC.Visited h0 free s k ∧ x0 = PC.res0 h0 rk one k

section
variable {h0 : Array PC.Cell} {rk hd : Nat → Nat} {one free : Bool} {s : PC.PSt}
  {Hf : Array PC.Cell} {x0 : Nat} (H : FinalHeap h0 rk hd one free s Hf x0)
include H

theorem FinalHeap.succs_eq (i : Nat) : PC.succs Hf i = PC.succs s.heap i := by
  rcases H.cells i with e | ⟨nm, c, ks, _, e1, e2⟩
  · simp only [PC.succs, e]
  · simp only [PC.succs, e1, e2]

theorem FinalHeap.reach_iff {x z : Nat} : PC.Reach Hf x z ↔ PC.Reach s.heap x z := by
  constructor
  · intro h
    induction h with
    | refl => exact .refl _
    | step hb _ ih => exact .step (by rw [← H.succs_eq]; exact hb) ih
  · intro h
    induction h with
    | refl => exact .refl _
    | step hb _ ih => exact .step (by rw [H.succs_eq]; exact hb) ih

theorem FinalHeap.isAlt_eq (i : Nat) : PC.isAlt Hf i = PC.isAlt s.heap i := by
  rcases H.cells i with e | ⟨nm, c, ks, _, e1, e2⟩
  · simp only [PC.isAlt, e]
  · simp only [PC.isAlt, e1, e2]

/-- the cells reachable from the new root belong to the pruned translation -/
theorem FinalHeap.inF_root : PC.InF h0 rk hd one free s x0 := by
  obtain ⟨k, hk, hdk, hv, e⟩ := H.root
  rw [e]; exact PC.InF_res0 H.wf H.inv hk hdk hv

theorem FinalHeap.inF {z : Nat} (hz : PC.Reach Hf x0 z) : PC.InF h0 rk hd one free s z :=
  H.inF_root.reach H.wf H.inv (H.reach_iff.1 hz)

theorem FinalHeap.lt {z : Nat} (hz : PC.Reach Hf x0 z) : z < h0.size := (H.inF hz).lt H.wf

/-- an ALT cell of the pruned translation stays linked in the chain of a processed head -/
theorem FinalHeap.inF_alt {z : Nat} (hz : PC.InF h0 rk hd one free s z)
    (hal : PC.isAlt s.heap z = true) :
    ∃ a, a < h0.size ∧ PC.isAlt h0 a = true ∧ hd a = a ∧ PC.Visited h0 free s a ∧
      z ∈ PC.kept h0 rk one a := by
  rcases hz with ⟨hk, hal0, hv⟩ | h
  · have := (PC.nonalt_kind H.wf H.inv hk (fun h => h) hal0).1
    rw [this] at hal; cases hal
  · exact h

theorem FinalHeap.inF_nonalt {z : Nat} (hz : PC.InF h0 rk hd one free s z)
    (hal : PC.isAlt s.heap z = false) :
    z < h0.size ∧ PC.isAlt h0 z = false ∧ PC.Visited h0 free s z := by
  rcases hz with h | ⟨a, ha, hal0, hda, hv, hz⟩
  · exact h
  · obtain ⟨⟨nx, e⟩, _, _⟩ := (PC.visited_alt_chain H.wf H.inv ha hal0 hda hv).1 z
      (PC.kept_subset a z hz)
    simp [PC.isAlt, e] at hal

/-- the cells of a kept chain: ALT cells of the pass-1 heap with their old alternative -/
theorem FinalHeap.kept_cell {a z : Nat} (ha : a < h0.size) (hal : PC.isAlt h0 a = true)
    (hda : hd a = a) (hv : PC.Visited h0 free s a) (hz : z ∈ PC.kept h0 rk one a) :
    (∃ nx, PC.cellAt s.heap z = .alt (PC.altNode h0 z) nx) ∧ PC.isAlt s.heap z = true ∧
      PC.isAlt h0 z = true ∧ hd z = a ∧ z < h0.size := by
  obtain ⟨⟨nx, e⟩, _, _⟩ := (PC.visited_alt_chain H.wf H.inv ha hal hda hv).1 z
    (PC.kept_subset a z hz)
  obtain ⟨p1, p2, p3, _⟩ := PC.kept_mem_props H.wf ha hal hda hz
  exact ⟨⟨nx, e⟩, by simp [PC.isAlt, e], p2, p3, p1⟩

end

/-! ## masking the unreachable cells -/

open Classical in
/-- the heap with the cells outside `E` replaced by NIL cells -/
noncomputable def mask (h : Array PC.Cell) (E : Nat → Prop) : Array PC.Cell :=
  (Array.range h.size).map fun i => if E i then PC.cellAt h i else .nil

theorem mask_size (h : Array PC.Cell) (E : Nat → Prop) : (mask h E).size = h.size := by
  simp [mask]

theorem cellAt_mask_in {h : Array PC.Cell} {E : Nat → Prop} {i : Nat} (hi : i < h.size) (he : E i) :
    PC.cellAt (mask h E) i = PC.cellAt h i := by
  have e : PC.cellAt h i = h[i] := by
    unfold PC.cellAt; simp [Array.getD_eq_getD_getElem?, hi]
  rw [e]
  unfold PC.cellAt mask
  simp [Array.getD_eq_getD_getElem?, hi, he, e]

theorem cellAt_mask_out {h : Array PC.Cell} {E : Nat → Prop} {i : Nat} (he : ¬ E i) :
    PC.cellAt (mask h E) i = .nil := by
  unfold PC.cellAt mask
  by_cases hi : i < h.size
  · simp [Array.getD_eq_getD_getElem?, hi, he]
  · simp [Array.getD_eq_getD_getElem?, hi]

theorem getD_idxOf {K : List Nat} {z : Nat} (hz : z ∈ K) : K.getD (K.idxOf z) 0 = z := by
  have hq := List.idxOf_lt_length_of_mem hz
  simp only [List.getD_eq_getElem?_getD, List.getElem?_eq_getElem hq, Option.getD_some]
  exact List.getElem_idxOf hq

theorem idxOf_getD {K : List Nat} (hK : K.Nodup) {p : Nat} (hp : p < K.length) :
    K.idxOf (K.getD p 0) = p := by
  have hm : K.getD p 0 ∈ K := getD_mem hp
  have hq := List.idxOf_lt_length_of_mem hm
  apply getD_inj_of_nodup hK hq hp
  exact getD_idxOf hm

/-- the new chain head of an ALT cell, the cell itself for the other cells -/
def hdN (h0 : Array PC.Cell) (rk hd : Nat → Nat) (one : Bool) (HM : Array PC.Cell) (i : Nat) : Nat :=
  if PC.isAlt HM i = true then (PC.kept h0 rk one (hd i)).headD i else i

/-- the new rank as a lexicographic key: the old rank of the old chain head and the distance to the
end of the relinked chain for an ALT cell, the old rank for the other cells -/
def keyN (h0 : Array PC.Cell) (rk hd : Nat → Nat) (one : Bool) (HM : Array PC.Cell) (i : Nat) :
    Nat × Nat :=
  if PC.isAlt HM i = true then
    (rk (hd i), (PC.kept h0 rk one (hd i)).length - (PC.kept h0 rk one (hd i)).idxOf i)
  else (rk i, 0)

theorem kept_nodup {h0 : Array PC.Cell} {rk hd : Nat → Nat} (wf : PC.WfHeap h0 rk hd) (one : Bool)
    {a : Nat} (ha : a < h0.size) (hal : PC.isAlt h0 a = true) : (PC.kept h0 rk one a).Nodup := by
  have hch := (PC.chain0_isChain wf ha hal).nodup wf ha
  rw [PC.kept_eq wf ha hal]
  unfold PC.minCells
  cases one
  · simp only [Bool.false_eq_true, if_false]
    exact nodup_reverse_of (List.Nodup.sublist List.filter_sublist hch)
  · simp only [if_true]
    exact List.Nodup.sublist (List.take_sublist _ _) (List.Nodup.sublist List.filter_sublist hch)

section
variable {h0 : Array PC.Cell} {rk hd : Nat → Nat} {one free : Bool} {s : PC.PSt}
  {Hf : Array PC.Cell} {x0 : Nat} (H : FinalHeap h0 rk hd one free s Hf x0)
include H

theorem FinalHeap.size_eq : Hf.size = h0.size := by rw [H.size, H.inv.size]

/-- the cell `prune_to_minimal` returns for a processed head, when it is an ALT cell, is the first
cell of the relinked chain -/
theorem FinalHeap.res0_head {x : Nat} (hx : x < h0.size) (hdx : hd x = x)
    (hal : PC.isAlt s.heap (PC.res0 h0 rk one x) = true) :
    PC.isAlt h0 x = true ∧ ∃ tl, PC.kept h0 rk one x = PC.res0 h0 rk one x :: tl ∧
      hd (PC.res0 h0 rk one x) = x := by
  cases hal0 : PC.isAlt h0 x with
  | false =>
    rw [PC.res0_nonalt hal0] at hal
    rw [(PC.nonalt_kind H.wf H.inv hx (fun h => h) hal0).1] at hal
    cases hal
  | true =>
    refine ⟨rfl, ?_⟩
    have hkne := PC.kept_ne_nil (one := one) H.wf hx hal0
    unfold PC.res0 at hal ⊢
    unfold PC.isAlt at hal0
    split at hal0
    · rename_i nd nx e
      have hal' : PC.isAlt h0 x = true := by simp [PC.isAlt, e]
      simp only [e] at hal ⊢
      split at hal
      · rename_i j hkj
        obtain ⟨p1, p2, p3, p4, p5, p6, p7, p8⟩ := PC.kept_mem_props (one := one) H.wf hx hal' hdx
          (j := j) (by rw [hkj]; simp)
        rw [(PC.nonalt_kind H.wf H.inv p5 (fun h => h) p6).1] at hal
        cases hal
      · rename_i j r hne hkj
        obtain ⟨p1, p2, p3, _⟩ := PC.kept_mem_props (one := one) H.wf hx hal' hdx
          (j := j) (by rw [hkj]; simp)
        rw [hkj]
        exact ⟨r, rfl, p3⟩
      · rename_i hkj; exact absurd hkj hkne
    · cases hal0

end

section
variable {h0 : Array PC.Cell} {rk hd : Nat → Nat} {one free : Bool} {s : PC.PSt}
  {Hf : Array PC.Cell} {x0 : Nat} (H : FinalHeap h0 rk hd one free s Hf x0)
include H

/-- the final heap with the cells that are not reachable from the new root masked out -/
noncomputable def FinalHeap.masked (_H : FinalHeap h0 rk hd one free s Hf x0) : Array PC.Cell :=
  mask Hf (PC.Reach Hf x0)

theorem FinalHeap.masked_size : H.masked.size = h0.size := by
  unfold FinalHeap.masked; rw [mask_size, H.size_eq]

theorem FinalHeap.masked_in {i : Nat} (hi : PC.Reach Hf x0 i) : PC.cellAt H.masked i = PC.cellAt Hf i :=
  cellAt_mask_in (by rw [H.size_eq]; exact H.lt hi) hi

theorem FinalHeap.masked_out {i : Nat} (hi : ¬ PC.Reach Hf x0 i) : PC.cellAt H.masked i = .nil :=
  cellAt_mask_out hi

theorem FinalHeap.masked_cases (i : Nat) :
    (PC.Reach Hf x0 i ∧ PC.cellAt H.masked i = PC.cellAt Hf i) ∨
      (¬ PC.Reach Hf x0 i ∧ PC.cellAt H.masked i = .nil) := by
  by_cases hi : PC.Reach Hf x0 i
  · exact Or.inl ⟨hi, H.masked_in hi⟩
  · exact Or.inr ⟨hi, H.masked_out hi⟩

/-- an ALT cell of the masked heap: reachable, linked in the relinked chain of a processed head -/
theorem FinalHeap.masked_alt {i : Nat} (hal : PC.isAlt H.masked i = true) :
    PC.Reach Hf x0 i ∧ PC.isAlt s.heap i = true ∧
    ∃ a, a < h0.size ∧ PC.isAlt h0 a = true ∧ hd a = a ∧ PC.Visited h0 free s a ∧
      i ∈ PC.kept h0 rk one a ∧ hd i = a := by
  rcases H.masked_cases i with ⟨h1, h2⟩ | ⟨_, h2⟩
  · have hal' : PC.isAlt s.heap i = true := by
      rw [← H.isAlt_eq]; unfold PC.isAlt at hal ⊢; rw [h2] at hal; exact hal
    obtain ⟨a, a1, a2, a3, a4, a5⟩ := H.inF_alt (H.inF h1) hal'
    exact ⟨h1, hal', a, a1, a2, a3, a4, a5, (H.kept_cell a1 a2 a3 a4 a5).2.2.2.1⟩
  · unfold PC.isAlt at hal; rw [h2] at hal; cases hal

theorem FinalHeap.masked_nonalt {i : Nat} (hi : i < h0.size) (hal0 : PC.isAlt h0 i = false) :
    PC.isAlt H.masked i = false := by
  cases hq : PC.isAlt H.masked i with
  | false => rfl
  | true =>
    obtain ⟨_, h2, _⟩ := H.masked_alt hq
    rw [(PC.nonalt_kind H.wf H.inv hi (fun h => h) hal0).1] at h2
    cases h2

/-- **the pruned tree is a well-formed heap** -/
theorem FinalHeap.wfMasked :
    PC.WfHeap H.masked (crk (keyN h0 rk hd one H.masked) h0.size) (hdN h0 rk hd one H.masked) := by
  have hwf := H.wf
  have hinv := H.inv
  have hpr := PC.pruned_of_inv hwf hinv
  have hsz := H.masked_size
  have hkey_nonalt : ∀ i, PC.isAlt H.masked i = false → keyN h0 rk hd one H.masked i = (rk i, 0) := by
    intro i hi; unfold keyN; rw [hi]; rfl
  have hkey_alt : ∀ i, PC.isAlt H.masked i = true → keyN h0 rk hd one H.masked i =
      (rk (hd i), (PC.kept h0 rk one (hd i)).length - (PC.kept h0 rk one (hd i)).idxOf i) := by
    intro i hi; unfold keyN; rw [hi]; rfl
  have hhd_nonalt : ∀ i, PC.isAlt H.masked i = false → hdN h0 rk hd one H.masked i = i := by
    intro i hi; unfold hdN; rw [hi]; rfl
  have hhd_alt : ∀ i, PC.isAlt H.masked i = true → hdN h0 rk hd one H.masked i =
      (PC.kept h0 rk one (hd i)).headD i := by
    intro i hi; unfold hdN; rw [hi]; rfl
  constructor
  · intro i hi
    rw [hsz] at hi ⊢
    exact crk_lt_size _ hi
  · intro i _ hal
    exact hhd_nonalt i hal
  · -- abstract nodes
    intro i nm c ks hi hc
    rw [hsz] at hi
    have hE : PC.Reach Hf x0 i := by
      rcases H.masked_cases i with ⟨hE, _⟩ | ⟨_, h2⟩
      · exact hE
      · rw [h2] at hc; cases hc
    rw [H.masked_in hE] at hc
    have hEs := H.reach_iff.1 hE
    -- the cell before the second pass
    have hF : ∃ c', c' < 0 ∧ PC.cellAt s.heap i = .anode nm c' ks ∧ c = -c' - 1 := by
      rcases H.cells i with e | ⟨nm', c', ks', hc', e1, e2⟩
      · rw [e] at hc
        obtain ⟨d1, d2⟩ := H.done i hEs nm c ks hc
        rw [e, hc] at d2
        injection d2 with _ d2 _
        omega
      · rw [hc] at e2
        injection e2 with i1 i2 i3
        subst i1; subst i3
        exact ⟨c', hc', e1, i2⟩
    obtain ⟨c', hc', hFi, hcc⟩ := hF
    have halF : PC.isAlt s.heap i = false := by simp [PC.isAlt, hFi]
    obtain ⟨_, hal0, hv⟩ := H.inF_nonalt (H.inF hE) halF
    have hdi : hd i = i := hwf.hd_self i hi hal0
    have halM : PC.isAlt H.masked i = false := H.masked_nonalt hi hal0
    refine ⟨by omega, ?_⟩
    intro k hk
    obtain ⟨hkF, hkr⟩ := (hpr.anode i nm c' ks (H.inF hE) hFi).2 k hk
    have hklt : k < h0.size := hkF.lt hwf
    have hEk : PC.Reach Hf x0 k := hE.trans (.single (by simp [PC.succs, hc]; exact hk))
    simp only [hdi] at hkr
    refine ⟨by rw [hsz]; exact hklt, ?_, ?_⟩
    · apply crk_lt _ hklt
      rw [hkey_nonalt i halM]
      cases hak : PC.isAlt H.masked k with
      | true =>
        rw [hkey_alt k hak]
        simp only [keyLt, Bool.or_eq_true, Bool.and_eq_true, decide_eq_true_eq]
        exact Or.inl hkr
      | false =>
        rw [hkey_nonalt k hak]
        have halFk : PC.isAlt s.heap k = false := by
          rw [← H.isAlt_eq]
          unfold PC.isAlt at hak ⊢; rw [H.masked_in hEk] at hak; exact hak
        obtain ⟨_, hk0, _⟩ := H.inF_nonalt hkF halFk
        rw [hwf.hd_self k hklt hk0] at hkr
        simp only [keyLt, Bool.or_eq_true, Bool.and_eq_true, decide_eq_true_eq]
        exact Or.inl hkr
    · cases hak : PC.isAlt H.masked k with
      | false => exact hhd_nonalt k hak
      | true =>
        rw [hhd_alt k hak]
        obtain ⟨_, halFk, _⟩ := H.masked_alt hak
        -- `k` is the cell returned for an original child
        have han0 : ∃ nm0 c0 ks0, PC.cellAt h0 i = .anode nm0 c0 ks0 := by
          have := (PC.nonalt_kind hwf hinv hi (fun h => h) hal0).2.1
          have h1 : PC.isAnode s.heap i = true := by simp [PC.isAnode, hFi]
          rw [this] at h1
          unfold PC.isAnode at h1
          split at h1
          · rename_i nm0 c0 ks0 e; exact ⟨nm0, c0, ks0, e⟩
          · cases h1
        obtain ⟨nm0, c0, ks0, hc0⟩ := han0
        obtain ⟨ks', e1, e2, e3, _⟩ := PC.visited_anode hwf hinv hi hc0 hv
        rw [hFi] at e1
        injection e1 with _ _ e13
        subst e13
        rw [e2] at hk
        obtain ⟨x, hx, rfl⟩ := List.mem_map.1 hk
        obtain ⟨x1, _, x3⟩ := (hwf.anode i nm0 c0 ks0 hi hc0).2 x hx
        obtain ⟨_, tl, ht, hh⟩ := H.res0_head x1 x3 halFk
        rw [hh, ht]; rfl
  · -- ALT cells
    intro i nd nx hi hc
    rw [hsz] at hi
    have halM : PC.isAlt H.masked i = true := by simp [PC.isAlt, hc]
    obtain ⟨hE, halF, a, a1, a2, a3, a4, a5, a6⟩ := H.masked_alt halM
    rw [H.masked_in hE] at hc
    have hcF : PC.cellAt s.heap i = .alt nd nx := by
      rcases H.cells i with e | ⟨nm', c', ks', _, _, e2⟩
      · rw [← e]; exact hc
      · rw [hc] at e2; cases e2
    obtain ⟨⟨nx', e⟩, _, _, _, _⟩ := H.kept_cell a1 a2 a3 a4 a5
    rw [hcF] at e
    injection e with e1 e2
    subst e2
    obtain ⟨p1, p2, p3, p4, p5, p6, p7, p8⟩ := PC.kept_mem_props hwf a1 a2 a3 a5
    have hndM : PC.isAlt H.masked nd = false := by rw [e1]; exact H.masked_nonalt p5 p6
    refine ⟨by rw [hsz, e1]; exact p5, hndM, ?_, ?_⟩
    · apply crk_lt _ (by rw [e1]; exact p5)
      rw [hkey_nonalt nd hndM, hkey_alt i halM, a6]
      simp only [keyLt, Bool.or_eq_true, Bool.and_eq_true, decide_eq_true_eq]
      left; rw [e1]; omega
    · intro j hj
      subst hj
      have hK := kept_nodup hwf one a1 a2
      obtain ⟨_, hlinked⟩ := PC.visited_alt_chain hwf hinv a1 a2 a3 a4
      have hp := List.idxOf_lt_length_of_mem a5
      obtain ⟨nd', hg⟩ := linked_get _ _ hlinked hp
      rw [getD_idxOf a5, hcF] at hg
      injection hg with _ hg
      -- `j` is the next cell of the relinked chain
      have hp1 : (PC.kept h0 rk one a).idxOf i + 1 < (PC.kept h0 rk one a).length := by
        rcases Nat.lt_or_ge ((PC.kept h0 rk one a).idxOf i + 1) (PC.kept h0 rk one a).length with h | h
        · exact h
        · rw [List.getElem?_eq_none h] at hg; cases hg
      have hjget : (PC.kept h0 rk one a).getD ((PC.kept h0 rk one a).idxOf i + 1) 0 = j := by
        rw [List.getD_eq_getElem?_getD, ← hg]; rfl
      have hjmem : j ∈ PC.kept h0 rk one a := by rw [← hjget]; exact getD_mem hp1
      have hjidx : (PC.kept h0 rk one a).idxOf j = (PC.kept h0 rk one a).idxOf i + 1 := by
        rw [← hjget]; exact idxOf_getD hK hp1
      obtain ⟨_, hjF, _, hjhd, hjlt⟩ := H.kept_cell a1 a2 a3 a4 hjmem
      have hEj : PC.Reach Hf x0 j := hE.trans (.single (by simp [PC.succs, hc]))
      have hjM : PC.isAlt H.masked j = true := by
        unfold PC.isAlt; rw [H.masked_in hEj]
        have := H.isAlt_eq j
        unfold PC.isAlt at this hjF
        rw [this]; exact hjF
      refine ⟨by rw [hsz]; exact hjlt, hjM, ?_, ?_⟩
      · apply crk_lt _ hjlt
        rw [hkey_alt j hjM, hkey_alt i halM, a6, hjhd, hjidx]
        simp only [keyLt, Bool.or_eq_true, Bool.and_eq_true, decide_eq_true_eq]
        right
        refine ⟨trivial, ?_⟩
        have h1 := hp1
        omega
      · rw [hhd_alt j hjM, hhd_alt i halM, a6, hjhd]
        cases hk : PC.kept h0 rk one a with
        | nil => rw [hk] at a5; cases a5
        | cons k0 tl => rfl

/-- the new root is a chain head of the masked heap -/
theorem FinalHeap.hdN_root : hdN h0 rk hd one H.masked x0 = x0 := by
  unfold hdN
  cases hal : PC.isAlt H.masked x0 with
  | false => rfl
  | true =>
    simp only [if_true]
    obtain ⟨_, halF, _⟩ := H.masked_alt hal
    obtain ⟨k, hk, hdk, _, e⟩ := H.root
    rw [e] at halF ⊢
    obtain ⟨_, tl, ht, hh⟩ := H.res0_head hk hdk halF
    rw [hh, ht]; rfl

theorem FinalHeap.root_lt : x0 < H.masked.size := by
  rw [H.masked_size]; exact H.lt (.refl _)

end

end Yaep.NG
