import Yaep.Spec.ParseTree
/-!
# Helper lemmas about parse trees, the derivation enumerator and the translation
-/
namespace Yaep
variable {g : Grammar} {toks : List Nat}

mutual
theorem PT.ValidAt.span : ∀ (pt : PT) {X : Sym} {i j : Nat},
    PT.ValidAt g toks pt X i j → j = i + pt.yield.length
  | .leaf a p, _, _, _, h => by cases h; simp [PT.yield]
  | .node r kids, _, _, _, h => by
    cases h with
    | node h1 h2 h3 => simpa [PT.yield] using PT.ValidListAt.span kids h3
theorem PT.ValidListAt.span : ∀ (kids : List PT) {Xs : List Sym} {i j : Nat},
    PT.ValidListAt g toks kids Xs i j → j = i + (PT.yieldList kids).length
  | [], _, _, _, h => by cases h; simp [PT.yieldList]
  | k :: ks, _, _, _, h => by
    cases h with
    | cons h1 h2 =>
      have := PT.ValidAt.span k h1
      have := PT.ValidListAt.span ks h2
      simp [PT.yieldList]; omega
end

theorem PT.ValidAt.le {pt : PT} {X : Sym} {i j : Nat} (h : PT.ValidAt g toks pt X i j) : i ≤ j := by
  have := h.span; omega
theorem PT.ValidListAt.le {kids : List PT} {Xs : List Sym} {i j : Nat}
    (h : PT.ValidListAt g toks kids Xs i j) : i ≤ j := by
  have := h.span; omega

/-- generic soundness and completeness of `derivSeq`, given the specification of `symF` -/
theorem mem_derivSeq {symF : Sym → Nat → Nat → List PT} {fuel : Nat}
    (hsym : ∀ pt X i j, pt ∈ symF X i j ↔ (PT.ValidAt g toks pt X i j ∧ pt.depth ≤ fuel)) :
    ∀ (Xs : List Sym) (kids : List PT) (i j : Nat),
      kids ∈ derivSeq symF Xs i j ↔
        (PT.ValidListAt g toks kids Xs i j ∧ PT.depthList kids ≤ fuel) := by
  intro Xs
  induction Xs with
  | nil =>
    intro kids i j
    simp only [derivSeq]
    constructor
    · intro h
      split at h
      · subst_vars; simp at h; subst h; exact ⟨.nil, by simp [PT.depthList]⟩
      · simp at h
    · rintro ⟨h, -⟩
      cases h; simp
  | cons X rest ih =>
    intro kids i j
    simp only [derivSeq, List.mem_flatMap, List.mem_range]
    constructor
    · rintro ⟨d, hd, h⟩
      split at h
      · simp at h
      · simp only [List.mem_flatMap, List.mem_map] at h
        obtain ⟨a, ha, b, hb, rfl⟩ := h
        obtain ⟨va, da⟩ := (hsym _ _ _ _).1 ha
        obtain ⟨vb, db⟩ := (ih _ _ _).1 hb
        exact ⟨.cons va vb, by simp [PT.depthList]; omega⟩
    · rintro ⟨h, hdep⟩
      cases h with
      | @cons k ks _ _ _ m _ h1 h2 =>
        have l1 := h1.le
        have l2 := h2.le
        simp only [PT.depthList] at hdep
        have hk : k ∈ symF X i m := (hsym _ _ _ _).2 ⟨h1, by omega⟩
        refine ⟨m - i, by omega, ?_⟩
        have e : i + (m - i) = m := by omega
        simp only [e]
        split
        · rename_i he; simp [List.isEmpty_iff] at he; simp [he] at hk
        · simp only [List.mem_flatMap, List.mem_map]
          exact ⟨k, hk, ks, (ih _ _ _).2 ⟨h2, by omega⟩, rfl⟩

theorem mem_rulesFor {A r : Nat} : r ∈ g.rulesFor A ↔ ∃ rl, g.rules[r]? = some rl ∧ rl.lhs = A := by
  simp only [Grammar.rulesFor, List.mem_filter, List.mem_range]
  constructor
  · rintro ⟨h, h2⟩
    split at h2
    · rename_i rl e; exact ⟨rl, e, by simpa using h2⟩
    · simp at h2
  · rintro ⟨rl, e, rfl⟩
    have : r < g.rules.length := by
      rcases Nat.lt_or_ge r g.rules.length with h | h
      · exact h
      · simp [List.getElem?_eq_none h] at e
    exact ⟨this, by simp [e]⟩


theorem nodup_flatMap_of {α β : Type} {l : List α} {f : α → List β} (hl : l.Nodup)
    (hf : ∀ a ∈ l, (f a).Nodup)
    (hdisj : ∀ a₁ ∈ l, ∀ a₂ ∈ l, ∀ x, x ∈ f a₁ → x ∈ f a₂ → a₁ = a₂) :
    (l.flatMap f).Nodup := by
  unfold List.Nodup
  rw [List.pairwise_flatMap]
  refine ⟨hf, ?_⟩
  refine List.Pairwise.imp_of_mem ?_ hl
  intro a b ha hb hab x hx y hy hxy
  subst hxy
  exact hab (hdisj a ha b hb x hx hy)

theorem nodup_map_of {α β : Type} {l : List α} {f : α → β} (hl : l.Nodup)
    (hinj : ∀ a b, f a = f b → a = b) : (l.map f).Nodup := by
  unfold List.Nodup
  rw [List.pairwise_map]
  exact hl.imp (fun hab h => hab (hinj _ _ h))

theorem rulesFor_nodup (g : Grammar) (A : Nat) : (g.rulesFor A).Nodup :=
  List.Pairwise.filter _ List.nodup_range

theorem derivSeq_nodup {symF : Sym → Nat → Nat → List PT}
    (hnd : ∀ X i j, (symF X i j).Nodup)
    (hspan : ∀ pt X i j j', pt ∈ symF X i j → pt ∈ symF X i j' → j = j') :
    ∀ (Xs : List Sym) (i j : Nat), (derivSeq symF Xs i j).Nodup := by
  intro Xs
  induction Xs with
  | nil => intro i j; simp only [derivSeq]; split <;> simp
  | cons X rest ih =>
    intro i j
    simp only [derivSeq]
    apply nodup_flatMap_of List.nodup_range
    · intro d _
      split
      · simp
      · apply nodup_flatMap_of (hnd _ _ _)
        · intro a _
          exact nodup_map_of (ih _ _) (by intro x y h; simpa using h)
        · intro a₁ _ a₂ _ x h1 h2
          simp only [List.mem_map] at h1 h2
          obtain ⟨b1, _, rfl⟩ := h1
          obtain ⟨b2, _, h⟩ := h2
          simp at h; exact h.1.symm
    · intro d₁ _ d₂ _ x h1 h2
      split at h1
      · simp at h1
      split at h2
      · simp at h2
      simp only [List.mem_flatMap, List.mem_map] at h1 h2
      obtain ⟨a1, ha1, b1, _, rfl⟩ := h1
      obtain ⟨a2, ha2, b2, _, h⟩ := h2
      simp at h
      rw [h.1] at ha2
      have := hspan _ _ _ _ _ ha1 ha2
      omega

theorem derivSym_mem (g : Grammar) (toks : List Nat) (fuel : Nat) : ∀ (pt : PT) (X : Sym) (i j : Nat),
    pt ∈ derivSym g toks fuel X i j ↔ (PT.ValidAt g toks pt X i j ∧ pt.depth ≤ fuel) := by
  have hterm : ∀ fuel (pt : PT) (a : Nat) (i j : Nat),
      pt ∈ derivSym g toks fuel (.t a) i j ↔ (PT.ValidAt g toks pt (.t a) i j ∧ pt.depth ≤ fuel) := by
    intro fuel pt a i j
    have : derivSym g toks fuel (.t a) i j =
        if j = i + 1 ∧ toks[i]? = some a then [.leaf a i] else [] := by
      cases fuel <;> simp [derivSym]
    rw [this]
    constructor
    · intro h
      split at h
      · rename_i hc; simp at h; subst h; obtain ⟨rfl, h2⟩ := hc
        exact ⟨.leaf h2, by simp [PT.depth]⟩
      · simp at h
    · rintro ⟨h, -⟩
      cases h with
      | leaf h => simp [h]
  induction fuel with
  | zero =>
    intro pt X i j
    cases X with
    | t a => exact hterm _ _ _ _ _
    | n A =>
      simp only [derivSym, List.not_mem_nil, false_iff]
      rintro ⟨h, hd⟩
      cases h; simp [PT.depth] at hd
  | succ fuel ih =>
    intro pt X i j
    cases X with
    | t a => exact hterm _ _ _ _ _
    | n A =>
      simp only [derivSym, List.mem_flatMap]
      constructor
      · rintro ⟨r, hr, h⟩
        obtain ⟨rl, e, hl⟩ := mem_rulesFor.1 hr
        simp only [e, List.mem_map] at h
        obtain ⟨kids, hk, rfl⟩ := h
        obtain ⟨v, d⟩ := (mem_derivSeq ih _ _ _ _).1 hk
        exact ⟨.node e hl v, by simp [PT.depth]; omega⟩
      · rintro ⟨h, hd⟩
        cases h with
        | @node r rl _ kids _ _ e hl v =>
          refine ⟨r, mem_rulesFor.2 ⟨rl, e, hl⟩, ?_⟩
          simp only [e, List.mem_map]
          simp only [PT.depth] at hd
          exact ⟨kids, (mem_derivSeq ih _ _ _ _).2 ⟨v, by omega⟩, rfl⟩

theorem lt_length_of_getElem?_eq_some {α : Type} {l : List α} {p : Nat} {x : α}
    (h : l[p]? = some x) : p < l.length := by
  rcases Nat.lt_or_ge p l.length with h' | h'
  · exact h'
  · simp [List.getElem?_eq_none h'] at h

theorem take_drop_glue {α : Type} (l : List α) {i m j : Nat} (h1 : i ≤ m) (h2 : m ≤ j) :
    (l.drop i).take (m - i) ++ (l.drop m).take (j - m) = (l.drop i).take (j - i) := by
  have e : j - i = (m - i) + (j - m) := by omega
  rw [e, List.take_add, List.drop_drop]
  have : i + (m - i) = m := by omega
  rw [this]

theorem take_one_drop {α : Type} {l : List α} {i : Nat} {a : α} (h : l[i]? = some a) :
    (l.drop i).take 1 = [a] := by
  have hl := lt_length_of_getElem?_eq_some h
  rw [List.drop_eq_getElem_cons hl]
  simp [List.getElem?_eq_getElem hl] at h
  simp [h]

mutual
theorem PT.ValidAt.yield_eq : ∀ {pt : PT} {X : Sym} {i j : Nat},
    PT.ValidAt g toks pt X i j → pt.yield = (toks.drop i).take (j - i)
  | .leaf a p, _, _, _, h => by
    cases h with
    | leaf h => simp only [PT.yield, Nat.add_sub_cancel_left]; exact (take_one_drop h).symm
  | .node r kids, _, _, _, h => by
    cases h with
    | node h1 h2 h3 => simpa [PT.yield] using PT.ValidListAt.yield_eq h3
theorem PT.ValidListAt.yield_eq : ∀ {kids : List PT} {Xs : List Sym} {i j : Nat},
    PT.ValidListAt g toks kids Xs i j → PT.yieldList kids = (toks.drop i).take (j - i)
  | [], _, _, _, h => by cases h; simp [PT.yieldList]
  | k :: ks, _, _, _, h => by
    cases h with
    | cons h1 h2 =>
      rw [PT.yieldList, PT.ValidAt.yield_eq h1, PT.ValidListAt.yield_eq h2]
      exact take_drop_glue toks h1.le h2.le
end

/-- the right end of the span of an enumerated tree is determined by the tree -/
theorem derivSym_span_unique (g : Grammar) (toks : List Nat) (fuel : Nat) (pt : PT) (X : Sym)
    (i j j' : Nat) (h : pt ∈ derivSym g toks fuel X i j) (h' : pt ∈ derivSym g toks fuel X i j') :
    j = j' := by
  have a := ((derivSym_mem g toks fuel pt X i j).1 h).1.span
  have b := ((derivSym_mem g toks fuel pt X i j').1 h').1.span
  omega

theorem derivSym_nodup_aux (g : Grammar) (toks : List Nat) (fuel : Nat) :
    ∀ (X : Sym) (i j : Nat), (derivSym g toks fuel X i j).Nodup := by
  have hterm : ∀ fuel (a : Nat) (i j : Nat), (derivSym g toks fuel (.t a) i j).Nodup := by
    intro fuel a i j
    have : derivSym g toks fuel (.t a) i j =
        if j = i + 1 ∧ toks[i]? = some a then [.leaf a i] else [] := by
      cases fuel <;> simp [derivSym]
    rw [this]; split <;> simp
  induction fuel with
  | zero =>
    intro X i j
    cases X with
    | t a => exact hterm _ _ _ _
    | n A => simp [derivSym]
  | succ fuel ih =>
    intro X i j
    cases X with
    | t a => exact hterm _ _ _ _
    | n A =>
      simp only [derivSym]
      apply nodup_flatMap_of (rulesFor_nodup g A)
      · intro r _
        split
        · exact nodup_map_of
            (derivSeq_nodup ih (derivSym_span_unique g toks fuel) _ _ _)
            (by intro x y h; simpa using h)
        · simp
      · intro r₁ _ r₂ _ x h1 h2
        split at h1
        · split at h2
          · simp only [List.mem_map] at h1 h2
            obtain ⟨k1, _, rfl⟩ := h1
            obtain ⟨k2, _, h⟩ := h2
            simp at h; exact h.1.symm
          · simp at h2
        · simp at h1

theorem two_le_length_iff_of_nodup {α : Type} {l : List α} (h : l.Nodup) :
    2 ≤ l.length ↔ ∃ a b, a ≠ b ∧ a ∈ l ∧ b ∈ l := by
  constructor
  · intro hl
    match l, h, hl with
    | a :: b :: _, h, _ =>
      refine ⟨a, b, ?_, by simp, by simp⟩
      intro e; subst e
      simp at h
  · rintro ⟨a, b, hab, ha, hb⟩
    match l, ha, hb with
    | [x], ha, hb => simp at ha hb; exact absurd (ha.trans hb.symm) hab
    | _ :: _ :: _, _, _ => simp

theorem length_eq_one_iff_of_nodup {α : Type} {l : List α} (h : l.Nodup) :
    l.length = 1 ↔ ∃ a, a ∈ l ∧ ∀ b, b ∈ l → b = a := by
  constructor
  · intro hl
    match l, hl with
    | [a], _ => exact ⟨a, by simp, by simp⟩
  · rintro ⟨a, ha, hu⟩
    match l, h, ha, hu with
    | [x], _, _, _ => rfl
    | x :: y :: _, h, _, hu =>
      have h1 := hu x (by simp)
      have h2 := hu y (by simp)
      subst h1; subst h2; simp at h

/-! ## translation -/

theorem bnot_of_not {b : Bool} (h : ¬ b = true) : (!b) = true := by cases b <;> simp_all

theorem order_getD_beq {order : List (Option Nat)} {p s : Nat} :
    (order.getD p none == some s) = true ↔ order[p]? = some (some s) := by
  rw [List.getD_eq_getElem?_getD]
  cases h : order[p]? with
  | none => simp
  | some x => simp

theorem fillSlots_find_first {order : List (Option Nat)} {s p : Nat} (hp : FirstAt order s p) :
    (List.range order.length).find? (fun p => order.getD p none == some s) = some p := by
  obtain ⟨h1, h2⟩ := hp
  rw [List.find?_range_eq_some]
  refine ⟨order_getD_beq.2 h1, List.mem_range.2 (lt_length_of_getElem?_eq_some h1), ?_⟩
  intro q hq
  exact bnot_of_not fun h => h2 q hq (order_getD_beq.1 h)

theorem fillSlots_find_none {order : List (Option Nat)} {s : Nat}
    (hn : ∀ p : Nat, order[p]? ≠ some (some s)) :
    (List.range order.length).find? (fun p => order.getD p none == some s) = none := by
  rw [List.find?_range_eq_none]
  intro q _
  exact bnot_of_not fun h => hn q (order_getD_beq.1 h)

theorem fillSlots_getElem? (order : List (Option Nat)) (kids : List Tree) {len s : Nat}
    (hs : s < len) :
    (fillSlots order kids len)[s]? = some
      (match (List.range order.length).find? (fun p => order.getD p none == some s) with
       | some p => kids.getD p .nil
       | none => .nil) := by
  unfold fillSlots
  rw [List.getElem?_map, List.getElem?_range hs]
  rfl

theorem firstAt_of_unique {order : List (Option Nat)} {s p : Nat}
    (h : order[p]? = some (some s)) (hu : ∀ q : Nat, order[q]? = some (some s) → q = p) :
    FirstAt order s p :=
  ⟨h, fun q hq hc => by have := hu q hc; omega⟩

theorem fillSlots_length' (order : List (Option Nat)) (kids : List Tree) (len : Nat) :
    (fillSlots order kids len).length = len := by
  simp [fillSlots]

theorem fillSlots_getElem?_first {order : List (Option Nat)} {kids : List Tree} {len s p : Nat}
    (hs : s < len) (hp : FirstAt order s p) :
    (fillSlots order kids len)[s]? = some (kids.getD p .nil) := by
  rw [fillSlots_getElem? _ _ hs, fillSlots_find_first hp]

theorem fillSlots_getElem?_none {order : List (Option Nat)} {kids : List Tree} {len s : Nat}
    (hs : s < len) (hn : ∀ p : Nat, order[p]? ≠ some (some s)) :
    (fillSlots order kids len)[s]? = some .nil := by
  rw [fillSlots_getElem? _ _ hs, fillSlots_find_none hn]

theorem order_getD_isSome {order : List (Option Nat)} {p : Nat} :
    (order.getD p none).isSome = true ↔ ∃ s, order[p]? = some (some s) := by
  rw [List.getD_eq_getElem?_getD]
  cases h : order[p]? with
  | none => simp
  | some x => cases x <;> simp

theorem translateRule_passthrough {rl : Rule} {kids : List Tree} {p : Nat}
    (ha : rl.anode = none) (hp : FirstSome rl.order p) :
    translateRule rl kids = kids.getD p .nil := by
  obtain ⟨h1, h2⟩ := hp
  have : (List.range rl.order.length).find? (fun p => (rl.order.getD p none).isSome) = some p := by
    rw [List.find?_range_eq_some]
    obtain ⟨s, hs⟩ := h1
    refine ⟨order_getD_isSome.2 ⟨s, hs⟩, List.mem_range.2 (lt_length_of_getElem?_eq_some hs), ?_⟩
    intro q hq
    have := h2 q hq
    have h3 : ¬ (rl.order.getD q none).isSome = true := by
      rw [order_getD_isSome]; rintro ⟨s, hs⟩; exact this s hs
    exact bnot_of_not h3
  simp only [translateRule, ha, this]

theorem translateRule_nil {rl : Rule} {kids : List Tree}
    (ha : rl.anode = none) (hn : ∀ (p s : Nat), rl.order[p]? ≠ some (some s)) :
    translateRule rl kids = .nil := by
  have : (List.range rl.order.length).find? (fun p => (rl.order.getD p none).isSome) = none := by
    rw [List.find?_range_eq_none]
    intro q _
    have h3 : ¬ (rl.order.getD q none).isSome = true := by
      rw [order_getD_isSome]; rintro ⟨s, hs⟩; exact hn q s hs
    exact bnot_of_not h3
  simp only [translateRule, ha, this]

theorem translateRule_anode {rl : Rule} {kids : List Tree} {name : String}
    (ha : rl.anode = some name) :
    translateRule rl kids = .anode name rl.cost (fillSlots rl.order kids rl.transLen) := by
  simp only [translateRule, ha]

theorem translateList_eq_map (g : Grammar) (kids : List PT) :
    translateList g kids = kids.map (translate g) := by
  induction kids with
  | nil => simp [translateList]
  | cons k ks ih => simp [translateList, ih]


/-! ## the saturating counter -/

theorem foldl_sat {α : Type} (cap : Nat) (step : Nat → α → Nat) (F : α → Nat)
    (hstep : ∀ A d, step (min (cap + 1) A) d = min (cap + 1) (A + F d)) :
    ∀ (l : List α) (A : Nat),
      l.foldl step (min (cap + 1) A) = min (cap + 1) (A + (l.map F).sum) := by
  intro l
  induction l with
  | nil => simp
  | cons d l ih =>
    intro A
    simp only [List.foldl_cons, hstep, ih, List.map_cons, List.sum_cons]
    rw [Nat.add_assoc]

theorem min_mul_min (c A x y : Nat) :
    min (c + 1) (A + min (c + 1) x * min (c + 1) y) = min (c + 1) (A + x * y) := by
  rcases Nat.le_total x (c + 1) with hx | hx
  · rcases Nat.le_total y (c + 1) with hy | hy
    · rw [Nat.min_eq_right hx, Nat.min_eq_right hy]
    · rw [Nat.min_eq_right hx, Nat.min_eq_left hy]
      rcases Nat.eq_zero_or_pos x with rfl | hx0
      · simp
      · have h1 : c + 1 ≤ x * (c + 1) := Nat.le_mul_of_pos_left _ hx0
        have h2 : x * (c + 1) ≤ x * y := Nat.mul_le_mul_left _ hy
        omega
  · rw [Nat.min_eq_left hx]
    rcases Nat.eq_zero_or_pos y with rfl | hy0
    · simp
    · have h1 : c + 1 ≤ (c + 1) * min (c + 1) y :=
        Nat.le_mul_of_pos_right _ (by omega)
      have h2 : c + 1 ≤ x * y :=
        Nat.le_trans (Nat.le_mul_of_pos_right _ hy0) (Nat.mul_le_mul_right _ hx)
      omega

theorem sum_map_const {α : Type} (l : List α) (c : Nat) : (l.map fun _ => c).sum = l.length * c := by
  induction l with
  | nil => simp
  | cons x l ih => simp [ih, Nat.succ_mul]; omega

theorem derivSeq_cons_length (symF : Sym → Nat → Nat → List PT) (X : Sym) (rest : List Sym)
    (i j : Nat) :
    (derivSeq symF (X :: rest) i j).length =
      ((List.range (j + 1 - i)).map fun d =>
        (symF X i (i + d)).length * (derivSeq symF rest (i + d) j).length).sum := by
  simp only [derivSeq]
  rw [List.length_flatMap]
  congr 1
  apply List.map_congr_left
  intro d _
  split
  · rename_i he; simp [List.isEmpty_iff] at he; simp [he]
  · rw [List.length_flatMap]
    simp only [List.length_map]
    exact sum_map_const _ _

theorem countSeq_spec {cap : Nat} {symF : Sym → Nat → Nat → List PT} {cnt : Sym → Nat → Nat → Nat}
    (h : ∀ X i j, cnt X i j = min (cap + 1) (symF X i j).length) :
    ∀ (Xs : List Sym) (i j : Nat),
      countSeq cap cnt Xs i j = min (cap + 1) (derivSeq symF Xs i j).length := by
  intro Xs
  induction Xs with
  | nil =>
    intro i j
    simp only [countSeq, derivSeq]
    split <;> simp
  | cons X rest ih =>
    intro i j
    rw [derivSeq_cons_length]
    simp only [countSeq]
    have h0 : (0 : Nat) = min (cap + 1) 0 := by simp
    rw [h0, foldl_sat cap _ (fun d => (symF X i (i + d)).length *
      (derivSeq symF rest (i + d) j).length)]
    · simp
    · intro A d
      simp only [h, ih]
      split
      · rename_i hc
        have : cap + 1 ≤ A := by omega
        omega
      · rename_i hc
        have hA : min (cap + 1) A = A := by omega
        split
        · rename_i hz
          have : (symF X i (i + d)).length = 0 := by omega
          simp [this, hA]
        · rw [hA, min_mul_min]

theorem countSym_spec_aux (g : Grammar) (toks : List Nat) (cap : Nat) (fuel : Nat) :
    ∀ (X : Sym) (i j : Nat),
      countSym g toks cap fuel X i j = min (cap + 1) (derivSym g toks fuel X i j).length := by
  have hterm : ∀ fuel (a : Nat) (i j : Nat), countSym g toks cap fuel (.t a) i j =
      min (cap + 1) (derivSym g toks fuel (.t a) i j).length := by
    intro fuel a i j
    cases fuel <;> simp only [countSym, derivSym] <;> split <;> simp
  induction fuel with
  | zero =>
    intro X i j
    cases X with
    | t a => exact hterm _ _ _ _
    | n A => simp [countSym, derivSym]
  | succ fuel ih =>
    intro X i j
    cases X with
    | t a => exact hterm _ _ _ _
    | n A =>
      simp only [countSym, derivSym]
      have h0 : (0 : Nat) = min (cap + 1) 0 := by simp
      rw [List.length_flatMap, h0, foldl_sat cap _ (fun r =>
        (match g.rules[r]? with
          | some rl => (derivSeq (derivSym g toks fuel) rl.rhs i j).map fun kids => PT.node r kids
          | none => []).length)]
      · simp only [Nat.zero_add]; rfl
      · intro B r
        cases e : g.rules[r]? with
        | none => simp
        | some rl =>
          simp only [List.length_map]
          rw [countSeq_spec ih]
          split
          · omega
          · omega
end Yaep
