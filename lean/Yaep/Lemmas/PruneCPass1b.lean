import Yaep.Lemmas.PruneCPass1
/-!
# The first pass: the loop over the children of an abstract node
-/
namespace Yaep.PC
open Yaep

section
variable (h0 : Array Cell) (rk hd : Nat → Nat) (one free : Bool)

/-- what a call of `prune_to_minimal` for a cell of rank `< B` does -/
def RecSpec (rec : PSt → Nat → PSt × Nat × Int) (B : Nat) : Prop :=
  ∀ (X : Nat → Prop) (s : PSt) (k : Nat), rk k < B → k < h0.size → hd k = k →
    (∀ x, X x → rk k < rk x) → Inv h0 rk hd one free X s →
    Inv h0 rk hd one free X (rec s k).1 ∧ (rec s k).2.1 = res0 h0 rk one k ∧
    (rec s k).2.2 = (cost0 h0 rk one k : Int) ∧ Visited h0 free (rec s k).1 k ∧
    Frame rk hd s (rec s k).1 (rk k) ∧ (∀ i, i ∈ (rec s k).1.coll → i ∈ s.coll ∨ Reach h0 k i)

/-- sum of the minimal costs of a list of cells -/
def sumCost (l : List Nat) : Nat := (l.map (cost0 h0 rk one)).sum

end

section
variable {h0 : Array Cell} {rk hd : Nat → Nat} {one free : Bool}

theorem sumCost_append (a b : List Nat) :
    sumCost h0 rk one (a ++ b) = sumCost h0 rk one a + sumCost h0 rk one b := by
  simp [sumCost]

theorem getD_after_none (A rest : List (Option Nat)) (hr : somePrefix rest = []) :
    (A ++ rest).getD A.length none = none := by
  cases rest with
  | nil => simp
  | cons x r =>
    cases x with
    | none => exact list_getD_mid A none r none
    | some k => simp [somePrefix] at hr

theorem kidsLoop_spec (wf : WfHeap h0 rk hd) {rec : PSt → Nat → PSt × Nat × Int} {B : Nat}
    (hrec : RecSpec h0 rk hd one free rec B) {X : Nat → Prop} {n : Nat} {nm : String} {c : Int}
    (hn : n < h0.size) (hdn : hd n = n) (hc0 : 0 ≤ c) (hB : rk n ≤ B) (hX : ∀ x, X x → rk n < rk x)
    (rest : List (Option Nat)) (hrest : somePrefix rest = []) :
    ∀ (todo done : List Nat) (m : Nat) (s : PSt),
      (∀ k ∈ done ++ todo, k < h0.size ∧ rk k < rk n ∧ hd k = k) → todo.length ≤ m →
      Inv h0 rk hd one free (fun x => X x ∨ x = n) s →
      (∃ ksI : Array (Option Nat),
        cellAt s.heap n = .anode nm (c + (sumCost h0 rk one done : Int)) ksI ∧
        ksI.toList = done.map (fun k => some (res0 h0 rk one k)) ++ todo.map some ++ rest) →
      (∀ k ∈ done, Visited h0 free s k) →
      Inv h0 rk hd one free (fun x => X x ∨ x = n) (kidsLoop rec n m done.length s) ∧
      (∃ ksF : Array (Option Nat),
        cellAt (kidsLoop rec n m done.length s).heap n =
          .anode nm (c + (sumCost h0 rk one (done ++ todo) : Int)) ksF ∧
        ksF.toList = (done ++ todo).map (fun k => some (res0 h0 rk one k)) ++ rest) ∧
      (∀ k ∈ done ++ todo, Visited h0 free (kidsLoop rec n m done.length s) k) ∧
      Frame rk hd s (kidsLoop rec n m done.length s) (rk n) ∧
      (∀ i, i ∈ (kidsLoop rec n m done.length s).coll → i ∈ s.coll ∨ ∃ k ∈ todo, Reach h0 k i) := by
  intro todo
  induction todo with
  | nil =>
    intro done m s hK hm hinv hcell hvis
    obtain ⟨ksI, e1, e2⟩ := hcell
    have hstop : kidsLoop rec n m done.length s = s := by
      cases m with
      | zero => rfl
      | succ m =>
        unfold kidsLoop
        have : kidAt s.heap n done.length = none := by
          simp only [kidAt, e1]
          rw [arr_getD_toList, e2]
          simp only [List.map_nil, List.append_nil]
          have := getD_after_none (done.map fun k => some (res0 h0 rk one k)) rest hrest
          simpa using this
        rw [this]
    rw [hstop]
    refine ⟨hinv, ⟨ksI, by simpa using e1, by simpa using e2⟩, by simpa using hvis,
      Frame.refl s _, fun i hi => Or.inl hi⟩
  | cons k t ih =>
    intro done m s hK hm hinv hcell hvis
    obtain ⟨ksI, e1, e2⟩ := hcell
    obtain ⟨m, rfl⟩ : ∃ m', m = m' + 1 := ⟨m - 1, by simp at hm; omega⟩
    have hk := hK k (by simp)
    have hkid : kidAt s.heap n done.length = some k := by
      simp only [kidAt, e1]
      rw [arr_getD_toList, e2]
      have := list_getD_mid (done.map fun k => some (res0 h0 rk one k)) (some k)
        (t.map some ++ rest) none
      simpa using this
    unfold kidsLoop
    rw [hkid]
    simp only
    -- the recursive call
    obtain ⟨r1, r2, r3, r4, r5, r6⟩ := hrec (fun x => X x ∨ x = n) s k (by omega) hk.1 hk.2.2
      (by
        intro x hx
        rcases hx with hx | rfl
        · have := hX x hx; omega
        · exact hk.2.1) hinv
    generalize rec s k = p at r1 r2 r3 r4 r5 r6 ⊢
    obtain ⟨s1, r, cst⟩ := p
    simp only at r1 r2 r3 r4 r5 r6 ⊢
    subst r2 r3
    have hns1 : n < s1.heap.size := by rw [r1.size]; exact hn
    have ecell1 : cellAt s1.heap n = .anode nm (c + (sumCost h0 rk one done : Int)) ksI := by
      rw [r5.cells n (by rw [hdn]; exact hk.2.1)]; exact e1
    have ecell2 := cellAt_setKid_eq done.length (res0 h0 rk one k) hns1 ecell1
    have hcost2 : costAt (setKid s1.heap n done.length (res0 h0 rk one k)) n =
        c + (sumCost h0 rk one done : Int) := by simp [costAt, ecell2]
    rw [hcost2]
    have ecell3 := cellAt_setCost_eq (c + (sumCost h0 rk one done : Int) + (cost0 h0 rk one k : Int))
      (by simpa using hns1) ecell2
    generalize hs2 : ({ s1 with heap := setCost (setKid s1.heap n done.length (res0 h0 rk one k)) n (c + (sumCost h0 rk one done : Int) + (cost0 h0 rk one k : Int)) } : PSt) = s2
    have hheap2 : s2.heap = setCost (setKid s1.heap n done.length (res0 h0 rk one k)) n
      (c + (sumCost h0 rk one done : Int) + (cost0 h0 rk one k : Int)) := by rw [← hs2]
    have hmemo2 : s2.memo = s1.memo := by rw [← hs2]
    have hcoll2 : s2.coll = s1.coll := by rw [← hs2]
    have hoof2 : s2.oof = s1.oof := by rw [← hs2]
    have hsize2 : s2.heap.size = s1.heap.size := by rw [hheap2]; simp
    have hother : ∀ j, j ≠ n → cellAt s2.heap j = cellAt s1.heap j := by
      intro j hj
      rw [hheap2, cellAt_setCost_ne _ _ (Ne.symm hj), cellAt_setKid_ne _ _ _ (Ne.symm hj)]
    have hnonneg : 0 ≤ c + (sumCost h0 rk one done : Int) := by omega
    have hneg2 : ∀ j, costAt s1.heap j < 0 → costAt s2.heap j < 0 := by
      intro j hj
      by_cases e : j = n
      · subst e
        simp only [costAt, ecell1] at hj
        omega
      · simpa only [costAt, hother j e] using hj
    have hinv2 : Inv h0 rk hd one free (fun x => X x ∨ x = n) s2 := by
      refine Inv.pres wf hsize2 ?_ hmemo2 (by rw [hcoll2]; exact fun _ h => h) hneg2 r1
      intro j hj hx
      by_cases e : j = n
      · subst e; exact absurd (Or.inr hdn) hx
      · exact hother j e
    have hframe2 : Frame rk hd s1 s2 (rk n) := by
      refine ⟨hsize2, ?_, by rw [hmemo2]; exact fun _ _ => rfl,
        by rw [hmemo2]; exact fun _ _ h => h, by rw [hcoll2]; exact fun _ h => h, hneg2, hoof2⟩
      intro j hj
      by_cases e : j = n
      · subst e; rw [hdn] at hj; omega
      · exact hother j e
    have hcellNew : ∃ ksI : Array (Option Nat),
        cellAt s2.heap n = .anode nm (c + (sumCost h0 rk one (done ++ [k]) : Int)) ksI ∧
        ksI.toList = (done ++ [k]).map (fun k => some (res0 h0 rk one k)) ++ t.map some ++ rest := by
      refine ⟨ksI.set! done.length (some (res0 h0 rk one k)), ?_, ?_⟩
      · rw [hheap2, ecell3, sumCost_append]
        simp only [sumCost, List.map_cons, List.map_nil, List.sum_cons, List.sum_nil]
        congr 1
        omega
      · rw [arr_set!_toList, e2]
        have := list_set_mid (done.map fun k => some (res0 h0 rk one k)) (some k)
          (some (res0 h0 rk one k)) (t.map some ++ rest)
        simp only [List.length_map] at this
        simpa using this
    have hvisNew : ∀ x ∈ done ++ [k], Visited h0 free s2 x := by
      intro x hx
      rcases List.mem_append.1 hx with hx | hx
      · exact ((hvis x hx).frame r5).frame hframe2
      · simp only [List.mem_singleton] at hx
        subst hx
        exact r4.frame hframe2
    have hlen : (done ++ [k]).length = done.length + 1 := by simp
    have := ih (done ++ [k]) m s2 (by simpa using hK) (by simp at hm; omega) hinv2 hcellNew hvisNew
    rw [hlen] at this
    obtain ⟨q1, q2, q3, q4, q5⟩ := this
    refine ⟨q1, by simpa using q2, by simpa using q3,
      (r5.mono (Nat.le_of_lt hk.2.1)).trans (hframe2.trans q4 (Nat.le_refl _)) (Nat.le_refl _), ?_⟩
    intro i hi
    rcases q5 i hi with h | ⟨x, hx, hr⟩
    · rw [hcoll2] at h
      rcases r6 i h with h | h
      · exact Or.inl h
      · exact Or.inr ⟨k, by simp, h⟩
    · exact Or.inr ⟨x, by simp [hx], hr⟩

end

end Yaep.PC
