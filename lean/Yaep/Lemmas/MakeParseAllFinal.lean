import Yaep.Lemmas.MakeParseAllState
import Yaep.Lemmas.MakeParseAllExport
import Yaep.Props.C03
import Yaep.Lemmas.MakeParseSoundExport
/-!
# All-parses mode: from the invariant at the end of the loop to the denotation of the result
-/
namespace Yaep.MP
open Yaep

/-- a list of derivations from a function on positions -/
theorem validList_of_fn {g : Grammar} {toks : List Nat} : ∀ (Xs : List Sym) (f : Nat → PT) (sp : Nat → Nat),
    (∀ q X, Xs[q]? = some X → PT.ValidAt g toks (f q) X (sp q) (sp (q + 1))) →
    PT.ValidListAt g toks ((List.range Xs.length).map f) Xs (sp 0) (sp Xs.length)
  | [], f, sp, _ => .nil
  | X :: Xs, f, sp, h => by
    have ih := validList_of_fn Xs (fun q => f (q + 1)) (fun q => sp (q + 1))
      (fun q Y hq => h (q + 1) Y (by simpa using hq))
    simp only [List.length_cons, List.range_succ_eq_map, List.map_cons, List.map_map]
    exact .cons (h 0 X rfl) ih

/-- the trees an abstract node with well-typed children stands for are translations of
applications of its rule -/
theorem fin_anode_sound {g : Grammar} {toks : List Nat} (hwf : g.translWF = true) {r : Nat} {rl : Rule}
    {nm : String} {sp : Nat → Nat} {ts : List Tree} (hr : g.rules[r]? = some rl)
    (ha : rl.anode = some nm) (hlen : ts.length = rl.transLen)
    (huntr : ∀ q X, rl.rhs[q]? = some X → rl.order.getD q none = none →
      ∃ pt, PT.ValidAt g toks pt X (sp q) (sp (q + 1)))
    (hts : ∀ d, d < rl.transLen →
      (∃ q X, rl.order.getD q none = some d ∧ rl.rhs[q]? = some X ∧
        Tr g toks X (sp q) (sp (q + 1)) (ts.getD d .nil)) ∨
      ((∀ q, rl.order.getD q none ≠ some d) ∧ ts.getD d .nil = .nil)) :
    TrRule g toks r (sp 0) (sp rl.rhs.length) (.anode nm rl.cost ts) := by
  classical
  have hok := Grammar.translWF_rule hwf hr
  -- a derivation for every position
  have hex : ∀ q X, rl.rhs[q]? = some X → ∃ pt, PT.ValidAt g toks pt X (sp q) (sp (q + 1)) ∧
      ∀ d, rl.order.getD q none = some d → translate g pt = ts.getD d .nil := by
    intro q X hX
    cases ho : rl.order.getD q none with
    | none =>
      obtain ⟨pt, hpt⟩ := huntr q X hX ho
      exact ⟨pt, hpt, fun d hd => by cases hd⟩
    | some d =>
      have hd := hok.slot_lt _ _ (order_getD_eq_some.mp ho)
      rcases hts d hd with ⟨q', X', h1, h2, pt, h3, h4⟩ | ⟨h1, _⟩
      · have hq : q' = q := hok.inj _ _ _ (order_getD_eq_some.mp h1) (order_getD_eq_some.mp ho)
        subst hq
        rw [hX] at h2; injection h2 with h2; subst h2
        exact ⟨pt, h3, fun d' hd' => by injection hd' with hd'; subst hd'; exact h4⟩
      · exact absurd ho (h1 q)
  have hex' : ∀ q, ∃ pt, ∀ X, rl.rhs[q]? = some X → PT.ValidAt g toks pt X (sp q) (sp (q + 1)) ∧
      ∀ d, rl.order.getD q none = some d → translate g pt = ts.getD d .nil := by
    intro q
    cases hq : rl.rhs[q]? with
    | none => exact ⟨default, fun X hX => by cases hX⟩
    | some X =>
      obtain ⟨pt, hpt⟩ := hex q X hq
      exact ⟨pt, fun X' hX' => by injection hX' with hX'; subst hX'; exact hpt⟩
  let f : Nat → PT := fun q => Classical.choose (hex' q)
  have hf : ∀ q X, rl.rhs[q]? = some X → PT.ValidAt g toks (f q) X (sp q) (sp (q + 1)) ∧
      ∀ d, rl.order.getD q none = some d → translate g (f q) = ts.getD d .nil :=
    fun q X hX => Classical.choose_spec (hex' q) X hX
  have hvalid := validList_of_fn (g := g) (toks := toks) rl.rhs f sp (fun q X hX => (hf q X hX).1)
  refine ⟨rl, (List.range rl.rhs.length).map f, hr, hvalid, ?_⟩
  rw [translate_node hr, translateRule_abstract ha]
  congr 1
  apply List.ext_getElem
  · rw [fillSlots_length, hlen]
  · intro d h1 h2
    rw [fillSlots_length] at h1
    have e2 : ts[d] = ts.getD d .nil := by
      rw [List.getD_eq_getElem?_getD, List.getElem?_eq_getElem h2]; rfl
    rw [e2]
    have e1 : (fillSlots rl.order (((List.range rl.rhs.length).map f).map (translate g)) rl.transLen)[d] =
        (fillSlots rl.order (((List.range rl.rhs.length).map f).map (translate g)) rl.transLen).getD d .nil := by
      rw [List.getD_eq_getElem?_getD, List.getElem?_eq_getElem (by rw [fillSlots_length]; exact h1)]; rfl
    rw [e1]
    rcases hts d h1 with ⟨q, X, o1, o2, _⟩ | ⟨o1, o2⟩
    · have o1' := order_getD_eq_some.mp o1
      have hfs := fillSlots_slot_unique (kids := ((List.range rl.rhs.length).map f).map (translate g)) h1 o1'
        (fun q' hq' => hok.inj _ _ _ hq' o1')
      have hql : q < rl.rhs.length := (List.getElem?_eq_some_iff.mp o2).1
      rw [List.getD_eq_getElem?_getD, hfs]
      simp only [Option.getD_some]
      rw [List.getD_eq_getElem?_getD]
      simp only [List.map_map, List.getElem?_map, List.getElem?_range hql, Option.map_some,
        Function.comp, Option.getD_some]
      exact (hf q X o2).2 d o1
    · have hfs := fillSlots_slot_nil (kids := ((List.range rl.rhs.length).map f).map (translate g)) h1
        (fun p hp => o1 p (order_getD_eq_some.mpr hp))
      rw [List.getD_eq_getElem?_getD, hfs, o2]; rfl

/-- every alternative of an ALT chain is well typed -/
theorem PtrOK.chain {g : Grammar} {toks : List Nat} {ty : Nat → CellTy} {h : Array MNode}
    {T : Tree → Prop} : ∀ (fuel m : Nat), PtrOK g toks ty h m T →
      ∀ k ∈ altChain h fuel (some m), PtrOK g toks ty h k T
  | 0, m, _, k, hk => by simp [altChain] at hk
  | fuel + 1, m, hp, k, hk => by
    unfold altChain at hk
    cases hc : h.getD m .nil with
    | alt node next =>
      rw [hc] at hk
      simp only [List.mem_cons] at hk
      cases hp with
      | nil _ hc' _ => rw [hc] at hc'; cases hc'
      | err _ hc' _ => rw [hc] at hc'; cases hc'
      | term _ hc' _ => rw [hc] at hc'; cases hc'
      | anode _ _ hc' _ => rw [hc] at hc'; cases hc'
      | alt _ hc' h1 h2 =>
        rw [hc] at hc'
        injection hc' with e1 e2
        subst e1; subst e2
        rcases hk with rfl | hk
        · exact h1
        · cases hn : next with
          | none => rw [hn] at hk; cases fuel <;> simp [altChain] at hk
          | some m' =>
            rw [hn] at hk
            exact PtrOK.chain fuel m' (h2 m' hn) k hk
    | nil => rw [hc] at hk; cases hk
    | err => rw [hc] at hk; cases hk
    | term _ _ => rw [hc] at hk; cases hk
    | anode _ _ _ => rw [hc] at hk; cases hk

/-- the children `export_node` visits for a finished abstract node -/
theorem cellKids_fin {h : Array MNode} {n : Nat} {nm : String} {c L : Nat} {ks : Array (Option Nat)}
    (hc : h.getD n .nil = .anode nm c ks) (hsz : ks.size = L + 1)
    (hsome : ∀ d, d < L → ∃ m, ks.getD d none = some m) (hlast : ks.getD L none = none) :
    cellKids h n = (List.range L).map (fun d => (ks.getD d none).getD 0) := by
  apply cellKids_anode hc
  apply List.ext_getElem
  · simp [hsz]
  · intro i hi1 hi2
    have hi3 : i < ks.size := by simpa using hi1
    have e1 : ks.toList[i] = ks.getD i none := by simp [Array.getD_eq_getD_getElem?, hi3]
    rw [e1]
    by_cases hlt : i < L
    · rw [List.getElem_append_left (by simpa using hlt)]
      simp only [List.getElem_map, List.getElem_range]
      obtain ⟨m, hm⟩ := hsome i hlt
      rw [hm]; rfl
    · have hie : i = L := by omega
      subst hie
      rw [List.getElem_append_right (by simp)]
      simp only [List.length_map, List.length_range, Nat.sub_self, List.getElem_cons_zero]
      exact hlast

/-- at the end of the loop every table entry denotes only trees of the type of its cell -/
theorem entries_sound {g : Grammar} {ok : Nat → Nat → Nat → Bool} {toks : List Nat} {s : St}
    {G : Ghost} (hwf : g.translWF = true) (hgood : AGood g ok toks s G none) (hst : s.stack = [])
    {tab : Array NodeRec} {cells : List Nat} (htw : tableWF tab = true)
    (hrep : ∀ id, id < tab.size → RepAt s.heap tab cells id) :
    ∀ id, id < tab.size → ∀ T : Tree → Prop, PtrOK g toks G.ty s.heap (cells.getD id 0) T →
      ∀ t ∈ (denoteTab tab).getD id [], T t := by
  intro id
  induction id using Nat.strongRecOn with
  | _ id ih =>
    intro hid T hp t ht
    obtain ⟨ids, r1, r2, r3⟩ := hrep id hid
    rw [denoteTab_rec htw hid, r1] at ht
    generalize hm : cells.getD id 0 = m at *
    cases hp with
    | nil _ hc hT =>
      unfold cellRec at ht; rw [hc] at ht
      simp only [denoteRec, List.mem_singleton] at ht
      rw [ht]; exact hT
    | err _ hc hT =>
      unfold cellRec at ht; rw [hc] at ht
      simp only [denoteRec, List.mem_singleton] at ht
      rw [ht]; exact hT
    | term _ hc hT =>
      unfold cellRec at ht; rw [hc] at ht
      simp only [denoteRec, List.mem_singleton] at ht
      rw [ht]; exact hT
    | alt _ hc h1 h2 =>
      have hpm : PtrOK g toks G.ty s.heap m T := .alt (by assumption) hc h1 h2
      unfold cellRec at ht; rw [hc] at ht
      simp only [denoteRec, List.mem_flatMap] at ht
      obtain ⟨k, hk, htk⟩ := ht
      have hkc : cells.getD k 0 ∈ cellKids s.heap m := by
        rw [← r2]; exact List.mem_map_of_mem hk
      have hck : cellKids s.heap m = altChain s.heap (s.heap.size + 1) (some m) := by
        unfold cellKids; rw [hc]
      rw [hck] at hkc
      have := r3 k hk
      exact ih k this (by omega) T (hpm.chain _ _ _ hkc) t htk
    | @anode _ _ nm c ks hlt hroot hc hT =>
      -- the cell is finished
      have hfin : FinOK g toks G s.heap m := by
        rcases hgood.cells m hlt (by show m ≠ 2; have : 2 < m := hroot; omega) ⟨nm, c, ks, hc⟩ with
          ⟨hf, _⟩ | ⟨sid, hsid, _⟩
        · exact hf
        · rw [hst] at hsid; cases hsid
      obtain ⟨rl, nm', ks', sp, f1, f2, f3, f4, f5, f6, f7, f8, f9⟩ := hfin
      rw [hc] at f3
      injection f3 with e1 e2 e3
      subst e1; subst e2; subst e3
      have hkids := cellKids_fin hc f4 (fun d hd => by obtain ⟨m', hm', _⟩ := f8 d hd; exact ⟨m', hm'⟩) f9
      unfold cellRec at ht; rw [hc] at ht
      simp only [denoteRec, List.mem_map] at ht
      obtain ⟨ts, hts, rfl⟩ := ht
      obtain ⟨hl1, hl2⟩ := mem_prodAll.mp hts
      have hidslen : ids.length = rl.transLen := by
        have := congrArg List.length r2
        rw [hkids] at this
        simpa using this
      have hlen : ts.length = rl.transLen := by rw [hl1]; simpa using hidslen
      apply hT
      rw [← f5, ← f6]
      refine fin_anode_sound hwf f1 f2 hlen f7 ?_
      intro d hd
      have hdi : d < ids.length := by omega
      have hcell : cells.getD ids[d] 0 = (ks.getD d none).getD 0 := by
        have := congrArg (fun l => l.getD d 0) r2
        rw [hkids] at this
        simpa [List.getD_eq_getElem?_getD, hdi, hd] using this
      have hmem : ts.getD d .nil ∈ (denoteTab tab).getD ids[d] [] := by
        have := hl2 d (by omega) (by simpa using hdi)
        simpa [List.getD_eq_getElem?_getD, show d < ts.length by omega] using this
      have hlt' : ids[d] < id := r3 _ (List.getElem_mem hdi)
      obtain ⟨m', hm', hcase⟩ := f8 d hd
      rw [hm'] at hcell
      simp only [Option.getD_some] at hcell
      rcases hcase with ⟨q, X, o1, o2, o3⟩ | ⟨o1, o2⟩
      · left
        refine ⟨q, X, o1, o2, ?_⟩
        exact ih _ hlt' (by omega) _ (by rw [hcell]; exact o3) _ hmem
      · right
        refine ⟨o1, ?_⟩
        subst o2
        exact ih _ hlt' (by omega) (fun t => t = .nil)
          (by rw [hcell]; exact .nil (by show 0 < s.heap.size; omega) hgood.h0 rfl) _ hmem

/-- the invariant at the end of the loop: every tree the exported table denotes is the translation
of a derivation of the whole input -/
theorem final_all_sound {g : Grammar} {ok : Nat → Nat → Nat → Bool} {toks : List Nat} {s : St}
    {G : Ghost} (hwf : g.translWF = true) (hgood : AGood g ok toks s G none) (hst : s.stack = [])
    {r : Nat} (hres : getKid s.heap rootId 0 = some r) {tab : Array NodeRec} {root : Nat}
    (hx : exportTable s.heap r = some (tab, root)) :
    ∀ t ∈ (denoteTab tab).getD root [], ∃ pt, PT.IsDerivation g toks pt ∧ translate g pt = t := by
  obtain ⟨htw, _⟩ := exportTable_wf hx
  obtain ⟨cells, _, hroot, hcr, hrep⟩ := exportTable_rep hx
  obtain ⟨ks, k1, _, _, k4⟩ := hgood.root
  rw [getKid_of_cell k1] at hres
  have hp := k4 r hres
  intro t ht
  exact entries_sound hwf hgood hst htw hrep root hroot _ (by rw [hcr]; exact hp) t ht

end Yaep.MP
