import Yaep.Lemmas.LaIndep2Rel
import Yaep.Lemmas.LaIndepMPKey
import Yaep.Lemmas.LaIndepSem
/-!
# Lookahead independence at level 2: the level-2 sets are closed "downwards"

`hered2`: the level-2 version of `LI.hered`, against the closure properties `Closed2` of a level-2 parse list:
if `(r, d, i, c)` is in set `k`, the symbols `β` after its dot derive the tokens `w'[k, k + |u|)` and the item with
the dot after `β` (same context) passes the level-2 test at the end of that segment, then this item is in set
`k + |u|`.  A predicted item below inherits the test through its context (`Closed2.pred`: the lookahead set of the
item with the dot after the nonterminal is contained in the context of the predicted item, `ctx_sub_la2`).

`origInv_buildPL2`: with every item, `buildPL2` has the predicted item of its rule, with the same context, in the
set of its origin.  `lvl2`: the instance of the abstract level `LI2.Lvl` for a level-2 parse list.
-/
namespace Yaep.LI2
open Yaep Yaep.LI

/-! ## the lookahead sets -/

theorem mem_la2_iff' {g : Grammar} {r d : Nat} {c : List Nat} {rl : Rule}
    (hr : g.rules[r]? = some rl) {a : Nat} :
    a ∈ la2 g g.analysis r d c ↔ (a ∈ (firstOfStr g.nullable g.firstTab (rl.rhs.drop d)).1 ∨
      ((firstOfStr g.nullable g.firstTab (rl.rhs.drop d)).2 = true ∧ a ∈ c)) :=
  mem_la2_iff (an := g.analysis) hr

theorem ok2_none (g : Grammar) (r d : Nat) (c : List Nat) : ok2 g g.analysis none r d c = true := rfl

theorem ok2_some {g : Grammar} {a r d : Nat} {c : List Nat} :
    ok2 g g.analysis (some a) r d c = true ↔
      a ∈ la2 g g.analysis r d c ∨ g.errT ∈ la2 g g.analysis r d c := by
  simp only [ok2, Bool.or_eq_true, List.contains_iff_mem]

/-- monotonicity of the level-2 test in the lookahead set -/
theorem ok2_mono {g : Grammar} {nxt : Option Nat} {r d r' d' : Nat} {c c' : List Nat}
    (hs : ∀ a ∈ la2 g g.analysis r d c, a ∈ la2 g g.analysis r' d' c')
    (h : ok2 g g.analysis nxt r d c = true) : ok2 g g.analysis nxt r' d' c' = true := by
  cases nxt with
  | none => rfl
  | some a =>
    rw [ok2_some] at h ⊢
    rcases h with h | h
    · exact Or.inl (hs _ h)
    · exact Or.inr (hs _ h)

/-- the dot moves back over a nullable string: the lookahead set (same context) grows -/
theorem la2_sub_nullable_str {g : Grammar} {r : Nat} {rl : Rule} (hr : g.rules[r]? = some rl)
    (ss : List Sym) (d : Nat) (rest : List Sym) (c : List Nat) (hdrop : rl.rhs.drop d = ss ++ rest)
    (hd : Der g ss []) : ∀ a ∈ la2 g g.analysis r (d + ss.length) c, a ∈ la2 g g.analysis r d c := by
  intro a ha
  have hrest : rl.rhs.drop (d + ss.length) = rest := by
    rw [← List.drop_drop, hdrop, List.drop_left]
  rw [mem_la2_iff' hr] at ha ⊢
  rw [hrest] at ha
  rw [hdrop]
  rcases ha with ha | ⟨he, ha⟩
  · exact Or.inl (mem_firstOfStr_skip ss rest hd ha)
  · refine Or.inr ⟨?_, ha⟩
    rw [firstOfStr_snd_iff] at he ⊢
    have := Der.append hd he
    simpa using this

/-- an item with a nullable tail has its context in its lookahead set -/
theorem ctx_sub_la2 {g : Grammar} {r d : Nat} {rl : Rule} (hr : g.rules[r]? = some rl)
    (hd : Der g (rl.rhs.drop d) []) (c : List Nat) : ∀ a ∈ c, a ∈ la2 g g.analysis r d c := by
  intro a ha
  rw [mem_la2_iff' hr]
  exact Or.inr ⟨(firstOfStr_snd_iff _).mpr hd, ha⟩

/-- a terminal of FIRST of the tail is in the lookahead set, whatever the context -/
theorem la2_of_first {g : Grammar} {r d a : Nat} {rl : Rule} (hr : g.rules[r]? = some rl) (c : List Nat)
    (ha : a ∈ (firstOfStr g.nullable g.firstTab (rl.rhs.drop d)).1) : a ∈ la2 g g.analysis r d c := by
  rw [mem_la2_iff' hr]
  exact Or.inl ha

/-- the context of a completed item is in its lookahead set -/
theorem ctx_sub_la2_end {g : Grammar} {r : Nat} {rl : Rule} (hr : g.rules[r]? = some rl) (c : List Nat) :
    ∀ a ∈ c, a ∈ la2 g g.analysis r rl.rhs.length c :=
  ctx_sub_la2 hr (by rw [List.drop_length]; exact Der.nil) c

/-- the test of an item whose tail starts with `ss`, where `ss` derives the tokens from `m` on and the item with
the dot after `ss` (same context) passes the test at the end of these tokens -/
theorem ok2_of_der' {g : Grammar} (hsr : g.symsInRange = true) {w' : List Nat} {r : Nat} {rl : Rule}
    (hr : g.rules[r]? = some rl) {ss rest : List Sym} {u : List Nat} {d m : Nat} {c : List Nat}
    (hdrop : rl.rhs.drop d = ss ++ rest) (hd : Der g ss u) (hsl : slice w' m (m + u.length) = u)
    (hfin : ok2 g g.analysis w'[m + u.length]? r (d + ss.length) c = true) :
    ok2 g g.analysis w'[m]? r d c = true := by
  cases u with
  | nil =>
    simp only [List.length_nil, Nat.add_zero] at hfin
    exact ok2_mono (la2_sub_nullable_str hr ss d rest c hdrop hd) hfin
  | cons a u' =>
    obtain ⟨hw, _, _⟩ := slice_cons hsl
    rw [hw, ok2_some]
    left
    apply la2_of_first hr
    rw [hdrop]
    exact mem_firstOfStr_append_left ss rest (first_closed_aux hsr hd a u' rfl)

/-! ## the level-2 sets are closed along derivations -/

/-- **the level-2 sets are closed along derivations whose last item passes the level-2 test** -/
theorem hered2 {g : Grammar} (hsr : g.symsInRange = true) {w' : List Nat} {plA : List (List Item2)}
    (hcl : Closed2 g w' plA) (hlen : plA.length = w'.length + 1) {β : List Sym} {u : List Nat}
    (hd : Der g β u) :
    ∀ (r d i k : Nat) (c : List Nat) (rest : List Sym) (rl : Rule),
      (⟨r, d, i, c⟩ : Item2) ∈ plA.getD k [] → g.rules[r]? = some rl → rl.rhs.drop d = β ++ rest →
      slice w' k (k + u.length) = u →
      (0 < u.length → ok2 g g.analysis w'[k + u.length]? r (d + β.length) c = true) →
      (⟨r, d + β.length, i, c⟩ : Item2) ∈ plA.getD (k + u.length) [] := by
  induction hd with
  | nil => intro r d i k c rest rl h _ _ _ _; simpa using h
  | @term a ss w1 hss ih =>
    intro r d i k c rest rl h hr hrest hs hfin
    obtain ⟨hsym, hdrop⟩ := drop_succ_of_drop_cons (by simpa using hrest)
    obtain ⟨hw, hs', _⟩ := slice_cons hs
    have hns : g.nextSym r d = some (Sym.t a) := nextSym_eq_some.mpr ⟨rl, hr, hsym⟩
    have e1 : k + 1 + w1.length = k + (a :: w1).length := by simp only [List.length_cons]; omega
    have e2 : d + 1 + ss.length = d + (Sym.t a :: ss).length := by
      simp only [List.length_cons]; omega
    rw [← e1] at hs'
    have hfin' : ok2 g g.analysis w'[k + 1 + w1.length]? r (d + 1 + ss.length) c = true := by
      rw [e1, e2]; exact hfin (by simp)
    have hok : ok2 g g.analysis w'[k + 1]? r (d + 1) c = true :=
      ok2_of_der' hsr hr hdrop hss hs' hfin'
    have hk : k + 1 < plA.length := by
      have := (List.getElem?_eq_some_iff.mp hw).1
      omega
    have h1 : (⟨r, d + 1, i, c⟩ : Item2) ∈ plA.getD (k + 1) [] := hcl.scan hk h hns hw hok
    have := ih r (d + 1) i (k + 1) c rest rl h1 hr hdrop hs' (fun _ => hfin')
    rw [e1, e2] at this
    exact this
  | @nt r' rl' ss u' v' hr' hu' hss ih1 ih2 =>
    intro r d i k c rest rl h hr hrest hs hfin
    obtain ⟨hsym, hdrop⟩ := drop_succ_of_drop_cons (by simpa using hrest)
    have hns : g.nextSym r d = some (Sym.n rl'.lhs) := nextSym_eq_some.mpr ⟨rl, hr, hsym⟩
    have hlen' : k + (u' ++ v').length = (k + u'.length) + v'.length := by
      simp only [List.length_append]; omega
    have e2 : d + 1 + ss.length = d + (Sym.n rl'.lhs :: ss).length := by
      simp only [List.length_cons]; omega
    rw [hlen'] at hs
    obtain ⟨hs1, hs2⟩ := slice_split hs
    -- the test of the item with the dot after the nonterminal, when the segment is not empty
    have hmid : 0 < (u' ++ v').length →
        ok2 g g.analysis w'[k + u'.length]? r (d + 1) c = true := by
      intro hpos
      have hf := hfin hpos
      rw [hlen', ← e2] at hf
      exact ok2_of_der' hsr hr hdrop hss hs2 hf
    obtain ⟨c', hp, hsub⟩ := hcl.pred h hns hr' rfl
    have hc := ih1 r' 0 k k c' [] rl' hp hr' (by simp) hs1 (by
      intro hpos
      rw [Nat.zero_add]
      refine ok2_mono ?_ (hmid (by simp only [List.length_append]; omega))
      intro a ha
      exact ctx_sub_la2_end hr' c' a (hsub a ha))
    rw [Nat.zero_add] at hc
    have hcomp : (⟨r, d + 1, i, c⟩ : Item2) ∈ plA.getD (k + u'.length) [] := by
      by_cases hu0 : u'.length = 0
      · have hnil : u' = [] := List.eq_nil_of_length_eq_zero hu0
        subst hnil
        have hB : rl'.lhs ∈ g.nullable := by
          rw [mem_nullable_iff]
          have := Der.nt (ss := []) (v := []) hr' hu' Der.nil
          simpa using this
        simpa using hcl.null h hns hB
      · exact hcl.comp (by omega) hr' hc h hns (hmid (by simp only [List.length_append]; omega))
    have := ih2 r (d + 1) i (k + u'.length) c rest rl hcomp hr hdrop hs2 (by
      intro hpos
      have hf := hfin (by simp only [List.length_append]; omega)
      rw [hlen', ← e2] at hf
      exact hf)
    rw [← hlen', e2] at this
    exact this

/-- the form used by the simulation: from the predicted item of the rule to any item of the unfiltered set that
passes the test -/
theorem hered2_item {g : Grammar} (hsr : g.symsInRange = true) {w' : List Nat} {plA : List (List Item2)}
    (hcl : Closed2 g w' plA) (hlen : plA.length = w'.length + 1) {r d k j : Nat} {c : List Nat}
    {rl : Rule} (hr : g.rules[r]? = some rl) (hd : d ≤ rl.rhs.length)
    (hp : (⟨r, 0, k, c⟩ : Item2) ∈ plA.getD k []) (hkj : k ≤ j) (hj : j ≤ w'.length)
    (hder : Der g (rl.rhs.take d) (slice w' k j))
    (hok : k < j → ok2 g g.analysis w'[j]? r d c = true) :
    (⟨r, d, k, c⟩ : Item2) ∈ plA.getD j [] := by
  have hsl := length_slice (k := k) hj
  have hkj' : k + (slice w' k j).length = j := by rw [hsl]; omega
  have hdl : (rl.rhs.take d).length = d := by rw [List.length_take]; omega
  have := hered2 hsr hcl hlen hder r 0 k k c (rl.rhs.drop d) rl hp hr (by simp) (by rw [hkj']) (by
    intro hpos
    rw [hkj', Nat.zero_add, hdl]
    exact hok (by rw [hsl] at hpos; omega))
  rw [hkj', Nat.zero_add, hdl] at this
  exact this

/-! ## the predicted item of every item is in the set of its origin -/

/-- with a pair, the saturation has the pair of the predicted item of the same rule -/
theorem pairs2_zero {g : Grammar} {start : List Item2} :
    ∀ p ∈ pairs2 g start, p ∈ pairs2 g start ∧ (p.1, 0) ∈ pairs2 g start := by
  have hcl : initStep g g.analysis ((items2 g start).map fun it => (it.rule, it.dot)) (pairs2 g start) ⊆
      pairs2 g start := pairs_closed g g.analysis _
  have := saturate_sound (initStep g g.analysis ((items2 g start).map fun it => (it.rule, it.dot)))
    (fun p : Nat × Nat => p ∈ pairs2 g start ∧ (p.1, 0) ∈ pairs2 g start) (by
      intro s hs p hp
      rcases mem_initStep.mp hp with ⟨q, hq, B, hns, hr2, hd⟩ | ⟨q, hq, B, hns, hB, he⟩
      · have hq' : q ∈ ((items2 g start).map fun it => (it.rule, it.dot)) ++ pairs2 g start := by
          rcases List.mem_append.mp hq with hq | hq
          · exact List.mem_append_left _ hq
          · exact List.mem_append_right _ (hs q hq).1
        have hp' : p ∈ pairs2 g start :=
          hcl (mem_initStep.mpr (.inl ⟨q, hq', B, hns, hr2, hd⟩))
        refine ⟨hp', ?_⟩
        have : (p.1, 0) = p := by rw [← hd]
        rw [this]; exact hp'
      · have hq' := hs q hq
        refine ⟨hcl (mem_initStep.mpr (.inr ⟨q, hq'.1, B, hns, hB, he⟩)), ?_⟩
        rw [he]; exact hq'.2)
    (g.rules.length * (g.maxRhs + 1) + 2) [] (by simp)
  exact this

/-- an item of an expanded set: it has the rule, origin and context of a start item, or it is an initial item and
the set has the predicted item of its rule with the same context -/
theorem expand2_orig {g : Grammar} (hsr : g.symsInRange = true) {start : List Item2} {j : Nat}
    (hbnd : ∀ s ∈ start, ∀ a ∈ s.ctx, a < g.nT) {x : Item2} (hx : x ∈ expand2 g g.analysis start j) :
    (∃ s ∈ start, s.rule = x.rule ∧ s.origin = x.origin ∧ s.ctx = x.ctx) ∨
    (x.origin = j ∧ (⟨x.rule, 0, j, x.ctx⟩ : Item2) ∈ expand2 g g.analysis start j) := by
  rcases expand2_src hx with h | ⟨ho, e, he, rfl⟩
  · exact .inl h
  · refine .inr ⟨rfl, ?_⟩
    have hkeys := (inits2_spec hsr hbnd).2.1
    have hkey : e.1 ∈ pairs2 g start := by
      rw [← hkeys]; exact List.mem_map_of_mem he
    have hkey0 := (pairs2_zero e.1 hkey).2
    rw [← hkeys] at hkey0
    obtain ⟨e0, he0, hk0⟩ := List.mem_map.mp hkey0
    have hc : e0.2 = e.2 := inits2_same_rule hsr hbnd he0 he (by rw [hk0])
    refine mem_expand2_iff.mpr (.inr ⟨e0, he0, ?_⟩)
    rw [hk0, hc]

theorem origInv_init {g : Grammar} (hsr : g.symsInRange = true) :
    OrigInv [expand2 g g.analysis (start0 g) 0] := by
  have hsb : ∀ s ∈ start0 g, ∀ a ∈ s.ctx, a < g.nT := by
    intro s hs a ha
    obtain ⟨r, _, rfl⟩ := List.mem_map.mp hs
    simp at ha
  intro k x hx
  have hk := mem_getD_lt hx
  have hk0 : k = 0 := by simpa using hk
  subst hk0
  have hx' : x ∈ expand2 g g.analysis (start0 g) 0 := by simpa using hx
  rcases expand2_orig hsr hsb hx' with ⟨s, hs, h1, h2, h3⟩ | ⟨ho, h⟩
  · obtain ⟨r, hr, rfl⟩ := List.mem_map.mp hs
    simp only at h1 h2 h3
    rw [← h1, ← h2, ← h3]
    have : (⟨r, 0, 0, []⟩ : Item2) ∈ expand2 g g.analysis (start0 g) 0 :=
      start_subset_expand2 (List.mem_map.mpr ⟨r, hr, rfl⟩)
    simpa using this
  · rw [ho]
    simpa using h

theorem origInv_step {g : Grammar} (hsr : g.symsInRange = true) {w : List Nat}
    {pl : List (List Item2)} {a : Nat} (nxt : Option Nat) (hinv : Inv2 g w pl) (horig : OrigInv pl) :
    OrigInv (pl ++ [nextSet2 g g.analysis nxt pl a]) := by
  have hsb := startOf_bnd (nxt := nxt) (a := a) hinv.bnd
  have hold : ∀ {k : Nat} {p : Item2}, p ∈ pl.getD k [] →
      (⟨p.rule, 0, p.origin, p.ctx⟩ : Item2) ∈
        (pl ++ [nextSet2 g g.analysis nxt pl a]).getD p.origin [] := by
    intro k p hp
    have h1 := horig k p hp
    rw [getD_append_left' (mem_getD_lt h1)]
    exact h1
  intro j x hx
  rcases mem_getD_append hx with ⟨_, hx0⟩ | ⟨_, hx0⟩
  · exact hold hx0
  · rw [nextSet2_eq] at hx0
    rcases expand2_orig hsr hsb hx0 with ⟨s, hs, h1, h2, h3⟩ | ⟨ho, h⟩
    · obtain ⟨k', p, hp, e1, e2, e3⟩ := startOf_from g nxt pl a s hs
      have := hold hp
      rw [e1, e2, e3, h1, h2, h3] at this
      exact this
    · rw [ho, getD_append_right', nextSet2_eq]
      exact h

/-- the parse loop keeps `Inv2` and `OrigInv` -/
theorem parseLoop2_orig {g : Grammar} (hsr : g.symsInRange = true) (w' : List Nat) :
    ∀ (toks : List Nat) (pl : List (List Item2)) (k : Nat), w'.drop k = toks →
      pl.length = k + 1 → Inv2 g w' pl → OrigInv pl →
      Inv2 g w' (parseLoop2 g g.analysis toks pl k).2 ∧
      OrigInv (parseLoop2 g g.analysis toks pl k).2 := by
  intro toks
  induction toks with
  | nil =>
    intro pl k _ _ hinv horig
    unfold parseLoop2
    exact ⟨hinv, horig⟩
  | cons a rest ih =>
    intro pl k hdrop hlen hinv horig
    obtain ⟨hw, hrest⟩ := drop_succ_of_drop_cons hdrop
    unfold parseLoop2
    by_cases hT : hasTrans2 g (pl.getLastD []) a = true
    · rw [if_pos hT]
      have hhead : rest.head? = w'[k + 1]? := by rw [← hrest, List.head?_drop]
      rw [hhead]
      exact ih _ _ hrest (by rw [List.length_append, hlen]; rfl) (hinv.step hsr hlen hw)
        (origInv_step hsr _ hinv horig)
    · rw [if_neg hT]
      exact ⟨hinv, horig⟩

theorem buildPL2_eq (g : Grammar) (w : List Nat) :
    buildPL2 g w = parseLoop2 g g.analysis (w ++ [g.eofT]) [expand2 g g.analysis (start0 g) 0] 0 := rfl

/-- `buildPL2` keeps the invariant `Inv2` … -/
theorem inv2_buildPL2 {g : Grammar} (hwf : g.WF) (hsr : g.symsInRange = true) (w : List Nat) :
    Inv2 g (w ++ [g.eofT]) (buildPL2 g w).2 := by
  rw [buildPL2_eq]
  exact (parseLoop2_orig hsr (w ++ [g.eofT]) (w ++ [g.eofT]) _ 0 rfl rfl
    (Inv2.init hwf hsr (w ++ [g.eofT])).1 (origInv_init hsr)).1

/-- … and `OrigInv` -/
theorem origInv_buildPL2 {g : Grammar} (hwf : g.WF) (hsr : g.symsInRange = true) (w : List Nat) :
    OrigInv (buildPL2 g w).2 := by
  rw [buildPL2_eq]
  exact (parseLoop2_orig hsr (w ++ [g.eofT]) (w ++ [g.eofT]) _ 0 rfl rfl
    (Inv2.init hwf hsr (w ++ [g.eofT])).1 (origInv_init hsr)).2

theorem parseLoop2_length {g : Grammar} :
    ∀ (toks : List Nat) (pl : List (List Item2)) (k : Nat),
      (parseLoop2 g g.analysis toks pl k).1 = none →
      (parseLoop2 g g.analysis toks pl k).2.length = pl.length + toks.length := by
  intro toks
  induction toks with
  | nil => intro pl k _; unfold parseLoop2; simp
  | cons a rest ih =>
    intro pl k h
    unfold parseLoop2 at h ⊢
    split
    · rename_i hT
      rw [if_pos hT] at h
      rw [ih _ _ h]
      simp only [List.length_append, List.length_cons, List.length_nil]
      omega
    · rename_i hT
      rw [if_neg hT] at h
      simp at h

/-- an accepted input: one set per token, plus the first one -/
theorem length_buildPL2 {g : Grammar} {w : List Nat} (h : (buildPL2 g w).1 = none) :
    (buildPL2 g w).2.length = (w ++ [g.eofT]).length + 1 := by
  rw [buildPL2_eq] at h ⊢
  rw [parseLoop2_length _ _ _ h]
  simp only [List.length_singleton]
  omega

/-! ## the abstract level of a level-2 parse list -/

/-- every level-2 item, without its context, is in the unfiltered declarative set -/
theorem F2_sub_F0 {g : Grammar} {w' : List Nat} {plA : List (List Item2)} (hs : PL2Sound g w' plA)
    {j : Nat} {it : Item} (h : F2 plA j it) : F0 g w' j it := by
  obtain ⟨c, hc⟩ := h
  have h1 : EarleyF g okT w' j it := hs j (mem_getD_lt hc) _ hc
  exact h1.congr_mono (fun _ _ => rfl) (fun _ _ _ _ _ => laFilter_zero _ _ _ _ _ _)

theorem G2_F2 {g : Grammar} {w' : List Nat} {plA : List (List Item2)} {j : Nat} {it : Item}
    (h : G2 g w' plA j it) : F2 plA j it := by
  obtain ⟨c, hc, _⟩ := h
  exact ⟨c, hc⟩

/-- a candidate below a level-2 item that passes the test is a level-2 item that passes the test, and so is the
item before the nonterminal at the origin of the candidate -/
theorem cand_level2 {g : Grammar} (hsr : g.symsInRange = true) {w' : List Nat} {plA : List (List Item2)}
    (hinv : Inv2 g w' plA) (horig : OrigInv plA) (hlen : plA.length = w'.length + 1)
    {rule pos orig j B : Nat} {rl : Rule} {it : Item} (hr : g.rules[rule]? = some rl)
    (hs : rl.rhs[pos]? = some (.n B)) (hX : G2 g w' plA j ⟨rule, pos + 1, orig⟩)
    (hit : F0 g w' j it) (hred : isRed g B it = true) (hq : F0 g w' it.origin ⟨rule, pos, orig⟩) :
    G2 g w' plA it.origin ⟨rule, pos, orig⟩ ∧ G2 g w' plA j it := by
  obtain ⟨c, hXm, hokX⟩ := hX
  simp only at hXm hokX
  obtain ⟨r', d', k⟩ := it
  obtain ⟨rl', hr', _, hkj, hder'⟩ := hit.sound
  simp only at hr' hkj hder' hq ⊢
  obtain ⟨hd', hlhs⟩ := (isRed_iff (it := ⟨r', d', k⟩) hr').mp hred
  simp only at hd'
  subst hd'
  subst hlhs
  rw [List.take_length] at hder'
  obtain ⟨rlq, hrq, hposq, hok, hderq⟩ := hq.sound
  simp only at hrq hposq hok hderq
  rw [hr] at hrq; injection hrq with hrq; subst hrq
  have hj : j ≤ w'.length := hit.le_length
  have hsl := length_slice (k := k) hj
  have hkj' : k + (slice w' k j).length = j := by rw [hsl]; omega
  have hB : Der g [Sym.n rl'.lhs] (slice w' k j) := by
    have := Der.nt (ss := []) (v := []) hr' hder' Der.nil
    simpa using this
  have hdrop : rl.rhs.drop pos = [Sym.n rl'.lhs] ++ rl.rhs.drop (pos + 1) := by
    obtain ⟨hlt, he⟩ := List.getElem?_eq_some_iff.mp hs
    rw [List.drop_eq_getElem_cons hlt, he]; rfl
  have hokq : ok2 g g.analysis w'[k]? rule pos c = true := by
    apply ok2_of_der' hsr hr hdrop hB
    · rw [hkj']
    · rw [hkj']; exact hokX
  have hp : (⟨rule, 0, orig, c⟩ : Item2) ∈ plA.getD orig [] := horig j _ hXm
  have hk : k ≤ w'.length := Nat.le_trans hkj hj
  have hq1 : (⟨rule, pos, orig, c⟩ : Item2) ∈ plA.getD k [] :=
    hered2_item hsr hinv.closed hlen hr hposq hp hok hk hderq (fun _ => hokq)
  have hns : g.nextSym rule pos = some (Sym.n rl'.lhs) := nextSym_eq_some.mpr ⟨rl, hr, hs⟩
  obtain ⟨c', hp', hsub⟩ := hinv.closed.pred hq1 hns hr' rfl
  have hokit : ok2 g g.analysis w'[j]? r' rl'.rhs.length c' = true :=
    ok2_mono (fun a ha => ctx_sub_la2_end hr' c' a (hsub a ha)) hokX
  have hit1 : (⟨r', rl'.rhs.length, k, c'⟩ : Item2) ∈ plA.getD j [] :=
    hered2_item hsr hinv.closed hlen hr' (Nat.le_refl _) hp' hkj hj
      (by rw [List.take_length]; exact hder') (fun _ => hokit)
  exact ⟨⟨c, hq1, hokq⟩, ⟨c', hit1, hokit⟩⟩

/-- terminal before the dot: the item before the scan is a level-2 item that passes the level-2 test -/
theorem term_level2 {g : Grammar} (hsr : g.symsInRange = true) {w' : List Nat} {plA : List (List Item2)}
    (hinv : Inv2 g w' plA) (horig : OrigInv plA) (hlen : plA.length = w'.length + 1)
    {rule pos orig j a : Nat} {rl : Rule} (hr : g.rules[rule]? = some rl)
    (hs : rl.rhs[pos]? = some (.t a)) (hX : G2 g w' plA j ⟨rule, pos + 1, orig⟩) :
    G2 g w' plA (j - 1) ⟨rule, pos, orig⟩ := by
  have hX0 : F0 g w' j ⟨rule, pos + 1, orig⟩ := F2_sub_F0 hinv.sound (G2_F2 hX)
  obtain ⟨c, hXm, _⟩ := hX
  simp only at hXm
  obtain ⟨j0, hj, hw, h0⟩ := hX0.term_inv hr hs
  subst hj
  rw [Nat.add_sub_cancel]
  obtain ⟨rlq, hrq, hposq, hok, hderq⟩ := h0.sound
  simp only at hrq hposq hok hderq
  rw [hr] at hrq; injection hrq with hrq; subst hrq
  have hj0 : j0 ≤ w'.length := Nat.le_of_lt (List.getElem?_eq_some_iff.mp hw).1
  have hokq : ok2 g g.analysis w'[j0]? rule pos c = true := by
    rw [hw, ok2_some]
    left
    apply la2_of_first hr
    obtain ⟨hlt, he⟩ := List.getElem?_eq_some_iff.mp hs
    rw [List.drop_eq_getElem_cons hlt, he]
    simp
  have hp : (⟨rule, 0, orig, c⟩ : Item2) ∈ plA.getD orig [] := horig (j0 + 1) _ hXm
  have hq1 : (⟨rule, pos, orig, c⟩ : Item2) ∈ plA.getD j0 [] :=
    hered2_item hsr hinv.closed hlen hr hposq hp hok hj0 hderq (fun _ => hokq)
  exact ⟨c, hq1, hokq⟩

/-- there is no test after the last token -/
theorem last_level2 {g : Grammar} {w' : List Nat} {plA : List (List Item2)} {it : Item}
    (h : F2 plA w'.length it) : G2 g w' plA w'.length it := by
  obtain ⟨c, hc⟩ := h
  refine ⟨c, hc, ?_⟩
  rw [List.getElem?_eq_none (Nat.le_refl _)]
  rfl

/-- the abstract level of a level-2 parse list -/
def lvl2 {g : Grammar} (hsr : g.symsInRange = true) {w' : List Nat} {plA : List (List Item2)}
    (hinv : Inv2 g w' plA) (horig : OrigInv plA) (hlen : plA.length = w'.length + 1) : Lvl g w' :=
  { F := F2 plA
    G := G2 g w' plA
    G_F := fun h => G2_F2 h
    F_F0 := fun h => F2_sub_F0 hinv.sound h
    cand := fun hr hs hX hit hred hq => cand_level2 hsr hinv horig hlen hr hs hX hit hred hq
    term := fun hr hs hX => term_level2 hsr hinv horig hlen hr hs hX
    last := fun h => last_level2 h }

theorem lvl2_F {g : Grammar} (hsr : g.symsInRange = true) {w' : List Nat} {plA : List (List Item2)}
    (hinv : Inv2 g w' plA) (horig : OrigInv plA) (hlen : plA.length = w'.length + 1) :
    (lvl2 hsr hinv horig hlen).F = F2 plA := rfl

theorem lvl2_G {g : Grammar} (hsr : g.symsInRange = true) {w' : List Nat} {plA : List (List Item2)}
    (hinv : Inv2 g w' plA) (horig : OrigInv plA) (hlen : plA.length = w'.length + 1) :
    (lvl2 hsr hinv horig hlen).G = G2 g w' plA := rfl

end Yaep.LI2
