import Yaep.Lemmas.MakeParseSoundMain
/-!
# Totality of the model of `make_parse` in one-parse mode, part 1: a candidate always exists

When the sets of the parse list are *exactly* the Earley sets (`CtxOKc`), the search of
`make_parse` for a candidate always succeeds (the C assertion `n_candidates != 0`), no
dereference goes wrong (`bad` stays false), and the first situation of the last set is the
completed axiom rule.
-/
namespace Yaep.MP
open Yaep

/-- the sets of the parse list are exactly the Earley sets -/
structure CtxOKc (g : Grammar) (ok : Nat → Nat → Nat → Bool) (toks : List Nat) (c : Ctx) : Prop
    extends CtxOK g ok toks c where
  complete : ∀ j it, EarleyF g ok toks j it →
    ∃ i, i < (c.sets.getD j #[]).size ∧ (c.sets.getD j #[]).getD i default = it

/-- a candidate exists: the C assertion `n_candidates != 0` -/
theorem cand_exists {g : Grammar} {ok : Nat → Nat → Nat → Bool} {toks : List Nat} {c : Ctx}
    (hcc : CtxOKc g ok toks c) {s : St} {sid A : Nat} {rl : Rule}
    (hr : g.rules[(s.state sid).rule]? = some rl) (hpos : (s.state sid).pos ≠ 0)
    (hE : EarleyF g ok toks (s.state sid).plInd ⟨(s.state sid).rule, (s.state sid).pos, (s.state sid).orig⟩)
    (hX : rl.rhs[(s.state sid).pos - 1]? = some (.n A)) :
    ∃ i ∈ reduces c (c.sets.getD (s.state sid).plInd #[]) A,
      checkFound c (ntLoc c s sid A)
        ((c.sets.getD (s.state sid).plInd #[]).getD i default).origin = true := by
  have hpp : (s.state sid).pos - 1 + 1 = (s.state sid).pos := by omega
  rw [← hpp] at hE
  obtain ⟨r', rl', k, hr', hlhs, hE1, hE2⟩ := hE.nt_inv hr hX
  obtain ⟨i, hi1, hi2⟩ := hcc.complete _ _ hE1
  obtain ⟨ci, hc1, hc2⟩ := hcc.complete _ _ hE2
  have hrule := hcc.toCtxOK.rule_eq hr
  have hrule' := hcc.toCtxOK.rule_eq hr'
  refine ⟨i, ?_, ?_⟩
  · unfold reduces
    rw [List.mem_filter, List.mem_range]
    refine ⟨hi1, ?_⟩
    rw [hi2]
    simp [hrule', hlhs]
  · rw [hi2]
    unfold checkFound
    simp only [List.any_eq_true, Bool.and_eq_true, beq_iff_eq]
    refine ⟨ci, ?_, ?_⟩
    · unfold transitions
      rw [List.mem_filter, List.mem_range]
      refine ⟨hc1, ?_⟩
      rw [hc2]
      simp only [Ctx.after, ntLoc, hrule, hX, beq_self_eq_true]
    · rw [hc2]; simp [ntLoc]

/-- one iteration from a good unflagged state: good and unflagged again, and the shape of the
change of the stack -/
theorem step_total {g : Grammar} {ok : Nat → Nat → Nat → Bool} {toks : List Nat} {c : Ctx} {s : St}
    (hcc : CtxOKc g ok toks c) (hg : GrOK g) (hgood : Good g ok toks s) (hb : s.bad = false)
    {sid : Nat} {rest : List Nat} (hst : s.stack = sid :: rest) :
    Good g ok toks (step c s) ∧ (step c s).bad = false ∧ StepShape g s (step c s) sid rest := by
  have hc := hcc.toCtxOK
  rcases hgood.main with ⟨hempty, _⟩ | ⟨frs, htop⟩
  · rw [hst] at hempty; cases hempty
  · rw [hst] at htop
    by_cases hpos : (s.state sid).pos = 0
    · obtain ⟨a1, a2, a3⟩ := pres_pop hc hg hgood.h0 hgood.h1 hst htop hpos
      exact ⟨a1, by rw [a2]; exact hb, a3⟩
    · cases frs with
      | nil => simp [TopOK] at htop
      | cons fr frs =>
        have htop' := htop
        simp only [TopOK] at htop'
        obtain ⟨_, _, rl, _, t3, t4, _, t6, _⟩ := htop'
        have t3' : g.rules[(s.state sid).rule]? = some rl := t3
        have t4' : (s.state sid).pos ≤ rl.rhs.length := t4
        have hlt : (s.state sid).pos - 1 < rl.rhs.length := by omega
        cases hX : rl.rhs[(s.state sid).pos - 1] with
        | t a =>
          obtain ⟨a1, a2, a3⟩ := pres_term hc hg hgood.h0 hgood.h1 hst htop hpos t3'
            (by rw [List.getElem?_eq_getElem hlt, hX])
          exact ⟨a1, a2 hb, a3⟩
        | n A =>
          have hX' : rl.rhs[(s.state sid).pos - 1]? = some (.n A) := by
            rw [List.getElem?_eq_getElem hlt, hX]
          rcases pres_nt hc hg hgood.h0 hgood.h1 hst htop hpos t3' hX' with ⟨hall, _⟩ | ⟨a1, a2, a3⟩
          · obtain ⟨i, hi, hf⟩ := cand_exists hcc (s := s) (sid := sid) t3' hpos (t6 hpos) hX'
            rw [hall i hi] at hf; cases hf
          · exact ⟨a1, by rw [a2]; exact hb, a3⟩

end Yaep.MP
