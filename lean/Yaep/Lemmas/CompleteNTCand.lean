import Yaep.Lemmas.CompleteNTDef
/-!
# Completeness of the all-parses forest, part 11: one candidate of a translated nonterminal keeps
the loop invariant
-/
namespace Yaep.CP
open Yaep Yaep.MP

section
variable {g : Grammar} {ok : Nat → Nat → Nat → Bool} {toks : List Nat} {c : Ctx} {s : St}
  {X d pa A : Nat} {rest : List Nat}

/-- more siblings -/
theorem LInv.mono_os {rem os os' : List Nat} {s' : St} (h : LInv g toks c s X d pa A rest rem os s')
    (hsub : ∀ y ∈ os, y ∈ os')
    (hnew : ∀ y ∈ os', y = X ∨ y ∈ os ∨ (y < s'.states.size ∧ AnodeRel s X d s' y))
    (hstk : ∀ x ∈ s'.stack, (s'.state x).parent < s'.states.size ∧ x < s'.states.size) :
    LInv g toks c s X d pa A rest rem os' s' := by
  refine ⟨h.ext, ?_, ?_, h.news⟩
  · intro x hx
    rcases hx with hx | hx
    · exact h.sibs x (Or.inl hx)
    · rcases hnew x hx with e | e | e
      · exact h.sibs x (Or.inl e)
      · exact h.sibs x (Or.inr e)
      · exact e
  · intro i hi hp
    rcases h.handled i hi hp with e | e
    · exact Or.inl e
    · refine Or.inr (e.ext (CExt.refl _) (fun y hy => ?_) hstk)
      rcases hy with hy | hy
      · exact ⟨Or.inl hy, (h.sibs y (Or.inl hy)).1⟩
      · exact ⟨Or.inr (hsub y hy), (h.sibs y (Or.inr hy)).1⟩

/-- the machine moves on -/
theorem LInv.extend {rem os : List Nat} {s1 s2 : St} (h : LInv g toks c s X d pa A rest rem os s1)
    (he : CExt s1 s2)
    (hstk : ∀ x ∈ s1.stack, (s1.state x).parent < s1.states.size ∧ x < s1.states.size)
    (hnews : ∀ x ∈ s2.stack, x ∈ s1.stack ∨ NewOK g toks s2 x) :
    LInv g toks c s X d pa A rest rem os s2 := by
  obtain ⟨k0, hk0⟩ := h.ext
  refine ⟨⟨k0, hk0.trans he⟩, ?_, ?_, ?_⟩
  · intro x hx
    obtain ⟨a1, a2⟩ := h.sibs x hx
    exact ⟨by have := he.size; omega, a2.ext a1 he⟩
  · intro i hi hp
    rcases h.handled i hi hp with e | e
    · exact Or.inl e
    · exact Or.inr (e.ext he (fun y hy => ⟨hy, (h.sibs y hy).1⟩) hstk)
  · intro x hx
    rcases hnews x hx with e | e
    · rcases h.news x e with r | r
      · exact Or.inl r
      · exact Or.inr (r.ext (hstk x e) he)
    · exact Or.inr e

/-- **the second half of the body of the loop keeps the invariant**: the candidate `i` is attached
to the sibling `cur` -/
theorem LInv.attach (hc : CtxAll g ok toks c) (hg : GrOK g) (hsr : g.symsInRange = true)
    {rl : Rule} {γ : List Sym} (N : NT g toks s X rest rl A d pa γ)
    {i : Nat} {rem os1 : List Nat} {s1 : St}
    (h : LInv g toks c s X d pa A rest (i :: rem) os1 s1) {cur : Nat}
    (hcur : CurOKc s1 cur pa d (ntLoc c s X A)) (hcx : cur = X ∨ cur ∈ os1)
    {sr so : Nat} {rl' : Rule} (hr' : g.rules[sr]? = some rl') (hlhs : rl'.lhs = A)
    (hsit : (c.sets.getD (s.state X).plInd #[]).getD i default = ⟨sr, rl'.rhs.length, so⟩)
    (hE : EarleyF g ok toks (s.state X).plInd ⟨sr, rl'.rhs.length, so⟩)
    (hpl : (s1.state cur).plInd = so)
    {s2 : St} {os2 : List Nat}
    (hres : candTail c (ntLoc c s X A) ⟨sr, rl'.rhs.length, so⟩ (pa, (ntLoc c s X A).parentDisp) d
      (s1, os1, cur, (s1.state cur).anode) = (s2, os2))
    (hre : s2.reuse = s1.reuse) :
    os2 = os1 ∧ CExt s1 s2 ∧ LInv g toks c s X d pa A rest rem os1 s2 := by
  have hcov2 := FollowCovers.predict hsr N.hr N.hsym N.hcov
  have hpp : (s.state X).pos - 1 + 1 = (s.state X).pos := by have := N.hpos; omega
  rw [hpp] at hcov2
  obtain ⟨t1, t2, t3, t4⟩ := ctail' (L := ntLoc c s X A) hc hg hcur hr' hE
    (by rw [hlhs]; exact hcov2) N.hder hres hre
  have hbase := h.extend t1 hcur.hstk t4
  refine ⟨t2, t1, hbase.ext, hbase.sibs, ?_, hbase.news⟩
  intro j hj hp
  rcases hbase.handled j hj hp with e | e
  · rcases List.mem_cons.mp e with rfl | e
    · right
      rw [hsit]
      have hcurlt := (h.sibs cur hcx).1
      refine ⟨rl', cur, hr', rfl, hcx, by rw [t1.sts cur hcurlt]; exact hpl, fun gks hv => ?_⟩
      rw [t1.sts cur hcurlt]
      exact t3 gks hv
    · exact Or.inl e
  · exact Or.inr e

end

end Yaep.CP
