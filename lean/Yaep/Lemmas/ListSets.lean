import Yaep.Lemmas.Earley
import Yaep.Lemmas.EarleyLA
import Yaep.Lemmas.FirstFollow
/-!
# The Earley sets of a left-recursive list grammar have bounded size

`listGrammar`: `$S : L $eof`, `L : L sep x`, `L : x`, `$S : error $eof`.  The cores (rule, dot)
of its Earley sets are the states of a small deterministic automaton over the input tokens;
every item has origin 0.  Helper lemmas for `Yaep/Props/C18.lean`.
-/
namespace Yaep

/-- terminals `x = 0`, `sep = 1`, `error = 2`, `$eof = 3`; nonterminals `L = 0`, `$S = 1` -/
def listGrammar : Grammar :=
  { rules := [ { lhs := 1, rhs := [.n 0, .t 3] },
               { lhs := 0, rhs := [.n 0, .t 1, .t 0] },
               { lhs := 0, rhs := [.t 0] },
               { lhs := 1, rhs := [.t 2, .t 3] } ],
    termNames := ["x", "sep", "error", "$eof"], termCodes := [120, 44, -1, -2],
    ntNames := ["L", "$S"], errT := 2, eofT := 3, axiomN := 1, startN := 0 }

/-- `x (sep x)^n` -/
def listInput (n : Nat) : List Nat := 0 :: (List.replicate n [1, 0]).flatten

/-! ## the core automaton -/

/-- states: start, after the first `x`, after a `sep`, after a later `x`, after `$eof`, after
an initial `error` token, after `error $eof`, dead -/
inductive LState where
  | s0 | s1 | sep | x | fin | e1 | e2 | dead
deriving DecidableEq, Repr

def LState.step : LState → Nat → LState
  | .s0, 0 => .s1
  | .s1, 1 => .sep
  | .s1, 3 => .fin
  | .sep, 0 => .x
  | .x, 1 => .sep
  | .x, 3 => .fin
  | .s0, 2 => .e1
  | .e1, 3 => .e2
  | _, _ => .dead

/-- the (rule, dot) pairs of a state -/
def LState.core : LState → List (Nat × Nat)
  | .s0 => [(0, 0), (3, 0), (1, 0), (2, 0)]
  | .s1 => [(2, 1), (0, 1), (1, 1)]
  | .sep => [(1, 2)]
  | .x => [(1, 3), (0, 1), (1, 1)]
  | .fin => [(0, 2)]
  | .e1 => [(3, 1)]
  | .e2 => [(3, 2)]
  | .dead => []

def LState.all : List LState := [.s0, .s1, .sep, .x, .fin, .e1, .e2, .dead]

theorem LState.mem_all (q : LState) : q ∈ LState.all := by cases q <;> decide

/-- the state after the first `j` tokens of `w` -/
def lrun (w : List Nat) (j : Nat) : LState := (w.take j).foldl LState.step .s0

theorem lrun_zero (w : List Nat) : lrun w 0 = .s0 := by simp [lrun]

theorem lrun_succ {w : List Nat} {j a : Nat} (h : w[j]? = some a) :
    lrun w (j + 1) = (lrun w j).step a := by
  unfold lrun
  rw [take_succ_of_getElem? _ h, List.foldl_append]
  rfl

theorem LState.step_ne_s0 (q : LState) (a : Nat) : q.step a ≠ .s0 := by
  unfold LState.step
  split <;> simp

theorem lrun_eq_s0 {w : List Nat} {j : Nat} (hj : j ≤ w.length) (h : lrun w j = .s0) : j = 0 := by
  cases j with
  | zero => rfl
  | succ j =>
    have hlt : j < w.length := hj
    have := lrun_succ (w := w) (j := j) (List.getElem?_eq_getElem hlt)
    rw [this] at h
    exact absurd h (LState.step_ne_s0 _ _)

theorem LState.core_length_le (q : LState) : q.core.length ≤ 4 := by cases q <;> decide

/-! ## the finite checks -/

theorem list_syms : listGrammar.symsInRange = true := by decide
theorem list_wf : listGrammar.WF := by decide

theorem check_init : ∀ r ∈ List.range 4,
    (listGrammar.rules[r]?.map (·.lhs)) = some listGrammar.axiomN → (r, 0) ∈ LState.s0.core := by
  decide

theorem check_scan : ∀ q ∈ LState.all, ∀ p ∈ q.core, ∀ a ∈ List.range 4,
    listGrammar.nextSym p.1 p.2 = some (Sym.t a) → (p.1, p.2 + 1) ∈ (q.step a).core := by decide

theorem check_pred : ∀ q ∈ LState.all, ∀ p ∈ q.core, ∀ B ∈ List.range 2,
    listGrammar.nextSym p.1 p.2 = some (Sym.n B) →
      q = .s0 ∧ ∀ r' ∈ List.range 4, (listGrammar.rules[r']?.map (·.lhs)) = some B →
        (r', 0) ∈ LState.s0.core := by decide

theorem check_comp : ∀ q ∈ LState.all, ∀ p' ∈ q.core, ∀ p ∈ LState.s0.core, ∀ A ∈ List.range 2,
    (listGrammar.rules[p'.1]?.map fun rl => (rl.rhs.length, rl.lhs)) = some (p'.2, A) →
      listGrammar.nextSym p.1 p.2 = some (Sym.n A) → (p.1, p.2 + 1) ∈ q.core := by decide

/-! ## soundness: the cores of the declarative sets are inside the state cores -/

theorem list_rule_lt {r : Nat} {rl : Rule} (h : listGrammar.rules[r]? = some rl) :
    r ∈ List.range 4 := by
  rw [List.mem_range]
  exact (List.getElem?_eq_some_iff.mp h).1

theorem list_term_lt {r d a : Nat} (h : listGrammar.nextSym r d = some (Sym.t a)) :
    a ∈ List.range 4 := by
  obtain ⟨rl, hr, hs⟩ := nextSym_eq_some.mp h
  have := symsInRange_rhs list_syms (List.mem_of_getElem? hr) _ (List.mem_of_getElem? hs)
  rw [List.mem_range]
  simpa [Sym.inRange, Grammar.nT, listGrammar] using this

theorem list_nt_lt {r d B : Nat} (h : listGrammar.nextSym r d = some (Sym.n B)) :
    B ∈ List.range 2 := by
  obtain ⟨rl, hr, hs⟩ := nextSym_eq_some.mp h
  have := symsInRange_rhs list_syms (List.mem_of_getElem? hr) _ (List.mem_of_getElem? hs)
  rw [List.mem_range]
  simpa [Sym.inRange, Grammar.nN, listGrammar] using this

theorem list_lhs_lt {r : Nat} {rl : Rule} (h : listGrammar.rules[r]? = some rl) :
    rl.lhs ∈ List.range 2 := by
  have := symsInRange_lhs list_syms (List.mem_of_getElem? h)
  rw [List.mem_range]
  simpa [Grammar.nN, listGrammar] using this

/-- For every input and every filter: an item of set `j` has origin 0 and its (rule, dot)
belongs to the core of the automaton state after `j` tokens. -/
theorem list_core_sound {ok : Nat → Nat → Nat → Bool} {w : List Nat} {j : Nat} {it : Item}
    (h : EarleyF listGrammar ok w j it) :
    j ≤ w.length ∧ it.origin = 0 ∧ (it.rule, it.dot) ∈ (lrun w j).core := by
  induction h with
  | @init r rl hr hl =>
    refine ⟨Nat.zero_le _, rfl, ?_⟩
    rw [lrun_zero]
    exact check_init r (list_rule_lt hr) (by rw [hr]; simp [hl])
  | @scan j r d i a _ hs hw _ ih =>
    obtain ⟨_, h2, h3⟩ := ih
    refine ⟨(List.getElem?_eq_some_iff.mp hw).1, h2, ?_⟩
    rw [lrun_succ hw]
    exact check_scan _ (LState.mem_all _) (r, d) h3 a (list_term_lt hs) hs
  | @predict j r d i B r' rl' _ hs hr hl ih =>
    obtain ⟨h1, _, h3⟩ := ih
    obtain ⟨hq, hall⟩ := check_pred _ (LState.mem_all _) (r, d) h3 B (list_nt_lt hs) hs
    have hj : j = 0 := lrun_eq_s0 h1 hq
    subst hj
    refine ⟨h1, rfl, ?_⟩
    rw [lrun_zero]
    exact hall r' (list_rule_lt hr) (by rw [hr]; simp [hl])
  | @complete j k r d i r' rl' hr' _ _ hs _ ih1 ih2 =>
    obtain ⟨h1, hk, h3⟩ := ih1
    obtain ⟨_, hi, h4⟩ := ih2
    simp only at hk hi h3 h4
    subst hk
    rw [lrun_zero] at h4
    refine ⟨h1, hi, ?_⟩
    exact check_comp _ (LState.mem_all _) (r', rl'.rhs.length) h3 (r, d) h4 rl'.lhs (list_lhs_lt hr')
      (by rw [hr']; rfl) hs

/-! ## completeness (no filter): the cores are exactly the state cores -/

theorem LState.step_cases (q : LState) (a : Nat) :
    (q = .s0 ∧ a = 0 ∧ q.step a = .s1) ∨ (q = .s1 ∧ a = 1 ∧ q.step a = .sep) ∨
    (q = .s1 ∧ a = 3 ∧ q.step a = .fin) ∨ (q = .sep ∧ a = 0 ∧ q.step a = .x) ∨
    (q = .x ∧ a = 1 ∧ q.step a = .sep) ∨ (q = .x ∧ a = 3 ∧ q.step a = .fin) ∨
    (q = .s0 ∧ a = 2 ∧ q.step a = .e1) ∨ (q = .e1 ∧ a = 3 ∧ q.step a = .e2) ∨
    q.step a = .dead := by
  unfold LState.step
  split <;> simp

section Complete
variable {ok : Nat → Nat → Nat → Bool} (hok : ∀ j r d, ok j r d = true) (w : List Nat)
include hok

omit hok in
theorem list_set0_items : ∀ p ∈ LState.s0.core, EarleyF listGrammar ok w 0 ⟨p.1, p.2, 0⟩ := by
  have h0 : EarleyF listGrammar ok w 0 ⟨0, 0, 0⟩ :=
    EarleyF.init (r := 0) (rl := { lhs := 1, rhs := [.n 0, .t 3] }) rfl rfl
  intro p hp
  simp only [LState.core, List.mem_cons, List.not_mem_nil, or_false] at hp
  rcases hp with rfl | rfl | rfl | rfl
  · exact h0
  · exact EarleyF.init (r := 3) (rl := { lhs := 1, rhs := [.t 2, .t 3] }) rfl rfl
  · exact EarleyF.predict (r' := 1) (rl' := { lhs := 0, rhs := [.n 0, .t 1, .t 0] }) h0
      (B := 0) rfl rfl rfl
  · exact EarleyF.predict (r' := 2) (rl' := { lhs := 0, rhs := [.t 0] }) h0 (B := 0) rfl rfl rfl

/-- completing `L` (rule `r'` with right-hand side length `len`, origin 0) in set `j + 1` -/
theorem list_complete_L {j r' : Nat} {rl' : Rule} (hr' : listGrammar.rules[r']? = some rl')
    (hl : rl'.lhs = 0) (h : EarleyF listGrammar ok w (j + 1) ⟨r', rl'.rhs.length, 0⟩) :
    EarleyF listGrammar ok w (j + 1) ⟨0, 1, 0⟩ ∧ EarleyF listGrammar ok w (j + 1) ⟨1, 1, 0⟩ := by
  have h00 := list_set0_items (ok := ok) w (0, 0) (by decide)
  have h10 := list_set0_items (ok := ok) w (1, 0) (by decide)
  exact ⟨EarleyF.complete hr' h h00 (by rw [hl]; rfl) (fun _ => hok _ _ _),
    EarleyF.complete hr' h h10 (by rw [hl]; rfl) (fun _ => hok _ _ _)⟩

theorem list_core_complete :
    ∀ j, j ≤ w.length → ∀ p ∈ (lrun w j).core, EarleyF listGrammar ok w j ⟨p.1, p.2, 0⟩ := by
  intro j
  induction j with
  | zero => intro _ p hp; rw [lrun_zero] at hp; exact list_set0_items w p hp
  | succ j ih =>
    intro hj p hp
    have hlt : j < w.length := hj
    have hw : w[j]? = some w[j] := List.getElem?_eq_getElem hlt
    rw [lrun_succ hw] at hp
    have ih' := ih (Nat.le_of_lt hlt)
    have scan : ∀ r d a, (r, d) ∈ (lrun w j).core → listGrammar.nextSym r d = some (Sym.t a) →
        w[j] = a → EarleyF listGrammar ok w (j + 1) ⟨r, d + 1, 0⟩ :=
      fun r d a hm hs ha => EarleyF.scan (ih' (r, d) hm) hs (by rw [hw, ha]) (hok _ _ _)
    rcases LState.step_cases (lrun w j) w[j] with ⟨hq, ha, hs⟩ | ⟨hq, ha, hs⟩ | ⟨hq, ha, hs⟩ |
      ⟨hq, ha, hs⟩ | ⟨hq, ha, hs⟩ | ⟨hq, ha, hs⟩ | ⟨hq, ha, hs⟩ | ⟨hq, ha, hs⟩ | hs
    · -- s0 --x--> s1
      rw [hs] at hp
      have h21 := scan 2 0 0 (by rw [hq]; decide) rfl ha
      obtain ⟨h01, h11⟩ := list_complete_L hok w (r' := 2) (rl' := { lhs := 0, rhs := [.t 0] })
        rfl rfl h21
      simp only [LState.core, List.mem_cons, List.not_mem_nil, or_false] at hp
      rcases hp with rfl | rfl | rfl
      · exact h21
      · exact h01
      · exact h11
    · -- s1 --sep--> sep
      rw [hs] at hp
      simp only [LState.core, List.mem_cons, List.not_mem_nil, or_false] at hp
      subst hp
      exact scan 1 1 1 (by rw [hq]; decide) rfl ha
    · -- s1 --$eof--> fin
      rw [hs] at hp
      simp only [LState.core, List.mem_cons, List.not_mem_nil, or_false] at hp
      subst hp
      exact scan 0 1 3 (by rw [hq]; decide) rfl ha
    · -- sep --x--> x
      rw [hs] at hp
      have h13 := scan 1 2 0 (by rw [hq]; decide) rfl ha
      obtain ⟨h01, h11⟩ := list_complete_L hok w (r' := 1)
        (rl' := { lhs := 0, rhs := [.n 0, .t 1, .t 0] }) rfl rfl h13
      simp only [LState.core, List.mem_cons, List.not_mem_nil, or_false] at hp
      rcases hp with rfl | rfl | rfl
      · exact h13
      · exact h01
      · exact h11
    · -- x --sep--> sep
      rw [hs] at hp
      simp only [LState.core, List.mem_cons, List.not_mem_nil, or_false] at hp
      subst hp
      exact scan 1 1 1 (by rw [hq]; decide) rfl ha
    · -- x --$eof--> fin
      rw [hs] at hp
      simp only [LState.core, List.mem_cons, List.not_mem_nil, or_false] at hp
      subst hp
      exact scan 0 1 3 (by rw [hq]; decide) rfl ha
    · -- s0 --error--> e1
      rw [hs] at hp
      simp only [LState.core, List.mem_cons, List.not_mem_nil, or_false] at hp
      subst hp
      exact scan 3 0 2 (by rw [hq]; decide) rfl ha
    · -- e1 --$eof--> e2
      rw [hs] at hp
      simp only [LState.core, List.mem_cons, List.not_mem_nil, or_false] at hp
      subst hp
      exact scan 3 1 3 (by rw [hq]; decide) rfl ha
    · rw [hs] at hp; cases hp

end Complete

/-! ## the executable sets -/

theorem closeSet_nodup (g : Grammar) (ok : Nat → Nat → Bool) (prev : List (List Item)) (j : Nat)
    (start : List Item) : (closeSet g ok prev j start).Nodup :=
  saturate_nodup _ _ (addNew_nodup _ List.nodup_nil)

theorem parseLoop_nodup (g : Grammar) (an : Analysis) (la : Nat) :
    ∀ (toks : List Nat) (pl : List (List Item)) (k : Nat), (∀ s ∈ pl, s.Nodup) →
      ∀ s ∈ (parseLoop g an la toks pl k).2, s.Nodup := by
  intro toks
  induction toks with
  | nil => intro pl k h; unfold parseLoop; exact h
  | cons a rest ih =>
    intro pl k h
    unfold parseLoop
    split
    · apply ih
      intro s hs
      rcases List.mem_append.mp hs with hs | hs
      · exact h s hs
      · rw [List.mem_singleton] at hs; subst hs; exact closeSet_nodup _ _ _ _ _
    · exact h

/-- the sets of the executable parse list have no duplicates -/
theorem buildPL_nodup (g : Grammar) (la : Nat) (w : List Nat) :
    ∀ s ∈ (buildPL g la w).2, s.Nodup := by
  unfold buildPL
  apply parseLoop_nodup
  intro s hs
  rw [List.mem_singleton] at hs; subst hs; exact closeSet_nodup _ _ _ _ _

theorem buildPL_length_le (g : Grammar) (la : Nat) (w : List Nat) :
    (buildPL g la w).2.length ≤ (w ++ [g.eofT]).length + 1 := by
  obtain ⟨_, h1, h2⟩ := buildPL_spec g la w
  cases hres : (buildPL g la w).1 with
  | none => rw [(h1 hres).1]; exact Nat.le_refl _
  | some e => obtain ⟨h3, h4, _⟩ := h2 e hres; omega

theorem buildPL_mem_iff (g : Grammar) (la : Nat) (w : List Nat) (j : Nat)
    (h : j < (buildPL g la w).2.length) (it : Item) :
    it ∈ (buildPL g la w).2[j] ↔
      EarleyF g (laFilter g g.analysis la (w ++ [g.eofT])) (w ++ [g.eofT]) j it := by
  have := (buildPL_spec g la w).1 j h it
  rwa [List.getD_eq_getElem?_getD, List.getElem?_eq_getElem h, Option.getD_some] at this

/-- the items of a state: its core with origin 0 -/
def LState.items (q : LState) : List Item := q.core.map fun p => ⟨p.1, p.2, 0⟩

theorem LState.items_nodup (q : LState) : q.items.Nodup := by cases q <;> decide

theorem LState.items_length_le (q : LState) : q.items.length ≤ 4 := by
  unfold LState.items; rw [List.length_map]; exact q.core_length_le

theorem mem_items_iff {q : LState} {it : Item} :
    it ∈ q.items ↔ it.origin = 0 ∧ (it.rule, it.dot) ∈ q.core := by
  unfold LState.items
  rw [List.mem_map]
  constructor
  · rintro ⟨p, hp, rfl⟩; exact ⟨rfl, hp⟩
  · rintro ⟨h1, h2⟩
    refine ⟨(it.rule, it.dot), h2, ?_⟩
    obtain ⟨r, d, o⟩ := it
    simp only at h1
    subst h1; rfl

/-- every executable set (any input, any lookahead level of the model) is inside the items
of the automaton state -/
theorem listSets_subset (la : Nat) (w : List Nat) (j : Nat)
    (h : j < (buildPL listGrammar la w).2.length) :
    (buildPL listGrammar la w).2[j] ⊆ (lrun (w ++ [3]) j).items := by
  intro it hit
  have := (buildPL_mem_iff listGrammar la w j h it).mp hit
  obtain ⟨_, h2, h3⟩ := list_core_sound this
  exact mem_items_iff.mpr ⟨h2, h3⟩

/-- at level 0 the executable set is exactly the items of the automaton state -/
theorem listSets_la0_mem (w : List Nat) (j : Nat) (h : j < (buildPL listGrammar 0 w).2.length)
    (it : Item) : it ∈ (buildPL listGrammar 0 w).2[j] ↔ it ∈ (lrun (w ++ [3]) j).items := by
  constructor
  · exact fun hit => listSets_subset 0 w j h hit
  · intro hit
    obtain ⟨h1, h2⟩ := mem_items_iff.mp hit
    rw [buildPL_mem_iff]
    have hj : j ≤ (w ++ [3]).length := by
      have := buildPL_length_le listGrammar 0 w
      have e : listGrammar.eofT = 3 := rfl
      rw [e] at this
      omega
    have := list_core_complete (laFilter_zero listGrammar listGrammar.analysis (w ++ [3])) (w ++ [3])
      j hj (it.rule, it.dot) h2
    obtain ⟨r, d, o⟩ := it
    simp only at h1 this
    subst h1
    exact this

theorem listSets_la0_perm (w : List Nat) (j : Nat) (h : j < (buildPL listGrammar 0 w).2.length) :
    ((buildPL listGrammar 0 w).2[j]).Perm (lrun (w ++ [3]) j).items :=
  (List.perm_ext_iff_of_nodup (buildPL_nodup _ _ _ _ (List.getElem_mem h))
    (LState.items_nodup _)).mpr (listSets_la0_mem w j h)

/-! ## the inputs `x (sep x)^n` -/

theorem listInput_split (k m : Nat) :
    listInput (k + m) = listInput k ++ (List.replicate m [1, 0]).flatten := by
  unfold listInput
  rw [← List.replicate_append_replicate, List.flatten_append, List.cons_append]

theorem listInput_succ (n : Nat) : listInput (n + 1) = listInput n ++ [1, 0] := by
  rw [listInput_split n 1]; rfl

theorem listInput_length (n : Nat) : (listInput n).length = 2 * n + 1 := by
  induction n with
  | zero => rfl
  | succ n ih => rw [listInput_succ, List.length_append, ih]; simp; omega

theorem listInput_sentence (n : Nat) : Sentence listGrammar (listInput n) := by
  unfold Sentence
  induction n with
  | zero =>
    exact Der.nt' (g := listGrammar) (r := 2) (rl := { lhs := 0, rhs := [.t 0] }) rfl rfl
      (Der.term Der.nil) Der.nil rfl
  | succ n ih =>
    rw [listInput_succ]
    refine Der.nt' (g := listGrammar) (r := 1) (rl := { lhs := 0, rhs := [.n 0, .t 1, .t 0] }) rfl rfl
      (u := listInput n ++ [1, 0]) (v := []) ?_ Der.nil (by simp)
    exact Der.append (α := [Sym.n 0]) (β := [Sym.t 1, Sym.t 0]) ih (Der.term (Der.term Der.nil))

theorem listInput_tokens (n : Nat) :
    ∀ a ∈ listInput n, a ≠ listGrammar.eofT ∧ a ≠ listGrammar.errT := by
  induction n with
  | zero => decide
  | succ n ih =>
    rw [listInput_succ]
    intro a ha
    rcases List.mem_append.mp ha with h | h
    · exact ih a h
    · have : ∀ b ∈ [1, 0], b ≠ listGrammar.eofT ∧ b ≠ listGrammar.errT := by decide
      exact this a h

/-- at levels 0 and 1 the inputs are accepted: all `2 n + 3` sets are built -/
theorem listInput_accepted {la : Nat} (hla : la ≤ 1) (n : Nat) :
    (buildPL listGrammar la (listInput n)).1 = none ∧
    (buildPL listGrammar la (listInput n)).2.length = 2 * n + 3 := by
  have hd := der_axiom_of_sentence (listInput_sentence n)
  have hacc : (buildPL listGrammar la (listInput n)).1 = none := by
    rw [buildPL_none_iff]
    rcases Nat.le_one_iff_eq_zero_or_eq_one.mp hla with h | h
    · subst h; exact trans_of_der_axiom list_wf (laFilter_zero _ _ _) hd
    · subst h; exact (la1_of_der_axiom list_wf list_syms hd).2
  refine ⟨hacc, ?_⟩
  rw [((buildPL_spec listGrammar la (listInput n)).2.1 hacc).1, List.length_append,
    listInput_length]
  rfl

/-- the state after the `k`-th `x` -/
def afterX : Nat → LState
  | 0 => .s1
  | _ + 1 => .x

theorem foldl_listInput (k : Nat) : (listInput k).foldl LState.step .s0 = afterX k := by
  induction k with
  | zero => rfl
  | succ k ih =>
    rw [listInput_succ, List.foldl_append, ih]
    cases k <;> rfl

theorem lrun_after_x {n k : Nat} (hk : k ≤ n) : lrun (listInput n ++ [3]) (2 * k + 1) = afterX k := by
  obtain ⟨m, rfl⟩ : ∃ m, n = k + m := ⟨n - k, by omega⟩
  unfold lrun
  rw [listInput_split, List.append_assoc,
    List.take_append_of_le_length (by rw [listInput_length]; omega),
    List.take_of_length_le (by rw [listInput_length]; omega)]
  exact foldl_listInput k

theorem lrun_after_sep {n k : Nat} (hk : k < n) : lrun (listInput n ++ [3]) (2 * k + 2) = .sep := by
  have h1 : (listInput n ++ [3])[2 * k + 1]? = some 1 := by
    obtain ⟨m, rfl⟩ : ∃ m, n = k + (m + 1) := ⟨n - k - 1, by omega⟩
    rw [listInput_split, List.append_assoc,
      List.getElem?_append_right (by rw [listInput_length]; omega), listInput_length]
    have : 2 * k + 1 - (2 * k + 1) = 0 := by omega
    rw [this, List.replicate_succ]
    rfl
  rw [lrun_succ h1, lrun_after_x (Nat.le_of_lt hk)]
  cases k <;> rfl

theorem lrun_final (n : Nat) : lrun (listInput n ++ [3]) (2 * n + 2) = .fin := by
  have h1 : (listInput n ++ [3])[2 * n + 1]? = some 3 := by
    rw [List.getElem?_append_right (by rw [listInput_length]; omega), listInput_length]
    simp
  rw [lrun_succ h1, lrun_after_x (Nat.le_refl _)]
  cases n <;> rfl

end Yaep
