import Yaep.Lemmas.MakeParseAllNT
/-!
# All-parses mode: a terminal before the dot; popping a state
-/
namespace Yaep.MP
open Yaep

theorem popFold_table (an : Nat) : ∀ (l : List Nat) (s : St),
    (l.foldl (fun (s : St) i =>
          if (getKid s.heap an i).isNone then
            { s with heap := setKid s.heap an i (some nilId), nilUsed := true }
          else s) s).table = s.table ∧
    (l.foldl (fun (s : St) i =>
          if (getKid s.heap an i).isNone then
            { s with heap := setKid s.heap an i (some nilId), nilUsed := true }
          else s) s).termNodes = s.termNodes
  | [], s => ⟨rfl, rfl⟩
  | i :: l, s => by
    simp only [List.foldl_cons]
    obtain ⟨i1, i2⟩ := popFold_table an l (if (getKid s.heap an i).isNone then
            { s with heap := setKid s.heap an i (some nilId), nilUsed := true } else s)
    refine ⟨?_, ?_⟩
    · rw [i1]; split <;> rfl
    · rw [i2]; split <;> rfl

/-- a new TERM cell (not yet referenced) -/
theorem AGood.pushLeaf {g : Grammar} {ok : Nat → Nat → Nat → Bool} {toks : List Nat} {s s' : St}
    {G : Ghost} {hole : Option (Nat × Nat)} (hgood : AGood g ok toks s G hole) {cd atr : Int}
    (hh : s'.heap = s.heap.push (.term cd atr)) (hs : s'.states = s.states) (hk : s'.stack = s.stack)
    (ht : s'.table = s.table)
    (hn : ∀ k node, s'.termNodes.getD k none = some node → s.termNodes.getD k none = some node ∨
      (node = s.heap.size ∧ ∃ a, toks[k]? = some a ∧ cd = g.termCodes.getD a 0 ∧ atr = (k : Int))) :
    AGood g ok toks s' G hole := by
  have hext : HeapExt s.heap s'.heap := by
    rw [hh]; exact ⟨by simp, fun m hm => Or.inl (getD_push_lt _ _ _ _ hm)⟩
  have hold : ∀ m, m < s.heap.size → s'.heap.getD m .nil = s.heap.getD m .nil := by
    intro m hm; rw [hh]; exact getD_push_lt _ _ _ _ hm
  have hty : ∀ m, m < s.heap.size → G.ty m = G.ty m := fun _ _ => rfl
  obtain ⟨rks, k1, k2, k3, k4⟩ := hgood.root
  have k3' : 2 < s.heap.size := k3
  refine ⟨by rw [hold _ (by show 0 < _; omega)]; exact hgood.h0,
    by rw [hold _ (by show 1 < _; omega)]; exact hgood.h1,
    ⟨rks, by rw [hold _ k3]; exact k1, k2, by have := hext.1; omega,
      fun m hm => (k4 m hm).mono hext hty (fun _ h => h)⟩,
    by rw [hs]; exact hgood.rootSt, by rw [hk]; exact hgood.sorted, by rw [hk]; exact hgood.spos,
    ?_, by rw [hs, hk]; exact hgood.noShare, ?_, ?_, ?_, ?_⟩
  · intro x hx
    rw [hk] at hx
    obtain ⟨rl, hsx⟩ := hgood.states x hx
    refine ⟨rl, ?_⟩
    rw [hs, hk]
    refine hsx.frame (fun a han => ?_) rfl (Nat.le_refl _) rfl rfl rfl rfl (Nat.le_refl _)
      (fun _ _ => rfl) (fun h => h)
    have hc := hsx.cell; rw [han] at hc
    exact hc.frame hext hty (hold a hc.1) rfl rfl
  · intro n hnlt hnroot hnan
    rw [hs, hk]
    by_cases hnold : n < s.heap.size
    · rw [hold n hnold] at hnan
      rcases hgood.cells n hnold hnroot hnan with ⟨hf, hno⟩ | hown
      · exact Or.inl ⟨hf.frame hnold hext hty (hold n hnold), hno⟩
      · exact Or.inr hown
    · rw [hh] at hnlt hnan
      simp only [Array.size_push] at hnlt
      have : n = s.heap.size := by omega
      subst this
      rw [getD_push_eq] at hnan
      obtain ⟨_, _, _, e⟩ := hnan; cases e
  · intro x hx pl hproc hhole
    rw [hk] at hx; rw [hs] at hproc
    rw [hs, hk]
    rcases hgood.nn x hx pl hproc hhole with h1 | h1
    · exact Or.inl (by rw [hh]; exact getKid_push_ne_none h1)
    · exact Or.inr h1
  · intro pl r o node hmem
    rw [ht] at hmem
    obtain ⟨t1, t2, ⟨nm1, c1, ks1, t3⟩, t4⟩ := hgood.table pl r o node hmem
    exact ⟨by have := hext.1; omega, t2, ⟨nm1, c1, ks1, by rw [hold node t1]; exact t3⟩, t4⟩
  · intro k node hmem
    rcases hn k node hmem with hm | ⟨e1, a, e2, e3, e4⟩
    · obtain ⟨t1, a, t2, t3⟩ := hgood.terms k node hm
      exact ⟨by have := hext.1; omega, a, t2, by rw [hold node t1]; exact t3⟩
    · refine ⟨by rw [hh, e1]; simp, a, e2, ?_⟩
      rw [hh, e1, getD_push_eq, e3, e4]

/-- a well-typed pointer is put into the place of a state on the stack, for its position `pos` -/
theorem place_at {g : Grammar} {ok : Nat → Nat → Nat → Bool} {toks : List Nat} {s s' : St}
    {G : Ghost} {hole : Option (Nat × Nat)} (hwf : g.translWF = true)
    (hgood : AGood g ok toks s G hole) {x : Nat} {rl : Rule} {Y : Sym} {d : Nat}
    (hmem : x ∈ s.stack) (hst : StateOK g ok toks G s.heap s.states s.stack x rl)
    (hY : rl.rhs[(s.states.getD x default).pos]? = some Y)
    (hd : rl.order.getD (s.states.getD x default).pos none = some d)
    (hhole : hole = none ∨ hole = some (placeOfSt s.states (s.states.getD x default) d))
    {node : Nat} (hnode : PtrOK g toks G.ty s.heap node (Tr g toks Y
      (G.ssp x (s.states.getD x default).pos) (G.ssp x ((s.states.getD x default).pos + 1))))
    (hh : s'.heap = placeTranslation s.heap (placeOfSt s.states (s.states.getD x default) d) node)
    (hs : s'.states = s.states) (hk : s'.stack = s.stack) (ht : s'.table = s.table)
    (hn : s'.termNodes = s.termNodes) : AGood g ok toks s' G none := by
  obtain ⟨T, hslot, hsub⟩ := hst.slot hwf hmem hgood.rootSt.1 hY hd
  have hnode' := hnode.mono (HeapExt.refl _) (fun _ _ => rfl) hsub
  have hg := hgood.place hwf hslot hnode' (by rw [hh]) hs hk ht hn
  rcases hhole with rfl | rfl
  · simpa using hg
  · simpa using hg

theorem placeOf_eq {sts : Array PState} {st : PState} {pa d : Nat}
    (hpa : (sts.getD st.parent default).anode = some pa) : placeOf st pa d = placeOfSt sts st d := by
  unfold placeOf placeOfSt
  cases st.anode with
  | some a => rfl
  | none => simp only; rw [hpa]; rfl

/-- **a terminal before the dot, all parses** -/
theorem astep_term {g : Grammar} {ok : Nat → Nat → Nat → Bool} {toks : List Nat} {c : Ctx}
    (hc : CtxAll g ok toks c) (hwf : g.translWF = true) {s : St} {G : Ghost}
    (hgood : AGood g ok toks s G none) {X : Nat} {rest : List Nat} (hst : s.stack = X :: rest)
    {rlX : Rule} {a : Nat} (hr : g.rules[(s.state X).rule]? = some rlX)
    (hpos : (s.state X).pos ≠ 0) (hsym : rlX.rhs[(s.state X).pos - 1]? = some (.t a)) :
    ∃ G', AGood g ok toks (step c s) G' none := by
  have hXmem : X ∈ s.stack := by rw [hst]; simp
  obtain ⟨rl0, hX0⟩ := hgood.states X hXmem
  have est : s.states.getD X default = s.state X := rfl
  have hrl : rl0 = rlX := by
    have := hX0.hr; rw [est, hr] at this; injection this with this; exact this.symm
  subst hrl
  obtain ⟨pa, hpa⟩ := hX0.pa
  have hpa' : (s.state (s.state X).parent).anode = some pa := hpa
  have hrule := hc.rule_eq hr
  have hstep := step_term (c := c) (a := a) hst hpos (by rw [hrule]; exact getD_of_getElem? hsym)
  rw [hpa', hrule] at hstep
  obtain ⟨p1, p2, p3, p4⟩ := stepTerm_all (c := c) (sid := X) (st := s.state X)
    (pos := (s.state X).pos - 1) (disp := rl0.order.getD ((s.state X).pos - 1) none) (a := a)
    (pa := pa) (s := s) hc.all
  rw [← hstep] at p1 p2 p3 p4
  have hpp : (s.state X).pos - 1 + 1 = (s.state X).pos := by omega
  obtain ⟨hitem, hspX⟩ := hX0.item (by rw [est]; exact hpos)
  rw [est] at hitem hspX
  have hear := hitem
  rw [← hpp] at hear
  obtain ⟨j0, hj0, hw, hear0⟩ := hear.term_inv hr hsym
  have hjle := hitem.le_length
  -- the dot moves
  let st' : PState := { s.state X with pos := (s.state X).pos - 1, plInd := if (s.state X).pos - 1 != 0 then (s.state X).plInd - 1 else (s.state X).plInd }
  let s1 : St := { s with states := s.states.set! X st' }
  have hadv := hgood.advance (s' := s1) (st' := st') hwf hst (by rw [est]; exact hr)
    (by rw [est]; exact hpos) (by rw [est]; exact hsym) (k := j0) (by rw [est]; exact hear0)
    (fun _ => ⟨.leaf a j0, by rw [est, hspX, hj0]; exact .leaf hw⟩)
    (StsUpd.set _ hX0.lt) rfl rfl rfl rfl rfl rfl
    (by intro hp
        have hp' : ((s.state X).pos - 1 != 0) = true := by simpa [st'] using hp
        simp only [st', hp', if_true]; omega) rfl rfl rfl rfl
  rw [est] at hadv
  have hleaf : ∀ t, Tr g toks (.t a) j0 (j0 + 1) t ↔ t = translate g (.leaf a j0) := by
    intro t
    constructor
    · rintro ⟨pt, hv, rfl⟩
      cases hv with
      | leaf _ => rfl
    · rintro rfl
      exact ⟨_, .leaf hw, rfl⟩
  cases hd : rl0.order.getD ((s.state X).pos - 1) none with
  | none =>
    rw [hd] at p4 hadv
    simp only [Prod.mk.injEq] at p4
    exact ⟨_, hadv.congr p4.1 p1 p2 p3 p4.2⟩
  | some d =>
    rw [hd] at p4 hadv
    simp only [Option.map_some] at hadv
    have hmem1 : X ∈ s1.stack := hXmem
    obtain ⟨rl1, hX1⟩ := hadv.states X hmem1
    have hs1X : s1.states.getD X default = st' := (StsUpd.set (sts := s.states) st' hX0.lt).same
    have hrl1 : rl1 = rl0 := by
      have := hX1.hr; rw [hs1X] at this
      have this' : g.rules[(s.state X).rule]? = some rl1 := this
      rw [hr] at this'; injection this' with this'; exact this'.symm
    subst hrl1
    have hpar1 : s1.states.getD (s.state X).parent default = s.states.getD (s.state X).parent default :=
      (StsUpd.set (sts := s.states) st' hX0.lt).other _ hX0.parLt
    have hpo : ∀ d, placeOf (s.state X) pa d = placeOfSt s.states (s.state X) d :=
      fun d => placeOf_eq (sts := s.states) (st := s.state X) hpa
    have hplace : placeOfSt s1.states (s1.states.getD X default) d = placeOf (s.state X) pa d := by
      rw [hs1X, hpo]
      exact placeOfSt_congr rfl rfl rfl (by rw [hpar1])
    have hspk : (G.setSp X ((s.state X).pos - 1) j0).ssp X (s1.states.getD X default).pos = j0 := by
      rw [hs1X]; exact G.setSp_same _ _ _
    have hspe : (G.setSp X ((s.state X).pos - 1) j0).ssp X ((s1.states.getD X default).pos + 1) = j0 + 1 := by
      rw [hs1X]
      show (G.setSp X ((s.state X).pos - 1) j0).ssp X ((s.state X).pos - 1 + 1) = _
      rw [hpp, G.setSp_other _ _ _ _ _ (Or.inr (by omega)), hspX, hj0]
    have hY1 : rl1.rhs[(s1.states.getD X default).pos]? = some (.t a) := by rw [hs1X]; exact hsym
    have hd1 : rl1.order.getD (s1.states.getD X default).pos none = some d := by rw [hs1X]; exact hd
    by_cases he : (a == c.errT) = true
    · -- the error terminal
      simp only [he, if_true, Prod.mk.injEq] at p4
      have hae : a = g.errT := by rw [← hc.errT]; simpa using he
      obtain ⟨rks, _, _, hroot, _⟩ := hadv.root
      have hroot' : 2 < s1.heap.size := hroot
      refine ⟨_, place_at (s' := step c s) hwf hadv hmem1 hX1 hY1 hd1 (Or.inr (by rw [hplace, hpo]))
        (node := errId) ?_ (by rw [hplace]; exact p4.1) p1 p2 p3 p4.2⟩
      rw [hspk, hspe]
      refine .err (by show 1 < _; omega) hadv.h1 ((hleaf _).mpr ?_)
      rw [hae, translate_leaf_error]
    · have hae : a ≠ g.errT := by rw [← hc.errT]; simpa using he
      have he' : (a == c.errT) = false := by simpa using he
      simp only [he', Bool.false_eq_true, if_false] at p4
      have htok : c.plToks.getD ((s.state X).plInd - 1 + 1) (-1) = (j0 : Int) := by
        rw [hj0]; simp only [Nat.add_sub_cancel]
        rw [hc.ptoks (j0 + 1) (by omega) (by omega)]; omega
      rw [htok] at p4
      simp only [Int.toNat_natCast] at p4
      have hcode : c.termCodes.getD a 0 = g.termCodes.getD a 0 := by
        rw [hc.codes, Array.getD_eq_getD_getElem?, List.getElem?_toArray, List.getD_eq_getElem?_getD]
      cases hkn : s.termNodes.getD j0 none with
      | some node =>
        rw [hkn] at p4
        simp only [Prod.mk.injEq] at p4
        obtain ⟨t1, a', t2, t3⟩ := hadv.terms j0 node hkn
        rw [hw] at t2; injection t2 with t2; subst t2
        refine ⟨_, place_at (s' := step c s) hwf hadv hmem1 hX1 hY1 hd1
          (Or.inr (by rw [hplace, hpo])) (node := node) ?_ (by rw [hplace]; exact p4.1)
          p1 p2 p3 p4.2⟩
        rw [hspk, hspe]
        exact .term t1 t3 ((hleaf _).mpr (by rw [translate_leaf hae]))
      | none =>
        rw [hkn] at p4
        simp only [Prod.mk.injEq] at p4
        let s2 : St := { s1 with heap := s1.heap.push (.term (c.termCodes.getD a 0) (j0 : Int)), termNodes := s.termNodes.set! j0 (some s.heap.size) }
        have hg2 : AGood g ok toks s2 (G.setSp X ((s.state X).pos - 1) j0)
            (some (placeOfSt s.states (s.state X) d)) := by
          refine hadv.pushLeaf (s' := s2) rfl rfl rfl rfl ?_
          intro k node hm
          change (s.termNodes.set! j0 (some s.heap.size)).getD k none = some node at hm
          rw [getD_set!] at hm
          split at hm
          · rename_i hh
            injection hm with hm
            exact Or.inr ⟨hm.symm, a, by rw [← hh.1]; exact hw, hcode, by rw [hh.1]⟩
          · exact Or.inl hm
        have hmem2 : X ∈ s2.stack := hXmem
        obtain ⟨rl2, hX2⟩ := hg2.states X hmem2
        have hrl2 : rl2 = rl1 := by
          have := hX2.hr
          have this' : g.rules[(s1.states.getD X default).rule]? = some rl2 := this
          rw [hX1.hr] at this'; injection this' with this'; exact this'.symm
        subst hrl2
        refine ⟨_, place_at (s := s2) (s' := step c s) hwf hg2 hmem2 hX2 hY1 hd1
          (Or.inr (by show _ = some (placeOfSt s1.states (s1.states.getD X default) d)
                      rw [hplace, hpo])) (node := s.heap.size) ?_
          (by show _ = placeTranslation (s.heap.push _) (placeOfSt s1.states (s1.states.getD X default) d) _
              rw [hplace]; exact p4.1) p1 p2 p3 p4.2⟩
        show PtrOK g toks _ (s.heap.push _) s.heap.size
          (Tr g toks (.t a) ((G.setSp X ((s.state X).pos - 1) j0).ssp X (s1.states.getD X default).pos)
            ((G.setSp X ((s.state X).pos - 1) j0).ssp X ((s1.states.getD X default).pos + 1)))
        rw [hspk, hspe]
        refine .term (by simp) (getD_push_eq _ _ _) ((hleaf _).mpr ?_)
        rw [translate_leaf hae, hcode]

theorem place_nonnull {h : Array MNode} {n i node : Nat} {nm : String} {c : Nat}
    {ks : Array (Option Nat)} (hc : h.getD n .nil = .anode nm c ks) (hn : n < h.size)
    (hi : i < ks.size) (hnode : node < h.size) :
    getKid (placeTranslation h (n, i) node) n i ≠ none := by
  obtain ⟨m', hpr⟩ := place_res (i := i) hc hn hnode
  obtain ⟨nm', c', ks', c1, c2⟩ := hpr.cell
  rw [hc] at c1; injection c1 with e1 e2 e3; subst e1; subst e2; subst e3
  rw [getKid_of_cell c2, getD_set!]
  simp [hi]

/-- **the top state is popped, all parses** -/
theorem astep_pop {g : Grammar} {ok : Nat → Nat → Nat → Bool} {toks : List Nat} {c : Ctx}
    (hc : CtxAll g ok toks c) (hg : GrOK g) {s : St} {G : Ghost}
    (hgood : AGood g ok toks s G none) {X : Nat} {rest : List Nat} (hst : s.stack = X :: rest)
    (hpos : (s.state X).pos = 0) : ∃ G', AGood g ok toks (step c s) G' none := by
  have hwf := hg.twf
  have hXmem : X ∈ s.stack := by rw [hst]; simp
  obtain ⟨rl, hX⟩ := hgood.states X hXmem
  have est : s.states.getD X default = s.state X := rfl
  have hr : g.rules[(s.state X).rule]? = some rl := hX.hr
  have hrule := hc.rule_eq hr
  have hok := Grammar.translWF_rule hwf hr
  cases han : (s.state X).anode with
  | some a =>
    have hstep := step_pop_some (c := c) hst hpos han
    obtain ⟨p1, p2, p3, _⟩ := popFold_proj a (List.range (c.rule (s.state X).rule).transLen)
      { s with stack := rest }
    simp only at p1 p2 p3
    rw [← hstep] at p1 p2 p3
    rw [hrule] at p1
    exact ⟨G, hgood.popOwner hwf hst han hr hpos p1 p2 p3 (by rw [hstep]; exact (popFold_table a _ _).1)
      (by rw [hstep]; exact (popFold_table a _ _).2)⟩
  | none =>
    obtain ⟨pa, hpa⟩ := hX.pa
    have hpa' : (s.state (s.state X).parent).anode = some pa := hpa
    have hstep := step_pop_none (c := c) hst hpos han hpa'
    rw [hrule] at hstep
    have hcell := hX.cell
    rw [est, han] at hcell
    by_cases htl : rl.transLen = 0
    · -- nothing is translated: the empty node goes to the place of the state
      have htl' : (rl.transLen == 0) = true := by simpa using htl
      rw [htl'] at hstep
      simp only [if_true] at hstep
      have hnone : ∀ q, rl.order.getD q none = none := by
        intro q
        cases hh : rl.order.getD q none with
        | none => rfl
        | some d => have := hok.slot_lt _ _ (order_getD_eq_some.mp hh); omega
      obtain ⟨pa', T, t1, hslot, hsub⟩ := hX.tgtSlot hgood.rootSt.1
      have t1' : (s.states.getD (s.states.getD X default).parent default).anode = some pa' := t1
      rw [hpa] at t1'; injection t1' with t1'; subst t1'
      have hnilT : T .nil := by
        apply hsub
        obtain ⟨kids, hk⟩ := validList_exists (g := g) (toks := toks) rl.rhs (G.ssp X)
          (fun q Y hY => hX.untr q Y (by rw [est, hpos]; exact Nat.zero_le _) hY (hnone q))
        rw [hX.pos0 (by rw [est]; exact hpos), hX.spFin] at hk
        refine ⟨.node (s.state X).rule kids, .node hr rfl hk, ?_⟩
        exact (translate_passthrough hwf hr hcell kids).2 (fun p s' hp => by
          have := order_getD_eq_some.mpr hp; rw [hnone p] at this; cases this)
      obtain ⟨rks, _, _, hroot, _⟩ := hgood.root
      have hroot' : 2 < s.heap.size := hroot
      have hnode : PtrOK g toks G.ty s.heap nilId T := .nil (by show 0 < _; omega) hgood.h0 hnilT
      let s1 : St := { s with heap := placeTranslation s.heap (pa, (s.state X).parentDisp) nilId }
      obtain ⟨c1, _, nm, cc, ks, c2, c3, _⟩ := hslot.cell hwf hgood
      have hg1 := hgood.place (s' := s1) hwf hslot hnode rfl rfl rfl rfl rfl
      simp only [if_neg (show (none : Option (Nat × Nat)) ≠ some _ from by simp)] at hg1
      refine ⟨G, hg1.popPass (s' := step c s) hst (by exact han) ?_ (by rw [hstep]; rfl)
        (by rw [hstep]; rfl) (by rw [hstep]; rfl) (by rw [hstep]; rfl) (by rw [hstep]; rfl)⟩
      intro pl ⟨_, o2, _⟩
      have o2' : pl = (((s.state (s.state X).parent).anode).getD 0, (s.state X).parentDisp) := o2
      rw [hpa'] at o2'
      rw [o2']
      exact place_nonnull c2 c1 c3 (by show 0 < _; omega)
    · have htl' : (rl.transLen == 0) = false := by simpa using htl
      rw [htl'] at hstep
      simp only [Bool.false_eq_true, if_false] at hstep
      refine ⟨G, hgood.popPass (s' := step c s) hst han ?_ (by rw [hstep]) (by rw [hstep])
        (by rw [hstep]) (by rw [hstep]) (by rw [hstep])⟩
      intro pl ⟨_, _, rl', o3, o4⟩
      rw [est, hr] at o3; injection o3 with o3; subst o3
      exfalso; apply htl
      exact hg.pass _ _ hr hcell (fun q => o4 q (by rw [est, hpos]; exact Nat.zero_le _))

end Yaep.MP
