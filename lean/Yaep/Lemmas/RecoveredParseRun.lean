import Yaep.Lemmas.RecoveredParseSim
/-!
# Renaming the token numbers: the whole run, the export, the denoted trees

`run_sim`: the two runs need the same number of iterations and end in similar states, provided
the first run carries an invariant `Inv` that guarantees `TermHyp`.  `exportTable_rl`: the node
table of the renamed heap is the renamed node table.  `denoteTab_rl`: its trees are the renamed
trees (`Tree.mapAttr`).
-/
namespace Yaep.RP
open Yaep Yaep.MP

variable {f : Int → Int} {P' : Array Int} {n0 n0' : Nat}

theorem run_sim {c : Ctx} (R : TokRel f c.plToks P' n0 n0') (Inv : St → Prop)
    (hstep : ∀ s, Inv s → s.stack ≠ [] → Inv (step c s))
    (hterm : ∀ s, Inv s → TermHyp c P' s) :
    ∀ (fuel : Nat) (s s' : St), Sim f c.plToks P' n0 n0' s s' → Inv s →
      (∀ sf, run c fuel s = some sf →
        ∃ sf', run (reTok c P') fuel s' = some sf' ∧ Sim f c.plToks P' n0 n0' sf sf') ∧
      (run c fuel s = none → run (reTok c P') fuel s' = none)
  | 0, s, s', h, _ => by
    have hst : s'.stack = s.stack := by rw [h.eq]; rfl
    unfold run
    rw [hst]
    constructor
    · intro sf hsf
      split at hsf
      · injection hsf with hsf; subst hsf
        rename_i he
        rw [if_pos he]; exact ⟨s', rfl, h⟩
      · cases hsf
    · intro hn
      split at hn
      · cases hn
      · rename_i he; rw [if_neg he]
  | fuel + 1, s, s', h, hI => by
    have hst : s'.stack = s.stack := by rw [h.eq]; rfl
    unfold run
    rw [hst]
    by_cases he : s.stack.isEmpty = true
    · rw [if_pos he, if_pos he]
      exact ⟨fun sf hsf => by injection hsf with hsf; subst hsf; exact ⟨s', rfl, h⟩,
        fun hn => by cases hn⟩
    · rw [if_neg he, if_neg he]
      have hne : s.stack ≠ [] := by
        intro h0; rw [h0] at he; exact he rfl
      exact run_sim R Inv hstep hterm fuel (step c s) (step (reTok c P') s')
        (step_sim R h (hterm s hI)) (hstep s hI hne)

/-! ## the export -/

/-- rename the attribute of a TERM record -/
def rlRec (f : Int → Int) : NodeRec → NodeRec
  | .term cd a => .term cd (f a)
  | r => r

def exLift (f : Int → Int) (ex : ExSt) : ExSt := { ex with out := ex.out.map (rlRec f) }

theorem altChain_rl (h : Array MNode) : ∀ (fuel : Nat) (o : Option Nat),
    altChain (rlH f h) fuel o = altChain h fuel o
  | 0, _ => rfl
  | fuel + 1, none => rfl
  | fuel + 1, some n => by
    unfold altChain
    rw [rlH_getD]
    cases h.getD n .nil <;> simp only [rlN]
    rw [altChain_rl h fuel]

theorem cellKids_rl (h : Array MNode) (n : Nat) : cellKids (rlH f h) n = cellKids h n := by
  unfold cellKids
  rw [rlH_getD]
  cases hc : h.getD n .nil <;> simp only [rlN]
  rw [rlH_size, altChain_rl]

theorem cellRec_rl (h : Array MNode) (n : Nat) (ids : List Nat) :
    cellRec (rlH f h) n ids = rlRec f (cellRec h n ids) := by
  unfold cellRec
  rw [rlH_getD]
  cases h.getD n .nil <;> rfl

theorem exportKids_rl (F G : ExSt → Nat → ExSt × Nat)
    (hFG : ∀ ex k, F (exLift f ex) k = (exLift f (G ex k).1, (G ex k).2)) :
    ∀ (ks : List Nat) (ex : ExSt) (acc : List Nat),
      exportKids F ks (exLift f ex) acc = (exLift f (exportKids G ks ex acc).1, (exportKids G ks ex acc).2)
  | [], _, _ => rfl
  | k :: ks, ex, acc => by
    unfold exportKids
    simp only [hFG]
    exact exportKids_rl F G hFG ks _ _

theorem exportKids_rl' (F G : ExSt → Nat → ExSt × Nat)
    (hFG : ∀ ex k, F (exLift f ex) k = (exLift f (G ex k).1, (G ex k).2))
    (ks : List Nat) (ex ex' : ExSt) (acc : List Nat) (he : ex' = exLift f ex) :
    exportKids F ks ex' acc = (exLift f (exportKids G ks ex acc).1, (exportKids G ks ex acc).2) := by
  subst he; exact exportKids_rl F G hFG ks ex acc

theorem exportNode_rl (h : Array MNode) : ∀ (fuel : Nat) (ex : ExSt) (n : Nat),
    exportNode (rlH f h) fuel (exLift f ex) n =
      (exLift f (exportNode h fuel ex n).1, (exportNode h fuel ex n).2)
  | 0, _, _ => rfl
  | fuel + 1, ex, n => by
    unfold exportNode
    have h1 : (exLift f ex).ids = ex.ids := rfl
    have h2 : (exLift f ex).visiting = ex.visiting := rfl
    rw [h1, h2]
    cases ex.ids.getD n none with
    | some id => rfl
    | none =>
      simp only
      split
      · rfl
      · rw [cellKids_rl, exportKids_rl' (f := f) (G := exportNode h fuel) (hFG := exportNode_rl h fuel)
          (ex := { ex with visiting := ex.visiting.set! n true })]
        · simp only [exLift, cellRec_rl, Array.size_map, Array.map_push]
        · rfl

theorem exportTable_rl (h : Array MNode) (r : Nat) :
    exportTable (rlH f h) r = (exportTable h r).map fun p => (p.1.map (rlRec f), p.2) := by
  unfold exportTable
  rw [rlH_size]
  have h0 : ({ ids := Array.replicate h.size none, visiting := Array.replicate h.size false } : ExSt) =
      exLift f { ids := Array.replicate h.size none, visiting := Array.replicate h.size false } := by
    simp [exLift]
  have key := exportNode_rl (f := f) h (h.size + 1)
    { ids := Array.replicate h.size none, visiting := Array.replicate h.size false } r
  rw [← h0] at key
  rw [key]
  simp only
  split <;> rename_i hc
  · have : (exLift f (exportNode h (h.size + 1)
        { ids := Array.replicate h.size none, visiting := Array.replicate h.size false } r).1).cycle =
        (exportNode h (h.size + 1)
        { ids := Array.replicate h.size none, visiting := Array.replicate h.size false } r).1.cycle := rfl
    rw [this] at hc
    rw [if_pos hc]; rfl
  · have : (exLift f (exportNode h (h.size + 1)
        { ids := Array.replicate h.size none, visiting := Array.replicate h.size false } r).1).cycle =
        (exportNode h (h.size + 1)
        { ids := Array.replicate h.size none, visiting := Array.replicate h.size false } r).1.cycle := rfl
    rw [this] at hc
    rw [if_neg hc]; rfl


/-! ## the denoted trees -/

theorem mapAttrList_eq (f : Int → Int) : ∀ (l : List Tree), Tree.mapAttrList f l = l.map (Tree.mapAttr f)
  | [] => rfl
  | t :: ts => by rw [Tree.mapAttrList, mapAttrList_eq f ts]; rfl

theorem prodAll_map {α β : Type} (g : α → β) : ∀ (l : List (List α)),
    prodAll (l.map (List.map g)) = (prodAll l).map (List.map g)
  | [] => rfl
  | xs :: rest => by
    simp only [List.map_cons, prodAll, prodAll_map g rest, List.flatMap_map, List.map_flatMap,
      List.map_map]
    rfl

theorem denoteRec_rl (vals : Array (List Tree)) (r : NodeRec) :
    denoteRec (vals.map (List.map (Tree.mapAttr f))) (rlRec f r) =
      (denoteRec vals r).map (Tree.mapAttr f) := by
  have hg : ∀ k, (vals.map (List.map (Tree.mapAttr f))).getD k [] =
      (vals.getD k []).map (Tree.mapAttr f) := by
    intro k
    rw [Array.getD_eq_getD_getElem?, Array.getD_eq_getD_getElem?, Array.getElem?_map]
    cases vals[k]? <;> rfl
  cases r with
  | nil => rfl
  | err => rfl
  | term c a => rfl
  | bad => rfl
  | anode n c ks =>
    simp only [rlRec, denoteRec, hg]
    have : (ks.map fun k => (vals.getD k []).map (Tree.mapAttr f)) =
        (ks.map fun k => vals.getD k []).map (List.map (Tree.mapAttr f)) := by
      rw [List.map_map]; rfl
    rw [this, prodAll_map, List.map_map, List.map_map]
    apply List.map_congr_left
    intro l _
    simp only [Function.comp, Tree.mapAttr, mapAttrList_eq]
  | alt as =>
    simp only [rlRec, denoteRec, hg, List.map_flatMap]

theorem denoteTab_rl (tab : Array NodeRec) :
    denoteTab (tab.map (rlRec f)) = (denoteTab tab).map (List.map (Tree.mapAttr f)) := by
  unfold denoteTab
  rw [← Array.foldl_toList, ← Array.foldl_toList, Array.toList_map]
  have key : ∀ (l : List NodeRec) (vals : Array (List Tree)),
      (l.map (rlRec f)).foldl (fun vals r => vals.push (denoteRec vals r))
          (vals.map (List.map (Tree.mapAttr f))) =
        (l.foldl (fun vals r => vals.push (denoteRec vals r)) vals).map (List.map (Tree.mapAttr f)) := by
    intro l
    induction l with
    | nil => intro vals; rfl
    | cons r l ih =>
      intro vals
      simp only [List.map_cons, List.foldl_cons]
      rw [denoteRec_rl, ← Array.map_push]
      exact ih _
  have := key tab.toList #[]
  simpa using this

theorem denoteTab_rl_getD (tab : Array NodeRec) (root : Nat) :
    (denoteTab (tab.map (rlRec f))).getD root [] =
      ((denoteTab tab).getD root []).map (Tree.mapAttr f) := by
  rw [denoteTab_rl, Array.getD_eq_getD_getElem?, Array.getD_eq_getD_getElem?, Array.getElem?_map]
  cases (denoteTab tab)[root]? <;> rfl

theorem hasAlt_rl (tab : Array NodeRec) : hasAlt (tab.map (rlRec f)) = hasAlt tab := by
  unfold hasAlt
  rw [Array.toList_map, List.any_map]
  congr 1
  funext r
  cases r <;> rfl

end Yaep.RP
