import Yaep.Spec.FreeTree
import Yaep.Lemmas.Forest
/-!
# Helper lemmas for C13 (`yaep_free_tree`)
-/
namespace Yaep

/-- the node an event belongs to, or the name it releases -/
def FEv.key : FEv → Nat ⊕ String
  | .free (.node k) => .inl k
  | .free (.cell k _) => .inl k
  | .termcb k => .inl k
  | .free (.name s) => .inr s

/-- the events of a single table entry (without the name) -/
def nodeEvents (tab : Array NodeRec) (k : Nat) : List FEv :=
  match tab.getD k .bad with
  | .term _ _ => [.termcb k, .free (.node k)]
  | .alt as => (List.range' 0 as.length).map fun p => .free (.cell k p)
  | _ => [.free (.node k)]

theorem nodeEvents_key {tab : Array NodeRec} {k : Nat} {e : FEv} (h : e ∈ nodeEvents tab k) :
    e.key = .inl k := by
  unfold nodeEvents at h
  split at h
  · simp at h; rcases h with rfl | rfl <;> rfl
  · simp at h; obtain ⟨p, _, rfl⟩ := h; rfl
  · simp at h; subst h; rfl

theorem nodeEvents_nodup (tab : Array NodeRec) (k : Nat) : (nodeEvents tab k).Nodup := by
  unfold nodeEvents
  split
  · simp
  · refine nodup_map_inj' (List.nodup_range' ..) ?_
    intro a b h; simpa using h
  · simp
where
  nodup_map_inj' {α β : Type} {l : List α} {f : α → β} (hl : l.Nodup)
      (hinj : ∀ a b, f a = f b → a = b) : (l.map f).Nodup := by
    unfold List.Nodup
    rw [List.pairwise_map]
    exact hl.imp (fun hab h => hab (hinj _ _ h))

/-- `F` is an exactly-once log of the transition `st → st'`: it consists of the events of
the newly visited nodes and the frees of the newly seen names, each once -/
structure Log (tab : Array NodeRec) (st st' : FState) (F : List FEv) : Prop where
  monoV : st.visited ⊆ st'.visited
  monoS : st.seen ⊆ st'.seen
  nodup : F.Nodup
  ownV : ∀ e ∈ F, ∀ k, e.key = .inl k →
    k ∈ st'.visited ∧ k ∉ st.visited ∧ e ∈ nodeEvents tab k
  ownS : ∀ e ∈ F, ∀ s, e.key = .inr s → s ∈ st'.seen ∧ s ∉ st.seen
  allV : ∀ k ∈ st'.visited, k ∉ st.visited → ∀ e ∈ nodeEvents tab k, e ∈ F
  allS : ∀ s ∈ st'.seen, s ∉ st.seen → FEv.free (.name s) ∈ F
  seenIff : ∀ s, s ∈ st'.seen ↔ s ∈ st.seen ∨ (∃ k, k ∈ st'.visited ∧
    k ∉ st.visited ∧ ∃ c ks, tab.getD k .bad = .anode s c ks)

theorem Log.refl (tab : Array NodeRec) (st : FState) : Log tab st st [] where
  monoV := fun _ h => h
  monoS := fun _ h => h
  nodup := List.nodup_nil
  ownV := by simp
  ownS := by simp
  allV := fun k hk hn => absurd hk hn
  allS := fun s hs hn => absurd hs hn
  seenIff := fun s => ⟨Or.inl, fun h => h.elim id fun ⟨k, hk, hn, _⟩ => absurd hk hn⟩

theorem key_cases (e : FEv) : (∃ k, e.key = .inl k) ∨ (∃ s, e.key = .inr s ∧ e = .free (.name s)) := by
  cases e with
  | termcb k => exact .inl ⟨k, rfl⟩
  | free b =>
    cases b with
    | node k => exact .inl ⟨k, rfl⟩
    | cell k p => exact .inl ⟨k, rfl⟩
    | name s => exact .inr ⟨s, rfl, rfl⟩

theorem Log.trans {tab : Array NodeRec} {st st1 st2 : FState} {F1 F2 : List FEv}
    (h1 : Log tab st st1 F1) (h2 : Log tab st1 st2 F2) : Log tab st st2 (F1 ++ F2) where
  monoV := fun _ h => h2.monoV (h1.monoV h)
  monoS := fun _ h => h2.monoS (h1.monoS h)
  nodup := by
    rw [List.nodup_append]
    refine ⟨h1.nodup, h2.nodup, ?_⟩
    intro a ha b hb hab
    subst hab
    rcases key_cases a with ⟨k, hk⟩ | ⟨s, hs, _⟩
    · exact (h2.ownV a hb k hk).2.1 (h1.ownV a ha k hk).1
    · exact (h2.ownS a hb s hs).2 (h1.ownS a ha s hs).1
  ownV := by
    intro e he k hk
    rcases List.mem_append.1 he with he | he
    · obtain ⟨a, b, c⟩ := h1.ownV e he k hk
      exact ⟨h2.monoV a, b, c⟩
    · obtain ⟨a, b, c⟩ := h2.ownV e he k hk
      exact ⟨a, fun h => b (h1.monoV h), c⟩
  ownS := by
    intro e he s hs
    rcases List.mem_append.1 he with he | he
    · obtain ⟨a, b⟩ := h1.ownS e he s hs
      exact ⟨h2.monoS a, b⟩
    · obtain ⟨a, b⟩ := h2.ownS e he s hs
      exact ⟨a, fun h => b (h1.monoS h)⟩
  allV := by
    intro k hk hn e he
    by_cases h : k ∈ st1.visited
    · exact List.mem_append_left _ (h1.allV k h hn e he)
    · exact List.mem_append_right _ (h2.allV k hk h e he)
  allS := by
    intro s hs hn
    by_cases h : s ∈ st1.seen
    · exact List.mem_append_left _ (h1.allS s h hn)
    · exact List.mem_append_right _ (h2.allS s hs h)
  seenIff := by
    intro s
    rw [h2.seenIff, h1.seenIff]
    constructor
    · rintro ((h | ⟨k, hk, hn, hc⟩) | ⟨k, hk, hn, hc⟩)
      · exact .inl h
      · exact .inr ⟨k, h2.monoV hk, hn, hc⟩
      · exact .inr ⟨k, hk, fun h => hn (h1.monoV h), hc⟩
    · rintro (h | ⟨k, hk, hn, hc⟩)
      · exact .inl (.inl h)
      · by_cases h : k ∈ st1.visited
        · exact .inl (.inr ⟨k, h, hn, hc⟩)
        · exact .inr ⟨k, hk, h, hc⟩

theorem Log.perm {tab : Array NodeRec} {st st' : FState} {F F' : List FEv}
    (h : Log tab st st' F) (hp : F.Perm F') : Log tab st st' F' where
  monoV := h.monoV
  monoS := h.monoS
  nodup := hp.nodup_iff.1 h.nodup
  ownV := fun e he => h.ownV e (hp.mem_iff.2 he)
  ownS := fun e he => h.ownS e (hp.mem_iff.2 he)
  allV := fun k hk hn e he => hp.mem_iff.1 (h.allV k hk hn e he)
  allS := fun s hs hn => hp.mem_iff.1 (h.allS s hs hn)
  seenIff := h.seenIff

/-! ## one node -/

/-- does the abstract node keep (and later free) its name? -/
def ownsName (st : FState) (n : String) : Bool := !st.seen.contains n

def stepState (tab : Array NodeRec) (st : FState) (i : Nat) : FState :=
  match tab.getD i .bad with
  | .anode n _ _ =>
    if ownsName st n then { visited := i :: st.visited, seen := n :: st.seen }
    else { st with visited := i :: st.visited }
  | _ => { st with visited := i :: st.visited }

def stepEvents (tab : Array NodeRec) (st : FState) (i : Nat) : List FEv :=
  (match tab.getD i .bad with
    | .anode n _ _ => if ownsName st n then [FEv.free (.name n)] else []
    | _ => []) ++ nodeEvents tab i

theorem stepState_visited (tab : Array NodeRec) (st : FState) (i : Nat) :
    (stepState tab st i).visited = i :: st.visited := by
  unfold stepState
  split
  · split <;> rfl
  · rfl

theorem ownsName_iff {st : FState} {n : String} :
    ownsName st n = true ↔ n ∉ st.seen := by
  simp [ownsName]

theorem log_step {tab : Array NodeRec} {st : FState} {i : Nat} (hi : i ∉ st.visited) :
    Log tab st (stepState tab st i) (stepEvents tab st i) := by
  have hne := nodeEvents_nodup tab i
  have hkey : ∀ e ∈ nodeEvents tab i, e.key = .inl i := fun e he => nodeEvents_key he
  -- the generic part, given what happens to the name
  have main : ∀ (st' : FState) (N : List FEv), st'.visited = i :: st.visited →
      st.seen ⊆ st'.seen →
      (∀ e ∈ N, ∃ s, e = FEv.free (.name s) ∧ s ∈ st'.seen ∧ s ∉ st.seen) → N.Nodup →
      (∀ s ∈ st'.seen, s ∉ st.seen → FEv.free (.name s) ∈ N) →
      (∀ s, s ∈ st'.seen ↔ s ∈ st.seen ∨ (∃ c ks, tab.getD i .bad = .anode s c ks)) →
      Log tab st st' (N ++ nodeEvents tab i) := by
    intro st' N hv hS hN hNd hall hseen
    refine ⟨by rw [hv]; exact fun _ h => List.mem_cons_of_mem _ h, hS, ?_, ?_, ?_, ?_, ?_, ?_⟩
    · rw [List.nodup_append]
      refine ⟨hNd, hne, ?_⟩
      intro a ha b hb hab
      subst hab
      obtain ⟨s, rfl, _⟩ := hN a ha
      have := hkey _ hb
      simp [FEv.key] at this
    · intro e he k hk
      rcases List.mem_append.1 he with he | he
      · obtain ⟨s, rfl, _⟩ := hN e he
        simp [FEv.key] at hk
      · have := hkey e he
        rw [this] at hk
        cases hk
        exact ⟨by rw [hv]; simp, hi, he⟩
    · intro e he s hs
      rcases List.mem_append.1 he with he | he
      · obtain ⟨s', rfl, h1, h2⟩ := hN e he
        simp [FEv.key] at hs; subst hs
        exact ⟨h1, h2⟩
      · have := hkey e he
        rw [this] at hs
        cases hs
    · intro k hk hn e he
      rw [hv] at hk
      rcases List.mem_cons.1 hk with rfl | hk
      · exact List.mem_append_right _ he
      · exact absurd hk hn
    · intro s hs hn
      exact List.mem_append_left _ (hall s hs hn)
    · intro s
      rw [hseen]
      constructor
      · rintro (h | h2)
        · exact .inl h
        · exact .inr ⟨i, by rw [hv]; simp, hi, h2⟩
      · rintro (h | ⟨k, hk, hn, h2⟩)
        · exact .inl h
        · rw [hv] at hk
          rcases List.mem_cons.1 hk with rfl | hk
          · exact .inr h2
          · exact absurd hk hn
  unfold stepState stepEvents
  split
  · rename_i n c ks hrec
    by_cases hown : ownsName st n = true
    · have hn2 := ownsName_iff.1 hown
      simp only [hown, if_true]
      apply main
      · rfl
      · exact fun _ h => List.mem_cons_of_mem _ h
      · intro e he
        simp at he; subst he
        exact ⟨n, rfl, by simp, hn2⟩
      · simp
      · intro s hs hns
        simp at hs
        rcases hs with rfl | hs
        · simp
        · exact absurd hs hns
      · intro s
        simp only [List.mem_cons]
        constructor
        · rintro (rfl | h)
          · exact .inr ⟨c, ks, hrec⟩
          · exact .inl h
        · rintro (h | ⟨c', ks', h2⟩)
          · exact .inr h
          · rw [hrec] at h2; cases h2; exact .inl rfl
    · simp only [hown]
      have hown' : ¬ (n ∉ st.seen) := fun h => hown (ownsName_iff.2 h)
      apply main
      · rfl
      · exact fun _ h => h
      · simp
      · simp
      · intro s hs hns; exact absurd hs hns
      · intro s
        constructor
        · exact .inl
        · rintro (h | ⟨c', ks', h2⟩)
          · exact h
          · have e : n = s := by rw [hrec] at h2; injection h2
            rw [← e]
            by_cases hs : n ∈ st.seen
            · exact hs
            · exact absurd hs hown'
  · rename_i hrec
    have hnot : ∀ s c ks, tab.getD i .bad ≠ .anode s c ks := fun s c ks h => hrec s c ks h
    apply main
    · rfl
    · exact fun _ h => h
    · simp
    · simp
    · intro s hs hns; exact absurd hs hns
    · intro s
      constructor
      · exact .inl
      · rintro (h | ⟨c', ks', h2⟩)
        · exact h
        · exact absurd h2 (hnot s c' ks')


/-! ## the two passes -/

theorem sweepKids_filter (ts : List RTree) :
    sweepKids (ts.filter fun t => !t.isNull) = sweepKids ts := by
  induction ts with
  | nil => rfl
  | cons t ts ih =>
    cases t with
    | null =>
      rw [List.filter_cons_of_neg (by simp [RTree.isNull])]
      simpa [sweepKids, sweep] using ih
    | leaf a b =>
      rw [List.filter_cons_of_pos (by simp [RTree.isNull])]; simp only [sweepKids, ih]
    | anode a b c =>
      rw [List.filter_cons_of_pos (by simp [RTree.isNull])]; simp only [sweepKids, ih]
    | alt a b =>
      rw [List.filter_cons_of_pos (by simp [RTree.isNull])]; simp only [sweepKids, ih]

theorem sweepCells_perm (i : Nat) (ts : List RTree) (p : Nat) :
    (sweepCells i ts p).Perm
      (((List.range' p ts.length).map fun q => FEv.free (.cell i q)) ++ sweepKids ts) := by
  induction ts generalizing p with
  | nil => simp [sweepCells, sweepKids]
  | cons t ts ih =>
    simp only [sweepCells, sweepKids, List.length_cons, List.range'_succ, List.map_cons,
      List.cons_append, List.append_assoc]
    refine (List.perm_middle).trans (List.Perm.cons _ ?_)
    refine ((ih (p + 1)).append_left (sweep t)).trans ?_
    rw [← List.append_assoc, ← List.append_assoc]
    exact List.Perm.append_right _ List.perm_append_comm

theorem reduceKids_length (rec : FState → Nat → FState × RTree) (st : FState) (cs : List Nat) :
    (reduceKids rec st cs).2.length = cs.length := by
  induction cs generalizing st with
  | nil => rfl
  | cons c cs ih =>
    simp only [reduceKids]
    split
    · simp [ih]
    · simp [ih]

theorem reduce_succ_state (tab : Array NodeRec) (fuel : Nat) (st : FState) (i : Nat) :
    (reduce tab (fuel + 1) st i).1 =
      (reduceKids (reduce tab fuel) (stepState tab st i) (kidsOf tab i)).1 := by
  cases h : tab.getD i .bad <;>
    simp [reduce, h, stepState, kidsOf, NodeRec.children, reduceKids, ownsName]

theorem reduce_succ_sweep (tab : Array NodeRec) (fuel : Nat) (st : FState) (i : Nat) :
    (sweep (reduce tab (fuel + 1) st i).2).Perm
      (stepEvents tab st i ++
        sweepKids (reduceKids (reduce tab fuel) (stepState tab st i) (kidsOf tab i)).2) := by
  cases h : tab.getD i .bad with
  | nil => simp [reduce, h, stepEvents, kidsOf, NodeRec.children, reduceKids, sweep, sweepKids, nodeEvents]
  | err => simp [reduce, h, stepEvents, kidsOf, NodeRec.children, reduceKids, sweep, sweepKids, nodeEvents]
  | bad => simp [reduce, h, stepEvents, kidsOf, NodeRec.children, reduceKids, sweep, sweepKids, nodeEvents]
  | term c a => simp [reduce, h, stepEvents, kidsOf, NodeRec.children, reduceKids, sweep, sweepKids, nodeEvents]
  | anode n c ks =>
    have hst : (if ownsName st n = true then
          ({ visited := i :: st.visited, seen := n :: st.seen } : FState)
        else { st with visited := i :: st.visited }) = stepState tab st i := by
      simp [stepState, h]
    simp only [reduce, h, stepEvents, kidsOf, NodeRec.children, nodeEvents]
    have hown : (!({ st with visited := i :: st.visited } : FState).seen.contains n) =
        ownsName st n := rfl
    rw [hown]
    have hst2 : (if ownsName st n = true then
          ({ ({ st with visited := i :: st.visited } : FState) with
              seen := n :: ({ st with visited := i :: st.visited } : FState).seen } : FState)
        else { st with visited := i :: st.visited }) = stepState tab st i := hst
    rw [hst2]
    simp only [sweep, sweepKids_filter]
    by_cases ho : ownsName st n = true
    · simp only [ho, if_true]
      simp only [List.cons_append, List.nil_append]
      exact List.Perm.cons _ List.perm_append_comm
    · simp only [ho]
      simp only [List.nil_append, Bool.false_eq_true, if_false]
      exact List.perm_append_comm
  | alt as =>
    have hst : ({ st with visited := i :: st.visited } : FState) = stepState tab st i := by
      simp [stepState, h]
    simp only [reduce, h, stepEvents, kidsOf, NodeRec.children, nodeEvents, hst, sweep,
      List.nil_append]
    have hl := reduceKids_length (reduce tab fuel) (stepState tab st i) as
    rw [← hl]
    exact sweepCells_perm i _ 0

theorem log_reduceKids {tab : Array NodeRec} {rec : FState → Nat → FState × RTree}
    (cs : List Nat)
    (hrec : ∀ st c, c ∈ cs → c ∉ st.visited → Log tab st (rec st c).1 (sweep (rec st c).2)) :
    ∀ st, Log tab st (reduceKids rec st cs).1 (sweepKids (reduceKids rec st cs).2) := by
  induction cs with
  | nil => intro st; simpa [reduceKids, sweepKids] using Log.refl tab st
  | cons c cs ih =>
    intro st
    have ih' := ih (fun st c' hc' => hrec st c' (List.mem_cons_of_mem _ hc'))
    simp only [reduceKids]
    split
    · simpa [sweepKids, sweep] using ih' st
    · rename_i hc
      simp only [sweepKids]
      exact (hrec st c (by simp) hc).trans (ih' _)

theorem kidsOf_lt {tab : Array NodeRec} (hwf : tableWF tab = true) {i c : Nat}
    (hc : c ∈ kidsOf tab i) : c < i := by
  by_cases hi : i < tab.size
  · exact tableWF_children hwf hi c hc
  · have : tab.getD i .bad = .bad := by
      simp [Array.getD_eq_getD_getElem?, Array.getElem?_eq_none (Nat.le_of_not_lt hi)]
    simp [kidsOf, this, NodeRec.children] at hc

theorem log_reduce {tab : Array NodeRec} (hwf : tableWF tab = true) :
    ∀ (fuel : Nat) (st : FState) (i : Nat), i < fuel → i ∉ st.visited →
      Log tab st (reduce tab fuel st i).1 (sweep (reduce tab fuel st i).2) := by
  intro fuel
  induction fuel with
  | zero => intro st i hi; omega
  | succ fuel ih =>
    intro st i hi hv
    rw [reduce_succ_state]
    refine Log.perm ?_ (reduce_succ_sweep tab fuel st i).symm
    refine (log_step hv).trans (log_reduceKids _ ?_ _)
    intro st' c hc hcv
    exact ih st' c (by have := kidsOf_lt hwf hc; omega) hcv


/-! ## what the first pass visits -/

/-- the visited nodes with index below `n` have all their references visited -/
def ClosedBelow (tab : Array NodeRec) (V : List Nat) (n : Nat) : Prop :=
  ∀ k ∈ V, k < n → ∀ c ∈ kidsOf tab k, c ∈ V

theorem Reach.tail {tab : Array NodeRec} {i k c : Nat} (h : Reach tab i k)
    (hc : c ∈ kidsOf tab k) : Reach tab i c := by
  induction h with
  | refl i => exact .step hc (.refl c)
  | step h _ ih => exact .step h (ih hc)

theorem Reach.le {tab : Array NodeRec} (hwf : tableWF tab = true) {i k : Nat}
    (h : Reach tab i k) : k ≤ i := by
  induction h with
  | refl i => exact Nat.le_refl _
  | step h _ ih => have := kidsOf_lt hwf h; omega

theorem reach_iff_kid {tab : Array NodeRec} {i k : Nat} :
    Reach tab i k ↔ k = i ∨ ∃ c ∈ kidsOf tab i, Reach tab c k := by
  constructor
  · intro h
    cases h with
    | refl => exact .inl rfl
    | step hc hr => exact .inr ⟨_, hc, hr⟩
  · rintro (rfl | ⟨c, hc, hr⟩)
    · exact .refl _
    · exact .step hc hr

theorem reach_mem_of_closed {tab : Array NodeRec} (hwf : tableWF tab = true) {V : List Nat}
    {n : Nat} (hcl : ClosedBelow tab V n) {k d : Nat} (h : Reach tab k d) :
    k ∈ V → k < n → d ∈ V := by
  induction h with
  | refl i => exact fun h _ => h
  | step hc _ ih =>
    intro hk hn
    exact ih (hcl _ hk hn _ hc) (by have := kidsOf_lt hwf hc; omega)

theorem ClosedBelow.mono {tab : Array NodeRec} {V : List Nat} {n m : Nat}
    (h : ClosedBelow tab V n) (hm : m ≤ n) : ClosedBelow tab V m :=
  fun k hk hkm => h k hk (by omega)

theorem visited_reduceKids {tab : Array NodeRec} (hwf : tableWF tab = true)
    {rec : FState → Nat → FState × RTree} (i : Nat) (cs : List Nat) (hcs : ∀ c ∈ cs, c < i)
    (hrec : ∀ st c, c ∈ cs → ClosedBelow tab st.visited c →
      ∀ k, k ∈ (rec st c).1.visited ↔ k ∈ st.visited ∨ Reach tab c k) :
    ∀ st, ClosedBelow tab st.visited i →
      ∀ k, k ∈ (reduceKids rec st cs).1.visited ↔ k ∈ st.visited ∨ ∃ c ∈ cs, Reach tab c k := by
  induction cs with
  | nil => intro st _ k; simp [reduceKids]
  | cons c cs ih =>
    intro st hcl k
    have ih' := ih (fun c' hc' => hcs c' (List.mem_cons_of_mem _ hc'))
      (fun st c' hc' => hrec st c' (List.mem_cons_of_mem _ hc'))
    have hci : c < i := hcs c (by simp)
    simp only [reduceKids]
    split
    · rename_i hc
      simp only [ih' st hcl k, List.mem_cons, exists_eq_or_imp]
      constructor
      · rintro (h | h)
        · exact .inl h
        · exact .inr (.inr h)
      · rintro (h | h | h)
        · exact .inl h
        · exact .inl (reach_mem_of_closed hwf hcl h hc hci)
        · exact .inr h
    · have h1 := hrec st c (by simp) (hcl.mono (Nat.le_of_lt hci))
      have hcl1 : ClosedBelow tab (rec st c).1.visited i := by
        intro k' hk' hlt c' hc'
        rcases (h1 k').1 hk' with hv | hr
        · exact (h1 c').2 (.inl (hcl k' hv hlt c' hc'))
        · exact (h1 c').2 (.inr (hr.tail hc'))
      simp only [ih' _ hcl1 k, h1 k, List.mem_cons, exists_eq_or_imp]
      constructor
      · rintro ((h | h) | h)
        · exact .inl h
        · exact .inr (.inl h)
        · exact .inr (.inr h)
      · rintro (h | h | h)
        · exact .inl (.inl h)
        · exact .inl (.inr h)
        · exact .inr h

theorem visited_reduce {tab : Array NodeRec} (hwf : tableWF tab = true) :
    ∀ (fuel : Nat) (st : FState) (i : Nat), i < fuel → ClosedBelow tab st.visited i →
      ∀ k, k ∈ (reduce tab fuel st i).1.visited ↔ k ∈ st.visited ∨ Reach tab i k := by
  intro fuel
  induction fuel with
  | zero => intro st i hi; omega
  | succ fuel ih =>
    intro st i hi hcl k
    rw [reduce_succ_state]
    have hcl1 : ClosedBelow tab (stepState tab st i).visited i := by
      rw [stepState_visited]
      intro k' hk' hlt c' hc'
      rcases List.mem_cons.1 hk' with rfl | hk'
      · omega
      · exact List.mem_cons_of_mem _ (hcl k' hk' hlt c' hc')
    rw [visited_reduceKids hwf i (kidsOf tab i) (fun c hc => kidsOf_lt hwf hc)
      (fun st' c hc hcl' => ih st' c (by have := kidsOf_lt hwf hc; omega) hcl') _ hcl1 k,
      stepState_visited, reach_iff_kid (i := i)]
    simp only [List.mem_cons]
    constructor
    · rintro ((h | h) | h)
      · exact .inr (.inl h)
      · exact .inl h
      · exact .inr (.inr h)
    · rintro (h | h | h)
      · exact .inl (.inr h)
      · exact .inl (.inl h)
      · exact .inr h

/-! ## the log of `freeTree` -/

theorem freeTree_log {tab : Array NodeRec} (hwf : tableWF tab = true) {root : Nat}
    (hr : root < tab.size) :
    ∃ st' : FState, Log tab {} st' (freeTree tab root) ∧ ∀ k, k ∈ st'.visited ↔ Reach tab root k := by
  refine ⟨(reduce tab (root + 1) {} root).1, ?_, ?_⟩
  · simp only [freeTree, hr, if_true]
    exact log_reduce hwf _ _ _ (Nat.lt_succ_self _) (by simp)
  · intro k
    rw [visited_reduce hwf _ _ _ (Nat.lt_succ_self _) (by intro k hk; simp at hk)]
    simp

theorem nodup_filterMap_of {α β : Type} {l : List α} {f : α → Option β} (hl : l.Nodup)
    (hinj : ∀ a b c, f a = some c → f b = some c → a = b) : (l.filterMap f).Nodup := by
  induction l with
  | nil => simp
  | cons x l ih =>
    have hx := List.nodup_cons.1 hl
    simp only [List.filterMap_cons]
    split
    · exact ih hx.2
    · rename_i c hc
      refine List.nodup_cons.2 ⟨?_, ih hx.2⟩
      intro hmem
      obtain ⟨y, hy, hfy⟩ := List.mem_filterMap.1 hmem
      have := hinj x y c hc hfy
      subst this
      exact hx.1 hy

theorem mem_freedBlocks {evs : List FEv} {b : Block} : b ∈ freedBlocks evs ↔ FEv.free b ∈ evs := by
  simp only [freedBlocks, List.mem_filterMap]
  constructor
  · rintro ⟨e, he, h⟩
    cases e with
    | free b' => simp at h; subst h; exact he
    | termcb i => simp at h
  · intro h; exact ⟨_, h, rfl⟩

theorem mem_termCalls {evs : List FEv} {i : Nat} : i ∈ termCalls evs ↔ FEv.termcb i ∈ evs := by
  simp only [termCalls, List.mem_filterMap]
  constructor
  · rintro ⟨e, he, h⟩
    cases e with
    | free b' => simp at h
    | termcb i => simp at h; subst h; exact he
  · intro h; exact ⟨_, h, rfl⟩

theorem freedBlocks_nodup {evs : List FEv} (h : evs.Nodup) : (freedBlocks evs).Nodup := by
  apply nodup_filterMap_of h
  intro a b c ha hb
  cases a <;> cases b <;> simp at ha hb
  subst ha; subst hb; rfl

theorem termCalls_nodup {evs : List FEv} (h : evs.Nodup) : (termCalls evs).Nodup := by
  apply nodup_filterMap_of h
  intro a b c ha hb
  cases a <;> cases b <;> simp at ha hb
  subst ha; subst hb; rfl


/-! ## allocation traces -/

def bal (live : List Nat) (id : Nat) : Nat := if id ∈ live then 1 else 0

theorem traceStep_bal {live live' : List Nat} {e : Ev} (hnd : live.Nodup)
    (h : traceStep live e = some live') (id : Nat) :
    live'.Nodup ∧ bal live' id + [e].count (.free id) = bal live id + [e].count (.alloc id) := by
  cases e with
  | alloc a =>
    simp only [traceStep] at h
    split at h
    · cases h
    · rename_i ha
      cases h
      refine ⟨List.nodup_cons.2 ⟨ha, hnd⟩, ?_⟩
      by_cases hid : id = a
      · subst hid; simp [bal, ha]
      · have : ¬ a = id := fun h => hid h.symm
        simp [bal, List.mem_cons, hid, this]
  | free a =>
    simp only [traceStep] at h
    split at h
    · rename_i ha
      cases h
      refine ⟨hnd.sublist (List.erase_sublist), ?_⟩
      by_cases hid : id = a
      · subst hid; simp [bal, ha, hnd.mem_erase_iff]
      · have : ¬ a = id := fun h => hid h.symm
        simp [bal, hnd.mem_erase_iff, hid, this]
    · cases h

theorem count_cons_eq (x e : Ev) (p : List Ev) : (e :: p).count x = [e].count x + p.count x := by
  simp [List.count_cons]; omega

theorem traceRun_isSome_iff : ∀ (evs : List Ev) (live : List Nat), live.Nodup →
    ((traceRun live evs).isSome = true ↔
      ∀ (n id : Nat), Ev.frees id (evs.take n) ≤ bal live id + Ev.allocs id (evs.take n) ∧
        bal live id + Ev.allocs id (evs.take n) ≤ Ev.frees id (evs.take n) + 1) := by
  intro evs
  induction evs with
  | nil =>
    intro live _
    simp only [traceRun, Option.isSome_some, true_iff, List.take_nil, Ev.frees, Ev.allocs,
      List.count_nil]
    intro n id
    unfold bal; split <;> omega
  | cons e es ih =>
    intro live hnd
    simp only [traceRun]
    cases hstep : traceStep live e with
    | none =>
      simp only [Option.isSome_none, Bool.false_eq_true, false_iff]
      intro h
      cases e with
      | alloc a =>
        have ha : a ∈ live := by
          simp only [traceStep] at hstep
          split at hstep
          · assumption
          · cases hstep
        have := (h 1 a).2
        simp [Ev.frees, Ev.allocs, bal, ha] at this
      | free a =>
        have ha : a ∉ live := by
          simp only [traceStep] at hstep
          split at hstep
          · cases hstep
          · assumption
        have := (h 1 a).1
        simp [Ev.frees, Ev.allocs, bal, ha] at this
    | some live' =>
      have hb := fun id => traceStep_bal hnd hstep id
      simp only []
      rw [ih live' (hb 0).1]
      constructor
      · intro h n id
        cases n with
        | zero =>
          simp only [List.take_zero, Ev.frees, Ev.allocs, List.count_nil]
          unfold bal; split <;> omega
        | succ n =>
          have h1 := h n id
          have h2 := (hb id).2
          simp only [List.take_succ_cons, Ev.frees, Ev.allocs] at h1 ⊢
          rw [count_cons_eq (.free id), count_cons_eq (.alloc id)]
          omega
      · intro h n id
        have h1 := h (n + 1) id
        have h2 := (hb id).2
        simp only [List.take_succ_cons, Ev.frees, Ev.allocs] at h1 ⊢
        rw [count_cons_eq (.free id), count_cons_eq (.alloc id)] at h1
        omega

theorem traceOK_iff (evs : List Ev) : traceOK evs = true ↔ Disciplined evs := by
  unfold traceOK Disciplined
  rw [traceRun_isSome_iff evs [] List.nodup_nil]
  simp [bal]

theorem nodup_map_inj {α β : Type} {l : List α} {f : α → β} (hl : l.Nodup)
    (hinj : ∀ a b, f a = f b → a = b) : (l.map f).Nodup :=
  nodeEvents_nodup.nodup_map_inj' hl hinj

theorem nodup_map_inj_on {α β : Type} {l : List α} {f : α → β} (hl : l.Nodup)
    (hinj : ∀ a ∈ l, ∀ b ∈ l, f a = f b → a = b) : (l.map f).Nodup := by
  induction l with
  | nil => simp
  | cons x l ih =>
    have hx := List.nodup_cons.1 hl
    simp only [List.map_cons]
    refine List.nodup_cons.2 ⟨?_, ih hx.2 fun a ha b hb => hinj a (by simp [ha]) b (by simp [hb])⟩
    intro hmem
    obtain ⟨y, hy, hfy⟩ := List.mem_map.1 hmem
    have := hinj y (by simp [hy]) x (by simp) hfy
    subst this
    exact hx.1 hy

theorem nodup_reverse_of {α : Type} {l : List α} (hl : l.Nodup) : l.reverse.Nodup := by
  unfold List.Nodup
  rw [List.pairwise_reverse]
  exact hl.imp fun h => Ne.symm h

theorem traceRun_append (live : List Nat) (a b : List Ev) :
    traceRun live (a ++ b) = (traceRun live a).bind fun l => traceRun l b := by
  induction a generalizing live with
  | nil => simp [traceRun]
  | cons e es ih =>
    simp only [List.cons_append, traceRun]
    cases traceStep live e with
    | none => simp
    | some l => simp [ih]

theorem traceRun_allocs (A live : List Nat) (hA : A.Nodup) (hd : ∀ x ∈ A, x ∉ live) :
    traceRun live (A.map Ev.alloc) = some (A.reverse ++ live) := by
  induction A generalizing live with
  | nil => simp [traceRun]
  | cons a A ih =>
    have ha := List.nodup_cons.1 hA
    simp only [List.map_cons, traceRun, traceStep, hd a (by simp), if_false]
    rw [ih (a :: live) ha.2]
    · simp
    · intro x hx
      simp only [List.mem_cons, not_or]
      exact ⟨fun h => ha.1 (h ▸ hx), hd x (by simp [hx])⟩

theorem traceRun_frees (B live : List Nat) (hB : B.Nodup) (hl : live.Nodup)
    (hm : ∀ x, x ∈ B ↔ x ∈ live) : traceRun live (B.map Ev.free) = some [] := by
  induction B generalizing live with
  | nil =>
    simp only [List.map_nil, traceRun]
    cases live with
    | nil => rfl
    | cons x l => exact absurd ((hm x).2 (by simp)) (by simp)
  | cons b B ih =>
    have hb := List.nodup_cons.1 hB
    have hbl : b ∈ live := (hm b).1 (by simp)
    simp only [List.map_cons, traceRun, traceStep, hbl, if_true]
    apply ih _ hb.2 (hl.sublist List.erase_sublist)
    intro x
    rw [hl.mem_erase_iff, ← hm x]
    simp only [List.mem_cons]
    constructor
    · intro hx; exact ⟨fun h => hb.1 (h ▸ hx), .inr hx⟩
    · rintro ⟨hne, rfl | hx⟩
      · exact absurd rfl hne
      · exact hx

theorem noEmptyName_spec {tab : Array NodeRec} (h : noEmptyName tab = true) {k : Nat} {s : String}
    {c : Nat} {ks : List Nat} (hk : tab.getD k .bad = .anode s c ks) : s ≠ "" := by
  by_cases hlt : k < tab.size
  · have hmem : tab[k] ∈ tab.toList := by simp
    have : tab.getD k .bad = tab[k] := by simp [Array.getD_eq_getD_getElem?, hlt]
    rw [this] at hk
    simp only [noEmptyName, List.all_eq_true] at h
    have := h _ hmem
    rw [hk] at this
    simpa using this
  · have : tab.getD k .bad = .bad := by
      simp [Array.getD_eq_getD_getElem?, Array.getElem?_eq_none (Nat.le_of_not_lt hlt)]
    rw [this] at hk; cases hk

end Yaep
