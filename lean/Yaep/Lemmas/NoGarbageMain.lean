import Yaep.Lemmas.NoGarbageFree
import Yaep.Lemmas.NoGarbageCount
import Yaep.Props.HeapWf
/-!
# No garbage, part 9: composition — the blocks of a parse and what `yaep_free_tree` releases
-/
namespace Yaep.NG
open Yaep MP

/-- the abstract-node names of the grammar tell the rules apart (the condition under which the model
of `free_tree`, which keeps one name block per *name*, and the C code, which allocates one per
*rule*, count the same number of name blocks; the judge checks it the same way) -/
def DistinctNames (c : Ctx) : Prop :=
  ∀ r1 r2 nm, (c.rule r1).anode = some nm → (c.rule r2).anode = some nm → r1 = r2

/-- what `yaep_free_tree` does with the exported table `(tab, root)` of the final machine state `s`,
`cells` mapping table indices to cells -/
structure Released (c : Ctx) (s : St) (cells : List Nat) (tab : Array NodeRec) (root : Nat) : Prop where
  /-- no block is released twice -/
  nodup : (freedBlocks (freeTree tab root)).Nodup
  /-- the node blocks and ALT cells released are, through `cellOf`, exactly the cells of the tree
  memory that `make_parse` allocated and did not hand back, each once -/
  cellsPerm : List.Perm
    (((freedBlocks (freeTree tab root)).filter fun b => !isNameB b).map
      (cellOf (PC.ofHeap s.heap) cells)) (liveCells s)
  /-- a node block is a cell that is not an ALT cell, an ALT block is an ALT cell -/
  kinds : ∀ b ∈ freedBlocks (freeTree tab root),
    (∀ k, b = .node k → isAlt s.heap (cellOf (PC.ofHeap s.heap) cells b) = false) ∧
    (∀ k p, b = .cell k p → isAlt s.heap (cellOf (PC.ofHeap s.heap) cells b) = true)
  /-- the name blocks released are the names of the rules whose name block was allocated -/
  names : ∀ nm, Block.name nm ∈ freedBlocks (freeTree tab root) ↔
    ∃ rl, rl ∈ s.namedRules ∧ (c.rule rl).anode = some nm
  /-- the terminal callback: once per TERM cell -/
  termNodup : (termCalls (freeTree tab root)).Nodup
  term : ∀ k, k ∈ termCalls (freeTree tab root) ↔
    Block.node k ∈ freedBlocks (freeTree tab root) ∧
      ∃ cd a, s.heap.getD (cells.getD k 0) .nil = .term cd a
  /-- the requests of the parse: one per live cell, one per cell handed back, one per named rule -/
  reqs : (allocSeq s).length = (liveCells s).length + (handedBack s).length + s.namedRules.length
  /-- … so that, when the names tell the rules apart, every block requested is handed back during
  the parse or released by `yaep_free_tree`, and nothing else is -/
  count : DistinctNames c →
    (freedBlocks (freeTree tab root)).length + (handedBack s).length = (allocSeq s).length

theorem zip_partner {i : Nat} : ∀ (l1 l2 : List Nat), l1.length = l2.length → i ∈ l1 →
    ∃ b, (i, b) ∈ l1.zip l2
  | [], l2, _, hm => by cases hm
  | a :: l1, [], h, _ => by simp at h
  | a :: l1, b :: l2, h, hm => by
    simp only [List.length_cons, Nat.add_right_cancel_iff] at h
    rcases List.mem_cons.1 hm with e | e
    · exact ⟨b, by simp [e]⟩
    · obtain ⟨b', hb'⟩ := zip_partner l1 l2 h e
      exact ⟨b', by simp [hb']⟩

theorem NOK.named {c : Ctx} {h : Array MNode} {nr na : List Nat} (hn : NOK c h nr na) {rl : Nat}
    (hr : rl ∈ nr) : ∃ i nm cst ks, 3 ≤ i ∧ i < h.size ∧ h.getD i .nil = .anode nm cst ks ∧
      (c.rule rl).anode = some nm := by
  obtain ⟨i, hi⟩ := zip_partner nr na hn.len hr
  obtain ⟨a1, a2, nm, cst, ks, a3, a4⟩ := hn.pair (rl, i) hi
  exact ⟨i, nm, cst, ks, a1, a2, a3, a4⟩

/-- the cells reachable from the result cell (see `makeParse_no_garbage`) -/
theorem reach_iff_live {c : Ctx} {s : St} {r : Nat} {rk hd : Nat → Nat} (hi : NGInv c s)
    (hst : s.stack = []) (hres : s.result = some r) (wf : PC.WfHeap (PC.ofHeap s.heap) rk hd)
    (hr : r < (PC.ofHeap s.heap).size) (i : Nat) :
    PC.Reach (PC.ofHeap s.heap) r i ↔ i ∈ liveCells s := by
  rw [mem_liveCells]
  obtain ⟨h1, h2, h3⟩ := no_garbage_of_inv hi hst hres
  have hi' : Inv c s.heap s.states [] s.nilUsed s.errUsed s.namedRules s.nameAfter := by
    have := hi; unfold NGInv at this; rw [hst] at this; exact this
  constructor
  · intro hreach
    have hlt := (wf_reach wf hreach hr).1
    rw [size_ofHeap] at hlt
    refine ⟨hlt, ?_, ?_, ?_⟩
    · intro e; subst e
      exact root_not_reachable wf hi'.hok (allFull_of_inv hi') hres hreach
    · intro e; subst e
      cases hn : s.nilUsed with
      | true => rfl
      | false => exact absurd hreach (h2 hn)
    · intro e; subst e
      cases hn : s.errUsed with
      | true => rfl
      | false => exact absurd hreach (h3 hn)
  · rintro ⟨a1, a2, a3, a4⟩
    exact h1 i a1 a2 a3 a4

/-- **the blocks of a parse and what `yaep_free_tree` releases**, from the invariant of the run and
the well-formedness of the final heap -/
theorem released_of_inv {c : Ctx} {s : St} {r : Nat} {rk hd : Nat → Nat} (hi : NGInv c s)
    (hst : s.stack = []) (hres : s.result = some r) (wf : PC.WfHeap (PC.ofHeap s.heap) rk hd)
    (hr : r < (PC.ofHeap s.heap).size) (hdr : hd r = r) {tab : Array NodeRec} {root : Nat}
    (hx : exportTable s.heap r = some (tab, root)) :
    ∃ cells : List Nat, cells.length = tab.size ∧ cells.getD root 0 = r ∧
      (∀ id, id < tab.size → RepAt s.heap tab cells id) ∧ Released c s cells tab root := by
  have hx' : exportTable (PC.toHeap (PC.ofHeap s.heap)) r = some (tab, root) := by
    rw [toHeap_ofHeap]; exact hx
  obtain ⟨cells, b1, b2, b3, b4, b5, b6, b7, b8, b9, b10⟩ := export_free_bij wf hr hdr hx'
  have b3' : ∀ id, id < tab.size → RepAt s.heap tab cells id := by
    intro id hid
    have := (b3 id hid).1
    rw [toHeap_ofHeap] at this
    exact this
  have hi' : Inv c s.heap s.states [] s.nilUsed s.errUsed s.namedRules s.nameAfter := by
    have := hi; unfold NGInv at this; rw [hst] at this; exact this
  have hlive := reach_iff_live hi hst hres wf hr
  have hsz := hi'.hok.size
  have hperm : List.Perm
      (((freedBlocks (freeTree tab root)).filter fun b => !isNameB b).map
        (cellOf (PC.ofHeap s.heap) cells)) (liveCells s) := by
    apply (List.perm_ext_iff_of_nodup ?_ (liveCells_nodup s)).2
    · intro x
      rw [← hlive x, b6 x]
      simp only [List.mem_map, List.mem_filter, Bool.not_eq_true']
      constructor
      · rintro ⟨b, ⟨h1, h2⟩, h3⟩; exact ⟨b, h1, h2, h3⟩
      · rintro ⟨b, h1, h2, h3⟩; exact ⟨b, ⟨h1, h2⟩, h3⟩
    · apply nodup_map_inj_on (List.Nodup.sublist List.filter_sublist b4)
      intro a ha b hb he
      simp only [List.mem_filter, Bool.not_eq_true'] at ha hb
      exact b5 a ha.1 b hb.1 ha.2 hb.2 he
  have hnames : ∀ nm, Block.name nm ∈ freedBlocks (freeTree tab root) ↔
      ∃ rl, rl ∈ s.namedRules ∧ (c.rule rl).anode = some nm := by
    intro nm
    rw [b8 nm]
    constructor
    · rintro ⟨x, cst, ks, hx1, hx2⟩
      have hl := (hlive x).1 hx1
      rw [mem_liveCells] at hl
      rw [cellAt_ofHeap] at hx2
      cases hc : s.heap.getD x .nil with
      | anode nm' cst' ks' =>
        rw [hc] at hx2
        simp only [PC.ofMNode] at hx2
        injection hx2 with e1 _ e3
        subst e1
        have h3 : 3 ≤ x := by
          rcases (by omega : x = 0 ∨ x = 1 ∨ x = 2 ∨ 3 ≤ x) with e | e | e | e
          · subst e; have := hi'.hok.cnil; unfold nilId at this; rw [this] at hc; cases hc
          · subst e; have := hi'.hok.cerr; unfold errId at this; rw [this] at hc; cases hc
          · exact absurd e hl.2.1
          · exact e
        exact hi'.nok.cover x nm' cst' ks' h3 hc
      | nil => rw [hc] at hx2; cases hx2
      | err => rw [hc] at hx2; cases hx2
      | term _ _ => rw [hc] at hx2; cases hx2
      | alt _ _ => rw [hc] at hx2; cases hx2
    · rintro ⟨rl, hrl, hnm⟩
      obtain ⟨i, nm', cst, ks, a1, a2, a3, a4⟩ := hi'.nok.named hrl
      rw [hnm] at a4
      injection a4 with a4
      subst a4
      refine ⟨i, (cst : Int), ks, (hlive i).2 ?_, ?_⟩
      · rw [mem_liveCells]
        refine ⟨a2, by unfold rootId; omega, fun e => by unfold nilId at e; omega,
          fun e => by unfold errId at e; omega⟩
      · rw [cellAt_ofHeap, a3]; rfl
  have hreqs : (allocSeq s).length =
      (liveCells s).length + (handedBack s).length + s.namedRules.length := by
    rw [allocSeq_length hi'.nok hsz, liveCells_length hsz]
  refine ⟨cells, b1, b2, b3', b4, hperm, ?_, hnames, b9, ?_, hreqs, ?_⟩
  · intro b hb
    obtain ⟨k1, k2⟩ := b7 b hb
    refine ⟨fun k e => ?_, fun k p e => ?_⟩
    · rw [← isAlt_ofHeap]; exact k1 k e
    · rw [← isAlt_ofHeap]; exact k2 k p e
  · intro k
    rw [b10 k]
    constructor
    · rintro ⟨h1, cd, a, hc⟩
      refine ⟨h1, cd, a, ?_⟩
      rw [cellAt_ofHeap] at hc
      cases hq : s.heap.getD (cells.getD k 0) .nil <;> rw [hq] at hc <;> simp [PC.ofMNode] at hc
      obtain ⟨e1, e2⟩ := hc
      subst e1; subst e2; rfl
    · rintro ⟨h1, cd, a, hc⟩
      exact ⟨h1, cd, a, by rw [cellAt_ofHeap, hc]; rfl⟩
  · -- counting
    intro hdist
    rw [hreqs]
    have hsplit := List.length_eq_countP_add_countP (fun b => !isNameB b)
      (l := freedBlocks (freeTree tab root))
    rw [List.countP_eq_length_filter, List.countP_eq_length_filter] at hsplit
    have hl1 : ((freedBlocks (freeTree tab root)).filter fun b => !isNameB b).length =
        (liveCells s).length := by
      rw [← hperm.length_eq, List.length_map]
    have hl2 : ((freedBlocks (freeTree tab root)).filter fun b => decide ¬ (!isNameB b) = true).length =
        s.namedRules.length := by
      have hp : List.Perm
          ((freedBlocks (freeTree tab root)).filter fun b => decide ¬ (!isNameB b) = true)
          (s.namedRules.map fun rl => Block.name ((c.rule rl).anode.getD "")) := by
        apply (List.perm_ext_iff_of_nodup (List.Nodup.sublist List.filter_sublist b4) ?_).2
        · intro b
          simp only [List.mem_filter, List.mem_map, Bool.not_eq_true', decide_eq_true_eq,
            Bool.not_eq_false]
          constructor
          · rintro ⟨h1, h2⟩
            cases b with
            | name nm =>
              obtain ⟨rl, r1, r2⟩ := (hnames nm).1 h1
              exact ⟨rl, r1, by rw [r2]; rfl⟩
            | node k => simp [isNameB] at h2
            | cell k p => simp [isNameB] at h2
          · rintro ⟨rl, r1, r2⟩
            obtain ⟨i, nm, cst, ks, _, _, _, a4⟩ := hi'.nok.named r1
            rw [a4] at r2
            simp only [Option.getD_some] at r2
            subst r2
            exact ⟨(hnames nm).2 ⟨rl, r1, a4⟩, rfl⟩
        · apply nodup_map_inj_on hi'.nok.nrnd
          intro r1 h1 r2 h2 he
          obtain ⟨_, nm1, _, _, _, _, _, a4⟩ := hi'.nok.named h1
          obtain ⟨_, nm2, _, _, _, _, _, a4'⟩ := hi'.nok.named h2
          rw [a4, a4'] at he
          simp only [Option.getD_some, Block.name.injEq] at he
          subst he
          exact hdist r1 r2 nm1 a4 a4'
      rw [hp.length_eq, List.length_map]
    rw [hsplit, hl1, hl2]
    omega

/-! ## a decidable criterion for `DistinctNames` -/

theorem names_nodup_index : ∀ (l : List Rule), (l.filterMap (·.anode)).Nodup →
    ∀ (i j : Nat) (rl1 rl2 : Rule) (nm : String), l[i]? = some rl1 → l[j]? = some rl2 →
      rl1.anode = some nm → rl2.anode = some nm → i = j
  | [], _, i, j, rl1, rl2, nm, h1, _, _, _ => by simp at h1
  | x :: l, hnd, i, j, rl1, rl2, nm, h1, h2, a1, a2 => by
    have hmem : ∀ (k : Nat) (rl : Rule), l[k]? = some rl → rl.anode = some nm →
        nm ∈ l.filterMap (·.anode) := by
      intro k rl hk ha
      exact List.mem_filterMap.2 ⟨rl, List.mem_of_getElem? hk, ha⟩
    have htail : (l.filterMap (·.anode)).Nodup := by
      cases hx : x.anode with
      | none => simpa [List.filterMap_cons, hx] using hnd
      | some y =>
        have : (y :: l.filterMap (·.anode)).Nodup := by simpa [List.filterMap_cons, hx] using hnd
        exact (List.nodup_cons.1 this).2
    cases i with
    | zero =>
      cases j with
      | zero => rfl
      | succ j =>
        simp only [List.getElem?_cons_zero, Option.some.injEq] at h1
        simp only [List.getElem?_cons_succ] at h2
        subst h1
        have : (nm :: l.filterMap (·.anode)).Nodup := by simpa [List.filterMap_cons, a1] using hnd
        exact absurd (hmem j rl2 h2 a2) (List.nodup_cons.1 this).1
    | succ i =>
      cases j with
      | zero =>
        simp only [List.getElem?_cons_zero, Option.some.injEq] at h2
        simp only [List.getElem?_cons_succ] at h1
        subst h2
        have : (nm :: l.filterMap (·.anode)).Nodup := by simpa [List.filterMap_cons, a2] using hnd
        exact absurd (hmem i rl1 h1 a1) (List.nodup_cons.1 this).1
      | succ j =>
        simp only [List.getElem?_cons_succ] at h1 h2
        rw [names_nodup_index l htail i j rl1 rl2 nm h1 h2 a1 a2]

/-- the judge's condition (`names.eraseDups.length == names.length`, i.e. no name twice) gives
`DistinctNames` -/
theorem distinctNames_of_nodup {g : Grammar} (h : (g.rules.filterMap (·.anode)).Nodup)
    (sets : Array (Array Item)) (plToks : Array Int) (one : Bool) :
    DistinctNames (mkCtx g sets plToks one) := by
  intro r1 r2 nm h1 h2
  have hrule : ∀ r, (mkCtx g sets plToks one).rule r = (g.rules[r]?).getD default := by
    intro r
    unfold Ctx.rule mkCtx
    simp [Array.getD_eq_getD_getElem?]
  rw [hrule] at h1 h2
  cases e1 : g.rules[r1]? with
  | none => simp only [e1, Option.getD_none] at h1; cases h1
  | some rl1 =>
    cases e2 : g.rules[r2]? with
    | none => simp only [e2, Option.getD_none] at h2; cases h2
    | some rl2 =>
      simp only [e1, Option.getD_some] at h1
      simp only [e2, Option.getD_some] at h2
      exact names_nodup_index g.rules h r1 r2 rl1 rl2 nm e1 e2 h1 h2

end Yaep.NG
