import Yaep.Lemmas.BuildSet2Expand
import Yaep.Lemmas.BuildSetNew
/-!
# Helper lemmas for `Yaep/Model/BuildSet2.lean`, part 3: the start situations of
`build_new_set`, `set_insert` (level 2)

The same development as `Yaep/Lemmas/BuildSetNew.lean`, with situations that carry a context.
-/
namespace Yaep.BS2
open Yaep

/-! ## the loops of `build_new_set` as `addNew` -/

theorem addShifted_eq (ok : Nat → Nat → List Nat → Bool) (s : CSet2) (base : Nat) (ns : NewStart2)
    (ind : Nat) : addShifted ok s base ns ind = addNew ns (shiftSit ok s base ind).toList := by
  unfold addShifted
  cases shiftSit ok s base ind with
  | none => rfl
  | some p =>
    obtain ⟨sit, dist⟩ := p
    simp only [Option.toList, sitDistInsert, addStartSit, BS.addNew_singleton]
    by_cases h : (sit, dist) ∈ ns <;> simp [h]

theorem foldl_addShifted (ok : Nat → Nat → List Nat → Bool) (s : CSet2) (base : Nat) (tr : List Nat)
    (ns : NewStart2) :
    tr.foldl (addShifted ok s base) ns = addNew ns (tr.filterMap (shiftSit ok s base)) := by
  induction tr generalizing ns with
  | nil => rfl
  | cons a tr ih =>
    simp only [List.foldl_cons, ih, addShifted_eq]
    cases h : shiftSit ok s base a with
    | none => simp [h, addNew]
    | some p =>
      rw [List.filterMap_cons, h]
      show addNew (addNew ns [p]) _ = addNew ns ([p] ++ _)
      rw [BS.addNew_append]

theorem newSetLoop1_eq (ok : Nat → Nat → List Nat → Bool) (set : CSet2) (tr : List Nat) :
    newSetLoop1 ok set tr = addNew [] (tr.filterMap (shiftSit ok set 1)) :=
  foldl_addShifted ok set 1 tr []

/-- the pairs the body of the second loop tries to add at index `i` -/
def step2Pairs (g : Grammar) (an : Analysis) (ok : Nat → Nat → List Nat → Bool) (pl : List CSet2)
    (plCurr : Nat) (ns : NewStart2) (i : Nat) : List (Sit2 × Nat) :=
  if BS.emptyTailP g an (ns.getD i default).1.proj then
    let prev := pl.getD (plCurr + 1 - (ns.getD i default).2) default
    if prev.core.find (.n (lhsOf g (ns.getD i default).1)) then
      ((prev.core.transOf (.n (lhsOf g (ns.getD i default).1))).getD []).filterMap
        (shiftSit ok prev (ns.getD i default).2)
    else []
  else []

theorem newSetStep2_fst (g : Grammar) (an : Analysis) (ok : Nat → Nat → List Nat → Bool)
    (pl : List CSet2) (plCurr : Nat) (st : NewStart2 × Bool) (i : Nat) :
    (newSetStep2 g an ok pl plCurr st i).1 = addNew st.1 (step2Pairs g an ok pl plCurr st.1 i) := by
  unfold newSetStep2 step2Pairs
  dsimp only
  split
  · split
    · simp only [foldl_addShifted]
    · rfl
  · rfl

theorem step2Pairs_append (g : Grammar) (an : Analysis) (ok : Nat → Nat → List Nat → Bool)
    (pl : List CSet2) (plCurr : Nat) (ns e : NewStart2) {k : Nat} (hk : k < ns.length) :
    step2Pairs g an ok pl plCurr (ns ++ e) k = step2Pairs g an ok pl plCurr ns k := by
  unfold step2Pairs
  rw [BS.getD_append_left ns e default hk]

/-- invariant of the second loop of `build_new_set` at index `i` -/
structure NSInv (g : Grammar) (an : Analysis) (ok : Nat → Nat → List Nat → Bool) (pl : List CSet2)
    (plCurr : Nat) (P : Sit2 × Nat → Prop) (ns1 : NewStart2) (i : Nat) (ns : NewStart2) : Prop where
  nodup : ns.Nodup
  all : ∀ p ∈ ns, P p
  first : ns1 ⊆ ns
  closed : ∀ k, k < i → step2Pairs g an ok pl plCurr ns k ⊆ ns

section Loop2
variable {g : Grammar} {an : Analysis} {ok : Nat → Nat → List Nat → Bool} {pl : List CSet2}
  {plCurr : Nat} {P : Sit2 × Nat → Prop} {ns1 : NewStart2}

theorem NSInv_step
    (hP : ∀ ns i, (∀ p ∈ ns, P p) → i < ns.length →
      ∀ p ∈ step2Pairs g an ok pl plCurr ns i, P p)
    (i : Nat) (st : NewStart2 × Bool) (h : NSInv g an ok pl plCurr P ns1 i st.1)
    (hi : i < st.1.length) :
    NSInv g an ok pl plCurr P ns1 (i + 1) (newSetStep2 g an ok pl plCurr st i).1 ∧
      i + 1 ≤ (newSetStep2 g an ok pl plCurr st i).1.length := by
  rw [newSetStep2_fst]
  generalize hN : step2Pairs g an ok pl plCurr st.1 i = N
  obtain ⟨e, he⟩ := BS.addNew_prefix st.1 N
  have hsub : st.1 ⊆ addNew st.1 N := addNew_subset_left _ _
  refine ⟨⟨addNew_nodup N h.nodup, ?_, fun x hx => hsub (h.first hx), ?_⟩, ?_⟩
  · intro p hp
    rcases mem_addNew hp with hp | hp
    · exact h.all p hp
    · rw [← hN] at hp; exact hP st.1 i h.all hi p hp
  · intro k hk
    rw [he, step2Pairs_append _ _ _ _ _ _ _ (by omega), ← he]
    rcases Nat.lt_or_ge k i with hlt | hge
    · exact fun x hx => hsub (h.closed k hlt hx)
    · have : k = i := by omega
      subst this
      rw [hN]; exact addNew_subset_right _ _
  · rw [he, List.length_append]; omega

/-- the second loop with a fuel that exceeds the size of a universe `U` of the pairs -/
theorem newSetLoop2_spec
    (hP : ∀ ns i, (∀ p ∈ ns, P p) → i < ns.length →
      ∀ p ∈ step2Pairs g an ok pl plCurr ns i, P p)
    (U : List (Sit2 × Nat)) (hU : ∀ p, P p → p ∈ U) (fuel : Nat) (hfuel : U.length < fuel)
    (hnd : ns1.Nodup) (h1 : ∀ p ∈ ns1, P p) (b : Bool) :
    NSInv g an ok pl plCurr P ns1
      (newSetLoop2 g an ok pl plCurr fuel (ns1, b)).1.length
      (newSetLoop2 g an ok pl plCurr fuel (ns1, b)).1 ∧
    ∀ extra, newSetLoop2 g an ok pl plCurr (fuel + extra) (ns1, b) =
      newSetLoop2 g an ok pl plCurr fuel (ns1, b) := by
  unfold newSetLoop2
  have hstep := NSInv_step (g := g) (an := an) (ok := ok) (pl := pl) (plCurr := plCurr)
    (P := P) (ns1 := ns1) hP
  have hbound : ∀ (i : Nat) (st : NewStart2 × Bool), NSInv g an ok pl plCurr P ns1 i st.1 →
      st.1.length ≤ U.length := by
    intro i st h
    exact nodup_subset_length h.nodup (fun p hp => hU p (h.all p hp))
  have h0 : NSInv g an ok pl plCurr P ns1 0 (ns1, b).1 :=
    ⟨hnd, h1, fun _ h => h, fun k hk => absurd hk (Nat.not_lt_zero _)⟩
  exact ⟨BS.scanLoop_inv (len := fun st : NewStart2 × Bool => st.1.length)
      (fun i st => NSInv g an ok pl plCurr P ns1 i st.1) _ hstep hbound _ 0 _ h0 (Nat.zero_le _)
      (by omega),
    BS.scanLoop_stable (len := fun st : NewStart2 × Bool => st.1.length)
      (fun i st => NSInv g an ok pl plCurr P ns1 i st.1) _ hstep hbound _ 0 _ h0 (Nat.zero_le _)
      (by omega)⟩

end Loop2

/-! ## `set_insert` and the table of cores -/

/-- every core of the table is what `expand_new_start_set` makes of its start situations -/
structure TabInv2 (g : Grammar) (an : Analysis) (tab : Tab2) : Prop where
  ncores : tab.nCores = tab.cores.length
  cores : ∀ i c, tab.cores[i]? = some c →
    c = expandNewStartSet g an (Core2.fresh i (c.sits.take c.nStart))

theorem setInsert_spec (tab : Tab2) (ns : NewStart2) :
    (setInsert tab ns).2.1.dists = ns.map (·.2) ∧
    (setInsert tab ns).1.bad = tab.bad ∧
    (((setInsert tab ns).2.2 = false ∧
        (∃ i : Nat, tab.cores[i]? = some (setInsert tab ns).2.1.core) ∧
        coreKeyEq (ns.map (·.1)) (setInsert tab ns).2.1.core = true ∧
        (setInsert tab ns).1.cores = tab.cores ∧ (setInsert tab ns).1.nCores = tab.nCores) ∨
     ((setInsert tab ns).2.2 = true ∧
        (setInsert tab ns).2.1.core = Core2.fresh tab.nCores (ns.map (·.1)) ∧
        (setInsert tab ns).1.cores = tab.cores ++ [Core2.fresh tab.nCores (ns.map (·.1))] ∧
        (setInsert tab ns).1.nCores = tab.nCores + 1)) := by
  unfold setInsert
  dsimp only
  generalize htab1 : (if tab.distVecs.contains (ns.map (·.2)) = true then tab
    else { tab with distVecs := tab.distVecs ++ [ns.map (·.2)], nDists := tab.nDists + 1 }) = tab1
  have hc1 : tab1.cores = tab.cores := by rw [← htab1]; split <;> rfl
  have hn1 : tab1.nCores = tab.nCores := by rw [← htab1]; split <;> rfl
  have hb1 : tab1.bad = tab.bad := by rw [← htab1]; split <;> rfl
  cases hf : tab1.cores.find? (coreKeyEq (ns.map (·.1))) with
  | some c =>
    dsimp only
    refine ⟨rfl, ?_, Or.inl ⟨rfl, ?_, ?_, ?_, ?_⟩⟩
    · split <;> exact hb1
    · have := List.mem_of_find?_eq_some hf
      rw [hc1] at this
      exact List.mem_iff_getElem?.mp this
    · exact List.find?_some hf
    · split <;> exact hc1
    · split <;> exact hn1
  | none =>
    dsimp only
    refine ⟨rfl, ?_, Or.inr ⟨rfl, ?_, ?_, ?_⟩⟩
    · split <;> exact hb1
    · rw [hn1]
    · split <;> simp only [hc1, hn1]
    · split <;> simp only [hn1]

theorem coreKeyEq_iff {sits : List Sit2} {c : Core2} :
    coreKeyEq sits c = true ↔ c.nStart = sits.length ∧ c.sits.take c.nStart = sits := by
  unfold coreKeyEq
  simp

/-! ## what does not depend on the grammar: number and start situations of an expanded core -/

theorem setCtx_sitAt_ne (c : Core2) (i : Nat) (x : List Nat) {k : Nat} (hk : k ≠ i) :
    (c.setCtx i x).sitAt k = c.sitAt k := by
  unfold Core2.sitAt Core2.setCtx
  simp only
  rw [List.getD_eq_getElem?_getD, List.getElem?_set]
  have : ¬ i = k := fun h => hk h.symm
  rw [if_neg this, ← List.getD_eq_getElem?_getD]

theorem ctxPassOn_sitAt (flag : Bool → Bool → Bool) (g : Grammar) (an : Analysis)
    (order : List Nat) (c : Core2) {k : Nat} (hk : k ∉ order) :
    (ctxPassOn flag g an order c).1.sitAt k = c.sitAt k := by
  unfold ctxPassOn
  have : ∀ st : Core2 × Bool, k ∉ order →
      (order.foldl (ctxStepWith flag g an) st).1.sitAt k = st.1.sitAt k := by
    induction order with
    | nil => intro st _; rfl
    | cons i order ih =>
      intro st hk
      simp only [List.foldl_cons]
      rw [ih (fun h => hk (List.mem_cons_of_mem _ h)) _ (fun h => hk (List.mem_cons_of_mem _ h))]
      rw [ctxStepWith_eq]
      split
      · rfl
      · exact setCtx_sitAt_ne _ _ _ (fun h => hk (by rw [h]; exact List.mem_cons_self))
  exact this (c, false) hk

theorem ctxLoopOn_sitAt (flag : Bool → Bool → Bool) (g : Grammar) (an : Analysis)
    (order : List Nat) (fuel : Nat) (c : Core2) {k : Nat} (hk : k ∉ order) :
    (ctxLoopOn flag g an order fuel c).sitAt k = c.sitAt k := by
  induction fuel generalizing c with
  | zero => rfl
  | succ fuel ih =>
    rw [ctxLoopOn_succ]
    split
    · rw [ih, ctxPassOn_sitAt _ _ _ _ _ hk]
    · exact ctxPassOn_sitAt _ _ _ _ _ hk

/-- whatever the flag function and the fuel: number, counters and start situations of the
expanded core -/
theorem expandNewStartSetWith_start (flag : Bool → Bool → Bool) (g : Grammar) (an : Analysis)
    (num : Nat) (ss : List Sit2) :
    (expandNewStartSetWith flag g an (Core2.fresh num ss)).num = num ∧
    (expandNewStartSetWith flag g an (Core2.fresh num ss)).nStart = ss.length ∧
    (expandNewStartSetWith flag g an (Core2.fresh num ss)).sits.take ss.length = ss := by
  rw [expandNewStartSetWith_eq]
  obtain ⟨hp, hstart, _, _⟩ := expand3_sim g an num ss
  have hsp : BS.ExpandSpec g an num (ss.map Sit2.proj) (expand3 g an (Core2.fresh num ss)).proj := by
    rw [hp]; exact BS.expandNewStartSet_spec g an num _
  generalize expand3 g an (Core2.fresh num ss) = c0 at hp hstart hsp
  have hns : c0.nStart = ss.length := by
    have := hsp.nStart
    simpa [Core2.proj] using this
  have hle : c0.nStart ≤ c0.nAllDists := hsp.le
  have hpj := ctxLoopOn_proj flag g an (ctxOrder c0) (ctxFuel g c0) c0
  have hlow : ∀ k, k < c0.nAllDists →
      (ctxLoopOn flag g an (ctxOrder c0) (ctxFuel g c0) c0).sitAt k = c0.sitAt k := by
    intro k hk
    apply ctxLoopOn_sitAt
    intro hm
    have := (mem_ctxOrder.mp hm).1
    omega
  unfold ctxLoopWith
  generalize ctxLoopOn flag g an (ctxOrder c0) (ctxFuel g c0) c0 = c at hpj hlow
  obtain ⟨_, hnA, hlen, _⟩ := proj_facts hpj
  refine ⟨?_, ?_, ?_⟩
  · have : c.proj.num = c0.proj.num := by rw [hpj]
    have h2 : c0.proj.num = num := hsp.num
    exact this.trans h2
  · have : c.proj.nStart = c0.proj.nStart := by rw [hpj]
    exact this.trans hns
  · rw [← hns]
    refine Eq.trans ?_ hstart
    have hle' : c0.nAllDists ≤ c0.sits.length := by
      have := hsp.le'
      simpa [Core2.proj] using this
    apply List.ext_getElem?
    intro k
    rw [List.getElem?_take, List.getElem?_take]
    split
    · rename_i hk
      rw [sitAt_get (by omega), sitAt_get (by omega), hlow k (by omega)]
    · rfl

/-- `set_insert` followed by `expand_new_start_set` for a new core: the resulting core is what
`expand_new_start_set` computes from the start situations, whether it was found in the table or
not -/
theorem insert_expand_spec {g : Grammar} {an : Analysis} {tab : Tab2} (hinv : TabInv2 g an tab)
    (ns : NewStart2) :
    let r := setInsert tab ns
    let res : Tab2 × CSet2 :=
      if r.2.2 then
        (r.1.storeCore (expandNewStartSet g an r.2.1.core),
          { r.2.1 with core := expandNewStartSet g an r.2.1.core })
      else (r.1, r.2.1)
    TabInv2 g an res.1 ∧ res.2.dists = ns.map (·.2) ∧
      ∃ num, res.2.core = expandNewStartSet g an (Core2.fresh num (ns.map (·.1))) := by
  intro r res
  obtain ⟨hd, _, hcase⟩ := setInsert_spec tab ns
  rcases hcase with ⟨hnew, ⟨i, hi⟩, hkey, hcores, hn⟩ | ⟨hnew, hcore, hcores, hn⟩
  · have hres : res = (r.1, r.2.1) := by
      show (if r.2.2 = true then _ else _) = _
      rw [show r.2.2 = false from hnew]; rfl
    rw [hres]
    refine ⟨⟨by rw [hn, hcores]; exact hinv.ncores, by rw [hcores]; exact hinv.cores⟩, hd, i, ?_⟩
    have := hinv.cores i _ hi
    obtain ⟨_, h2⟩ := coreKeyEq_iff.mp hkey
    rw [h2] at this
    exact this
  · have hres : res = (r.1.storeCore (expandNewStartSet g an r.2.1.core),
          { r.2.1 with core := expandNewStartSet g an r.2.1.core }) := by
      show (if r.2.2 = true then _ else _) = _
      rw [show r.2.2 = true from hnew]; rfl
    rw [hres]
    have hcore' : r.2.1.core = Core2.fresh tab.nCores (ns.map (·.1)) := hcore
    have hcores' : r.1.cores = tab.cores ++ [Core2.fresh tab.nCores (ns.map (·.1))] := hcores
    obtain ⟨hnum, hnS, htake⟩ := expandNewStartSetWith_start flagOr g an tab.nCores (ns.map (·.1))
    have hstore : (r.1.storeCore (expandNewStartSet g an r.2.1.core)).cores =
        tab.cores ++ [expandNewStartSet g an (Core2.fresh tab.nCores (ns.map (·.1)))] := by
      unfold Tab2.storeCore
      simp only [hcore', hcores']
      have : (expandNewStartSet g an (Core2.fresh tab.nCores (ns.map (·.1)))).num = tab.nCores := hnum
      rw [this, hinv.ncores, List.set_append_right _ _ (Nat.le_refl _)]
      simp
    refine ⟨⟨?_, ?_⟩, hd, tab.nCores, by simp only [hcore']⟩
    · rw [hstore]
      show r.1.nCores = _
      rw [show r.1.nCores = tab.nCores + 1 from hn, hinv.ncores]; simp
    · intro i c hi
      rw [hstore] at hi
      rcases Nat.lt_or_ge i tab.cores.length with hlt | hge
      · rw [List.getElem?_append_left hlt] at hi
        exact hinv.cores i c hi
      · rw [List.getElem?_append_right hge] at hi
        have hi0 : i - tab.cores.length = 0 := by
          rcases Nat.eq_zero_or_pos (i - tab.cores.length) with h | h
          · exact h
          · rw [List.getElem?_eq_none (by simp; omega)] at hi; cases hi
        rw [hi0] at hi
        simp only [List.getElem?_cons_zero, Option.some.injEq] at hi
        have hi' : i = tab.nCores := by rw [hinv.ncores]; omega
        subst hi
        rw [hi']
        have e1 : (expandNewStartSet g an (Core2.fresh tab.nCores (ns.map (·.1)))).nStart =
            (ns.map (·.1)).length := hnS
        have e2 : (expandNewStartSet g an (Core2.fresh tab.nCores (ns.map (·.1)))).sits.take
            (ns.map (·.1)).length = ns.map (·.1) := htake
        rw [e1, e2]

end Yaep.BS2
