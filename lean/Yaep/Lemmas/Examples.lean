import Yaep.Spec.ParseTree
import Yaep.Spec.Forest
import Yaep.Lemmas.Analysis
import Yaep.Model.FreeTree
import Yaep.Model.ReadGrammar
/-!
# Concrete instances used by the non-vacuity `example`s of `Yaep/Props/C02 … C05`
-/
namespace Yaep

/-! `E : E '+' E # plus(0 2) | 'a'` -/
namespace C02Ex

def g : Grammar :=
  { rules := [
      { lhs := 0, rhs := [.n 1, .t 1], transLen := 1, order := [some 0, none] },
      { lhs := 1, rhs := [.n 1, .t 3, .n 1], anode := some "plus", cost := 1, transLen := 3,
        order := [some 0, none, some 2] },
      { lhs := 1, rhs := [.t 2], transLen := 1, order := [some 0] } ],
    termNames := ["error", "$eof", "a", "+"], termCodes := [-1, -2, 97, 43],
    ntNames := ["$S", "E"], errT := 0, eofT := 1, axiomN := 0, startN := 1 }

def toks : List Nat := [2, 3, 2, 1]

def a (p : Nat) : PT := .node 2 [.leaf 2 p]
def pt : PT := .node 0 [.node 1 [a 0, .leaf 3 1, a 2], .leaf 1 3]

theorem validKids :
    PT.ValidListAt g toks [a 0, .leaf 3 1, a 2] [.n 1, .t 3, .n 1] 0 3 :=
  .cons (.node (rl := g.rules[2]) rfl rfl (.cons (.leaf rfl) .nil)) <|
  .cons (.leaf rfl) <|
  .cons (.node (rl := g.rules[2]) rfl rfl (.cons (.leaf rfl) .nil)) .nil

theorem valid : PT.IsDerivation g toks pt :=
  .node (rl := g.rules[0]) rfl rfl <|
    .cons (.node (rl := g.rules[1]) rfl rfl validKids) <| .cons (.leaf rfl) .nil

theorem g_acyclic : ¬ Cyclic g := fun h => absurd (loopSet_ne_nil_of_cyclic g h) (by decide)

/-- `E : 'a' #` (empty translation) -/
def gNil : Grammar := { g with rules := [{ lhs := 1, rhs := [.t 2], order := [none] }] }

/-- the description `E : E '+' E # plus (0 - 2) | 'a' # 0` as the callbacks deliver it -/
def rawPlus : RawGrammar :=
  ⟨[("a", 97), ("+", 43)],
   [⟨"E", ["E", "+", "E"], some "plus", 1, some [0, NIL_TRANSL, 2]⟩,
    ⟨"E", ["a"], none, 0, some [0]⟩], false⟩

/-- a grammar with the cycle `A : A`: `$S : A $eof`, `A : A | 'a'` -/
def gLoop : Grammar :=
  { rules := [
      { lhs := 0, rhs := [.n 1, .t 1], order := [some 0, none] },
      { lhs := 1, rhs := [.n 1], order := [some 0] },
      { lhs := 1, rhs := [.t 2], order := [some 0] } ],
    termNames := ["error", "$eof", "a"], termCodes := [-1, -2, 97],
    ntNames := ["$S", "A"], errT := 0, eofT := 1, axiomN := 0, startN := 1 }

def toksL : List Nat := [2, 1]

/-- `A` derived with `k` applications of `A : A` on top of `A : 'a'` -/
def chain : Nat → PT
  | 0 => .node 2 [.leaf 2 0]
  | k + 1 => .node 1 [chain k]

def ptL (k : Nat) : PT := .node 0 [chain k, .leaf 1 1]

theorem chain_valid : ∀ k, PT.ValidAt gLoop toksL (chain k) (.n 1) 0 1
  | 0 => .node (rl := gLoop.rules[2]) rfl rfl (.cons (.leaf rfl) .nil)
  | k + 1 => .node (rl := gLoop.rules[1]) rfl rfl (.cons (chain_valid k) .nil)

theorem chain_depth : ∀ k, (chain k).depth = k + 1
  | 0 => by decide
  | k + 1 => by simp [chain, PT.depth, PT.depthList, chain_depth k]; omega

theorem ptL_valid (k : Nat) : PT.IsDerivation gLoop toksL (ptL k) :=
  .node (rl := gLoop.rules[0]) rfl rfl (.cons (chain_valid k) (.cons (.leaf rfl) .nil))

theorem ptL_depth (k : Nat) : (ptL k).depth = k + 2 := by
  simp [ptL, PT.depth, PT.depthList, chain_depth k]; omega

end C02Ex

namespace C05Ex
open C02Ex

def toks3 : List Nat := [2, 3, 2, 3, 2, 1]
def l : PT := .node 0 [.node 1 [.node 1 [a 0, .leaf 3 1, a 2], .leaf 3 3, a 4], .leaf 1 5]
def r : PT := .node 0 [.node 1 [a 0, .leaf 3 1, .node 1 [a 2, .leaf 3 3, a 4]], .leaf 1 5]

end C05Ex

namespace C03Ex

/-- `top(ALT(x(a), y(b)), a)` with the leaf `a` shared -/
def tab : Array NodeRec :=
  #[.term 97 0, .term 98 1, .anode "x" 1 [0], .anode "y" 2 [1], .alt [2, 3],
    .anode "top" 0 [4, 0]]

end C03Ex

namespace C04Ex

/-- `top:5(ALT(x:1(a), y:2(b), z:1(c)), w:3())` -/
def n : Node :=
  .anode "top" 5 [.alt [.anode "x" 1 [.term 97 0], .anode "y" 2 [.term 98 0],
    .anode "z" 1 [.term 99 0]], .anode "w" 3 []]

def tx : Tree := .anode "top" 5 [.anode "x" 1 [.term 97 0], .anode "w" 3 []]
def ty : Tree := .anode "top" 5 [.anode "y" 2 [.term 98 0], .anode "w" 3 []]
def tz : Tree := .anode "top" 5 [.anode "z" 1 [.term 99 0], .anode "w" 3 []]

/-- without `total` the statements fail: an abstract node over an empty ALT denotes nothing
but is assigned cost 0, so pruning drops the only real tree -/
def bad : Node := .alt [.anode "a" 0 [.alt []], .anode "b" 5 []]

end C04Ex

namespace C13Ex

/-- `top(ALT(x(a), x(b, a)), a, ALT(…))`: the leaf `a`, the ALT node and the name `x` are
shared -/
def tab : Array NodeRec :=
  #[.term 97 0, .term 98 1, .anode "x" 1 [0], .anode "x" 2 [1, 0], .alt [2, 3],
    .anode "top" 0 [4, 0, 4]]

/-- an abstract node with the empty name -/
def tabE : Array NodeRec := #[.term 97 0, .anode "" 0 [0]]

/-- two abstract nodes with the empty name: `top(""(a), ""(b))` -/
def tabE2 : Array NodeRec :=
  #[.term 97 0, .term 98 1, .anode "" 1 [0], .anode "" 2 [1], .anode "top" 0 [2, 3]]

/-- a numbering of blocks (injective on the blocks of `tab`) -/
def num : Block → Nat
  | .node i => 3 * i
  | .cell i p => 3 * (i + 100 * (p + 1)) + 1
  | .name s => 3 * s.length + 2

end C13Ex

end Yaep
