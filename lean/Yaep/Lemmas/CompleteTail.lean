import Yaep.Lemmas.CompleteLoop
/-!
# Completeness of the all-parses forest, part 7: the second half of the body of the candidate loop

`ctail`: when `candTail` attaches the candidate `(sr, k)` to the current state without a *reuse*
event, the place of the current state will denote the translation of EVERY application of the rule
`sr` on `toks[k, pl_ind)`.
-/
namespace Yaep.CP
open Yaep Yaep.MP

theorem tailPlace_eq {st : PState} {pa d pd : Nat} (h : pd = st.parentDisp) :
    tailPlace st.anode (pa, pd) d = placeOf st pa d := by
  unfold tailPlace placeOf
  cases st.anode <;> simp [h]

theorem replicate_getD_none (n i : Nat) : (Array.replicate n (none : Option Nat)).getD i none = none := by
  rw [Array.getD_eq_getD_getElem?, Array.getElem?_replicate]
  split <;> rfl

theorem getD_map_translate' {g : Grammar} {kids : List PT} {q : Nat} (hq : q < kids.length) :
    (kids.map (translate g)).getD q .nil = translate g (kids.getD q default) := by
  rw [List.getD_eq_getElem?_getD, List.getD_eq_getElem?_getD, List.getElem?_map,
    List.getElem?_eq_getElem hq]
  rfl

section
variable {g : Grammar} {ok : Nat → Nat → Nat → Bool} {toks : List Nat} {c : Ctx}

/-- the translation of an application of a rule with abstract node, slot by slot -/
theorem translate_anode_slots {sr : Nat} {rl' : Rule} {name : String} {gks : List PT}
    (hok : rl'.TranslOK) (hr' : g.rules[sr]? = some rl') (hn : rl'.anode = some name)
    (hlen : gks.length = rl'.rhs.length) :
    ∃ slots, translate g (.node sr gks) = .anode name rl'.cost slots ∧ slots.length = rl'.transLen ∧
      (∀ d q, d < rl'.transLen → rl'.order.getD q none = some d →
        slots.getD d .nil = translate g (gks.getD q default)) ∧
      (∀ d, d < rl'.transLen → (∀ q, rl'.order.getD q none ≠ some d) → slots.getD d .nil = .nil) := by
  refine ⟨fillSlots rl'.order (gks.map (translate g)) rl'.transLen, ?_, fillSlots_length' _ _ _, ?_, ?_⟩
  · rw [translate_node_eq hr', translateRule_anode hn]
  · intro d q hd ho
    have ho' := order_getD_eq_some.mp ho
    have hq : q < gks.length := by
      rw [hlen, ← hok.len]; exact (List.getElem?_eq_some_iff.mp ho').1
    rw [List.getD_eq_getElem?_getD,
      fillSlots_getElem?_first hd (firstAt_of_unique ho' (fun q' hq' => hok.inj _ _ _ hq' ho'))]
    simp only [Option.getD_some]
    exact getD_map_translate' hq
  · intro d hd hno
    rw [List.getD_eq_getElem?_getD,
      fillSlots_getElem?_none hd (fun p hp => hno p (order_getD_eq_some.mpr hp))]
    rfl

/-- the translation of an application of a rule without abstract node -/
theorem translate_pass_cases {sr : Nat} {rl' : Rule} {gks : List PT}
    (hok : rl'.TranslOK) (hr' : g.rules[sr]? = some rl') (hn : rl'.anode = none)
    (hlen : gks.length = rl'.rhs.length) :
    (∃ q, q < rl'.rhs.length ∧ (rl'.order.getD q none).isSome = true ∧
      translate g (.node sr gks) = translate g (gks.getD q default)) ∨
    ((∀ q, rl'.order.getD q none = none) ∧ translate g (.node sr gks) = .nil) := by
  rw [translate_node_eq hr']
  by_cases h : ∃ q, (rl'.order.getD q none).isSome = true
  · obtain ⟨q, hq⟩ := h
    obtain ⟨sl, hsl⟩ := order_getD_isSome.mp hq
    have hql : q < rl'.rhs.length := by
      rw [← hok.len]; exact (List.getElem?_eq_some_iff.mp hsl).1
    left
    refine ⟨q, hql, hq, ?_⟩
    have hfs : FirstSome rl'.order q := by
      refine ⟨⟨sl, hsl⟩, fun q' hq' s' hs' => ?_⟩
      have := hok.single hn q' q s' sl hs' hsl
      omega
    rw [translateRule_passthrough hn hfs]
    exact getD_map_translate' (by rw [hlen]; exact hql)
  · right
    have hnone : ∀ q, rl'.order.getD q none = none := by
      intro q
      cases ho : rl'.order.getD q none with
      | none => rfl
      | some d => exact absurd ⟨q, by rw [ho]; rfl⟩ h
    refine ⟨hnone, translateRule_nil hn (fun p s' hp => ?_)⟩
    have := hnone p
    rw [order_getD_eq_some.mpr hp] at this
    cases this

/-- **the second half of the body of the candidate loop, without a reuse event** -/
theorem ctail (hc : CtxAll g ok toks c) (hg : GrOK g)
    {s1 : St} {L : Loc} {os : List Nat} {cur d pa : Nat}
    (hroot : rootId < s1.heap.size) (hnil : s1.heap.getD nilId .nil = .nil) (hkid : KidLt s1.heap)
    (hstk : ∀ x ∈ s1.stack, (s1.state x).parent < s1.states.size ∧ x < s1.states.size)
    (hcurmem : cur ∈ s1.stack)
    (hpa : (s1.state (s1.state cur).parent).anode = some pa)
    (hLd : L.parentDisp = (s1.state cur).parentDisp)
    {nmP : String} {cP : Nat} {ksP : Array (Option Nat)}
    (hcell : s1.heap.getD (placeOf (s1.state cur) pa d).1 .nil = .anode nmP cP ksP)
    (hplt : (placeOf (s1.state cur) pa d).1 < s1.heap.size)
    (hpd : (placeOf (s1.state cur) pa d).2 < ksP.size)
    {sr k : Nat} {rl' : Rule} (hr' : g.rules[sr]? = some rl')
    (hE : EarleyF g ok toks L.plInd ⟨sr, rl'.rhs.length, k⟩)
    {γ' : List Sym} (hcov : FollowCovers g rl'.lhs γ') (hder : Der g γ' (toks.drop L.plInd))
    (hre : (candTail c L ⟨sr, rl'.rhs.length, k⟩ (pa, L.parentDisp) d
      (s1, os, cur, (s1.state cur).anode)).1.reuse = s1.reuse) :
    CExt s1 (candTail c L ⟨sr, rl'.rhs.length, k⟩ (pa, L.parentDisp) d
      (s1, os, cur, (s1.state cur).anode)).1 ∧
    (candTail c L ⟨sr, rl'.rhs.length, k⟩ (pa, L.parentDisp) d (s1, os, cur, (s1.state cur).anode)).2 = os ∧
    (∀ gks, PT.ValidListAt g toks gks rl'.rhs k L.plInd →
      Ev g toks (candTail c L ⟨sr, rl'.rhs.length, k⟩ (pa, L.parentDisp) d
        (s1, os, cur, (s1.state cur).anode)).1 (placeOf (s1.state cur) pa d)
        (translate g (.node sr gks))) ∧
    (∀ x ∈ (candTail c L ⟨sr, rl'.rhs.length, k⟩ (pa, L.parentDisp) d
        (s1, os, cur, (s1.state cur).anode)).1.stack, x ∈ s1.stack ∨
      (RCtx g toks ((candTail c L ⟨sr, rl'.rhs.length, k⟩ (pa, L.parentDisp) d
        (s1, os, cur, (s1.state cur).anode)).1.state x) ∧
       ∀ a, ((candTail c L ⟨sr, rl'.rhs.length, k⟩ (pa, L.parentDisp) d
          (s1, os, cur, (s1.state cur).anode)).1.state x).anode = some a →
         InSlot (candTail c L ⟨sr, rl'.rhs.length, k⟩ (pa, L.parentDisp) d
            (s1, os, cur, (s1.state cur).anode)).1.heap
           (tgt (candTail c L ⟨sr, rl'.rhs.length, k⟩ (pa, L.parentDisp) d
            (s1, os, cur, (s1.state cur).anode)).1
             ((candTail c L ⟨sr, rl'.rhs.length, k⟩ (pa, L.parentDisp) d
            (s1, os, cur, (s1.state cur).anode)).1.state x)) a)) := by
  have hrule' := hc.rule_eq hr'
  have hok := Grammar.translWF_rule hg.twf hr'
  have hpl := tailPlace_eq (st := s1.state cur) (pa := pa) (d := d) hLd
  obtain ⟨hcpar, hcurlt⟩ := hstk cur hcurmem
  -- the child state and its target place
  have hchild_tgt : ∀ (s2 : St) (an : Option Nat),
      (∀ y, y < s1.states.size → s2.state y = s1.state y) →
      tgt s2 (tailChild L ⟨sr, rl'.rhs.length, k⟩ s1 cur (s1.state cur).anode d an) =
        placeOf (s1.state cur) pa d := by
    intro s2 an hs2
    unfold tgt tailChild placeOf
    cases han : (s1.state cur).anode with
    | some a =>
      simp only
      rw [hs2 cur hcurlt, han]; rfl
    | none =>
      simp only
      rw [hs2 _ hcpar, hpa, hLd]; rfl
  have hchild_cur : ∀ an, CP.cur (tailChild L ⟨sr, rl'.rhs.length, k⟩ s1 cur (s1.state cur).anode d an) = L.plInd := by
    intro an
    unfold CP.cur tailChild
    simp only
    split
    · rename_i h0
      rw [h0] at hE
      exact hE.dot_zero
    · rfl
  have hchild_rc : ∀ an, RCtx g toks (tailChild L ⟨sr, rl'.rhs.length, k⟩ s1 cur (s1.state cur).anode d an) := by
    intro an
    refine ⟨rl', γ', hr', hcov, ?_⟩
    rw [hchild_cur]
    have : (tailChild L ⟨sr, rl'.rhs.length, k⟩ s1 cur (s1.state cur).anode d an).pos = rl'.rhs.length := rfl
    rw [this, List.drop_length, List.nil_append]
    exact hder
  cases hn : rl'.anode with
  | some name =>
    have hn' : (c.rule (⟨sr, rl'.rhs.length, k⟩ : Item).rule).anode = some name := by
      show (c.rule sr).anode = some name
      rw [hrule']; exact hn
    have hf := (candTail_counts c L ⟨sr, rl'.rhs.length, k⟩ (pa, L.parentDisp) d
      (s1, os, cur, (s1.state cur).anode)).2.2 hre hc.all name hn'
    obtain ⟨t1, t2, t3, _, _, _, t7⟩ := candTail_new (L := L) (pp := (pa, L.parentDisp)) (disp := d)
      (os := os) (cur := cur) (anode := (s1.state cur).anode) hc.all hn' hf
    generalize (candTail c L ⟨sr, rl'.rhs.length, k⟩ (pa, L.parentDisp) d
      (s1, os, cur, (s1.state cur).anode)).1 = s2 at t1 t2 t3 ⊢
    rw [hpl] at t1
    have hcr : c.rule (⟨sr, rl'.rhs.length, k⟩ : Item).rule = rl' := hrule'
    rw [hcr] at t1
    -- the tree memory
    have mp := hmono_push s1.heap (.anode name rl'.cost (Array.replicate (rl'.transLen + 1) none))
      (fun _ _ h => by cases h)
    have hk1 := hkid.push (.anode name rl'.cost (Array.replicate (rl'.transLen + 1) none))
      (fun nm cc ks h i kk hk => by
        injection h with _ _ e; subst e
        rw [replicate_getD_none] at hk; cases hk)
    have hcell1 : (s1.heap.push (MNode.anode name rl'.cost (Array.replicate (rl'.transLen + 1) none))).getD
        (placeOf (s1.state cur) pa d).1 .nil = .anode nmP cP ksP := by
      rw [getD_push_lt _ _ _ _ hplt]; exact hcell
    obtain ⟨m1, _, m3, _, _, _, _⟩ := hmono_place (node := s1.heap.size) hcell1 (by simp; omega) hpd
      (by simp) hk1
    rw [← t1] at m1 m3
    have hsts : ∀ y, y < s1.states.size → s2.state y = s1.state y := fun y hy => state_push_lt t2 hy
    have hext : CExt s1 s2 := ⟨mp.trans m1, hsts, by rw [t2]; simp, fun x hx => by rw [t3]; simp [hx]⟩
    have hchi : s2.state s1.states.size =
        tailChild L ⟨sr, rl'.rhs.length, k⟩ s1 cur (s1.state cur).anode d (some s1.heap.size) :=
      state_push_eq t2
    have hchimem : s1.states.size ∈ s2.stack := by rw [t3]; simp
    refine ⟨hext, t7, ?_, ?_⟩
    · intro gks hv
      obtain ⟨slots, e1, e2, e3, e4⟩ := translate_anode_slots hok hr' hn hv.length_eq
      rw [e1]
      refine Ev.owe hchimem ?_
      rw [hchi]
      refine .owner (a := s1.heap.size) (kids := gks) (hchild_tgt s2 _ hsts) rfl hr' hn ?_ e2
        (fun dd q hd ho _ => e3 dd q hd ho) ?_ e4
      · rw [hchild_cur]
        show PT.ValidListAt g toks gks (rl'.rhs.take rl'.rhs.length) k L.plInd
        rw [List.take_length]; exact hv
      · intro dd q hd ho hq
        have hq' : rl'.rhs.length ≤ q := hq
        rw [order_getD_none_of_le hok hq'] at ho; cases ho
    · intro x hx
      rw [t3] at hx
      rcases List.mem_cons.mp hx with rfl | hx
      · right
        rw [hchi]
        refine ⟨hchild_rc _, fun a ha => ?_⟩
        have ha' : some s1.heap.size = some a := ha
        injection ha' with ha'; subst ha'
        rw [hchild_tgt s2 _ hsts]
        apply m3
        unfold isAlt
        rw [getD_push_eq]
      · exact Or.inl hx
  | none =>
    have hn' : (c.rule (⟨sr, rl'.rhs.length, k⟩ : Item).rule).anode = none := by
      show (c.rule sr).anode = none
      rw [hrule']; exact hn
    by_cases hdot : rl'.rhs.length = 0
    · obtain ⟨t1, t2, t3, _, _, _, t7⟩ := candTail_nil (c := c) (L := L) (sit := ⟨sr, rl'.rhs.length, k⟩)
        (pp := (pa, L.parentDisp)) (disp := d) (s := s1) (os := os) (cur := cur)
        (anode := (s1.state cur).anode) hn' hdot
      generalize (candTail c L ⟨sr, rl'.rhs.length, k⟩ (pa, L.parentDisp) d
        (s1, os, cur, (s1.state cur).anode)).1 = s2 at t1 t2 t3 ⊢
      rw [hpl] at t1
      obtain ⟨m1, m2, _⟩ := hmono_place (node := nilId) hcell hplt hpd
        (Nat.lt_trans (by decide) hroot) hkid
      rw [← t1] at m1 m2
      have hext : CExt s1 s2 := ⟨m1, fun y _ => state_congr t2 y, by rw [t2]; exact Nat.le_refl _,
        fun x hx => by rw [t3]; exact hx⟩
      refine ⟨hext, t7, ?_, fun x hx => Or.inl (by rw [t3] at hx; exact hx)⟩
      intro gks hv
      have hnil' : translate g (.node sr gks) = .nil := by
        rw [translate_node_eq hr']
        refine translateRule_nil hn (fun p s' hp => ?_)
        have := (List.getElem?_eq_some_iff.mp hp).1
        rw [hok.len, hdot] at this
        exact absurd this (Nat.not_lt_zero _)
      rw [hnil']
      exact .now (m2 _ (.nil (Nat.lt_trans (by decide) hroot) hnil))
    · obtain ⟨t1, t2, t3, _, _, _, t7⟩ := candTail_pass (c := c) (L := L) (sit := ⟨sr, rl'.rhs.length, k⟩)
        (pp := (pa, L.parentDisp)) (disp := d) (s := s1) (os := os) (cur := cur)
        (anode := (s1.state cur).anode) hn' hdot
      generalize (candTail c L ⟨sr, rl'.rhs.length, k⟩ (pa, L.parentDisp) d
        (s1, os, cur, (s1.state cur).anode)).1 = s2 at t1 t2 t3 ⊢
      have hext : CExt s1 s2 := CExt.pushState t1 t2 t3
      have hchi : s2.state s1.states.size =
          tailChild L ⟨sr, rl'.rhs.length, k⟩ s1 cur (s1.state cur).anode d none := state_push_eq t2
      have hchimem : s1.states.size ∈ s2.stack := by rw [t3]; simp
      refine ⟨hext, t7, ?_, ?_⟩
      · intro gks hv
        have hval : PT.ValidListAt g toks gks (rl'.rhs.take rl'.rhs.length) k L.plInd := by
          rw [List.take_length]; exact hv
        refine Ev.owe hchimem ?_
        rw [hchi]
        rcases translate_pass_cases hok hr' hn hv.length_eq with ⟨q, q1, q2, q3⟩ | ⟨q1, q2⟩
        · rw [q3]
          exact .pass (kids := gks) (hchild_tgt s2 _ hext.sts) rfl hr' (by rw [hchild_cur]; exact hval) q1 q2
        · rw [q2]
          exact .passNil (hchild_tgt s2 _ hext.sts) rfl hr' q1
      · intro x hx
        rw [t3] at hx
        rcases List.mem_cons.mp hx with rfl | hx
        · right
          rw [hchi]
          exact ⟨hchild_rc _, fun a ha => by cases ha⟩
        · exact Or.inl hx

end

end Yaep.CP
