import Yaep.Lemmas.ExactSingleOuter
import Yaep.Lemmas.RecoveredParseRepair
/-!
# One callback: the shape of the final list

`CX.kept v p`: the tokens `v`, the first with number `p`, all kept with their numbers.
`CX.single_call_prefix`: after exactly one callback `(e, a, b)` the pairs of the final list are the
tokens `0 … a-1` kept, one `(error, none)`, and a repair of the rest that replaces `b - a` tokens.
`CX.single_call_segment`: if nothing else is replaced (the rest holds token sets only), the pairs
are the tokens `0 … a-1` kept, `(error, none)`, the tokens `b …` kept: the replaced segment is
`full[a, b)`.
-/
namespace Yaep.CX
open Yaep Yaep.RP

/-- the tokens `v` (the first has the number `p`) kept with their numbers -/
def kept : List Nat → Nat → List (Nat × Option Nat)
  | [], _ => []
  | a :: v, p => (a, some p) :: kept v (p + 1)

theorem kept_length : ∀ (v : List Nat) (p : Nat), (kept v p).length = v.length
  | [], _ => rfl
  | _ :: v, p => by simp only [kept, List.length_cons, kept_length v (p + 1)]

theorem kept_snd : ∀ (v : List Nat) (p : Nat), ∀ q ∈ kept v p, q.2 ≠ none
  | [], _, q, h => by cases h
  | a :: v, p, q, h => by
    rcases List.mem_cons.mp h with rfl | h
    · exact fun h => by cases h
    · exact kept_snd v (p + 1) q h

theorem kept_getElem? : ∀ (v : List Nat) (p i : Nat), (kept v p)[i]? = v[i]?.map fun a => (a, some (p + i))
  | [], _, _ => by simp [kept]
  | a :: v, p, 0 => by simp [kept]
  | a :: v, p, i + 1 => by
    simp only [kept, List.getElem?_cons_succ]
    rw [kept_getElem? v (p + 1) i]
    have : p + 1 + i = p + (i + 1) := by omega
    rw [this]

/-- keeping all tokens is a repair that replaces nothing -/
theorem repairAt_kept (e : Nat) : ∀ (v : List Nat) (p : Nat), RepairAt e p 0 v (kept v p)
  | [], p => RepairAt.nil p
  | a :: v, p => RepairAt.keep a (repairAt_kept e v (p + 1))

theorem repairAt_kept_append (e : Nat) {n : Nat} {v : List Nat} {l : List (Nat × Option Nat)} :
    ∀ (u : List Nat) (p : Nat), RepairAt e (p + u.length) n v l → RepairAt e p n (u ++ v) (kept u p ++ l)
  | [], p, h => by simpa [kept] using h
  | a :: u, p, h => by
    simp only [List.cons_append, kept]
    apply RepairAt.keep
    apply repairAt_kept_append e u (p + 1)
    have : p + 1 + u.length = p + (a :: u).length := by simp only [List.length_cons]; omega
    rw [this]; exact h

/-- a repair whose first `l1.length` elements are kept tokens -/
theorem repairAt_split {e : Nat} : ∀ (l1 : List (Nat × Option Nat)) {p n : Nat} {v : List Nat}
    {l2 : List (Nat × Option Nat)}, (∀ q ∈ l1, q.2 ≠ none) → RepairAt e p n v (l1 ++ l2) →
    l1.length ≤ v.length ∧ l1 = kept (v.take l1.length) p ∧
      RepairAt e (p + l1.length) n (v.drop l1.length) l2
  | [], p, n, v, l2, _, h => by simpa [kept] using h
  | q :: l1, p, n, v, l2, hq, h => by
    generalize hl : q :: l1 ++ l2 = l at h
    cases h with
    | nil => cases hl
    | @keep _ _ v' l' a h' =>
      simp only [List.cons_append, List.cons.injEq] at hl
      obtain ⟨rfl, rfl⟩ := hl
      obtain ⟨i1, i2, i3⟩ := repairAt_split l1 (fun q hq' => hq q (List.mem_cons_of_mem _ hq')) h'
      refine ⟨by simp only [List.length_cons]; omega, ?_, ?_⟩
      · simp only [List.length_cons, List.take_succ_cons, kept, List.cons.injEq, true_and]
        exact i2
      · simp only [List.length_cons, List.drop_succ_cons]
        have : p + (l1.length + 1) = p + 1 + l1.length := by omega
        rw [this]; exact i3
    | replace seg h' =>
      simp only [List.cons_append, List.cons.injEq] at hl
      obtain ⟨rfl, _⟩ := hl
      exact absurd rfl (hq _ List.mem_cons_self)

/-- a repair that replaces nothing visible: all tokens are kept -/
theorem repairAt_all_kept {e p n : Nat} {v : List Nat} {l : List (Nat × Option Nat)}
    (hq : ∀ q ∈ l, q.2 ≠ none) (h : RepairAt e p n v l) : n = 0 ∧ l = kept v p := by
  have h' : RepairAt e p n v (l ++ []) := by rw [List.append_nil]; exact h
  obtain ⟨i1, i2, i3⟩ := repairAt_split l hq h'
  generalize hv : v.drop l.length = v' at i3
  cases i3 with
  | nil =>
    have hlen : v.length ≤ l.length := List.drop_eq_nil_iff.mp hv
    refine ⟨rfl, ?_⟩
    rw [List.take_of_length_le hlen] at i2
    exact i2

/-- a repair that starts with a replaced segment -/
theorem repairAt_head_none {e p n t : Nat} {v : List Nat} {l : List (Nat × Option Nat)}
    (h : RepairAt e p n v ((t, none) :: l)) :
    t = e ∧ ∃ seg v' n', v = seg ++ v' ∧ n = seg.length + n' ∧ RepairAt e (p + seg.length) n' v' l := by
  generalize hl : (t, none) :: l = l0 at h
  cases h with
  | nil => cases hl
  | keep a h' => simp at hl
  | @replace _ n' v' _ seg h' =>
    simp only [List.cons.injEq, Prod.mk.injEq, and_true] at hl
    obtain ⟨rfl, rfl⟩ := hl
    exact ⟨rfl, seg, v', n', rfl, rfl, h'⟩

section
variable {g : Grammar} {la rmatch : Nat} {w : List Nat} {sfuel : Nat}

/-- **one callback `(e, a, b)`**: the final list is the tokens `0 … a-1` kept with their numbers,
one `(error, none)`, and a repair of the tokens from `a` on in which `b - a` tokens are replaced
in total (the first replaced segment starts at `a`) -/
theorem single_call_prefix (hno : g.errT ∉ w) (hne : g.errT ≠ g.eofT)
    (hok : (parseWithRecovery g la rmatch w sfuel).ok = true) {e a b : Nat}
    (hc : (parseWithRecovery g la rmatch w sfuel).calls = [(e, a, b)]) :
    a ≤ b ∧ b ≤ w.length ∧ a ≤ e ∧ e ≤ w.length ∧
    ∃ l, pairs (parseWithRecovery g la rmatch w sfuel).pl =
        kept ((w ++ [g.eofT]).take a) 0 ++ (g.errT, none) :: l ∧
      RepairAt g.errT a (b - a) ((w ++ [g.eofT]).drop a) ((g.errT, none) :: l) ∧
      (rmatch ≤ 1 → ∀ q ∈ l, q.2 ≠ none) := by
  have hno' : g.errT ∉ w ++ [g.eofT] := by
    intro h
    rcases List.mem_append.mp h with h | h
    · exact hno h
    · exact hne (List.mem_singleton.mp h)
  have htr := parseWithRecovery_trace (rmatch := rmatch) (sfuel := sfuel) hno' hok
  obtain ⟨P, x, R, hpl, hP, hPt, hx, hR⟩ := htr.single e a b hc
  obtain ⟨n, hrep, _, hn⟩ := repairAt_final hok
  have hn' := hn hno hne
  rw [hc] at hn'
  simp only [List.map_cons, List.map_nil, List.sum_cons, List.sum_nil, Nat.add_zero] at hn'
  have hwf := (parseWithRecovery_inv hok).calls_wf (e, a, b) (by rw [hc]; exact List.mem_singleton.mpr rfl)
  simp only [List.length_append, List.length_singleton] at hwf
  obtain ⟨w1, w2, w3, w4⟩ := hwf
  refine ⟨w1, by omega, w4, by omega, ?_⟩
  -- the pairs of the list
  have hPne : P ≠ [] := by intro h; rw [h] at hP; simp at hP
  obtain ⟨s0, P', rfl⟩ := List.exists_cons_of_ne_nil hPne
  simp only [List.length_cons, Nat.add_right_cancel_iff] at hP
  simp only [List.drop_succ_cons, List.drop_zero] at hPt
  have hpairs : pairs (parseWithRecovery g la rmatch w sfuel).pl =
      P'.map (fun s => (s.term.getD 0, s.tok)) ++ (x.term.getD 0, none) ::
        R.map (fun s => (s.term.getD 0, s.tok)) := by
    unfold pairs
    rw [hpl]
    simp only [List.cons_append, List.drop_succ_cons, List.drop_zero, List.map_append, List.map_cons, hx]
  rw [hpairs] at hrep ⊢
  obtain ⟨i1, i2, i3⟩ := repairAt_split (P'.map fun s => (s.term.getD 0, s.tok))
    (by
      intro q hq
      obtain ⟨s, hs, rfl⟩ := List.mem_map.mp hq
      exact hPt s hs) hrep
  simp only [List.length_map, hP, Nat.zero_add] at i1 i2 i3
  obtain ⟨ht, _⟩ := repairAt_head_none i3
  rw [ht] at i3 ⊢
  refine ⟨_, by rw [i2], by rw [← hn']; exact i3, fun hr q hq => ?_⟩
  obtain ⟨s, hs, rfl⟩ := List.mem_map.mp hq
  exact hR hr s hs

/-- **one callback `(e, a, b)` and nothing else replaced**: the final list is the tokens
`0 … a-1` kept with their numbers, `(error, none)`, the tokens `b …` (end marker included) kept
with their numbers — the replaced segment is exactly `(w $eof)[a, b)` -/
theorem single_call_segment (hno : g.errT ∉ w) (hne : g.errT ≠ g.eofT)
    (hok : (parseWithRecovery g la rmatch w sfuel).ok = true) {e a b : Nat}
    (hc : (parseWithRecovery g la rmatch w sfuel).calls = [(e, a, b)])
    (hone : rmatch ≤ 1 ∨ (word (parseWithRecovery g la rmatch w sfuel).pl).count g.errT = 1) :
    pairs (parseWithRecovery g la rmatch w sfuel).pl =
      kept ((w ++ [g.eofT]).take a) 0 ++ (g.errT, none) :: kept ((w ++ [g.eofT]).drop b) b := by
  obtain ⟨w1, w2, _, _, l, hp, hrep, hr⟩ := single_call_prefix hno hne hok hc
  have hlq : ∀ q ∈ l, q.2 ≠ none := by
    rcases hone with h | h
    · exact hr h
    · -- the only `error` of the repaired input is the one after the kept prefix
      intro q hq hq2
      have hw := pairs_fst (parseWithRecovery g la rmatch w sfuel).pl
      rw [hp] at hw
      rw [← hw] at h
      simp only [List.map_append, List.map_cons, List.count_append, List.count_cons_self] at h
      have h0 : List.count g.errT (l.map (·.1)) = 0 := by omega
      rw [List.count_eq_zero] at h0
      apply h0
      -- a pair without token number is `(error, none)`
      obtain ⟨t, o⟩ := q
      simp only at hq2
      subst hq2
      obtain ⟨l1, l2, rfl⟩ := List.append_of_mem hq
      have hrep' : RepairAt g.errT a (b - a) ((w ++ [g.eofT]).drop a)
          (((g.errT, none) :: l1) ++ (t, none) :: l2) := by simpa using hrep
      have hf := hrep'.forget
      -- every element of a repair with no number is `e`: use the split at the first such element
      have key : ∀ {p n : Nat} {v : List Nat} {l : List (Nat × Option Nat)}, RepairAt g.errT p n v l →
          ∀ t, (t, none) ∈ l → t = g.errT := by
        intro p n v l h
        induction h with
        | nil p => intro t ht; cases ht
        | keep a _ ih =>
          intro t ht
          rcases List.mem_cons.mp ht with h | h
          · cases h
          · exact ih t h
        | replace seg _ ih =>
          intro t ht
          rcases List.mem_cons.mp ht with h | h
          · cases h; rfl
          · exact ih t h
      have := key hrep t (by simp)
      subst this
      simp
  obtain ⟨_, seg, v', n', hv, hnn, hrest⟩ := repairAt_head_none hrep
  obtain ⟨hn0, hl⟩ := repairAt_all_kept hlq hrest
  subst hn0
  have hseg : seg.length = b - a := by omega
  have hv' : v' = (w ++ [g.eofT]).drop b := by
    have := congrArg (List.drop seg.length) hv
    rw [List.drop_left, List.drop_drop, hseg] at this
    have e : a + (b - a) = b := by omega
    rw [e] at this
    exact this.symm
  rw [hp, hl, hv', hseg]
  have e : a + (b - a) = b := by omega
  rw [e]

end

/-- the position and the end of the single replaced segment are determined by the list -/
theorem single_unique {full : List Nat} {e p q a b : Nat} (hp : p ≤ full.length) (ha : a ≤ full.length)
    (hq : q ≤ full.length) (hb : b ≤ full.length)
    (h : kept (full.take p) 0 ++ (e, none) :: kept (full.drop q) q =
      kept (full.take a) 0 ++ (e, none) :: kept (full.drop b) b) : p = a ∧ q = b := by
  have h1 : ∀ (l1 l1' l2 l2' : List (Nat × Option Nat)), (∀ x ∈ l1, x.2 ≠ none) → (∀ x ∈ l1', x.2 ≠ none) →
      l1 ++ (e, none) :: l2 = l1' ++ (e, none) :: l2' → l1.length = l1'.length ∧ l2.length = l2'.length := by
    intro l1
    induction l1 with
    | nil =>
      intro l1' l2 l2' _ h2 he
      cases l1' with
      | nil => simp only [List.nil_append, List.cons.injEq, true_and] at he; rw [he]; exact ⟨rfl, rfl⟩
      | cons y l1' =>
        simp only [List.nil_append, List.cons_append, List.cons.injEq] at he
        exact absurd (by rw [← he.1]) (h2 y List.mem_cons_self)
    | cons x l1 ih =>
      intro l1' l2 l2' h1 h2 he
      cases l1' with
      | nil =>
        simp only [List.nil_append, List.cons_append, List.cons.injEq] at he
        exact absurd (by rw [he.1]) (h1 x List.mem_cons_self)
      | cons y l1' =>
        simp only [List.cons_append, List.cons.injEq] at he
        obtain ⟨i1, i2⟩ := ih l1' l2 l2' (fun z hz => h1 z (List.mem_cons_of_mem _ hz))
          (fun z hz => h2 z (List.mem_cons_of_mem _ hz)) he.2
        exact ⟨by simp only [List.length_cons]; omega, i2⟩
  obtain ⟨i1, i2⟩ := h1 _ _ _ _ (kept_snd _ _) (kept_snd _ _) h
  rw [kept_length, kept_length, List.length_take, List.length_take] at i1
  rw [kept_length, kept_length, List.length_drop, List.length_drop] at i2
  omega

end Yaep.CX
