import Yaep.Lemmas.BuildSet2Ctx
/-!
# Helper lemmas for `Yaep/Model/BuildSet2.lean`, part 2: `expand_new_start_set` at level 2

The three loops shared with levels 0/1 do, on the situations without their contexts, exactly
what `BS.expandNewStartSet` does (`expand3_proj`): the duplicate scans compare pointers, but
a derived situation has the context of its parent and, during these loops, an initial situation
has context 0, so comparing `(rule, pos, context)` is comparing `(rule, pos)`.  Everything proved
about `BS.expandNewStartSet` (`BS.ExpandSpec`) therefore describes the shape of a level-2 core;
the context loop (part 1) then only changes the contexts of the initial situations.
-/
namespace Yaep.BS2
open Yaep

/-! ## generic simulation of loops -/

theorem scanLoop_sim {σ τ : Type} (π : σ → τ) (P : σ → Prop) {len : σ → Nat} {step : σ → Nat → σ}
    {len' : τ → Nat} {step' : τ → Nat → τ}
    (hlen : ∀ s, P s → len s = len' (π s))
    (hstep : ∀ s i, P s → π (step s i) = step' (π s) i ∧ P (step s i)) :
    ∀ fuel i s, P s → π (BS.scanLoop len step fuel i s) = BS.scanLoop len' step' fuel i (π s) ∧
      P (BS.scanLoop len step fuel i s) := by
  intro fuel
  induction fuel with
  | zero => intro i s h; exact ⟨rfl, h⟩
  | succ fuel ih =>
    intro i s h
    unfold BS.scanLoop
    rw [← hlen s h]
    split
    · obtain ⟨h1, h2⟩ := hstep s i h
      rw [← h1]
      exact ih (i + 1) (step s i) h2
    · exact ⟨rfl, h⟩

theorem foldl_sim {σ τ β : Type} (π : σ → τ) (P : σ → Prop) {step : σ → β → σ} {step' : τ → β → τ}
    (L : List β) (hstep : ∀ s b, b ∈ L → P s → π (step s b) = step' (π s) b ∧ P (step s b)) :
    ∀ s, P s → π (L.foldl step s) = L.foldl step' (π s) ∧ P (L.foldl step s) := by
  induction L with
  | nil => intro s h; exact ⟨rfl, h⟩
  | cons b L ih =>
    intro s h
    simp only [List.foldl_cons]
    obtain ⟨h1, h2⟩ := hstep s b List.mem_cons_self h
    rw [← h1]
    exact ih (fun s b hb => hstep s b (List.mem_cons_of_mem _ hb)) _ h2

theorem zip_map_proj (l : List Sit2) (ps : List Nat) :
    (l.map Sit2.proj).zip ps = (l.zip ps).map fun x => (x.1.proj, x.2) := by
  induction l generalizing ps with
  | nil => simp
  | cons a l ih =>
    cases ps with
    | nil => simp
    | cons p ps => simp [ih]

theorem sit2_ext {s s' : Sit2} (h1 : s.proj = s'.proj) (h2 : s.ctx = s'.ctx) : s = s' := by
  cases s; cases s'
  unfold Sit2.proj at h1
  simp only [Prod.mk.injEq] at h1
  simp only at h2
  simp only [Sit2.mk.injEq]
  exact ⟨h1.1, h1.2, h2⟩

/-! ## the first loop -/

/-- state of a level-2 core during the first loop: below, the state of levels 0/1; every
derived situation has the context of its parent -/
structure C1Inv (ss : List Sit2) (c : Core2) : Prop where
  l1 : BS.L1Inv (ss.map Sit2.proj) c.proj
  start : c.sits.take c.nStart = ss
  zipctx : ∀ x ∈ (c.sits.drop c.nStart).zip c.parents, x.1.ctx = (ss.getD x.2 default).ctx

theorem C1Inv.len {ss : List Sit2} {c : Core2} (h : C1Inv ss c) : c.sits.length = c.nAllDists := by
  have := h.l1.len
  simpa [Core2.proj] using this

theorem C1Inv.nAll {ss : List Sit2} {c : Core2} (h : C1Inv ss c) :
    c.nAllDists = c.nStart + c.parents.length := h.l1.nAll

theorem C1Inv.nStart {ss : List Sit2} {c : Core2} (h : C1Inv ss c) : c.nStart = ss.length := by
  have := h.l1.nStart
  simpa [Core2.proj] using this

theorem C1Inv_fresh (num : Nat) (ss : List Sit2) : C1Inv ss (Core2.fresh num ss) := by
  refine ⟨BS.L1Inv_fresh num (ss.map Sit2.proj) |> fun h => by
    have e : (Core2.fresh num ss).proj = BS.Core.fresh num (ss.map Sit2.proj) := by
      simp [Core2.proj, Core2.fresh, BS.Core.fresh]
    rw [e]; exact h, by simp [Core2.fresh], ?_⟩
  intro x hx
  simp [Core2.fresh] at hx

theorem fresh_proj (num : Nat) (ss : List Sit2) :
    (Core2.fresh num ss).proj = BS.Core.fresh num (ss.map Sit2.proj) := by
  simp [Core2.proj, Core2.fresh, BS.Core.fresh]

theorem addNonstartSit_sim {ss : List Sit2} {c : Core2} (h : C1Inv ss c) (sit : Sit2) (p : Nat)
    (hctx : sit.ctx = (ss.getD p default).ctx) :
    (addNonstartSit c sit p).proj = BS.addNonstartSit c.proj sit.proj p ∧
      C1Inv ss (addNonstartSit c sit p) := by
  have hdup : dupNonstart c sit p = BS.dupNonstart c.proj sit.proj p := by
    unfold dupNonstart BS.dupNonstart
    have e : (c.proj.sits.drop c.proj.nStart).zip c.proj.parents =
        ((c.sits.drop c.nStart).zip c.parents).map fun x => (x.1.proj, x.2) := by
      show ((c.sits.map Sit2.proj).drop c.nStart).zip c.parents = _
      rw [← List.map_drop, zip_map_proj]
    rw [e]
    apply Bool.eq_iff_iff.mpr
    simp only [List.contains_iff_mem, List.mem_map]
    constructor
    · intro hm; exact ⟨_, hm, rfl⟩
    · rintro ⟨x, hx, he⟩
      simp only [Prod.mk.injEq] at he
      have hc := h.zipctx x hx
      have : x = (sit, p) := by
        obtain ⟨x1, x2⟩ := x
        simp only at he hc
        obtain ⟨he1, he2⟩ := he
        subst he2
        rw [sit2_ext he1 (by rw [hc, hctx])]
      rw [← this]; exact hx
  have hlen := h.len
  have hnA := h.nAll
  unfold addNonstartSit BS.addNonstartSit
  rw [← hdup]
  by_cases hd : dupNonstart c sit p = true
  · rw [if_pos hd, if_pos hd]; exact ⟨rfl, h⟩
  · rw [if_neg hd, if_neg hd]
    have hp : ({ c with sits := c.sits ++ [sit], nAllDists := c.nAllDists + 1,
                          parents := c.parents ++ [p] } : Core2).proj =
        { c.proj with sits := c.proj.sits ++ [sit.proj], nAllDists := c.proj.nAllDists + 1,
                      parents := c.proj.parents ++ [p] } := by
      simp [Core2.proj]
    refine ⟨hp, ?_, ?_, ?_⟩
    · rw [hp]
      have := (BS.addNonstartSit_spec h.l1 sit.proj p).1
      unfold BS.addNonstartSit at this
      rw [← hdup, if_neg hd] at this
      exact this
    · show (c.sits ++ [sit]).take c.nStart = ss
      rw [List.take_append_of_le_length (by omega)]; exact h.start
    · intro x hx
      have hx' : x ∈ ((c.sits ++ [sit]).drop c.nStart).zip (c.parents ++ [p]) := hx
      rw [List.drop_append_of_le_length (by omega), List.zip_append (by
        rw [List.length_drop]; omega)] at hx'
      rcases List.mem_append.mp hx' with hx' | hx'
      · exact h.zipctx x hx'
      · simp only [List.zip_cons_cons, List.zip_nil_right, List.mem_singleton] at hx'
        subst hx'; exact hctx

theorem addDerivedLoop_sim {ss : List Sit2} (nl : List Nat) (r : Nat) (ctx : List Nat) (p : Nat)
    (hctx : ctx = (ss.getD p default).ctx) (rest : List Sym) (i : Nat) {c : Core2}
    (h : C1Inv ss c) :
    (addDerivedLoop nl r ctx p rest i c).proj = BS.addDerivedLoop nl r p rest i c.proj ∧
      C1Inv ss (addDerivedLoop nl r ctx p rest i c) := by
  induction rest generalizing i c with
  | nil => exact ⟨rfl, h⟩
  | cons s rest ih =>
    unfold addDerivedLoop BS.addDerivedLoop
    split
    · obtain ⟨h1, h2⟩ := addNonstartSit_sim h ⟨r, i + 1, ctx⟩ p hctx
      have e : (⟨r, i + 1, ctx⟩ : Sit2).proj = (r, i + 1) := rfl
      rw [e] at h1
      rw [← h1]
      exact ih (i + 1) h2
    · exact ⟨rfl, h⟩

theorem addDerivedNonstartSits_sim {ss : List Sit2} (g : Grammar) (an : Analysis) {c : Core2}
    (h : C1Inv ss c) (sit : Sit2) (p : Nat) (hctx : sit.ctx = (ss.getD p default).ctx) :
    (addDerivedNonstartSits g an c sit p).proj = BS.addDerivedNonstartSits g an c.proj sit.proj p ∧
      C1Inv ss (addDerivedNonstartSits g an c sit p) := by
  unfold addDerivedNonstartSits BS.addDerivedNonstartSits
  show (match g.rules[sit.rule]? with | none => c | some rl => _).proj =
    (match g.rules[sit.rule]? with | none => c.proj | some rl => _) ∧ _
  cases g.rules[sit.rule]? with
  | none => exact ⟨rfl, h⟩
  | some rl => exact addDerivedLoop_sim an.nl sit.rule sit.ctx p hctx _ _ h

theorem C1Inv.sitAt_start {ss : List Sit2} {c : Core2} (h : C1Inv ss c) {i : Nat} (hi : i < c.nStart) :
    c.sits.getD i default = ss.getD i default := by
  rw [← h.start, List.getD_eq_getElem?_getD, List.getD_eq_getElem?_getD,
    List.getElem?_take_of_lt hi]

theorem expandLoop1_sim {ss : List Sit2} (g : Grammar) (an : Analysis) {c : Core2} (h : C1Inv ss c) :
    (expandLoop1 g an c).proj = BS.expandLoop1 g an c.proj ∧ C1Inv ss (expandLoop1 g an c) := by
  unfold expandLoop1 BS.expandLoop1
  have hns : c.proj.nStart = c.nStart := rfl
  rw [hns]
  refine foldl_sim Core2.proj (fun c' => C1Inv ss c' ∧ c'.nStart = c.nStart) (List.range c.nStart) ?_ c ⟨h, rfl⟩
    |> fun ⟨a, b⟩ => ⟨a, b.1⟩
  intro s i hi ⟨hs, hn⟩
  have hi' : i < s.nStart := by rw [hn]; exact List.mem_range.mp hi
  have e : s.proj.sits.getD i default = (s.sits.getD i default).proj := getD_map_proj _ _
  rw [e]
  obtain ⟨h1, h2⟩ := addDerivedNonstartSits_sim g an hs (s.sits.getD i default) i
    (by rw [hs.sitAt_start hi'])
  refine ⟨h1, h2, ?_⟩
  rw [h2.nStart, hs.nStart] at *
  exact hn

/-! ## the second and the third loop -/

/-- state during the second and third loops: `c1` is the core after the first loop; the new
situations all have the empty context -/
def K2 (c1 c : Core2) : Prop :=
  ∃ I, c.sits = c1.sits ++ I ∧ (∀ s ∈ I, s.ctx = []) ∧ c.nStart = c1.nStart ∧
    c.nAllDists = c1.nAllDists ∧ c.parents = c1.parents ∧ c.num = c1.num

theorem addInitialSit_sim {c1 c : Core2} (hlen : c1.sits.length = c1.nAllDists) (h : K2 c1 c)
    (sit : Sit2) (hs : sit.ctx = []) :
    (addInitialSit c sit).proj = BS.addInitialSit c.proj sit.proj ∧ K2 c1 (addInitialSit c sit) := by
  obtain ⟨I, hI, hnil, h1, h2, h3, h4⟩ := h
  have hdrop : c.sits.drop c.nAllDists = I := by
    rw [hI, h2, ← hlen, List.drop_left]
  have hcont : (c.sits.drop c.nAllDists).contains sit =
      (c.proj.sits.drop c.proj.nAllDists).contains sit.proj := by
    show _ = ((c.sits.map Sit2.proj).drop c.nAllDists).contains sit.proj
    rw [← List.map_drop, hdrop]
    apply Bool.eq_iff_iff.mpr
    simp only [List.contains_iff_mem, List.mem_map]
    constructor
    · intro hm; exact ⟨_, hm, rfl⟩
    · rintro ⟨x, hx, he⟩
      rw [← sit2_ext he (by rw [hnil x hx, hs])]; exact hx
  unfold addInitialSit BS.addInitialSit
  rw [← hcont]
  split
  · exact ⟨rfl, I, hI, hnil, h1, h2, h3, h4⟩
  · refine ⟨by simp [Core2.proj], I ++ [sit], by simp [hI], ?_, h1, h2, h3, h4⟩
    intro s hs'
    rcases List.mem_append.mp hs' with hs' | hs'
    · exact hnil s hs'
    · rw [List.mem_singleton.mp hs']; exact hs

theorem find_proj (c : Core2) (X : Sym) : c.find X = c.proj.find X := rfl

theorem expandStep2_sim {c1 c : Core2} (hlen : c1.sits.length = c1.nAllDists) (g : Grammar)
    (an : Analysis) (h : K2 c1 c) (i : Nat) :
    (expandStep2 g an c i).proj = BS.expandStep2With BS.addInitialSit g an c.proj i ∧
      K2 c1 (expandStep2 g an c i) := by
  unfold expandStep2 BS.expandStep2With
  have e : c.proj.sits.getD i default = (c.sits.getD i default).proj := getD_map_proj _ _
  rw [e]
  generalize c.sits.getD i default = sit
  show (match g.nextSym sit.rule sit.dot with | none => c | some symb => _).proj =
    (match g.nextSym sit.rule sit.dot with | none => c.proj | some symb => _) ∧
    K2 c1 (match g.nextSym sit.rule sit.dot with | none => c | some symb => _)
  cases g.nextSym sit.rule sit.dot with
  | none => exact ⟨rfl, h⟩
  | some symb =>
    dsimp only
    rw [find_proj]
    -- the predicted situations
    have hc1 : ∀ (L : List Nat) (c' : Core2), K2 c1 c' →
        (L.foldl (fun c r => addInitialSit c ⟨r, 0, []⟩) c').proj =
          L.foldl (fun c r => BS.addInitialSit c (r, 0)) c'.proj ∧
        K2 c1 (L.foldl (fun c r => addInitialSit c ⟨r, 0, []⟩) c') := by
      intro L
      induction L with
      | nil => intro c' h'; exact ⟨rfl, h'⟩
      | cons r L ih =>
        intro c' h'
        simp only [List.foldl_cons]
        obtain ⟨a1, a2⟩ := addInitialSit_sim hlen h' ⟨r, 0, []⟩ rfl
        have : (⟨r, 0, []⟩ : Sit2).proj = (r, 0) := rfl
        rw [this] at a1
        rw [← a1]
        exact ih _ a2
    have tail : ∀ (c' : Core2) (cp : BS.Core), K2 c1 c' → c'.proj = cp →
        (if (symNullable an.nl symb && decide ((c'.addTransEl symb i).nAllDists ≤ i)) = true then
            addInitialSit (c'.addTransEl symb i) ⟨sit.rule, sit.dot + 1, []⟩
          else c'.addTransEl symb i).proj =
        (if (symNullable an.nl symb && decide ((cp.addTransEl symb i).nAllDists ≤ i)) = true then
            BS.addInitialSit (cp.addTransEl symb i) (sit.proj.1, sit.proj.2 + 1)
          else cp.addTransEl symb i) ∧
        K2 c1 (if (symNullable an.nl symb && decide ((c'.addTransEl symb i).nAllDists ≤ i)) = true then
            addInitialSit (c'.addTransEl symb i) ⟨sit.rule, sit.dot + 1, []⟩
          else c'.addTransEl symb i) := by
      intro c' cp hK' hcp
      subst hcp
      have hK'' : K2 c1 (c'.addTransEl symb i) := by
        obtain ⟨I, a, b, c2, d, e, f⟩ := hK'
        exact ⟨I, a, b, c2, d, e, f⟩
      have e3 : (c'.addTransEl symb i).proj = c'.proj.addTransEl symb i := rfl
      have e4 : (c'.proj.addTransEl symb i).nAllDists = (c'.addTransEl symb i).nAllDists := rfl
      rw [e4]
      split
      · obtain ⟨a1, a2⟩ := addInitialSit_sim hlen hK'' ⟨sit.rule, sit.dot + 1, []⟩ rfl
        rw [e3] at a1
        exact ⟨a1, a2⟩
      · exact ⟨e3, hK''⟩
    by_cases hf : c.proj.find symb = true
    · simp only [hf, if_true]
      exact tail c _ h rfl
    · simp only [hf, Bool.false_eq_true, if_false]
      cases symb with
      | t a => exact tail c _ h rfl
      | n B =>
        obtain ⟨a1, a2⟩ := hc1 (BS.rulesOf g B) c h
        exact tail _ _ a2 a1

theorem expandStep3_sim {c1 c : Core2} (g : Grammar) (h : K2 c1 c) (i : Nat) :
    (expandStep3 g c i).proj = BS.expandStep3 g c.proj i ∧ K2 c1 (expandStep3 g c i) := by
  unfold expandStep3 BS.expandStep3
  have e : c.proj.sits.getD i default = (c.sits.getD i default).proj := getD_map_proj _ _
  rw [e]
  generalize c.sits.getD i default = sit
  show (match g.rules[sit.rule]? with | none => c | some rl => _).proj =
    (match g.rules[sit.rule]? with | none => c.proj | some rl => _) ∧
    K2 c1 (match g.rules[sit.rule]? with | none => c | some rl => _)
  cases g.rules[sit.rule]? with
  | none => exact ⟨rfl, h⟩
  | some rl =>
    dsimp only
    show (if sit.dot = rl.rhs.length then c.addReduceEl rl.lhs i else c).proj =
      (if sit.dot = rl.rhs.length then c.proj.addReduceEl rl.lhs i else c.proj) ∧ _
    split
    · obtain ⟨I, a, b, c2, d, e, f⟩ := h
      exact ⟨rfl, I, a, b, c2, d, e, f⟩
    · exact ⟨rfl, h⟩

/-- the three loops -/
def expand3 (g : Grammar) (an : Analysis) (c : Core2) : Core2 :=
  expandLoop3 g (expandLoop2 g an (expandFuel g (expandLoop1 g an c)) (expandLoop1 g an c))

theorem expandNewStartSetWith_eq (flag : Bool → Bool → Bool) (g : Grammar) (an : Analysis)
    (c : Core2) :
    expandNewStartSetWith flag g an c =
      ctxLoopWith flag g an (ctxFuel g (expand3 g an c)) (expand3 g an c) := rfl

/-- the three loops, without the contexts, are `BS.expandNewStartSet`; the derived situations
have the contexts of their parents, the initial situations the empty context -/
theorem expand3_sim (g : Grammar) (an : Analysis) (num : Nat) (ss : List Sit2) :
    (expand3 g an (Core2.fresh num ss)).proj =
        BS.expandNewStartSet g an (BS.Core.fresh num (ss.map Sit2.proj)) ∧
      (expand3 g an (Core2.fresh num ss)).sits.take (expand3 g an (Core2.fresh num ss)).nStart = ss ∧
      (∀ x ∈ ((expand3 g an (Core2.fresh num ss)).sits.drop
            (expand3 g an (Core2.fresh num ss)).nStart).zip (expand3 g an (Core2.fresh num ss)).parents,
        x.1.ctx = (ss.getD x.2 default).ctx) ∧
      InitNil (expand3 g an (Core2.fresh num ss)) := by
  obtain ⟨p1, h1⟩ := expandLoop1_sim g an (C1Inv_fresh num ss)
  rw [fresh_proj] at p1
  unfold expand3
  generalize expandLoop1 g an (Core2.fresh num ss) = c1 at p1 h1
  have hlen := h1.len
  have hK0 : K2 c1 c1 := ⟨[], by simp, by simp, rfl, rfl, rfl, rfl⟩
  -- second loop
  obtain ⟨p2, h2⟩ := scanLoop_sim Core2.proj (K2 c1)
    (len := fun c : Core2 => c.sits.length) (step := expandStep2 g an)
    (len' := fun c : BS.Core => c.sits.length) (step' := BS.expandStep2With BS.addInitialSit g an)
    (fun s _ => by simp [Core2.proj]) (fun s i hs => expandStep2_sim hlen g an hs i)
    (expandFuel g c1) 0 c1 hK0
  have hfuel : expandFuel g c1 = BS.expandFuel g c1.proj := rfl
  have e2 : (expandLoop2 g an (expandFuel g c1) c1).proj =
      BS.expandLoop2With BS.addInitialSit g an (BS.expandFuel g c1.proj) c1.proj := by
    unfold expandLoop2 BS.expandLoop2With
    rw [← hfuel]; exact p2
  have hK2 : K2 c1 (expandLoop2 g an (expandFuel g c1) c1) := h2
  generalize expandLoop2 g an (expandFuel g c1) c1 = c2 at e2 hK2
  -- third loop
  obtain ⟨p3, h3⟩ := foldl_sim Core2.proj (K2 c1) (step := expandStep3 g)
    (step' := BS.expandStep3 g) (List.range c2.sits.length)
    (fun s i _ hs => expandStep3_sim g hs i) c2 hK2
  have e3 : (expandLoop3 g c2).proj = BS.expandLoop3 g c2.proj := by
    unfold expandLoop3 BS.expandLoop3
    have : c2.proj.sits.length = c2.sits.length := by simp [Core2.proj]
    rw [this]; exact p3
  have hK3 : K2 c1 (expandLoop3 g c2) := h3
  generalize expandLoop3 g c2 = c3 at e3 hK3
  obtain ⟨I, hI, hnil, a1, a2, a3, _⟩ := hK3
  have hns : c1.nStart ≤ c1.sits.length := by have := h1.nAll; omega
  refine ⟨?_, ?_, ?_, ?_⟩
  · rw [e3, e2, p1]; rfl
  · rw [hI, a1, List.take_append_of_le_length hns]; exact h1.start
  · intro x hx
    rw [hI, a1, a3, List.drop_append_of_le_length hns,
      BS.zip_append_of_length_le _ _ _ (by rw [List.length_drop]; have := h1.nAll; omega)] at hx
    exact h1.zipctx x hx
  · intro i hi
    unfold Core2.ctxAt
    rw [hI, List.getD_eq_getElem?_getD]
    rw [a2] at hi
    rw [List.getElem?_append_right (by omega)]
    cases hg : I[i - c1.sits.length]? with
    | none => rfl
    | some s => exact hnil s (List.mem_of_getElem? hg)

/-! ## the whole of `expand_new_start_set` -/

theorem sitAt_get {c : Core2} {k : Nat} (hk : k < c.sits.length) : c.sits[k]? = some (c.sitAt k) := by
  unfold Core2.sitAt
  rw [List.getD_eq_getElem?_getD, List.getElem?_eq_getElem hk]; rfl

theorem sitAt_of_get {c : Core2} {k : Nat} {s : Sit2} (h : c.sits[k]? = some s) : c.sitAt k = s := by
  unfold Core2.sitAt
  rw [List.getD_eq_getElem?_getD, h]; rfl

theorem nextOf_proj (g : Grammar) (c : Core2) (k : Nat) :
    BS.nextOf g c.proj.sits k = g.nextSym (c.sitAt k).rule (c.sitAt k).dot := by
  unfold BS.nextOf
  show g.nextSym ((c.sits.map Sit2.proj).getD k default).1 ((c.sits.map Sit2.proj).getD k default).2 = _
  rw [getD_map_proj]; rfl

/-- exact transition vectors, from the specification of levels 0/1 -/
theorem transExact_of_proj {g : Grammar} {an : Analysis} {num : Nat} {ss : List BS.Sit} {c : Core2}
    (h : BS.ExpandSpec g an num ss c.proj) : TransExact g c := by
  intro X k
  have e : c.transOf X = c.proj.transOf X := rfl
  rw [e, h.trans, BS.vecOf_getD, BS.mem_filt, nextOf_proj]
  have : c.proj.sits.length = c.sits.length := by simp [Core2.proj]
  rw [this]

theorem PreFix_of_CLInv {g : Grammar} {an : Analysis} {c0 c : Core2} (h : CLInv g an c0 c)
    {Y : Nat → List Nat} (hY : PreFix g an c Y) : PreFix g an c0 Y := by
  obtain ⟨_, hnA, hlen, hrd⟩ := proj_facts h.proj
  intro k hk A hnx a ha
  have := hY k (by omega) A (by rw [(hrd k).1, (hrd k).2]; exact hnx) a
  apply this
  rw [(hrd k).1, (hrd k).2, hnA, lhsOf_eq_of_rule (hrd k).1]
  by_cases hlow : k < c0.nAllDists
  · rw [if_pos hlow] at ha ⊢
    have e : c.ctxAt k = c0.ctxAt k := by
      unfold Core2.ctxAt
      have := h.low k hlow
      unfold Core2.sitAt at this
      rw [this]
    rw [e]; exact ha
  · rw [if_neg hlow] at ha ⊢; exact ha

/-- The core `c` is what `expand_new_start_set` makes, at level 2, of the start situations
`ss`. -/
structure ExpandSpec2 (g : Grammar) (num : Nat) (ss : List Sit2) (c : Core2) : Prop where
  /-- without the contexts: the core of levels 0/1 -/
  proj : c.proj = BS.expandNewStartSet g g.analysis (BS.Core.fresh num (ss.map Sit2.proj))
  start : ∀ i, i < ss.length → c.sitAt i = ss.getD i default
  /-- a derived situation has the context of its parent -/
  dctx : ∀ i p, c.nStart ≤ i → i < c.nAllDists → c.parents[i - c.nStart]? = some p →
    c.ctxAt i = (ss.getD p default).ctx
  /-- the contexts of the initial situations are a fixpoint of the loop body … -/
  fix : ∀ i, c.nAllDists ≤ i → i < c.sits.length → newCtx g g.analysis c i = c.ctxAt i
  /-- … below every pre-fixpoint … -/
  least : ∀ Y, PreFix g g.analysis c Y → ∀ i, c.nAllDists ≤ i → i < c.sits.length →
    ∀ a ∈ c.ctxAt i, a ∈ Y (lhsOf g (c.sitAt i))
  /-- … in canonical form, made of terminal numbers -/
  canon : ∀ i, c.nAllDists ≤ i → i < c.sits.length → SortedLt (c.ctxAt i)
  bnd : ∀ i, c.nAllDists ≤ i → i < c.sits.length → ∀ a ∈ c.ctxAt i, a < g.nT

theorem ExpandSpec2.spec {g : Grammar} {num : Nat} {ss : List Sit2} {c : Core2}
    (h : ExpandSpec2 g num ss c) : BS.ExpandSpec g g.analysis num (ss.map Sit2.proj) c.proj := by
  rw [h.proj]; exact BS.expandNewStartSet_spec g g.analysis num _

theorem ExpandSpec2.nStart {g : Grammar} {num : Nat} {ss : List Sit2} {c : Core2}
    (h : ExpandSpec2 g num ss c) : c.nStart = ss.length := by
  have := h.spec.nStart
  simpa [Core2.proj] using this

theorem ExpandSpec2.transExact {g : Grammar} {num : Nat} {ss : List Sit2} {c : Core2}
    (h : ExpandSpec2 g num ss c) : TransExact g c := transExact_of_proj h.spec

/-- facts about the core after the three loops, in index form -/
theorem expand3_index (g : Grammar) (an : Analysis) (num : Nat) (ss : List Sit2) :
    (∀ i, i < ss.length → (expand3 g an (Core2.fresh num ss)).sitAt i = ss.getD i default) ∧
    (∀ i p, (expand3 g an (Core2.fresh num ss)).nStart ≤ i →
      i < (expand3 g an (Core2.fresh num ss)).nAllDists →
      (expand3 g an (Core2.fresh num ss)).parents[i - (expand3 g an (Core2.fresh num ss)).nStart]? = some p →
      (expand3 g an (Core2.fresh num ss)).ctxAt i = (ss.getD p default).ctx) := by
  obtain ⟨hp, hstart, hzip, _⟩ := expand3_sim g an num ss
  have hsp : BS.ExpandSpec g an num (ss.map Sit2.proj) (expand3 g an (Core2.fresh num ss)).proj := by
    rw [hp]; exact BS.expandNewStartSet_spec g an num _
  generalize expand3 g an (Core2.fresh num ss) = c at hp hstart hzip hsp
  have hns : c.nStart = ss.length := by
    have := hsp.nStart
    simpa [Core2.proj] using this
  have hle' : c.nAllDists ≤ c.sits.length := by
    have := hsp.le'
    simpa [Core2.proj] using this
  refine ⟨?_, ?_⟩
  · intro i hi
    unfold Core2.sitAt
    rw [← hstart, List.getD_eq_getElem?_getD, List.getD_eq_getElem?_getD,
      List.getElem?_take_of_lt (by omega)]
  · intro i p h1 h2 h3
    have hlt : i < c.sits.length := by omega
    have hmem : (c.sitAt i, p) ∈ (c.sits.drop c.nStart).zip c.parents := by
      rw [List.mem_iff_getElem?]
      refine ⟨i - c.nStart, ?_⟩
      rw [List.getElem?_zip_eq_some, List.getElem?_drop,
        show c.nStart + (i - c.nStart) = i by omega]
      exact ⟨sitAt_get hlt, h3⟩
    exact hzip _ hmem

/-- **`expand_new_start_set` at level 2**, for start situations whose contexts are sets of
terminal numbers -/
theorem expandNewStartSet_spec2 {g : Grammar} (hsr : g.symsInRange = true) (num : Nat)
    (ss : List Sit2) (hb : ∀ s ∈ ss, ∀ a ∈ s.ctx, a < g.nT) :
    ExpandSpec2 g num ss (expandNewStartSet g g.analysis (Core2.fresh num ss)) ∧
    ∀ extra, ctxLoopWith flagOr g g.analysis
        (ctxFuel g (expand3 g g.analysis (Core2.fresh num ss)) + extra)
        (expand3 g g.analysis (Core2.fresh num ss)) =
      expandNewStartSet g g.analysis (Core2.fresh num ss) := by
  obtain ⟨hp, _, _, hnil⟩ := expand3_sim g g.analysis num ss
  obtain ⟨hstart, hdctx⟩ := expand3_index g g.analysis num ss
  have hsp : BS.ExpandSpec g g.analysis num (ss.map Sit2.proj)
      (expand3 g g.analysis (Core2.fresh num ss)).proj := by
    rw [hp]; exact BS.expandNewStartSet_spec g g.analysis num _
  have heq : expandNewStartSet g g.analysis (Core2.fresh num ss) =
      ctxLoopWith flagOr g g.analysis (ctxFuel g (expand3 g g.analysis (Core2.fresh num ss)))
        (expand3 g g.analysis (Core2.fresh num ss)) := rfl
  rw [heq]
  generalize expand3 g g.analysis (Core2.fresh num ss) = c0 at hp hnil hstart hdctx hsp
  have htr : TransExact g c0 := transExact_of_proj hsp
  have hns : c0.nStart = ss.length := by
    have := hsp.nStart
    simpa [Core2.proj] using this
  have hshape := hsp.shape
  have hle : c0.nStart ≤ c0.nAllDists := hshape.le
  have hplen : c0.parents.length = c0.nAllDists - c0.nStart := hshape.plen
  have hbss : ∀ p, ∀ a ∈ (ss.getD p default).ctx, a < g.nT := by
    intro p a ha
    rw [List.getD_eq_getElem?_getD] at ha
    cases hg : ss[p]? with
    | none => rw [hg] at ha; cases ha
    | some s => rw [hg] at ha; exact hb s (List.mem_of_getElem? hg) a ha
  have hbase : ∀ k, k < c0.nAllDists → ∀ a ∈ c0.ctxAt k, a < g.nT := by
    intro k hk a ha
    rcases Nat.lt_or_ge k c0.nStart with hs | hs
    · have := hstart k (by omega)
      unfold Core2.ctxAt at ha
      unfold Core2.sitAt at this
      rw [this] at ha
      exact hbss k a ha
    · have hpl : k - c0.nStart < c0.parents.length := by omega
      rw [hdctx k _ hs hk (List.getElem?_eq_getElem hpl)] at ha
      exact hbss _ a ha
  obtain ⟨hinv, hfix, hstable⟩ := ctxLoopOn_spec hsr hbase htr (ctxOrder c0)
    (fun i hi => mem_ctxOrder.mp hi) (fun i h1 h2 => mem_ctxOrder.mpr ⟨h1, h2⟩)
    (ctxFuel g c0) c0 (CLInv_init hnil) (by unfold ctxFuel; omega)
  refine ⟨?_, hstable⟩
  unfold ctxLoopWith
  generalize ctxLoopOn flagOr g g.analysis (ctxOrder c0) (ctxFuel g c0) c0 = c at hinv hfix
  obtain ⟨_, hnA, hlen, hrd⟩ := proj_facts hinv.proj
  have hpn : c.nStart = c0.nStart := by
    have : c.proj.nStart = c0.proj.nStart := by rw [hinv.proj]
    exact this
  have hpp : c.parents = c0.parents := by
    have : c.proj.parents = c0.proj.parents := by rw [hinv.proj]
    exact this
  refine ⟨hinv.proj.trans hp, ?_, ?_, ?_, ?_, ?_, ?_⟩
  · intro i hi
    rw [hinv.low i (by omega)]; exact hstart i hi
  · intro i p h1 h2 h3
    rw [hpn] at h1 h3; rw [hnA] at h2; rw [hpp] at h3
    have e : c.ctxAt i = c0.ctxAt i := by
      unfold Core2.ctxAt
      have := hinv.low i h2
      unfold Core2.sitAt at this
      rw [this]
    rw [e]; exact hdctx i p h1 h2 h3
  · intro i h1 h2
    rw [hnA] at h1; rw [hlen] at h2
    exact hfix i h1 h2
  · intro Y hY i h1 h2 a ha
    rw [hnA] at h1; rw [hlen] at h2
    rw [lhsOf_eq_of_rule (hrd i).1]
    exact hinv.least Y (PreFix_of_CLInv hinv hY) i h1 h2 a ha
  · intro i h1 h2
    rw [hnA] at h1; rw [hlen] at h2
    exact hinv.canon i h1 h2
  · intro i h1 h2
    rw [hnA] at h1; rw [hlen] at h2
    exact hinv.bnd i h1 h2

end Yaep.BS2
