import Yaep.Model.ObjStack
/-!
# Byte memory lemmas shared by the object stack and the variable length object (C19)

After this file the memory is used only through `Mem.get`, `get_tabulate`, `get_writeAt`,
`get_havoc` and the `readMem` lemmas.
-/
namespace Yaep.Model.ObjStack

theorem get_tabulate (n : Nat) (f : Nat → Option Nat) (i : Nat) :
    (tabulate n f).get i = if i < n then f i else none := by
  unfold tabulate Mem.get
  by_cases h : i < n <;> simp [h]

@[simp] theorem get_emptyMem (i : Nat) : emptyMem.get i = none := by
  simp [emptyMem, Mem.get]

theorem get_of_size_le (m : Mem) (i : Nat) (h : m.size ≤ i) : m.get i = none := by
  unfold Mem.get
  rw [Array.getElem?_eq_none h]; rfl

theorem get_writeAt (m : Mem) (off : Nat) (bs : List Nat) (i : Nat) :
    (writeAt m off bs).get i = if off ≤ i ∧ i < off + bs.length then bs[i - off]? else m.get i := by
  unfold writeAt
  simp only [get_tabulate, List.size_toArray, List.getElem?_toArray]
  by_cases hr : off ≤ i ∧ i < off + bs.length
  · have : i < max m.size (off + bs.length) := by omega
    simp [hr, this]
  · by_cases hs : i < max m.size (off + bs.length)
    · simp [hr, hs]
    · have : m.size ≤ i := by omega
      simp [hr, hs, get_of_size_le m i this]

theorem get_havoc (m : Mem) (off n : Nat) (i : Nat) :
    (havoc m off n).get i = if off ≤ i ∧ i < off + n then none else m.get i := by
  unfold havoc
  simp only [get_tabulate]
  by_cases hs : i < m.size
  · simp [hs]
  · have : m.size ≤ i := by omega
    simp [hs, get_of_size_le m i this]

@[simp] theorem length_readMem (m : Mem) (off len : Nat) : (readMem m off len).length = len := by
  simp [readMem]

theorem getElem?_readMem (m : Mem) (off len k : Nat) :
    (readMem m off len)[k]? = if k < len then some (m.get (off + k)) else none := by
  unfold readMem
  by_cases h : k < len <;> simp [h]

theorem readMem_congr {m m' : Mem} {off off' len : Nat}
    (h : ∀ i, i < len → m.get (off + i) = m'.get (off' + i)) :
    readMem m off len = readMem m' off' len := by
  apply List.ext_getElem?
  intro k
  rw [getElem?_readMem, getElem?_readMem]
  by_cases hk : k < len
  · simp [hk, h k hk]
  · simp [hk]

theorem readMem_add (m : Mem) (off a b : Nat) :
    readMem m off (a + b) = readMem m off a ++ readMem m (off + a) b := by
  apply List.ext_getElem?
  intro k
  rw [getElem?_readMem, List.getElem?_append]
  simp only [length_readMem, getElem?_readMem]
  by_cases h1 : k < a
  · have : k < a + b := by omega
    simp [h1, this]
  · by_cases h2 : k < a + b
    · have : k - a < b := by omega
      have e : off + a + (k - a) = off + k := by omega
      simp [h1, h2, this, e]
    · have : ¬ (k - a < b) := by omega
      simp [h1, h2, this]

theorem readMem_zero (m : Mem) (off : Nat) : readMem m off 0 = [] := by simp [readMem]

theorem take_readMem (m : Mem) (off len k : Nat) (h : k ≤ len) :
    (readMem m off len).take k = readMem m off k := by
  have : len = k + (len - k) := by omega
  rw [this, readMem_add, List.take_left' (by simp)]

/-- reading what `writeAt` wrote -/
theorem readMem_writeAt_same (m : Mem) (off : Nat) (bs : List Nat) :
    readMem (writeAt m off bs) off bs.length = bs.map some := by
  apply List.ext_getElem?
  intro k
  rw [getElem?_readMem, get_writeAt]
  by_cases h : k < bs.length
  · have e : off + k - off = k := by omega
    simp [h, e]
  · simp [h]

/-- reading below (or above) the written area -/
theorem readMem_writeAt_disjoint (m : Mem) (off : Nat) (bs : List Nat) (o len : Nat)
    (h : o + len ≤ off ∨ off + bs.length ≤ o) :
    readMem (writeAt m off bs) o len = readMem m o len := by
  apply readMem_congr
  intro i hi
  rw [get_writeAt]
  have : ¬ (off ≤ o + i ∧ o + i < off + bs.length) := by omega
  simp [this]

theorem readMem_havoc_same (m : Mem) (off n : Nat) :
    readMem (havoc m off n) off n = List.replicate n none := by
  apply List.ext_getElem?
  intro k
  rw [getElem?_readMem, get_havoc, List.getElem?_replicate]
  by_cases h : k < n
  · have : off ≤ off + k ∧ off + k < off + n := by omega
    simp [h, this]
  · simp [h]

theorem readMem_havoc_disjoint (m : Mem) (off n o len : Nat)
    (h : o + len ≤ off ∨ off + n ≤ o) :
    readMem (havoc m off n) o len = readMem m o len := by
  apply readMem_congr
  intro i hi
  rw [get_havoc]
  have : ¬ (off ≤ o + i ∧ o + i < off + n) := by omega
  simp [this]

end Yaep.Model.ObjStack
