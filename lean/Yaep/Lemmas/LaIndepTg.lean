import Yaep.Lemmas.LaIndepBfs
import Yaep.Lemmas.BuildSet
/-!
# Lookahead independence, part 5: a stored set as a list of pairs (situation, distance)

`tg cs`: the situations of the set `cs` with their distances, in the order of the core.  Everything
`build_new_set` and `make_parse` read from an earlier set is a function of this list:

* the pairs shifted over a symbol `X` (`shift_trans_eq`): `shiftL` of the sublist `src` of the pairs
  with `X` after the dot;
* the items of the set (`items_eq_tg`).

For a set made by `expand_new_start_set` from the start pairs `ns` the list is
`ns ++ derivedT … ns ++ (initial situations with distance 0)` (`tg_eq`).
-/
namespace Yaep.LI
open Yaep Yaep.BS

/-- the situations of a stored set with their distances -/
def tg (cs : CSet) : List (Sit × Nat) :=
  (List.range cs.core.sits.length).map fun i => (cs.core.sits.getD i default, cs.distOf i)

/-- `X` is after the dot -/
def nextIs (g : Grammar) (X : Sym) (p : Sit × Nat) : Bool := g.nextSym p.1.1 p.1.2 == some X

/-- the pairs with `X` after the dot, in the order of the set -/
def src (g : Grammar) (cs : CSet) (X : Sym) : List (Sit × Nat) := (tg cs).filter (nextIs g X)

/-- move the dot of every pair that passes the test; the distance grows by `base` -/
def shiftL (ok : Nat → Nat → Bool) (base : Nat) (l : List (Sit × Nat)) : List (Sit × Nat) :=
  l.filterMap fun p => if ok p.1.1 (p.1.2 + 1) then some ((p.1.1, p.1.2 + 1), p.2 + base) else none

/-- the item of a pair of the set at position `j` -/
def toItem (j : Nat) (p : Sit × Nat) : Item := ⟨p.1.1, p.1.2, j - p.2⟩

theorem shift_trans_eq (g : Grammar) (ok : Nat → Nat → Bool) (cs : CSet) (base : Nat) (X : Sym)
    (hT : cs.core.transOf X = vecOf (filt g cs.core.sits cs.core.sits.length X)) :
    ((cs.core.transOf X).getD []).filterMap (shiftSit ok cs base) = shiftL ok base (src g cs X) := by
  rw [hT, vecOf_getD]
  unfold src tg shiftL filt
  rw [List.filter_map, List.filterMap_map]
  rfl

theorem items_eq_tg {cs : CSet} (hs : Shape cs.core) (j : Nat) : cs.items j = (tg cs).map (toItem j) := by
  unfold CSet.items tg
  rw [List.map_map]
  apply List.map_congr_left
  intro i _
  simp only [Function.comp, toItem]
  rw [originOf_eq, distOf_eq hs]

/-! ## small list facts -/

theorem range_map_getD {α β : Type} (l : List α) (d : α) (F : α → β) :
    (List.range l.length).map (fun k => F (l.getD k d)) = l.map F := by
  apply List.ext_getElem?
  intro i
  rw [List.getElem?_map, List.getElem?_map]
  by_cases hi : i < l.length
  · rw [List.getElem?_range hi, List.getElem?_eq_getElem hi]
    simp [List.getD_eq_getElem?_getD, List.getElem?_eq_getElem hi]
  · rw [List.getElem?_eq_none (by simpa using hi), List.getElem?_eq_none (by simpa using hi)]
    rfl

/-! ## the list of a set made by `expand_new_start_set` -/

/-- the derived non-start situations with the distance of their parent -/
def derivedT (g : Grammar) (nl : List Nat) (ns : List (Sit × Nat)) : List (Sit × Nat) :=
  ns.flatMap fun p => (chainOf g nl p.1).map fun s => (s, p.2)

theorem derivedT_take (g : Grammar) (nl : List Nat) (ns : List (Sit × Nat)) (n : Nat)
    (hn : n ≤ ns.length) :
    (derivedPairsN g nl (ns.map (·.1)) n).map (fun x => (x.1, (ns.map (·.2)).getD x.2 0)) =
      derivedT g nl (ns.take n) := by
  induction n with
  | zero => rfl
  | succ n ih =>
    have hlt : n < ns.length := by omega
    have hget : ns[n]? = some ns[n] := List.getElem?_eq_getElem hlt
    unfold derivedPairsN derivedT at ih ⊢
    rw [List.range_succ, List.flatMap_append, List.map_append, ih (by omega),
      take_succ_of_getElem? ns hget, List.flatMap_append]
    congr 1
    simp only [List.flatMap_cons, List.flatMap_nil, List.append_nil, List.map_map]
    have h1 : (ns.map (·.1)).getD n default = ns[n].1 := by
      rw [List.getD_eq_getElem?_getD, List.getElem?_map, hget]; rfl
    have h2 : (ns.map (·.2)).getD n 0 = ns[n].2 := by
      rw [List.getD_eq_getElem?_getD, List.getElem?_map, hget]; rfl
    rw [h1]
    apply List.map_congr_left
    intro s' _
    simp only [Function.comp, h2]

theorem derivedT_eq (g : Grammar) (nl : List Nat) (ns : List (Sit × Nat)) :
    (derivedPairs g nl (ns.map (·.1))).map (fun x => (x.1, (ns.map (·.2)).getD x.2 0)) =
      derivedT g nl ns := by
  unfold derivedPairs
  rw [List.length_map, derivedT_take g nl ns ns.length (Nat.le_refl _), List.take_length]

/-- **the list of a set in three parts** -/
theorem tg_eq {g : Grammar} {an : Analysis} {ns : List (Sit × Nat)} {cs : CSet} {I : List Sit}
    (h : ExpandLists g an (ns.map (·.1)) cs.core I) (hd : cs.dists = ns.map (·.2)) :
    tg cs = ns ++ derivedT g an.nl ns ++ I.map fun s => (s, 0) := by
  rw [← derivedT_eq]
  have hsits := h.sits
  have hns := h.nStart
  have hna := h.nAll
  have hpar := h.parents
  generalize derivedPairs g an.nl (ns.map (·.1)) = D at hsits hna hpar ⊢
  unfold tg
  have hlen : cs.core.sits.length = ns.length + D.length + I.length := by
    rw [hsits]; simp [Nat.add_assoc]
  rw [hlen, List.range_add, List.range_add, List.map_append, List.map_append, List.map_map,
    List.map_map]
  rw [List.length_map] at hns hna
  congr 1
  · congr 1
    · -- start situations
      have : ∀ i ∈ List.range ns.length,
          (fun i => (cs.core.sits.getD i default, cs.distOf i)) i =
          (fun i => (fun p : Sit × Nat => p) (ns.getD i default)) i := by
        intro i hi
        have hi' := List.mem_range.mp hi
        simp only
        have h1 : cs.core.sits.getD i default = (ns.getD i default).1 := by
          rw [hsits, List.append_assoc, List.getD_eq_getElem?_getD,
            List.getElem?_append_left (by simpa using hi'), List.getElem?_map,
            List.getD_eq_getElem?_getD, List.getElem?_eq_getElem hi']
          rfl
        have h2 : cs.distOf i = (ns.getD i default).2 := by
          unfold CSet.distOf
          rw [if_neg (by omega), if_pos (by omega), hd, List.getD_eq_getElem?_getD,
            List.getElem?_map, List.getD_eq_getElem?_getD, List.getElem?_eq_getElem hi']
          rfl
        rw [h1, h2]
      rw [List.map_congr_left this, range_map_getD ns default (fun p => p), List.map_id']
    · -- derived situations
      have : ∀ k ∈ List.range D.length,
          ((fun i => (cs.core.sits.getD i default, cs.distOf i)) ∘ fun x => ns.length + x) k =
          (fun k => (fun x : Sit × Nat => (x.1, (ns.map (·.2)).getD x.2 0)) (D.getD k default)) k := by
        intro k hk
        have hk' := List.mem_range.mp hk
        simp only [Function.comp]
        have h1 : cs.core.sits.getD (ns.length + k) default = (D.getD k default).1 := by
          rw [hsits, List.append_assoc, List.getD_eq_getElem?_getD,
            List.getElem?_append_right (by simp), List.length_map, Nat.add_sub_cancel_left,
            List.getElem?_append_left (by simpa using hk'), List.getElem?_map,
            List.getD_eq_getElem?_getD, List.getElem?_eq_getElem hk']
          rfl
        have h2 : cs.distOf (ns.length + k) = (ns.map (·.2)).getD (D.getD k default).2 0 := by
          unfold CSet.distOf
          rw [if_neg (by omega), if_neg (by omega), hd, hpar, hns, Nat.add_sub_cancel_left]
          congr 1
          rw [List.getD_eq_getElem?_getD, List.getElem?_map, List.getD_eq_getElem?_getD,
            List.getElem?_eq_getElem hk']
          rfl
        rw [h1, h2]
      rw [List.map_congr_left this]
      exact range_map_getD D default (fun x : Sit × Nat => (x.1, (ns.map (·.2)).getD x.2 0))
  · -- initial situations
    have : ∀ k ∈ List.range I.length,
        ((fun i => (cs.core.sits.getD i default, cs.distOf i)) ∘ fun x => ns.length + D.length + x) k =
        (fun k => (fun s : Sit => (s, 0)) (I.getD k default)) k := by
      intro k hk
      have hk' := List.mem_range.mp hk
      simp only [Function.comp]
      have h1 : cs.core.sits.getD (ns.length + D.length + k) default = I.getD k default := by
        rw [hsits, List.getD_eq_getElem?_getD, List.getElem?_append_right (by simp)]
        simp only [List.length_append, List.length_map, Nat.add_sub_cancel_left]
        rw [List.getD_eq_getElem?_getD]
      have h2 : cs.distOf (ns.length + D.length + k) = 0 := by
        unfold CSet.distOf
        rw [if_pos (by omega)]
      rw [h1, h2]
    rw [List.map_congr_left this]
    exact range_map_getD I default (fun s : Sit => (s, 0))

end Yaep.LI
