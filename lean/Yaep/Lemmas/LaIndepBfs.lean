import Yaep.Lemmas.LaIndepExpand
/-!
# Lookahead independence, part 4: the order of the initial situations of a core

The initial situations are `iterI (newB …)` (`LaIndepExpand.lean`).

* `bfs_restrict`: for a property `K` of situations such that a `K`-situation is only ever added
  because of a `K`-situation (`KClosed`), the `K`-subsequence of the final list depends only on the
  `K`-subsequence of the start and derived situations.
* `bfs_sorted`: the initial situations of the rules of one nonterminal appear in a fixed order (by
  dot, then by decreasing rule number) that does not depend on anything else.
-/
namespace Yaep.LI
open Yaep Yaep.BS

/-! ## small facts -/

theorem getElem?_filter_countP {α : Type} (K : α → Bool) {L : List α} {n : Nat} {x : α}
    (hx : L[n]? = some x) (hK : K x = true) :
    (L.filter K)[(L.take n).countP K]? = some x := by
  have hlt := (List.getElem?_eq_some_iff.mp hx).1
  have he := (List.getElem?_eq_some_iff.mp hx).2
  have hsplit : L = L.take n ++ x :: L.drop (n + 1) := by
    conv => lhs; rw [← List.take_append_drop n L, List.drop_eq_getElem_cons hlt, he]
  have hfil : L.filter K = (L.take n).filter K ++ x :: (L.drop (n + 1)).filter K := by
    conv => lhs; rw [hsplit, List.filter_append, List.filter_cons_of_pos hK]
  rw [hfil, List.countP_eq_length_filter, List.getElem?_append_right (Nat.le_refl _), Nat.sub_self]
  rfl

theorem countP_take_mono {α : Type} (K : α → Bool) (L : List α) {k n : Nat} (h : k ≤ n) :
    (L.take k).countP K ≤ (L.take n).countP K := by
  have : L.take k = (L.take n).take k := by rw [List.take_take, Nat.min_eq_left h]
  rw [this]
  have h2 := List.take_append_drop k (L.take n)
  conv => rhs; rw [← h2, List.countP_append]
  omega

theorem countP_take_lt_of_lt {α : Type} (K : α → Bool) {L : List α} {k n : Nat} {y : α}
    (hy : L[k]? = some y) (hK : K y = true) (h : k < n) :
    (L.take k).countP K < (L.take n).countP K := by
  have h1 := countP_take_succ K hy
  rw [if_pos hK] at h1
  have h2 := countP_take_mono K L (k := k + 1) (n := n) h
  omega

theorem nextOf_eq_of_get {g : Grammar} {L : List Sit} {k : Nat} {y : Sit} (h : L[k]? = some y) :
    nextOf g L k = g.nextSym y.1 y.2 := by
  unfold nextOf
  rw [List.getD_eq_getElem?_getD, h]; rfl

theorem filt_ne_nil_iff {g : Grammar} {L : List Sit} {n : Nat} {X : Sym} :
    filt g L n X ≠ [] ↔ ∃ k, k < n ∧ nextOf g L k = some X := by
  constructor
  · intro h
    obtain ⟨k, hk⟩ := List.exists_mem_of_ne_nil _ h
    exact ⟨k, mem_filt.mp hk⟩
  · rintro ⟨k, hk⟩ h
    have := mem_filt.mpr hk
    rw [h] at this
    cases this

/-! ## restriction to a closed property -/

/-- a situation with property `K` is added only because of a situation with property `K` -/
structure KClosed (g : Grammar) (an : Analysis) (K : Sit → Bool) : Prop where
  pred : ∀ r B (y : Sit), r ∈ rulesOf g B → K (r, 0) = true →
    g.nextSym y.1 y.2 = some (Sym.n B) → K y = true
  adv : ∀ (y : Sit) X, g.nextSym y.1 y.2 = some X → symNullable an.nl X = true →
    K (y.1, y.2 + 1) = true → K y = true

/-- the restricted generator -/
def newBK (g : Grammar) (an : Analysis) (K : Sit → Bool) (nA : Nat) (L : List Sit) (c : Nat) :
    List Sit :=
  (newB g an nA L c).filter K

theorem newB_compat {g : Grammar} {an : Analysis} {K : Sit → Bool} (hK : KClosed g an K)
    (pre I : List Sit) {n : Nat} {x : Sit} (hx : (pre ++ I)[n]? = some x) :
    (K x = true → (newB g an pre.length (pre ++ I) n).filter K =
      newBK g an K (pre.filter K).length ((pre ++ I).filter K) (((pre ++ I).take n).countP K)) ∧
    (K x = false → (newB g an pre.length (pre ++ I) n).filter K = []) := by
  have hlt := (List.getElem?_eq_some_iff.mp hx).1
  have hgetD : (pre ++ I).getD n default = x := by
    rw [List.getD_eq_getElem?_getD, hx]; rfl
  have hnx : nextOf g (pre ++ I) n = g.nextSym x.1 x.2 := nextOf_eq_of_get hx
  constructor
  · intro hKx
    generalize hL : pre ++ I = L at hx hlt hgetD hnx
    generalize hc : (L.take n).countP K = c
    have hxc : (L.filter K)[c]? = some x := by rw [← hc]; exact getElem?_filter_countP K hx hKx
    have hgetDc : (L.filter K).getD c default = x := by
      rw [List.getD_eq_getElem?_getD, hxc]; rfl
    have hnxc : nextOf g (L.filter K) c = g.nextSym x.1 x.2 := nextOf_eq_of_get hxc
    unfold newBK newB
    rw [hnx, hnxc]
    cases hs : g.nextSym x.1 x.2 with
    | none => rfl
    | some symb =>
      simp only
      rw [List.filter_append, List.filter_append, hgetD, hgetDc]
      -- the two conditions on the position
      have hpos : (pre.length ≤ n) ↔ ((pre.filter K).length ≤ c) := by
        rw [← hc, ← hL]
        constructor
        · intro hle
          have : (pre ++ I).take n = pre ++ I.take (n - pre.length) := by
            rw [List.take_append, List.take_of_length_le hle]
          rw [this, List.countP_append, List.countP_eq_length_filter]
          omega
        · intro hle
          refine Decidable.byContradiction fun hnot => ?_
          have hn : n < pre.length := by omega
          have htk : (pre ++ I).take n = pre.take n := by
            rw [List.take_append_of_le_length (Nat.le_of_lt hn)]
          have hxp : pre[n]? = some x := by
            rw [← hL, List.getElem?_append_left hn] at hx; exact hx
          rw [htk] at hle
          have := countP_take_lt K hxp hKx
          omega
      congr 1
      · -- predictions
        cases symb with
        | t a => simp
        | n B =>
        simp only
        by_cases hP : ∃ r ∈ rulesOf g B, K (r, 0) = true
        · obtain ⟨r, hr, hKr⟩ := hP
          have hall : ∀ y : Sit, g.nextSym y.1 y.2 = some (Sym.n B) → K y = true :=
            fun y hy => hK.pred r B y hr hKr hy
          have hiff : filt g L n (Sym.n B) ≠ [] ↔ filt g (L.filter K) c (Sym.n B) ≠ [] := by
            rw [filt_ne_nil_iff, filt_ne_nil_iff]
            constructor
            · rintro ⟨k, hk, hnk⟩
              have hkL : k < L.length := by omega
              have hyk : L[k]? = some L[k] := List.getElem?_eq_getElem hkL
              rw [nextOf_eq_of_get hyk] at hnk
              have hKy := hall _ hnk
              refine ⟨(L.take k).countP K, ?_, ?_⟩
              · rw [← hc]; exact countP_take_lt_of_lt K hyk hKy hk
              · rw [nextOf_eq_of_get (getElem?_filter_countP K hyk hKy)]; exact hnk
            · rintro ⟨k', hk', hnk'⟩
              have hcle : c ≤ (L.filter K).length := by
                rw [← hc, ← List.countP_eq_length_filter]
                have := countP_take_mono K L (k := n) (n := L.length) (Nat.le_of_lt hlt)
                rwa [List.take_length] at this
              have hk'L : k' < (L.filter K).length := by omega
              have hy' : (L.filter K)[k']? = some (L.filter K)[k'] := List.getElem?_eq_getElem hk'L
              rw [nextOf_eq_of_get hy'] at hnk'
              have hmem : (L.filter K)[k'] ∈ (L.filter K).take c := by
                rw [List.mem_take_iff_getElem]
                exact ⟨k', by omega, rfl⟩
              rw [← hc, filter_take_countP] at hmem
              have hmem' := (List.mem_filter.mp hmem).1
              obtain ⟨k, hk, hek⟩ := List.mem_take_iff_getElem.mp hmem'
              refine ⟨k, by omega, ?_⟩
              have hkL : k < L.length := by omega
              rw [nextOf_eq_of_get (List.getElem?_eq_getElem hkL), hek]
              exact hnk'
          by_cases hf : filt g L n (Sym.n B) ≠ []
          · rw [if_pos hf, if_pos (hiff.mp hf)]
          · rw [if_neg hf, if_neg (fun h => hf (hiff.mpr h))]
        · -- no predicted situation has the property: both sides are empty
          have hM : List.filter K ((rulesOf g B).map fun r => (r, 0)) = [] := by
            apply List.filter_eq_nil_iff.mpr
            intro y hy hKy
            obtain ⟨r, hr, rfl⟩ := List.mem_map.mp hy
            exact hP ⟨r, hr, hKy⟩
          simp only [apply_ite (List.filter K), List.filter_nil, hM, ite_self]
      · -- the situation with the dot moved
        have : (decide (pre.length ≤ n)) = decide ((pre.filter K).length ≤ c) := by
          by_cases h : pre.length ≤ n
          · simp [h, hpos.mp h]
          · have : ¬ (pre.filter K).length ≤ c := fun h' => h (hpos.mpr h')
            simp [h, this]
        rw [this]
  · intro hKx
    unfold newB
    rw [hnx]
    cases hs : g.nextSym x.1 x.2 with
    | none => rfl
    | some symb =>
      simp only
      rw [List.filter_append, hgetD]
      have h2 : (if (symNullable an.nl symb && decide (pre.length ≤ n)) = true then
          [(x.1, x.2 + 1)] else []).filter K = [] := by
        apply List.filter_eq_nil_iff.mpr
        intro y hy hKy
        split at hy
        · rename_i hcond
          have hy' : y = (x.1, x.2 + 1) := by simpa using hy
          subst hy'
          have hn : symNullable an.nl symb = true := by
            simp only [Bool.and_eq_true] at hcond; exact hcond.1
          have := hK.adv x symb hs hn hKy
          rw [hKx] at this; cases this
        · cases hy
      rw [h2, List.append_nil]
      cases symb with
      | t a => simp
      | n B =>
        simp only
        have h1 : List.filter K ((rulesOf g B).map fun r => (r, 0)) = [] := by
          apply List.filter_eq_nil_iff.mpr
          intro y hy hKy
          obtain ⟨r, hr, rfl⟩ := List.mem_map.mp hy
          have := hK.pred r B x hr hKy hs
          rw [hKx] at this; cases this
        simp only [apply_ite (List.filter K), List.filter_nil, h1, ite_self]

/-- **the `K`-subsequence of the initial situations depends only on the `K`-subsequence of the start
and derived situations** -/
theorem bfs_restrict {g : Grammar} {an : Analysis} {K : Sit → Bool} (hK : KClosed g an K)
    {pre0 pre1 : List Sit} (hpre : pre1.filter K = pre0.filter K) {n0 n1 : Nat}
    (h0 : n0 = (pre0 ++ iterI (newB g an pre0.length) pre0 [] n0).length)
    (h1 : n1 = (pre1 ++ iterI (newB g an pre1.length) pre1 [] n1).length) :
    (iterI (newB g an pre0.length) pre0 [] n0).filter K =
      (iterI (newB g an pre1.length) pre1 [] n1).filter K := by
  obtain ⟨c0, e0, t0⟩ := iterI_restrict_terminal K (newB g an pre0.length)
    (newBK g an K (pre0.filter K).length) pre0 []
    (fun n x hx => newB_compat hK pre0 _ hx) h0
  obtain ⟨c1, e1, t1⟩ := iterI_restrict_terminal K (newB g an pre1.length)
    (newBK g an K (pre1.filter K).length) pre1 []
    (fun n x hx => newB_compat hK pre1 _ hx) h1
  rw [hpre] at e1 t1
  rw [e0, e1]
  exact iterI_terminal_unique _ _ _ t0 t1

/-! ## the order of the situations of one nonterminal -/

/-- by dot, then by decreasing rule number -/
def Before (x y : Sit) : Prop := x.2 < y.2 ∨ (x.2 = y.2 ∧ y.1 < x.1)

/-- two situations of rules with the same left-hand side are in the order `Before` -/
def SOrd (g : Grammar) (x y : Sit) : Prop := lhsOf g x = lhsOf g y → Before x y

theorem Before.asymm {x y : Sit} (h1 : Before x y) (h2 : Before y x) : False := by
  unfold Before at h1 h2; omega

theorem lhsOf_eq (g : Grammar) (r d d' : Nat) : lhsOf g (r, d) = lhsOf g (r, d') := rfl

theorem lhsOf_rulesOf {g : Grammar} {B r : Nat} (h : r ∈ rulesOf g B) (d : Nat) :
    lhsOf g (r, d) = B := by
  obtain ⟨rl, hr, hl⟩ := mem_rulesOf.mp h
  unfold lhsOf
  rw [List.getD_eq_getElem?_getD, hr]; exact hl

/-- `rulesOf` lists the rules of a nonterminal by decreasing number -/
theorem rulesOf_pairwise (g : Grammar) (B : Nat) : (rulesOf g B).Pairwise (fun a b => b < a) := by
  unfold rulesOf Grammar.rulesFor
  rw [List.pairwise_reverse]
  apply List.Pairwise.filter
  exact List.pairwise_lt_range

theorem addNew_spec {α : Type} [DecidableEq α] (s xs : List α) :
    ∃ e, addNew s xs = s ++ e ∧ List.Sublist e xs ∧ ∀ y ∈ e, y ∉ s := by
  induction xs generalizing s with
  | nil => exact ⟨[], by simp [addNew], List.Sublist.refl _, by simp⟩
  | cons x xs ih =>
    rw [addNew_cons]
    by_cases hx : x ∈ s
    · rw [if_pos hx]
      obtain ⟨e, h1, h2, h3⟩ := ih s
      exact ⟨e, h1, h2.cons _, h3⟩
    · rw [if_neg hx]
      obtain ⟨e, h1, h2, h3⟩ := ih (s ++ [x])
      refine ⟨x :: e, by rw [h1]; simp, h2.cons_cons _, ?_⟩
      intro y hy
      rcases List.mem_cons.mp hy with rfl | hy
      · exact hx
      · exact fun hys => h3 y hy (List.mem_append_left _ hys)

/-- invariant of the iteration at round `n` -/
structure SInv (g : Grammar) (pre : List Sit) (n : Nat) (I : List Sit) : Prop where
  nodup : I.Nodup
  zero : ∀ r, (r, 0) ∈ I → ∃ k, k < n ∧ k < (pre ++ I).length ∧
    nextOf g (pre ++ I) k = some (Sym.n (lhsOf g (r, 0)))
  succ : ∀ r d, (r, d + 1) ∈ I → ∃ k, pre.length ≤ k ∧ k < n ∧ k < (pre ++ I).length ∧
    (pre ++ I).getD k default = (r, d)
  sorted : I.Pairwise (SOrd g)

theorem SInv.down {g : Grammar} {pre : List Sit} {n : Nat} {I : List Sit} (h : SInv g pre n I)
    (r : Nat) : ∀ d, (r, d) ∈ I → (r, 0) ∈ I := by
  intro d
  induction d with
  | zero => exact id
  | succ d ih =>
    intro hm
    obtain ⟨k, hk1, _, hk3, hk4⟩ := h.succ r d hm
    apply ih
    rw [← hk4, List.getD_eq_getElem?_getD, List.getElem?_append_right hk1]
    have : k - pre.length < I.length := by rw [List.length_append] at hk3; omega
    rw [List.getElem?_eq_getElem this]
    exact List.getElem_mem this

/-- the nonterminal of a situation of `I` has been met before round `n` -/
theorem SInv.found {g : Grammar} {pre : List Sit} {n : Nat} {I : List Sit} (h : SInv g pre n I)
    {a : Sit} (ha : a ∈ I) :
    ∃ k, k < n ∧ nextOf g (pre ++ I) k = some (Sym.n (lhsOf g a)) := by
  obtain ⟨r, d⟩ := a
  obtain ⟨k, h1, _, h3⟩ := h.zero r (h.down r d ha)
  exact ⟨k, h1, h3⟩

theorem SInv.mono {g : Grammar} {pre : List Sit} {n m : Nat} {I : List Sit} (h : SInv g pre n I)
    (hnm : n ≤ m) : SInv g pre m I := by
  refine ⟨h.nodup, ?_, ?_, h.sorted⟩
  · intro r hr
    obtain ⟨k, h1, h2⟩ := h.zero r hr
    exact ⟨k, by omega, h2⟩
  · intro r d hr
    obtain ⟨k, h0, h1, h2⟩ := h.succ r d hr
    exact ⟨k, h0, by omega, h2⟩

theorem SInv.step {g : Grammar} {an : Analysis} {pre : List Sit} {n : Nat} {I : List Sit}
    (h : SInv g pre n I) (hn : n < (pre ++ I).length) :
    SInv g pre (n + 1) (addNew I (newB g an pre.length (pre ++ I) n)) := by
  obtain ⟨e, he, hsub, hdis⟩ := addNew_spec I (newB g an pre.length (pre ++ I) n)
  rw [he]
  have hnd : (I ++ e).Nodup := by rw [← he]; exact addNew_nodup _ h.nodup
  -- values at old indices do not change
  have hold : ∀ k, k < (pre ++ I).length → (pre ++ (I ++ e)).getD k default = (pre ++ I).getD k default := by
    intro k hk
    rw [← List.append_assoc]; exact getD_append_left _ _ _ hk
  have holdn : ∀ k, k < (pre ++ I).length → nextOf g (pre ++ (I ++ e)) k = nextOf g (pre ++ I) k := by
    intro k hk
    rw [← List.append_assoc]; exact nextOf_append g _ _ hk
  have hlen : (pre ++ I).length ≤ (pre ++ (I ++ e)).length := by
    simp only [List.length_append]; omega
  -- what the new situations are
  have hnew : ∀ y ∈ e,
      (∃ B r, nextOf g (pre ++ I) n = some (Sym.n B) ∧ filt g (pre ++ I) n (Sym.n B) = [] ∧
        r ∈ rulesOf g B ∧ y = (r, 0)) ∨
      (pre.length ≤ n ∧ y = (((pre ++ I).getD n default).1, ((pre ++ I).getD n default).2 + 1)) := by
    intro y hy
    have hy' := hsub.subset hy
    unfold newB at hy'
    cases hnx : nextOf g (pre ++ I) n with
    | none => rw [hnx] at hy'; cases hy'
    | some symb =>
      rw [hnx] at hy'
      simp only at hy'
      rcases List.mem_append.mp hy' with hy' | hy'
      · split at hy'
        · cases hy'
        · rename_i hf
          cases symb with
          | t a => cases hy'
          | n B =>
            obtain ⟨r, hr, rfl⟩ := List.mem_map.mp hy'
            exact Or.inl ⟨B, r, rfl, by simpa using hf, hr, rfl⟩
      · split at hy'
        · rename_i hcond
          simp only [Bool.and_eq_true, decide_eq_true_eq] at hcond
          exact Or.inr ⟨hcond.2, by simpa using hy'⟩
        · cases hy'
  refine ⟨hnd, ?_, ?_, ?_⟩
  · -- zero
    intro r hr
    rcases List.mem_append.mp hr with hr | hr
    · obtain ⟨k, h1, h2, h3⟩ := h.zero r hr
      exact ⟨k, by omega, by omega, by rw [holdn k h2]; exact h3⟩
    · rcases hnew _ hr with ⟨B, r', hnx, _, hr', hy⟩ | ⟨_, hy⟩
      · have : r = r' := by injection hy
        subst this
        refine ⟨n, Nat.lt_succ_self _, by omega, ?_⟩
        rw [holdn n hn, hnx, lhsOf_rulesOf hr']
      · injection hy with _ h2; omega
  · -- succ
    intro r d hr
    rcases List.mem_append.mp hr with hr | hr
    · obtain ⟨k, h0, h1, h2, h3⟩ := h.succ r d hr
      exact ⟨k, h0, by omega, by omega, by rw [hold k h2]; exact h3⟩
    · rcases hnew _ hr with ⟨B, r', _, _, _, hy⟩ | ⟨hle, hy⟩
      · injection hy with _ h2; omega
      · refine ⟨n, hle, Nat.lt_succ_self _, by omega, ?_⟩
        rw [hold n hn]
        injection hy with h1 h2
        have h2' : d = ((pre ++ I).getD n default).2 := by omega
        rw [h1, h2']
  · -- sorted
    rw [List.pairwise_append]
    refine ⟨h.sorted, ?_, ?_⟩
    · -- the new situations among themselves
      have hP : (newB g an pre.length (pre ++ I) n).Pairwise (SOrd g) := by
        unfold newB
        cases hnx : nextOf g (pre ++ I) n with
        | none => exact List.Pairwise.nil
        | some symb =>
          simp only
          rw [List.pairwise_append]
          refine ⟨?_, ?_, ?_⟩
          · split
            · exact List.Pairwise.nil
            · cases symb with
              | t a => exact List.Pairwise.nil
              | n B =>
                rw [List.pairwise_map]
                exact (rulesOf_pairwise g B).imp (fun hab _ => Or.inr ⟨rfl, hab⟩)
          · split
            · exact List.pairwise_singleton _ _
            · exact List.Pairwise.nil
          · intro a ha b hb
            split at hb
            · have hb' := List.mem_singleton.mp hb
              split at ha
              · cases ha
              · cases symb with
                | t a' => cases ha
                | n B =>
                  obtain ⟨r, _, rfl⟩ := List.mem_map.mp ha
                  intro _
                  left
                  rw [hb']
                  exact Nat.succ_pos _
            · cases hb
      exact hP.sublist hsub
    · -- an old situation and a new one
      intro a ha b hb hlhs
      rcases hnew b hb with ⟨B, r, hnx, hf, hr, rfl⟩ | ⟨hle, rfl⟩
      · -- the nonterminal of `b` has not been met before: no old situation has it
        exfalso
        obtain ⟨k, hk1, hk2⟩ := h.found ha
        rw [hlhs, lhsOf_rulesOf hr] at hk2
        have := mem_filt.mpr ⟨hk1, hk2⟩
        rw [hf] at this
        cases this
      · -- `b` is the scanned situation with the dot moved
        obtain ⟨r', d'⟩ := a
        generalize hx : (pre ++ I).getD n default = x at hlhs hb ⊢
        obtain ⟨r0, d0⟩ := x
        simp only at hlhs ⊢
        -- the scanned situation is an initial situation
        have hxI : I[n - pre.length]? = some (r0, d0) := by
          have hlt : n - pre.length < I.length := by rw [List.length_append] at hn; omega
          rw [List.getD_eq_getElem?_getD, List.getElem?_append_right hle,
            List.getElem?_eq_getElem hlt] at hx
          rw [List.getElem?_eq_getElem hlt]
          exact congrArg some hx
        have hb_notin : (r0, d0 + 1) ∉ I := hdis _ hb
        -- the situation before an old one, as an element of `I`
        have hprev : ∀ d'', (r', d'' + 1) ∈ I → ∃ k, k < n - pre.length ∧ I[k]? = some (r', d'') := by
          intro d'' hm
          obtain ⟨k, hk0, hk1, hk2, hk3⟩ := h.succ r' d'' hm
          have hlt : k - pre.length < I.length := by rw [List.length_append] at hk2; omega
          refine ⟨k - pre.length, by omega, ?_⟩
          rw [List.getD_eq_getElem?_getD, List.getElem?_append_right hk0,
            List.getElem?_eq_getElem hlt] at hk3
          rw [List.getElem?_eq_getElem hlt]
          exact congrArg some hk3
        have hord : ∀ k d'', k < n - pre.length → I[k]? = some (r', d'') → Before (r', d'') (r0, d0) := by
          intro k d'' hk hk'
          have hk1 := (List.getElem?_eq_some_iff.mp hk').1
          have hn1 := (List.getElem?_eq_some_iff.mp hxI).1
          have := List.pairwise_iff_getElem.mp h.sorted k (n - pre.length) hk1 hn1 hk
          rw [(List.getElem?_eq_some_iff.mp hk').2, (List.getElem?_eq_some_iff.mp hxI).2] at this
          exact this hlhs
        show Before (r', d') (r0, d0 + 1)
        rcases Nat.lt_or_ge d' (d0 + 1) with hlt | hge
        · exact Or.inl hlt
        · cases d' with
          | zero => omega
          | succ d'' =>
            obtain ⟨k, hk, hk'⟩ := hprev d'' ha
            have hB := hord k d'' hk hk'
            unfold Before at hB ⊢
            simp only at hB ⊢
            rcases hB with hB | ⟨hB1, hB2⟩
            · omega
            · right
              exact ⟨by omega, hB2⟩

theorem SInv.init (g : Grammar) (pre : List Sit) : SInv g pre 0 [] :=
  ⟨List.nodup_nil, fun _ h => (by cases h), fun _ _ h => (by cases h), List.Pairwise.nil⟩

theorem bfs_sInv (g : Grammar) (an : Analysis) (pre : List Sit) (n : Nat) :
    SInv g pre n (iterI (newB g an pre.length) pre [] n) := by
  induction n with
  | zero => exact SInv.init g pre
  | succ n ih =>
    rw [iterI_succ]
    split
    · rename_i hlt; exact ih.step hlt
    · exact ih.mono (Nat.le_succ _)

/-- **the initial situations of the rules of one nonterminal are in the order `Before`** -/
theorem bfs_sorted (g : Grammar) (an : Analysis) (pre : List Sit) (n B : Nat) :
    ((iterI (newB g an pre.length) pre [] n).filter fun s => lhsOf g s == B).Pairwise Before := by
  have h := (bfs_sInv g an pre n).sorted
  have h2 := h.filter (fun s => lhsOf g s == B)
  refine List.Pairwise.imp_of_mem ?_ h2
  intro a b ha hb hab
  have ha' := (List.mem_filter.mp ha).2
  have hb' := (List.mem_filter.mp hb).2
  simp only [beq_iff_eq] at ha' hb'
  exact hab (by rw [ha', hb'])

end Yaep.LI
