import Yaep.Lemmas.LaIndepUnroll
import Yaep.Lemmas.MakeParseSoundPL
/-!
# Lookahead independence, part 10: the parse lists of levels 0 and 1

By induction on the position `j`, for an input accepted at both levels:

* the start pairs of set `j` at level 1 are those of level 0 that pass the level-1 test, in the same
  order (`newStarts_rel`; the sets before `j` hand the same source lists to `build_new_set` because
  their pairs with the property `prog` coincide);
* hence the pairs with the property `prog` of the two sets `j` coincide (`tg_filter_eq`) and the
  completed items are related by a mask (`mask_of_rel`).

Result: `setsRel_plSets`, the hypothesis of the simulation of `make_parse`.
-/
namespace Yaep.LI
open Yaep Yaep.BS

/-- the parse list of the step model at level `la` -/
abbrev plC (g : Grammar) (la : Nat) (w : List Nat) : List CSet := (buildPLC g la w).2.2

/-- what is known about an accepted run -/
structure LvlFacts (g : Grammar) (w : List Nat) (la : Nat) : Prop where
  len : (plC g la w).length = (w ++ [g.eofT]).length + 1
  plok : PLOK g (buildPL g la w).2 (plC g la w)
  items : ∀ j, j ≤ (w ++ [g.eofT]).length → ∀ it,
    it ∈ ((plC g la w).getD j default).items j ↔
      EarleyF g (laFilter g g.analysis la (w ++ [g.eofT])) (w ++ [g.eofT]) j it

theorem lvlFacts {g : Grammar} {w : List Nat} {la : Nat} (hacc : (buildPLC g la w).1 = none) :
    LvlFacts g w la := by
  obtain ⟨e1, e2, e3⟩ := buildPLC_eq_buildPL g la w
  obtain ⟨s1, s2, _⟩ := buildPL_spec g la w
  obtain ⟨_, _, h3, _⟩ := buildPLC_spec g la w
  rw [e1] at hacc
  obtain ⟨s3, _⟩ := s2 hacc
  refine ⟨by show (buildPLC g la w).2.2.length = _; rw [e2, s3], h3, ?_⟩
  intro j hj it
  have hj' : j < (buildPL g la w).2.length := by rw [s3]; omega
  rw [e3 j hj' it]
  exact s1 j hj' it

/-! ## prefixes -/

theorem getD_take {α : Type} (l : List α) (d : α) {m j : Nat} (h : m < j) :
    (l.take j).getD m d = l.getD m d := by
  rw [List.getD_eq_getElem?_getD, List.getD_eq_getElem?_getD, List.getElem?_take_of_lt h]

theorem getLastD_take {α : Type} (l : List α) (d : α) {j : Nat} (h1 : 1 ≤ j) (h2 : j ≤ l.length) :
    (l.take j).getLastD d = l.getD (j - 1) d := by
  rw [getLastD_eq_getD', List.length_take, Nat.min_eq_left h2, getD_take l d (by omega)]

/-! ## sources -/

theorem src_eq_of_filter_eq {g : Grammar} {c0 c1 : CSet} {P : Sit × Nat → Bool} {X : Sym}
    (h : (tg c1).filter P = (tg c0).filter P)
    (hP : ∀ p : Sit × Nat, g.nextSym p.1.1 p.1.2 = some X → P p = true) :
    src g c0 X = src g c1 X := by
  unfold src
  have himp : ∀ (l : List (Sit × Nat)), ∀ x ∈ l, nextIs g X x = true → P x = true := by
    intro l x _ hx
    apply hP
    simpa [nextIs] using hx
  rw [filter_filter_of_imp (p := P) _ (himp _), filter_filter_of_imp (p := P) (tg c1) (himp _), h]

/-- the trigger of a completion in `build_new_set`: an item with an empty tail whose origin is
before the current set.  The token at its origin begins the left-hand side. -/
theorem trigger_first {g : Grammar} (hsr : g.symsInRange = true) {w' : List Nat} {j : Nat}
    {ok : Nat → Nat → Nat → Bool} {p : Sit × Nat}
    (hE : EarleyF g ok w' j ⟨p.1.1, p.1.2, j - p.2⟩) (h1 : 1 ≤ p.2) (h2 : p.2 ≤ j)
    (het : emptyTailP g g.analysis p.1 = true) :
    ∃ c, w'[j - p.2]? = some c ∧
      ∀ y : Sit × Nat, g.nextSym y.1.1 y.1.2 = some (Sym.n (lhsOf g p.1)) → progA g c y.1 = true := by
  obtain ⟨rl, hr, hd, hle, hder⟩ := hE.sound
  simp only at hr hd hle hder
  have hjw := hE.le_length
  obtain ⟨rl', hr', hnil⟩ := der_of_emptyTail het
  rw [hr] at hr'; cases hr'
  have hfull : Der g rl.rhs (slice w' (j - p.2) j) := by
    have := Der.append hder hnil
    rwa [List.take_append_drop, List.append_nil] at this
  have hB : Der g [Sym.n rl.lhs] (slice w' (j - p.2) j) :=
    Der.of_mem_rules (List.mem_of_getElem? hr) hfull
  have hlen : (slice w' (j - p.2) j).length = p.2 := by
    unfold slice
    rw [List.length_take, List.length_drop]; omega
  cases hs : slice w' (j - p.2) j with
  | nil => rw [hs] at hlen; simp at hlen; omega
  | cons c u =>
    obtain ⟨hw, _, _⟩ := slice_cons hs
    refine ⟨c, hw, ?_⟩
    intro y hy
    have hlhs : lhsOf g p.1 = rl.lhs := by
      unfold lhsOf; rw [List.getD_eq_getElem?_getD, hr]; rfl
    rw [hlhs] at hy
    obtain ⟨rly, hry, hdrop⟩ := drop_of_next hy
    apply progA_iff.mpr
    refine ⟨rly, hry, ?_⟩
    rw [hdrop]
    rw [hs] at hB
    have := first_closed_aux hsr hB c u rfl
    rcases mem_firstOfStr_n.mp this with h | ⟨_, h⟩
    · exact mem_firstOfStr_n.mpr (Or.inl h)
    · simp at h

/-! ## the parts of a set -/

/-- an item of set `j ≥ 1` whose origin is `j` comes from an initial situation -/
theorem init_of_origin {g : Grammar} {an : Analysis} {ns : List (Sit × Nat)} {cs : CSet}
    {I : List Sit} {j : Nat} (h : ExpandLists g an (ns.map (·.1)) cs.core I)
    (hd : cs.dists = ns.map (·.2)) (hns : ∀ p ∈ ns, 1 ≤ p.2 ∧ p.2 ≤ j) (_hj : 1 ≤ j)
    {q : Sit × Nat} (hq : q ∈ tg cs) {s : Sit} (he : toItem j q = ⟨s.1, s.2, j⟩) : s ∈ I := by
  rw [tg_eq h hd] at hq
  have hq1 : q.1 = s := by
    unfold toItem at he
    injection he with h1 h2 _
    exact Prod.ext h1 h2
  have hq2 : j - q.2 = j := by
    unfold toItem at he
    injection he
  rcases List.mem_append.mp hq with hq | hq
  · exfalso
    rcases List.mem_append.mp hq with hq | hq
    · have := hns q hq; omega
    · unfold derivedT at hq
      obtain ⟨p, hp, hq⟩ := List.mem_flatMap.mp hq
      obtain ⟨s', _, rfl⟩ := List.mem_map.mp hq
      have := hns p hp
      simp only at hq2
      omega
  · obtain ⟨s', hs', rfl⟩ := List.mem_map.mp hq
    simp only at hq1
    rw [← hq1]; exact hs'

theorem mem_tg_init {g : Grammar} {an : Analysis} {ns : List (Sit × Nat)} {cs : CSet}
    {I : List Sit} (h : ExpandLists g an (ns.map (·.1)) cs.core I)
    (hd : cs.dists = ns.map (·.2)) {s : Sit} (hs : s ∈ I) : (s, 0) ∈ tg cs := by
  rw [tg_eq h hd]
  exact List.mem_append_right _ (List.mem_map.mpr ⟨s, hs, rfl⟩)

/-- the two sets made from the same start pairs have the same list -/
theorem tg_eq_of_same {g : Grammar} {an : Analysis} {ns : List (Sit × Nat)} {cs0 cs1 : CSet}
    {I0 I1 : List Sit} (h0 : ExpandLists g an (ns.map (·.1)) cs0.core I0)
    (hd0 : cs0.dists = ns.map (·.2)) (h1 : ExpandLists g an (ns.map (·.1)) cs1.core I1)
    (hd1 : cs1.dists = ns.map (·.2)) : tg cs0 = tg cs1 := by
  rw [tg_eq h0 hd0, tg_eq h1 hd1]
  congr 2
  obtain ⟨n0, e0, t0⟩ := h0.iter
  obtain ⟨n1, e1, t1⟩ := h1.iter
  rw [e0, e1]
  apply iterI_terminal_unique
  · rw [← e0, ← t0]; exact Nat.le_refl _
  · rw [← e1, ← t1]; exact Nat.le_refl _

end Yaep.LI
