import Yaep.Lemmas.PruneCBasic
/-!
# Computing the witnesses of `WfHeap` (rank and chain head) for a given heap

Nothing is proved about these functions: `wfHeapB` checks their result (`wfHeapB_sound`).
-/
namespace Yaep.PC

/-- one round of `rank (i) := 1 + max (rank of the cells i refers to)` -/
def rankRound (h : Array Cell) (rk : Array Nat) : Array Nat :=
  ((List.range h.size).map fun i =>
    (succs h i).foldl (fun m k => max m (rk.getD k 0 + 1)) 0).toArray

/-- heights (for an acyclic heap): `size` rounds from 0 -/
def autoRank (h : Array Cell) : Array Nat :=
  (List.range h.size).foldl (fun rk _ => rankRound h rk) (List.replicate h.size 0).toArray

/-- one round of `head (next of i) := head (i)` -/
def headRound (h : Array Cell) (hd : Array Nat) : Array Nat :=
  (List.range h.size).foldl (fun hd i =>
    match cellAt h i with
    | .alt _ (some j) => hd.set! j (hd.getD i i)
    | _ => hd) hd

def autoHead (h : Array Cell) : Array Nat :=
  (List.range h.size).foldl (fun hd _ => headRound h hd) (List.range h.size).toArray

/-- the checker applied to the computed witnesses -/
def wfAuto (h : Array Cell) : Bool :=
  let rk := autoRank h
  let hd := autoHead h
  wfHeapB h (fun i => rk.getD i 0) (fun i => hd.getD i i)

theorem wfAuto_sound {h : Array Cell} (hb : wfAuto h = true) :
    WfHeap h (fun i => (autoRank h).getD i 0) (fun i => (autoHead h).getD i i) :=
  wfHeapB_sound hb

end Yaep.PC
