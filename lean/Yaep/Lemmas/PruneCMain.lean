import Yaep.Lemmas.PruneCFree
/-!
# Facts about `find_minimal_translation` as a whole, in the form the theorems of
`Props/PruneC.lean` use them
-/
namespace Yaep.PC
open Yaep

/-- cost of the translation a child slot refers to: the field of an abstract node, the field of
the first alternative of a chain, 0 for a leaf -/
def costOf (h : Array Cell) (y : Nat) : Int :=
  match cellAt h y with
  | .anode _ c _ => c
  | .alt nd _ => costAt h nd
  | _ => 0

theorem totalList_map {γ : Type} (f : γ → Node) : ∀ l : List γ,
    Node.totalList (l.map f) = true ↔ ∀ x ∈ l, (f x).total = true
  | [] => by simp [Node.totalList]
  | x :: l => by simp [Node.totalList, totalList_map f l]

section
variable {h0 : Array Cell} {rk hd : Nat → Nat} {one free : Bool}

/-- the forest of a well-formed heap has no empty ALT node -/
theorem U_total (wf : WfHeap h0 rk hd) : ∀ (b k : Nat), rk k ≤ b → k < h0.size →
    (U h0 rk k).total = true := by
  intro b
  induction b using Nat.strongRecOn with
  | _ b ih =>
    intro k hb hk
    cases hc : cellAt h0 k with
    | anode nm c ks =>
      rw [U_anode wf hk hc]
      simp only [Node.total, totalList_map]
      intro x hx
      obtain ⟨p1, p2, -⟩ := (wf.anode k nm c ks hk hc).2 x hx
      exact ih (rk x) (by omega) x (Nat.le_refl _) p1
    | alt nd nx =>
      have hal : isAlt h0 k = true := by simp [isAlt, hc]
      have hch := chain0_isChain wf hk hal
      obtain ⟨t, ht⟩ := hch.head_eq
      rw [U_alt wf hk hal]
      simp only [Node.total, totalList_map, Bool.and_eq_true, Bool.not_eq_true']
      refine ⟨by rw [ht]; simp, ?_⟩
      intro j hj
      obtain ⟨q1, q2, q3, q4⟩ := hch.props wf hk j hj
      obtain ⟨r1, r2, r3⟩ := altNode_props wf q1 q2
      exact ih (rk (altNode h0 j)) (by omega) _ (Nat.le_refl _) r1
    | nil => rw [U_leaf (by simp [isAlt, hc]) (by simp [isAnode, hc]), hc]; rfl
    | err => rw [U_leaf (by simp [isAlt, hc]) (by simp [isAnode, hc]), hc]; rfl
    | term _ _ => rw [U_leaf (by simp [isAlt, hc]) (by simp [isAnode, hc]), hc]; rfl

theorem U_eq_unfoldC (wf : WfHeap h0 rk hd) {k : Nat} (hk : k < h0.size) :
    U h0 rk k = unfoldC h0 h0.size k :=
  unfoldWith_indep _ wf (rk k) k (Nat.le_refl _) hk _ _ (by omega) (wf.rk_lt k hk)

/-- every kept cell of a chain has the minimal cost -/
theorem kept_cost (wf : WfHeap h0 rk hd) {a : Nat} (ha : a < h0.size) (hal : isAlt h0 a = true)
    {j : Nat} (hj : j ∈ kept h0 rk one a) : altCost h0 rk one j = cost0 h0 rk one a := by
  rw [kept_eq wf ha hal] at hj
  rw [cost0_alt wf one ha hal]
  have : j ∈ minCells (altCost h0 rk one) (chain0 h0 a) := by
    cases one
    · simpa using hj
    · exact List.mem_of_mem_take (by simpa using hj)
  unfold minCells at this
  simpa using (List.mem_filter.1 this).2

end

/-! ## the two passes of `find_minimal_translation` -/

/-- the state after `prune_to_minimal (root, &cost)` -/
def pass1 (fuel : Nat) (h0 : Array Cell) (root : Nat) (one free : Bool) : PSt × Nat × Int :=
  pruneToMinimal one free fuel { heap := h0 } root

/-- the state after `traverse_pruned_translation (root)` -/
def pass2 (fuel : Nat) (h0 : Array Cell) (root : Nat) (one free : Bool) (nameBlk : Nat → Nat) : TSt :=
  traversePruned free nameBlk fuel { heap := (pass1 fuel h0 root one free).1.heap }
    (pass1 fuel h0 root one free).2.1

theorem fmt_heap (fuel : Nat) (h0 : Array Cell) (root : Nat) (one free : Bool) (nameBlk : Nat → Nat)
    (nu eu : Bool) :
    (findMinimalTranslation fuel h0 root one free nameBlk nu eu).heap =
      (pass2 fuel h0 root one free nameBlk).heap := rfl
theorem fmt_root (fuel : Nat) (h0 : Array Cell) (root : Nat) (one free : Bool) (nameBlk : Nat → Nat)
    (nu eu : Bool) :
    (findMinimalTranslation fuel h0 root one free nameBlk nu eu).root =
      (pass1 fuel h0 root one free).2.1 := rfl
theorem fmt_oof (fuel : Nat) (h0 : Array Cell) (root : Nat) (one free : Bool) (nameBlk : Nat → Nat)
    (nu eu : Bool) :
    (findMinimalTranslation fuel h0 root one free nameBlk nu eu).oof =
      ((pass1 fuel h0 root one free).1.oof || (pass2 fuel h0 root one free nameBlk).oof) := rfl

section
variable {h0 : Array Cell} {rk hd : Nat → Nat} (wf : WfHeap h0 rk hd) {root fuel : Nat}
  (hr : root < h0.size) (hdr : hd root = root) (hf : h0.size ≤ fuel) (one free : Bool)
  (nameBlk : Nat → Nat)
include wf hr hdr hf

theorem pass1_facts :
    Inv h0 rk hd one free (fun _ => False) (pass1 fuel h0 root one free).1 ∧
    (pass1 fuel h0 root one free).2.1 = res0 h0 rk one root ∧
    (pass1 fuel h0 root one free).2.2 = (cost0 h0 rk one root : Int) ∧
    Visited h0 free (pass1 fuel h0 root one free).1 root ∧
    (pass1 fuel h0 root one free).1.oof = false ∧
    (∀ i, i ∈ (pass1 fuel h0 root one free).1.coll → Reach h0 root i) :=
  prune_top wf hr hdr (by have := wf.rk_lt root hr; omega)

theorem pass2_facts :
    TInv (pass1 fuel h0 root one free).1.heap free nameBlk (fun _ => False)
      (pass2 fuel h0 root one free nameBlk) ∧
    Done (pass1 fuel h0 root one free).1.heap free nameBlk (pass2 fuel h0 root one free nameBlk)
      (res0 h0 rk one root) ∧
    (pass2 fuel h0 root one free nameBlk).oof = false ∧
    (∀ m, m ∈ (pass2 fuel h0 root one free nameBlk).resv →
      free = true ∧ ResvFrom (pass1 fuel h0 root one free).1.heap nameBlk (res0 h0 rk one root) m) ∧
    InF h0 rk hd one free (pass1 fuel h0 root one free).1 (res0 h0 rk one root) := by
  obtain ⟨p1, p2, p3, p4, p5, p6⟩ := pass1_facts wf hr hdr hf one free
  have hE := InF_res0 wf p1 hr hdr p4
  have hrank : rk (hd (res0 h0 rk one root)) < fuel := by
    have := res0_rank (one := one) wf hr hdr
    have := wf.rk_lt root hr
    omega
  have := traverse_top (free := free) (nameBlk := nameBlk) (pruned_of_inv wf p1) hE hrank
  unfold pass2
  rw [p2]
  exact ⟨this.1, this.2.1, this.2.2.1, this.2.2.2, hE⟩

end

theorem sum_cast (l : List Nat) : ((l.sum : Nat) : Int) = (l.map fun (n : Nat) => (n : Int)).sum := by
  induction l with
  | nil => rfl
  | cons x l ih => simp [ih]

section
variable {h0 : Array Cell} {rk hd : Nat → Nat} {one free : Bool} {nameBlk : Nat → Nat}

/-- after both passes the cost of a processed cell that is not an ALT cell is its minimal cost -/
theorem restored_nonalt (wf : WfHeap h0 rk hd) {s : PSt} {t : TSt}
    (hinv : Inv h0 rk hd one free (fun _ => False) s)
    (htinv : TInv s.heap free nameBlk (fun _ => False) t) {n : Nat} (hn : n < h0.size)
    (hal : isAlt h0 n = false) (hv : Visited h0 free s n) (hd' : DoneZ s.heap free nameBlk t n) :
    costOf t.heap n = (cost0 h0 rk one n : Int) ∧ costAt t.heap n = (cost0 h0 rk one n : Int) := by
  cases hc : cellAt h0 n with
  | anode nm c ks =>
    obtain ⟨ks', e1, -⟩ := visited_anode wf hinv hn hc hv
    obtain ⟨-, e2⟩ := hd'.1 _ _ _ e1
    simp only [costOf, costAt, e2]
    constructor <;> omega
  | alt _ _ => simp [isAlt, hc] at hal
  | nil =>
    have e1 := (nonalt_kind wf hinv hn (fun h => h) hal).2.2 (by simp [isAnode, hc])
    have e2 : cellAt t.heap n = .nil := by
      rcases htinv.cells n with h | ⟨_, _, _, _, h, _⟩
      · rw [h, e1, hc]
      · rw [e1, hc] at h; cases h
    simp [costOf, costAt, e2, cost0_leaf one hal (by simp [isAnode, hc])]
  | err =>
    have e1 := (nonalt_kind wf hinv hn (fun h => h) hal).2.2 (by simp [isAnode, hc])
    have e2 : cellAt t.heap n = .err := by
      rcases htinv.cells n with h | ⟨_, _, _, _, h, _⟩
      · rw [h, e1, hc]
      · rw [e1, hc] at h; cases h
    simp [costOf, costAt, e2, cost0_leaf one hal (by simp [isAnode, hc])]
  | term cd att =>
    have e1 := (nonalt_kind wf hinv hn (fun h => h) hal).2.2 (by simp [isAnode, hc])
    have e2 : cellAt t.heap n = .term cd att := by
      rcases htinv.cells n with h | ⟨_, _, _, _, h, _⟩
      · rw [h, e1, hc]
      · rw [e1, hc] at h; cases h
    simp [costOf, costAt, e2, cost0_leaf one hal (by simp [isAnode, hc])]

/-- the cost found through the reference that replaces `y0` is the minimal cost of `y0` -/
theorem costOf_res0 (wf : WfHeap h0 rk hd) {s : PSt} {t : TSt}
    (hinv : Inv h0 rk hd one free (fun _ => False) s)
    (htinv : TInv s.heap free nameBlk (fun _ => False) t) {y0 : Nat} (hy : y0 < h0.size)
    (hdy : hd y0 = y0) (hv : Visited h0 free s y0)
    (hdone : Done s.heap free nameBlk t (res0 h0 rk one y0)) :
    costOf t.heap (res0 h0 rk one y0) = (cost0 h0 rk one y0 : Int) := by
  cases hal : isAlt h0 y0 with
  | false =>
    rw [res0_nonalt hal] at hdone ⊢
    exact (restored_nonalt wf hinv htinv hy hal hv (hdone _ (.refl _))).1
  | true =>
    obtain ⟨hcells, hlinked⟩ := visited_alt_chain wf hinv hy hal hdy hv
    have hkne := kept_ne_nil (one := one) wf hy hal
    cases hk : kept h0 rk one y0 with
    | nil => exact absurd hk hkne
    | cons j r =>
      have hjk : j ∈ kept h0 rk one y0 := by rw [hk]; simp
      obtain ⟨p1, p2, p3, p4, p5, p6, p7, p8⟩ := kept_mem_props wf hy hal hdy hjk
      obtain ⟨⟨nx, ej⟩, hvn, -⟩ := hcells j (kept_subset y0 j hjk)
      have hcost := kept_cost wf hy hal hjk
      unfold altCost at hcost
      have halc : ∃ a b, cellAt h0 y0 = .alt a b := by
        unfold isAlt at hal
        split at hal
        · exact ⟨_, _, by assumption⟩
        · cases hal
      obtain ⟨a, b, ec⟩ := halc
      cases r with
      | nil =>
        have hres : res0 h0 rk one y0 = altNode h0 j := by unfold res0; rw [ec, hk]
        rw [hres] at hdone ⊢
        rw [(restored_nonalt wf hinv htinv p5 p6 hvn (hdone _ (.refl _))).1, hcost]
      | cons j' r' =>
        have hres : res0 h0 rk one y0 = j := by unfold res0; rw [ec, hk]
        rw [hres] at hdone ⊢
        have ejt : cellAt t.heap j = .alt (altNode h0 j) nx := by
          rcases htinv.cells j with h | ⟨_, _, _, _, h, _⟩
          · rw [h, ej]
          · rw [ej] at h; cases h
        have hdn : DoneZ s.heap free nameBlk t (altNode h0 j) :=
          hdone _ (.step (b := altNode h0 j) (by cases nx <;> simp [succs, ej]) (.refl _))
        simp only [costOf, ejt]
        rw [(restored_nonalt wf hinv htinv p5 p6 hvn hdn).2, hcost]

end

/-! ## kinds of cells, the two tables -/

section
variable {h0 : Array Cell} {rk hd : Nat → Nat} {one free : Bool} {nameBlk : Nat → Nat}

/-- the kind of a cell as far as the freeing loop looks at it -/
def kindOf (h : Array Cell) (q : Nat) : Nat :=
  match cellAt h q with
  | .nil => 0
  | .err => 1
  | .anode _ _ _ => 2
  | _ => 3

theorem isNilCell_kind (h : Array Cell) (q : Nat) : isNilCell h q = (kindOf h q == 0) := by
  unfold isNilCell kindOf; cases cellAt h q <;> rfl
theorem isErrCell_kind (h : Array Cell) (q : Nat) : isErrCell h q = (kindOf h q == 1) := by
  unfold isErrCell kindOf; cases cellAt h q <;> rfl
theorem isAnode_kind (h : Array Cell) (q : Nat) : isAnode h q = (kindOf h q == 2) := by
  unfold isAnode kindOf; cases cellAt h q <;> rfl
theorem isNE_kind (h : Array Cell) (q : Nat) : isNE h q = (kindOf h q == 0 || kindOf h q == 1) := by
  unfold isNE; rw [isNilCell_kind, isErrCell_kind]

theorem kind_restored {F : Array Cell} {Y : Nat → Prop} {t : TSt} (hinv : TInv F free nameBlk Y t)
    (q : Nat) : kindOf t.heap q = kindOf F q := by
  rcases hinv.cells q with e | ⟨nm, c, ks, _, e1, e2⟩
  · simp only [kindOf, e]
  · simp only [kindOf, e1, e2]

theorem InF.seen (wf : WfHeap h0 rk hd) {s : PSt} {z : Nat} (h : InF h0 rk hd one free s z) :
    Seen h0 hd free s z := by
  rcases h with h | ⟨a, ha, hal, hda, hv, hz⟩
  · exact Or.inl h
  · exact Or.inr ⟨a, ha, hal, hda, hv, kept_subset a z hz⟩

/-- a cell the first pass has seen keeps its kind -/
theorem Seen.kind (wf : WfHeap h0 rk hd) {s : PSt}
    (hinv : Inv h0 rk hd one free (fun _ => False) s) {q : Nat} (hq : Seen h0 hd free s q) :
    kindOf s.heap q = kindOf h0 q := by
  rcases hq with ⟨hk, hal, hv⟩ | ⟨a, ha, hal, hda, hv, hz⟩
  · obtain ⟨k1, k2, k3⟩ := nonalt_kind wf hinv hk (fun h => h) hal
    cases han : isAnode h0 q with
    | true =>
      rw [han] at k2
      rw [isAnode_kind] at k2 han
      have a1 : kindOf s.heap q = 2 := by simpa using k2
      have a2 : kindOf h0 q = 2 := by simpa using han
      rw [a1, a2]
    | false => simp only [kindOf, k3 han]
  · obtain ⟨⟨nx, e⟩, -, -⟩ := (visited_alt_chain wf hinv ha hal hda hv).1 q hz
    have hqa := ((chain0_isChain wf ha hal).props wf ha q hz).2.1
    unfold isAlt at hqa
    split at hqa
    · rename_i e0; simp only [kindOf, e, e0]
    · cases hqa

end

section
variable {h0 : Array Cell} {rk hd : Nat → Nat} (wf : WfHeap h0 rk hd) {root fuel : Nat}
  (hr : root < h0.size) (hdr : hd root = root) (hf : h0.size ≤ fuel) (one free : Bool)
  (nameBlk : Nat → Nat)
include wf hr hdr hf

/-- `tnodes_vlo` holds exactly the cells reachable from the old root -/
theorem coll_iff (hfree : free = true) (q : Nat) :
    q ∈ (pass1 fuel h0 root one free).1.coll ↔ Reach h0 root q := by
  obtain ⟨p1, p2, p3, p4, p5, p6⟩ := pass1_facts wf hr hdr hf one free
  refine ⟨p6 q, fun h => ?_⟩
  exact ((Seen.of_visited wf hr hdr p4).reach wf p1 h).coll wf p1 hfree

theorem coll_seen {q : Nat} (h : Reach h0 root q) :
    Seen h0 hd free (pass1 fuel h0 root one free).1 q := by
  obtain ⟨p1, p2, p3, p4, p5, p6⟩ := pass1_facts wf hr hdr hf one free
  exact (Seen.of_visited wf hr hdr p4).reach wf p1 h

/-- reachability in the final heap from the new root -/
theorem reach_new_iff (z : Nat) :
    Reach (pass2 fuel h0 root one free nameBlk).heap (res0 h0 rk one root) z ↔
      Reach (pass1 fuel h0 root one free).1.heap (res0 h0 rk one root) z :=
  reach_restored (pass2_facts wf hr hdr hf one free nameBlk).1

theorem reach_new_seen {z : Nat}
    (h : Reach (pass2 fuel h0 root one free nameBlk).heap (res0 h0 rk one root) z) :
    Seen h0 hd free (pass1 fuel h0 root one free).1 z := by
  obtain ⟨p1, p2, p3, p4, p5, p6⟩ := pass1_facts wf hr hdr hf one free
  obtain ⟨q1, q2, q3, q4, q5⟩ := pass2_facts wf hr hdr hf one free nameBlk
  exact (q5.reach wf p1 ((reach_restored q1).1 h)).seen wf

/-- the kind of a seen cell in the final heap -/
theorem kind_final {q : Nat} (h : Seen h0 hd free (pass1 fuel h0 root one free).1 q) :
    kindOf (pass2 fuel h0 root one free nameBlk).heap q = kindOf h0 q := by
  obtain ⟨p1, p2, p3, p4, p5, p6⟩ := pass1_facts wf hr hdr hf one free
  obtain ⟨q1, q2, q3, q4, q5⟩ := pass2_facts wf hr hdr hf one free nameBlk
  rw [kind_restored q1, h.kind wf p1]

/-- `reserv_mem_tab` after the traversal: the cells reachable from the new root … -/
theorem resv_cell_iff (hfree : free = true) (q : Nat) :
    Mem.cell q ∈ (pass2 fuel h0 root one free nameBlk).resv ↔
      Reach (pass2 fuel h0 root one free nameBlk).heap (res0 h0 rk one root) q := by
  obtain ⟨q1, q2, q3, q4, q5⟩ := pass2_facts wf hr hdr hf one free nameBlk
  rw [reach_restored q1]
  constructor
  · intro h
    obtain ⟨-, z, hz, h | ⟨_, h⟩⟩ := q4 _ h
    · injection h with h; rw [h]; exact hz
    · cases h
  · intro h
    exact ((q2 q h).2 hfree).1

/-- … and the name blocks of the abstract nodes among them -/
theorem resv_name_iff (hfree : free = true) (b : Nat) :
    Mem.name b ∈ (pass2 fuel h0 root one free nameBlk).resv ↔
      ∃ z, Reach (pass2 fuel h0 root one free nameBlk).heap (res0 h0 rk one root) z ∧
        isAnode h0 z = true ∧ nameBlk z = b := by
  obtain ⟨p1, p2, p3, p4, p5, p6⟩ := pass1_facts wf hr hdr hf one free
  obtain ⟨q1, q2, q3, q4, q5⟩ := pass2_facts wf hr hdr hf one free nameBlk
  have hk : ∀ z, Reach (pass1 fuel h0 root one free).1.heap (res0 h0 rk one root) z →
      isAnode (pass1 fuel h0 root one free).1.heap z = isAnode h0 z := by
    intro z hz
    rw [isAnode_kind, isAnode_kind, ((q5.reach wf p1 hz).seen wf).kind wf p1]
  constructor
  · intro h
    obtain ⟨-, z, hz, h | ⟨ha, h⟩⟩ := q4 _ h
    · cases h
    · injection h with h
      exact ⟨z, (reach_restored q1).2 hz, by rw [← hk z hz]; exact ha, h.symm⟩
  · rintro ⟨z, hz, ha, rfl⟩
    have hzF := (reach_restored q1).1 hz
    exact ((q2 z hzF).2 hfree).2 (by rw [hk z hzF]; exact ha)

end

end Yaep.PC
