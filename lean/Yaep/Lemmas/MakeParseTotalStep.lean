import Yaep.Lemmas.MakeParseTotalLoop
/-!
# Totality of the model of `make_parse` in all-parses mode, part 4: one iteration of the main loop

From a state that satisfies the termination invariant `TInv` and is not flagged, one iteration
(`step`) leads to such a state again, does not set `bad`, and decreases the potential
`tpot g (2 * C + 2)`, where `C` bounds the size of the sets of the parse list.
-/
namespace Yaep.MP
open Yaep

section
variable {g : Grammar} {ok : Nat → Nat → Nat → Bool} {toks : List Nat} {c : Ctx}

theorem TInv.rest_lt {s : St} {fin : Nat → Nat} (hinv : TInv g ok toks s fin) {X : Nat} {rest : List Nat}
    (hst : s.stack = X :: rest) : ∀ y ∈ rest, y < X := by
  have := hinv.sorted
  rw [hst] at this
  exact (List.pairwise_cons.mp this).1

/-- **a nonterminal before the dot** -/
theorem tstep_nt (hcc : CtxAllc g ok toks c) (hcyc : ¬ Cyclic g) (hsr : g.symsInRange = true)
    {C : Nat} (hC : ∀ j, (c.sets.getD j #[]).size ≤ C) {s : St} {fin : Nat → Nat}
    (hinv : TInv g ok toks s fin) (hb : s.bad = false) {X : Nat} {rest : List Nat}
    (hst : s.stack = X :: rest) {rlX : Rule} {A : Nat} (hr : g.rules[(s.state X).rule]? = some rlX)
    (hpos : (s.state X).pos ≠ 0) (hsym : rlX.rhs[(s.state X).pos - 1]? = some (.n A)) :
    ∃ fin', TInv g ok toks (step c s) fin' ∧ (step c s).bad = false ∧
      tpot g (2 * C + 2) fin' (step c s) < tpot g (2 * C + 2) fin s ∧ (step c s).stack ≠ [] := by
  have hc := hcc.toCtxAll
  have hXmem : X ∈ s.stack := by rw [hst]; simp
  obtain ⟨hXlt, hXok⟩ := hinv.sts X hXmem
  have hrule := hc.rule_eq hr
  rw [step_nt' hst hpos (by rw [hrule]; exact getD_of_getElem? hsym)]
  -- the exponent of the top state before the step
  have hE0 : expOf g (s.state X) (fin X) =
      rhoI g rlX.lhs (ntLoc c s X A).orig (fin X) * (g.maxRhs + 1) + (ntLoc c s X A).pos + 1 := by
    unfold expOf
    rw [ruleLhs_eq hr]
    show _ = rhoI g rlX.lhs (s.state X).orig (fin X) * (g.maxRhs + 1) + ((s.state X).pos - 1) + 1
    omega
  have hsuf : (ntLoc c s X A).plInd = fin X → ∀ j s', (ntLoc c s X A).pos < j → rlX.rhs[j]? = some s' →
      Der g [s'] [] := by
    intro hpl j s' hj hs'
    obtain ⟨rl0, hr0, _, hsf⟩ := hXok.rule
    rw [hr] at hr0; injection hr0 with hr0; subst hr0
    have hj' : (s.state X).pos - 1 < j := hj
    exact hsf hpos hpl j s' (by omega) hs'
  obtain ⟨os', hM⟩ := candLoop_all (L := ntLoc c s X A) (set := c.sets.getD (s.state X).plInd #[]) hc.all
    (fun n _ s' => s'.bad = false ∧ s'.termNodes = s.termNodes ∧
      ((n = 0 ∧ s' = ntS0 s X) ∨ (n ≠ 0 ∧ ∃ f, TLc g ok toks s X rest fin (ntLoc c s X A)
        (expOf g (s.state X) (fin X)) (2 * n) s'.states s'.stack f)))
    (fun n os s' hn hm => by
      obtain ⟨m1, m2, m3⟩ := hm
      refine ⟨m1, m2, ?_⟩
      rcases m3 with ⟨h0, _⟩ | ⟨_, f, hf⟩
      · exact absurd h0 hn
      · exact Or.inr ⟨hn, f, hf⟩)
    (reduces c (c.sets.getD (s.state X).plInd #[]) A)
    (fun i hi' n os s' hf hm => by
      obtain ⟨sr, so, rl', kids, hsit, hr', hlhs, hE, _, hE2⟩ := cand_facts_all hc hi' hf
      obtain ⟨m1, m2, m3⟩ := hm
      rw [hsit]
      refine ⟨by rw [candidate_bad_all hc.all]; exact m1, by rw [candidate_termNodes_all hc.all]; exact m2, ?_⟩
      right
      refine ⟨Nat.succ_ne_zero _, ?_⟩
      exact tl_cand hc.all hcyc hsr hinv hst rfl hr hsym hsuf hE0 hr' hlhs hE hE2 m3)
    0 [] (ntS0 s X) ⟨hb, rfl, Or.inl ⟨rfl, rfl⟩⟩
  -- the number of candidates
  obtain ⟨i, hi, hfound⟩ := cand_exists_all hcc hr hpos (hXok.item hpos) hsym
  have hn0 := candLoop_count_pos (L := ntLoc c s X A) (set := c.sets.getD (s.state X).plInd #[]) hc.all []
    (ntS0 s X) hi hfound
  have hnle := candLoop_count_le (L := ntLoc c s X A) (set := c.sets.getD (s.state X).plInd #[]) hc.all
    (reduces c (c.sets.getD (s.state X).plInd #[]) A) [] (ntS0 s X)
  have hnC : (candLoop c (ntLoc c s X A) (c.sets.getD (s.state X).plInd #[])
      (reduces c (c.sets.getD (s.state X).plInd #[]) A) 0 [] (ntS0 s X)).2 ≤ C :=
    Nat.le_trans hnle (Nat.le_trans (reduces_length_le _ _ _) (hC _))
  have hif : ((candLoop c (ntLoc c s X A) (c.sets.getD (s.state X).plInd #[])
      (reduces c (c.sets.getD (s.state X).plInd #[]) A) 0 [] (ntS0 s X)).2 == 0) = false := by
    simpa using hn0
  rw [hif]
  simp only [Bool.false_eq_true, if_false]
  generalize (candLoop c (ntLoc c s X A) (c.sets.getD (s.state X).plInd #[])
      (reduces c (c.sets.getD (s.state X).plInd #[]) A) 0 [] (ntS0 s X)) = r at hM hn0 hnC
  obtain ⟨sF, nF⟩ := r
  simp only at hM hn0 hnC ⊢
  obtain ⟨mb, mt, m3⟩ := hM
  rcases m3 with ⟨h0, _⟩ | ⟨_, f, hf⟩
  · exact absurd h0 hn0
  obtain ⟨new, hshape, hnewlen, hnew⟩ := hf.shape
  have hrestlt := hinv.rest_lt hst
  have hXpos : 1 ≤ X := hinv.pos1 X hXmem
  refine ⟨f, ⟨hf.sorted, ?_, by rw [mt]; exact hinv.tn, ?_, ?_, ?_⟩, mb, ?_, by rw [hshape]; simp⟩
  · intro y hy
    refine ⟨hf.lt y hy, ?_⟩
    rw [hshape] at hy
    rcases List.mem_append.mp hy with hy | hy
    · exact (hnew y hy).2.1
    · rcases List.mem_cons.mp hy with rfl | hy
      · rw [hf.finOld _ hXlt]; exact hf.topOK.1
      · have hyX := hrestlt y hy
        have hymem : y ∈ s.stack := by rw [hst]; exact List.mem_cons_of_mem _ hy
        obtain ⟨hylt, hyok⟩ := hinv.sts y hymem
        show TStOK g ok toks (sF.states.getD y default) (f y)
        rw [hf.old y hylt (by omega), hf.finOld y hylt]; exact hyok
  · intro y hy
    rw [hshape] at hy
    rcases List.mem_append.mp hy with hy | hy
    · have := (hnew y hy).1; omega
    · exact hinv.pos1 y (by rw [hst]; exact hy)
  · intro _
    have h1 := hinv.one (by rw [hst]; simp)
    rw [hshape]; rw [hst] at h1
    exact List.mem_append_right _ h1
  · by_cases h1X : 1 = X
    · subst h1X
      obtain ⟨_, _, _, t4, t5, t6⟩ := hf.top
      obtain ⟨a1, a2, a3⟩ := hinv.st1
      exact ⟨t4.trans a1, t5.trans a2, t6.trans a3⟩
    · have h1lt : 1 < s.states.size := by omega
      have : sF.state 1 = s.state 1 := hf.old 1 h1lt h1X
      rw [this]; exact hinv.st1
  · -- the potential
    unfold tpot
    rw [hshape, hst, pot_append]
    simp only [pot]
    have hEpos : 1 ≤ expOf g (s.state X) (fin X) := by rw [hE0]; omega
    obtain ⟨E', hE'⟩ : ∃ E', expOf g (s.state X) (fin X) = E' + 1 := ⟨_, (Nat.sub_add_cancel hEpos).symm⟩
    have hK : 1 ≤ 2 * C + 2 := by omega
    have h1 : pot (2 * C + 2) (fun x => expOf g (sF.state x) (f x)) new ≤ new.length * (2 * C + 2) ^ E' := by
      apply pot_le hK
      intro y hy
      have := (hnew y hy).2.2
      have e : sF.state y = sF.states.getD y default := rfl
      rw [e]; omega
    have h2 : (2 * C + 2) ^ expOf g (sF.state X) (f X) ≤ (2 * C + 2) ^ E' := by
      apply Nat.pow_le_pow_right hK
      have := hf.topOK.2
      rw [hf.finOld _ hXlt]
      have e : sF.state X = sF.states.getD X default := rfl
      rw [e]; omega
    have h3 : pot (2 * C + 2) (fun x => expOf g (sF.state x) (f x)) rest =
        pot (2 * C + 2) (fun x => expOf g (s.state x) (fin x)) rest := by
      apply pot_congr
      intro y hy
      have hyX := hrestlt y hy
      have hylt : y < s.states.size := by omega
      have e : sF.state y = s.state y := hf.old y hylt (by omega)
      simp only [e, hf.finOld y hylt]
    rw [h3, hE', Nat.pow_succ]
    have hW : 1 ≤ (2 * C + 2) ^ E' := Nat.pow_pos (by omega)
    have h4 : new.length * (2 * C + 2) ^ E' ≤ (2 * C) * (2 * C + 2) ^ E' :=
      Nat.mul_le_mul_right _ (by omega)
    have h5 : (2 * C + 2) ^ E' * (2 * C + 2) = (2 * C) * (2 * C + 2) ^ E' + 2 * (2 * C + 2) ^ E' := by
      rw [Nat.mul_comm, Nat.add_mul]
    rw [h5]
    generalize (2 * C + 2) ^ E' = W at *
    generalize (2 * C) * W = V at *
    omega

/-! ## a terminal before the dot -/

theorem stepTerm_proj_all {sid : Nat} {st : PState} {pos : Nat} {disp : Option Nat} {a : Nat}
    {pa : Option Nat} {s : St} (hall : c.oneParse = false) :
    (stepTerm c sid st pos disp a pa s).states =
      s.states.set! sid { st with pos := pos, plInd := if pos != 0 then st.plInd - 1 else st.plInd } ∧
    (stepTerm c sid st pos disp a pa s).stack = s.stack ∧
    (stepTerm c sid st pos disp a pa s).termNodes.size = s.termNodes.size ∧
    (s.bad = false → st.plInd ≠ 0 → 0 ≤ c.plToks.getD (st.plInd - 1 + 1) (-1) →
      (c.plToks.getD (st.plInd - 1 + 1) (-1)).toNat < s.termNodes.size →
      (stepTerm c sid st pos disp a pa s).bad = false) := by
  unfold stepTerm
  cases pa with
  | none =>
    refine ⟨rfl, rfl, rfl, ?_⟩
    intro hb hpl _ _
    simp [hb, hpl]
  | some p =>
    cases disp with
    | none =>
      refine ⟨rfl, rfl, rfl, ?_⟩
      intro hb hpl _ _
      simp [hb, hpl]
    | some d =>
      simp only [hall]
      by_cases he : (a == c.errT) = true
      · simp only [he, if_true]
        refine ⟨rfl, rfl, rfl, ?_⟩
        intro hb hpl _ _
        simp [hb, hpl]
      · simp only [he]
        cases hk : s.termNodes.getD (c.plToks.getD (st.plInd - 1 + 1) (-1)).toNat none with
        | some node =>
          simp only [Bool.false_eq_true, if_false]
          refine ⟨rfl, rfl, rfl, ?_⟩
          intro hb hpl _ _
          simp [hb, hpl]
        | none =>
          simp only [Bool.false_eq_true, if_false]
          refine ⟨rfl, rfl, ?_, ?_⟩
          · simp
          · intro hb hpl h1 h2
            simp [hb, hpl]
            rw [← Array.getD_eq_getD_getElem?]
            exact ⟨h1, h2⟩

/-- **a terminal before the dot** -/
theorem tstep_term (hc : CtxAll g ok toks c) {K : Nat} (hK : 2 ≤ K) {s : St} {fin : Nat → Nat}
    (hinv : TInv g ok toks s fin) (hb : s.bad = false) {X : Nat} {rest : List Nat}
    (hst : s.stack = X :: rest) {rlX : Rule} {a : Nat} (hr : g.rules[(s.state X).rule]? = some rlX)
    (hpos : (s.state X).pos ≠ 0) (hsym : rlX.rhs[(s.state X).pos - 1]? = some (.t a)) :
    TInv g ok toks (step c s) fin ∧ (step c s).bad = false ∧
      tpot g K fin (step c s) < tpot g K fin s ∧ (step c s).stack ≠ [] := by
  have hXmem : X ∈ s.stack := by rw [hst]; simp
  obtain ⟨hXlt, hXok⟩ := hinv.sts X hXmem
  have hrule := hc.rule_eq hr
  rw [step_term hst hpos (by rw [hrule]; exact getD_of_getElem? hsym)]
  obtain ⟨e1, e2, e3, e4⟩ := stepTerm_proj_all (c := c) (sid := X) (st := s.state X)
    (pos := (s.state X).pos - 1) (disp := (c.rule (s.state X).rule).order.getD ((s.state X).pos - 1) none)
    (a := a) (pa := (s.state (s.state X).parent).anode) (s := s) hc.all
  generalize stepTerm c X (s.state X) ((s.state X).pos - 1)
    ((c.rule (s.state X).rule).order.getD ((s.state X).pos - 1) none) a
    (s.state (s.state X).parent).anode s = s' at e1 e2 e3 e4
  -- the item with the dot before the terminal
  have hitem := hXok.item hpos
  have hpp : (s.state X).pos - 1 + 1 = (s.state X).pos := by omega
  rw [← hpp] at hitem
  obtain ⟨j0, hj0, _, hE0⟩ := hitem.term_inv hr hsym
  have hple := hXok.plLe
  have hfin := hXok.finLe
  have hXget : s'.state X = { s.state X with
      pos := (s.state X).pos - 1
      plInd := (if (s.state X).pos - 1 != 0 then (s.state X).plInd - 1 else (s.state X).plInd) } := by
    show s'.states.getD X default = _
    rw [e1, getD_set!, if_pos ⟨rfl, hXlt⟩]
  have hother : ∀ y, y ≠ X → s'.state y = s.state y := by
    intro y hy
    show s'.states.getD y default = s.states.getD y default
    rw [e1, getD_set!, if_neg (fun hh => hy hh.1.symm)]
  have hXok' : TStOK g ok toks (s'.state X) (fin X) := by
    rw [hXget]
    refine ⟨⟨rlX, hr, ?_, ?_⟩, ?_, ?_, hfin⟩
    · have := hXok.rule
      obtain ⟨rl0, hr0, hle, _⟩ := this
      rw [hr] at hr0; injection hr0 with hr0; subst hr0
      show (s.state X).pos - 1 ≤ _
      omega
    · intro hp1 hpl
      exfalso
      have hp1' : (s.state X).pos - 1 ≠ 0 := hp1
      have hbne : ((s.state X).pos - 1 != 0) = true := by simpa using hp1'
      simp only [hbne, if_true] at hpl
      omega
    · intro hp1
      have hp1' : (s.state X).pos - 1 ≠ 0 := hp1
      have hbne : ((s.state X).pos - 1 != 0) = true := by simpa using hp1'
      simp only [hbne, if_true]
      have : (s.state X).plInd - 1 = j0 := by omega
      rw [this]; exact hE0
    · show (if (s.state X).pos - 1 != 0 then (s.state X).plInd - 1 else (s.state X).plInd) ≤ fin X
      split <;> omega
  have hexp : expOf g (s'.state X) (fin X) + 1 = expOf g (s.state X) (fin X) := by
    rw [hXget]; unfold expOf
    show rhoI g (ruleLhs g (s.state X).rule) (s.state X).orig (fin X) * (g.maxRhs + 1) +
      ((s.state X).pos - 1) + 1 = _
    omega
  have hrestlt := hinv.rest_lt hst
  refine ⟨⟨by rw [e2]; exact hinv.sorted, ?_, by rw [e3]; exact hinv.tn, by rw [e2]; exact hinv.pos1,
    by rw [e2]; exact hinv.one, ?_⟩, ?_, ?_, by rw [e2, hst]; simp⟩
  · intro y hy
    rw [e2] at hy
    obtain ⟨hylt, hyok⟩ := hinv.sts y hy
    refine ⟨by rw [e1]; simpa using hylt, ?_⟩
    by_cases hyX : y = X
    · subst hyX; exact hXok'
    · rw [hother y hyX]; exact hyok
  · by_cases h1X : 1 = X
    · subst h1X
      rw [hXget]; exact hinv.st1
    · rw [hother 1 h1X]; exact hinv.st1
  · apply e4 hb (by omega)
    · rw [hc.ptoks _ (by omega) (by omega)]; omega
    · rw [hc.ptoks _ (by omega) (by omega)]
      have := hinv.tn
      omega
  · unfold tpot
    rw [e2, hst]
    simp only [pot]
    have h3 : pot K (fun x => expOf g (s'.state x) (fin x)) rest =
        pot K (fun x => expOf g (s.state x) (fin x)) rest := by
      apply pot_congr
      intro y hy
      have := hrestlt y hy
      simp only [hother y (by omega)]
    rw [h3, ← hexp, Nat.pow_succ]
    have hW : 1 ≤ K ^ expOf g (s'.state X) (fin X) := Nat.pow_pos (by omega)
    have : K ^ expOf g (s'.state X) (fin X) * 2 ≤ K ^ expOf g (s'.state X) (fin X) * K :=
      Nat.mul_le_mul_left _ hK
    omega

/-! ## the whole right-hand side is processed: pop -/

theorem step_pop_proj {s : St} {X : Nat} {rest : List Nat} (hst : s.stack = X :: rest)
    (hpos : (s.state X).pos = 0) :
    (step c s).states = s.states ∧ (step c s).stack = rest ∧ (step c s).bad = s.bad ∧
    (step c s).termNodes = s.termNodes := by
  cases han : (s.state X).anode with
  | some an =>
    rw [step_pop_some hst hpos han]
    obtain ⟨_, h2, h3, h4⟩ := popFold_proj an (List.range (c.rule (s.state X).rule).transLen)
      { s with stack := rest }
    obtain ⟨_, h5⟩ := popFold_table an (List.range (c.rule (s.state X).rule).transLen)
      { s with stack := rest }
    exact ⟨h2, h3, h4, h5⟩
  | none =>
    cases hpa : (s.state (s.state X).parent).anode with
    | some pa =>
      rw [step_pop_none hst hpos han hpa]
      split <;> exact ⟨rfl, rfl, rfl, rfl⟩
    | none =>
      unfold step
      simp only [hst, hpos, han, hpa]
      simp

/-- **pop** -/
theorem tstep_pop {K : Nat} (hK : 1 ≤ K) {s : St} {fin : Nat → Nat}
    (hinv : TInv g ok toks s fin) {X : Nat} {rest : List Nat}
    (hst : s.stack = X :: rest) (hpos : (s.state X).pos = 0) :
    TInv g ok toks (step c s) fin ∧ (step c s).bad = s.bad ∧
      tpot g K fin (step c s) < tpot g K fin s := by
  obtain ⟨e1, e2, e3, e4⟩ := step_pop_proj (c := c) hst hpos
  have hrestlt := hinv.rest_lt hst
  have hsorted := hinv.sorted
  rw [hst] at hsorted
  have hst' : (step c s).state = s.state := by
    funext y; show (step c s).states.getD y default = s.states.getD y default; rw [e1]
  refine ⟨⟨by rw [e2]; exact (List.pairwise_cons.mp hsorted).2, ?_, by rw [e4]; exact hinv.tn, ?_, ?_,
    by rw [hst']; exact hinv.st1⟩, e3, ?_⟩
  · intro y hy
    rw [e2] at hy
    rw [e1, hst']
    exact hinv.sts y (by rw [hst]; exact List.mem_cons_of_mem _ hy)
  · intro y hy
    rw [e2] at hy
    exact hinv.pos1 y (by rw [hst]; exact List.mem_cons_of_mem _ hy)
  · intro hne
    rw [e2] at hne ⊢
    have h1 := hinv.one (by rw [hst]; simp)
    rw [hst] at h1
    rcases List.mem_cons.mp h1 with h1X | h1
    · exfalso
      cases rest with
      | nil => exact hne rfl
      | cons y l =>
        have hy1 := hrestlt y (by simp)
        have hy2 := hinv.pos1 y (by rw [hst]; simp)
        omega
    · exact h1
  · unfold tpot
    rw [e2, hst, hst']
    simp only [pot]
    have : 1 ≤ K ^ expOf g (s.state X) (fin X) := Nat.pow_pos (by omega)
    omega

/-! ## one iteration -/

/-- **one iteration of the main loop**: the invariant is kept, `bad` is not set, the potential
decreases -/
theorem tstep (hcc : CtxAllc g ok toks c) (hcyc : ¬ Cyclic g) (hsr : g.symsInRange = true)
    {C : Nat} (hC : ∀ j, (c.sets.getD j #[]).size ≤ C) {s : St} {fin : Nat → Nat}
    (hinv : TInv g ok toks s fin) (hb : s.bad = false) (hne : s.stack ≠ []) :
    ∃ fin', TInv g ok toks (step c s) fin' ∧ (step c s).bad = false ∧
      tpot g (2 * C + 2) fin' (step c s) < tpot g (2 * C + 2) fin s ∧
      ((step c s).stack = [] → ∃ X, s.stack = [X] ∧ (s.state X).pos = 0) := by
  cases hst : s.stack with
  | nil => exact absurd hst hne
  | cons X rest =>
    have hXmem : X ∈ s.stack := by rw [hst]; simp
    obtain ⟨hXlt, hXok⟩ := hinv.sts X hXmem
    obtain ⟨rl, hr, hle, _⟩ := hXok.rule
    by_cases hpos : (s.state X).pos = 0
    · obtain ⟨a1, a2, a3⟩ := tstep_pop (c := c) (K := 2 * C + 2) (by omega) hinv hst hpos
      refine ⟨fin, a1, by rw [a2]; exact hb, a3, ?_⟩
      intro he
      rw [(step_pop_proj (c := c) hst hpos).2.1] at he
      exact ⟨X, by rw [he], hpos⟩
    · have hlt : (s.state X).pos - 1 < rl.rhs.length := by omega
      cases hY : rl.rhs[(s.state X).pos - 1] with
      | t a =>
        obtain ⟨a1, a2, a3, a4⟩ := tstep_term hcc.toCtxAll (K := 2 * C + 2) (by omega) hinv hb hst hr hpos
          (by rw [List.getElem?_eq_getElem hlt, hY])
        exact ⟨fin, a1, a2, a3, fun he => absurd he a4⟩
      | n A =>
        obtain ⟨f, a1, a2, a3, a4⟩ := tstep_nt hcc hcyc hsr hC hinv hb hst hr hpos
          (by rw [List.getElem?_eq_getElem hlt, hY])
        exact ⟨f, a1, a2, a3, fun he => absurd he a4⟩

end

end Yaep.MP
