import Yaep.Lemmas.RecoveredParseConsec
import Yaep.Lemmas.RecoveredParseEarley
/-!
# The repaired input is the input with disjoint segments replaced by `error`

`RepairAt e p n v l`: `l` — a list of `(terminal, token number)` — is obtained from the token list
`v`, whose first token has the number `p`, by keeping tokens (`(a, some k)`, `k` the number of the
kept token) and replacing disjoint, possibly empty, possibly adjacent segments by `(e, none)`; `n`
is the total number of tokens in the replaced segments.  `Repair e n v v'` forgets the numbers.
-/
namespace Yaep.RP
open Yaep

inductive RepairAt (e : Nat) : Nat → Nat → List Nat → List (Nat × Option Nat) → Prop where
  | nil (p : Nat) : RepairAt e p 0 [] []
  | keep {p n : Nat} {v : List Nat} {l : List (Nat × Option Nat)} (a : Nat) :
      RepairAt e (p + 1) n v l → RepairAt e p n (a :: v) ((a, some p) :: l)
  | replace {p n : Nat} {v : List Nat} {l : List (Nat × Option Nat)} (seg : List Nat) :
      RepairAt e (p + seg.length) n v l → RepairAt e p (seg.length + n) (seg ++ v) ((e, none) :: l)

inductive Repair (e : Nat) : Nat → List Nat → List Nat → Prop where
  | nil : Repair e 0 [] []
  | keep {n : Nat} {v v' : List Nat} (a : Nat) : Repair e n v v' → Repair e n (a :: v) (a :: v')
  | replace {n : Nat} {v v' : List Nat} (seg : List Nat) :
      Repair e n v v' → Repair e (seg.length + n) (seg ++ v) (e :: v')

theorem RepairAt.forget {e p n : Nat} {v : List Nat} {l : List (Nat × Option Nat)}
    (h : RepairAt e p n v l) : Repair e n v (l.map (·.1)) := by
  induction h with
  | nil p => exact Repair.nil
  | keep a _ ih => exact Repair.keep a ih
  | replace seg _ ih => exact Repair.replace seg ih

/-- the token numbers of the kept tokens are their positions, the kept terminals are the tokens
at these positions -/
theorem RepairAt.kept {e p n : Nat} {v : List Nat} {l : List (Nat × Option Nat)}
    (h : RepairAt e p n v l) :
    ∀ a k, (a, some k) ∈ l → p ≤ k ∧ v[k - p]? = some a := by
  induction h with
  | nil p => intro a k hm; cases hm
  | @keep p n v l a0 _ ih =>
    intro a k hm
    rcases List.mem_cons.mp hm with heq | hm
    · simp only [Prod.mk.injEq, Option.some.injEq] at heq
      obtain ⟨rfl, rfl⟩ := heq
      exact ⟨Nat.le_refl _, by simp⟩
    · obtain ⟨h1, h2⟩ := ih a k hm
      refine ⟨by omega, ?_⟩
      have : k - p = (k - (p + 1)) + 1 := by omega
      rw [this, List.getElem?_cons_succ]; exact h2
  | @replace p n v l seg _ ih =>
    intro a k hm
    rcases List.mem_cons.mp hm with heq | hm
    · simp at heq
    · obtain ⟨h1, h2⟩ := ih a k hm
      refine ⟨by omega, ?_⟩
      rw [List.getElem?_append_right (by omega)]
      have : k - p - seg.length = k - (p + seg.length) := by omega
      rw [this]; exact h2

/-- the `(terminal, token number)` pairs of the list elements after set 0 -/
def pairs (pl : List PSet) : List (Nat × Option Nat) := (pl.drop 1).map fun s => (s.term.getD 0, s.tok)

theorem pairs_fst (pl : List PSet) : (pairs pl).map (·.1) = word pl := by
  unfold pairs word
  rw [List.map_map]; rfl

theorem consec_tail {x : PSet} {l : List PSet} (h : Consec (x :: l)) : Consec l := by
  cases l with
  | nil => trivial
  | cons y l => exact h.2

/-- the induction: a segment of a parse list that ends with the set shifted on the last token and
whose first element, if it is a token set, was shifted on token `p` -/
theorem repairAt_of_segment {g : Grammar} {full : List Nat} :
    ∀ (rest : List PSet) (p : Nat), rest ≠ [] →
      (∃ s, rest.getLast? = some s ∧ s.tok = some (full.length - 1)) →
      (∀ s ∈ rest, s.Ok g full) → (toks rest).Pairwise (· < ·) →
      (∀ k ∈ toks rest, p ≤ k ∧ k < full.length) → Consec rest →
      (∀ x k, rest.head? = some x → x.tok = some k → k = p) →
      ∃ n, RepairAt g.errT p n (full.drop p) (rest.map fun s => (s.term.getD 0, s.tok)) ∧
        n + cnt rest = full.length - p := by
  intro rest
  induction rest with
  | nil => intro p h; exact absurd rfl h
  | cons x rest' ih =>
    intro p _ hlast hok hsorted hbounds hcon hhead
    have hxok := hok x List.mem_cons_self
    have hok' : ∀ s ∈ rest', s.Ok g full := fun s hs => hok s (List.mem_cons_of_mem _ hs)
    have hcon' : Consec rest' := consec_tail hcon
    rcases hxok with ⟨hxt, hxterm⟩ | ⟨k, t, hxt, hxterm, hft⟩
    · -- an `error` set
      have hne' : rest' ≠ [] := by
        intro h0; subst h0
        obtain ⟨s, hs1, hs2⟩ := hlast
        simp only [List.getLast?_singleton, Option.some.injEq] at hs1
        subst hs1; rw [hxt] at hs2; cases hs2
      have hlast' : ∃ s, rest'.getLast? = some s ∧ s.tok = some (full.length - 1) := by
        obtain ⟨s, hs1, hs2⟩ := hlast
        rw [List.getLast?_cons_of_ne_nil hne'] at hs1
        exact ⟨s, hs1, hs2⟩
      have htoks : toks (x :: rest') = toks rest' := toks_cons_none rest' hxt
      rw [htoks] at hsorted hbounds
      have hcnt : cnt (x :: rest') = cnt rest' := cnt_cons_none rest' hxt
      have hpair : (x.term.getD 0, x.tok) = (g.errT, none) := by rw [hxterm, hxt]; rfl
      obtain ⟨y, rest'', rfl⟩ := List.exists_cons_of_ne_nil hne'
      cases hyt : y.tok with
      | none =>
        obtain ⟨n, hr, hn⟩ := ih p hne' hlast' hok' hsorted hbounds hcon'
          (fun z k hz hk => by
            simp only [List.head?_cons, Option.some.injEq] at hz
            subst hz; rw [hyt] at hk; cases hk)
        refine ⟨([] : List Nat).length + n, ?_, by rw [hcnt]; simpa using hn⟩
        rw [List.map_cons, hpair]
        exact RepairAt.replace (e := g.errT) (p := p) ([] : List Nat) hr
      | some k =>
        have hkb : p ≤ k ∧ k < full.length := hbounds k (by
          rw [toks_cons_some rest'' hyt]; exact List.mem_cons_self)
        have hb' : ∀ k' ∈ toks (y :: rest''), k ≤ k' ∧ k' < full.length := by
          intro k' hk'
          refine ⟨?_, (hbounds k' hk').2⟩
          rw [toks_cons_some rest'' hyt] at hk' hsorted
          rcases List.mem_cons.mp hk' with rfl | hk'
          · exact Nat.le_refl _
          · exact Nat.le_of_lt ((List.pairwise_cons.mp hsorted).1 k' hk')
        obtain ⟨n, hr, hn⟩ := ih k hne' hlast' hok' hsorted hb' hcon'
          (fun z k' hz hk' => by
            simp only [List.head?_cons, Option.some.injEq] at hz
            subst hz; rw [hyt] at hk'; injection hk' with hk'; exact hk'.symm)
        refine ⟨((full.drop p).take (k - p)).length + n, ?_, ?_⟩
        · rw [List.map_cons, hpair]
          have hsplit : full.drop p = (full.drop p).take (k - p) ++ full.drop k := by
            have h1 := (List.take_append_drop (k - p) (full.drop p)).symm
            rw [List.drop_drop] at h1
            have : p + (k - p) = k := by omega
            rw [this] at h1
            exact h1
          have hlen : ((full.drop p).take (k - p)).length = k - p := by
            rw [List.length_take, List.length_drop]; omega
          have hr' : RepairAt g.errT (p + ((full.drop p).take (k - p)).length) n (full.drop k)
              ((y :: rest'').map fun s => (s.term.getD 0, s.tok)) := by
            rw [hlen]
            have : p + (k - p) = k := by omega
            rw [this]; exact hr
          have := RepairAt.replace (e := g.errT) (p := p) ((full.drop p).take (k - p)) hr'
          rw [← hsplit] at this
          exact this
        · rw [hcnt, List.length_take, List.length_drop]
          omega
    · -- a set shifted on token `k = p`
      have hkp : k = p := hhead x k rfl hxt
      subst hkp
      have hklt : k < full.length := (List.getElem?_eq_some_iff.mp hft).1
      have hdrop : full.drop k = t :: full.drop (k + 1) := by
        rw [List.drop_eq_getElem_cons hklt]
        congr 1
        have := List.getElem?_eq_getElem hklt
        rw [this] at hft
        injection hft
      have hpair : (x.term.getD 0, x.tok) = (t, some k) := by rw [hxterm, hxt]; rfl
      have hcnt : cnt (x :: rest') = cnt rest' + 1 := cnt_cons_some rest' hxt
      rw [toks_cons_some rest' hxt] at hsorted hbounds
      cases rest' with
      | nil =>
        obtain ⟨s, hs1, hs2⟩ := hlast
        simp only [List.getLast?_singleton, Option.some.injEq] at hs1
        subst hs1
        rw [hxt] at hs2
        injection hs2 with hs2
        refine ⟨0, ?_, ?_⟩
        · rw [List.map_cons, hpair, hdrop]
          have : full.drop (k + 1) = [] := List.drop_eq_nil_iff.mpr (by omega)
          rw [this]
          exact RepairAt.keep t (RepairAt.nil _)
        · rw [hcnt]; simp [cnt, toks]; omega
      | cons y rest'' =>
        have hne' : y :: rest'' ≠ [] := List.cons_ne_nil _ _
        have hlast' : ∃ s, (y :: rest'').getLast? = some s ∧ s.tok = some (full.length - 1) := by
          obtain ⟨s, hs1, hs2⟩ := hlast
          rw [List.getLast?_cons_of_ne_nil hne'] at hs1
          exact ⟨s, hs1, hs2⟩
        have hb' : ∀ k' ∈ toks (y :: rest''), k + 1 ≤ k' ∧ k' < full.length := by
          intro k' hk'
          exact ⟨(List.pairwise_cons.mp hsorted).1 k' hk', (hbounds k' (List.mem_cons_of_mem _ hk')).2⟩
        obtain ⟨n, hr, hn⟩ := ih (k + 1) hne' hlast' hok' (List.pairwise_cons.mp hsorted).2 hb' hcon'
          (fun z k' hz hk' => by
            simp only [List.head?_cons, Option.some.injEq] at hz
            subst hz
            have hl : Link x y := hcon.1
            exact hl k' (k + 1) hk' (by unfold nextTok; rw [hxt]))
        refine ⟨n, ?_, by rw [hcnt]; omega⟩
        rw [List.map_cons, hpair, hdrop]
        exact RepairAt.keep t hr


/-- **the final list of a recovering parse**: its elements after set 0, as `(terminal, token
number)` pairs, are the input (with the end marker) with disjoint segments replaced by `error`;
the replaced segments and the kept tokens together are all tokens -/
theorem repairAt_final {g : Grammar} {la rmatch : Nat} {w : List Nat} {sfuel : Nat}
    (hok : (parseWithRecovery g la rmatch w sfuel).ok = true) :
    ∃ n, RepairAt g.errT 0 n (w ++ [g.eofT]) (pairs (parseWithRecovery g la rmatch w sfuel).pl) ∧
      n + cnt (parseWithRecovery g la rmatch w sfuel).pl = w.length + 1 ∧
      (g.errT ∉ w → g.errT ≠ g.eofT →
        n = ((parseWithRecovery g la rmatch w sfuel).calls.map fun c => c.2.2 - c.2.1).sum) := by
  have hinv := parseWithRecovery_inv hok
  have hcon := parseWithRecovery_consec hok
  have hlen : (w ++ [g.eofT]).length = w.length + 1 := by simp
  obtain ⟨sl, hsl1, hsl2⟩ := hinv.lastTok (by omega)
  obtain ⟨s0, rest, hpl, h1, h2, hseg, _⟩ := hinv.pl_ok
  rw [hpl] at hcon hsl1
  have hne : rest ≠ [] := by
    intro h0; subst h0
    simp only [List.getLast?_singleton, Option.some.injEq] at hsl1
    subst hsl1; rw [h2] at hsl2; cases hsl2
  have hlast : ∃ s, rest.getLast? = some s ∧ s.tok = some ((w ++ [g.eofT]).length - 1) := by
    rw [List.getLast?_cons_of_ne_nil hne] at hsl1
    exact ⟨sl, hsl1, hsl2⟩
  obtain ⟨n, hr, hn⟩ := repairAt_of_segment (g := g) rest 0 hne hlast hseg.sets hseg.sorted hseg.bounds
    (consec_tail hcon) (by
      intro x k hx hk
      obtain ⟨y, rest', rfl⟩ := List.exists_cons_of_ne_nil hne
      simp only [List.head?_cons, Option.some.injEq] at hx
      subst hx
      have hl : Link s0 y := hcon.1
      exact hl k 0 hk (by unfold nextTok; rw [h2]; simp [h1]))
  have hcnt : cnt (parseWithRecovery g la rmatch w sfuel).pl = cnt rest := by
    rw [hpl]; exact cnt_cons_none rest h2
  refine ⟨n, ?_, ?_, ?_⟩
  · unfold pairs
    rw [hpl]
    simpa using hr
  · rw [hcnt]; omega
  · intro hno hne'
    have hno' : g.errT ∉ w ++ [g.eofT] := by
      intro h
      rcases List.mem_append.mp h with h | h
      · exact hno h
      · exact hne' (List.mem_singleton.mp h)
    have hacct := hinv.acct hno'
    rw [← ignoredSum_eq_sum]
    rw [hcnt] at hacct
    omega

end Yaep.RP
