import Yaep.Lemmas.PruneCBasic
/-!
# What `prune_to_minimal` computes, as pure functions of the input heap

`U k` is the forest of cell `k` of the input heap, `cost0 k` the minimal cost `prune` computes
for it, `kept a` the cells of the chain `a` that remain linked (in their new order), `res0 k`
the cell `prune_to_minimal` returns for `k`.
-/
namespace Yaep.PC
open Yaep

/-- reachability along the references of the heap -/
inductive Reach (h : Array Cell) : Nat → Nat → Prop where
  | refl (a : Nat) : Reach h a a
  | step {a b c : Nat} : b ∈ succs h a → Reach h b c → Reach h a c

theorem Reach.trans {h : Array Cell} {a b c : Nat} (h1 : Reach h a b) (h2 : Reach h b c) :
    Reach h a c := by
  induction h1 with
  | refl _ => exact h2
  | step e _ ih => exact .step e (ih h2)

theorem Reach.single {h : Array Cell} {a b : Nat} (e : b ∈ succs h a) : Reach h a b :=
  .step e (.refl b)

/-- the state of the C locals `min_cost`, `result` (as the list of linked cells, head first)
after one more alternative `j` of cost `c` -/
def keepStep (one : Bool) (st : Nat × List Nat) (j c : Nat) : Nat × List Nat :=
  if st.2 = [] ∨ c < st.1 then (c, [j])
  else if st.1 = c ∧ one = false then (st.1, j :: st.2)
  else st

def keepFold (one : Bool) (cost : Nat → Nat) : List Nat → Nat × List Nat → Nat × List Nat
  | [], st => st
  | j :: l, st => keepFold one cost l (keepStep one st j (cost j))

section
variable (h0 : Array Cell) (rk : Nat → Nat) (one : Bool)

/-- the forest of cell `k` of the input heap -/
def U (k : Nat) : Node := unfoldC h0 (rk k + 1) k

/-- minimal cost of the forest of cell `k` -/
def cost0 (k : Nat) : Nat := (prune (!one) (U h0 rk k)).2

/-- the cells of the chain at `a` in the input heap -/
def chain0 (a : Nat) : List Nat := chainCells h0 h0.size a

/-- cost of the alternative of chain cell `j` -/
def altCost (j : Nat) : Nat := cost0 h0 rk one (altNode h0 j)

/-- the cells of the chain at `a` that stay linked, in their new order -/
def kept (a : Nat) : List Nat := (keepFold one (altCost h0 rk one) (chain0 h0 a) (0, [])).2

/-- the cell `prune_to_minimal` returns for `k` -/
def res0 (k : Nat) : Nat :=
  match cellAt h0 k with
  | .alt _ _ =>
    match kept h0 rk one k with
    | [j] => altNode h0 j
    | j :: _ => j
    | [] => k
  | _ => k
end

section
variable {h0 : Array Cell} {rk hd : Nat → Nat} (wf : WfHeap h0 rk hd) (one : Bool)
include wf

theorem chain0_isChain {a : Nat} (ha : a < h0.size) (hal : isAlt h0 a = true) :
    IsChain h0 a (chain0 h0 a) :=
  chainCells_isChain wf h0.size a ha hal (wf.rk_lt a ha)

theorem U_anode {k : Nat} {nm : String} {c : Int} {ks : Array (Option Nat)} (hk : k < h0.size)
    (e : cellAt h0 k = .anode nm c ks) :
    U h0 rk k = .anode nm c.toNat ((kidsOf ks).map (U h0 rk)) := by
  unfold U unfoldC
  conv => lhs; unfold unfoldWith
  simp only [e]
  congr 1
  apply List.map_congr_left
  intro x hx
  obtain ⟨-, hk'⟩ := wf.anode k nm c ks hk e
  obtain ⟨p1, p2, -⟩ := hk' x hx
  exact unfoldWith_indep _ wf (rk x) x (Nat.le_refl _) p1 _ _ (by omega) (by omega)

theorem altNode_props {j : Nat} (hj : j < h0.size) (hal : isAlt h0 j = true) :
    altNode h0 j < h0.size ∧ isAlt h0 (altNode h0 j) = false ∧ rk (altNode h0 j) < rk j := by
  unfold isAlt at hal
  split at hal
  · rename_i nd nx e
    obtain ⟨r1, r2, r3, -⟩ := wf.alt j nd nx hj e
    have : altNode h0 j = nd := by simp [altNode, e]
    rw [this]; exact ⟨r1, r2, r3⟩
  · cases hal

theorem U_alt {k : Nat} (hk : k < h0.size) (hal : isAlt h0 k = true) :
    U h0 rk k = .alt ((chain0 h0 k).map fun j => U h0 rk (altNode h0 j)) := by
  have hch := chain0_isChain wf hk hal
  unfold U unfoldC
  conv => lhs; unfold unfoldWith
  unfold isAlt at hal
  split at hal
  · rename_i nd nx e
    simp only [e, List.map_map]
    congr 1
    apply List.map_congr_left
    intro j hj
    obtain ⟨q1, q2, q3, q4⟩ := hch.props wf hk j hj
    obtain ⟨r1, r2, r3⟩ := altNode_props wf q1 q2
    exact unfoldWith_indep _ wf (rk (altNode h0 j)) _ (Nat.le_refl _) r1 _ _ (by omega) (by omega)
  · cases hal

omit wf in
theorem U_leaf {k : Nat} (h1 : isAlt h0 k = false) (h2 : isAnode h0 k = false) :
    U h0 rk k = match cellAt h0 k with
      | .term c a => .term c a
      | .err => .err
      | _ => .nil := by
  unfold U unfoldC unfoldWith
  unfold isAlt at h1
  unfold isAnode at h2
  split <;> simp_all

omit wf in
theorem cost0_leaf {k : Nat} (h1 : isAlt h0 k = false) (h2 : isAnode h0 k = false) :
    cost0 h0 rk one k = 0 := by
  unfold cost0
  rw [U_leaf h1 h2]
  split <;> simp [prune]

theorem cost0_anode {k : Nat} {nm : String} {c : Int} {ks : Array (Option Nat)} (hk : k < h0.size)
    (e : cellAt h0 k = .anode nm c ks) :
    cost0 h0 rk one k = c.toNat + ((kidsOf ks).map (cost0 h0 rk one)).sum := by
  unfold cost0
  rw [U_anode wf hk e, prune_anode]
  simp [sumMin, List.map_map, Function.comp_def]

theorem cost0_alt {k : Nat} (hk : k < h0.size) (hal : isAlt h0 k = true) :
    cost0 h0 rk one k = minNat ((chain0 h0 k).map (altCost h0 rk one)) := by
  unfold cost0
  rw [U_alt wf hk hal, prune_alt]
  simp only [List.map_map, Function.comp_def]
  rfl

end

end Yaep.PC
