import Yaep.Lemmas.Analysis
/-!
# Helper lemmas: closure (over-approximation) properties of FIRST and FOLLOW
-/
namespace Yaep

/-! ## `firstOfStr` -/

theorem mem_filterMap_fst {fs : List (Nat × Nat)} {B a : Nat} :
    a ∈ (fs.filterMap fun p => if p.1 == B then some p.2 else none) ↔ (B, a) ∈ fs := by
  rw [List.mem_filterMap]
  constructor
  · rintro ⟨⟨B', a'⟩, hp, h⟩
    split at h
    · rename_i hB
      simp only [beq_iff_eq] at hB
      simp only [Option.some.injEq] at h
      subst hB h
      exact hp
    · cases h
  · intro h
    exact ⟨(B, a), h, by simp⟩

@[simp] theorem firstOfStr_nil (nl : List Nat) (fs : List (Nat × Nat)) :
    firstOfStr nl fs [] = ([], true) := rfl

@[simp] theorem firstOfStr_t (nl : List Nat) (fs : List (Nat × Nat)) (a : Nat) (rest : List Sym) :
    firstOfStr nl fs (.t a :: rest) = ([a], false) := rfl

theorem firstOfStr_n (nl : List Nat) (fs : List (Nat × Nat)) (B : Nat) (rest : List Sym) :
    firstOfStr nl fs (.n B :: rest) =
      if B ∈ nl then
        ((fs.filterMap fun p => if p.1 == B then some p.2 else none) ++ (firstOfStr nl fs rest).1,
          (firstOfStr nl fs rest).2)
      else (fs.filterMap fun p => if p.1 == B then some p.2 else none, false) := by
  conv => lhs; unfold firstOfStr

theorem mem_firstOfStr_n {nl : List Nat} {fs : List (Nat × Nat)} {B a : Nat} {rest : List Sym} :
    a ∈ (firstOfStr nl fs (.n B :: rest)).1 ↔
      (B, a) ∈ fs ∨ (B ∈ nl ∧ a ∈ (firstOfStr nl fs rest).1) := by
  rw [firstOfStr_n]
  split
  · rename_i hB
    rw [List.mem_append, mem_filterMap_fst]
    simp [hB]
  · rename_i hB
    rw [mem_filterMap_fst]
    simp [hB]

theorem firstOfStr_n_snd {nl : List Nat} {fs : List (Nat × Nat)} {B : Nat} {rest : List Sym} :
    (firstOfStr nl fs (.n B :: rest)).2 = true ↔ B ∈ nl ∧ (firstOfStr nl fs rest).2 = true := by
  rw [firstOfStr_n]
  split
  · rename_i hB
    simp [hB]
  · rename_i hB
    simp [hB]

/-- the nullability flag of `firstOfStr` is exact -/
theorem firstOfStr_snd_iff {g : Grammar} (fs : List (Nat × Nat)) {β : List Sym} :
    (firstOfStr g.nullable fs β).2 = true ↔ Der g β [] := by
  induction β with
  | nil => simp [Der.nil]
  | cons s ss ih =>
    cases s with
    | t a =>
      simp only [firstOfStr_t, Bool.false_eq_true, false_iff]
      exact Der.not_t_nil
    | n B =>
      rw [firstOfStr_n_snd, ih]
      constructor
      · rintro ⟨h1, h2⟩
        exact Der.append (α := [Sym.n B]) (nullable_sound g B h1) h2
      · intro h
        have hall := h.forall_of_nil
        refine ⟨?_, Der.nil_of_forall fun x hx => hall x (List.mem_cons_of_mem _ hx)⟩
        have := symNullable_iff.mpr (hall (Sym.n B) List.mem_cons_self)
        simpa [symNullable] using this

/-! ## the universe of FIRST and FOLLOW -/

/-- all pairs `(A, a)` with `A < nN`, `a < nT` -/
def pairUniv (g : Grammar) : List (Nat × Nat) :=
  (List.range g.nN).flatMap fun A => (List.range g.nT).map fun a => (A, a)

theorem mem_pairUniv {g : Grammar} {A a : Nat} : (A, a) ∈ pairUniv g ↔ A < g.nN ∧ a < g.nT := by
  unfold pairUniv
  simp only [List.mem_flatMap, List.mem_map, List.mem_range, Prod.mk.injEq]
  constructor
  · rintro ⟨A', hA', a', ha', h1, h2⟩
    subst h1 h2
    exact ⟨hA', ha'⟩
  · rintro ⟨h1, h2⟩
    exact ⟨A, h1, a, h2, rfl, rfl⟩

theorem pairUniv_length (g : Grammar) : (pairUniv g).length = g.nN * g.nT := by
  unfold pairUniv
  generalize g.nN = n
  induction n with
  | zero => simp
  | succ n ih =>
    rw [List.range_succ, List.flatMap_append, List.length_append, ih]
    simp [Nat.succ_mul]

theorem symsInRange_lhs {g : Grammar} (h : g.symsInRange = true) {rl : Rule} (hrl : rl ∈ g.rules) :
    rl.lhs < g.nN := by
  unfold Grammar.symsInRange at h
  have := List.all_eq_true.mp h rl hrl
  simp only [Bool.and_eq_true, decide_eq_true_eq] at this
  exact this.1

theorem symsInRange_rhs {g : Grammar} (h : g.symsInRange = true) {rl : Rule} (hrl : rl ∈ g.rules) :
    ∀ s ∈ rl.rhs, Sym.inRange g s = true := by
  unfold Grammar.symsInRange at h
  have := List.all_eq_true.mp h rl hrl
  simp only [Bool.and_eq_true] at this
  exact List.all_eq_true.mp this.2

/-- terminals delivered by `firstOfStr` are in range if the table and the string are -/
theorem firstOfStr_inRange {g : Grammar} {nl : List Nat} {fs : List (Nat × Nat)}
    (hfs : fs ⊆ pairUniv g) {β : List Sym} (hβ : ∀ s ∈ β, Sym.inRange g s = true) {a : Nat}
    (ha : a ∈ (firstOfStr nl fs β).1) : a < g.nT := by
  induction β with
  | nil => simp at ha
  | cons s ss ih =>
    cases s with
    | t b =>
      simp only [firstOfStr_t, List.mem_singleton] at ha
      subst ha
      have := hβ (Sym.t a) List.mem_cons_self
      simpa [Sym.inRange] using this
    | n B =>
      rcases mem_firstOfStr_n.mp ha with h | ⟨_, h⟩
      · exact (mem_pairUniv.mp (hfs h)).2
      · exact ih (fun x hx => hβ x (List.mem_cons_of_mem _ hx)) h

/-! ## FIRST -/

theorem mem_firstStep {g : Grammar} {nl : List Nat} {fs : List (Nat × Nat)} {A a : Nat} :
    (A, a) ∈ firstStep g nl fs ↔
      ∃ rl ∈ g.rules, rl.lhs = A ∧ a ∈ (firstOfStr nl fs rl.rhs).1 := by
  unfold firstStep
  simp only [List.mem_flatMap, List.mem_map, Prod.mk.injEq]
  constructor
  · rintro ⟨rl, hrl, a', ha', h1, h2⟩
    subst h2
    exact ⟨rl, hrl, h1, ha'⟩
  · rintro ⟨rl, hrl, h1, ha⟩
    exact ⟨rl, hrl, a, ha, h1, rfl⟩

theorem firstStep_subset_univ {g : Grammar} (h : g.symsInRange = true) (nl : List Nat)
    (fs : List (Nat × Nat)) (hfs : fs ⊆ pairUniv g) : firstStep g nl fs ⊆ pairUniv g := by
  rintro ⟨A, a⟩ hp
  obtain ⟨rl, hrl, rfl, ha⟩ := mem_firstStep.mp hp
  exact mem_pairUniv.mpr ⟨symsInRange_lhs h hrl, firstOfStr_inRange hfs (symsInRange_rhs h hrl) ha⟩

theorem firstTab_subset_univ {g : Grammar} (h : g.symsInRange = true) :
    g.firstTab ⊆ pairUniv g := by
  unfold Grammar.firstTab
  apply saturate_subset_univ _ (pairUniv g)
  · exact fun s hs => firstStep_subset_univ h _ s hs
  · intro _ hx; cases hx

/-- the fuel `nN * nT + rules.length + 2` suffices (for grammars with symbols in range) -/
theorem firstTab_closed {g : Grammar} (h : g.symsInRange = true) :
    firstStep g g.nullable g.firstTab ⊆ g.firstTab := by
  unfold Grammar.firstTab
  apply saturate_closed _ (pairUniv g)
  · exact fun s hs => firstStep_subset_univ h _ s hs
  · intro _ hx; cases hx
  · exact List.nodup_nil
  · rw [pairUniv_length]; simp only [List.length_nil]; omega

theorem first_closed_aux {g : Grammar} (h : g.symsInRange = true) {β : List Sym} {w : List Nat}
    (hd : Der g β w) :
    ∀ (a : Nat) (w' : List Nat), w = a :: w' → a ∈ (firstOfStr g.nullable g.firstTab β).1 := by
  induction hd with
  | nil => intro a w' hw; cases hw
  | term _ _ =>
    intro a w' hw
    simp only [List.cons.injEq] at hw
    simp [hw.1]
  | @nt r rl ss u v hr h1 h2 ih1 ih2 =>
    intro a w' hw
    apply mem_firstOfStr_n.mpr
    cases u with
    | nil =>
      right
      refine ⟨?_, ih2 a w' (by simpa using hw)⟩
      have hn : Der g [Sym.n rl.lhs] [] := Der.of_mem_rules (List.mem_of_getElem? hr) h1
      have := symNullable_iff.mpr hn
      simpa [symNullable] using this
    | cons b u' =>
      left
      simp only [List.cons_append, List.cons.injEq] at hw
      apply firstTab_closed h
      apply mem_firstStep.mpr
      exact ⟨rl, List.mem_of_getElem? hr, rfl, ih1 a u' (by rw [hw.1])⟩

/-! ## FOLLOW -/

theorem mem_ntSuffixes {rhs : List Sym} {B : Nat} {rest : List Sym} :
    (B, rest) ∈ ntSuffixes rhs ↔ ∃ α, rhs = α ++ Sym.n B :: rest := by
  induction rhs with
  | nil =>
    simp only [ntSuffixes, List.not_mem_nil, false_iff]
    rintro ⟨α, hα⟩
    cases α <;> cases hα
  | cons s ss ih =>
    cases s with
    | t a =>
      simp only [ntSuffixes]
      rw [ih]
      constructor
      · rintro ⟨α, rfl⟩
        exact ⟨Sym.t a :: α, rfl⟩
      · rintro ⟨α, hα⟩
        cases α with
        | nil => cases hα
        | cons x α' =>
          simp only [List.cons_append, List.cons.injEq] at hα
          exact ⟨α', hα.2⟩
    | n C =>
      simp only [ntSuffixes, List.mem_cons, Prod.mk.injEq]
      rw [ih]
      constructor
      · rintro (⟨rfl, rfl⟩ | ⟨α, rfl⟩)
        · exact ⟨[], rfl⟩
        · exact ⟨Sym.n C :: α, rfl⟩
      · rintro ⟨α, hα⟩
        cases α with
        | nil =>
          simp only [List.nil_append, List.cons.injEq, Sym.n.injEq] at hα
          exact Or.inl ⟨hα.1.symm, hα.2.symm⟩
        | cons x α' =>
          simp only [List.cons_append, List.cons.injEq] at hα
          exact Or.inr ⟨α', hα.2⟩

theorem mem_followStep {g : Grammar} {nl : List Nat} {fs fl : List (Nat × Nat)} {B a : Nat} :
    (B, a) ∈ followStep g nl fs fl ↔
      ∃ rl ∈ g.rules, ∃ rest, (B, rest) ∈ ntSuffixes rl.rhs ∧
        (a ∈ (firstOfStr nl fs rest).1 ∨
          ((firstOfStr nl fs rest).2 = true ∧ (rl.lhs, a) ∈ fl)) := by
  unfold followStep
  simp only [List.mem_flatMap]
  constructor
  · rintro ⟨rl, hrl, ⟨B', rest⟩, hsuf, hmem⟩
    refine ⟨rl, hrl, rest, ?_⟩
    simp only [List.mem_map, Prod.mk.injEq, List.mem_append] at hmem
    obtain ⟨a', ha', h1, h2⟩ := hmem
    subst h1 h2
    refine ⟨hsuf, ?_⟩
    rcases ha' with ha' | ha'
    · exact Or.inl ha'
    · right
      split at ha'
      · rename_i he
        exact ⟨he, mem_filterMap_fst.mp ha'⟩
      · cases ha'
  · rintro ⟨rl, hrl, rest, hsuf, hor⟩
    refine ⟨rl, hrl, (B, rest), hsuf, ?_⟩
    simp only [List.mem_map, List.mem_append]
    refine ⟨a, ?_, rfl⟩
    rcases hor with ha | ⟨he, ha⟩
    · exact Or.inl ha
    · right
      rw [if_pos he]
      exact mem_filterMap_fst.mpr ha

theorem followStep_subset_univ {g : Grammar} (h : g.symsInRange = true) (nl : List Nat)
    (fs : List (Nat × Nat)) (hfs : fs ⊆ pairUniv g) (fl : List (Nat × Nat))
    (hfl : fl ⊆ pairUniv g) : followStep g nl fs fl ⊆ pairUniv g := by
  rintro ⟨B, a⟩ hp
  obtain ⟨rl, hrl, rest, hsuf, hor⟩ := mem_followStep.mp hp
  obtain ⟨α, hα⟩ := mem_ntSuffixes.mp hsuf
  have hrng := symsInRange_rhs h hrl
  rw [hα] at hrng
  apply mem_pairUniv.mpr
  constructor
  · have := hrng (Sym.n B) (List.mem_append_right _ List.mem_cons_self)
    simpa [Sym.inRange] using this
  · rcases hor with ha | ⟨_, ha⟩
    · apply firstOfStr_inRange hfs _ ha
      intro x hx
      exact hrng x (List.mem_append_right _ (List.mem_cons_of_mem _ hx))
    · exact (mem_pairUniv.mp (hfl ha)).2

/-- the fuel `nN * nT + rules.length + 2` suffices (for grammars with symbols in range) -/
theorem followTab_closed {g : Grammar} (h : g.symsInRange = true) :
    followStep g g.nullable g.firstTab g.followTab ⊆ g.followTab := by
  unfold Grammar.followTab
  apply saturate_closed _ (pairUniv g)
  · exact fun s hs => followStep_subset_univ h _ _ (firstTab_subset_univ h) s hs
  · intro _ hx; cases hx
  · exact List.nodup_nil
  · rw [pairUniv_length]; simp only [List.length_nil]; omega

end Yaep
