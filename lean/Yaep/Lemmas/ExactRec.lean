import Yaep.Lemmas.ExactBase
import Yaep.Lemmas.CompleteFinal
/-!
# Completeness of the all-parses forest on the final list of a recovering parse

`CX.final_all_complete`: `CP.makeParse_all_complete_ctx` carried through the transfer principle
(`RP.Final.reTok_all`: the run with the token numbers of the list is the run with the token numbers
`j - 1`, TERM attributes renamed; the event counters are part of the outcome and are not touched
by the renaming).
-/
namespace Yaep.CX
open Yaep Yaep.MP Yaep.RP

section
variable {g : Grammar} {la : Nat} {full : List Nat} {pl : List PSet} {S : Array (Array Item)}

/-- **an all-parses run on the final list of a recovering parse that counts no event denotes the
(renamed) translation of every derivation of the repaired input** -/
theorem final_all_complete (h : Final g la full pl) (hS : SameSets pl S) (hg : GrOK g)
    (hcyc : ¬ Cyclic g) (hsr : g.symsInRange = true)
    (hokd : OkDer g (okF g g.analysis la full pl) (word pl)) (hroot : RootUniq g (word pl))
    {fuel : Nat} {res : Result} (hm : makeParse g S (tokNums pl) false fuel = .ok res)
    (hev : res.reuse = 0 ∧ res.origins = 0) {pt : PT} (hpt : PT.IsDerivation g (word pl) pt) :
    (translate g pt).mapAttr (fix pl) ∈ (denoteTab res.tab).getD res.root [] := by
  rw [h.reTok_all hS hcyc hsr] at hm
  obtain ⟨res0, hm0, rfl⟩ := RC.ok_of_outRl hm
  have hcc := ctxAllc hS h.plInv h.length
  have h0 := CP.makeParse_all_complete_ctx hcc hg hsr hokd hroot hm0 hev hpt
  show _ ∈ (denoteTab (res0.tab.map (rlRec (fix pl)))).getD res0.root []
  rw [denoteTab_rl_getD]
  exact List.mem_map_of_mem h0

/-- … with soundness: the denoted trees are exactly the renamed translations -/
theorem final_all_eq (h : Final g la full pl) (hS : SameSets pl S) (hg : GrOK g)
    (hcyc : ¬ Cyclic g) (hsr : g.symsInRange = true)
    (hokd : OkDer g (okF g g.analysis la full pl) (word pl)) (hroot : RootUniq g (word pl))
    {fuel : Nat} {res : Result} (hm : makeParse g S (tokNums pl) false fuel = .ok res)
    (hev : res.reuse = 0 ∧ res.origins = 0) (t : Tree) :
    t ∈ (denoteTab res.tab).getD res.root [] ↔
      ∃ pt, PT.IsDerivation g (word pl) pt ∧ t = (translate g pt).mapAttr (fix pl) := by
  constructor
  · exact (h.all_sound hS hg hcyc hsr hm).1 t
  · rintro ⟨pt, hpt, rfl⟩
    exact final_all_complete h hS hg hcyc hsr hokd hroot hm hev hpt

/-- **the cost-flag pipeline on the final list, exactly**: for an event-free all-parses run the
pruned forest denotes exactly the minimal-cost translations of ALL derivations of the repaired
input -/
theorem final_cost_exact (h : Final g la full pl) (hS : SameSets pl S) (hg : GrOK g)
    (hcyc : ¬ Cyclic g) (hsr : g.symsInRange = true)
    (hokd : OkDer g (okF g g.analysis la full pl) (word pl)) (hroot : RootUniq g (word pl))
    {fuel : Nat} {res : Result} (hm : makeParse g S (tokNums pl) false fuel = .ok res)
    (hev : res.reuse = 0 ∧ res.origins = 0) {s : St} {r : Nat}
    (h1 : makeParseSt (mkCtx g S (tokNums pl) false) fuel = some s) (h2 : s.bad = false)
    (h3 : s.result = some r) (hx : exportTable s.heap r = some (res.tab, res.root)) :
    ExactCostSpecR g (word pl) (fix pl) s r := by
  obtain ⟨hwfh, hspec⟩ := RC.final_cost_spec h hS hg hcyc hsr h1 h2 h3
  intro free nameBlk fuel' f hf hfu
  obtain ⟨_, _, c3, c4, _, _⟩ := hspec free nameBlk fuel' f hf hfu
  have hF : ∀ t, t ∈ denote (PC.unfoldC (PC.ofHeap s.heap) f r) ↔
      ∃ pt, PT.IsDerivation g (word pl) pt ∧ t = (translate g pt).mapAttr (fix pl) := by
    intro t
    rw [← unfold_export hx hwfh hfu, denote_unfoldAt hm]
    exact final_all_eq h hS hg hcyc hsr hokd hroot hm hev t
  obtain ⟨e3, e4⟩ := exact_core (g := g) (tr := fun pt => (translate g pt).mapAttr (fix pl))
    (fun pt => RC.totalCost_mapAttr _ _) hF c3 c4
  exact ⟨hF, e3, e4⟩

end

end Yaep.CX
